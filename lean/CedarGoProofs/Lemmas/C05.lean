/-
  Helper definitions and lemmas for C05:
    * `cloneSub` = full substitution (every value);
    * `trace` / `runTrace`: the Cartesian-product view of the recursive enumeration, and the refinement
      `doBatch = runTrace ∘ trace`.
-/
import CedarGo.Model.Batch
set_option linter.unusedSimpArgs false
namespace CedarGo

/-! ## substitution -/

mutual
theorem subst_noop (k : String) (v : Value) : ∀ r : Value, r.hasVar k = false → Value.subst k v r = r
  | .entity ty id, h => by
      simp only [Value.hasVar] at h
      simp [Value.subst, h]
  | .record kvs, h => by
      simp only [Value.hasVar] at h
      simp [Value.subst, substKVs_noop k v kvs h]
  | .set xs, h => by
      simp only [Value.hasVar] at h
      simp [Value.subst, h]
  | .bool _, _ => rfl
  | .long _, _ => rfl
  | .str _, _ => rfl
  | .decimal _, _ => rfl
  | .datetime _, _ => rfl
  | .duration _, _ => rfl
  | .ip _, _ => rfl
theorem substKVs_noop (k : String) (v : Value) :
    ∀ kvs : List (String × Value), Value.hasVarKVs k kvs = false → Value.substKVs k v kvs = kvs
  | [], _ => rfl
  | (kk, x) :: rest, h => by
      simp only [Value.hasVarKVs, Bool.or_eq_false_iff] at h
      simp [Value.substKVs, subst_noop k v x h.1, substKVs_noop k v rest h.2]
end

mutual
theorem cloneSub_eq_subst (k : String) (v : Value) :
    ∀ r : Value, cloneSub k v r = (Value.subst k v r, r.hasVar k)
  | .entity ty id => by
      simp only [cloneSub, Value.subst, Value.hasVar]
      split <;> simp_all
  | .record kvs => by
      simp only [cloneSub, cloneSubKVs_eq k v kvs, Value.subst, Value.hasVar]
      cases hv : Value.hasVarKVs k kvs
      · simp [substKVs_noop k v kvs hv]
      · simp
  | .set xs => by
      simp only [cloneSub, cloneSubAny_eq k v xs, cloneSubMap_eq k v xs, Value.subst, Value.hasVar]
      cases hv : Value.hasVarList k xs <;> simp
  | .bool _ => rfl
  | .long _ => rfl
  | .str _ => rfl
  | .decimal _ => rfl
  | .datetime _ => rfl
  | .duration _ => rfl
  | .ip _ => rfl
theorem cloneSubKVs_eq (k : String) (v : Value) :
    ∀ kvs : List (String × Value), cloneSubKVs k v kvs = (Value.substKVs k v kvs, Value.hasVarKVs k kvs)
  | [] => rfl
  | (kk, x) :: rest => by
      simp [cloneSubKVs, Value.hasVarKVs, Value.substKVs, cloneSub_eq_subst k v x, cloneSubKVs_eq k v rest]
theorem cloneSubAny_eq (k : String) (v : Value) :
    ∀ xs : List Value, cloneSubAny k v xs = Value.hasVarList k xs
  | [] => rfl
  | x :: xs => by
      simp [cloneSubAny, Value.hasVarList, cloneSub_eq_subst k v x, cloneSubAny_eq k v xs]
theorem cloneSubMap_eq (k : String) (v : Value) :
    ∀ xs : List Value, cloneSubMap k v xs = Value.substList k v xs
  | [] => rfl
  | x :: xs => by
      simp [cloneSubMap, Value.substList, cloneSub_eq_subst k v x, cloneSubMap_eq k v xs]
end

/-! ### full substitution leaves no occurrence -/

theorem hasVarList_eq_any (k : String) : ∀ xs : List Value, Value.hasVarList k xs = xs.any (Value.hasVar k)
  | [] => rfl
  | x :: xs => by simp [Value.hasVarList, hasVarList_eq_any k xs]

theorem hasVarList_dedupV (k : String) : ∀ (xs acc : List Value),
    Value.hasVarList k acc = false → Value.hasVarList k xs = false → Value.hasVarList k (dedupV acc xs) = false
  | [], acc, ha, _ => by
    simp only [dedupV]
    rw [hasVarList_eq_any] at ha ⊢
    simpa using ha
  | x :: xs, acc, ha, hx => by
    simp only [Value.hasVarList, Bool.or_eq_false_iff] at hx
    simp only [dedupV]
    split
    · exact hasVarList_dedupV k xs acc ha hx.2
    · exact hasVarList_dedupV k xs (x :: acc) (by simp [Value.hasVarList, hx.1, ha]) hx.2

mutual
theorem subst_complete (k : String) (v : Value) (hv : v.hasVar k = false) :
    ∀ r : Value, (Value.subst k v r).hasVar k = false
  | .entity ty id => by
      simp only [Value.subst]
      split
      · exact hv
      · rename_i h; simpa [Value.hasVar] using h
  | .record kvs => by simp only [Value.subst, Value.hasVar]; exact substKVs_complete k v hv kvs
  | .set xs => by
      simp only [Value.subst]
      split
      · simp only [mkSet, Value.hasVar]
        exact hasVarList_dedupV k _ [] rfl (substList_complete k v hv xs)
      · rename_i h; simpa [Value.hasVar] using h
  | .bool _ => rfl
  | .long _ => rfl
  | .str _ => rfl
  | .decimal _ => rfl
  | .datetime _ => rfl
  | .duration _ => rfl
  | .ip _ => rfl
theorem substKVs_complete (k : String) (v : Value) (hv : v.hasVar k = false) :
    ∀ kvs : List (String × Value), Value.hasVarKVs k (Value.substKVs k v kvs) = false
  | [] => rfl
  | (kk, x) :: rest => by
      simp [Value.substKVs, Value.hasVarKVs, subst_complete k v hv x, substKVs_complete k v hv rest]
theorem substList_complete (k : String) (v : Value) (hv : v.hasVar k = false) :
    ∀ xs : List Value, Value.hasVarList k (Value.substList k v xs) = false
  | [] => rfl
  | x :: xs => by
      simp [Value.substList, Value.hasVarList, subst_complete k v hv x, substList_complete k v hv xs]
end

/-! ## the enumeration as a pass over the product -/

/-- what the leaves of the enumeration are, in order: the substitution and the result handed to the callback
    (`none`: a request part has the wrong type) -/
def trace : List (String × List Value) → Env → List (PolicyID × Policy) → List (String × Value) →
    List (List (String × Value) × Option BResult)
  | [], env, ps, vals => [(vals, leafResult env ps vals)]
  | (k, vs) :: rest, env, ps, vals =>
      let ps' := doPartial env ps
      let env' := if rest.isEmpty then fixIgnores env else env
      vs.flatMap fun v => trace rest (cloneSubEnv k v env') ps' (vals ++ [(k, v)])

/-- sequential processing of a trace: cancellation oracle, validity, callback; stop at the first failure -/
def runTrace {ε : Type} (cancelled : Nat → Bool) (cb : BResult → Except ε Unit) :
    List (List (String × Value) × Option BResult) → List BResult → BRun ε
  | [], calls => .ok calls
  | o :: os, calls =>
    if cancelled calls.length then .error (.cancelled, calls) else
    match o.2 with
    | none => .error (.invalidPart, calls)
    | some r =>
      match cb r with
      | .ok () => runTrace cancelled cb os (calls ++ [r])
      | .error e => .error (.callback e, calls ++ [r])

theorem runTrace_append {ε : Type} (cancelled : Nat → Bool) (cb : BResult → Except ε Unit)
    (xs ys : List (List (String × Value) × Option BResult)) (calls : List BResult) :
    runTrace cancelled cb (xs ++ ys) calls =
      match runTrace cancelled cb xs calls with
      | .error e => .error e
      | .ok calls' => runTrace cancelled cb ys calls' := by
  induction xs generalizing calls with
  | nil => simp [runTrace]
  | cons o os ih =>
    simp only [List.cons_append, runTrace]
    split
    · rfl
    · split
      · rfl
      · split
        · exact ih _
        · rfl

theorem loopM_eq_runTrace {ε : Type} (cancelled : Nat → Bool) (cb : BResult → Except ε Unit)
    (body : Value → List BResult → BRun ε) (tr : Value → List (List (String × Value) × Option BResult))
    (hbody : ∀ v calls, body v calls = runTrace cancelled cb (tr v) calls) (vs : List Value) (calls : List BResult) :
    loopM body vs calls = runTrace cancelled cb (vs.flatMap tr) calls := by
  induction vs generalizing calls with
  | nil => simp [loopM, runTrace]
  | cons v vs ih =>
    simp only [loopM, List.flatMap_cons, runTrace_append, hbody]
    cases runTrace cancelled cb (tr v) calls with
    | error e => rfl
    | ok c => exact ih c

theorem trace_ne_nil (vars : List (String × List Value)) (env : Env) (ps : List (PolicyID × Policy))
    (vals : List (String × Value)) (hne : ∀ kv ∈ vars, kv.2 ≠ []) : trace vars env ps vals ≠ [] := by
  induction vars generalizing env ps vals with
  | nil => simp [trace]
  | cons kv rest ih =>
    obtain ⟨k, vs⟩ := kv
    have hvs : vs ≠ [] := hne (k, vs) (by simp)
    have hrest : ∀ kv ∈ rest, kv.2 ≠ [] := fun kv h => hne kv (by simp [h])
    cases vs with
    | nil => exact absurd rfl hvs
    | cons v vs' =>
      simp only [trace, List.flatMap_cons]
      intro h
      have := List.append_eq_nil_iff.mp h
      exact ih _ _ _ hrest this.1

theorem doBatch_eq_runTrace {ε : Type} (cancelled : Nat → Bool) (cb : BResult → Except ε Unit)
    (vars : List (String × List Value)) (env : Env) (ps : List (PolicyID × Policy))
    (vals : List (String × Value)) (calls : List BResult) (hne : ∀ kv ∈ vars, kv.2 ≠ []) :
    doBatch cancelled cb vars env ps vals calls = runTrace cancelled cb (trace vars env ps vals) calls := by
  induction vars generalizing env ps vals calls with
  | nil =>
    simp only [doBatch, trace, runTrace, leaf]
    split
    · rfl
    · split <;> simp_all
      split <;> simp_all
  | cons kv rest ih =>
    obtain ⟨k, vs⟩ := kv
    have hrest : ∀ kv ∈ rest, kv.2 ≠ [] := fun kv h => hne kv (by simp [h])
    have hne' := trace_ne_nil ((k, vs) :: rest) env ps vals hne
    simp only [doBatch]
    cases hc : cancelled calls.length
    · simp only [Bool.false_eq_true, if_false, trace]
      exact loopM_eq_runTrace cancelled cb
        (fun v => doBatch cancelled cb rest (cloneSubEnv k v (if rest.isEmpty then fixIgnores env else env))
          (doPartial env ps) (vals ++ [(k, v)]))
        (fun v => trace rest (cloneSubEnv k v (if rest.isEmpty then fixIgnores env else env))
          (doPartial env ps) (vals ++ [(k, v)]))
        (fun v calls => ih _ _ _ calls hrest) vs calls
    · simp only [if_true]
      cases htr : trace ((k, vs) :: rest) env ps vals with
      | nil => exact absurd htr hne'
      | cons o os => simp [runTrace, hc]

theorem leafResult_values (env : Env) (ps : List (PolicyID × Policy)) (vals : List (String × Value)) (r : BResult)
    (h : leafResult env ps vals = some r) : r.values = vals := by
  unfold leafResult at h
  split at h
  · cases h; rfl
  · cases h

/-- the substitutions of the trace are exactly the Cartesian product, in order -/
theorem trace_substs (vars : List (String × List Value)) (env : Env) (ps : List (PolicyID × Policy))
    (vals : List (String × Value)) :
    (trace vars env ps vals).map (·.1) = (product vars).map (vals ++ ·) := by
  induction vars generalizing env ps vals with
  | nil => simp [trace, product]
  | cons kv rest ih =>
    obtain ⟨k, vs⟩ := kv
    simp only [trace, product, List.map_flatMap, List.flatMap_map]
    induction vs with
    | nil => simp
    | cons v vs ihv =>
      simp only [List.flatMap_cons, List.map_append, ihv, ih]
      simp [List.map_map, Function.comp_def, List.append_assoc]

theorem trace_leaf_values (vars : List (String × List Value)) (env : Env) (ps : List (PolicyID × Policy))
    (vals : List (String × Value)) :
    ∀ x ∈ trace vars env ps vals, ∀ r, x.2 = some r → r.values = x.1 := by
  induction vars generalizing env ps vals with
  | nil =>
    intro x hx r hr
    simp only [trace, List.mem_singleton] at hx
    subst hx
    exact leafResult_values _ _ _ _ hr
  | cons kv rest ih =>
    obtain ⟨k, vs⟩ := kv
    intro x hx r hr
    simp only [trace, List.mem_flatMap] at hx
    obtain ⟨v, _, hx⟩ := hx
    exact ih _ _ _ x hx r hr

theorem runTrace_all_ok_aux {ε : Type} (cb : BResult → Except ε Unit)
    (tr : List (List (String × Value) × Option BResult)) (calls : List BResult)
    (hcb : ∀ r, cb r = .ok ()) (hvalid : ∀ o ∈ tr, o.2.isSome = true) :
    ∃ rs, runTrace (fun _ => false) cb tr calls = .ok (calls ++ rs) ∧ rs.map some = tr.map (·.2) := by
  induction tr generalizing calls with
  | nil => exact ⟨[], by simp [runTrace], rfl⟩
  | cons o os ih =>
    have ho := hvalid o (by simp)
    cases hr : o.2 with
    | none => simp [hr] at ho
    | some r =>
      obtain ⟨rs, h1, h2⟩ := ih (calls ++ [r]) (fun o h => hvalid o (by simp [h]))
      refine ⟨r :: rs, ?_, by simp [h2, hr]⟩
      simp [runTrace, hr, hcb, h1]

theorem runTrace_all_ok {ε : Type} (cb : BResult → Except ε Unit)
    (tr : List (List (String × Value) × Option BResult))
    (hcb : ∀ r, cb r = .ok ()) (hvalid : ∀ o ∈ tr, o.2.isSome = true) :
    ∃ rs, runTrace (fun _ => false) cb tr [] = .ok rs ∧ rs.map some = tr.map (·.2) := by
  simpa using runTrace_all_ok_aux cb tr [] hcb hvalid

theorem values_of_trace (tr : List (List (String × Value) × Option BResult)) (rs : List BResult)
    (h : rs.map some = tr.map (·.2)) (hv : ∀ x ∈ tr, ∀ r, x.2 = some r → r.values = x.1) :
    rs.map (·.values) = tr.map (·.1) := by
  induction tr generalizing rs with
  | nil => cases rs <;> simp_all
  | cons o os ih =>
    cases rs with
    | nil => simp at h
    | cons r rs =>
      simp only [List.map_cons, List.cons.injEq] at h
      simp only [List.map_cons, List.cons.injEq]
      exact ⟨hv o (by simp) r h.1.symm, ih rs h.2 (fun x hx => hv x (by simp [hx]))⟩

/-- a callback error: everything before was accepted, the failing invocation is the last one recorded -/
theorem runTrace_callback_error {ε : Type} (cancelled : Nat → Bool) (cb : BResult → Except ε Unit)
    (tr : List (List (String × Value) × Option BResult)) (c0 : List BResult) (e : ε) (calls : List BResult)
    (h : runTrace cancelled cb tr c0 = .error (.callback e, calls)) :
    ∃ (pre : List BResult) (r : BResult) (rest : List (List (String × Value) × Option BResult)),
      calls = c0 ++ pre ++ [r] ∧ cb r = .error e ∧ (∀ x ∈ pre, cb x = .ok ()) ∧
      tr.map (·.2) = pre.map some ++ [some r] ++ rest.map (·.2) := by
  induction tr generalizing c0 with
  | nil => simp [runTrace] at h
  | cons o os ih =>
    simp only [runTrace] at h
    split at h
    · cases h
    · split at h
      · cases h
      · rename_i r hr
        split at h
        · rename_i hok
          obtain ⟨pre, r', rest, h1, h2, h3, h4⟩ := ih _ h
          refine ⟨r :: pre, r', rest, by simp [h1], h2, ?_, by simp [hr, h4]⟩
          intro x hx
          rcases List.mem_cons.mp hx with rfl | hx
          · exact hok
          · exact h3 x hx
        · rename_i e' herr
          simp only [Except.error.injEq, Prod.mk.injEq, BErr.callback.injEq] at h
          obtain ⟨rfl, rfl⟩ := h
          exact ⟨[], r, os, by simp, herr, by simp, by simp [hr]⟩

theorem runTrace_cancelled {ε : Type} (cancelled : Nat → Bool) (cb : BResult → Except ε Unit)
    (tr : List (List (String × Value) × Option BResult)) (c0 : List BResult) (calls : List BResult)
    (h : runTrace cancelled cb tr c0 = .error (.cancelled, calls)) :
    cancelled calls.length = true ∧
      ∃ (pre : List BResult) (rest : List (List (String × Value) × Option BResult)),
        calls = c0 ++ pre ∧ (∀ x ∈ pre, cb x = .ok ()) ∧ tr.map (·.2) = pre.map some ++ rest.map (·.2) := by
  induction tr generalizing c0 with
  | nil => simp [runTrace] at h
  | cons o os ih =>
    simp only [runTrace] at h
    split at h
    · rename_i hc
      simp only [Except.error.injEq, Prod.mk.injEq, true_and] at h
      subst h
      exact ⟨hc, [], o :: os, by simp, by simp, by simp⟩
    · split at h
      · cases h
      · rename_i r hr
        split at h
        · rename_i hok
          obtain ⟨hc, pre, rest, h1, h2, h3⟩ := ih _ h
          refine ⟨hc, r :: pre, rest, by simp [h1], ?_, by simp [hr, h3]⟩
          intro x hx
          rcases List.mem_cons.mp hx with rfl | hx
          · exact hok
          · exact h2 x hx
        · cases h

/-! ## the request handed to the callback is the fully substituted template -/

/-- successive full substitution of the variables of a substitution, in enumeration order -/
def substMany (vals : List (String × Value)) (x : Value) : Value :=
  vals.foldl (fun acc kv => Value.subst kv.1 kv.2 acc) x

def substManyEnv (vals : List (String × Value)) (env : Env) : Env :=
  vals.foldl (fun acc kv => substEnv kv.1 kv.2 acc) env

theorem substManyEnv_parts (vals : List (String × Value)) (env : Env) :
    (substManyEnv vals env).principal = substMany vals env.principal ∧
    (substManyEnv vals env).action = substMany vals env.action ∧
    (substManyEnv vals env).resource = substMany vals env.resource ∧
    (substManyEnv vals env).context = substMany vals env.context := by
  induction vals generalizing env with
  | nil => simp [substManyEnv, substMany]
  | cons kv rest ih =>
    have := ih (substEnv kv.1 kv.2 env)
    simpa [substManyEnv, substMany, substEnv] using this

/-- no request part is the ignore marker -/
def noIgnoredPart (env : Env) : Bool :=
  !env.principal.isIgnore && !env.action.isIgnore && !env.resource.isIgnore && !env.context.isIgnore

theorem fixIgnores_noop (env : Env) (h : noIgnoredPart env = true) : fixIgnores env = env := by
  simp only [noIgnoredPart, Bool.and_eq_true, Bool.not_eq_true'] at h
  obtain ⟨⟨⟨h1, h2⟩, h3⟩, h4⟩ := h
  simp [fixIgnores, h1, h2, h3, h4]

theorem subst_not_ignore (k : String) (v r : Value) (hv : v.isIgnore = false) (hr : r.isIgnore = false) :
    (Value.subst k v r).isIgnore = false := by
  cases r with
  | entity ty id =>
    simp only [Value.subst]
    split
    · exact hv
    · exact hr
  | set xs =>
    simp only [Value.subst]
    split <;> rfl
  | _ => rfl

theorem noIgnoredPart_substEnv (k : String) (v : Value) (env : Env) (hv : v.isIgnore = false)
    (h : noIgnoredPart env = true) : noIgnoredPart (substEnv k v env) = true := by
  simp only [noIgnoredPart, Bool.and_eq_true, Bool.not_eq_true'] at h ⊢
  obtain ⟨⟨⟨h1, h2⟩, h3⟩, h4⟩ := h
  simp [substEnv, subst_not_ignore, hv, h1, h2, h3, h4]

theorem cloneSubEnv_eq_substEnv (k : String) (v : Value) (env : Env) : cloneSubEnv k v env = substEnv k v env := by
  simp [cloneSubEnv, substEnv, cloneSub_eq_subst]

theorem leafResult_parts (env : Env) (ps : List (PolicyID × Policy)) (vals : List (String × Value)) (r : BResult)
    (h : leafResult env ps vals = some r) :
    r.principal = env.principal ∧ r.action = env.action ∧ r.resource = env.resource ∧ r.context = env.context ∧
      r.allow = (authorize ps env).allow := by
  unfold leafResult at h
  split at h
  · cases h; exact ⟨rfl, rfl, rfl, rfl, rfl⟩
  · cases h

/-- every leaf of the enumeration carries the template with the variables of ITS substitution fully replaced
    (no ignored request part, no ignore marker among the values) -/
theorem trace_leaf_env (vars : List (String × List Value)) (env : Env) (ps : List (PolicyID × Policy))
    (vals : List (String × Value)) (hi : noIgnoredPart env = true)
    (hv : ∀ kv ∈ vars, ∀ v ∈ kv.2, v.isIgnore = false) :
    ∀ o ∈ trace vars env ps vals, ∃ σs, o.1 = vals ++ σs ∧ σs.map (·.1) = vars.map (·.1) ∧
      ∀ r, o.2 = some r →
        r.principal = (substManyEnv σs env).principal ∧ r.action = (substManyEnv σs env).action ∧
        r.resource = (substManyEnv σs env).resource ∧ r.context = (substManyEnv σs env).context := by
  induction vars generalizing env ps vals with
  | nil =>
    intro o ho
    simp only [trace, List.mem_singleton] at ho
    subst ho
    refine ⟨[], by simp, rfl, ?_⟩
    intro r hr
    obtain ⟨h1, h2, h3, h4, _⟩ := leafResult_parts _ _ _ _ hr
    exact ⟨h1, h2, h3, h4⟩
  | cons kv rest ih =>
    obtain ⟨k, vs⟩ := kv
    intro o ho
    simp only [trace, List.mem_flatMap] at ho
    obtain ⟨v, hvmem, ho⟩ := ho
    have hvi : v.isIgnore = false := hv (k, vs) (by simp) v hvmem
    have henv : (if rest.isEmpty then fixIgnores env else env) = env := by
      split
      · exact fixIgnores_noop env hi
      · rfl
    rw [henv, cloneSubEnv_eq_substEnv] at ho
    obtain ⟨σs, h1, h2, h3⟩ := ih (substEnv k v env) (doPartial env ps) (vals ++ [(k, v)])
      (noIgnoredPart_substEnv k v env hvi hi) (fun kv h => hv kv (by simp [h])) o ho
    refine ⟨(k, v) :: σs, by simp [h1], by simp [h2], ?_⟩
    intro r hr
    simpa [substManyEnv] using h3 r hr

end CedarGo
