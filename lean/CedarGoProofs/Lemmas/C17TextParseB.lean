/-
  C17, text half — the PARSER half, part B: types and records.
-/
import CedarGoProofs.Lemmas.C17TextParseA
namespace CedarGo.Schema.TextParse
open CedarGo.Schema

theorem ofList_toList : ∀ (as : Attrs), Attrs.ofList as.toList = as
  | .nil => rfl
  | .cons n o a t r => by simp [Attrs.toList, Attrs.ofList, ofList_toList r]

theorem annsOk_nodup (a : Anns) (h : annsOk a = true) : ((sortedKV a).map (·.1)).Nodup := by
  unfold annsOk at h
  simp only [Bool.and_eq_true] at h
  exact sortedKV_keys_nodup a h.2

theorem peek_flatMap_dcolon (rest : List String) (r : List Tok) (t : Tok) (ht : t ≠ .dcolon) (hr : peekT r ≠ t) :
    peekT (rest.flatMap (fun c => [Tok.dcolon, .ident c]) ++ r) ≠ t := by
  cases rest with
  | nil => simpa using hr
  | cons c cs => simp [Ne.symm ht]

/-- a path in type position -/
theorem parseTypeF_path (p : String) (h : isTypePath p = true) (n : Nat) (r : List Tok)
    (h1 : peekT r ≠ .dcolon) (h2 : peekT r ≠ .langle) :
    parseTypeF (n + 1) (toksPath p ++ r) = some (.ok (.typeRef p, r)) := by
  obtain ⟨f, rest, hc, hf, _, hj⟩ := isTypePath_comps p h
  have hp := parsePath_toksPath p h r h1
  rw [toksPath_eq p f rest hc] at hp ⊢
  rw [parseTypeF]
  have hk := identTok_kind f
  have hnb : identTok f ≠ .lbrace := by rcases hk with e | e <;> rw [e] <;> simp
  simp only [List.cons_append, peekT_cons, advT_cons, hnb, if_false]
  by_cases hs : identTok f = .ident "Set"
  · have hfs : f = "Set" := by
      rcases hk with e | e
      · rw [e] at hs; injection hs
      · rw [e] at hs; cases hs
    have hpk := peek_flatMap_dcolon rest r .langle (by decide) h2
    simp only [hs, if_true, hpk, ne_eq, not_false_eq_true, parsePathRest_comps rest "Set" r h1, bindE_ok]
    rw [← hj, hfs]
    rfl
  · simp only [List.cons_append] at hp
    simp only [hs, if_false, hp, bindE_ok]

theorem peek_anns_name (a : Anns) (nm : String) (X : List Tok) (t : Tok) (h1 : t ≠ .at) (h2 : ∀ s, t ≠ .ident s)
    (h3 : ∀ s, t ≠ .str s) : peekT (toksAnns a ++ (toksName nm ++ X)) ≠ t := by
  unfold toksAnns
  apply peek_flatMap_toksAnn _ _ t h1
  obtain ⟨tk, e, hk⟩ := toksName_head nm
  rw [e]
  rcases hk with rfl | rfl
  · exact (h2 nm).symm
  · exact (h3 nm).symm

/-- the comma the printer writes after every attribute but the last -/
def commaIf : Attrs → List Tok
  | .nil => []
  | _ => [.comma]

theorem toksAttrs_cons (sh : List String) (nm : String) (o : Bool) (a : Anns) (t : Ty) (rest : Attrs) :
    toksAttrs sh (.cons nm o a t rest) =
      toksAnns a ++ (toksName nm ++ ((if o then [Tok.question] else []) ++ (.colon :: (toksTy sh t ++ (commaIf rest ++ toksAttrs sh rest))))) := by
  cases rest <;> simp [toksAttrs, commaIf]

theorem commaIf_length (rest : Attrs) : (commaIf rest).length ≤ 1 := by cases rest <;> simp [commaIf]

mutual
theorem parseTypeF_toksTy (sh : List String) : ∀ (t : Ty) (n : Nat) (r : List Tok), tyOk sh t = true →
    (toksTy sh t).length ≤ n → peekT r ≠ .dcolon → peekT r ≠ .langle →
    parseTypeF n (toksTy sh t ++ r) = some (.ok (normTy sh t, r))
  | .string, n, r, hok, hn, h1, h2 => by
    simp only [tyOk, toksTy, normTy] at hok hn ⊢
    obtain ⟨m, rfl⟩ : ∃ m, n = m + 1 := ⟨n - 1, by have := toksPath_length_pos _ hok; omega⟩
    exact parseTypeF_path _ hok m r h1 h2
  | .long, n, r, hok, hn, h1, h2 => by
    simp only [tyOk, toksTy, normTy] at hok hn ⊢
    obtain ⟨m, rfl⟩ : ∃ m, n = m + 1 := ⟨n - 1, by have := toksPath_length_pos _ hok; omega⟩
    exact parseTypeF_path _ hok m r h1 h2
  | .bool, n, r, hok, hn, h1, h2 => by
    simp only [tyOk, toksTy, normTy] at hok hn ⊢
    obtain ⟨m, rfl⟩ : ∃ m, n = m + 1 := ⟨n - 1, by have := toksPath_length_pos _ hok; omega⟩
    exact parseTypeF_path _ hok m r h1 h2
  | .ext x, n, r, hok, hn, h1, h2 => by
    simp only [tyOk, toksTy, normTy] at hok hn ⊢
    obtain ⟨m, rfl⟩ : ∃ m, n = m + 1 := ⟨n - 1, by have := toksPath_length_pos _ hok; omega⟩
    exact parseTypeF_path _ hok m r h1 h2
  | .entityRef x, n, r, hok, hn, h1, h2 => by
    simp only [tyOk, toksTy, normTy] at hok hn ⊢
    obtain ⟨m, rfl⟩ : ∃ m, n = m + 1 := ⟨n - 1, by have := toksPath_length_pos _ hok; omega⟩
    exact parseTypeF_path _ hok m r h1 h2
  | .typeRef x, n, r, hok, hn, h1, h2 => by
    simp only [tyOk, toksTy, normTy] at hok hn ⊢
    obtain ⟨m, rfl⟩ : ∃ m, n = m + 1 := ⟨n - 1, by have := toksPath_length_pos _ hok; omega⟩
    exact parseTypeF_path _ hok m r h1 h2
  | .set e, n, r, hok, hn, h1, h2 => by
    simp only [tyOk, toksTy, normTy, List.length_append, List.length_cons, List.length_nil] at hok hn ⊢
    obtain ⟨m, rfl⟩ : ∃ m, n = m + 1 := ⟨n - 1, by omega⟩
    have ih := parseTypeF_toksTy sh e m (.rangle :: r) hok (by omega) (by simp) (by simp)
    rw [parseTypeF]
    simp only [List.cons_append, List.nil_append, List.append_assoc, peekT_cons, advT_cons]
    simp only [reduceCtorEq, if_false, if_true, ne_eq, not_true_eq_false, ih, bindR_ok]
    simp [expectT]
  | .record as, n, r, hok, hn, h1, h2 => by
    simp only [tyOk, toksTy, normTy, List.length_append, List.length_cons, List.length_nil, Bool.and_eq_true] at hok hn ⊢
    obtain ⟨m, rfl⟩ : ∃ m, n = m + 1 := ⟨n - 1, by omega⟩
    have ih := recLoopF_toksAttrs sh as m [] r hok.1 (by simpa using (nodupKeys_iff _).mp hok.2) (by omega)
    rw [parseTypeF]
    simp only [List.cons_append, List.nil_append, List.append_assoc, peekT_cons, advT_cons, if_true]
    rw [ih]
    simp [ofList_toList]
theorem recLoopF_toksAttrs (sh : List String) : ∀ (as : Attrs) (n : Nat) (acc : List (String × Bool × Anns × Ty)) (r : List Tok),
    attrsOk sh as = true → (acc.map (·.1) ++ attrNames as).Nodup → (toksAttrs sh as).length + 1 ≤ n →
    recLoopF n acc (toksAttrs sh as ++ .rbrace :: r) = some (.ok (acc ++ (normAttrs sh as).toList, r))
  | .nil, n, acc, r, _, _, hn => by
    obtain ⟨m, rfl⟩ : ∃ m, n = m + 1 := ⟨n - 1, by omega⟩
    simp [toksAttrs, normAttrs, Attrs.toList, recLoopF]
  | .cons nm o a t rest, n, acc, r, hok, hnd, hn => by
    simp only [attrsOk, Bool.and_eq_true] at hok
    obtain ⟨⟨hoa, hot⟩, hor⟩ := hok
    rw [toksAttrs_cons] at hn
    simp only [List.length_append, List.length_cons] at hn
    obtain ⟨m, rfl⟩ : ∃ m, n = m + 1 := ⟨n - 1, by omega⟩
    obtain ⟨tk, etk, hk⟩ := toksName_head nm
    have hnl : (toksName nm).length = 1 := by rw [etk]; rfl
    -- the tokens after the type
    obtain ⟨tail, htail⟩ : ∃ tail : List Tok, tail = commaIf rest ++ (toksAttrs sh rest ++ .rbrace :: r) := ⟨_, rfl⟩
    have htail1 : peekT tail ≠ .dcolon ∧ peekT tail ≠ .langle := by
      rw [htail]
      cases rest <;> simp [toksAttrs, commaIf]
    have htail2 : optT .comma tail = toksAttrs sh rest ++ .rbrace :: r := by
      rw [htail]
      cases rest with
      | nil => simp [toksAttrs, optT, commaIf]
      | cons _ _ _ _ _ => simp [optT, commaIf]
    have hfresh : acc.any (fun x => decide (x.1 = nm)) = false := by
      rw [List.any_eq_false]
      intro x hx
      simp only [decide_eq_true_eq]
      intro e
      simp only [attrNames] at hnd
      exact (List.nodup_append.mp hnd).2.2 x.1 (List.mem_map.mpr ⟨x, hx, rfl⟩) nm (by simp) e
    have hnd' : ((acc ++ [(nm, o, sortedKV a, normTy sh t)]).map (·.1) ++ attrNames rest).Nodup := by
      simpa [attrNames] using hnd
    have hlen_anns : (sortedKV a).length + 1 ≤ m + 1 := by
      have : (sortedKV a).length ≤ (toksAnns a).length := by
        unfold toksAnns
        generalize sortedKV a = l
        induction l with
        | nil => simp
        | cons kv l ih =>
          simp only [List.flatMap_cons, List.length_append, List.length_cons]
          have : 1 ≤ (toksAnn kv).length := by unfold toksAnn; split <;> simp
          omega
      omega
    have iht := parseTypeF_toksTy sh t m tail hot (by omega) htail1.1 htail1.2
    have ihr := recLoopF_toksAttrs sh rest m (acc ++ [(nm, o, sortedKV a, normTy sh t)]) r hor hnd' (by
      have := commaIf_length rest
      omega)
    -- reassociate the token list
    have hshape : toksAttrs sh (.cons nm o a t rest) ++ .rbrace :: r =
        toksAnns a ++ (toksName nm ++ ((if o then [Tok.question] else []) ++ (.colon :: (toksTy sh t ++ tail)))) := by
      rw [htail, toksAttrs_cons]
      simp only [List.append_assoc, List.cons_append]
    rw [hshape, recLoopF]
    have hp1 := peek_anns_name a nm ((if o then [Tok.question] else []) ++ (.colon :: (toksTy sh t ++ tail))) .rbrace
      (by decide) (by simp) (by simp)
    have hp2 := peek_anns_name a nm ((if o then [Tok.question] else []) ++ (.colon :: (toksTy sh t ++ tail))) .eof
      (by decide) (by simp) (by simp)
    rw [if_neg hp1, if_neg hp2]
    rw [parseAnnsF_toksAnns a (m + 1) _ hlen_anns (annsOk_nodup a hoa)
      (by rw [etk]; rcases hk with rfl | rfl <;> simp) (by rw [etk]; rcases hk with rfl | rfl <;> simp)]
    simp only [bindR_ok, parseName_toksName, bindE_ok]
    have hq : expectT .colon (optT .question ((if o then [Tok.question] else []) ++ (.colon :: (toksTy sh t ++ tail)))) =
        .ok ((), toksTy sh t ++ tail) ∧
        decide (peekT ((if o then [Tok.question] else []) ++ (.colon :: (toksTy sh t ++ tail))) = .question) = o := by
      cases o <;> simp [optT, expectT]
    rw [hq.1, hq.2]
    simp only [bindE_ok]
    rw [iht]
    simp only [bindR_ok, htail2]
    rw [setAttr, hfresh]
    simp only [Bool.false_eq_true, if_false]
    rw [ihr]
    simp [normAttrs, Attrs.toList]
end

end CedarGo.Schema.TextParse
