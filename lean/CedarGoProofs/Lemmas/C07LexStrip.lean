/-
  C07 ∘ C18 bridge, part 10: the parser model looks at the CLASS and TEXT of tokens only; positions are
  used once, for `Policy.position` (the position of the policy's first token).  Formally every parser
  function commutes with erasing positions (`stripPos`).
-/
import CedarGo.Model.Text.Layout
namespace CedarGo.Text
open CedarGo

/-- erase the positions of a token list -/
abbrev SP (ts : List Token) : List Token := ts.map stripPos

@[simp] theorem stripPos_text (t : Token) : (stripPos t).text = t.text := rfl
@[simp] theorem stripPos_ty (t : Token) : (stripPos t).ty = t.ty := rfl
@[simp] theorem peek_SP (ts : List Token) : peek (SP ts) = stripPos (peek ts) := by cases ts <;> rfl
@[simp] theorem adv_SP (ts : List Token) : adv (SP ts) = SP (adv ts) := by cases ts <;> rfl
@[simp] theorem strVal_strip (t : Token) : strVal (stripPos t) = strVal t := rfl
@[simp] theorem recordKey_strip (t : Token) : recordKey (stripPos t) = recordKey t := rfl
@[simp] theorem primKind_strip (t n : Token) : primKind (stripPos t) (stripPos n) = primKind t n := rfl
@[simp] theorem intLit_strip (t : Token) : intLit (stripPos t) = intLit t := rfl
@[simp] theorem negIntLit_strip (t : Token) : negIntLit (stripPos t) = negIntLit t := rfl
@[simp] theorem SP_nil : SP [] = [] := rfl
@[simp] theorem SP_cons (t : Token) (ts : List Token) : SP (t :: ts) = stripPos t :: SP ts := rfl

/-- results: positions erased in the unconsumed tokens -/
def mapE {α : Type} : Except PErr (α × List Token) → Except PErr (α × List Token)
  | .ok (a, r) => .ok (a, SP r)
  | .error e => .error e

def mapT : Except PErr (List Token) → Except PErr (List Token)
  | .ok r => .ok (SP r)
  | .error e => .error e

def mapP {α : Type} : PRL α → PRL α
  | none => none
  | some x => some (mapE x)

@[simp] theorem mapP_okP {α : Type} (a : α) (r : List Token) : mapP (okP (a, r)) = okP (a, SP r) := rfl
@[simp] theorem mapP_errP {α : Type} (e : PErr) : mapP (errP e : PRL α) = errP e := rfl
@[simp] theorem mapP_none {α : Type} : mapP (none : PRL α) = none := rfl
@[simp] theorem mapP_some {α : Type} (x : Except PErr (α × List Token)) : mapP (some x) = some (mapE x) := rfl
@[simp] theorem mapE_ok {α : Type} (a : α) (r : List Token) : mapE (.ok (a, r)) = .ok (a, SP r) := rfl
@[simp] theorem mapE_error {α : Type} (e : PErr) : mapE (.error e : Except PErr (α × List Token)) = .error e := rfl

theorem bindP_plain {γ α : Type} (a : Option (Except PErr γ)) (k' : γ → PRL α) (k : γ → PRL α)
    (h : ∀ v, k' v = mapP (k v)) : bindP a k' = mapP (bindP a k) := by
  cases a with
  | none => rfl
  | some x => cases x with
    | error e => rfl
    | ok v => exact h v

theorem bindP_pair {α β : Type} (a : PRL α) (k' k : α × List Token → PRL β)
    (h : ∀ v r, k' (v, SP r) = mapP (k (v, r))) : bindP (mapP a) k' = mapP (bindP a k) := by
  cases a with
  | none => rfl
  | some x => cases x with
    | error e => rfl
    | ok v => exact h v.1 v.2

theorem bindP_toks {β : Type} (a : Except PErr (List Token)) (k' k : List Token → PRL β)
    (h : ∀ r, k' (SP r) = mapP (k r)) : bindP (some (mapT a)) k' = mapP (bindP (some a) k) := by
  cases a with
  | error e => rfl
  | ok v => exact h v

theorem exact_SP (s : String) (ts : List Token) : exact s (SP ts) = mapT (exact s ts) := by
  simp only [exact, peek_SP, stripPos_text, adv_SP]
  split <;> rfl

/-- a nested-expression parser that commutes with erasing positions -/
def Comm (E : EP) : Prop := ∀ ts, E (SP ts) = mapP (E ts)

/-! ## entity references and paths -/

theorem entityPath_SP (ty : String) (ts : List Token) : entityPath ty (SP ts) = mapE (entityPath ty ts) := by
  fun_induction entityPath ty ts <;> (rw [entityPath.eq_def]; simp_all)

@[simp] theorem mapP_bindP {γ α : Type} (a : Option (Except PErr γ)) (k : γ → PRL α) :
    mapP (bindP a k) = bindP a (fun v => mapP (k v)) := (bindP_plain a _ k (fun _ => rfl)).symm

@[simp] theorem bindP_mapP {α β : Type} (a : PRL α) (k : α × List Token → Option (Except PErr β)) :
    bindP (mapP a) k = bindP a (fun v => k (v.1, SP v.2)) := by
  cases a with
  | none => rfl
  | some x => cases x with
    | error e => rfl
    | ok v => rfl

@[simp] theorem bindP_some_mapT {β : Type} (a : Except PErr (List Token)) (k : List Token → Option (Except PErr β)) :
    bindP (some (mapT a)) k = bindP (some a) (fun r => k (SP r)) := by
  cases a <;> rfl

@[simp] theorem bindP_some_mapE {α β : Type} (a : Except PErr (α × List Token)) (k : α × List Token → Option (Except PErr β)) :
    bindP (some (mapE a)) k = bindP (some a) (fun v => k (v.1, SP v.2)) := by
  cases a <;> rfl

theorem entity_SP (ts : List Token) : entity (SP ts) = mapE (entity ts) := by
  simp only [entity, peek_SP, stripPos_ty, stripPos_text, adv_SP]
  split
  · exact entityPath_SP _ _
  · rfl

theorem pathRest_SP (ty : String) (ts : List Token) : pathRest ty (SP ts) = mapE (pathRest ty ts) := by
  fun_induction pathRest ty ts <;> (rw [pathRest.eq_def]; simp_all)

theorem path_SP (ts : List Token) : path (SP ts) = mapE (path ts) := by
  simp only [path, peek_SP, stripPos_ty, stripPos_text, adv_SP]
  split
  · exact pathRest_SP _ _
  · rfl

/-! ## expressions -/

macro "strip_simp" "[" ts:Lean.Parser.Tactic.simpLemma,* "]" : tactic =>
  `(tactic| simp only [$ts,*, peek_SP, adv_SP, stripPos_text, stripPos_ty, bindP_mapP, mapP_bindP, bindP_some_mapT,
      bindP_some_mapE, apply_ite mapP, apply_ite mapE, mapP_okP, mapP_errP, mapP_some, mapP_none, mapE_ok, mapE_error,
      strVal_strip, recordKey_strip, primKind_strip, intLit_strip, negIntLit_strip, SP_cons, SP_nil, exact_SP])

section Expr
variable {E : EP} (hE : ∀ ts, E (SP ts) = mapP (E ts))
include hE

theorem exprList_SP (close : String) (n : Nat) (ts : List Token) :
    exprList E close n (SP ts) = mapP (exprList E close n ts) := by
  induction n generalizing ts with
  | zero => rfl
  | succ n ih => strip_simp [exprList, hE ts, ih]

theorem recordLoop_SP (n : Nat) (known : List String) (ts : List Token) :
    recordLoop E n known (SP ts) = mapP (recordLoop E n known ts) := by
  induction n generalizing ts known with
  | zero => rfl
  | succ n ih => strip_simp [recordLoop, hE, ih]

theorem entityOrExtFun_SP (n : Nat) (pre : String) (ts : List Token) :
    entityOrExtFun E n pre (SP ts) = mapP (entityOrExtFun E n pre ts) := by
  fun_induction entityOrExtFun E n pre ts <;> (rw [entityOrExtFun.eq_def]; simp_all [exprList_SP hE])

theorem primary_SP (n : Nat) (ts : List Token) : primary E n (SP ts) = mapP (primary E n ts) := by
  simp only [primary, peek_SP, adv_SP, primKind_strip]
  split <;> strip_simp [hE, entityOrExtFun_SP hE, exprList_SP hE, recordLoop_SP hE]

theorem accessLoop_SP (n : Nat) (lhs : Expr) (ts : List Token) :
    accessLoop E n lhs (SP ts) = mapP (accessLoop E n lhs ts) := by
  induction n generalizing ts lhs with
  | zero => rfl
  | succ n ih => strip_simp [accessLoop, exprList_SP hE, ih]

theorem member_SP (n : Nat) (ts : List Token) : member E n (SP ts) = mapP (member E n ts) := by
  strip_simp [member, primary_SP hE, accessLoop_SP hE]

omit hE in
theorem unaryOps_SP (ts : List Token) : unaryOps (SP ts) = ((unaryOps ts).1, SP (unaryOps ts).2) := by
  induction ts with
  | nil => rfl
  | cons t ts ih =>
    simp only [SP_cons, unaryOps, stripPos_text, ih]
    split
    · rfl
    · split <;> rfl

omit hE in
theorem memberFollows_SP (ts : List Token) : memberFollows (SP ts) = memberFollows ts := by
  simp only [memberFollows, adv_SP, peek_SP, stripPos_text]

omit hE in
theorem negLitAt_SP (ts : List Token) : negLitAt (SP ts) = negLitAt ts := by
  simp only [negLitAt, memberFollows_SP, peek_SP, stripPos_ty]

theorem unary_SP (n : Nat) (ts : List Token) : unary E n (SP ts) = mapP (unary E n ts) := by
  simp only [unary, unaryOps_SP, negLitAt_SP]
  split <;> strip_simp [member_SP hE]

theorem multLoop_SP (m n : Nat) (lhs : Expr) (ts : List Token) :
    multLoop E m n lhs (SP ts) = mapP (multLoop E m n lhs ts) := by
  induction n generalizing ts lhs with
  | zero => rfl
  | succ n ih => strip_simp [multLoop, unary_SP hE, ih]

theorem mult_SP (n : Nat) (ts : List Token) : mult E n (SP ts) = mapP (mult E n ts) := by
  strip_simp [mult, unary_SP hE, multLoop_SP hE]

theorem addLoop_SP (m n : Nat) (lhs : Expr) (ts : List Token) :
    addLoop E m n lhs (SP ts) = mapP (addLoop E m n lhs ts) := by
  induction n generalizing ts lhs with
  | zero => rfl
  | succ n ih =>
    simp only [addLoop, peek_SP, stripPos_text]
    split <;> strip_simp [mult_SP hE, ih]

theorem add_SP (n : Nat) (ts : List Token) : add E n (SP ts) = mapP (add E n ts) := by
  strip_simp [add, mult_SP hE, addLoop_SP hE]

omit hE in
theorem hasPath_SP (result cur : Expr) (ts : List Token) : hasPath result cur (SP ts) = mapE (hasPath result cur ts) := by
  fun_induction hasPath result cur ts <;> (rw [hasPath.eq_def]; simp_all)

omit hE in
theorem parseHas_SP (lhs : Expr) (ts : List Token) : parseHas lhs (SP ts) = mapE (parseHas lhs ts) := by
  simp only [parseHas, peek_SP, stripPos_ty, stripPos_text, adv_SP, strVal_strip]
  split
  · exact hasPath_SP _ _ _
  · split
    · cases strVal (peek ts) <;> rfl
    · rfl

omit hE in
theorem parseLike_SP (lhs : Expr) (ts : List Token) : parseLike lhs (SP ts) = mapE (parseLike lhs ts) := by
  simp only [parseLike, peek_SP, stripPos_ty, stripPos_text, adv_SP]
  split
  · rfl
  · cases parsePattern (trimQuotes (peek ts).text.toList) <;> rfl

theorem parseIs_SP (n : Nat) (lhs : Expr) (ts : List Token) : parseIs E n lhs (SP ts) = mapP (parseIs E n lhs ts) := by
  strip_simp [parseIs, path_SP, add_SP hE]

theorem relTail_SP (n : Nat) (lhs : Expr) (ts : List Token) : relTail E n lhs (SP ts) = mapP (relTail E n lhs ts) := by
  simp only [relTail, peek_SP, stripPos_text, adv_SP, parseHas_SP, parseLike_SP, parseIs_SP hE]
  split
  · rfl
  · split
    · rfl
    · split
      · rfl
      · split <;> strip_simp [add_SP hE]

theorem relation_SP (n : Nat) (ts : List Token) : relation E n (SP ts) = mapP (relation E n ts) := by
  strip_simp [relation, add_SP hE, relTail_SP hE]

theorem andLoop_SP (m n : Nat) (lhs : Expr) (ts : List Token) :
    andLoop E m n lhs (SP ts) = mapP (andLoop E m n lhs ts) := by
  induction n generalizing ts lhs with
  | zero => rfl
  | succ n ih => strip_simp [andLoop, relation_SP hE, ih]

theorem and_SP (n : Nat) (ts : List Token) : and_ E n (SP ts) = mapP (and_ E n ts) := by
  strip_simp [and_, relation_SP hE, andLoop_SP hE]

theorem orLoop_SP (m n : Nat) (lhs : Expr) (ts : List Token) :
    orLoop E m n lhs (SP ts) = mapP (orLoop E m n lhs ts) := by
  induction n generalizing ts lhs with
  | zero => rfl
  | succ n ih => strip_simp [orLoop, and_SP hE, ih]

theorem or_SP (n : Nat) (ts : List Token) : or_ E n (SP ts) = mapP (or_ E n ts) := by
  strip_simp [or_, and_SP hE, orLoop_SP hE]

theorem expression_SP (n : Nat) (ts : List Token) : expression E n (SP ts) = mapP (expression E n ts) := by
  strip_simp [expression, or_SP hE, hE]

end Expr

theorem exprF_SP : ∀ (n : Nat) (ts : List Token), exprF n (SP ts) = mapP (exprF n ts)
  | 0, _ => rfl
  | n + 1, ts => expression_SP (exprF_SP n) n ts

/-! ## policies -/

theorem annotations_SP (known : List String) (ts : List Token) :
    annotations known (SP ts) = mapE (annotations known ts) := by
  fun_induction annotations known ts <;> (rw [annotations.eq_def]; simp_all)

theorem effect_SP (ts : List Token) : effect (SP ts) = mapE (effect ts) := by
  simp only [effect, peek_SP, stripPos_text, adv_SP, apply_ite mapE, mapE_ok, mapE_error]

theorem scopeIs_SP (ts : List Token) : scopeIs (SP ts) = mapE (scopeIs ts) := by
  simp only [scopeIs, path_SP]
  cases hp : path ts with
  | error e => rfl
  | ok v =>
    obtain ⟨ty, ts1⟩ := v
    simp only [mapE_ok, peek_SP, stripPos_text, adv_SP, entity_SP]
    split
    · cases he : entity (adv ts1) with
      | error e => rfl
      | ok u => obtain ⟨u, ts2⟩ := u; rfl
    · rfl

theorem scopePR_SP (ts : List Token) : scopePR (SP ts) = mapE (scopePR ts) := by
  simp only [scopePR, peek_SP, stripPos_text, adv_SP, entity_SP, scopeIs_SP]
  split
  · cases he : entity (adv ts) with
    | error e => rfl
    | ok u => obtain ⟨u, ts2⟩ := u; rfl
  · split
    · rfl
    · split
      · cases he : entity (adv ts) with
        | error e => rfl
        | ok u => obtain ⟨u, ts2⟩ := u; rfl
      · rfl

theorem entlist_SP (n : Nat) (ts : List Token) : entlist n (SP ts) = mapE (entlist n ts) := by
  induction n generalizing ts with
  | zero => rfl
  | succ n ih =>
    simp only [entlist, peek_SP, stripPos_text, entity_SP]
    split
    · rfl
    · cases he : entity ts with
      | error e => rfl
      | ok u =>
        obtain ⟨u, ts1⟩ := u
        simp only [mapE_ok, peek_SP, stripPos_text, adv_SP, ih]
        split
        · cases hl : entlist n (adv ts1) with
          | error e => rfl
          | ok us => obtain ⟨us, ts2⟩ := us; rfl
        · split <;> rfl

theorem scopeA_SP (ts : List Token) : scopeA (SP ts) = mapE (scopeA ts) := by
  simp only [scopeA, peek_SP, stripPos_text, adv_SP, entity_SP, entlist_SP, List.length_map]
  split
  · cases he : entity (adv ts) with
    | error e => rfl
    | ok u => obtain ⟨u, ts2⟩ := u; rfl
  · split
    · split
      · cases hl : entlist ((adv (adv ts)).length + 1) (adv (adv ts)) with
        | error e => rfl
        | ok us => obtain ⟨us, ts2⟩ := us; simp [adv_SP]
      · cases he : entity (adv ts) with
        | error e => rfl
        | ok u => obtain ⟨u, ts2⟩ := u; rfl
    · rfl

theorem condition_SP (n : Nat) (ts : List Token) : condition n (SP ts) = mapP (condition n ts) := by
  strip_simp [condition, exprF_SP]

theorem conditions_SP (m n : Nat) (ts : List Token) : conditions m n (SP ts) = mapP (conditions m n ts) := by
  induction n generalizing ts with
  | zero => rfl
  | succ n ih => strip_simp [conditions, condition_SP, ih]

@[simp] theorem bindE_mapE {α β : Type} (a : Except PErr (α × List Token)) (k : α × List Token → Except PErr β) :
    bindE (mapE a) k = bindE a (fun v => k (v.1, SP v.2)) := by cases a <;> rfl

@[simp] theorem bindE_mapT {β : Type} (a : Except PErr (List Token)) (k : List Token → Except PErr β) :
    bindE (mapT a) k = bindE a (fun r => k (SP r)) := by cases a <;> rfl

@[simp] theorem mapE_bindE {γ α : Type} (a : Except PErr γ) (k : γ → Except PErr (α × List Token)) :
    mapE (bindE a k) = bindE a (fun v => mapE (k v)) := by cases a <;> rfl

theorem policyHead_SP (ts : List Token) : policyHead (SP ts) = mapE (policyHead ts) := by
  simp only [policyHead, annotations_SP, effect_SP, exact_SP, scopePR_SP, scopeA_SP, bindE_mapE, bindE_mapT, mapE_bindE,
    peek_SP, stripPos_text, adv_SP, mapE_ok, ← apply_ite SP]

/-- `Policy.fromCedar` on position-erased tokens: the same policy with the default position -/
def mapPol : PRL Policy → PRL Policy
  | none => none
  | some (.error e) => some (.error e)
  | some (.ok (p, r)) => some (.ok ({ p with position := {} }, SP r))

theorem mapPol_bindP {γ : Type} (a : Option (Except PErr γ)) (k : γ → PRL Policy) :
    mapPol (bindP a k) = bindP a (fun v => mapPol (k v)) := by
  cases a with
  | none => rfl
  | some x => cases x <;> rfl

theorem policy_SP (n : Nat) (ts : List Token) : policy n (SP ts) = mapPol (policy n ts) := by
  simp only [policy, policyHead_SP, conditions_SP, exact_SP, bindP_some_mapE, bindP_mapP, bindP_some_mapT, mapPol_bindP, peek_SP]
  rfl

end CedarGo.Text
