/-
  Helper lemmas for C01: `checkedMul` (transcription of Go's `checkedMulI64`) succeeds exactly when the
  mathematical product fits in int64, and then returns that product.  Core Lean only.
-/
import CedarGo.Model.Eval
namespace CedarGo
namespace C01Mul

/-- `wrap x` differs from `x` by a multiple of 2^64 and lies in range. -/
theorem mul_wrap_eq (x : Int) :
    ∃ k : Int, wrap x = x - k * 18446744073709551616 ∧ InI64 (wrap x) := by
  refine ⟨(x + 9223372036854775808) / 18446744073709551616, ?_⟩
  unfold wrap InI64 minI64 maxI64
  omega

theorem mul_wrap_id (x : Int) (h : InI64 x) : wrap x = x := by
  unfold InI64 minI64 maxI64 at h
  unfold wrap
  omega

/-- sign of a product of non-zero integers -/
theorem mul_sign (l r : Int) (hl0 : l ≠ 0) (hr0 : r ≠ 0) :
    (l * r < 0 ↔ ((l < 0) ↔ ¬ (r < 0))) ∧ l * r ≠ 0 := by
  have hl : l < 0 ∨ 0 < l := by omega
  have hr : r < 0 ∨ 0 < r := by omega
  rcases hl with hl | hl <;> rcases hr with hr | hr
  · have := Int.mul_pos_of_neg_of_neg hl hr; omega
  · have := Int.mul_neg_of_neg_of_pos hl hr; omega
  · have := Int.mul_neg_of_pos_of_neg hl hr; omega
  · have := Int.mul_pos hl hr; omega

/-- truncated division: remainder strictly smaller than the divisor in absolute value -/
theorem mul_tmod_natAbs_lt (a l : Int) (hl0 : l ≠ 0) : (Int.tmod a l).natAbs < l.natAbs := by
  rw [Int.natAbs_tmod]
  exact Nat.mod_lt _ (by omega)

/-- The arithmetic heart of the backward direction, with the quotient/remainder abstracted. -/
theorem mul_back (l r p res q m k : Int) (hl : InI64 l) (hr : InI64 r) (hres : InI64 res)
    (hk : res = p - k * 18446744073709551616)
    (hq : q.natAbs ≤ res.natAbs) (hm : m.natAbs < l.natAbs)
    (hlq : q = r → l * q = p)
    (hdiv : l * q + m = res)
    (hw : wrap q = r)
    (hsign : res < 0 ↔ ((l < 0) ↔ ¬ (r < 0))) :
    InI64 p := by
  obtain ⟨j, hj, _⟩ := mul_wrap_eq q
  rw [hw] at hj
  unfold InI64 minI64 maxI64 at *
  by_cases hqr : q = r
  · have := hlq hqr
    omega
  · -- then q = 2^63, r = -2^63
    have hq' : q = 9223372036854775808 := by omega
    subst hq'
    omega

/-- the Boolean tests of `checkedMul`, as propositions -/
theorem mul_unfold (l r : Int) (hl0 : l ≠ 0) (hr0 : r ≠ 0) :
    (checkedMul l r).1 = wrap (l * r) ∧
    ((checkedMul l r).2 = true ↔
      ((wrap (l * r) < 0 ↔ ((l < 0) ↔ ¬ (r < 0))) ∧ wrap (Int.tdiv (wrap (l * r)) l) = r)) := by
  unfold checkedMul
  by_cases h1 : wrap (l * r) < 0 <;> by_cases h2 : l < 0 <;> by_cases h3 : r < 0 <;>
    by_cases h4 : wrap (Int.tdiv (wrap (l * r)) l) = r <;> simp [h1, h2, h3, h4, hl0, hr0]

end C01Mul

open C01Mul in
theorem checkedMul_spec (l r : Int) (hl : InI64 l) (hr : InI64 r) :
    ((checkedMul l r).2 = true ↔ InI64 (l * r)) ∧ ((checkedMul l r).2 = true → (checkedMul l r).1 = l * r) := by
  by_cases hz : l = 0 ∨ r = 0
  · have h0 : l * r = 0 := by rcases hz with h | h <;> simp [h]
    have hc : checkedMul l r = (0, true) := by
      unfold checkedMul; rcases hz with h | h <;> simp [h]
    rw [hc, h0]
    exact ⟨⟨fun _ => by unfold InI64 minI64 maxI64; omega, fun _ => rfl⟩, fun _ => rfl⟩
  · have hl0 : l ≠ 0 := fun h => hz (.inl h)
    have hr0 : r ≠ 0 := fun h => hz (.inr h)
    obtain ⟨h1, h2⟩ := mul_unfold l r hl0 hr0
    obtain ⟨hs, _⟩ := mul_sign l r hl0 hr0
    obtain ⟨k, hk, hres⟩ := mul_wrap_eq (l * r)
    have hiff : (checkedMul l r).2 = true ↔ InI64 (l * r) := by
      rw [h2]
      constructor
      · rintro ⟨hsign, hw⟩
        exact mul_back l r (l * r) (wrap (l * r)) (Int.tdiv (wrap (l * r)) l)
          (Int.tmod (wrap (l * r)) l) k hl hr hres hk
          (Int.natAbs_tdiv_le_natAbs _ _) (mul_tmod_natAbs_lt _ _ hl0)
          (fun h => by rw [h]) (Int.mul_tdiv_add_tmod _ _) hw hsign
      · intro hin
        have hid := mul_wrap_id _ hin
        rw [hid, Int.mul_tdiv_cancel_left _ hl0, mul_wrap_id _ hr]
        exact ⟨hs, rfl⟩
    refine ⟨hiff, fun ht => ?_⟩
    rw [h1]
    exact mul_wrap_id _ (hiff.mp ht)

end CedarGo
