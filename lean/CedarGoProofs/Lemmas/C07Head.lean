/-
  Helper lemmas for C07/C08: the policy head — annotations, effect and the three scope clauses — as written by
  `renderPolicy` / `marshalPolicy` is read back by `policyHead`.
-/
import CedarGoProofs.Lemmas.C07Final
namespace CedarGo.Text
open CedarGo

/-! ## entity references -/

theorem entity_uidToks (u : UID) (h : uidOK u = true) (rest : List Token) : entity (uidToks u ++ rest) = .ok (u, rest) := by
  simp only [uidOK] at h
  obtain ⟨first, parts, hp⟩ := pathOK_of_isPathName u.1 h
  unfold uidToks
  rw [hp.toks]
  unfold entity
  have e : (idT first :: sepToks parts ++ [opT "::", strT u.2]) ++ rest = idT first :: (sepToks parts ++ opT "::" :: strT u.2 :: rest) := by simp
  rw [e]
  have e1 : peek (idT first :: (sepToks parts ++ opT "::" :: strT u.2 :: rest)) = idT first := rfl
  have e2 : adv (idT first :: (sepToks parts ++ opT "::" :: strT u.2 :: rest)) = sepToks parts ++ opT "::" :: strT u.2 :: rest := rfl
  have e3 : ((idT first).ty == TokType.ident) = true := rfl
  have e4 : (idT first).text = first := rfl
  simp only [e1, e2, e3, e4, ↓reduceIte]
  rw [entityPath_sepToks parts first u.2 rest, hp.join]

/-! ## scope clauses -/

/-- tokens of a scope clause after the variable name -/
def scopeTail : Scope → List Token
  | .all => []
  | .eq e => opT "==" :: uidToks e
  | .in_ e => kwT "in" :: uidToks e
  | .inSet es => kwT "in" :: opT "[" :: (uidListToks es ++ [opT "]"])
  | .is ty => kwT "is" :: pathToks ty
  | .isIn ty e => kwT "is" :: (pathToks ty ++ kwT "in" :: uidToks e)

theorem scopeToks_eq (v : Var) (sc : Scope) : scopeToks v sc = idT (varName v) :: scopeTail sc := by
  cases sc <;> rfl

/-- the token after a scope clause: `,` or `)` -/
def ScopeEnd (t : Token) : Prop := t.text = "," ∨ t.text = ")"

theorem scopePR_tail (sc : Scope) (h : scopePROK sc = true) (rest : List Token) (hr : ScopeEnd (peek rest)) :
    scopePR (scopeTail sc ++ rest) = .ok (sc, rest) := by
  have hne (s : String) (h1 : "," ≠ s) (h2 : ")" ≠ s) : ((peek rest).text == s) = false := by
    apply beq_eq_false_iff_ne.mpr
    rcases hr with hr | hr <;> rw [hr] <;> assumption
  cases sc with
  | all =>
    simp only [scopeTail, List.nil_append]
    unfold scopePR
    simp [hne "==" (by decide) (by decide), hne "is" (by decide) (by decide), hne "in" (by decide) (by decide)]
  | eq e =>
    simp only [scopePROK] at h
    simp only [scopeTail, List.cons_append]
    unfold scopePR
    simp [peek, adv, opT, entity_uidToks e h rest]
  | in_ e =>
    simp only [scopePROK] at h
    simp only [scopeTail, List.cons_append]
    unfold scopePR
    simp [peek, adv, kwT, entity_uidToks e h rest]
  | inSet es => simp [scopePROK] at h
  | is ty =>
    simp only [scopePROK] at h
    obtain ⟨first, parts, hp⟩ := pathOK_of_isPathName ty h
    simp only [scopeTail, List.cons_append]
    unfold scopePR
    simp only [peek, adv, kwT, String.reduceBEq, Bool.false_eq_true, ↓reduceIte]
    unfold scopeIs
    rw [path_pathToks hp rest (hne "::" (by decide) (by decide))]
    simp [hne "in" (by decide) (by decide)]
  | isIn ty e =>
    simp only [scopePROK, Bool.and_eq_true] at h
    obtain ⟨first, parts, hp⟩ := pathOK_of_isPathName ty h.1
    simp only [scopeTail, List.cons_append, List.append_assoc]
    unfold scopePR
    simp only [peek, adv, kwT, String.reduceBEq, Bool.false_eq_true, ↓reduceIte]
    unfold scopeIs
    have e1 : ((peek ({ ty := TokType.keyword, pos := noPos, text := "in" } :: (uidToks e ++ rest))).text == "::") = false := rfl
    rw [path_pathToks hp _ e1]
    simp [peek, adv, entity_uidToks e h.2 rest]

theorem uidToks_head (u : UID) (h : uidOK u = true) (more : List Token) :
    ∃ first tl, uidToks u ++ more = idT first :: tl ∧ isIdentName first = true := by
  simp only [uidOK] at h
  obtain ⟨first, parts, hp⟩ := pathOK_of_isPathName u.1 h
  refine ⟨first, sepToks parts ++ [opT "::", strT u.2] ++ more, ?_, hp.ident⟩
  unfold uidToks
  rw [hp.toks]
  simp

theorem entlist_toks : ∀ (es : List UID) (n : Nat) (rest : List Token), es.all uidOK = true → es.length < n →
    entlist n (uidListToks es ++ opT "]" :: rest) = .ok (es, opT "]" :: rest)
  | [], n, rest, _, hn => by
    obtain ⟨m, rfl⟩ : ∃ m, n = m + 1 := ⟨n - 1, by omega⟩
    simp [uidListToks, entlist, peek, opT]
  | [u], n, rest, h, hn => by
    obtain ⟨m, rfl⟩ : ∃ m, n = m + 1 := ⟨n - 1, by omega⟩
    simp only [List.all_cons, List.all_nil, Bool.and_true] at h
    obtain ⟨first, tl, htoks, hid⟩ := uidToks_head u h (opT "]" :: rest)
    simp only [uidListToks]
    unfold entlist
    have hb : ((peek (uidToks u ++ opT "]" :: rest)).text == "]") = false := by
      rw [htoks]; exact isIdentName_ne first "]" hid (by decide)
    simp only [hb, Bool.false_eq_true, ↓reduceIte, entity_uidToks u h]
    simp [peek, opT]
  | u :: u' :: us, n, rest, h, hn => by
    obtain ⟨m, rfl⟩ : ∃ m, n = m + 1 := ⟨n - 1, by omega⟩
    simp only [List.all_cons, Bool.and_eq_true] at h
    have h2 : (u' :: us).all uidOK = true := by simp [List.all_cons, h.2.1, h.2.2]
    obtain ⟨first, tl, htoks, hid⟩ := uidToks_head u h.1 (opT "," :: (uidListToks (u' :: us) ++ opT "]" :: rest))
    have e : uidListToks (u :: u' :: us) ++ opT "]" :: rest = uidToks u ++ opT "," :: (uidListToks (u' :: us) ++ opT "]" :: rest) := by
      simp [uidListToks]
    rw [e]
    unfold entlist
    have hb : ((peek (uidToks u ++ opT "," :: (uidListToks (u' :: us) ++ opT "]" :: rest))).text == "]") = false := by
      rw [htoks]; exact isIdentName_ne first "]" hid (by decide)
    simp only [hb, Bool.false_eq_true, ↓reduceIte, entity_uidToks u h.1]
    have ih := entlist_toks (u' :: us) m rest h2 (by simp only [List.length_cons] at hn ⊢; omega)
    simp [peek, adv, opT] at ih ⊢
    simp [ih]

theorem uidListToks_length (es : List UID) : es.length ≤ (uidListToks es).length := by
  induction es with
  | nil => simp
  | cons u us ih =>
    cases us with
    | nil => simp [uidListToks, uidToks]
    | cons u' us' =>
      simp only [uidListToks, List.length_append, List.length_cons] at ih ⊢
      omega

theorem scopeA_tail (sc : Scope) (h : scopeAOK sc = true) (rest : List Token) (hr : ScopeEnd (peek rest)) :
    scopeA (scopeTail sc ++ rest) = .ok (sc, rest) := by
  have hne (s : String) (h1 : "," ≠ s) (h2 : ")" ≠ s) : ((peek rest).text == s) = false := by
    apply beq_eq_false_iff_ne.mpr
    rcases hr with hr | hr <;> rw [hr] <;> assumption
  cases sc with
  | all =>
    simp only [scopeTail, List.nil_append]
    unfold scopeA
    simp [hne "==" (by decide) (by decide), hne "in" (by decide) (by decide)]
  | eq e =>
    simp only [scopeAOK] at h
    simp only [scopeTail, List.cons_append]
    unfold scopeA
    simp [peek, adv, opT, entity_uidToks e h rest]
  | in_ e =>
    simp only [scopeAOK] at h
    obtain ⟨first, tl, htoks, hid⟩ := uidToks_head e h rest
    simp only [scopeTail, List.cons_append]
    unfold scopeA
    have hb : ((peek (uidToks e ++ rest)).text == "[") = false := by
      rw [htoks]; exact isIdentName_ne first "[" hid (by decide)
    simp [peek, adv, kwT, entity_uidToks e h rest] at hb ⊢
    simp [hb]
  | inSet es =>
    simp only [scopeAOK] at h
    simp only [scopeTail, List.cons_append, List.append_assoc, List.singleton_append, List.nil_append]
    unfold scopeA
    simp only [peek, adv, kwT, opT, String.reduceBEq, Bool.false_eq_true, ↓reduceIte, beq_self_eq_true]
    have hlen := uidListToks_length es
    have := entlist_toks es ((uidListToks es ++ opT "]" :: rest).length + 1) rest h (by simp; omega)
    simp only [opT] at this
    rw [this]
  | is ty => simp [scopeAOK] at h
  | isIn ty e => simp [scopeAOK] at h

/-! ## annotations -/

def annTok (k : String) : Token := if reservedKeywords.contains k then kwT k else idT k

theorem annTok_ty (k : String) : ((annTok k).ty == .ident || (annTok k).ty == .keyword) = true := by
  unfold annTok; split <;> rfl

theorem annTok_text (k : String) : (annTok k).text = k := by
  unfold annTok; split <;> rfl

theorem annotations_toks : ∀ (anns : List (String × String)) (known : List String) (rest : List Token),
    annsOK known anns = true → ((peek rest).text == "@") = false →
    annotations known (annotationToks anns ++ rest) = .ok (anns, rest)
  | [], known, rest, _, hr => by
    simp only [annotationToks, List.nil_append]
    cases rest with
    | nil => rfl
    | cons a tl =>
      simp only [peek] at hr
      have : a.text ≠ "@" := by simpa using hr
      unfold annotations
      simp [this]
  | (k, v) :: anns, known, rest, h, hr => by
    simp only [annsOK, Bool.and_eq_true, Bool.not_eq_true'] at h
    have ih := annotations_toks anns (k :: known) rest h.2 hr
    have hk : ¬ k ∈ known := by simpa using h.1
    have e : annotationToks ((k, v) :: anns) ++ rest = opT "@" :: annTok k :: opT "(" :: strT v :: opT ")" :: (annotationToks anns ++ rest) := by
      simp [annotationToks, annTok]
    rw [e]
    unfold annotations
    have e1 := annTok_ty k
    have e2 : ((strT v).ty != TokType.string) = false := rfl
    simp only [opT, bne_self_eq_false, Bool.false_eq_true, ↓reduceIte, e1, Bool.not_true, annTok_text, List.contains_eq_mem, hk,
      decide_false, e2, strVal_strT v, ih]

/-! ## the whole head -/

/-- tokens of everything before the conditions -/
def headToks (h : Head) : List Token :=
  annotationToks h.annotations ++ effectTok h.effect :: opT "(" ::
    (scopeToks .principal h.principal ++ opT "," :: (scopeToks .action h.action ++ opT "," ::
      (scopeToks .resource h.resource ++ [opT ")"])))

theorem policyHead_headToks (h : Head) (hok : headOKb h = true) (rest : List Token) :
    policyHead (headToks h ++ rest) = .ok (h, rest) := by
  simp only [headOKb, Bool.and_eq_true] at hok
  obtain ⟨⟨⟨ha, hp⟩, hac⟩, hr⟩ := hok
  have e : headToks h ++ rest = annotationToks h.annotations ++ (effectTok h.effect :: opT "(" :: idT "principal" ::
      (scopeTail h.principal ++ (opT "," :: idT "action" :: (scopeTail h.action ++ (opT "," :: idT "resource" ::
        (scopeTail h.resource ++ (opT ")" :: rest))))))) := by
    simp [headToks, scopeToks_eq, varName]
  rw [e]
  unfold policyHead
  have hat : ((peek (effectTok h.effect :: opT "(" :: idT "principal" ::
      (scopeTail h.principal ++ (opT "," :: idT "action" :: (scopeTail h.action ++ (opT "," :: idT "resource" ::
        (scopeTail h.resource ++ (opT ")" :: rest)))))))).text == "@") = false := by
    cases h.effect <;> rfl
  rw [annotations_toks _ _ _ ha hat]
  have heff : effect (effectTok h.effect :: opT "(" :: idT "principal" ::
      (scopeTail h.principal ++ (opT "," :: idT "action" :: (scopeTail h.action ++ (opT "," :: idT "resource" ::
        (scopeTail h.resource ++ (opT ")" :: rest))))))) = .ok (h.effect, opT "(" :: idT "principal" ::
      (scopeTail h.principal ++ (opT "," :: idT "action" :: (scopeTail h.action ++ (opT "," :: idT "resource" ::
        (scopeTail h.resource ++ (opT ")" :: rest))))))) := by
    cases h.effect <;> rfl
  simp only [bindE, heff]
  have x1 : exact "(" (opT "(" :: idT "principal" :: (scopeTail h.principal ++ (opT "," :: idT "action" :: (scopeTail h.action ++ (opT "," :: idT "resource" ::
        (scopeTail h.resource ++ (opT ")" :: rest))))))) = .ok (idT "principal" :: (scopeTail h.principal ++ (opT "," :: idT "action" :: (scopeTail h.action ++ (opT "," :: idT "resource" ::
        (scopeTail h.resource ++ (opT ")" :: rest))))))) := rfl
  have x2 : exact "principal" (idT "principal" :: (scopeTail h.principal ++ (opT "," :: idT "action" :: (scopeTail h.action ++ (opT "," :: idT "resource" ::
        (scopeTail h.resource ++ (opT ")" :: rest))))))) = .ok (scopeTail h.principal ++ (opT "," :: idT "action" :: (scopeTail h.action ++ (opT "," :: idT "resource" ::
        (scopeTail h.resource ++ (opT ")" :: rest)))))) := rfl
  simp only [x1, x2]
  rw [scopePR_tail h.principal hp _ (.inl rfl)]
  have x3 : exact "," (opT "," :: idT "action" :: (scopeTail h.action ++ (opT "," :: idT "resource" :: (scopeTail h.resource ++ (opT ")" :: rest)))))
      = .ok (idT "action" :: (scopeTail h.action ++ (opT "," :: idT "resource" :: (scopeTail h.resource ++ (opT ")" :: rest))))) := rfl
  have x4 : exact "action" (idT "action" :: (scopeTail h.action ++ (opT "," :: idT "resource" :: (scopeTail h.resource ++ (opT ")" :: rest)))))
      = .ok (scopeTail h.action ++ (opT "," :: idT "resource" :: (scopeTail h.resource ++ (opT ")" :: rest)))) := rfl
  simp only [x3, x4]
  rw [scopeA_tail h.action hac _ (.inl rfl)]
  have x5 : exact "," (opT "," :: idT "resource" :: (scopeTail h.resource ++ (opT ")" :: rest)))
      = .ok (idT "resource" :: (scopeTail h.resource ++ (opT ")" :: rest))) := rfl
  have x6 : exact "resource" (idT "resource" :: (scopeTail h.resource ++ (opT ")" :: rest))) = .ok (scopeTail h.resource ++ (opT ")" :: rest)) := rfl
  simp only [x5, x6]
  rw [scopePR_tail h.resource hr _ (.inr rfl)]
  have x7 : (if ((peek (opT ")" :: rest)).text == ",") = true then adv (opT ")" :: rest) else opT ")" :: rest) = opT ")" :: rest := rfl
  have x8 : exact ")" (opT ")" :: rest) = .ok rest := rfl
  simp only [x7, x8]

theorem headToks_pos (h : Head) (rest : List Token) : posOfC07 (peek (headToks h ++ rest)) = {} := by
  unfold headToks
  cases ha : h.annotations with
  | nil => cases h.effect <;> rfl
  | cons a as => obtain ⟨k, v⟩ := a; rfl

/-! ## whole policies and lists of policies -/

/-- the token list `T` is read by `Policy.fromCedar` as the policy `p`, whatever follows -/
def PolicyReads (p : Policy) (T : List Token) : Prop :=
  (∀ rest, ((peek (T ++ rest)).ty == TokType.eof) = false) ∧
  ∃ d, ∀ n, d ≤ n → ∀ rest, policy n (T ++ rest) = okP (p, rest)

theorem policyReads_of_head {p : Policy} (hh : headOKb (headOf p) = true) (hpos : p.position = {}) {tc : List Token}
    (hc : CondsRend p.conditions tc) : PolicyReads p (headToks (headOf p) ++ (tc ++ [opT ";"])) := by
  obtain ⟨d, hd⟩ := conditions_read hc
  constructor
  · intro rest
    simp only [headToks, List.append_assoc]
    cases ha : (headOf p).annotations with
    | nil => cases (headOf p).effect <;> rfl
    | cons a as => obtain ⟨k, v⟩ := a; rfl
  · refine ⟨d, fun n hn rest => ?_⟩
    have e : (headToks (headOf p) ++ (tc ++ [opT ";"])) ++ rest = headToks (headOf p) ++ (tc ++ opT ";" :: rest) := by simp
    rw [e]
    unfold policy
    rw [policyHead_headToks (headOf p) hh, bindP_some_ok, headToks_pos]
    simp only
    rw [hd rest n n hn hn, bindP_okP]
    have e2 : exact ";" (opT ";" :: rest) = .ok rest := rfl
    simp only [e2, bindP_some_ok]
    cases p
    simp_all [headOf]

theorem parsePolicy_of_reads {p : Policy} {T : List Token} (h : PolicyReads p T) : parsePolicy T = some (.ok p) := by
  obtain ⟨_, d, hd⟩ := h
  have key : ∀ n, d ≤ n → policy n T = okP (p, []) := by
    intro n hn
    have := hd n hn []
    rwa [List.append_nil] at this
  have hcanon := fuel_canon (fun n => policy n T) (fun n n' hn => mono_policy hn _) (parseFuel T)
    (by obtain ⟨r, hr, _⟩ := tot_policy T; exact ⟨r, hr⟩) d _ key
  unfold parsePolicy
  have hcanon' : policy (parseFuel T) T = okP (p, []) := hcanon
  rw [hcanon']
  rfl

inductive PolsReads : List Policy → List Token → Prop where
  | nil : PolsReads [] []
  | cons {p : Policy} {T rest : List Token} {ps : List Policy} : PolicyReads p T → PolsReads ps rest → PolsReads (p :: ps) (T ++ rest)

theorem policies_reads {ps : List Policy} {ts : List Token} (h : PolsReads ps ts) :
    ∃ d, ∀ m n, d ≤ m → d ≤ n → policiesLoop m n ts = okP ps := by
  induction h with
  | nil =>
    refine ⟨1, fun m n _ hn => ?_⟩
    obtain ⟨n', rfl⟩ : ∃ n', n = n' + 1 := ⟨n - 1, by omega⟩
    rfl
  | @cons p T rest ps hp _ ih =>
    obtain ⟨hne, d1, h1⟩ := hp
    obtain ⟨d2, h2⟩ := ih
    refine ⟨d1 + d2 + 1, fun m n hm hn => ?_⟩
    obtain ⟨n', rfl⟩ : ∃ n', n = n' + 1 := ⟨n - 1, by omega⟩
    unfold policiesLoop
    simp only [hne rest, Bool.false_eq_true, ↓reduceIte]
    rw [h1 m (by omega) rest, bindP_okP]
    simp only
    rw [h2 m n' (by omega) (by omega), bindP_okP]

theorem parsePolicies_of_reads {ps : List Policy} {ts : List Token} (h : PolsReads ps ts) : parsePolicies ts = some (.ok ps) := by
  obtain ⟨d, hd⟩ := policies_reads h
  unfold parsePolicies
  exact fuel_canon (fun n => policiesLoop n n ts) (fun n n' hn => mono_policiesLoop hn _ _ _ hn) (parseFuel ts)
    (tot_policiesLoop _ _ ts (by unfold parseFuel; omega) (by unfold parseFuel; omega)) d _ (fun n hn => hd n n hn hn)

/-! ## renderMin / renderFull on whole policies -/

theorem renderPolicy_head (full : Bool) (p : Policy) :
    renderPolicy full p = headToks (headOf p) ++ (conditionToks full p.conditions ++ [opT ";"]) := by
  simp [renderPolicy, headToks, headOf, effectTok]
  cases p.effect <;> rfl

theorem policyReads_render {full : Bool} {p : Policy} (h : policyOK full p = true) : PolicyReads p (renderPolicy full p) := by
  simp only [policyOK, Bool.and_eq_true, beq_iff_eq] at h
  rw [renderPolicy_head]
  exact policyReads_of_head h.1.1 h.1.2 (condsRend_of_inFrag _ h.2)

def renderListToks (full : Bool) : List Policy → List Token
  | [] => []
  | p :: ps => renderPolicy full p ++ renderListToks full ps

theorem polsReads_render {full : Bool} : ∀ (ps : List Policy), ps.all (policyOK full) = true → PolsReads ps (renderListToks full ps)
  | [], _ => .nil
  | p :: ps, h => by
    simp only [List.all_cons, Bool.and_eq_true] at h
    exact .cons (policyReads_render h.1) (polsReads_render ps h.2)

end CedarGo.Text
