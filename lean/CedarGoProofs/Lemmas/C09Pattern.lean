/-
  Helper lemmas for C09 (`like` patterns in policy JSON): what `types.NewPattern` builds from ANY component list —
  string literals (empty ones included, anywhere) and wildcards (repeated ones included) — is in the normal form the
  greedy matcher needs (`WFPattern`), and it matches exactly the strings the component list denotes: the literals in
  order, each wildcard standing for any text (`compElems`, interpreted by the specification's backtracking matcher).

  Route: the reversed accumulator of `NewPattern` keeps (a) `wfPattern acc.reverse` and (b) "the element sequence of
  `acc.reverse`, followed by the elements of the components still to come, matches like the elements of the whole
  list".  For (b) the only step that is not an equality of element sequences is a wildcard directly after a wildcard
  component: `**` matches like `*` (`starMatch_idem`), under any prefix (`wme_prefix_congr`).
-/
import CedarGo.Model.Json.Policy
import CedarGoProofs.Lemmas.C01Pattern
namespace CedarGo.C09P
open JsonModel
open Spec (starMatch wildcardMatchElems patElems wildcardMatch PatElem)

/-- **what a component list means**: the element sequence of the components handed to `types.NewPattern` /
    written in a JSON `"pattern"` array — a wildcard is a star, a literal is its bytes (nothing for `""`) -/
def compElems : List (Option String) → List PatElem
  | [] => []
  | none :: rest => PatElem.star :: compElems rest
  | some s :: rest => s.toUTF8.toList.map PatElem.justChar ++ compElems rest

theorem patElems_append (p q : Pattern) : patElems (p ++ q) = patElems p ++ patElems q := by
  induction p with
  | nil => simp [patElems]
  | cons c r ih => simp [patElems, ih, List.append_assoc]

theorem patElems_single (c : PatComp) :
    patElems [c] = (if c.wildcard then [PatElem.star] else []) ++ c.literal.map PatElem.justChar := by
  simp [patElems]

/-- `**` matches like `*` -/
theorem starMatch_idem (k : List UInt8 → Bool) (s : List UInt8) : starMatch (starMatch k) s = starMatch k s := by
  induction s with
  | nil => simp [starMatch]
  | cons x xs ih =>
    simp only [starMatch, ih]
    cases k (x :: xs) <;> cases starMatch k xs <;> rfl

/-- element sequences that match alike still do under a common prefix -/
theorem wme_prefix_congr (R X Y : List PatElem) (h : ∀ s, wildcardMatchElems X s = wildcardMatchElems Y s) :
    ∀ s, wildcardMatchElems (R ++ X) s = wildcardMatchElems (R ++ Y) s := by
  induction R with
  | nil => simpa using h
  | cons e R ih =>
    intro s
    cases e with
    | star =>
      simp only [List.cons_append, wildcardMatchElems]
      rw [show wildcardMatchElems (R ++ X) = wildcardMatchElems (R ++ Y) from funext ih]
    | justChar c =>
      cases s with
      | nil => simp [wildcardMatchElems]
      | cons x xs => simp [wildcardMatchElems, ih xs]

/-! ### (b) the meaning of the accumulator -/

theorem step_some_elems (acc : List PatComp) (str : String) :
    patElems (newPatternStep acc (some str)).reverse
      = patElems acc.reverse ++ str.toUTF8.toList.map PatElem.justChar := by
  cases acc with
  | nil => simp [newPatternStep, patElems]
  | cons last rest =>
    simp [newPatternStep, patElems_append, patElems_single, List.append_assoc]

theorem step_none_elems (acc : List PatComp) (T : List PatElem) (s : List UInt8) :
    wildcardMatchElems (patElems (newPatternStep acc none).reverse ++ T) s
      = wildcardMatchElems (patElems acc.reverse ++ PatElem.star :: T) s := by
  cases acc with
  | nil => simp [newPatternStep, patElems]
  | cons last rest =>
    obtain ⟨w, l⟩ := last
    cases l with
    | cons x xs =>
      simp [newPatternStep, patElems_append, patElems, List.append_assoc]
    | nil =>
      cases w with
      | false => simp [newPatternStep, patElems_append, patElems, List.append_assoc]
      | true =>
        have e : ∀ u, wildcardMatchElems ([PatElem.star] ++ T) u = wildcardMatchElems ([PatElem.star] ++ PatElem.star :: T) u := by
          intro u
          simp only [List.singleton_append, wildcardMatchElems]
          exact (starMatch_idem _ u).symm
        have := wme_prefix_congr (patElems rest.reverse) _ _ e s
        simpa [newPatternStep, patElems_append, patElems_single, List.append_assoc] using this

theorem fold_elems : ∀ (cs : List (Option String)) (acc : List PatComp) (s : List UInt8),
    wildcardMatchElems (patElems (cs.foldl newPatternStep acc).reverse) s
      = wildcardMatchElems (patElems acc.reverse ++ compElems cs) s
  | [], acc, s => by simp [compElems]
  | some str :: cs, acc, s => by
    rw [List.foldl_cons, fold_elems cs _ s, step_some_elems]
    simp [compElems, List.append_assoc]
  | none :: cs, acc, s => by
    rw [List.foldl_cons, fold_elems cs _ s, step_none_elems]
    simp [compElems]

/-! ### (a) the shape of the accumulator -/

theorem wfTail_snoc (p : Pattern) (c : PatComp) :
    C01L.wfTail (p ++ [c]) = (p.all (fun x => x.wildcard && !x.literal.isEmpty) && c.wildcard) := by
  induction p with
  | nil => simp [C01L.wfTail]
  | cons x p ih =>
    have hne : (p ++ [c]).isEmpty = false := by cases p <;> rfl
    simp [C01L.wfTail, ih, hne, Bool.and_assoc]

theorem wfPattern_snoc_cons (f : PatComp) (p : Pattern) (c : PatComp) :
    C01L.wfPattern ((f :: p) ++ [c]) =
      (!f.literal.isEmpty && (p.all (fun x => x.wildcard && !x.literal.isEmpty) && c.wildcard)) := by
  have hne : (p ++ [c]).isEmpty = false := by cases p <;> rfl
  simp [C01L.wfPattern, wfTail_snoc, hne]

/-- the last component may be replaced by one that is a wildcard component if it was one -/
theorem wfPattern_set_last (r : Pattern) (c c' : PatComp) (hw : c.wildcard = true → c'.wildcard = true)
    (h : C01L.wfPattern (r ++ [c]) = true) : C01L.wfPattern (r ++ [c']) = true := by
  cases r with
  | nil => simp [C01L.wfPattern, C01L.wfTail]
  | cons f p =>
    rw [wfPattern_snoc_cons] at h ⊢
    simp only [Bool.and_eq_true] at h ⊢
    exact ⟨h.1, h.2.1, hw h.2.2⟩

/-- a wildcard component may follow a component with a non-empty literal -/
theorem wfPattern_snoc_wild (r : Pattern) (c : PatComp) (hne : c.literal.isEmpty = false)
    (h : C01L.wfPattern (r ++ [c]) = true) : C01L.wfPattern (r ++ [c] ++ [⟨true, []⟩]) = true := by
  cases r with
  | nil => simp [C01L.wfPattern, C01L.wfTail, hne]
  | cons f p =>
    rw [wfPattern_snoc_cons] at h
    rw [List.cons_append, wfPattern_snoc_cons]
    simp only [Bool.and_eq_true, List.all_append, List.all_cons, List.all_nil, Bool.and_true] at h ⊢
    exact ⟨h.1, h.2.1, h.2.2, by simp [hne]⟩

theorem step_wf (acc : List PatComp) (c : Option String) (h : C01L.wfPattern acc.reverse = true) :
    C01L.wfPattern (newPatternStep acc c).reverse = true := by
  cases acc with
  | nil => cases c <;> simp [newPatternStep, C01L.wfPattern, C01L.wfTail]
  | cons last rest =>
    rw [List.reverse_cons] at h
    cases c with
    | some str =>
      simp only [newPatternStep, List.reverse_cons]
      exact wfPattern_set_last rest.reverse last _ (fun hw => hw) h
    | none =>
      simp only [newPatternStep]
      split
      · rename_i hne
        simp only [List.reverse_cons]
        exact wfPattern_snoc_wild rest.reverse last (by simpa using hne) h
      · simp only [List.reverse_cons]
        exact wfPattern_set_last rest.reverse last _ (fun _ => rfl) h

theorem fold_wf : ∀ (cs : List (Option String)) (acc : List PatComp), C01L.wfPattern acc.reverse = true →
    C01L.wfPattern (cs.foldl newPatternStep acc).reverse = true
  | [], _, h => h
  | c :: cs, acc, h => by
    rw [List.foldl_cons]
    exact fold_wf cs _ (step_wf acc c h)

/-- **`NewPattern` on any component list**: the result is in the matcher's normal form and matches what the list means -/
theorem newPattern_meaning (cs : List (Option String)) :
    WFPattern (newPattern cs) ∧ ∀ s, matchComps (newPattern cs) s = wildcardMatchElems (compElems cs) s := by
  have hw : WFPattern (newPattern cs) := fold_wf cs [] (by simp [C01L.wfPattern])
  refine ⟨hw, fun s => ?_⟩
  rw [C01L.matchComps_eq_wildcardMatch _ s hw]
  unfold wildcardMatch newPattern
  rw [fold_elems cs [] s]
  simp [patElems]

end CedarGo.C09P
