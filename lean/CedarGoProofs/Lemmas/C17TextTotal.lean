/-
  C17 helper lemmas: the fuel of the schema-text lexer and parser model is never exhausted, and more fuel
  never changes a result.
  * `lexAllF_total`, `parseToks_total`: the `none` (out of fuel) outcome does not occur;
  * `lexFuel_mono`, `parseSchemaF_mono`: fuel irrelevance;
  * `parseSchema_eq`: the two out-of-fuel branches of `parseSchema` are never taken.
-/
import CedarGo.Model.Schema.Parser
namespace CedarGo.Schema.TextTotal
open CedarGo.Schema

/-! ## order on fuel-results -/

/-- `a` is `none` (out of fuel) or equal to `b` -/
def OLe {α : Type} (a b : Option α) : Prop := ∀ r, a = some r → b = some r

theorem OLe.refl {α : Type} (a : Option α) : OLe a a := fun _ h => h
theorem OLe.none {α : Type} (b : Option α) : OLe none b := fun _ h => by simp at h
theorem OLe.trans {α : Type} {a b c : Option α} (h1 : OLe a b) (h2 : OLe b c) : OLe a c := fun r h => h2 r (h1 r h)

theorem ole_ite {α : Type} (c : Prop) [Decidable c] {a a' b b' : Option α} (h1 : OLe a a') (h2 : OLe b b') :
    OLe (if c then a else b) (if c then a' else b') := by
  split <;> assumption

/-! ## lexer -/

theorem skipBlock_len : ∀ (cs r : List Char), skipBlock cs = some r → r.length ≤ cs.length
  | [], r, h => by simp [skipBlock] at h
  | c :: cs, r, h => by
    unfold skipBlock at h
    split at h
    · simp only [Option.some.injEq] at h
      subst h
      simp only [List.length_drop, List.length_cons]
      omega
    · have := skipBlock_len cs r h
      simp only [List.length_cons]
      omega

theorem scanStr_len : ∀ (cs acc raw rest : List Char), scanStr acc cs = some (raw, rest) → rest.length ≤ cs.length
  | [], acc, raw, rest, h => by simp [scanStr] at h
  | [c], acc, raw, rest, h => by
    unfold scanStr at h
    split at h
    · simp only [Option.some.injEq, Prod.mk.injEq] at h
      rw [← h.2]; simp
    · split at h
      · simp at h
      · split at h
        · simp at h
        · simp [scanStr] at h
  | c :: e :: r, acc, raw, rest, h => by
    unfold scanStr at h
    split at h
    · simp only [Option.some.injEq, Prod.mk.injEq] at h
      rw [← h.2]; simp
    · split at h
      · simp at h
      · split at h
        · have := scanStr_len r _ raw rest h
          simp only [List.length_cons]; omega
        · have := scanStr_len (e :: r) _ raw rest h
          simp only [List.length_cons] at this ⊢; omega

theorem dropWhile_len {α : Type} (p : α → Bool) (l : List α) : (l.dropWhile p).length ≤ l.length :=
  (List.dropWhile_sublist p).length_le

theorem consTok_ne_none {t : Tok} {x : LexR} (h : x ≠ none) : consTok t x ≠ none := by
  cases x with
  | none => exact absurd rfl h
  | some r => cases r <;> simp [consTok]

theorem lexFuel_total : ∀ (n : Nat) (cs : List Char), cs.length < n → lexFuel n cs ≠ none := by
  intro n
  induction n with
  | zero => intro cs h; omega
  | succ n ih =>
    intro cs h
    cases cs with
    | nil => simp [lexFuel]
    | cons c cs =>
      simp only [List.length_cons] at h
      have hcs : cs.length < n := by omega
      have hdrop : (cs.drop 1).length < n := by simp only [List.length_drop]; omega
      unfold lexFuel
      split
      · exact ih _ hcs
      split
      · exact ih _ (Nat.lt_of_le_of_lt (dropWhile_len _ _) hdrop)
      split
      · split
        · simp
        · next r hr =>
          exact ih _ (Nat.lt_of_le_of_lt (skipBlock_len _ _ hr) hdrop)
      split
      · exact consTok_ne_none (ih _ (Nat.lt_of_le_of_lt (dropWhile_len _ _) hcs))
      split
      · split
        · simp
        · next raw rest hr =>
          split
          · simp
          · exact consTok_ne_none (ih _ (Nat.lt_of_le_of_lt (scanStr_len _ _ _ _ hr) hcs))
      split
      · split
        · exact consTok_ne_none (ih _ hdrop)
        · exact consTok_ne_none (ih _ hcs)
      split
      · exact consTok_ne_none (ih _ hcs)
      · simp

theorem lexAllF_total (src : List Char) : lexAllF src ≠ none :=
  lexFuel_total _ _ (Nat.lt_succ_self _)

theorem lexAll_eq (src : List Char) : ∃ r, lexAllF src = some r ∧ lexAll src = r := by
  cases h : lexAllF src with
  | none => exact absurd h (lexAllF_total src)
  | some r => exact ⟨r, rfl, by simp [lexAll, h]⟩

theorem ole_consTok {t : Tok} {a b : LexR} (h : OLe a b) : OLe (consTok t a) (consTok t b) := by
  cases a with
  | none => exact OLe.none _
  | some x => rw [h x rfl]; exact OLe.refl _

theorem lexFuel_ole : ∀ (n m : Nat) (cs : List Char), n ≤ m → OLe (lexFuel n cs) (lexFuel m cs) := by
  intro n
  induction n with
  | zero => intro m cs _; unfold lexFuel; exact OLe.none _
  | succ n ih =>
    intro m cs hn
    obtain ⟨m, rfl⟩ : ∃ k, m = k + 1 := ⟨m - 1, by omega⟩
    have hm : n ≤ m := by omega
    cases cs with
    | nil => simp only [lexFuel]; exact OLe.refl _
    | cons c cs =>
      unfold lexFuel
      refine ole_ite _ (ih m _ hm) (ole_ite _ (ih m _ hm) (ole_ite _ ?_ (ole_ite _ (ole_consTok (ih m _ hm))
        (ole_ite _ ?_ (ole_ite _ (ole_ite _ (ole_consTok (ih m _ hm)) (ole_consTok (ih m _ hm))) ?_)))))
      · split
        · exact OLe.refl _
        · exact ih m _ hm
      · split
        · exact OLe.refl _
        · split
          · exact OLe.refl _
          · exact ole_consTok (ih m _ hm)
      · split
        · exact ole_consTok (ih m _ hm)
        · exact OLe.refl _

theorem lexFuel_mono (n m : Nat) (cs : List Char) (r : Except String (List Tok)) :
    lexFuel n cs = some r → n ≤ m → lexFuel m cs = some r :=
  fun h hnm => lexFuel_ole n m cs hnm r h

/-! ## parser: token-count bounds of the fuel-free steps -/

/-- a fuel-free step returns fewer than `L` tokens -/
def BdE {α : Type} (L : Nat) (a : ER α) : Prop := ∀ v r, a = .ok (v, r) → r.length < L

/-- a fuelled step does not run out of fuel and returns fewer than `L` tokens -/
def Bd {α : Type} (L : Nat) (a : PR α) : Prop := a ≠ none ∧ ∀ v r, a = some (.ok (v, r)) → r.length < L

theorem Bd.ok {α : Type} {L : Nat} {v : α} {r : List Tok} (h : r.length < L) : Bd L (some (.ok (v, r)) : PR α) :=
  ⟨by simp, fun v' r' h' => by simp only [Option.some.injEq, Except.ok.injEq, Prod.mk.injEq] at h'; rw [← h'.2]; exact h⟩

theorem Bd.err {α : Type} {L : Nat} {e : String} : Bd L (some (.error e) : PR α) :=
  ⟨by simp, fun v' r' h' => by simp at h'⟩

theorem Bd.mono {α : Type} {L M : Nat} {a : PR α} (h : Bd L a) (hLM : L ≤ M) : Bd M a :=
  ⟨h.1, fun v r hr => Nat.lt_of_lt_of_le (h.2 v r hr) hLM⟩

theorem BdE.mono {α : Type} {L M : Nat} {a : ER α} (h : BdE L a) (hLM : L ≤ M) : BdE M a :=
  fun v r hr => Nat.lt_of_lt_of_le (h v r hr) hLM

theorem Bd.bindR {α β : Type} {L M : Nat} {a : PR α} {k : α → List Tok → PR β} (ha : Bd L a)
    (hk : ∀ v r, r.length < L → Bd M (k v r)) : Bd M (bindR a k) := by
  cases a with
  | none => exact absurd rfl ha.1
  | some x =>
    cases x with
    | error e => exact Bd.err
    | ok p => exact hk p.1 p.2 (ha.2 p.1 p.2 rfl)

theorem Bd.bindE {α β : Type} {L M : Nat} {a : ER α} {k : α → List Tok → PR β} (ha : BdE L a)
    (hk : ∀ v r, r.length < L → Bd M (k v r)) : Bd M (bindE a k) := by
  cases a with
  | error e => exact Bd.err
  | ok p => exact hk p.1 p.2 (ha p.1 p.2 rfl)

theorem Bd.ite {α : Type} {L : Nat} {c : Prop} [Decidable c] {a b : PR α} (h1 : c → Bd L a) (h2 : ¬ c → Bd L b) :
    Bd L (if c then a else b) := by
  split
  · exact h1 ‹_›
  · exact h2 ‹_›

theorem advT_le (ts : List Tok) : (advT ts).length ≤ ts.length := by
  cases ts <;> simp [advT]

theorem advT_lt {ts : List Tok} {t : Tok} (h : peekT ts = t) (ht : t ≠ .eof) : (advT ts).length < ts.length := by
  cases ts with
  | nil => exact absurd h.symm ht
  | cons a r => simp [advT]

theorem optT_le (t : Tok) (ts : List Tok) : (optT t ts).length ≤ ts.length := by
  unfold optT; split
  · exact advT_le ts
  · exact Nat.le_refl _

theorem expectT_bd (t : Tok) (ts : List Tok) : BdE (ts.length + 1) (expectT t ts) := by
  intro v r h
  unfold expectT at h
  split at h
  · simp only [Except.ok.injEq, Prod.mk.injEq] at h
    rw [← h.2]; exact Nat.lt_succ_of_le (advT_le ts)
  · simp at h

theorem annValue_bd (ts : List Tok) : BdE (ts.length + 1) (annValue ts) := by
  intro v r h
  unfold annValue at h
  split at h
  · split at h
    · split at h
      · next u r' he =>
        simp only [Except.ok.injEq, Prod.mk.injEq] at h
        have := expectT_bd _ _ _ _ he
        have := advT_le ts
        have := advT_le (advT ts)
        rw [← h.2]; omega
      · simp at h
    · simp at h
  · simp only [Except.ok.injEq, Prod.mk.injEq] at h
    rw [← h.2]; exact Nat.lt_succ_self _

theorem parsePathRest_bd : ∀ (p : String) (ts : List Tok), BdE (ts.length + 1) (parsePathRest p ts) := by
  intro p ts
  induction p, ts using parsePathRest.induct with
  | case1 path s rest ih =>
    intro v r h
    rw [parsePathRest] at h
    have := ih v r h
    simp only [List.length_cons]; omega
  | case2 path ts' hne =>
    intro v r h
    rw [parsePathRest] at h
    · simp at h
    · exact hne
  | case3 path ts' h1 h2 =>
    intro v r h
    rw [parsePathRest] at h
    · simp only [Except.ok.injEq, Prod.mk.injEq] at h
      rw [← h.2]; exact Nat.lt_succ_self _
    · exact h1
    · exact h2

theorem pathFirst_lt {ts : List Tok} {s : String} (h : pathFirst (peekT ts) = some s) : (advT ts).length < ts.length := by
  cases ts with
  | nil => simp [peekT, pathFirst] at h
  | cons a r => simp [advT]

theorem nameTok_lt {ts : List Tok} {s : String} (h : nameTok (peekT ts) = some s) : (advT ts).length < ts.length := by
  cases ts with
  | nil => simp [peekT, nameTok] at h
  | cons a r => simp [advT]

theorem parsePath_bd (ts : List Tok) : BdE ts.length (parsePath ts) := by
  intro v r h
  unfold parsePath at h
  split at h
  · next first hf =>
    have := parsePathRest_bd _ _ _ _ h
    have := pathFirst_lt hf
    omega
  · simp at h

theorem parseName_bd (ts : List Tok) : BdE ts.length (parseName ts) := by
  intro v r h
  unfold parseName at h
  split at h
  · next s hs =>
    simp only [Except.ok.injEq, Prod.mk.injEq] at h
    rw [← h.2]; exact nameTok_lt hs
  · simp at h

theorem qualMore_bd : ∀ (p : String) (ts : List Tok), BdE (ts.length + 1) (qualMore p ts) := by
  intro p ts
  induction p, ts using qualMore.induct with
  | case1 path s rest =>
    intro v r h
    rw [qualMore] at h
    simp only [Except.ok.injEq, Prod.mk.injEq] at h
    rw [← h.2]; simp only [List.length_cons]; omega
  | case2 path s rest ih =>
    intro v r h
    rw [qualMore] at h
    have := ih v r h
    simp only [List.length_cons]; omega
  | case3 path ts' h1 h2 =>
    intro v r h
    rw [qualMore] at h
    · simp at h
    · exact h1
    · exact h2
  | case4 path ts' h1 h2 h3 =>
    intro v r h
    rw [qualMore] at h
    · simp only [Except.ok.injEq, Prod.mk.injEq] at h
      rw [← h.2]; exact Nat.lt_succ_self _
    · exact h1
    · exact h2
    · exact h3

theorem parseQualName_bd (ts : List Tok) : BdE ts.length (parseQualName ts) := by
  intro v r h
  unfold parseQualName at h
  split at h
  · next s hs =>
    simp only [Except.ok.injEq, Prod.mk.injEq] at h
    rw [← h.2]; exact advT_lt hs (by simp)
  · split at h
    · next first hf =>
      have := qualMore_bd _ _ _ _ h
      have := pathFirst_lt hf
      omega
    · simp at h

theorem identsMore_bd : ∀ (acc : List String) (ts : List Tok), BdE (ts.length + 1) (identsMore acc ts) := by
  intro acc ts
  induction acc, ts using identsMore.induct with
  | case1 acc s rest ih =>
    intro v r h
    rw [identsMore] at h
    have := ih v r h
    simp only [List.length_cons]; omega
  | case2 acc ts' hne =>
    intro v r h
    rw [identsMore] at h
    · simp at h
    · exact hne
  | case3 acc ts' h1 h2 =>
    intro v r h
    rw [identsMore] at h
    · simp only [Except.ok.injEq, Prod.mk.injEq] at h
      rw [← h.2]; exact Nat.lt_succ_self _
    · exact h1
    · exact h2

theorem parseIdents_bd (ts : List Tok) : BdE (ts.length + 1) (parseIdents ts) := by
  intro v r h
  unfold parseIdents at h
  split at h
  · have := identsMore_bd _ _ _ _ h
    have := advT_le ts
    omega
  · simp at h

theorem namesMore_bd : ∀ (acc : List String) (ts : List Tok), BdE (ts.length + 1) (namesMore acc ts) := by
  intro acc ts
  induction acc, ts using namesMore.induct with
  | case1 acc t rest s hs ih =>
    intro v r h
    rw [namesMore] at h
    simp only [hs] at h
    have := ih v r h
    simp only [List.length_cons]; omega
  | case2 acc t rest hs =>
    intro v r h
    rw [namesMore] at h
    simp [hs] at h
  | case3 acc =>
    intro v r h
    simp [namesMore] at h
  | case4 acc ts' h1 h2 =>
    intro v r h
    rw [namesMore] at h
    · simp only [Except.ok.injEq, Prod.mk.injEq] at h
      rw [← h.2]; exact Nat.lt_succ_self _
    · exact h1
    · exact h2

theorem parseNames_bd (ts : List Tok) : BdE (ts.length + 1) (parseNames ts) := by
  intro v r h
  unfold parseNames at h
  split at h
  · next first r' hn =>
    have := namesMore_bd _ _ _ _ h
    have := parseName_bd _ _ _ hn
    omega
  · simp at h

theorem enumLoop_bd : ∀ (acc : List String) (ts : List Tok), BdE (ts.length + 1) (enumLoop acc ts) := by
  intro acc ts
  induction acc, ts using enumLoop.induct with
  | case1 acc rest =>
    intro v r h
    simp only [enumLoop, Except.ok.injEq, Prod.mk.injEq] at h
    rw [← h.2]; simp only [List.length_cons]; omega
  | case2 acc s rest ih =>
    intro v r h
    rw [enumLoop] at h
    have := ih v r h
    simp only [List.length_cons]; omega
  | case3 acc s rest =>
    intro v r h
    simp only [enumLoop, Except.ok.injEq, Prod.mk.injEq] at h
    rw [← h.2]; simp only [List.length_cons]; omega
  | case4 acc s rest h1 h2 =>
    intro v r h
    rw [enumLoop] at h
    · simp at h
    · exact h1
    · exact h2
  | case5 acc ts' h1 h2 h3 h4 =>
    intro v r h
    rw [enumLoop] at h
    · simp at h
    · exact h1
    · exact h2
    · exact h3
    · exact h4

theorem parseActionAttributes_bd (ts : List Tok) : BdE (ts.length + 1) (parseActionAttributes ts) := by
  intro v r h
  unfold parseActionAttributes at h
  split at h
  · split at h
    · next u r' he =>
      have := expectT_bd _ _ _ _ he
      have := expectT_bd _ _ _ _ h
      have := advT_le ts
      omega
    · simp at h
  · simp only [Except.ok.injEq, Prod.mk.injEq] at h
    rw [← h.2]; exact Nat.lt_succ_self _

/-! ## parser: totality (with fuel above the token count) and token-count bounds of the fuelled steps -/

theorem parseAnnsF_bd : ∀ (n : Nat) (acc : Anns) (ts : List Tok), ts.length < n → Bd (ts.length + 1) (parseAnnsF n acc ts) := by
  intro n
  induction n with
  | zero => intro acc ts h; omega
  | succ n ih =>
    intro acc ts h
    unfold parseAnnsF
    refine Bd.ite (fun _ => Bd.ok (Nat.lt_succ_self _)) fun hat => ?_
    have hat' : peekT ts = .at := Classical.not_not.mp hat
    have h1 := advT_lt hat' (by simp)
    have h2 := advT_le (advT ts)
    split
    · exact Bd.err
    · refine Bd.bindE (annValue_bd _) fun value r hr => Bd.ite (fun _ => Bd.err) fun _ => ?_
      exact (ih _ r (by omega)).mono (by omega)

theorem parseTypeF_recLoopF_bd : ∀ (n : Nat),
    (∀ ts : List Tok, ts.length < n → Bd (ts.length + 1) (parseTypeF n ts)) ∧
    (∀ (acc : List (String × Bool × Anns × Ty)) (ts : List Tok), ts.length < n → Bd (ts.length + 1) (recLoopF n acc ts)) := by
  intro n
  induction n with
  | zero => exact ⟨fun ts h => by omega, fun acc ts h => by omega⟩
  | succ n ih =>
    refine ⟨fun ts h => ?_, fun acc ts h => ?_⟩
    · unfold parseTypeF
      refine Bd.ite (fun hb => ?_) fun _ => Bd.ite (fun hs => ?_) fun _ => ?_
      · have h1 := advT_lt hb (by simp)
        refine Bd.bindR (ih.2 [] (advT ts) (by omega)) fun as r hr => Bd.ok (by omega)
      · have h1 := advT_lt hs (by simp)
        have h2 := advT_le (advT ts)
        refine Bd.ite (fun _ => ?_) fun _ => ?_
        · exact Bd.bindE (parsePathRest_bd _ _) fun p r hr => Bd.ok (by omega)
        · refine Bd.bindR (ih.1 (advT (advT ts)) (by omega)) fun e r hr => ?_
          exact Bd.bindE (expectT_bd _ _) fun _ r' hr' => Bd.ok (by omega)
      · exact Bd.bindE (parsePath_bd _) fun p r hr => Bd.ok (by omega)
    · unfold recLoopF
      refine Bd.ite (fun _ => Bd.ok (Nat.lt_succ_of_le (advT_le ts))) fun _ => Bd.ite (fun _ => Bd.err) fun _ => ?_
      refine Bd.bindR (parseAnnsF_bd (n + 1) [] ts h) fun anns r1 h1 => ?_
      refine Bd.bindE (parseName_bd r1) fun name r2 h2 => ?_
      have ho := optT_le .question r2
      refine Bd.bindE (expectT_bd _ _) fun _ r3 h3 => ?_
      refine Bd.bindR (ih.1 r3 (by omega)) fun t r4 h4 => ?_
      have ho' := optT_le .comma r4
      exact (ih.2 _ _ (by omega)).mono (by omega)

theorem parseTypeF_bd {n : Nat} {ts : List Tok} (h : ts.length < n) : Bd (ts.length + 1) (parseTypeF n ts) :=
  (parseTypeF_recLoopF_bd n).1 ts h

theorem recLoopF_bd {n : Nat} {ts : List Tok} (acc : List (String × Bool × Anns × Ty)) (h : ts.length < n) :
    Bd (ts.length + 1) (recLoopF n acc ts) :=
  (parseTypeF_recLoopF_bd n).2 acc ts h

theorem parseRecordF_bd {n : Nat} {ts : List Tok} (h : ts.length < n) : Bd (ts.length + 1) (parseRecordF n ts) := by
  unfold parseRecordF
  refine Bd.bindE (expectT_bd _ _) fun _ r hr => ?_
  exact Bd.bindR (recLoopF_bd [] (by omega)) fun as r' hr' => Bd.ok (by omega)

theorem bracketLoopF_bd {α : Type} {item : List Tok → ER α} (hitem : ∀ ts, BdE ts.length (item ts)) :
    ∀ (n : Nat) (acc : List α) (ts : List Tok), ts.length < n → Bd (ts.length + 1) (bracketLoopF item n acc ts) := by
  intro n
  induction n with
  | zero => intro acc ts h; omega
  | succ n ih =>
    intro acc ts h
    unfold bracketLoopF
    refine Bd.ite (fun _ => Bd.ok (Nat.lt_succ_of_le (advT_le ts))) fun _ => ?_
    refine Bd.bindE (hitem ts) fun p r hr => ?_
    have ha := advT_le r
    refine Bd.ite (fun _ => (ih _ _ (by omega)).mono (by omega)) fun _ => Bd.ite (fun _ => Bd.err) fun _ => ?_
    exact (ih _ _ (by omega)).mono (by omega)

theorem bracketOrOneF_bd {α : Type} {item : List Tok → ER α} (hitem : ∀ ts, BdE ts.length (item ts))
    {n : Nat} {ts : List Tok} (h : ts.length < n) : Bd (ts.length + 1) (bracketOrOneF item n ts) := by
  unfold bracketOrOneF
  have ha := advT_le ts
  refine Bd.ite (fun _ => (bracketLoopF_bd hitem n [] (advT ts) (by omega)).mono (by omega)) fun _ => ?_
  exact Bd.bindE (hitem ts) fun p r hr => Bd.ok (by omega)

theorem parseEntityTypesF_bd {n : Nat} {ts : List Tok} (h : ts.length < n) : Bd (ts.length + 1) (parseEntityTypesF n ts) :=
  bracketOrOneF_bd parsePath_bd h

theorem parseActionParentsF_bd {n : Nat} {ts : List Tok} (h : ts.length < n) : Bd (ts.length + 1) (parseActionParentsF n ts) :=
  bracketOrOneF_bd parseQualName_bd h

theorem appliesLoopF_bd : ∀ (n : Nat) (ap : AppliesTo) (hasP hasR hasC : Bool) (ts : List Tok), ts.length < n →
    Bd (ts.length + 1) (appliesLoopF n ap hasP hasR hasC ts) := by
  intro n
  induction n with
  | zero => intro ap hasP hasR hasC ts h; omega
  | succ n ih =>
    intro ap hasP hasR hasC ts h
    unfold appliesLoopF
    refine Bd.ite (fun _ => Bd.ok (Nat.lt_succ_self _)) fun _ => Bd.ite (fun _ => Bd.err) fun _ => ?_
    refine Bd.ite (fun hp => ?_) fun _ => Bd.ite (fun hp => ?_) fun _ => Bd.ite (fun hp => ?_) fun _ => Bd.err
    · have h1 := advT_lt hp (by simp)
      refine Bd.ite (fun _ => Bd.err) fun _ => Bd.bindE (expectT_bd _ _) fun _ r hr => ?_
      refine Bd.bindR (parseEntityTypesF_bd (by omega)) fun refs r' hr' => Bd.ite (fun _ => Bd.err) fun _ => ?_
      have ho := optT_le .comma r'
      exact (ih _ _ _ _ _ (by omega)).mono (by omega)
    · have h1 := advT_lt hp (by simp)
      refine Bd.ite (fun _ => Bd.err) fun _ => Bd.bindE (expectT_bd _ _) fun _ r hr => ?_
      refine Bd.bindR (parseEntityTypesF_bd (by omega)) fun refs r' hr' => Bd.ite (fun _ => Bd.err) fun _ => ?_
      have ho := optT_le .comma r'
      exact (ih _ _ _ _ _ (by omega)).mono (by omega)
    · have h1 := advT_lt hp (by simp)
      refine Bd.ite (fun _ => Bd.err) fun _ => Bd.bindE (expectT_bd _ _) fun _ r hr => ?_
      refine Bd.bindR (parseTypeF_bd (by omega)) fun t r' hr' => ?_
      have ho := optT_le .comma r'
      exact (ih _ _ _ _ _ (by omega)).mono (by omega)

theorem parseAppliesToF_bd {n : Nat} {ts : List Tok} (h : ts.length < n) : Bd (ts.length + 1) (parseAppliesToF n ts) := by
  unfold parseAppliesToF
  refine Bd.bindE (expectT_bd _ _) fun _ r hr => ?_
  refine Bd.bindR (appliesLoopF_bd n _ _ _ _ r (by omega)) fun res r' hr' => ?_
  have ha := advT_le r'
  exact Bd.ite (fun _ => Bd.err) fun _ => Bd.ite (fun _ => Bd.err) fun _ => Bd.ok (by omega)

theorem liftNs_bd {L : Nat} {x : Except String Namespace} {r : List Tok} (h : r.length < L) : Bd L (liftNs x r) := by
  cases x with
  | error e => exact Bd.err
  | ok d => exact Bd.ok h

theorem parseEnumRest_bd (anns : Anns) (names : List String) (d : Namespace) (ts : List Tok) :
    Bd (ts.length + 1) (parseEnumRest anns names d ts) := by
  unfold parseEnumRest
  refine Bd.bindE (expectT_bd _ _) fun _ r hr => Bd.bindE (enumLoop_bd _ _) fun values r' hr' => ?_
  refine Bd.ite (fun _ => Bd.err) fun _ => Bd.bindE (expectT_bd _ _) fun _ r'' hr'' => liftNs_bd (by omega)

theorem parseEntityIn_bd {n : Nat} {ts : List Tok} (h : ts.length < n) : Bd (ts.length + 1) (parseEntityIn n ts) := by
  unfold parseEntityIn
  have ha := advT_le ts
  exact Bd.ite (fun _ => (parseEntityTypesF_bd (by omega)).mono (by omega)) fun _ => Bd.ok (by omega)

theorem parseEntityShape_bd {n : Nat} {ts : List Tok} (h : ts.length < n) : Bd (ts.length + 1) (parseEntityShape n ts) := by
  unfold parseEntityShape
  have ha := advT_le ts
  refine Bd.ite (fun _ => ?_) fun _ => Bd.ite (fun _ => ?_) fun _ => Bd.ok (by omega)
  · exact Bd.bindR (parseRecordF_bd (ts := advT ts) (by omega)) fun as r hr => Bd.ok (by omega)
  · exact Bd.bindR (parseRecordF_bd h) fun as r hr => Bd.ok (by omega)

theorem parseEntityTags_bd {n : Nat} {ts : List Tok} (h : ts.length < n) : Bd (ts.length + 1) (parseEntityTags n ts) := by
  unfold parseEntityTags
  have ha := advT_le ts
  refine Bd.ite (fun _ => ?_) fun _ => Bd.ok (by omega)
  exact Bd.bindR (parseTypeF_bd (ts := advT ts) (by omega)) fun t r hr => Bd.ok (by omega)

theorem parseEntityF_bd {n : Nat} {ts : List Tok} (anns : Anns) (d : Namespace) (h : ts.length < n) :
    Bd (ts.length + 1) (parseEntityF n anns d ts) := by
  unfold parseEntityF
  refine Bd.bindE (parseIdents_bd _) fun names r hr => ?_
  have ha := advT_le r
  refine Bd.ite (fun _ => (parseEnumRest_bd _ _ _ _).mono (by omega)) fun _ => ?_
  refine Bd.bindR (parseEntityIn_bd (by omega)) fun memberOf r1 h1 => ?_
  refine Bd.bindR (parseEntityShape_bd (by omega)) fun shape r2 h2 => ?_
  refine Bd.bindR (parseEntityTags_bd (by omega)) fun tags r3 h3 => ?_
  exact Bd.bindE (expectT_bd _ _) fun _ r4 h4 => liftNs_bd (by omega)

theorem parseActionIn_bd {n : Nat} {ts : List Tok} (h : ts.length < n) : Bd (ts.length + 1) (parseActionIn n ts) := by
  unfold parseActionIn
  have ha := advT_le ts
  exact Bd.ite (fun _ => (parseActionParentsF_bd (by omega)).mono (by omega)) fun _ => Bd.ok (by omega)

theorem parseActionApplies_bd {n : Nat} {ts : List Tok} (h : ts.length < n) : Bd (ts.length + 1) (parseActionApplies n ts) := by
  unfold parseActionApplies
  have ha := advT_le ts
  refine Bd.ite (fun _ => ?_) fun _ => Bd.ok (by omega)
  exact Bd.bindR (parseAppliesToF_bd (ts := advT ts) (by omega)) fun ap r hr => Bd.ok (by omega)

theorem parseActionF_bd {n : Nat} {ts : List Tok} (anns : Anns) (d : Namespace) (h : ts.length < n) :
    Bd (ts.length + 1) (parseActionF n anns d ts) := by
  unfold parseActionF
  refine Bd.bindE (parseNames_bd _) fun names r hr => ?_
  refine Bd.bindR (parseActionIn_bd (by omega)) fun memberOf r1 h1 => ?_
  refine Bd.bindR (parseActionApplies_bd (by omega)) fun applies r2 h2 => ?_
  refine Bd.bindE (parseActionAttributes_bd _) fun _ r3 h3 => ?_
  exact Bd.bindE (expectT_bd _ _) fun _ r4 h4 => liftNs_bd (by omega)

theorem parseTypeDeclF_bd {n : Nat} {ts : List Tok} (anns : Anns) (d : Namespace) (h : ts.length < n) :
    Bd (ts.length + 1) (parseTypeDeclF n anns d ts) := by
  unfold parseTypeDeclF
  have ha := advT_le ts
  split
  · refine Bd.ite (fun _ => Bd.err) fun _ => Bd.bindE (expectT_bd _ _) fun _ r hr => ?_
    refine Bd.bindR (parseTypeF_bd (by omega)) fun t r1 h1 => Bd.bindE (expectT_bd _ _) fun _ r2 h2 => ?_
    exact Bd.ite (fun _ => Bd.err) fun _ => Bd.ok (by omega)
  · exact Bd.err

/-- a declaration consumes its keyword: fuel equal to the token count suffices, and the rest is strictly shorter -/
theorem parseDeclF_bd {n : Nat} {ts : List Tok} (anns : Anns) (d : Namespace) (h : ts.length ≤ n) :
    Bd ts.length (parseDeclF n anns d ts) := by
  unfold parseDeclF
  refine Bd.ite (fun hk => ?_) fun _ => Bd.ite (fun hk => ?_) fun _ => Bd.ite (fun hk => ?_) fun _ => Bd.err
  · have h1 := advT_lt hk (by simp)
    exact (parseEntityF_bd anns d (ts := advT ts) (by omega)).mono (by omega)
  · have h1 := advT_lt hk (by simp)
    exact (parseActionF_bd anns d (ts := advT ts) (by omega)).mono (by omega)
  · have h1 := advT_lt hk (by simp)
    exact (parseTypeDeclF_bd anns d (ts := advT ts) (by omega)).mono (by omega)

theorem nsLoopF_bd : ∀ (n : Nat) (d : Namespace) (ts : List Tok), ts.length < n → Bd (ts.length + 1) (nsLoopF n d ts) := by
  intro n
  induction n with
  | zero => intro d ts h; omega
  | succ n ih =>
    intro d ts h
    unfold nsLoopF
    refine Bd.ite (fun _ => Bd.ok (Nat.lt_succ_of_le (advT_le ts))) fun _ => Bd.ite (fun _ => Bd.err) fun _ => ?_
    refine Bd.bindR (parseAnnsF_bd (n + 1) [] ts h) fun inner r hr => ?_
    refine Bd.bindR (parseDeclF_bd inner d (ts := r) (by omega)) fun d' r' hr' => ?_
    exact (ih d' r' (by omega)).mono (by omega)

theorem parseSchemaF_bd : ∀ (n : Nat) (s : Schema) (ts : List Tok), ts.length < n → Bd (ts.length + 1) (parseSchemaF n s ts) := by
  intro n
  induction n with
  | zero => intro s ts h; omega
  | succ n ih =>
    intro s ts h
    unfold parseSchemaF
    refine Bd.ite (fun _ => Bd.ok (Nat.lt_succ_self _)) fun _ => ?_
    refine Bd.bindR (parseAnnsF_bd (n + 1) [] ts h) fun anns r hr => ?_
    have ha := advT_le r
    refine Bd.ite (fun _ => ?_) fun _ => ?_
    · refine Bd.bindE (parsePath_bd _) fun path r1 h1 => Bd.ite (fun _ => Bd.err) fun _ => ?_
      refine Bd.bindE (expectT_bd _ _) fun _ r2 h2 => ?_
      refine Bd.bindR (nsLoopF_bd n _ r2 (by omega)) fun d r3 h3 => Bd.ite (fun _ => Bd.err) fun _ => ?_
      exact (ih _ r3 (by omega)).mono (by omega)
    · refine Bd.bindR (parseDeclF_bd anns s.bare (ts := r) (by omega)) fun d r' hr' => ?_
      exact (ih _ r' (by omega)).mono (by omega)

/-- the parser model never runs out of fuel: `some (.error _)` is always a rejection -/
theorem parseToks_total (toks : List Tok) : parseToks toks ≠ none :=
  (parseSchemaF_bd _ _ toks (Nat.lt_succ_self _)).1

/-! ## parser: more fuel never changes a result -/

theorem ole_bindR {α β : Type} {a a' : PR α} {k k' : α → List Tok → PR β} (ha : OLe a a')
    (hk : ∀ v r, OLe (k v r) (k' v r)) : OLe (bindR a k) (bindR a' k') := by
  cases a with
  | none => exact OLe.none _
  | some x =>
    rw [ha x rfl]
    cases x with
    | error e => exact OLe.refl _
    | ok p => exact hk p.1 p.2

theorem ole_bindE {α β : Type} (a : ER α) {k k' : α → List Tok → PR β}
    (hk : ∀ v r, OLe (k v r) (k' v r)) : OLe (bindE a k) (bindE a k') := by
  cases a with
  | error e => exact OLe.refl _
  | ok p => exact hk p.1 p.2

theorem parseAnnsF_ole : ∀ (n m : Nat) (acc : Anns) (ts : List Tok), n ≤ m → OLe (parseAnnsF n acc ts) (parseAnnsF m acc ts) := by
  intro n
  induction n with
  | zero => intro m acc ts _; unfold parseAnnsF; exact OLe.none _
  | succ n ih =>
    intro m acc ts hn
    obtain ⟨m, rfl⟩ : ∃ k, m = k + 1 := ⟨m - 1, by omega⟩
    unfold parseAnnsF
    refine ole_ite _ (OLe.refl _) ?_
    split
    · exact OLe.refl _
    · exact ole_bindE _ fun value r => ole_ite _ (OLe.refl _) (ih m _ _ (by omega))

theorem parseTypeF_recLoopF_ole : ∀ (n : Nat),
    (∀ (m : Nat) (ts : List Tok), n ≤ m → OLe (parseTypeF n ts) (parseTypeF m ts)) ∧
    (∀ (m : Nat) (acc : List (String × Bool × Anns × Ty)) (ts : List Tok), n ≤ m → OLe (recLoopF n acc ts) (recLoopF m acc ts)) := by
  intro n
  induction n with
  | zero => exact ⟨fun m ts _ => by unfold parseTypeF; exact OLe.none _, fun m acc ts _ => by unfold recLoopF; exact OLe.none _⟩
  | succ n ih =>
    refine ⟨fun m ts hn => ?_, fun m acc ts hn => ?_⟩
    · obtain ⟨m, rfl⟩ : ∃ k, m = k + 1 := ⟨m - 1, by omega⟩
      have hm : n ≤ m := by omega
      unfold parseTypeF
      refine ole_ite _ (ole_bindR (ih.2 m _ _ hm) fun _ _ => OLe.refl _) (ole_ite _ (ole_ite _ (OLe.refl _) ?_) (OLe.refl _))
      exact ole_bindR (ih.1 m _ hm) fun _ _ => OLe.refl _
    · obtain ⟨m, rfl⟩ : ∃ k, m = k + 1 := ⟨m - 1, by omega⟩
      have hm : n ≤ m := by omega
      unfold recLoopF
      refine ole_ite _ (OLe.refl _) (ole_ite _ (OLe.refl _) ?_)
      refine ole_bindR (parseAnnsF_ole _ _ _ _ hn) fun anns r1 => ole_bindE _ fun name r2 => ole_bindE _ fun _ r3 => ?_
      exact ole_bindR (ih.1 m _ hm) fun t r4 => ih.2 m _ _ hm

theorem parseTypeF_ole {n m : Nat} (h : n ≤ m) (ts : List Tok) : OLe (parseTypeF n ts) (parseTypeF m ts) :=
  (parseTypeF_recLoopF_ole n).1 m ts h

theorem recLoopF_ole {n m : Nat} (h : n ≤ m) (acc : List (String × Bool × Anns × Ty)) (ts : List Tok) :
    OLe (recLoopF n acc ts) (recLoopF m acc ts) :=
  (parseTypeF_recLoopF_ole n).2 m acc ts h

theorem parseRecordF_ole {n m : Nat} (h : n ≤ m) (ts : List Tok) : OLe (parseRecordF n ts) (parseRecordF m ts) := by
  unfold parseRecordF
  exact ole_bindE _ fun _ r => ole_bindR (recLoopF_ole h _ _) fun _ _ => OLe.refl _

theorem bracketLoopF_ole {α : Type} (item : List Tok → ER α) : ∀ (n m : Nat) (acc : List α) (ts : List Tok), n ≤ m →
    OLe (bracketLoopF item n acc ts) (bracketLoopF item m acc ts) := by
  intro n
  induction n with
  | zero => intro m acc ts _; unfold bracketLoopF; exact OLe.none _
  | succ n ih =>
    intro m acc ts hn
    obtain ⟨m, rfl⟩ : ∃ k, m = k + 1 := ⟨m - 1, by omega⟩
    have hm : n ≤ m := by omega
    unfold bracketLoopF
    refine ole_ite _ (OLe.refl _) (ole_bindE _ fun p r => ?_)
    exact ole_ite _ (ih m _ _ hm) (ole_ite _ (OLe.refl _) (ih m _ _ hm))

theorem bracketOrOneF_ole {α : Type} (item : List Tok → ER α) {n m : Nat} (h : n ≤ m) (ts : List Tok) :
    OLe (bracketOrOneF item n ts) (bracketOrOneF item m ts) := by
  unfold bracketOrOneF
  exact ole_ite _ (bracketLoopF_ole item n m _ _ h) (OLe.refl _)

theorem appliesLoopF_ole : ∀ (n m : Nat) (ap : AppliesTo) (hasP hasR hasC : Bool) (ts : List Tok), n ≤ m →
    OLe (appliesLoopF n ap hasP hasR hasC ts) (appliesLoopF m ap hasP hasR hasC ts) := by
  intro n
  induction n with
  | zero => intro m ap hasP hasR hasC ts _; unfold appliesLoopF; exact OLe.none _
  | succ n ih =>
    intro m ap hasP hasR hasC ts hn
    obtain ⟨m, rfl⟩ : ∃ k, m = k + 1 := ⟨m - 1, by omega⟩
    have hm : n ≤ m := by omega
    unfold appliesLoopF
    refine ole_ite _ (OLe.refl _) (ole_ite _ (OLe.refl _) (ole_ite _ ?_ (ole_ite _ ?_ (ole_ite _ ?_ (OLe.refl _)))))
    · refine ole_ite _ (OLe.refl _) (ole_bindE _ fun _ r => ?_)
      refine ole_bindR (bracketOrOneF_ole _ hm _) fun refs r' => ole_ite _ (OLe.refl _) (ih m _ _ _ _ _ hm)
    · refine ole_ite _ (OLe.refl _) (ole_bindE _ fun _ r => ?_)
      refine ole_bindR (bracketOrOneF_ole _ hm _) fun refs r' => ole_ite _ (OLe.refl _) (ih m _ _ _ _ _ hm)
    · refine ole_ite _ (OLe.refl _) (ole_bindE _ fun _ r => ?_)
      exact ole_bindR (parseTypeF_ole hm _) fun t r' => ih m _ _ _ _ _ hm

theorem parseAppliesToF_ole {n m : Nat} (h : n ≤ m) (ts : List Tok) : OLe (parseAppliesToF n ts) (parseAppliesToF m ts) := by
  unfold parseAppliesToF
  exact ole_bindE _ fun _ r => ole_bindR (appliesLoopF_ole n m _ _ _ _ _ h) fun _ _ => OLe.refl _

theorem parseEntityF_ole {n m : Nat} (h : n ≤ m) (anns : Anns) (d : Namespace) (ts : List Tok) :
    OLe (parseEntityF n anns d ts) (parseEntityF m anns d ts) := by
  unfold parseEntityF
  refine ole_bindE _ fun names r => ole_ite _ (OLe.refl _) ?_
  refine ole_bindR ?_ fun memberOf r1 => ole_bindR ?_ fun shape r2 => ole_bindR ?_ fun tags r3 => OLe.refl _
  · unfold parseEntityIn parseEntityTypesF
    exact ole_ite _ (bracketOrOneF_ole _ h _) (OLe.refl _)
  · unfold parseEntityShape
    exact ole_ite _ (ole_bindR (parseRecordF_ole h _) fun _ _ => OLe.refl _)
      (ole_ite _ (ole_bindR (parseRecordF_ole h _) fun _ _ => OLe.refl _) (OLe.refl _))
  · unfold parseEntityTags
    exact ole_ite _ (ole_bindR (parseTypeF_ole h _) fun _ _ => OLe.refl _) (OLe.refl _)

theorem parseActionF_ole {n m : Nat} (h : n ≤ m) (anns : Anns) (d : Namespace) (ts : List Tok) :
    OLe (parseActionF n anns d ts) (parseActionF m anns d ts) := by
  unfold parseActionF
  refine ole_bindE _ fun names r => ole_bindR ?_ fun memberOf r1 => ole_bindR ?_ fun applies r2 => OLe.refl _
  · unfold parseActionIn parseActionParentsF
    exact ole_ite _ (bracketOrOneF_ole _ h _) (OLe.refl _)
  · unfold parseActionApplies
    exact ole_ite _ (ole_bindR (parseAppliesToF_ole h _) fun _ _ => OLe.refl _) (OLe.refl _)

theorem parseTypeDeclF_ole {n m : Nat} (h : n ≤ m) (anns : Anns) (d : Namespace) (ts : List Tok) :
    OLe (parseTypeDeclF n anns d ts) (parseTypeDeclF m anns d ts) := by
  unfold parseTypeDeclF
  split
  · exact ole_ite _ (OLe.refl _) (ole_bindE _ fun _ r => ole_bindR (parseTypeF_ole h _) fun _ _ => OLe.refl _)
  · exact OLe.refl _

theorem parseDeclF_ole {n m : Nat} (h : n ≤ m) (anns : Anns) (d : Namespace) (ts : List Tok) :
    OLe (parseDeclF n anns d ts) (parseDeclF m anns d ts) := by
  unfold parseDeclF
  exact ole_ite _ (parseEntityF_ole h _ _ _) (ole_ite _ (parseActionF_ole h _ _ _) (ole_ite _ (parseTypeDeclF_ole h _ _ _) (OLe.refl _)))

theorem nsLoopF_ole : ∀ (n m : Nat) (d : Namespace) (ts : List Tok), n ≤ m → OLe (nsLoopF n d ts) (nsLoopF m d ts) := by
  intro n
  induction n with
  | zero => intro m d ts _; unfold nsLoopF; exact OLe.none _
  | succ n ih =>
    intro m d ts hn
    obtain ⟨m, rfl⟩ : ∃ k, m = k + 1 := ⟨m - 1, by omega⟩
    have hm : n ≤ m := by omega
    unfold nsLoopF
    refine ole_ite _ (OLe.refl _) (ole_ite _ (OLe.refl _) ?_)
    exact ole_bindR (parseAnnsF_ole _ _ _ _ hn) fun inner r => ole_bindR (parseDeclF_ole hm _ _ _) fun d' r' => ih m _ _ hm

theorem parseSchemaF_ole : ∀ (n m : Nat) (s : Schema) (ts : List Tok), n ≤ m → OLe (parseSchemaF n s ts) (parseSchemaF m s ts) := by
  intro n
  induction n with
  | zero => intro m s ts _; unfold parseSchemaF; exact OLe.none _
  | succ n ih =>
    intro m s ts hn
    obtain ⟨m, rfl⟩ : ∃ k, m = k + 1 := ⟨m - 1, by omega⟩
    have hm : n ≤ m := by omega
    unfold parseSchemaF
    refine ole_ite _ (OLe.refl _) (ole_bindR (parseAnnsF_ole _ _ _ _ hn) fun anns r => ole_ite _ ?_ ?_)
    · refine ole_bindE _ fun path r1 => ole_ite _ (OLe.refl _) (ole_bindE _ fun _ r2 => ?_)
      exact ole_bindR (nsLoopF_ole n m _ _ hm) fun d r3 => ole_ite _ (OLe.refl _) (ih m _ _ hm)
    · exact ole_bindR (parseDeclF_ole hm _ _ _) fun d r' => ih m _ _ hm

/-- fuel irrelevance of the schema parser: a result obtained with some fuel is obtained with any larger fuel -/
theorem parseSchemaF_mono (n m : Nat) (s : Schema) (ts : List Tok) (r : Except String (Schema × List Tok)) :
    parseSchemaF n s ts = some r → n ≤ m → parseSchemaF m s ts = some r :=
  fun h hnm => parseSchemaF_ole n m s ts hnm r h

/-- any fuel above the token count gives the result of `parseToks` -/
theorem parseSchemaF_eq_parseToks (n : Nat) (toks : List Tok) (h : toks.length < n) : parseSchemaF n {} toks = parseToks toks := by
  cases hp : parseToks toks with
  | none => exact absurd hp (parseToks_total toks)
  | some r => exact parseSchemaF_mono _ _ _ _ _ hp (by omega)

/-! ## `parseSchema`: its two out-of-fuel branches are never taken -/

theorem parseSchema_eq (src : String) :
    (∃ lr, lexAllF src.toList = some lr ∧
      match lr with
      | .error e => parseSchema src = .error e
      | .ok toks => ∃ pr, parseToks toks = some pr ∧
        match pr with
        | .ok (s, _) => parseSchema src = .ok s
        | .error e => parseSchema src = .error e) := by
  obtain ⟨lr, hl, hla⟩ := lexAll_eq src.toList
  refine ⟨lr, hl, ?_⟩
  cases lr with
  | error e => simp only [parseSchema, hla]
  | ok toks =>
    cases hp : parseToks toks with
    | none => exact absurd hp (parseToks_total toks)
    | some pr =>
      refine ⟨pr, hp, ?_⟩
      cases pr with
      | error e => simp only [parseSchema, hla, hp]
      | ok p => simp only [parseSchema, hla, hp]

/-- acceptance is acceptance by the lexer and the parser model (never a fuel artefact) -/
theorem parseSchema_ok_iff (src : String) (s : Schema) :
    parseSchema src = .ok s ↔ ∃ toks r, lexAllF src.toList = some (.ok toks) ∧ parseToks toks = some (.ok (s, r)) := by
  obtain ⟨lr, hl, h⟩ := parseSchema_eq src
  cases lr with
  | error e => simp only [hl] at h ⊢; simp [h]
  | ok toks =>
    obtain ⟨pr, hp, h⟩ := h
    cases pr with
    | error e => simp only at h; simp [h, hl]; intro r; simp [hp]
    | ok p =>
      obtain ⟨s', r'⟩ := p
      simp only at h
      simp only [h, hl, Except.ok.injEq, Option.some.injEq]
      constructor
      · intro hs; exact ⟨toks, r', rfl, by rw [hp, hs]⟩
      · rintro ⟨toks', r, rfl, hr⟩
        rw [hp] at hr
        simp only [Option.some.injEq, Except.ok.injEq, Prod.mk.injEq] at hr
        exact hr.1

/-- an error of `parseSchema` is a rejection by the lexer or by the parser model (never "out of fuel") -/
theorem parseSchema_error_iff (src : String) (e : String) :
    parseSchema src = .error e ↔
      lexAllF src.toList = some (.error e) ∨ ∃ toks, lexAllF src.toList = some (.ok toks) ∧ parseToks toks = some (.error e) := by
  obtain ⟨lr, hl, h⟩ := parseSchema_eq src
  cases lr with
  | error e' => simp only at h; simp [h, hl]
  | ok toks =>
    obtain ⟨pr, hp, h⟩ := h
    cases pr with
    | error e' =>
      simp only at h
      simp only [h, hl, Except.error.injEq, Option.some.injEq, reduceCtorEq, false_or, Except.ok.injEq]
      constructor
      · intro he; exact ⟨toks, rfl, by rw [hp, he]⟩
      · rintro ⟨toks', rfl, hr⟩
        rw [hp] at hr
        simpa using hr
    | ok p =>
      obtain ⟨s', r'⟩ := p
      simp only at h
      simp only [h, hl, reduceCtorEq, Option.some.injEq, false_or, Except.ok.injEq, false_iff, not_exists, not_and]
      rintro toks' rfl hr
      rw [hp] at hr
      simp at hr

end CedarGo.Schema.TextTotal
