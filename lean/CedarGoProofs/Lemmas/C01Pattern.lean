/-
  Helper lemmas for C01: the greedy leftmost chunk matcher of types/pattern.go (`matchComps`) decides
  exactly the backtracking glob relation of the Cedar specification (`Spec.wildcardMatch`) on every
  pattern that `types.NewPattern` can build.

  Route: `matchComps p s = glob p s = Spec.wildcardMatch p s`, where `glob` is the chunk-level
  backtracking matcher (a literal chunk must match a prefix; a wildcard first skips any prefix).
  The second equality is a plain unfolding, the first is the classic "the leftmost occurrence of a chunk
  is never worse than a later one" argument: after a chunk every remaining component starts with a
  wildcard, so whatever matches a shorter remainder also matches a longer one (`glob_mono`).
-/
import CedarGo.Model.Pattern
import CedarGo.Spec.Evaluator
namespace CedarGo
open Spec (starMatch wildcardMatchElems patElems wildcardMatch PatElem)

/-! ### What `types.NewPattern` guarantees -/

namespace C01L
/-- components after the first: all carry a wildcard; an empty literal only in last position -/
def wfTail : Pattern → Bool
  | [] => true
  | c :: rest => c.wildcard && (!c.literal.isEmpty || rest.isEmpty) && wfTail rest

/-- `NewPattern` appends to the literal of the last component and starts a new (wildcard) component only
    when the last literal is non-empty (or there is none): a component without wildcard can only be the
    first one, and a component with an empty literal can only be the last one (for the first component:
    the lone component of `NewPattern("")`, or of `NewPattern(Wildcard{})`). -/
def wfPattern : Pattern → Bool
  | [] => true
  | c :: rest => (!c.literal.isEmpty || rest.isEmpty) && wfTail rest

end C01L

def WFPattern (p : Pattern) : Prop := C01L.wfPattern p = true

instance (p : Pattern) : Decidable (WFPattern p) := by unfold WFPattern; infer_instance

namespace C01L

/-! ### Chunk-level backtracking matcher -/

/-- the literal chunk matches a prefix, `k` accepts the remainder -/
def chunkThen (lit : List UInt8) (k : List UInt8 → Bool) (s : List UInt8) : Bool :=
  match matchChunk lit s with
  | some t => k t
  | none => false

def glob : Pattern → List UInt8 → Bool
  | [], s => s.isEmpty
  | c :: rest, s =>
    if c.wildcard then starMatch (chunkThen c.literal (glob rest)) s else chunkThen c.literal (glob rest) s

theorem matchChunk_eq_some {lit s t : List UInt8} : matchChunk lit s = some t ↔ s = lit ++ t := by
  induction lit generalizing s with
  | nil => simp [matchChunk, eq_comm]
  | cons c cs ih =>
    cases s with
    | nil => simp [matchChunk]
    | cons x xs =>
      simp only [matchChunk]
      by_cases h : c = x
      · subst h; simp [ih]
      · have h' : ¬ x = c := fun e => h e.symm
        simp [h, h']

theorem starMatch_iff (k : List UInt8 → Bool) (s : List UInt8) :
    starMatch k s = true ↔ ∃ u, u <:+ s ∧ k u = true := by
  induction s with
  | nil => simp [starMatch]
  | cons x xs ih =>
    simp only [starMatch, Bool.or_eq_true, ih]
    constructor
    · rintro (h | ⟨u, hu, hk⟩)
      · exact ⟨x :: xs, List.suffix_refl _, h⟩
      · exact ⟨u, hu.trans (List.suffix_cons x xs), hk⟩
    · rintro ⟨u, hu, hk⟩
      rcases List.suffix_cons_iff.mp hu with h | h
      · subst h; exact .inl hk
      · exact .inr ⟨u, h, hk⟩

/-- literal elements of the element-level pattern are consumed exactly like a chunk -/
theorem wildcardMatchElems_lits (lit : List UInt8) (ps : List PatElem) (s : List UInt8) :
    wildcardMatchElems (lit.map PatElem.justChar ++ ps) s = chunkThen lit (wildcardMatchElems ps) s := by
  induction lit generalizing s with
  | nil => simp [chunkThen, matchChunk]
  | cons c cs ih =>
    cases s with
    | nil => simp [wildcardMatchElems, chunkThen, matchChunk]
    | cons x xs =>
      simp only [List.map_cons, List.cons_append, wildcardMatchElems, ih]
      simp only [chunkThen, matchChunk]
      by_cases h : c = x
      · subst h; simp
      · simp [h]

/-- chunk-level and element-level backtracking agree (no well-formedness needed) -/
theorem glob_eq_wildcardMatch (p : Pattern) (s : List UInt8) : glob p s = wildcardMatch p s := by
  unfold wildcardMatch
  induction p generalizing s with
  | nil => simp [glob, patElems, wildcardMatchElems]
  | cons c rest ih =>
    have hk : glob rest = wildcardMatchElems (patElems rest) := funext ih
    simp only [glob, patElems, hk]
    have hl : wildcardMatchElems (c.literal.map PatElem.justChar ++ patElems rest) =
        chunkThen c.literal (wildcardMatchElems (patElems rest)) := funext (wildcardMatchElems_lits _ _)
    cases hw : c.wildcard with
    | true => simp [wildcardMatchElems, hl]
    | false => simp [hl]

/-! ### The greedy matcher -/

/-- first suffix of `s` (longest first, `s` itself included) that starts with the chunk -/
def firstMatch (lit : List UInt8) : List UInt8 → Option (List UInt8)
  | [] => matchChunk lit []
  | x :: s' =>
    match matchChunk lit (x :: s') with
    | some t => some t
    | none => firstMatch lit s'

theorem scanFrom_false (lit : List UInt8) (s : List UInt8) :
    scanFrom lit false s = match s with | [] => none | _ :: s' => firstMatch lit s' := by
  induction s with
  | nil => simp [scanFrom]
  | cons x s' ih =>
    simp only [scanFrom, Bool.false_and, Bool.false_eq_true, if_false]
    cases s' with
    | nil =>
      simp only [firstMatch, scanFrom]
      cases matchChunk lit [] <;> rfl
    | cons y s'' =>
      simp only [firstMatch]
      cases matchChunk lit (y :: s'') with
      | some t => rfl
      | none => simpa using ih

/-- the leftmost match leaves the longest remainder: every other match's remainder is a suffix of it -/
theorem firstMatch_some {lit s t : List UInt8} (h : firstMatch lit s = some t) :
    (∃ u, u <:+ s ∧ matchChunk lit u = some t) ∧
    ∀ u' t', u' <:+ s → matchChunk lit u' = some t' → t' <:+ t := by
  induction s with
  | nil =>
    simp only [firstMatch] at h
    refine ⟨⟨[], List.suffix_refl _, h⟩, ?_⟩
    intro u' t' hu' hm
    have : u' = [] := List.suffix_nil.mp hu'
    subst this
    rw [h] at hm; cases hm; exact List.suffix_refl _
  | cons x s' ih =>
    simp only [firstMatch] at h
    cases hm : matchChunk lit (x :: s') with
    | some t0 =>
      rw [hm] at h; cases h
      refine ⟨⟨x :: s', List.suffix_refl _, hm⟩, ?_⟩
      intro u' t' hu' hm'
      have e1 := matchChunk_eq_some.mp hm
      have e2 := matchChunk_eq_some.mp hm'
      have s1 : t <:+ x :: s' := by rw [e1]; exact List.suffix_append _ _
      have s2 : t' <:+ x :: s' := (by rw [e2]; exact List.suffix_append _ _ : t' <:+ u').trans hu'
      apply List.suffix_of_suffix_length_le s2 s1
      have l1 := congrArg List.length e1
      have l2 := congrArg List.length e2
      have l3 := hu'.length_le
      simp only [List.length_append] at l1 l2
      omega
    | none =>
      rw [hm] at h
      obtain ⟨⟨u, hu, hmu⟩, hall⟩ := ih h
      refine ⟨⟨u, hu.trans (List.suffix_cons x s'), hmu⟩, ?_⟩
      intro u' t' hu' hm'
      rcases List.suffix_cons_iff.mp hu' with e | hs
      · subst e; rw [hm] at hm'; cases hm'
      · exact hall u' t' hs hm'

theorem firstMatch_none {lit s : List UInt8} (h : firstMatch lit s = none) :
    ∀ u, u <:+ s → matchChunk lit u = none := by
  induction s with
  | nil =>
    intro u hu
    have : u = [] := List.suffix_nil.mp hu
    subst this; simpa [firstMatch] using h
  | cons x s' ih =>
    simp only [firstMatch] at h
    cases hm : matchChunk lit (x :: s') with
    | some t0 => rw [hm] at h; cases h
    | none =>
      rw [hm] at h
      intro u hu
      rcases List.suffix_cons_iff.mp hu with e | hs
      · subst e; exact hm
      · exact ih h u hs

/-- the scan of the LAST chunk only accepts a match that exhausts the text -/
theorem scanFrom_true_some {lit s t : List UInt8} (h : scanFrom lit true s = some t) :
    t = [] ∧ ∃ u, u <:+ s ∧ matchChunk lit u = some [] := by
  induction s with
  | nil => simp [scanFrom] at h
  | cons x s' ih =>
    simp only [scanFrom, Bool.true_and] at h
    cases hm : matchChunk lit s' with
    | some t0 =>
      rw [hm] at h
      cases t0 with
      | nil =>
        simp at h; subst h
        exact ⟨rfl, s', List.suffix_cons x s', hm⟩
      | cons y ys =>
        simp at h
        obtain ⟨h1, u, hu, hmu⟩ := ih h
        exact ⟨h1, u, hu.trans (List.suffix_cons x s'), hmu⟩
    | none =>
      rw [hm] at h
      obtain ⟨h1, u, hu, hmu⟩ := ih h
      exact ⟨h1, u, hu.trans (List.suffix_cons x s'), hmu⟩

theorem scanFrom_true_none {lit s : List UInt8} (h : scanFrom lit true s = none) :
    ∀ u, u <:+ s → u ≠ s → matchChunk lit u ≠ some [] := by
  induction s with
  | nil =>
    intro u hu hne
    exact absurd (List.suffix_nil.mp hu) hne
  | cons x s' ih =>
    simp only [scanFrom, Bool.true_and] at h
    intro u hu hne
    rcases List.suffix_cons_iff.mp hu with e | hs
    · exact absurd e hne
    · by_cases hus : u = s'
      · subst hus
        cases hm : matchChunk lit u with
        | none => simp
        | some t0 =>
          rw [hm] at h
          cases t0 with
          | nil => simp at h
          | cons y ys => simp
      · have h' : scanFrom lit true s' = none := by
          cases hm : matchChunk lit s' with
          | none => rw [hm] at h; exact h
          | some t0 =>
            rw [hm] at h
            cases t0 with
            | nil => simp at h
            | cons y ys => simpa using h
        exact ih h' u hs hus

/-- once every remaining component starts with a wildcard, a longer text is at least as good -/
theorem glob_mono {rest : Pattern} (hw : wfTail rest = true) (hne : rest ≠ []) {t t' : List UInt8}
    (hs : t <:+ t') (h : glob rest t = true) : glob rest t' = true := by
  cases rest with
  | nil => exact absurd rfl hne
  | cons c r =>
    simp only [wfTail, Bool.and_eq_true] at hw
    simp only [glob, hw.1.1, if_true] at h ⊢
    obtain ⟨u, hu, hk⟩ := (starMatch_iff _ _).mp h
    exact (starMatch_iff _ _).mpr ⟨u, hu.trans hs, hk⟩

theorem firstMatch_some_glob {rest : Pattern} (hw : wfTail rest = true) (hne : rest ≠ []) {lit s t : List UInt8}
    (hf : firstMatch lit s = some t) : glob rest t = starMatch (chunkThen lit (glob rest)) s := by
  obtain ⟨⟨u, hu, hmu⟩, hall⟩ := firstMatch_some hf
  rw [Bool.eq_iff_iff, starMatch_iff]
  constructor
  · intro hgt
    exact ⟨u, hu, by simp only [chunkThen, hmu]; exact hgt⟩
  · rintro ⟨u', hu', hk⟩
    simp only [chunkThen] at hk
    cases hmu' : matchChunk lit u' with
    | none => rw [hmu'] at hk; cases hk
    | some t' =>
      rw [hmu'] at hk
      exact glob_mono hw hne (hall u' t' hu' hmu') hk

theorem firstMatch_none_glob {k : List UInt8 → Bool} {lit s : List UInt8}
    (hf : firstMatch lit s = none) : false = starMatch (chunkThen lit k) s := by
  symm
  rw [Bool.eq_false_iff]
  intro hst
  obtain ⟨u, hu, hk⟩ := (starMatch_iff _ _).mp hst
  simp only [chunkThen, firstMatch_none hf u hu] at hk
  cases hk

/-- one component of the greedy matcher, given that the rest of the pattern is matched correctly -/
theorem matchComps_cons (c : PatComp) (rest : Pattern) (s : List UInt8)
    (hc : c.wildcard = true → c.literal = [] → rest = [])
    (hw : wfTail rest = true) (ih : ∀ t, matchComps rest t = glob rest t) :
    matchComps (c :: rest) s = glob (c :: rest) s := by
  by_cases h0 : c.wildcard = true ∧ c.literal = []
  · -- a trailing bare wildcard matches everything
    have hr := hc h0.1 h0.2
    subst hr
    simp only [matchComps, glob, h0.1, h0.2, List.isEmpty_nil, Bool.and_self, if_true]
    symm
    exact (starMatch_iff _ _).mpr ⟨[], List.nil_suffix, by simp [chunkThen, matchChunk]⟩
  · have h0' : (c.wildcard && c.literal.isEmpty) = false := by
      cases hwc : c.wildcard <;> simp_all
    cases rest with
    | nil =>
      -- last component: the chunk must end the text
      simp only [matchComps, h0', List.isEmpty_nil, Bool.false_eq_true, if_false, Bool.not_true, Bool.or_false, glob]
      cases hm : matchChunk c.literal s with
      | some t =>
        cases t with
        | nil =>
          -- direct match exhausting the text
          simp only [List.isEmpty_nil, if_true]
          cases hwc : c.wildcard with
          | false => simp [chunkThen, hm]
          | true =>
            simp only [if_true]
            symm
            exact (starMatch_iff _ _).mpr ⟨s, List.suffix_refl _, by simp [chunkThen, hm]⟩
        | cons y ys =>
          simp only [List.isEmpty_cons, Bool.false_eq_true, if_false]
          cases hwc : c.wildcard with
          | false => simp [chunkThen, hm]
          | true =>
            simp only [if_true]
            cases hsc : scanFrom c.literal true s with
            | some t' =>
              obtain ⟨ht', u, hu, hmu⟩ := scanFrom_true_some hsc
              subst ht'
              simp only [List.isEmpty_nil]
              symm
              exact (starMatch_iff _ _).mpr ⟨u, hu, by simp [chunkThen, hmu]⟩
            | none =>
              simp only
              symm
              rw [Bool.eq_false_iff]
              intro hst
              obtain ⟨u, hu, hk⟩ := (starMatch_iff _ _).mp hst
              simp only [chunkThen] at hk
              cases hmu : matchChunk c.literal u with
              | none => rw [hmu] at hk; cases hk
              | some tu =>
                rw [hmu] at hk
                have : tu = [] := by simpa using hk
                subst this
                by_cases hus : u = s
                · subst hus; rw [hm] at hmu; cases hmu
                · exact scanFrom_true_none hsc u hu hus hmu
      | none =>
        simp only
        cases hwc : c.wildcard with
        | false => simp [chunkThen, hm]
        | true =>
          simp only [if_true]
          cases hsc : scanFrom c.literal true s with
          | some t' =>
            obtain ⟨ht', u, hu, hmu⟩ := scanFrom_true_some hsc
            subst ht'
            simp only [List.isEmpty_nil]
            symm
            exact (starMatch_iff _ _).mpr ⟨u, hu, by simp [chunkThen, hmu]⟩
          | none =>
            simp only
            symm
            rw [Bool.eq_false_iff]
            intro hst
            obtain ⟨u, hu, hk⟩ := (starMatch_iff _ _).mp hst
            simp only [chunkThen] at hk
            cases hmu : matchChunk c.literal u with
            | none => rw [hmu] at hk; cases hk
            | some tu =>
              rw [hmu] at hk
              have : tu = [] := by simpa using hk
              subst this
              by_cases hus : u = s
              · subst hus; rw [hm] at hmu; cases hmu
              · exact scanFrom_true_none hsc u hu hus hmu
    | cons c' r' =>
      -- not the last component: commit to the leftmost occurrence of the chunk
      have hne : c' :: r' ≠ [] := by simp
      generalize hrest : c' :: r' = rest at *
      have hl : rest.isEmpty = false := by simpa using hne
      simp only [matchComps, h0', hl, Bool.false_eq_true, if_false, Bool.not_false, Bool.or_true, if_true, ih]
      cases hwc : c.wildcard with
      | false =>
        simp only [glob, hwc, Bool.false_eq_true, if_false, chunkThen]
        cases hm : matchChunk c.literal s with
        | some t => rfl
        | none => rfl
      | true =>
        have hg : glob (c :: rest) s = starMatch (chunkThen c.literal (glob rest)) s := by
          simp only [glob, hwc, if_true]
        rw [hg]
        cases hm : matchChunk c.literal s with
        | some t =>
          have hf : firstMatch c.literal s = some t := by cases s <;> simp [firstMatch, hm]
          exact firstMatch_some_glob hw hne hf
        | none =>
          simp only [if_true]
          cases hsc : scanFrom c.literal false s with
          | some t =>
            have hf : firstMatch c.literal s = some t := by
              cases s with
              | nil => simp [scanFrom] at hsc
              | cons x s' => rw [scanFrom_false] at hsc; simp [firstMatch, hm, hsc]
            exact firstMatch_some_glob hw hne hf
          | none =>
            have hf : firstMatch c.literal s = none := by
              cases s with
              | nil => simp [firstMatch, hm]
              | cons x s' => rw [scanFrom_false] at hsc; simp [firstMatch, hm, hsc]
            exact firstMatch_none_glob hf

theorem matchComps_tail (rest : Pattern) (hw : wfTail rest = true) : ∀ t, matchComps rest t = glob rest t := by
  induction rest with
  | nil => intro t; simp [matchComps, glob]
  | cons c r ih =>
    have hw' := hw
    simp only [wfTail, Bool.and_eq_true, Bool.or_eq_true, Bool.not_eq_true', List.isEmpty_iff] at hw'
    intro t
    apply matchComps_cons c r t _ hw'.2 (ih hw'.2)
    intro _ hl
    rcases hw'.1.2 with h | h
    · rw [hl] at h; simp at h
    · exact h

/-- greedy = backtracking, on every pattern `NewPattern` can build -/
theorem matchComps_eq_glob (p : Pattern) (hp : WFPattern p) (s : List UInt8) : matchComps p s = glob p s := by
  cases p with
  | nil => simp [matchComps, glob]
  | cons c r =>
    unfold WFPattern at hp
    simp only [wfPattern, Bool.and_eq_true, Bool.or_eq_true, Bool.not_eq_true', List.isEmpty_iff] at hp
    apply matchComps_cons c r s _ hp.2 (matchComps_tail r hp.2)
    intro _ hl
    rcases hp.1 with h | h
    · rw [hl] at h; simp at h
    · exact h

/-- greedy chunk matcher = the specification's backtracking `wildcardMatch` -/
theorem matchComps_eq_wildcardMatch (p : Pattern) (s : List UInt8) (hp : WFPattern p) :
    matchComps p s = wildcardMatch p s := by
  rw [matchComps_eq_glob p hp s, glob_eq_wildcardMatch]

end C01L
end CedarGo
