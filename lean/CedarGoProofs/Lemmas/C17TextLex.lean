/-
  C17, text half, LEXER: lexing the printed text of a schema of the fragment `SchemaTextOk` yields exactly its token
  rendering `toksSchema` (C17TextDefs.lean):

    theorem lex_printSchema (s : Schema) (h : SchemaTextOk s = true) :
        lexAll (printSchema s).toList = .ok (toksSchema s ++ [.eof])

  Parts A and B hold the compositional predicate `Lex` and the pieces below the declarations; this file follows the four
  kinds of declarations, the namespace blocks and `printSchema`.
-/
import CedarGoProofs.Lemmas.C17TextLexB
namespace CedarGo.Schema.TextLex
open CedarGo.Schema

/-! ## optional clauses of a declaration -/

theorem lexO_entityIn (ps : List String) (h : ps.all isTypePath = true) :
    LexO (if ps.isEmpty then "" else " in " ++ printTypeRefs ps).toList
      (if ps.isEmpty then [] else [.reserved "in"] ++ toksTypeRefs ps) := by
  by_cases he : ps.isEmpty = true
  · rw [if_pos he, if_pos he]; exact LexO.none
  · rw [if_neg he, if_neg he, String.toList_append]
    exact LexO.some (lit_in.sx (lexI_typeRefs ps h)) (startsNI_append (by decide) _)

theorem lexO_shape (sh : List String) (indent : Nat) (shape : Option Attrs)
    (h : (match shape with | some as => tyOk sh (.record as) | none => true) = true) :
    LexO (match (generalizing := false) shape with | some as => " " ++ printRecord sh indent as | none => "").toList
      (match (generalizing := false) shape with | some as => toksTy sh (.record as) | none => []) := by
  cases shape with
  | none => exact LexO.none
  | some as =>
    simp only [String.toList_append]
    exact LexO.some ((lit_sp.sx (lexI_ty sh indent (.record as) h)).cast rfl (by lx)) (startsNI_append (by decide) _)

theorem lexO_tags (sh : List String) (indent : Nat) (tags : Option Ty)
    (h : (match tags with | some t => tyOk sh t | none => true) = true) :
    LexO (match (generalizing := false) tags with | some t => " tags " ++ printTy sh indent t | none => "").toList
      (match (generalizing := false) tags with | some t => [.ident "tags"] ++ toksTy sh t | none => []) := by
  cases tags with
  | none => exact LexO.none
  | some t =>
    simp only [String.toList_append]
    exact LexO.some (lit_tags.sx (lexI_ty sh indent t h)) (startsNI_append (by decide) _)

theorem lexO_actionIn (ps : List (String × String)) (h : ps.all (fun p => p.1 = "" || isTypePath p.1) = true) :
    LexO (if ps.isEmpty then "" else " in " ++ printParentRefs ps).toList
      (if ps.isEmpty then [] else [.reserved "in"] ++ toksParentRefs ps) := by
  by_cases he : ps.isEmpty = true
  · rw [if_pos he, if_pos he]; exact LexO.none
  · rw [if_neg he, if_neg he, String.toList_append]
    exact LexO.some (lit_in.sx (lexI_parentRefs ps h)) (startsNI_append (by decide) _)

theorem lexO_applies (sh : List String) (indent : Nat) (ap : Option AppliesTo)
    (h : (match ap with
      | some ap => !ap.principals.isEmpty && !ap.resources.isEmpty && ap.principals.all isTypePath && ap.resources.all isTypePath &&
          (match ap.context with | some t => tyOk sh t | none => true)
      | none => true) = true) :
    LexO (match (generalizing := false) ap with | some ap => printAppliesTo sh indent ap | none => "").toList
      (match (generalizing := false) ap with | some ap => toksAppliesTo sh ap | none => []) := by
  cases ap with
  | none => exact LexO.none
  | some ap =>
    simp only [Bool.and_eq_true, Bool.not_eq_true'] at h
    obtain ⟨⟨⟨⟨h1, h2⟩, h3⟩, h4⟩, h5⟩ := h
    obtain ⟨g1, g2⟩ := lexS_appliesTo sh indent ap h1 h2 h3 h4 h5
    exact LexO.some (Lex.weaken g1) g2

/-! ## the four kinds of declarations -/

theorem lexS_common (sh : List String) (indent : Nat) (c : String × CommonType) (h : commonOk sh c = true) :
    LexS (printAnns indent c.2.anns ++ tabs indent ++ "type " ++ c.1 ++ " = " ++ printTy sh indent c.2.ty ++ ";\n").toList
      (toksCommon sh c) := by
  unfold commonOk at h
  simp only [Bool.and_eq_true] at h
  obtain ⟨⟨⟨h1, _⟩, h3⟩, h4⟩ := h
  unfold toksCommon
  exact ((lexS_anns indent c.2.anns h3).sx ((lexS_tabs indent).sx (lit_type.sx ((lexI_ident c.1 h1).ix
    (lit_eq.sx ((lexI_ty sh indent c.2.ty h4).ix lit_semi (by decide))) (startsNI_append (by decide) _))))).cast
    (by lx) (by lx)

theorem lexS_entity (sh : List String) (indent : Nat) (e : String × Entity) (h : entityOk sh e = true) :
    LexS (printAnns indent e.2.anns ++ tabs indent ++ "entity " ++ e.1 ++
      (if e.2.parents.isEmpty then "" else " in " ++ printTypeRefs e.2.parents) ++
      (match e.2.shape with | some as => " " ++ printRecord sh indent as | none => "") ++
      (match e.2.tags with | some t => " tags " ++ printTy sh indent t | none => "") ++ ";\n").toList
      (toksEntity sh e) := by
  unfold entityOk at h
  simp only [Bool.and_eq_true] at h
  obtain ⟨⟨⟨⟨h1, h2⟩, h3⟩, h4⟩, h5⟩ := h
  unfold toksEntity
  exact ((lexS_anns indent e.2.anns h2).sx ((lexS_tabs indent).sx (lit_entity.sx
    (((((lexI_ident e.1 h1).io (lexO_entityIn e.2.parents h3)).io (lexO_shape sh indent e.2.shape h4)).io
      (lexO_tags sh indent e.2.tags h5)).ix lit_semi (by decide))))).cast (by lx) (by lx; rfl)

theorem lexS_enum (indent : Nat) (e : String × Enum) (h : enumOk e = true) :
    LexS (printAnns indent e.2.anns ++ tabs indent ++ "entity " ++ e.1 ++ " enum [" ++
      ", ".intercalate (e.2.values.map quoteCedar) ++ "];\n").toList (toksEnum e) := by
  unfold enumOk at h
  simp only [Bool.and_eq_true] at h
  obtain ⟨⟨h1, h2⟩, _⟩ := h
  unfold toksEnum
  have hv := lexI_intercalate ", " quoteCedar (fun v => [.str v]) lit_commaSp (by decide) e.2.values
    (fun v _ => Lex.weaken (lexS_quote v))
  exact ((lexS_anns indent e.2.anns h2).sx ((lexS_tabs indent).sx (lit_entity.sx ((lexI_ident e.1 h1).ix
    (lit_enum.sx (hv.ix lit_enumEnd (by decide))) (startsNI_append (by decide) _))))).cast (by lx) (by lx)

theorem lexS_action (sh : List String) (indent : Nat) (a : String × Action) (h : actionOk sh a = true) :
    LexS (printAnns indent a.2.anns ++ tabs indent ++ "action " ++ printName a.1 ++
      (if a.2.parents.isEmpty then "" else " in " ++ printParentRefs a.2.parents) ++
      (match a.2.appliesTo with | some ap => printAppliesTo sh indent ap | none => "") ++ ";\n").toList
      (toksAction sh a) := by
  unfold actionOk at h
  simp only [Bool.and_eq_true] at h
  obtain ⟨⟨h1, h2⟩, h3⟩ := h
  unfold toksAction
  exact ((lexS_anns indent a.2.anns h1).sx ((lexS_tabs indent).sx (lit_action.sx
    ((((lexI_name a.1).io (lexO_actionIn a.2.parents h2)).io (lexO_applies sh indent a.2.appliesTo h3)).ix
      lit_semi (by decide))))).cast (by lx) (by lx; rfl)

theorem lexL_decls (sh : List String) (indent : Nat) (d : Namespace) (h : declsOk sh d = true) :
    LexL (printDecls sh indent d) (toksDecls sh d) := by
  unfold declsOk at h
  simp only [Bool.and_eq_true] at h
  obtain ⟨⟨⟨⟨⟨⟨h1, h2⟩, h3⟩, h4⟩, _⟩, _⟩, _⟩ := h
  unfold printDecls toksDecls
  refine LexL.append (LexL.append (LexL.append ?_ ?_) ?_) ?_
  · exact LexL.map _ _ _ (fun c hc => lexS_common sh indent c (forall_sortedKV h4 c hc))
  · exact LexL.map _ _ _ (fun e he => lexS_entity sh indent e (forall_sortedKV h1 e he))
  · exact LexL.map _ _ _ (fun e he => lexS_enum indent e (forall_sortedKV h2 e he))
  · exact LexL.map _ _ _ (fun a ha => lexS_action sh indent a (forall_sortedKV h3 a ha))

/-! ## namespaces and the schema -/

theorem lexS_namespace (bareNames : List String) (nd : String × Namespace)
    (h : (isNsPath nd.1 && annsOk nd.2.anns && declsOk (declNames nd.2 ++ bareNames) nd.2) = true) :
    LexS (printAnns 0 nd.2.anns ++ "namespace " ++ nd.1 ++ " {\n" ++
      "\n".intercalate (printDecls (declNames nd.2 ++ bareNames) 1 nd.2) ++ "}\n").toList (toksNamespace bareNames nd) := by
  simp only [Bool.and_eq_true] at h
  obtain ⟨⟨h1, h2⟩, h3⟩ := h
  unfold toksNamespace
  exact ((lexS_anns 0 nd.2.anns h2).sx (lit_namespace.sx ((lexI_nsPath nd.1 h1).ix
    (lit_spLbrace.sx ((lexS_intercalate_nl (lexL_decls _ 1 nd.2 h3)).sx lit_rbraceNl))
    (startsNI_append (by decide) _)))).cast (by lx) (by lx)

theorem lexS_schema (s : Schema) (h : SchemaTextOk s = true) : LexS (printSchema s).toList (toksSchema s) := by
  unfold SchemaTextOk at h
  simp only [Bool.and_eq_true] at h
  obtain ⟨⟨h1, h2⟩, _⟩ := h
  unfold printSchema toksSchema
  have hb := lexL_decls (declNames s.bare) 0 s.bare h1
  have hn := LexL.map _ _ (sortedKV s.namespaces)
    (fun nd hnd => lexS_namespace (declNames s.bare) nd (forall_sortedKV h2 nd hnd))
  have := lexS_intercalate_nl (hb.append hn)
  exact this.castT (by simp [List.flatMap])

/-- **lexing the printed text yields exactly the token rendering** -/
theorem lex_printSchema (s : Schema) (h : SchemaTextOk s = true) :
    lexAll (printSchema s).toList = .ok (toksSchema s ++ [.eof]) := by
  obtain ⟨k, hk, e⟩ := lexS_schema s h
  have e' := e [] ((printSchema s).toList.length - k + 1) trivial
  rw [List.append_nil] at e'
  have hf : (printSchema s).toList.length - k + 1 + k = (printSchema s).toList.length + 1 := by omega
  rw [hf] at e'
  unfold lexAll lexAllF
  rw [e', lexFuel]
  rfl

end CedarGo.Schema.TextLex
