/-
  C16: `isEntityDescendant` with its visited set (`descVisFuel`) terminates on EVERY hierarchy, cyclic ones included,
  within the fuel `|nodes with parents| + 1`; and a `true` answer is backed by a path of parent steps.
-/
import CedarGoProofs.Lemmas.C16
namespace CedarGo.Schema

/-- how many elements of the universe `U` are not yet in the visited list -/
def visMissing {α} [DecidableEq α] (U vis : List α) : Nat := (U.filter fun x => !vis.contains x).length

theorem filter_length_le_of_imp {α} (p q : α → Bool) : ∀ (l : List α), (∀ x ∈ l, q x = true → p x = true) →
    (l.filter q).length ≤ (l.filter p).length
  | [], _ => by simp
  | b :: l, himp => by
    have hb := himp b (by simp)
    have := filter_length_le_of_imp p q l (fun x hx => himp x (by simp [hx]))
    simp only [List.filter_cons]
    cases hq : q b <;> cases hp : p b <;> simp_all <;> omega

theorem visMissing_mono {α} [DecidableEq α] (U : List α) {v v' : List α} (h : ∀ x ∈ v, x ∈ v') :
    visMissing U v' ≤ visMissing U v := by
  unfold visMissing
  apply filter_length_le_of_imp
  intro x _ hx
  simp only [Bool.not_eq_true', List.contains_eq_mem, decide_eq_false_iff_not] at hx ⊢
  exact fun hm => hx (h x hm)

theorem visMissing_cons_lt {α} [DecidableEq α] (U : List α) {v : List α} {a : α} (haU : a ∈ U) (hav : a ∉ v) :
    visMissing U (a :: v) < visMissing U v := by
  unfold visMissing
  apply filter_length_lt
  · intro x _ hx
    simp only [Bool.not_eq_true', List.contains_eq_mem, decide_eq_false_iff_not, List.mem_cons, not_or] at hx ⊢
    exact hx.2
  · exact ⟨a, haU, by simpa using hav, by simp⟩

/-- the parent loop returns as soon as every recursive call it makes does (calls see a visited set that only grew) -/
theorem descListVis_total {α} [DecidableEq α] (k : α → List α → Option (Bool × List α)) (anc : α) (v0 : List α)
    (hk : ∀ p v, (∀ x ∈ v0, x ∈ v) → ∃ b v', k p v = some (b, v') ∧ ∀ x ∈ v, x ∈ v') :
    ∀ (ps v : List α), (∀ x ∈ v0, x ∈ v) → ∃ b v', descListVis k anc ps v = some (b, v') ∧ ∀ x ∈ v, x ∈ v'
  | [], v, _ => ⟨false, v, rfl, fun _ h => h⟩
  | p :: ps, v, hv => by
    unfold descListVis
    split
    · exact ⟨true, v, rfl, fun _ h => h⟩
    · obtain ⟨b, v', hkp, hsub⟩ := hk p v hv
      rw [hkp]
      cases b with
      | true => exact ⟨true, v', rfl, hsub⟩
      | false =>
        obtain ⟨b2, v2, h2, hsub2⟩ := descListVis_total k anc v0 hk ps v' (fun x hx => hsub x (hv x hx))
        exact ⟨b2, v2, h2, fun x hx => hsub2 x (hsub x hx)⟩

/-- **totality of the depth-first search with a visited set**: if every node outside `U` has no successors, the search
    returns whenever the fuel exceeds the number of nodes of `U` not yet visited — for every successor relation,
    cyclic or not — and the visited set only grows. -/
theorem descVisFuel_total {α} [DecidableEq α] (succ : α → List α) (U : List α) (hU : ∀ a, a ∉ U → succ a = []) (anc : α) :
    ∀ (fuel : Nat) (child : α) (vis : List α), visMissing U vis < fuel →
      ∃ b vis', descVisFuel succ fuel child anc vis = some (b, vis') ∧ ∀ x ∈ vis, x ∈ vis'
  | 0, _, _, h => by simp at h
  | f + 1, child, vis, h => by
    unfold descVisFuel
    split
    · exact ⟨false, vis, rfl, fun _ hx => hx⟩
    · rename_i hc
      have hcv : child ∉ vis := by simpa using hc
      by_cases hcU : child ∈ U
      · have hlt := visMissing_cons_lt U hcU hcv
        obtain ⟨b, v', hres, hsub⟩ := descListVis_total (fun p v => descVisFuel succ f p anc v) anc (child :: vis)
          (fun p v hv => descVisFuel_total succ U hU anc f p v (by
            have := visMissing_mono U hv
            omega))
          (succ child) (child :: vis) (fun _ hx => hx)
        exact ⟨b, v', hres, fun x hx => hsub x (List.mem_cons_of_mem _ hx)⟩
      · rw [hU child hcU]
        exact ⟨false, child :: vis, rfl, fun x hx => List.mem_cons_of_mem _ hx⟩

theorem descListVis_sound {α} [DecidableEq α] (succ : α → List α) (k : α → List α → Option (Bool × List α)) (anc : α)
    (hk : ∀ p v v', k p v = some (true, v') → Reaches succ p anc) :
    ∀ (ps v v' : List α), descListVis k anc ps v = some (true, v') → ∃ p ∈ ps, p = anc ∨ Reaches succ p anc
  | [], v, v', h => by simp [descListVis] at h
  | p :: ps, v, v', h => by
    unfold descListVis at h
    split at h
    · rename_i hp; exact ⟨p, by simp, Or.inl hp⟩
    · cases hkp : k p v with
      | none => simp [hkp] at h
      | some r =>
        obtain ⟨b, v2⟩ := r
        cases b with
        | true => exact ⟨p, by simp, Or.inr (hk p v v2 hkp)⟩
        | false =>
          simp only [hkp] at h
          obtain ⟨q, hq, hr⟩ := descListVis_sound succ k anc hk ps v2 v' h
          exact ⟨q, List.mem_cons_of_mem _ hq, hr⟩

/-- **soundness of the search**: the answer `true` is backed by a path of one or more successor steps -/
theorem descVisFuel_sound {α} [DecidableEq α] (succ : α → List α) (anc : α) :
    ∀ (fuel : Nat) (child : α) (vis vis' : List α), descVisFuel succ fuel child anc vis = some (true, vis') →
      Reaches succ child anc
  | 0, _, _, _, h => by simp [descVisFuel] at h
  | f + 1, child, vis, vis', h => by
    unfold descVisFuel at h
    split at h
    · simp at h
    · obtain ⟨p, hp, hr⟩ := descListVis_sound succ (fun p v => descVisFuel succ f p anc v) anc
        (fun p v v' hpv => descVisFuel_sound succ anc f p v v' hpv) (succ child) (child :: vis) vis' h
      rcases hr with rfl | hr
      · exact Reaches.step hp
      · exact Reaches.trans hp hr

/-- what a `false` answer establishes: the visited set only grew, contains the start node, and every node that was
    ADDED has all its successors in the final visited set, none of them being the ancestor looked for -/
def FalseInv {α} (succ : α → List α) (anc : α) (child : α) (vis vis' : List α) : Prop :=
  (∀ x ∈ vis, x ∈ vis') ∧ child ∈ vis' ∧ ∀ x ∈ vis', x ∉ vis → ∀ q ∈ succ x, q ≠ anc ∧ q ∈ vis'

theorem descListVis_false {α} [DecidableEq α] (succ : α → List α) (k : α → List α → Option (Bool × List α)) (anc : α)
    (hk : ∀ p v v', k p v = some (false, v') → FalseInv succ anc p v v') :
    ∀ (ps v v' : List α), descListVis k anc ps v = some (false, v') →
      (∀ x ∈ v, x ∈ v') ∧ (∀ p ∈ ps, p ≠ anc ∧ p ∈ v') ∧ ∀ x ∈ v', x ∉ v → ∀ q ∈ succ x, q ≠ anc ∧ q ∈ v'
  | [], v, v', h => by
    simp only [descListVis, Option.some.injEq, Prod.mk.injEq, true_and] at h
    subst h
    refine ⟨fun _ hx => hx, ?_, fun x hx hnx => absurd hx hnx⟩
    intro p hp
    cases hp
  | p :: ps, v, v', h => by
    unfold descListVis at h
    split at h
    · simp at h
    · rename_i hpa
      cases hkp : k p v with
      | none => simp [hkp] at h
      | some r =>
        obtain ⟨b, v1⟩ := r
        cases b with
        | true => simp [hkp] at h
        | false =>
          simp only [hkp] at h
          obtain ⟨hsub1, hp1, hnew1⟩ := hk p v v1 hkp
          obtain ⟨hsub2, hps, hnew2⟩ := descListVis_false succ k anc hk ps v1 v' h
          refine ⟨fun x hx => hsub2 x (hsub1 x hx), ?_, ?_⟩
          · intro q hq
            rcases List.mem_cons.mp hq with rfl | hq
            · exact ⟨hpa, hsub2 _ hp1⟩
            · exact hps q hq
          · intro x hx hxv q hq
            by_cases hx1 : x ∈ v1
            · obtain ⟨h1, h2⟩ := hnew1 x hx1 hxv q hq
              exact ⟨h1, hsub2 q h2⟩
            · exact hnew2 x hx hx1 q hq

theorem descVisFuel_false {α} [DecidableEq α] (succ : α → List α) (anc : α) :
    ∀ (fuel : Nat) (child : α) (vis vis' : List α), descVisFuel succ fuel child anc vis = some (false, vis') →
      FalseInv succ anc child vis vis'
  | 0, _, _, _, h => by simp [descVisFuel] at h
  | f + 1, child, vis, vis', h => by
    unfold descVisFuel at h
    split at h
    · rename_i hc
      simp only [Option.some.injEq, Prod.mk.injEq, true_and] at h
      subst h
      exact ⟨fun _ hx => hx, by simpa using hc, fun x hx hnx => absurd hx hnx⟩
    · obtain ⟨hsub, hps, hnew⟩ := descListVis_false succ (fun p v => descVisFuel succ f p anc v) anc
        (fun p v v' hpv => descVisFuel_false succ anc f p v v' hpv) (succ child) (child :: vis) vis' h
      refine ⟨fun x hx => hsub x (List.mem_cons_of_mem _ hx), hsub child (by simp), ?_⟩
      intro x hx hxv q hq
      by_cases hxc : x = child
      · subst hxc; exact hps q hq
      · exact hnew x hx (by simp [hxc, hxv]) q hq

/-- **completeness of the search started with an empty visited set**: the answer `false` means that the ancestor is
    NOT reachable by one or more successor steps (the final visited set is closed under successors and none of its
    members has the ancestor as a successor) -/
theorem descVisFuel_complete {α} [DecidableEq α] (succ : α → List α) (anc : α) (fuel : Nat) (child : α) (vis' : List α)
    (h : descVisFuel succ fuel child anc [] = some (false, vis')) : ¬ Reaches succ child anc := by
  obtain ⟨_, hc, hnew⟩ := descVisFuel_false succ anc fuel child [] vis' h
  have key : ∀ u w, Reaches succ u w → u ∈ vis' → w ≠ anc := by
    intro u w hr
    induction hr with
    | step hs => exact fun hu => (hnew _ hu (by simp) _ hs).1
    | trans hs _ ih => exact fun hu => ih (hnew _ hu (by simp) _ hs).2
  exact fun hr => key child anc hr hc rfl

end CedarGo.Schema
