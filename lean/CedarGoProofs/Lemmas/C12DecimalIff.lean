/-
  C12 helper lemmas: exact characterisation of the strings `ParseDecimal` accepts.
-/
import CedarGoProofs.Lemmas.C12Decimal
namespace CedarGo.Scalars
open CedarGo

theorem splitAtChar_some {c : Char} : ∀ {cs a b : List Char}, splitAtChar c cs = some (a, b) → cs = a ++ c :: b := by
  intro cs
  induction cs with
  | nil => intro a b h; simp [splitAtChar] at h
  | cons x xs ih =>
    intro a b h
    unfold splitAtChar at h
    by_cases hx : (x == c) = true
    · simp only [hx, if_true] at h
      injection h with h; injection h with h1 h2
      subst h1; subst h2
      have : x = c := by simpa using hx
      subst this; rfl
    · simp only [hx] at h
      cases hs : splitAtChar c xs with
      | none => simp [hs] at h
      | some p =>
        obtain ⟨a', b'⟩ := p
        simp only [hs] at h
        injection h with h; injection h with h1 h2
        subst h1; subst h2
        rw [ih hs]; rfl

/-- what `strconv.ParseInt` accepts: optional sign, then digits -/
theorem parseInt64_some {ip : List Char} {i : Int} (h : parseInt64 ip = some i) :
    ∃ sg I, (sg = [] ∨ sg = ['-'] ∨ sg = ['+']) ∧ ip = sg ++ I ∧ allDigits I = true ∧
      i = (if sg = ['-'] then -(digitsVal I : Int) else (digitsVal I : Int)) ∧
      (ip.head? = some '-' ↔ sg = ['-']) := by
  have key : ∃ sg, (sg = [] ∨ sg = ['-'] ∨ sg = ['+']) ∧ ip = sg ++ (signSplit ip).2 ∧
      ((signSplit ip).1 = true ↔ sg = ['-']) ∧ (ip.head? = some '-' ↔ sg = ['-']) := by
    unfold signSplit
    split
    · refine ⟨['-'], Or.inr (Or.inl rfl), rfl, ?_, ?_⟩ <;> simp
    · refine ⟨['+'], Or.inr (Or.inr rfl), rfl, ?_, ?_⟩ <;> simp
    · rename_i h1 h2
      refine ⟨[], Or.inl rfl, rfl, ?_, ?_⟩
      · simp
      · constructor
        · intro hh
          cases ip with
          | nil => simp at hh
          | cons x xs => simp at hh; subst hh; exact absurd rfl (h1 xs)
        · intro hh; cases hh
  obtain ⟨sg, h1, h2, h3, h4⟩ := key
  unfold parseInt64 at h
  by_cases hd : allDigits (signSplit ip).2 = true
  · simp only [hd, if_true] at h
    refine ⟨sg, (signSplit ip).2, h1, h2, hd, ?_, h4⟩
    by_cases hs : (signSplit ip).1 = true
    · have hsg := h3.1 hs
      rw [if_pos hs] at h
      split at h
      · injection h with h; simp [hsg, ← h]
      · cases h
    · have hsg : ¬ sg = ['-'] := fun e => hs (h3.2 e)
      rw [if_neg hs] at h
      split at h
      · injection h with h; simp [hsg, ← h]
      · cases h
  · simp [hd] at h


/-- the documented literal shape `-?[0-9]+\.[0-9]{1,4}`: optional `-`, digits, `.`, one to four digits -/
def DecimalSyntax (cs sg I F : List Char) : Prop :=
  (sg = [] ∨ sg = ['-']) ∧ allDigits I = true ∧ allDigits F = true ∧ F.length ≤ 4 ∧ cs = sg ++ (I ++ '.' :: F)

/-- the number such a literal denotes, in ten-thousandths -/
def decimalValue (sg I F : List Char) : Int :=
  (if sg = ['-'] then -1 else 1) * ((digitsVal I : Int) * 10000 + ((digitsVal F * 10 ^ (4 - F.length) : Nat) : Int))

/-- a leading `+` (which `strconv.ParseInt` would accept) is rejected -/
theorem parseDecimalL_plus (rest : List Char) : parseDecimalL ('+' :: rest) = .error .extDecimal := by
  unfold parseDecimalL
  split
  · rfl
  · simp

theorem parseDecimalL_ok_iff (cs : List Char) (d : Int) :
    parseDecimalL cs = .ok d ↔ ∃ sg I F, DecimalSyntax cs sg I F ∧ d = decimalValue sg I F ∧ InI64 d := by
  constructor
  · intro h
    have hI64 := parseDecimalL_ok_inI64 h
    unfold parseDecimalL at h
    split at h
    · cases h
    · rename_i ip fp hsp
      split at h
      · cases h
      · rename_i hplus
        split at h
        · cases h
        · rename_i i hi
          split at h
          · cases h
          · rename_i f hf
            obtain ⟨hd, rfl, _⟩ := parseUintMax_some hf
            split at h
            · cases h
            · rename_i hl
              obtain ⟨sg, I, hsg, hip, hIdig, hival, hhead⟩ := parseInt64_some hi
              have hcs := splitAtChar_some hsp
              have hp := frac_scaled_le fp hd (by omega)
              -- the head of the whole string is the head of the integer part
              have hne : ip ≠ [] := by
                obtain ⟨c, r, e, _, _⟩ := allDigits_cons hIdig
                rw [hip, e]; simp
              have hh : cs.head? = ip.head? := by
                rw [hcs]; cases ip with
                | nil => exact absurd rfl hne
                | cons x xs => rfl
              -- the sign `+` was rejected before `strconv.ParseInt` saw it
              have hsg' : sg = [] ∨ sg = ['-'] := by
                rcases hsg with e | e | e
                · exact Or.inl e
                · exact Or.inr e
                · exfalso; apply hplus; rw [hh, hip, e]; rfl
              refine ⟨sg, I, fp, ⟨hsg', hIdig, hd, by omega, by rw [hcs, hip, List.append_assoc]⟩, ?_, hI64⟩
              simp only at h
              unfold decimalValue
              by_cases hm : sg = ['-']
              · have : (cs.head? == some '-') = true := by rw [hh]; simpa using hhead.2 hm
                rw [this] at h
                simp only [if_true] at h
                have := (newDecimal_ok (by omega) h).1
                rw [this, hival]; simp only [hm, if_true]; omega
              · have : (cs.head? == some '-') = false := by
                  rw [hh]
                  have : ¬ ip.head? = some '-' := fun e => hm (hhead.1 e)
                  simpa using this
                rw [this] at h
                simp only [Bool.false_eq_true, if_false] at h
                have := (newDecimal_ok (by omega) h).1
                rw [this, hival]; simp only [hm, if_false]; omega
  · rintro ⟨sg, I, F, ⟨hsg, hI, hF, hl, rfl⟩, hd, hI64⟩
    have hp := frac_scaled_le F hF hl
    unfold decimalValue at hd
    have hI64' := hI64
    unfold InI64 minI64 maxI64 at hI64'
    rcases hsg with rfl | rfl
    · simp only [List.nil_append] at *
      have hne : ¬ (([] : List Char) = ['-']) := by simp
      simp only [hne, if_false] at hd
      have := parseDecimalL_canon false I F hI hF (by unfold maxI64; omega) hl
      simp only [Bool.false_eq_true, if_false, List.nil_append] at this
      rw [this, newDecimal_exact _ _ (by omega) (by omega)]
      rw [show (digitsVal I : Int) * 10000 + ((digitsVal F * 10 ^ (4 - F.length) : Nat) : Int) = d by omega, if_pos hI64]
    · simp only [if_true] at hd
      have := parseDecimalL_canon true I F hI hF (by unfold maxI64; omega) hl
      simp only [if_true] at this
      rw [this, newDecimal_exact _ _ (by omega) (by omega)]
      rw [show -(digitsVal I : Int) * 10000 + -((digitsVal F * 10 ^ (4 - F.length) : Nat) : Int) = d by omega, if_pos hI64]

end CedarGo.Scalars
