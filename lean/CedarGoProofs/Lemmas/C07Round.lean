/-
  Helper lemmas for C07: the parser reads back every VALID RENDERING of an expression.

  `Rend` is a relational specification of "token list `ts` spells expression `x` in a context that
  requires precedence level ≥ lvl": the productions of the Cedar grammar with the documented
  precedence / associativity, where parentheses MAY be added around any sub-expression and MUST be
  present where the level of the sub-expression is too low.  `renderMin`, `renderFull` and (on its
  correct domain) Go's `MarshalCedar` are three functions whose outputs satisfy `Rend`.

  Main result `rend_parse`: `Rend (.e lvl x) ts → ` parsing `ts ++ rest` at level `lvl` yields `x` and
  stops at `rest`, for every continuation `rest` that does not start with a token continuing that level.
  Levels: 0 expression · 1 or · 2 and · 3 relation · 4 add · 5 mult · 6 unary · 7 member · 8 primary.
-/
import CedarGoProofs.Lemmas.C07Path
import CedarGoProofs.Lemmas.C07Fuel
namespace CedarGo.Text
open CedarGo

/-! ## which tokens continue an expression at which level -/

def contLevel (s : String) : Option Nat :=
  if s == "(" || s == "::" then some 8
  else if s == "." || s == "[" then some 7
  else if s == "*" then some 5
  else if s == "+" || s == "-" then some 4
  else if s == "has" || s == "like" || s == "is" || s == "<" || s == "<=" || s == ">" || s == ">=" || s == "!=" || s == "==" || s == "in" then some 3
  else if s == "&&" then some 2
  else if s == "||" then some 1
  else none

/-- token `t` does not continue an expression at any level ≥ lvl -/
def Stop (lvl : Nat) (t : Token) : Prop := ∀ l, contLevel t.text = some l → l < lvl

theorem Stop.mono {a b : Nat} {t : Token} (h : Stop a t) (hab : a ≤ b) : Stop b t :=
  fun l hl => Nat.lt_of_lt_of_le (h l hl) hab

theorem Stop.ne {lvl : Nat} {t : Token} (h : Stop lvl t) (s : String) (l : Nat) (hs : contLevel s = some l) (hl : lvl ≤ l) :
    (t.text == s) = false := by
  apply beq_eq_false_iff_ne.mpr
  intro heq
  have := h l (heq ▸ hs)
  omega

theorem stop_of_none {lvl : Nat} {t : Token} (h : contLevel t.text = none) : Stop lvl t :=
  fun l hl => by rw [h] at hl; cases hl

/-! ## parse functions by level, with the nested-expression parser `exprF n` -/

def parseAt (L : Nat) (n : Nat) (ts : List Token) : PR :=
  match L with
  | 0 => expression (exprF n) n ts
  | 1 => or_ (exprF n) n ts
  | 2 => and_ (exprF n) n ts
  | 3 => relation (exprF n) n ts
  | 4 => add (exprF n) n ts
  | 5 => mult (exprF n) n ts
  | 6 => unary (exprF n) n ts
  | 7 => member (exprF n) n ts
  | _ => primary (exprF n) n ts

/-- what remains to be done at level `L` once the operand `x` has been read and `rest` is left: the loop of
    the left-associative levels (with `k` iterations available), nothing at the other levels -/
def contAt (L : Nat) (n k : Nat) (x : Expr) (rest : List Token) : PR :=
  match L with
  | 1 => orLoop (exprF n) n k x rest
  | 2 => andLoop (exprF n) n k x rest
  | 4 => addLoop (exprF n) n k x rest
  | 5 => multLoop (exprF n) n k x rest
  | 7 => accessLoop (exprF n) k x rest
  | _ => okP (x, rest)

/-- the follower requirement of level `L`: loop levels tolerate their own operator -/
def stopAt (L : Nat) : Nat := if L = 1 ∨ L = 2 ∨ L = 4 ∨ L = 5 ∨ L = 7 then L + 1 else L

/-- "the text `ts` is read at level `L` as `x`": with slack `d` in the fuel -/
def ReadsAt (L : Nat) (x : Expr) (ts : List Token) : Prop :=
  ∃ d, ∀ rest, Stop (stopAt L) (peek rest) → ∀ n k, k + d ≤ n → OLe (contAt L n k x rest) (parseAt L n (ts ++ rest))

theorem ole_okP {α : Type} {v : α} {a : Option (Except PErr α)} (h : OLe (okP v) a) : a = okP v := h _ rfl

theorem EP.le_refl (E : EP) : EP.le E E := fun _ => OLe.refl _

theorem bindP_okP {α β : Type} (v : α) (k : α → Option (Except PErr β)) : bindP (okP v) k = k v := rfl
theorem bindP_some_ok {α β : Type} (v : α) (k : α → Option (Except PErr β)) : bindP (some (.ok v)) k = k v := rfl

/-! ## leaving a loop / a level -/

theorem multLoop_exit (E : EP) (m k : Nat) (x : Expr) (rest : List Token) (h : ((peek rest).text == "*") = false) :
    multLoop E m (k + 1) x rest = okP (x, rest) := by
  unfold multLoop; simp [h]

theorem addLoop_exit (E : EP) (m k : Nat) (x : Expr) (rest : List Token)
    (h1 : ((peek rest).text == "+") = false) (h2 : ((peek rest).text == "-") = false) :
    addLoop E m (k + 1) x rest = okP (x, rest) := by
  unfold addLoop; simp [addOp, h1, h2]

theorem andLoop_exit (E : EP) (m k : Nat) (x : Expr) (rest : List Token) (h : ((peek rest).text == "&&") = false) :
    andLoop E m (k + 1) x rest = okP (x, rest) := by
  unfold andLoop; simp [h]

theorem orLoop_exit (E : EP) (m k : Nat) (x : Expr) (rest : List Token) (h : ((peek rest).text == "||") = false) :
    orLoop E m (k + 1) x rest = okP (x, rest) := by
  unfold orLoop; simp [h]

theorem accessLoop_exit (E : EP) (k : Nat) (x : Expr) (rest : List Token)
    (h1 : ((peek rest).text == ".") = false) (h2 : ((peek rest).text == "[") = false) :
    accessLoop E (k + 1) x rest = okP (x, rest) := by
  unfold accessLoop; simp [h1, h2]

theorem relTail_exit (E : EP) (n : Nat) (x : Expr) (rest : List Token) (h : Stop 3 (peek rest)) :
    relTail E n x rest = okP (x, rest) := by
  have e (s : String) (hs : contLevel s = some 3) : ((peek rest).text == s) = false := h.ne s 3 hs (Nat.le_refl _)
  unfold relTail
  simp [e "has" rfl, e "like" rfl, e "is" rfl, relOp, e "<" rfl, e "<=" rfl, e ">" rfl, e ">=" rfl, e "!=" rfl, e "==" rfl, e "in" rfl]

/-! ## descending through the levels: a text read at level L+1 is read at level L -/

theorem reads_8_7 {x : Expr} {ts : List Token} (h : ReadsAt 8 x ts) : ReadsAt 7 x ts := by
  obtain ⟨d, hd⟩ := h
  refine ⟨d, fun rest hs n k hk => ?_⟩
  have h1 := ole_okP (hd rest hs n 0 (by omega))
  show OLe (accessLoop (exprF n) k x rest) (member (exprF n) n (ts ++ rest))
  have h1' : primary (exprF n) n (ts ++ rest) = okP (x, rest) := h1
  unfold member
  rw [h1', bindP_okP]
  exact mono_accessLoop (EP.le_refl _) _ _ _ _ (by omega)

/-- a text whose first token is neither `-` nor `!` -/
def NoUnaryHead (ts : List Token) : Prop := ∃ t tl, ts = t :: tl ∧ (t.text == "-") = false ∧ (t.text == "!") = false

theorem unaryOps_noHead {ts : List Token} (h : NoUnaryHead ts) (rest : List Token) :
    unaryOps (ts ++ rest) = ([], ts ++ rest) := by
  obtain ⟨t, tl, rfl, h1, h2⟩ := h
  simp [unaryOps, h1, h2]

theorem reads_7_6 {x : Expr} {ts : List Token} (h : ReadsAt 7 x ts) (hh : NoUnaryHead ts) : ReadsAt 6 x ts := by
  obtain ⟨d, hd⟩ := h
  refine ⟨d + 1, fun rest hs n k hk => ?_⟩
  have hs8 : Stop 8 (peek rest) := hs.mono (by decide)
  have h1 := hd rest hs8 n 1 (by omega)
  have hx : accessLoop (exprF n) 1 x rest = okP (x, rest) :=
    accessLoop_exit _ 0 _ _ (hs.ne "." 7 rfl (by decide)) (hs.ne "[" 7 rfl (by decide))
  have h2 : member (exprF n) n (ts ++ rest) = okP (x, rest) := ole_okP (by
    have : contAt 7 n 1 x rest = okP (x, rest) := hx
    rw [← this]; exact h1)
  show OLe (okP (x, rest)) (unary (exprF n) n (ts ++ rest))
  unfold unary
  rw [unaryOps_noHead hh]
  simp [h2, bindP_okP, applyOps]
  exact OLe.refl _

theorem reads_6_5 {x : Expr} {ts : List Token} (h : ReadsAt 6 x ts) : ReadsAt 5 x ts := by
  obtain ⟨d, hd⟩ := h
  refine ⟨d, fun rest hs n k hk => ?_⟩
  have h1 : unary (exprF n) n (ts ++ rest) = okP (x, rest) := ole_okP (hd rest hs n 0 (by omega))
  show OLe (multLoop (exprF n) n k x rest) (mult (exprF n) n (ts ++ rest))
  unfold mult
  rw [h1, bindP_okP]
  exact mono_multLoop (EP.le_refl _) (Nat.le_refl _) _ _ _ _ (by omega)

theorem reads_5_4 {x : Expr} {ts : List Token} (h : ReadsAt 5 x ts) : ReadsAt 4 x ts := by
  obtain ⟨d, hd⟩ := h
  refine ⟨d + 1, fun rest hs n k hk => ?_⟩
  have h1 := hd rest (hs.mono (by decide)) n 1 (by omega)
  have hx : multLoop (exprF n) n 1 x rest = okP (x, rest) := multLoop_exit _ _ 0 _ _ (hs.ne "*" 5 rfl (by decide))
  have h2 : mult (exprF n) n (ts ++ rest) = okP (x, rest) := ole_okP (by
    have : contAt 5 n 1 x rest = okP (x, rest) := hx
    rw [← this]; exact h1)
  show OLe (addLoop (exprF n) n k x rest) (add (exprF n) n (ts ++ rest))
  unfold add
  rw [h2, bindP_okP]
  exact mono_addLoop (EP.le_refl _) (Nat.le_refl _) _ _ _ _ (by omega)

theorem reads_4_3 {x : Expr} {ts : List Token} (h : ReadsAt 4 x ts) : ReadsAt 3 x ts := by
  obtain ⟨d, hd⟩ := h
  refine ⟨d + 1, fun rest hs n k hk => ?_⟩
  have h1 := hd rest (hs.mono (by decide)) n 1 (by omega)
  have hx : addLoop (exprF n) n 1 x rest = okP (x, rest) :=
    addLoop_exit _ _ 0 _ _ (hs.ne "+" 4 rfl (by decide)) (hs.ne "-" 4 rfl (by decide))
  have h2 : add (exprF n) n (ts ++ rest) = okP (x, rest) := ole_okP (by
    have : contAt 4 n 1 x rest = okP (x, rest) := hx
    rw [← this]; exact h1)
  show OLe (okP (x, rest)) (relation (exprF n) n (ts ++ rest))
  unfold relation
  rw [h2, bindP_okP, relTail_exit _ _ _ _ hs]
  exact OLe.refl _

theorem reads_3_2 {x : Expr} {ts : List Token} (h : ReadsAt 3 x ts) : ReadsAt 2 x ts := by
  obtain ⟨d, hd⟩ := h
  refine ⟨d, fun rest hs n k hk => ?_⟩
  have h1 : relation (exprF n) n (ts ++ rest) = okP (x, rest) := ole_okP (hd rest hs n 0 (by omega))
  show OLe (andLoop (exprF n) n k x rest) (and_ (exprF n) n (ts ++ rest))
  unfold and_
  rw [h1, bindP_okP]
  exact mono_andLoop (EP.le_refl _) (Nat.le_refl _) _ _ _ _ (by omega)

theorem reads_2_1 {x : Expr} {ts : List Token} (h : ReadsAt 2 x ts) : ReadsAt 1 x ts := by
  obtain ⟨d, hd⟩ := h
  refine ⟨d + 1, fun rest hs n k hk => ?_⟩
  have h1 := hd rest (hs.mono (by decide)) n 1 (by omega)
  have hx : andLoop (exprF n) n 1 x rest = okP (x, rest) := andLoop_exit _ _ 0 _ _ (hs.ne "&&" 2 rfl (by decide))
  have h2 : and_ (exprF n) n (ts ++ rest) = okP (x, rest) := ole_okP (by
    have : contAt 2 n 1 x rest = okP (x, rest) := hx
    rw [← this]; exact h1)
  show OLe (orLoop (exprF n) n k x rest) (or_ (exprF n) n (ts ++ rest))
  unfold or_
  rw [h2, bindP_okP]
  exact mono_orLoop (EP.le_refl _) (Nat.le_refl _) _ _ _ _ (by omega)

/-- a text whose first token is not `if` -/
def NoIfHead (ts : List Token) : Prop := ∃ t tl, ts = t :: tl ∧ (t.text == "if") = false

theorem reads_1_0 {x : Expr} {ts : List Token} (h : ReadsAt 1 x ts) (hh : NoIfHead ts) : ReadsAt 0 x ts := by
  obtain ⟨d, hd⟩ := h
  refine ⟨d + 1, fun rest hs n k hk => ?_⟩
  have h1 := hd rest (hs.mono (by decide)) n 1 (by omega)
  have hx : orLoop (exprF n) n 1 x rest = okP (x, rest) := orLoop_exit _ _ 0 _ _ (hs.ne "||" 1 rfl (by decide))
  have h2 : or_ (exprF n) n (ts ++ rest) = okP (x, rest) := ole_okP (by
    have : contAt 1 n 1 x rest = okP (x, rest) := hx
    rw [← this]; exact h1)
  show OLe (okP (x, rest)) (expression (exprF n) n (ts ++ rest))
  obtain ⟨t, tl, rfl, ht⟩ := hh
  unfold expression
  simp only [List.cons_append, peek, ht, Bool.false_eq_true, ↓reduceIte]
  simp only [List.cons_append] at h2
  rw [h2]
  exact OLe.refl _

/-! ## productions: primaries -/

theorem stop_rparen (lvl : Nat) : Stop lvl (opT ")") := stop_of_none rfl
theorem stop_rbrack (lvl : Nat) : Stop lvl (opT "]") := stop_of_none rfl
theorem stop_rbrace (lvl : Nat) : Stop lvl (opT "}") := stop_of_none rfl
theorem stop_comma (lvl : Nat) : Stop lvl (opT ",") := stop_of_none rfl
theorem stop_then (lvl : Nat) : Stop lvl (kwT "then") := stop_of_none rfl
theorem stop_else (lvl : Nat) : Stop lvl (kwT "else") := stop_of_none rfl

theorem reads_paren {x : Expr} {ts : List Token} (h : ReadsAt 0 x ts) : ReadsAt 8 x (opT "(" :: (ts ++ [opT ")"])) := by
  obtain ⟨d, hd⟩ := h
  refine ⟨d + 1, fun rest _ n k hk => ?_⟩
  obtain ⟨m, rfl⟩ : ∃ m, n = m + 1 := ⟨n - 1, by omega⟩
  have h1 : exprF (m + 1) (ts ++ opT ")" :: rest) = okP (x, opT ")" :: rest) :=
    ole_okP (hd (opT ")" :: rest) (stop_rparen _) m 0 (by omega))
  show OLe (okP (x, rest)) (primary (exprF (m + 1)) (m + 1) ((opT "(" :: (ts ++ [opT ")"])) ++ rest))
  have e : (opT "(" :: (ts ++ [opT ")"])) ++ rest = opT "(" :: (ts ++ opT ")" :: rest) := by simp
  rw [e]
  unfold primary
  simp only [peek, adv, primKind, opT]
  simp only [opT] at h1
  simp [h1, exact, peek, adv, okP, bindP]
  exact OLe.refl _

theorem reads_litBool (b : Bool) : ReadsAt 8 (.lit (.bool b)) [kwT (if b then "true" else "false")] := by
  refine ⟨0, fun rest _ n k _ => ?_⟩
  show OLe (okP (_, rest)) (primary (exprF n) n ([kwT (if b then "true" else "false")] ++ rest))
  cases b <;> simp [primary, primKind, peek, adv, kwT, okP] <;> exact OLe.refl _

theorem intT_text (n : Nat) : (intT n).text = String.ofList (natDigits n) := rfl

theorem reads_litNat (n : Nat) (hn : n ≤ 9223372036854775807) : ReadsAt 8 (.lit (.long (Int.ofNat n))) [intT n] := by
  refine ⟨0, fun rest _ m k _ => ?_⟩
  show OLe (okP (_, rest)) (primary (exprF m) m ([intT n] ++ rest))
  unfold primary
  simp only [List.cons_append, List.nil_append, peek, adv, primKind, intT_ty, beq_self_eq_true, ↓reduceIte]
  simp [intLit, intValue, intT_text, parseNat_natDigits, hn, bindP, okP]
  exact OLe.refl _

theorem reads_litStr (s : String) : ReadsAt 8 (.lit (.str s)) [strT s] := by
  refine ⟨0, fun rest _ m k _ => ?_⟩
  show OLe (okP (_, rest)) (primary (exprF m) m ([strT s] ++ rest))
  unfold primary
  simp only [List.cons_append, List.nil_append, peek, adv, primKind, strT_ty, beq_self_eq_true, ↓reduceIte]
  simp [strVal, stringValue_strT s, bindP, okP]
  exact OLe.refl _

theorem varOf_varName (v : Var) : varOf (varName v) = some v := by cases v <;> rfl

theorem reads_var (v : Var) : ReadsAt 8 (.var v) [idT (varName v)] := by
  refine ⟨0, fun rest hs m k _ => ?_⟩
  show OLe (okP (_, rest)) (primary (exprF m) m ([idT (varName v)] ++ rest))
  have h1 := hs.ne "::" 8 rfl (Nat.le_refl _)
  have h2 := hs.ne "(" 8 rfl (Nat.le_refl _)
  unfold primary
  have e : primKind (idT (varName v)) (peek rest) = .var v := by
    unfold primKind
    cases v <;> simp [idT, varName, h1, h2, varOf]
  have hp : peek ([idT (varName v)] ++ rest) = idT (varName v) := rfl
  have ha : adv ([idT (varName v)] ++ rest) = rest := rfl
  simp only [hp, ha, e]
  exact OLe.refl _

/-! ## productions: unary operators and negative literals -/

theorem bindP_assoc {α β γ : Type} (a : Option (Except PErr α)) (f : α → Option (Except PErr β)) (g : β → Option (Except PErr γ)) :
    bindP (bindP a f) g = bindP a (fun v => bindP (f v) g) := by
  cases a with
  | none => rfl
  | some x => cases x <;> rfl

/-- `unary` after the operator-collecting loop -/
def unaryCore (E : EP) (n : Nat) (ops : List Bool) (Y : List Token) : PR :=
  if ops.getLast? == some true && negLitAt Y then
    bindP (some (negIntLit (peek Y))) fun e => okP (applyOps ops.dropLast e, adv Y)
  else
    bindP (member E n Y) fun r => okP (applyOps ops r.1, r.2)

theorem unary_eq_core (E : EP) (n : Nat) (ts : List Token) : unary E n ts = unaryCore E n (unaryOps ts).1 (unaryOps ts).2 := rfl

def wrapOp (b : Bool) (r : Expr × List Token) : PR := okP (if b then .unop .neg r.1 else .unop .not r.1, r.2)

theorem unaryCore_cons (E : EP) (n : Nat) (b : Bool) (ops : List Bool) (Y : List Token)
    (h : ops ≠ [] ∨ b = false ∨ negLitAt Y = false) :
    unaryCore E n (b :: ops) Y = bindP (unaryCore E n ops Y) (wrapOp b) := by
  cases ops with
  | nil =>
    have hc : (([b] : List Bool).getLast? == some true && negLitAt Y) = false := by
      rcases h with h | h | h
      · exact absurd rfl h
      · subst h; simp
      · simp [h]
    unfold unaryCore
    simp only [hc, Bool.false_eq_true, ↓reduceIte, List.getLast?_nil]
    have : ((none : Option Bool) == some true && negLitAt Y) = false := by simp
    simp only [this, Bool.false_eq_true, ↓reduceIte, bindP_assoc]
    congr 1
  | cons o os =>
    unfold unaryCore
    have e1 : (b :: o :: os).getLast? = (o :: os).getLast? := by simp [List.getLast?_cons_cons]
    have e2 : (b :: o :: os).dropLast = b :: (o :: os).dropLast := by simp [List.dropLast]
    rw [e1, e2]
    split
    · simp only [bindP_assoc]
      congr 1
    · simp only [bindP_assoc]
      congr 1

theorem unary_bang (E : EP) (n : Nat) (X : List Token) :
    unary E n (opT "!" :: X) = bindP (unary E n X) (wrapOp false) := by
  rw [unary_eq_core, unary_eq_core]
  have : unaryOps (opT "!" :: X) = (false :: (unaryOps X).1, (unaryOps X).2) := by simp [unaryOps, opT]
  rw [this]
  exact unaryCore_cons E n false _ _ (Or.inr (Or.inl rfl))

theorem unaryOps_nil_peek {X : List Token} (h : (unaryOps X).1 = []) : (unaryOps X).2 = X := by
  cases X with
  | nil => rfl
  | cons t tl =>
    unfold unaryOps at h ⊢
    split
    · rename_i h1; simp [h1] at h
    · split
      · rename_i h1 h2; simp [h1, h2] at h
      · rfl

theorem unary_minus (E : EP) (n : Nat) (X : List Token) (hX : negLitAt X = false) :
    unary E n (opT "-" :: X) = bindP (unary E n X) (wrapOp true) := by
  rw [unary_eq_core, unary_eq_core]
  have : unaryOps (opT "-" :: X) = (true :: (unaryOps X).1, (unaryOps X).2) := by simp [unaryOps, opT]
  rw [this]
  apply unaryCore_cons
  by_cases h : (unaryOps X).1 = []
  · right; right
    rw [unaryOps_nil_peek h]; exact hX
  · left; exact h

theorem intT_head (n : Nat) : ∃ c cs, (intT n).text.toList = c :: cs ∧ isDecimal c = true := by
  obtain ⟨c, cs, h, hc⟩ := natD_head (n + 1) n (lt_ten_pow_succ n) (by omega)
  refine ⟨c, cs, ?_, hc⟩
  simp [intT, natDigits, natDigitsAux_eq, h]

theorem intT_text_ne (n : Nat) (s : String) (hs : ∀ c cs, s.toList = c :: cs → isDecimal c = false) :
    ((intT n).text == s) = false := by
  apply beq_eq_false_iff_ne.mpr
  intro h
  obtain ⟨c, cs, hc, hd⟩ := intT_head n
  rw [h] at hc
  have := hs c cs hc
  rw [this] at hd
  cases hd

theorem reads_litNeg (n : Nat) (hn : n ≤ 9223372036854775808) :
    ReadsAt 6 (.lit (.long (-(Int.ofNat n)))) [opT "-", intT n] := by
  refine ⟨0, fun rest hs m k _ => ?_⟩
  show OLe (okP (_, rest)) (unary (exprF m) m ([opT "-", intT n] ++ rest))
  rw [unary_eq_core]
  have h1 : ((intT n).text == "-") = false := intT_text_ne n "-" (by intro c cs h; simp at h; obtain ⟨rfl, _⟩ := h; decide)
  have h2 : ((intT n).text == "!") = false := intT_text_ne n "!" (by intro c cs h; simp at h; obtain ⟨rfl, _⟩ := h; decide)
  have : unaryOps ([opT "-", intT n] ++ rest) = ([true], intT n :: rest) := by
    simp [unaryOps, opT, h1, h2]
  rw [this]
  have hmf : negLitAt (intT n :: rest) = true := by
    have e1 := hs.ne "." 7 rfl (by decide)
    have e2 := hs.ne "[" 7 rfl (by decide)
    have ea : adv (intT n :: rest) = rest := rfl
    have ep : peek (intT n :: rest) = intT n := rfl
    simp only [negLitAt, memberFollows, ea, ep, intT_ty, e1, e2, beq_self_eq_true, Bool.or_self, Bool.not_false, Bool.and_self]
  unfold unaryCore
  simp [hmf, peek, adv, negIntLit, negIntValue, intT_text, parseNat_natDigits, hn, bindP, okP, applyOps]
  exact OLe.refl _

theorem reads_not {x : Expr} {ts : List Token} (h : ReadsAt 6 x ts) : ReadsAt 6 (.unop .not x) (opT "!" :: ts) := by
  obtain ⟨d, hd⟩ := h
  refine ⟨d, fun rest hs n k hk => ?_⟩
  have h1 : unary (exprF n) n (ts ++ rest) = okP (x, rest) := ole_okP (hd rest hs n 0 (by omega))
  show OLe (okP (_, rest)) (unary (exprF n) n ((opT "!" :: ts) ++ rest))
  rw [List.cons_append, unary_bang, h1]
  exact OLe.refl _

/-- the special case does not apply to a text followed by more tokens if it does not apply to the text itself:
    either the text does not start with an INT token, or its second token is `.` / `[` -/
theorem negLitAt_append {ts : List Token} (hne : ts ≠ []) (hi : negLitAt ts = false) (rest : List Token) :
    negLitAt (ts ++ rest) = false := by
  cases ts with
  | nil => exact absurd rfl hne
  | cons t tl =>
    cases tl with
    | nil =>
      -- a single token: `memberFollows [t]` looks at the EOF token, so `t` is not an INT
      have : (t.ty == TokType.int) = false := by
        simpa [negLitAt, memberFollows, peek, adv, eofTok] using hi
      simp [negLitAt, peek, this]
    | cons t' tl' => exact hi

theorem reads_neg {x : Expr} {ts : List Token} (h : ReadsAt 6 x ts) (hne : ts ≠ []) (hi : negLitAt ts = false) :
    ReadsAt 6 (.unop .neg x) (opT "-" :: ts) := by
  obtain ⟨d, hd⟩ := h
  refine ⟨d, fun rest hs n k hk => ?_⟩
  have h1 : unary (exprF n) n (ts ++ rest) = okP (x, rest) := ole_okP (hd rest hs n 0 (by omega))
  show OLe (okP (_, rest)) (unary (exprF n) n ((opT "-" :: ts) ++ rest))
  rw [List.cons_append, unary_minus _ _ _ (negLitAt_append hne hi rest), h1]
  exact OLe.refl _

/-! ## productions: infix operators -/

theorem stop_tok {lvl l : Nat} {t : Token} (h : contLevel t.text = some l) (hl : l < lvl) : Stop lvl t :=
  fun l' hl' => by rw [h] at hl'; cases hl'; exact hl

theorem reads_or {l r : Expr} {tl tr : List Token} (hl : ReadsAt 1 l tl) (hr : ReadsAt 2 r tr) :
    ReadsAt 1 (.binop .or l r) (tl ++ opT "||" :: tr) := by
  obtain ⟨dl, hl⟩ := hl
  obtain ⟨dr, hr⟩ := hr
  refine ⟨dl + dr + 2, fun rest hs n k hk => ?_⟩
  show OLe (orLoop (exprF n) n k _ rest) (or_ (exprF n) n ((tl ++ opT "||" :: tr) ++ rest))
  have e : (tl ++ opT "||" :: tr) ++ rest = tl ++ (opT "||" :: (tr ++ rest)) := by simp
  rw [e]
  have h1 := hl (opT "||" :: (tr ++ rest)) (stop_tok (l := 1) rfl (by decide)) n (k + 1) (by omega)
  have h2 : and_ (exprF n) n (tr ++ rest) = okP (r, rest) := ole_okP (by
    have hx : contAt 2 n 1 r rest = okP (r, rest) := andLoop_exit _ _ 0 _ _ (hs.ne "&&" 2 rfl (by decide))
    rw [← hx]; exact hr rest (hs.mono (by decide)) n 1 (by omega))
  have h3 : orLoop (exprF n) n (k + 1) l (opT "||" :: (tr ++ rest)) = orLoop (exprF n) n k (.binop .or l r) rest := by
    rw [orLoop]; simp [peek, adv, opT, h2, bindP_okP]
  have h1' : OLe (orLoop (exprF n) n (k + 1) l (opT "||" :: (tr ++ rest))) (or_ (exprF n) n (tl ++ opT "||" :: (tr ++ rest))) := h1
  rw [h3] at h1'
  exact h1'

theorem reads_and {l r : Expr} {tl tr : List Token} (hl : ReadsAt 2 l tl) (hr : ReadsAt 3 r tr) :
    ReadsAt 2 (.binop .and l r) (tl ++ opT "&&" :: tr) := by
  obtain ⟨dl, hl⟩ := hl
  obtain ⟨dr, hr⟩ := hr
  refine ⟨dl + dr + 2, fun rest hs n k hk => ?_⟩
  show OLe (andLoop (exprF n) n k _ rest) (and_ (exprF n) n ((tl ++ opT "&&" :: tr) ++ rest))
  have e : (tl ++ opT "&&" :: tr) ++ rest = tl ++ (opT "&&" :: (tr ++ rest)) := by simp
  rw [e]
  have h1 := hl (opT "&&" :: (tr ++ rest)) (stop_tok (l := 2) rfl (by decide)) n (k + 1) (by omega)
  have h2 : relation (exprF n) n (tr ++ rest) = okP (r, rest) := ole_okP (hr rest hs n 0 (by omega))
  have h3 : andLoop (exprF n) n (k + 1) l (opT "&&" :: (tr ++ rest)) = andLoop (exprF n) n k (.binop .and l r) rest := by
    rw [andLoop]; simp [peek, adv, opT, h2, bindP_okP]
  have h1' : OLe (andLoop (exprF n) n (k + 1) l (opT "&&" :: (tr ++ rest))) (and_ (exprF n) n (tl ++ opT "&&" :: (tr ++ rest))) := h1
  rw [h3] at h1'
  exact h1'

theorem reads_addsub {l r : Expr} {tl tr : List Token} (op : BinOp) (s : String) (hop : addOp s = some op)
    (hc : contLevel s = some 4) (hl : ReadsAt 4 l tl) (hr : ReadsAt 5 r tr) :
    ReadsAt 4 (.binop op l r) (tl ++ opT s :: tr) := by
  obtain ⟨dl, hl⟩ := hl
  obtain ⟨dr, hr⟩ := hr
  refine ⟨dl + dr + 2, fun rest hs n k hk => ?_⟩
  show OLe (addLoop (exprF n) n k _ rest) (add (exprF n) n ((tl ++ opT s :: tr) ++ rest))
  have e : (tl ++ opT s :: tr) ++ rest = tl ++ (opT s :: (tr ++ rest)) := by simp
  rw [e]
  have h1 := hl (opT s :: (tr ++ rest)) (stop_tok (l := 4) hc (by decide)) n (k + 1) (by omega)
  have h2 : mult (exprF n) n (tr ++ rest) = okP (r, rest) := ole_okP (by
    have hx : contAt 5 n 1 r rest = okP (r, rest) := multLoop_exit _ _ 0 _ _ (hs.ne "*" 5 rfl (by decide))
    rw [← hx]; exact hr rest (hs.mono (by decide)) n 1 (by omega))
  have h3 : addLoop (exprF n) n (k + 1) l (opT s :: (tr ++ rest)) = addLoop (exprF n) n k (.binop op l r) rest := by
    rw [addLoop]; simp [peek, adv, opT, hop, h2, bindP_okP]
  have h1' : OLe (addLoop (exprF n) n (k + 1) l (opT s :: (tr ++ rest))) (add (exprF n) n (tl ++ opT s :: (tr ++ rest))) := h1
  rw [h3] at h1'
  exact h1'

theorem reads_mul {l r : Expr} {tl tr : List Token} (hl : ReadsAt 5 l tl) (hr : ReadsAt 6 r tr) :
    ReadsAt 5 (.binop .mul l r) (tl ++ opT "*" :: tr) := by
  obtain ⟨dl, hl⟩ := hl
  obtain ⟨dr, hr⟩ := hr
  refine ⟨dl + dr + 2, fun rest hs n k hk => ?_⟩
  show OLe (multLoop (exprF n) n k _ rest) (mult (exprF n) n ((tl ++ opT "*" :: tr) ++ rest))
  have e : (tl ++ opT "*" :: tr) ++ rest = tl ++ (opT "*" :: (tr ++ rest)) := by simp
  rw [e]
  have h1 := hl (opT "*" :: (tr ++ rest)) (stop_tok (l := 5) rfl (by decide)) n (k + 1) (by omega)
  have h2 : unary (exprF n) n (tr ++ rest) = okP (r, rest) := ole_okP (hr rest hs n 0 (by omega))
  have h3 : multLoop (exprF n) n (k + 1) l (opT "*" :: (tr ++ rest)) = multLoop (exprF n) n k (.binop .mul l r) rest := by
    rw [multLoop]; simp [peek, adv, opT, h2, bindP_okP]
  have h1' : OLe (multLoop (exprF n) n (k + 1) l (opT "*" :: (tr ++ rest))) (mult (exprF n) n (tl ++ opT "*" :: (tr ++ rest))) := h1
  rw [h3] at h1'
  exact h1'

/-- reading the left operand of a level-3 production: `add` stops at a level-3 keyword/operator -/
theorem add_stops_at_rel {l : Expr} {tl : List Token} (hl : ReadsAt 4 l tl) :
    ∃ d, ∀ (tok : Token) (X : List Token), contLevel tok.text = some 3 → ∀ n, d ≤ n →
      add (exprF n) n (tl ++ tok :: X) = okP (l, tok :: X) := by
  obtain ⟨dl, hl⟩ := hl
  refine ⟨dl + 1, fun tok X hc n hn => ?_⟩
  have hst : Stop 5 tok := stop_tok (l := 3) hc (by decide)
  have hst4 : Stop 4 tok := stop_tok (l := 3) hc (by decide)
  have h1 := hl (tok :: X) hst n 1 (by omega)
  have hx : contAt 4 n 1 l (tok :: X) = okP (l, tok :: X) :=
    addLoop_exit _ _ 0 _ _ (hst4.ne "+" 4 rfl (by decide)) (hst4.ne "-" 4 rfl (by decide))
  rw [hx] at h1
  exact ole_okP h1

theorem reads_rel {l r : Expr} {tl tr : List Token} (op : BinOp) (tok : Token)
    (hc : contLevel tok.text = some 3) (hrel : relOp tok.text = some op)
    (h1 : (tok.text == "has") = false) (h2 : (tok.text == "like") = false) (h3 : (tok.text == "is") = false)
    (hl : ReadsAt 4 l tl) (hr : ReadsAt 4 r tr) :
    ReadsAt 3 (.binop op l r) (tl ++ tok :: tr) := by
  obtain ⟨dl, hl'⟩ := add_stops_at_rel hl
  obtain ⟨dr, hr⟩ := hr
  refine ⟨dl + dr + 2, fun rest hs n k hk => ?_⟩
  show OLe (okP (_, rest)) (relation (exprF n) n ((tl ++ tok :: tr) ++ rest))
  have e : (tl ++ tok :: tr) ++ rest = tl ++ (tok :: (tr ++ rest)) := by simp
  rw [e]
  have ha := hl' tok (tr ++ rest) hc n (by omega)
  have hb : add (exprF n) n (tr ++ rest) = okP (r, rest) := ole_okP (by
    have hx : contAt 4 n 1 r rest = okP (r, rest) :=
      addLoop_exit _ _ 0 _ _ (hs.ne "+" 4 rfl (by decide)) (hs.ne "-" 4 rfl (by decide))
    rw [← hx]; exact hr rest (hs.mono (by decide)) n 1 (by omega))
  unfold relation
  rw [ha, bindP_okP]
  unfold relTail
  simp [peek, adv, h1, h2, h3, hrel, hb, bindP_okP]
  exact OLe.refl _

/-! ## productions: has, if-then-else -/

theorem reads_has {e : Expr} {te : List Token} (a : String) (atok : Token)
    (hp : ∀ rest, Stop 3 (peek rest) → parseHas e (atok :: rest) = .ok (.has e a, rest))
    (he : ReadsAt 4 e te) : ReadsAt 3 (.has e a) (te ++ [kwT "has", atok]) := by
  obtain ⟨de, he'⟩ := add_stops_at_rel he
  refine ⟨de, fun rest hs n k hk => ?_⟩
  show OLe (okP (_, rest)) (relation (exprF n) n ((te ++ [kwT "has", atok]) ++ rest))
  have e1 : (te ++ [kwT "has", atok]) ++ rest = te ++ (kwT "has" :: (atok :: rest)) := by simp
  rw [e1]
  have ha := he' (kwT "has") (atok :: rest) rfl n (by omega)
  unfold relation
  rw [ha, bindP_okP]
  unfold relTail
  simp [peek, adv, kwT, hp rest hs]
  exact OLe.refl _

theorem parseHas_ident (e : Expr) (a : String) (rest : List Token) (hs : Stop 3 (peek rest)) :
    parseHas e (idT a :: rest) = .ok (.has e a, rest) := by
  have hdot := hs.ne "." 7 rfl (by decide)
  unfold parseHas
  simp only [peek, adv, idT, beq_self_eq_true, ↓reduceIte]
  cases rest with
  | nil => rfl
  | cons d tl =>
    unfold hasPath
    simp only [peek] at hdot
    have hd : d.text ≠ "." := by simpa using hdot
    simp [hd]

theorem parseHas_string (e : Expr) (a : String) (rest : List Token) :
    parseHas e (strT a :: rest) = .ok (.has e a, rest) := by
  unfold parseHas
  simp [peek, adv, strT_ty, strVal_strT a]

/-- `like`: `pt` is ANY string token whose text `ParsePattern` reads as `p` -/
theorem reads_like {e : Expr} {te : List Token} (p : Pattern) (pt : Token) (hty : pt.ty = .string)
    (hp : parsePattern (trimQuotes pt.text.toList) = .ok p)
    (he : ReadsAt 4 e te) : ReadsAt 3 (.like e p) (te ++ [kwT "like", pt]) := by
  obtain ⟨de, he'⟩ := add_stops_at_rel he
  refine ⟨de, fun rest hs n k hk => ?_⟩
  show OLe (okP (_, rest)) (relation (exprF n) n ((te ++ [kwT "like", pt]) ++ rest))
  have e1 : (te ++ [kwT "like", pt]) ++ rest = te ++ (kwT "like" :: (pt :: rest)) := by simp
  rw [e1]
  have ha := he' (kwT "like") (pt :: rest) rfl n (by omega)
  unfold relation
  rw [ha, bindP_okP]
  unfold relTail parseLike
  simp [peek, adv, kwT, hty, hp]
  exact OLe.refl _

theorem reads_ite {c t e : Expr} {tc tt te : List Token} (hc : ReadsAt 0 c tc) (ht : ReadsAt 0 t tt) (he : ReadsAt 0 e te) :
    ReadsAt 0 (.ite c t e) (kwT "if" :: (tc ++ kwT "then" :: (tt ++ kwT "else" :: te))) := by
  obtain ⟨dc, hc⟩ := hc
  obtain ⟨dt, ht⟩ := ht
  obtain ⟨de, he⟩ := he
  refine ⟨dc + dt + de + 1, fun rest hs n k hk => ?_⟩
  obtain ⟨m, rfl⟩ : ∃ m, n = m + 1 := ⟨n - 1, by omega⟩
  show OLe (okP (_, rest)) (expression (exprF (m + 1)) (m + 1) ((kwT "if" :: (tc ++ kwT "then" :: (tt ++ kwT "else" :: te))) ++ rest))
  have e1 : (kwT "if" :: (tc ++ kwT "then" :: (tt ++ kwT "else" :: te))) ++ rest
      = kwT "if" :: (tc ++ kwT "then" :: (tt ++ kwT "else" :: (te ++ rest))) := by simp
  rw [e1]
  have h1 : exprF (m + 1) (tc ++ kwT "then" :: (tt ++ kwT "else" :: (te ++ rest))) = okP (c, kwT "then" :: (tt ++ kwT "else" :: (te ++ rest))) :=
    ole_okP (hc _ (stop_then _) m 0 (by omega))
  have h2 : exprF (m + 1) (tt ++ kwT "else" :: (te ++ rest)) = okP (t, kwT "else" :: (te ++ rest)) :=
    ole_okP (ht _ (stop_else _) m 0 (by omega))
  have h3 : exprF (m + 1) (te ++ rest) = okP (e, rest) := ole_okP (he rest hs m 0 (by omega))
  unfold expression
  simp [peek, adv, kwT, exact, bindP, okP] at h1 h2 h3 ⊢
  simp [h1, h2, h3]
  exact OLe.refl _

/-! ## expression lists and record entries -/

/-- the text `ta` is read by `p.expressions(close)` as the list `xs` -/
def ArgsRead (xs : List Expr) (ta : List Token) : Prop :=
  ∃ d, ∀ (close : String) (ct : Token) (rest : List Token) (n j : Nat), ct.text = close → (close = ")" ∨ close = "]") →
    d ≤ j → d ≤ n → exprList (exprF n) close j (ta ++ ct :: rest) = okP (xs, ct :: rest)

/-- first token is neither `)` nor `]` -/
def NoCloseHead (ts : List Token) : Prop := ∃ t tl, ts = t :: tl ∧ (t.text == ")") = false ∧ (t.text == "]") = false

theorem argsRead_nil : ArgsRead [] [] := by
  refine ⟨1, fun close ct rest n j hct _ hj _ => ?_⟩
  obtain ⟨j', rfl⟩ : ∃ j', j = j' + 1 := ⟨j - 1, by omega⟩
  unfold exprList
  simp [peek, hct]

theorem stop_close {close : String} {ct : Token} (hct : ct.text = close) (hc : close = ")" ∨ close = "]") (lvl : Nat) : Stop lvl ct := by
  apply stop_of_none
  rw [hct]
  rcases hc with rfl | rfl <;> rfl

theorem argsRead_one {x : Expr} {ts : List Token} (hx : ReadsAt 0 x ts) (hh : NoCloseHead ts) : ArgsRead [x] ts := by
  obtain ⟨d, hx⟩ := hx
  refine ⟨d + 1, fun close ct rest n j hct hc hj hn => ?_⟩
  obtain ⟨j', rfl⟩ : ∃ j', j = j' + 1 := ⟨j - 1, by omega⟩
  obtain ⟨m, rfl⟩ : ∃ m, n = m + 1 := ⟨n - 1, by omega⟩
  have h1 : exprF (m + 1) (ts ++ ct :: rest) = okP (x, ct :: rest) :=
    ole_okP (hx (ct :: rest) (stop_close hct hc _) m 0 (by omega))
  obtain ⟨t, tl, rfl, ht1, ht2⟩ := hh
  have hne : ((t.text == close) = false) := by rcases hc with rfl | rfl <;> assumption
  have hcomma : (ct.text == ",") = false := by rw [hct]; rcases hc with rfl | rfl <;> decide
  unfold exprList
  simp only [List.cons_append, peek, hne, Bool.false_eq_true, ↓reduceIte]
  simp only [List.cons_append] at h1
  rw [h1, bindP_okP]
  have hcomma' : (close == ",") = false := by rw [← hct]; exact hcomma
  simp only [peek, hct, hcomma', Bool.false_eq_true, ↓reduceIte, beq_self_eq_true]

theorem argsRead_cons {x y : Expr} {ys : List Expr} {ts ts' : List Token} (hx : ReadsAt 0 x ts) (hh : NoCloseHead ts)
    (hr : ArgsRead (y :: ys) ts') : ArgsRead (x :: y :: ys) (ts ++ opT "," :: ts') := by
  obtain ⟨d, hx⟩ := hx
  obtain ⟨d', hr⟩ := hr
  refine ⟨d + d' + 1, fun close ct rest n j hct hc hj hn => ?_⟩
  obtain ⟨j', rfl⟩ : ∃ j', j = j' + 1 := ⟨j - 1, by omega⟩
  obtain ⟨m, rfl⟩ : ∃ m, n = m + 1 := ⟨n - 1, by omega⟩
  have e1 : (ts ++ opT "," :: ts') ++ ct :: rest = ts ++ (opT "," :: (ts' ++ ct :: rest)) := by simp
  rw [e1]
  have h1 : exprF (m + 1) (ts ++ (opT "," :: (ts' ++ ct :: rest))) = okP (x, opT "," :: (ts' ++ ct :: rest)) :=
    ole_okP (hx _ (stop_comma _) m 0 (by omega))
  have h2 := hr close ct rest (m + 1) j' hct hc (by omega) (by omega)
  obtain ⟨t, tl, rfl, ht1, ht2⟩ := hh
  have hne : ((t.text == close) = false) := by rcases hc with rfl | rfl <;> assumption
  unfold exprList
  simp only [List.cons_append, peek, hne, Bool.false_eq_true, ↓reduceIte]
  simp only [List.cons_append] at h1
  rw [h1, bindP_okP]
  have e2 : adv (opT "," :: (ts' ++ ct :: rest)) = ts' ++ ct :: rest := rfl
  have e4 : peek (opT "," :: (ts' ++ ct :: rest)) = opT "," := rfl
  have e5 : ((opT ",").text == ",") = true := rfl
  simp only [e2, e4, e5, ↓reduceIte, h2, bindP_okP]

/-- a record key token: identifier or string literal -/
def KeyTok (k : String) (t : Token) : Prop :=
  recordKey t = .ok k ∧ (t.text == "}") = false

theorem keyTok_ident (k : String) (hk : k ≠ "}") : KeyTok k (idT k) := by
  refine ⟨by simp [recordKey, idT], ?_⟩
  simpa [idT] using hk

theorem strT_text_ne (a : String) (s : String) (hs : ∀ c cs, s.toList = c :: cs → c ≠ '"') : ((strT a).text == s) = false := by
  apply beq_eq_false_iff_ne.mpr
  intro h
  have : (strT a).text.toList = '"' :: (escapeString a.toList ++ ['"']) := by simp [strT]
  rw [h] at this
  exact hs _ _ this rfl

theorem keyTok_string (k : String) : KeyTok k (strT k) := by
  refine ⟨?_, strT_text_ne k "}" (by intro c cs h; simp at h; obtain ⟨rfl, _⟩ := h; decide)⟩
  simp [recordKey, strT_ty, strVal_strT k]

/-- the text `ta` followed by `}` is read by the loop of `p.record()` as the entries `kes` -/
def KvsRead (kes : List (String × Expr)) (ta : List Token) : Prop :=
  ∃ d, ∀ (known : List String) (rest : List Token) (n j : Nat), (∀ k ∈ kes.map (·.1), known.contains k = false) →
    (kes.map (·.1)).Nodup → d ≤ j → d ≤ n → recordLoop (exprF n) j known (ta ++ opT "}" :: rest) = okP (kes, rest)

theorem kvsRead_nil : KvsRead [] [] := by
  refine ⟨1, fun known rest n j _ _ hj _ => ?_⟩
  obtain ⟨j', rfl⟩ : ∃ j', j = j' + 1 := ⟨j - 1, by omega⟩
  unfold recordLoop
  simp [peek, adv, opT]

theorem kvsRead_one {k : String} {kt : Token} {x : Expr} {ts : List Token} (hk : KeyTok k kt) (hx : ReadsAt 0 x ts) :
    KvsRead [(k, x)] (kt :: opT ":" :: ts) := by
  obtain ⟨d, hx⟩ := hx
  refine ⟨d + 1, fun known rest n j hkn _ hj hn => ?_⟩
  obtain ⟨j', rfl⟩ : ∃ j', j = j' + 1 := ⟨j - 1, by omega⟩
  obtain ⟨m, rfl⟩ : ∃ m, n = m + 1 := ⟨n - 1, by omega⟩
  have h1 : exprF (m + 1) (ts ++ opT "}" :: rest) = okP (x, opT "}" :: rest) :=
    ole_okP (hx _ (stop_rbrace _) m 0 (by omega))
  have hkn' : known.contains k = false := hkn k (by simp)
  unfold recordLoop
  simp only [List.cons_append, peek, adv, hk.2, Bool.false_eq_true, ↓reduceIte, hk.1, bindP_some_ok]
  have hkn'' : k ∉ known := by simpa using hkn'
  simp [exact, peek, adv, opT, bindP, okP] at h1 ⊢
  simp [h1, hkn'']

theorem kvsRead_cons {k : String} {kt : Token} {x : Expr} {ts ts' : List Token} {kes : List (String × Expr)}
    (hk : KeyTok k kt) (hx : ReadsAt 0 x ts) (hne : kes ≠ []) (hr : KvsRead kes ts') :
    KvsRead ((k, x) :: kes) (kt :: opT ":" :: (ts ++ opT "," :: ts')) := by
  obtain ⟨d, hx⟩ := hx
  obtain ⟨d', hr⟩ := hr
  refine ⟨d + d' + 1, fun known rest n j hkn hnd hj hn => ?_⟩
  obtain ⟨j', rfl⟩ : ∃ j', j = j' + 1 := ⟨j - 1, by omega⟩
  obtain ⟨m, rfl⟩ : ∃ m, n = m + 1 := ⟨n - 1, by omega⟩
  have e1 : (kt :: opT ":" :: (ts ++ opT "," :: ts')) ++ opT "}" :: rest = kt :: opT ":" :: (ts ++ (opT "," :: (ts' ++ opT "}" :: rest))) := by simp
  rw [e1]
  have h1 : exprF (m + 1) (ts ++ (opT "," :: (ts' ++ opT "}" :: rest))) = okP (x, opT "," :: (ts' ++ opT "}" :: rest)) :=
    ole_okP (hx _ (stop_comma _) m 0 (by omega))
  have hkn' : known.contains k = false := hkn k (by simp)
  simp only [List.map_cons, List.nodup_cons] at hnd
  have h2 := hr (k :: known) rest (m + 1) j' (by
    intro k' hk'
    have h3 := hkn k' (by simp [hk'])
    have h4 : k' ≠ k := fun h => hnd.1 (h ▸ hk')
    simp only [List.contains_eq_mem, List.mem_cons, decide_eq_false_iff_not] at h3 ⊢
    simp [h4, h3]) hnd.2 (by omega) (by omega)
  unfold recordLoop
  simp only [peek, adv, hk.2, Bool.false_eq_true, ↓reduceIte, hk.1, bindP_some_ok]
  have hkn'' : k ∉ known := by simpa using hkn'
  simp [exact, peek, adv, opT, bindP, okP] at h1 h2 ⊢
  simp [h1, hkn'', h2]

/-! ## productions: sets, records, function calls -/

theorem reads_set {es : List Expr} {ta : List Token} (h : ArgsRead es ta) :
    ReadsAt 8 (.set es) (opT "[" :: (ta ++ [opT "]"])) := by
  obtain ⟨d, h⟩ := h
  refine ⟨d, fun rest _ n k hk => ?_⟩
  show OLe (okP (_, rest)) (primary (exprF n) n ((opT "[" :: (ta ++ [opT "]"])) ++ rest))
  have e : (opT "[" :: (ta ++ [opT "]"])) ++ rest = opT "[" :: (ta ++ opT "]" :: rest) := by simp
  rw [e]
  have h1 := h "]" (opT "]") rest n n rfl (Or.inr rfl) (by omega) (by omega)
  unfold primary
  simp only [peek, adv, primKind, opT]
  simp only [opT] at h1
  simp [h1, bindP, okP, adv]
  exact OLe.refl _

theorem reads_record {kes : List (String × Expr)} {ta : List Token} (h : KvsRead kes ta) (hnd : (kes.map (·.1)).Nodup) :
    ReadsAt 8 (.record kes) (opT "{" :: (ta ++ [opT "}"])) := by
  obtain ⟨d, h⟩ := h
  refine ⟨d, fun rest _ n k hk => ?_⟩
  show OLe (okP (_, rest)) (primary (exprF n) n ((opT "{" :: (ta ++ [opT "}"])) ++ rest))
  have e : (opT "{" :: (ta ++ [opT "}"])) ++ rest = opT "{" :: (ta ++ opT "}" :: rest) := by simp
  rw [e]
  have h1 := h [] rest n n (by intro k _; rfl) hnd (by omega) (by omega)
  unfold primary
  simp only [peek, adv, primKind, opT]
  simp only [opT] at h1
  simp [h1, bindP, okP]
  exact OLe.refl _

theorem checkFunction_ne (fn s : String) (h : checkFunction fn = .ok ()) (hs : checkFunction s ≠ .ok ()) : (fn == s) = false := by
  apply beq_eq_false_iff_ne.mpr
  intro heq
  rw [heq] at h
  exact hs h

theorem reads_callFn {fn : String} {as : List Expr} {ta : List Token} (hf : checkFunction fn = .ok ()) (h : ArgsRead as ta) :
    ReadsAt 8 (.call fn as) (idT fn :: opT "(" :: (ta ++ [opT ")"])) := by
  obtain ⟨d, h⟩ := h
  refine ⟨d, fun rest _ n k hk => ?_⟩
  show OLe (okP (_, rest)) (primary (exprF n) n ((idT fn :: opT "(" :: (ta ++ [opT ")"])) ++ rest))
  have e : (idT fn :: opT "(" :: (ta ++ [opT ")"])) ++ rest = idT fn :: opT "(" :: (ta ++ opT ")" :: rest) := by simp
  rw [e]
  have h1 := h ")" (opT ")") rest n n rfl (Or.inl rfl) (by omega) (by omega)
  have ht := checkFunction_ne fn "true" hf (by
    rw [show checkFunction "true" = Except.error PErr.notFunction from rfl]; intro h; cases h)
  have hfl := checkFunction_ne fn "false" hf (by
    rw [show checkFunction "false" = Except.error PErr.notFunction from rfl]; intro h; cases h)
  have hk : primKind (idT fn) (opT "(") = .identCall := by
    unfold primKind
    simp [idT, opT, ht, hfl]
  unfold primary
  have e1 : peek (idT fn :: opT "(" :: (ta ++ opT ")" :: rest)) = idT fn := rfl
  have e3 : adv (idT fn :: opT "(" :: (ta ++ opT ")" :: rest)) = opT "(" :: (ta ++ opT ")" :: rest) := rfl
  have e2 : peek (opT "(" :: (ta ++ opT ")" :: rest)) = opT "(" := rfl
  simp only [e1, e3, e2, hk]
  unfold entityOrExtFun
  have e4 : ((opT "(").text == "::") = false := rfl
  have e5 : ((opT "(").text == "(") = true := rfl
  simp only [e4, e5, Bool.false_eq_true, ↓reduceIte, idT, hf, bindP_some_ok, h1, bindP_okP]
  exact OLe.refl _

/-! ## productions: member accesses and method calls -/

theorem reads_accessDot {e : Expr} {te : List Token} (a : String) (he : ReadsAt 7 e te) :
    ReadsAt 7 (.access e a) (te ++ [opT ".", idT a]) := by
  obtain ⟨d, he⟩ := he
  refine ⟨d + 1, fun rest hs n k hk => ?_⟩
  show OLe (accessLoop (exprF n) k _ rest) (member (exprF n) n ((te ++ [opT ".", idT a]) ++ rest))
  have e1 : (te ++ [opT ".", idT a]) ++ rest = te ++ (opT "." :: idT a :: rest) := by simp
  rw [e1]
  have h1 : OLe (accessLoop (exprF n) (k + 1) e (opT "." :: idT a :: rest)) (member (exprF n) n (te ++ (opT "." :: idT a :: rest))) :=
    he _ (stop_tok (l := 7) rfl (by decide)) n (k + 1) (by omega)
  have hp := hs.ne "(" 8 rfl (by decide)
  have h3 : accessLoop (exprF n) (k + 1) e (opT "." :: idT a :: rest) = accessLoop (exprF n) k (.access e a) rest := by
    rw [accessLoop]
    have e2 : peek (adv (adv (opT "." :: idT a :: rest))) = peek rest := rfl
    simp only [e2, hp]
    simp [peek, adv, opT, idT]
  rw [h3] at h1
  exact h1

theorem reads_accessIdx {e : Expr} {te : List Token} (a : String) (he : ReadsAt 7 e te) :
    ReadsAt 7 (.access e a) (te ++ [opT "[", strT a, opT "]"]) := by
  obtain ⟨d, he⟩ := he
  refine ⟨d + 1, fun rest hs n k hk => ?_⟩
  show OLe (accessLoop (exprF n) k _ rest) (member (exprF n) n ((te ++ [opT "[", strT a, opT "]"]) ++ rest))
  have e1 : (te ++ [opT "[", strT a, opT "]"]) ++ rest = te ++ (opT "[" :: strT a :: opT "]" :: rest) := by simp
  rw [e1]
  have h1 : OLe (accessLoop (exprF n) (k + 1) e (opT "[" :: strT a :: opT "]" :: rest)) (member (exprF n) n (te ++ (opT "[" :: strT a :: opT "]" :: rest))) :=
    he _ (stop_tok (l := 7) rfl (by decide)) n (k + 1) (by omega)
  have h3 : accessLoop (exprF n) (k + 1) e (opT "[" :: strT a :: opT "]" :: rest) = accessLoop (exprF n) k (.access e a) rest := by
    rw [accessLoop]
    have e2 : ((peek (opT "[" :: strT a :: opT "]" :: rest)).text == ".") = false := rfl
    have e3 : ((peek (opT "[" :: strT a :: opT "]" :: rest)).text == "[") = true := rfl
    have e4 : peek (adv (opT "[" :: strT a :: opT "]" :: rest)) = strT a := rfl
    have e5 : adv (adv (opT "[" :: strT a :: opT "]" :: rest)) = opT "]" :: rest := rfl
    have e6 : ((strT a).ty != TokType.string) = false := rfl
    have e7 : exact "]" (opT "]" :: rest) = .ok rest := rfl
    simp only [e2, e3, e4, e5, e6, e7, Bool.false_eq_true, ↓reduceIte, strVal_strT a, bindP_some_ok]
  rw [h3] at h1
  exact h1

/-- method-call syntax `recv.name(args)` for every node the `switch` of `p.access()` builds -/
theorem reads_method {recv node : Expr} {args : List Expr} {tr ta : List Token} (name : String)
    (hm : mkMethod name recv args = .ok node) (hr : ReadsAt 7 recv tr) (ha : ArgsRead args ta) :
    ReadsAt 7 node (tr ++ opT "." :: idT name :: opT "(" :: (ta ++ [opT ")"])) := by
  obtain ⟨dr, hr⟩ := hr
  obtain ⟨da, ha⟩ := ha
  refine ⟨dr + da + 1, fun rest hs n k hk => ?_⟩
  show OLe (accessLoop (exprF n) k _ rest) (member (exprF n) n ((tr ++ opT "." :: idT name :: opT "(" :: (ta ++ [opT ")"])) ++ rest))
  have e1 : (tr ++ opT "." :: idT name :: opT "(" :: (ta ++ [opT ")"])) ++ rest
      = tr ++ (opT "." :: idT name :: opT "(" :: (ta ++ opT ")" :: rest)) := by simp
  rw [e1]
  have h1 : OLe (accessLoop (exprF n) (k + da + 1) recv (opT "." :: idT name :: opT "(" :: (ta ++ opT ")" :: rest)))
      (member (exprF n) n (tr ++ (opT "." :: idT name :: opT "(" :: (ta ++ opT ")" :: rest)))) :=
    hr _ (stop_tok (l := 7) rfl (by decide)) n (k + da + 1) (by omega)
  have h2 := ha ")" (opT ")") rest n (k + da) rfl (Or.inl rfl) (by omega) (by omega)
  have h3 : accessLoop (exprF n) (k + da + 1) recv (opT "." :: idT name :: opT "(" :: (ta ++ opT ")" :: rest))
      = accessLoop (exprF n) (k + da) node rest := by
    rw [accessLoop]
    have e2 : ((peek (opT "." :: idT name :: opT "(" :: (ta ++ opT ")" :: rest))).text == ".") = true := rfl
    have e3 : peek (adv (opT "." :: idT name :: opT "(" :: (ta ++ opT ")" :: rest))) = idT name := rfl
    have e4 : ((idT name).ty != TokType.ident) = false := rfl
    have e5 : ((peek (adv (adv (opT "." :: idT name :: opT "(" :: (ta ++ opT ")" :: rest))))).text == "(") = true := rfl
    have e6 : adv (adv (adv (opT "." :: idT name :: opT "(" :: (ta ++ opT ")" :: rest)))) = ta ++ opT ")" :: rest := rfl
    have e7 : (idT name).text = name := rfl
    simp only [e2, e3, e4, e5, e6, e7, Bool.false_eq_true, ↓reduceIte, h2, bindP_okP, hm, bindP_some_ok]
    rfl
  rw [h3] at h1
  exact (mono_accessLoop (EP.le_refl _) k (k + da) node rest (by omega)).trans h1

/-! ## productions: entity literals, `is`, `is … in` -/

theorem isIdentName_ne (s t : String) (h : isIdentName s = true) (ht : isIdentName t = false) : (s == t) = false := by
  apply beq_eq_false_iff_ne.mpr
  intro heq
  rw [heq, ht] at h
  cases h

/-- a type name whose components are identifiers, split by the printer -/
structure PathOK (ty : String) (first : String) (parts : List String) : Prop where
  split : splitPath ty = first :: parts
  ident : isIdentName first = true

theorem PathOK.join {ty first : String} {parts : List String} (h : PathOK ty first parts) : joinPath first parts = ty := by
  obtain ⟨f', p', hs, hj⟩ := joinPath_splitPath ty
  rw [h.split] at hs
  cases hs
  exact hj

theorem PathOK.toks {ty first : String} {parts : List String} (h : PathOK ty first parts) : pathToks ty = idT first :: sepToks parts := by
  unfold pathToks
  rw [h.split, pathToksOf_cons]

theorem pathOK_of_isPathName (ty : String) (h : isPathName ty = true) : ∃ first parts, PathOK ty first parts := by
  obtain ⟨first, parts, hs, _⟩ := joinPath_splitPath ty
  refine ⟨first, parts, hs, ?_⟩
  unfold isPathName at h
  rw [hs] at h
  simp only [List.all_cons, Bool.and_eq_true] at h
  exact h.1

theorem reads_entity {ty id first : String} {parts : List String} (hp : PathOK ty first parts) :
    ReadsAt 8 (.lit (.entity ty id)) (pathToks ty ++ [opT "::", strT id]) := by
  refine ⟨0, fun rest _ n k _ => ?_⟩
  show OLe (okP (_, rest)) (primary (exprF n) n ((pathToks ty ++ [opT "::", strT id]) ++ rest))
  rw [hp.toks]
  have e : (idT first :: sepToks parts ++ [opT "::", strT id]) ++ rest = idT first :: (sepToks parts ++ opT "::" :: strT id :: rest) := by simp
  rw [e]
  have ht := isIdentName_ne first "true" hp.ident (by decide)
  have hf := isIdentName_ne first "false" hp.ident (by decide)
  have hnext : (peek (sepToks parts ++ opT "::" :: strT id :: rest)).text = "::" := by
    cases parts <;> rfl
  have hk : primKind (idT first) (peek (sepToks parts ++ opT "::" :: strT id :: rest)) = .identCall := by
    unfold primKind
    simp [idT, ht, hf, hnext]
  unfold primary
  have e1 : peek (idT first :: (sepToks parts ++ opT "::" :: strT id :: rest)) = idT first := rfl
  have e3 : adv (idT first :: (sepToks parts ++ opT "::" :: strT id :: rest)) = sepToks parts ++ opT "::" :: strT id :: rest := rfl
  simp only [e1, e3, hk]
  have e4 : (idT first).text = first := rfl
  rw [e4, entityOrExtFun_sepToks _ _ parts first id rest, hp.join]
  exact OLe.refl _

theorem path_pathToks {ty first : String} {parts : List String} (hp : PathOK ty first parts) (rest : List Token)
    (h : ((peek rest).text == "::") = false) : path (pathToks ty ++ rest) = .ok (ty, rest) := by
  rw [hp.toks]
  unfold path
  have e1 : peek (idT first :: sepToks parts ++ rest) = idT first := rfl
  have e2 : adv (idT first :: sepToks parts ++ rest) = sepToks parts ++ rest := rfl
  have e3 : ((idT first).ty == TokType.ident) = true := rfl
  have e4 : (idT first).text = first := rfl
  simp only [e1, e2, e3, e4, ↓reduceIte]
  rw [pathRest_sepToks parts first rest h, hp.join]

theorem reads_is {e : Expr} {te : List Token} {ty first : String} {parts : List String} (hp : PathOK ty first parts)
    (he : ReadsAt 4 e te) : ReadsAt 3 (.is e ty) (te ++ kwT "is" :: pathToks ty) := by
  obtain ⟨de, he'⟩ := add_stops_at_rel he
  refine ⟨de, fun rest hs n k hk => ?_⟩
  show OLe (okP (_, rest)) (relation (exprF n) n ((te ++ kwT "is" :: pathToks ty) ++ rest))
  have e1 : (te ++ kwT "is" :: pathToks ty) ++ rest = te ++ (kwT "is" :: (pathToks ty ++ rest)) := by simp
  rw [e1]
  have ha := he' (kwT "is") (pathToks ty ++ rest) rfl n (by omega)
  have hcc := hs.ne "::" 8 rfl (by decide)
  have hin := hs.ne "in" 3 rfl (by decide)
  unfold relation
  rw [ha, bindP_okP]
  unfold relTail
  have e2 : peek (kwT "is" :: (pathToks ty ++ rest)) = kwT "is" := rfl
  have e3 : adv (kwT "is" :: (pathToks ty ++ rest)) = pathToks ty ++ rest := rfl
  have e5 : ((kwT "is").text == "has") = false ∧ ((kwT "is").text == "like") = false ∧ ((kwT "is").text == "is") = true := ⟨rfl, rfl, rfl⟩
  simp only [e2, e3, e5, Bool.false_eq_true, ↓reduceIte]
  unfold parseIs
  rw [path_pathToks hp rest hcc, bindP_some_ok]
  simp only [hin, Bool.false_eq_true, ↓reduceIte]
  exact OLe.refl _

theorem reads_isIn {e r : Expr} {te tr : List Token} {ty first : String} {parts : List String} (hp : PathOK ty first parts)
    (he : ReadsAt 4 e te) (hr : ReadsAt 4 r tr) :
    ReadsAt 3 (.isIn e ty r) (te ++ kwT "is" :: (pathToks ty ++ kwT "in" :: tr)) := by
  obtain ⟨de, he'⟩ := add_stops_at_rel he
  obtain ⟨dr, hr⟩ := hr
  refine ⟨de + dr + 1, fun rest hs n k hk => ?_⟩
  show OLe (okP (_, rest)) (relation (exprF n) n ((te ++ kwT "is" :: (pathToks ty ++ kwT "in" :: tr)) ++ rest))
  have e1 : (te ++ kwT "is" :: (pathToks ty ++ kwT "in" :: tr)) ++ rest = te ++ (kwT "is" :: (pathToks ty ++ (kwT "in" :: (tr ++ rest)))) := by simp
  rw [e1]
  have ha := he' (kwT "is") (pathToks ty ++ (kwT "in" :: (tr ++ rest))) rfl n (by omega)
  have hb : add (exprF n) n (tr ++ rest) = okP (r, rest) := ole_okP (by
    have hx : contAt 4 n 1 r rest = okP (r, rest) :=
      addLoop_exit _ _ 0 _ _ (hs.ne "+" 4 rfl (by decide)) (hs.ne "-" 4 rfl (by decide))
    rw [← hx]; exact hr rest (hs.mono (by decide)) n 1 (by omega))
  unfold relation
  rw [ha, bindP_okP]
  unfold relTail
  have e2 : peek (kwT "is" :: (pathToks ty ++ (kwT "in" :: (tr ++ rest)))) = kwT "is" := rfl
  have e3 : adv (kwT "is" :: (pathToks ty ++ (kwT "in" :: (tr ++ rest)))) = pathToks ty ++ (kwT "in" :: (tr ++ rest)) := rfl
  have e6 : ((kwT "is").text == "has") = false ∧ ((kwT "is").text == "like") = false ∧ ((kwT "is").text == "is") = true := ⟨rfl, rfl, rfl⟩
  simp only [e2, e3, e6, Bool.false_eq_true, ↓reduceIte]
  unfold parseIs
  rw [path_pathToks hp _ rfl, bindP_some_ok]
  have e4 : ((peek (kwT "in" :: (tr ++ rest))).text == "in") = true := rfl
  have e5 : adv (kwT "in" :: (tr ++ rest)) = tr ++ rest := rfl
  simp only [e4, ↓reduceIte, e5, hb, bindP_okP]
  exact OLe.refl _

/-! ## the relational specification of valid renderings -/

inductive Item where
  | e (lvl : Nat) (x : Expr)
  | args (xs : List Expr)
  | kvs (xs : List (String × Expr))

/-- `Rend (.e lvl x) ts`: `ts` spells `x` where the grammar expects level ≥ `lvl` -/
inductive Rend : Item → List Token → Prop where
  | paren {lvl : Nat} {x : Expr} {ts : List Token} : Rend (.e 0 x) ts → Rend (.e lvl x) (opT "(" :: (ts ++ [opT ")"]))
  | litBool {lvl : Nat} (b : Bool) : Rend (.e lvl (.lit (.bool b))) [kwT (if b then "true" else "false")]
  | litNat {lvl : Nat} (n : Nat) : n ≤ 9223372036854775807 → Rend (.e lvl (.lit (.long (Int.ofNat n)))) [intT n]
  | litNeg {lvl : Nat} (n : Nat) : n ≤ 9223372036854775808 → lvl ≤ 6 →
      Rend (.e lvl (.lit (.long (-(Int.ofNat n))))) [opT "-", intT n]
  | litStr {lvl : Nat} (s : String) : Rend (.e lvl (.lit (.str s))) [strT s]
  | var {lvl : Nat} (v : Var) : Rend (.e lvl (.var v)) [idT (varName v)]
  | entity {lvl : Nat} (ty id first : String) (parts : List String) : PathOK ty first parts →
      Rend (.e lvl (.lit (.entity ty id))) (pathToks ty ++ [opT "::", strT id])
  | is {lvl : Nat} {x : Expr} {ts : List Token} (ty first : String) (parts : List String) : PathOK ty first parts →
      Rend (.e 4 x) ts → lvl ≤ 3 → Rend (.e lvl (.is x ty)) (ts ++ kwT "is" :: pathToks ty)
  | isIn {lvl : Nat} {x r : Expr} {ts tr : List Token} (ty first : String) (parts : List String) : PathOK ty first parts →
      Rend (.e 4 x) ts → Rend (.e 4 r) tr → lvl ≤ 3 →
      Rend (.e lvl (.isIn x ty r)) (ts ++ kwT "is" :: (pathToks ty ++ kwT "in" :: tr))
  | not {lvl : Nat} {x : Expr} {ts : List Token} : Rend (.e 6 x) ts → lvl ≤ 6 → Rend (.e lvl (.unop .not x)) (opT "!" :: ts)
  | neg {lvl : Nat} {x : Expr} {ts : List Token} : Rend (.e 6 x) ts → negLitAt ts = false → lvl ≤ 6 →
      Rend (.e lvl (.unop .neg x)) (opT "-" :: ts)
  | isEmpty {lvl : Nat} {x : Expr} {ts : List Token} : Rend (.e 7 x) ts → lvl ≤ 7 →
      Rend (.e lvl (.unop .isEmpty x)) (ts ++ opT "." :: idT "isEmpty" :: opT "(" :: ([] ++ [opT ")"]))
  | infixOp {lvl : Nat} {op : BinOp} {tok : Token} {lp rp : Nat} {l r : Expr} {tl tr : List Token} :
      binForm op = .infixOp tok lp rp → Rend (.e lp l) tl → Rend (.e rp r) tr → lvl ≤ binPrec op →
      Rend (.e lvl (.binop op l r)) (tl ++ tok :: tr)
  | method {lvl : Nat} {op : BinOp} {name : String} {l r : Expr} {tl tr : List Token} :
      binForm op = .method name → Rend (.e 7 l) tl → Rend (.e 0 r) tr → lvl ≤ 7 →
      Rend (.e lvl (.binop op l r)) (tl ++ opT "." :: idT name :: opT "(" :: (tr ++ [opT ")"]))
  | ite {c t e : Expr} {tc tt te : List Token} : Rend (.e 0 c) tc → Rend (.e 0 t) tt → Rend (.e 0 e) te →
      Rend (.e 0 (.ite c t e)) (kwT "if" :: (tc ++ kwT "then" :: (tt ++ kwT "else" :: te)))
  | accessDot {lvl : Nat} {x : Expr} {ts : List Token} (a : String) : Rend (.e 7 x) ts → lvl ≤ 7 →
      Rend (.e lvl (.access x a)) (ts ++ [opT ".", idT a])
  | accessIdx {lvl : Nat} {x : Expr} {ts : List Token} (a : String) : Rend (.e 7 x) ts → lvl ≤ 7 →
      Rend (.e lvl (.access x a)) (ts ++ [opT "[", strT a, opT "]"])
  | hasId {lvl : Nat} {x : Expr} {ts : List Token} (a : String) : Rend (.e 4 x) ts → lvl ≤ 3 →
      Rend (.e lvl (.has x a)) (ts ++ [kwT "has", idT a])
  | hasStr {lvl : Nat} {x : Expr} {ts : List Token} (a : String) : Rend (.e 4 x) ts → lvl ≤ 3 →
      Rend (.e lvl (.has x a)) (ts ++ [kwT "has", strT a])
  | like {lvl : Nat} {x : Expr} {ts : List Token} (p : Pattern) (pt : Token) : pt.ty = .string →
      parsePattern (trimQuotes pt.text.toList) = .ok p → Rend (.e 4 x) ts → lvl ≤ 3 →
      Rend (.e lvl (.like x p)) (ts ++ [kwT "like", pt])
  | set {lvl : Nat} {es : List Expr} {ts : List Token} : Rend (.args es) ts → Rend (.e lvl (.set es)) (opT "[" :: (ts ++ [opT "]"]))
  | record {lvl : Nat} {kes : List (String × Expr)} {ts : List Token} : Rend (.kvs kes) ts → (kes.map (·.1)).Nodup →
      Rend (.e lvl (.record kes)) (opT "{" :: (ts ++ [opT "}"]))
  | callFn {lvl : Nat} {fn : String} {as : List Expr} {ts : List Token} : checkFunction fn = .ok () → Rend (.args as) ts →
      Rend (.e lvl (.call fn as)) (idT fn :: opT "(" :: (ts ++ [opT ")"]))
  | callMethod {lvl : Nat} {fn : String} {recv : Expr} {as : List Expr} {tr ta : List Token} :
      mkMethod fn recv as = .ok (.call fn (recv :: as)) → Rend (.e 7 recv) tr → Rend (.args as) ta → lvl ≤ 7 →
      Rend (.e lvl (.call fn (recv :: as))) (tr ++ opT "." :: idT fn :: opT "(" :: (ta ++ [opT ")"]))
  | argsNil : Rend (.args []) []
  | argsOne {x : Expr} {ts : List Token} : Rend (.e 0 x) ts → Rend (.args [x]) ts
  | argsCons {x y : Expr} {ys : List Expr} {ts ts' : List Token} : Rend (.e 0 x) ts → Rend (.args (y :: ys)) ts' →
      Rend (.args (x :: y :: ys)) (ts ++ opT "," :: ts')
  | kvsNil : Rend (.kvs []) []
  | kvsOne {k : String} {kt : Token} {x : Expr} {ts : List Token} : KeyTok k kt → Rend (.e 0 x) ts →
      Rend (.kvs [(k, x)]) (kt :: opT ":" :: ts)
  | kvsCons {k : String} {kt : Token} {x : Expr} {ts ts' : List Token} {kes : List (String × Expr)} :
      KeyTok k kt → Rend (.e 0 x) ts → kes ≠ [] → Rend (.kvs kes) ts' →
      Rend (.kvs ((k, x) :: kes)) (kt :: opT ":" :: (ts ++ opT "," :: ts'))

/-- facts about the first token of a rendering -/
def HeadOK (lvl : Nat) (ts : List Token) : Prop :=
  ∃ t tl, ts = t :: tl ∧ (t.text == ")") = false ∧ (t.text == "]") = false ∧
    (1 ≤ lvl → (t.text == "if") = false) ∧ (7 ≤ lvl → (t.text == "-") = false ∧ (t.text == "!") = false)

theorem HeadOK.mono {a b : Nat} {ts : List Token} (h : HeadOK a ts) (hab : b ≤ a) : HeadOK b ts := by
  obtain ⟨t, tl, rfl, h1, h2, h3, h4⟩ := h
  exact ⟨t, tl, rfl, h1, h2, fun hb => h3 (by omega), fun hb => h4 (by omega)⟩

theorem HeadOK.append {a : Nat} {ts : List Token} (h : HeadOK a ts) (tl' : List Token) : HeadOK a (ts ++ tl') := by
  obtain ⟨t, tl, rfl, h1, h2, h3, h4⟩ := h
  exact ⟨t, tl ++ tl', rfl, h1, h2, h3, h4⟩

theorem HeadOK.noClose {a : Nat} {ts : List Token} (h : HeadOK a ts) : NoCloseHead ts := by
  obtain ⟨t, tl, rfl, h1, h2, _, _⟩ := h
  exact ⟨t, tl, rfl, h1, h2⟩

theorem HeadOK.noIf {a : Nat} {ts : List Token} (h : HeadOK a ts) (ha : 1 ≤ a) : NoIfHead ts := by
  obtain ⟨t, tl, rfl, _, _, h3, _⟩ := h
  exact ⟨t, tl, rfl, h3 ha⟩

theorem HeadOK.noUnary {a : Nat} {ts : List Token} (h : HeadOK a ts) (ha : 7 ≤ a) : NoUnaryHead ts := by
  obtain ⟨t, tl, rfl, _, _, _, h4⟩ := h
  exact ⟨t, tl, rfl, (h4 ha).1, (h4 ha).2⟩

theorem headOK_of_tok (lvl : Nat) (t : Token) (tl : List Token) (h1 : (t.text == ")") = false) (h2 : (t.text == "]") = false)
    (h3 : (t.text == "if") = false) (h4 : (t.text == "-") = false) (h5 : (t.text == "!") = false) : HeadOK lvl (t :: tl) :=
  ⟨t, tl, rfl, h1, h2, fun _ => h3, fun _ => ⟨h4, h5⟩⟩

theorem one_step_down (L : Nat) {x : Expr} {ts : List Token} (h : ReadsAt (L + 1) x ts) (hh : HeadOK (L + 1) ts) (hL : L + 1 ≤ 8) :
    ReadsAt L x ts := by
  match L, h, hh, hL with
  | 0, h, hh, _ => exact reads_1_0 h (hh.noIf (by omega))
  | 1, h, _, _ => exact reads_2_1 h
  | 2, h, _, _ => exact reads_3_2 h
  | 3, h, _, _ => exact reads_4_3 h
  | 4, h, _, _ => exact reads_5_4 h
  | 5, h, _, _ => exact reads_6_5 h
  | 6, h, hh, _ => exact reads_7_6 h (hh.noUnary (by omega))
  | 7, h, _, _ => exact reads_8_7 h
  | n + 8, _, _, hL => omega

/-- a text read at its natural level `p` is read at every lower level -/
theorem reads_down {x : Expr} {ts : List Token} {p : Nat} (hp : p ≤ 8) (h : ReadsAt p x ts) (hh : HeadOK p ts) :
    ∀ lvl, lvl ≤ p → ReadsAt lvl x ts ∧ HeadOK lvl ts := by
  induction p with
  | zero => intro lvl hl; have : lvl = 0 := by omega
            subst this; exact ⟨h, hh⟩
  | succ p ih =>
    intro lvl hl
    rcases Nat.lt_or_ge lvl (p + 1) with h1 | h1
    · exact ih (by omega) (one_step_down p h hh hp) (hh.mono (by omega)) lvl (by omega)
    · have : lvl = p + 1 := by omega
      subst this; exact ⟨h, hh⟩

/-! ## every valid rendering is read back -/

def Spec : Item → List Token → Prop
  | .e lvl x, ts => lvl ≤ 8 → (ReadsAt lvl x ts ∧ HeadOK lvl ts)
  | .args xs, ts => ArgsRead xs ts
  | .kvs kes, ts => KvsRead kes ts

theorem headOK_intT (lvl n : Nat) (tl : List Token) : HeadOK lvl (intT n :: tl) :=
  headOK_of_tok lvl _ tl
    (intT_text_ne n ")" (by intro c cs h; simp at h; obtain ⟨rfl, _⟩ := h; decide))
    (intT_text_ne n "]" (by intro c cs h; simp at h; obtain ⟨rfl, _⟩ := h; decide))
    (intT_text_ne n "if" (by intro c cs h; simp at h; obtain ⟨rfl, _⟩ := h; decide))
    (intT_text_ne n "-" (by intro c cs h; simp at h; obtain ⟨rfl, _⟩ := h; decide))
    (intT_text_ne n "!" (by intro c cs h; simp at h; obtain ⟨rfl, _⟩ := h; decide))

theorem headOK_strT (lvl : Nat) (a : String) (tl : List Token) : HeadOK lvl (strT a :: tl) :=
  headOK_of_tok lvl _ tl
    (strT_text_ne a ")" (by intro c cs h; simp at h; obtain ⟨rfl, _⟩ := h; decide))
    (strT_text_ne a "]" (by intro c cs h; simp at h; obtain ⟨rfl, _⟩ := h; decide))
    (strT_text_ne a "if" (by intro c cs h; simp at h; obtain ⟨rfl, _⟩ := h; decide))
    (strT_text_ne a "-" (by intro c cs h; simp at h; obtain ⟨rfl, _⟩ := h; decide))
    (strT_text_ne a "!" (by intro c cs h; simp at h; obtain ⟨rfl, _⟩ := h; decide))

theorem checkFunction_err (s : String) (e : PErr) (h : checkFunction s = .error e) : checkFunction s ≠ .ok () := by
  rw [h]; intro h'; cases h'

theorem headOK_fn (lvl : Nat) (fn : String) (hf : checkFunction fn = .ok ()) (tl : List Token) : HeadOK lvl (idT fn :: tl) :=
  headOK_of_tok lvl _ tl
    (checkFunction_ne fn ")" hf (checkFunction_err _ .notFunction rfl))
    (checkFunction_ne fn "]" hf (checkFunction_err _ .notFunction rfl))
    (checkFunction_ne fn "if" hf (checkFunction_err _ .notFunction rfl))
    (checkFunction_ne fn "-" hf (checkFunction_err _ .notFunction rfl))
    (checkFunction_ne fn "!" hf (checkFunction_err _ .notFunction rfl))

theorem rend_spec {it : Item} {ts : List Token} (h : Rend it ts) : Spec it ts := by
  induction h with
  | @paren lvl x ts _ ih =>
    intro hl
    exact reads_down (p := 8) (by omega) (reads_paren (ih (by omega)).1) (headOK_of_tok 8 _ _ rfl rfl rfl rfl rfl) lvl hl
  | @litBool lvl b =>
    intro hl
    refine reads_down (p := 8) (by omega) (reads_litBool b) ?_ lvl hl
    cases b <;> exact headOK_of_tok 8 _ _ rfl rfl rfl rfl rfl
  | @litNat lvl n hn =>
    intro hl
    exact reads_down (p := 8) (by omega) (reads_litNat n hn) (headOK_intT 8 n _) lvl hl
  | @litNeg lvl n hn hlvl =>
    intro _
    exact reads_down (p := 6) (by omega) (reads_litNeg n hn)
      ⟨_, _, rfl, rfl, rfl, fun _ => rfl, fun h => by omega⟩ lvl hlvl
  | @litStr lvl s =>
    intro hl
    exact reads_down (p := 8) (by omega) (reads_litStr s) (headOK_strT 8 s _) lvl hl
  | @var lvl v =>
    intro hl
    refine reads_down (p := 8) (by omega) (reads_var v) ?_ lvl hl
    cases v <;> exact headOK_of_tok 8 _ _ rfl rfl rfl rfl rfl
  | @entity lvl ty id first parts hp =>
    intro hl
    refine reads_down (p := 8) (by omega) (reads_entity hp) ?_ lvl hl
    rw [hp.toks]
    exact headOK_of_tok 8 _ _ (isIdentName_ne first ")" hp.ident (by decide)) (isIdentName_ne first "]" hp.ident (by decide))
      (isIdentName_ne first "if" hp.ident (by decide)) (isIdentName_ne first "-" hp.ident (by decide))
      (isIdentName_ne first "!" hp.ident (by decide))
  | @is lvl x ts ty first parts hp _ hlvl ih =>
    intro _
    have := ih (by omega)
    exact reads_down (p := 3) (by omega) (reads_is hp this.1) ((this.2.mono (by omega)).append _) lvl hlvl
  | @isIn lvl x r ts tr ty first parts hp _ _ hlvl ihx ihr =>
    intro _
    have hx := ihx (by omega)
    have hr := ihr (by omega)
    exact reads_down (p := 3) (by omega) (reads_isIn hp hx.1 hr.1) ((hx.2.mono (by omega)).append _) lvl hlvl
  | @not lvl x ts _ hlvl ih =>
    intro _
    exact reads_down (p := 6) (by omega) (reads_not (ih (by omega)).1)
      ⟨_, _, rfl, rfl, rfl, fun _ => rfl, fun h => by omega⟩ lvl hlvl
  | @neg lvl x ts _ hi hlvl ih =>
    intro _
    have hne : ts ≠ [] := by
      obtain ⟨t, tl, rfl, _⟩ := (ih (by omega)).2
      simp
    exact reads_down (p := 6) (by omega) (reads_neg (ih (by omega)).1 hne hi)
      ⟨_, _, rfl, rfl, rfl, fun _ => rfl, fun h => by omega⟩ lvl hlvl
  | @isEmpty lvl x ts _ hlvl ih =>
    intro _
    have := ih (by omega)
    exact reads_down (p := 7) (by omega) (reads_method "isEmpty" rfl this.1 argsRead_nil) (this.2.append _) lvl hlvl
  | @infixOp lvl op tok lp rp l r tl tr hf _ _ hlvl ihl ihr =>
    intro _
    cases op <;> simp only [binForm, BinForm.infixOp.injEq, reduceCtorEq] at hf
    all_goals obtain ⟨rfl, rfl, rfl⟩ := hf
    all_goals have hL := ihl (by omega)
    all_goals have hR := ihr (by omega)
    all_goals simp only [binPrec] at hlvl
    · exact reads_down (p := 2) (by omega) (reads_and hL.1 hR.1) (hL.2.append _) lvl hlvl
    · exact reads_down (p := 1) (by omega) (reads_or hL.1 hR.1) (hL.2.append _) lvl hlvl
    · exact reads_down (p := 3) (by omega) (reads_rel .eq (opT "==") rfl rfl rfl rfl rfl hL.1 hR.1) ((hL.2.mono (by omega)).append _) lvl hlvl
    · exact reads_down (p := 3) (by omega) (reads_rel .ne (opT "!=") rfl rfl rfl rfl rfl hL.1 hR.1) ((hL.2.mono (by omega)).append _) lvl hlvl
    · exact reads_down (p := 3) (by omega) (reads_rel .lt (opT "<") rfl rfl rfl rfl rfl hL.1 hR.1) ((hL.2.mono (by omega)).append _) lvl hlvl
    · exact reads_down (p := 3) (by omega) (reads_rel .le (opT "<=") rfl rfl rfl rfl rfl hL.1 hR.1) ((hL.2.mono (by omega)).append _) lvl hlvl
    · exact reads_down (p := 3) (by omega) (reads_rel .gt (opT ">") rfl rfl rfl rfl rfl hL.1 hR.1) ((hL.2.mono (by omega)).append _) lvl hlvl
    · exact reads_down (p := 3) (by omega) (reads_rel .ge (opT ">=") rfl rfl rfl rfl rfl hL.1 hR.1) ((hL.2.mono (by omega)).append _) lvl hlvl
    · exact reads_down (p := 4) (by omega) (reads_addsub .add "+" rfl rfl hL.1 hR.1) (hL.2.append _) lvl hlvl
    · exact reads_down (p := 4) (by omega) (reads_addsub .sub "-" rfl rfl hL.1 hR.1) (hL.2.append _) lvl hlvl
    · exact reads_down (p := 5) (by omega) (reads_mul hL.1 hR.1) (hL.2.append _) lvl hlvl
    · exact reads_down (p := 3) (by omega) (reads_rel .in_ (kwT "in") rfl rfl rfl rfl rfl hL.1 hR.1) ((hL.2.mono (by omega)).append _) lvl hlvl
  | @method lvl op name l r tl tr hf _ _ hlvl ihl ihr =>
    intro _
    have hL := ihl (by omega)
    have hR := ihr (by omega)
    have hargs := argsRead_one hR.1 hR.2.noClose
    cases op <;> simp only [binForm, BinForm.method.injEq, reduceCtorEq] at hf
    all_goals subst hf
    all_goals exact reads_down (p := 7) (by omega) (reads_method _ rfl hL.1 hargs) (hL.2.append _) lvl hlvl
  | @ite c t e tc tt te _ _ _ ihc iht ihe =>
    intro _
    exact ⟨reads_ite (ihc (by omega)).1 (iht (by omega)).1 (ihe (by omega)).1,
      ⟨_, _, rfl, rfl, rfl, fun h => by omega, fun h => by omega⟩⟩
  | @accessDot lvl x ts a _ hlvl ih =>
    intro _
    have := ih (by omega)
    exact reads_down (p := 7) (by omega) (reads_accessDot a this.1) (this.2.append _) lvl hlvl
  | @accessIdx lvl x ts a _ hlvl ih =>
    intro _
    have := ih (by omega)
    exact reads_down (p := 7) (by omega) (reads_accessIdx a this.1) (this.2.append _) lvl hlvl
  | @hasId lvl x ts a _ hlvl ih =>
    intro _
    have := ih (by omega)
    exact reads_down (p := 3) (by omega) (reads_has a (idT a) (fun rest hs => parseHas_ident x a rest hs) this.1)
      ((this.2.mono (by omega)).append _) lvl hlvl
  | @hasStr lvl x ts a _ hlvl ih =>
    intro _
    have := ih (by omega)
    exact reads_down (p := 3) (by omega) (reads_has a (strT a) (fun rest _ => parseHas_string x a rest) this.1)
      ((this.2.mono (by omega)).append _) lvl hlvl
  | @like lvl x ts p pt hty hp _ hlvl ih =>
    intro _
    have := ih (by omega)
    exact reads_down (p := 3) (by omega) (reads_like p pt hty hp this.1) ((this.2.mono (by omega)).append _) lvl hlvl
  | @set lvl es ts _ ih =>
    intro hl
    exact reads_down (p := 8) (by omega) (reads_set ih) (headOK_of_tok 8 _ _ rfl rfl rfl rfl rfl) lvl hl
  | @record lvl kes ts _ hnd ih =>
    intro hl
    exact reads_down (p := 8) (by omega) (reads_record ih hnd) (headOK_of_tok 8 _ _ rfl rfl rfl rfl rfl) lvl hl
  | @callFn lvl fn as ts hf _ ih =>
    intro hl
    exact reads_down (p := 8) (by omega) (reads_callFn hf ih) (headOK_fn 8 fn hf _) lvl hl
  | @callMethod lvl fn recv as tr ta hm _ _ hlvl ihr iha =>
    intro _
    have := ihr (by omega)
    exact reads_down (p := 7) (by omega) (reads_method fn hm this.1 iha) (this.2.append _) lvl hlvl
  | argsNil => exact argsRead_nil
  | argsOne _ ih => exact argsRead_one (ih (by omega)).1 (ih (by omega)).2.noClose
  | argsCons _ _ ihx ihr => exact argsRead_cons (ihx (by omega)).1 (ihx (by omega)).2.noClose ihr
  | kvsNil => exact kvsRead_nil
  | kvsOne hk _ ih => exact kvsRead_one hk (ih (by omega)).1
  | kvsCons hk _ hne _ ihx ihr => exact kvsRead_cons hk (ihx (by omega)).1 hne ihr

end CedarGo.Text
