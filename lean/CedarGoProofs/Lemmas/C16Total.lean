/-
  C16: `resolve` as a whole never runs out of fuel, on any schema.
-/
import CedarGoProofs.Lemmas.C16Walks
namespace CedarGo.Schema

theorem fbind_ne_none' {α β} (x : Fuelled α) (f : α → Fuelled β) (hx : x ≠ none)
    (hf : ∀ a, x = some (.ok a) → f a ≠ none) : fbind x f ≠ none := by
  unfold fbind
  split
  · exact absurd rfl hx
  · simp
  · rename_i a
    exact hf a rfl

theorem resolveAttrsFuel_ne_none_of_record (r : RState) (fuel : Nat) (ns : String) (as : Attrs)
    (h : resolveTypeFuel r fuel ns (.record as) ≠ none) : resolveAttrsFuel r fuel ns as ≠ none := by
  cases fuel with
  | zero => exact absurd rfl h
  | succ f =>
    unfold resolveAttrsFuel
    simp only
    intro hn
    apply h
    show resolveTyWith r (resolveTypeFuel r f) ns (.record as) = none
    unfold resolveTyWith
    rw [hn]

section
variable (r : RState) (hcyc : detectCycles r = .ok ())
include hcyc

theorem resolveTypeFuel_total (ns : String) (t : Ty) :
    resolveTypeFuel r r.fuel ns t ≠ none := by
  obtain ⟨rank, hle, hpos, hdec⟩ := kahn_rank r hcyc
  exact resolveTypeFuel_ne_none_of_rank r rank hpos hdec r.commonTypes.length ns t (fun _ _ _ _ _ => hle _)

theorem resolveNamespace_ne_none (ns : String) (d : Namespace) (acc : RSchema) : resolveNamespace r ns d acc ≠ none := by
  unfold resolveNamespace
  apply fbind_ne_none
  · apply fmapM_ne_none
    intro e he
    apply fbind_ne_none
    · unfold resolveEntity
      apply fbind_ne_none
      · apply fmapM_ne_none
        intro p _
        simp [flift]
      · intro ps
        apply fbind_ne_none
        · cases hsh : e.2.shape with
          | none => simp
          | some as =>
            simp only
            apply resolveAttrsFuel_ne_none_of_record
            exact resolveTypeFuel_total r hcyc _ _
        · intro shape
          apply fbind_ne_none
          · cases htg : e.2.tags with
            | none => simp
            | some t =>
              simp only
              apply fbind_ne_none
              · exact resolveTypeFuel_total r hcyc _ _
              · intro _; simp
          · intro _; simp
    · intro _; simp
  · intro ents
    simp only
    apply fbind_ne_none
    · apply fmapM_ne_none
      intro a ha
      apply fbind_ne_none
      · unfold resolveAction
        simp only
        apply fbind_ne_none
        · cases hap : a.2.appliesTo with
          | none => simp
          | some ap =>
            simp only
            apply fbind_ne_none
            · apply fmapM_ne_none; intro p _; simp [flift]
            · intro _
              apply fbind_ne_none
              · apply fmapM_ne_none; intro p _; simp [flift]
              · intro _
                apply fbind_ne_none
                · cases hctx : ap.context with
                  | none => simp
                  | some t =>
                    simp only
                    apply fbind_ne_none
                    · exact resolveTypeFuel_total r hcyc _ _
                    · intro rt
                      cases rt <;> simp
                · intro _; simp
        · intro _; simp
      · intro _; simp
    · intro _; simp

theorem resolveNamespaces_ne_none : ∀ (nss : List (String × Namespace)) (acc : RSchema), resolveNamespaces r nss acc ≠ none
  | [], acc => by simp [resolveNamespaces]
  | (n, d) :: rest, acc => by
    unfold resolveNamespaces
    apply fbind_ne_none
    · exact resolveNamespace_ne_none r hcyc n d _
    · intro acc'
      exact resolveNamespaces_ne_none rest acc'

end

end CedarGo.Schema
