/-
  C16: `resolve` as a whole never runs out of fuel on schemas whose type references do not start with ':'.
-/
import CedarGoProofs.Lemmas.C16Walks
namespace CedarGo.Schema

/-- every type expression a namespace contains -/
def nsTypes (d : Namespace) : List Ty :=
  d.commonTypes.map (·.2.ty) ++
  d.entities.flatMap (fun e => (e.2.shape.map Ty.record).toList ++ e.2.tags.toList) ++
  d.actions.flatMap (fun a => match a.2.appliesTo with | some ap => ap.context.toList | none => [])

/-- no type reference of the schema starts with a colon -/
def SchemaRefsOk (s : Schema) : Prop :=
  ∀ d ∈ s.bare :: s.namespaces.map (·.2), ∀ t ∈ nsTypes d, ∀ ref ∈ collectTypeRefs t, refNoColon ref

theorem fbind_ne_none' {α β} (x : Fuelled α) (f : α → Fuelled β) (hx : x ≠ none)
    (hf : ∀ a, x = some (.ok a) → f a ≠ none) : fbind x f ≠ none := by
  unfold fbind
  split
  · exact absurd rfl hx
  · simp
  · rename_i a
    exact hf a rfl

theorem registerDecls_common (r r' : RState) (ns : String) (d : Namespace) (h : registerDecls r ns d = .ok r') :
    ∀ p ∈ r'.commonTypes, p ∈ r.commonTypes ∨ p.2 ∈ d.commonTypes.map (·.2.ty) := by
  unfold registerDecls at h
  split at h
  · cases h
  · simp only [Except.ok.injEq] at h
    subst h
    intro p hp
    simp only [List.mem_append, List.mem_map] at hp
    rcases hp with hp | ⟨c, hc, rfl⟩
    · exact Or.inl hp
    · exact Or.inr (List.mem_map.mpr ⟨c, hc, rfl⟩)

theorem foldlM_register_common : ∀ (nss : List (String × Namespace)) (r r' : RState),
    nss.foldlM (fun r (nd : String × Namespace) => registerDecls r nd.1 nd.2) r = .ok r' →
    ∀ p ∈ r'.commonTypes, p ∈ r.commonTypes ∨ ∃ nd ∈ nss, p.2 ∈ nd.2.commonTypes.map (·.2.ty)
  | [], r, r', h => by
    simp only [List.foldlM_nil, pure, Except.pure, Except.ok.injEq] at h
    subst h
    exact fun p hp => Or.inl hp
  | nd :: nss, r, r', h => by
    simp only [List.foldlM_cons, bind, Except.bind] at h
    split at h
    · cases h
    · rename_i r1 h1
      intro p hp
      rcases foldlM_register_common nss r1 r' h p hp with h2 | ⟨nd', hnd', h2⟩
      · rcases registerDecls_common r r1 nd.1 nd.2 h1 p h2 with h3 | h3
        · exact Or.inl h3
        · exact Or.inr ⟨nd, by simp, h3⟩
      · exact Or.inr ⟨nd', by simp [hnd'], h2⟩

theorem registerAll_refsOk (s : Schema) (hs : SchemaRefsOk s) (r : RState) (h : registerAll s = .ok r) : RefsOk r := by
  constructor
  intro c b hcb ref href
  have hmem := lookup_some_mem_pair c b _ hcb
  unfold registerAll at h
  simp only [bind, Except.bind] at h
  split at h
  · cases h
  · rename_i r0 h0
    have hfold : s.namespaces.foldlM (fun r (nd : String × Namespace) => registerDecls r nd.1 nd.2) r0 = .ok r := h
    rcases foldlM_register_common s.namespaces r0 r hfold (c, b) hmem with h1 | ⟨nd, hnd, h1⟩
    · rcases registerDecls_common {} r0 "" s.bare h0 (c, b) h1 with h2 | h2
      · simp at h2
      · exact hs s.bare (by simp) b (by simp only [nsTypes, List.mem_append]; exact Or.inl (Or.inl h2)) ref href
    · exact hs nd.2 (by simp; exact Or.inr ⟨nd.1, by simpa using hnd⟩) b
        (by simp only [nsTypes, List.mem_append]; exact Or.inl (Or.inl h1)) ref href

theorem resolveAttrsFuel_ne_none_of_record (r : RState) (fuel : Nat) (ns : String) (as : Attrs)
    (h : resolveTypeFuel r fuel ns (.record as) ≠ none) : resolveAttrsFuel r fuel ns as ≠ none := by
  cases fuel with
  | zero => exact absurd rfl h
  | succ f =>
    unfold resolveAttrsFuel
    simp only
    intro hn
    apply h
    show resolveTyWith r (resolveTypeFuel r f) ns (.record as) = none
    unfold resolveTyWith
    rw [hn]

section
variable (r : RState) (hok : RefsOk r) (hcyc : detectCycles r = .ok ())
include hok hcyc

theorem resolveTypeFuel_total (ns : String) (t : Ty) (ht : ∀ ref ∈ collectTypeRefs t, refNoColon ref) :
    resolveTypeFuel r r.fuel ns t ≠ none := by
  obtain ⟨rank, hle, hpos, hdec⟩ := kahn_rank r hcyc
  exact resolveTypeFuel_ne_none_of_rank r hok rank hpos hdec r.commonTypes.length ns t ht (fun _ _ _ _ _ => hle _)

theorem resolveNamespace_ne_none (ns : String) (d : Namespace) (acc : RSchema)
    (hd : ∀ t ∈ nsTypes d, ∀ ref ∈ collectTypeRefs t, refNoColon ref) : resolveNamespace r ns d acc ≠ none := by
  unfold resolveNamespace
  apply fbind_ne_none
  · apply fmapM_ne_none
    intro e he
    apply fbind_ne_none
    · unfold resolveEntity
      apply fbind_ne_none
      · apply fmapM_ne_none
        intro p _
        simp [flift]
      · intro ps
        apply fbind_ne_none
        · cases hsh : e.2.shape with
          | none => simp
          | some as =>
            simp only
            apply resolveAttrsFuel_ne_none_of_record
            apply resolveTypeFuel_total r hok hcyc
            apply hd
            simp only [nsTypes, List.mem_append, List.mem_flatMap]
            exact Or.inl (Or.inr ⟨e, he, by simp [hsh]⟩)
        · intro shape
          apply fbind_ne_none
          · cases htg : e.2.tags with
            | none => simp
            | some t =>
              simp only
              apply fbind_ne_none
              · apply resolveTypeFuel_total r hok hcyc
                apply hd
                simp only [nsTypes, List.mem_append, List.mem_flatMap]
                exact Or.inl (Or.inr ⟨e, he, by simp [htg]⟩)
              · intro _; simp
          · intro _; simp
    · intro _; simp
  · intro ents
    simp only
    apply fbind_ne_none
    · apply fmapM_ne_none
      intro a ha
      apply fbind_ne_none
      · unfold resolveAction
        simp only
        apply fbind_ne_none
        · cases hap : a.2.appliesTo with
          | none => simp
          | some ap =>
            simp only
            apply fbind_ne_none
            · apply fmapM_ne_none; intro p _; simp [flift]
            · intro _
              apply fbind_ne_none
              · apply fmapM_ne_none; intro p _; simp [flift]
              · intro _
                apply fbind_ne_none
                · cases hctx : ap.context with
                  | none => simp
                  | some t =>
                    simp only
                    apply fbind_ne_none
                    · apply resolveTypeFuel_total r hok hcyc
                      apply hd
                      simp only [nsTypes, List.mem_append, List.mem_flatMap]
                      exact Or.inr ⟨a, ha, by simp [hap, hctx]⟩
                    · intro rt
                      cases rt <;> simp
                · intro _; simp
        · intro _; simp
      · intro _; simp
    · intro _; simp

theorem resolveNamespaces_ne_none : ∀ (nss : List (String × Namespace)) (acc : RSchema),
    (∀ nd ∈ nss, ∀ t ∈ nsTypes nd.2, ∀ ref ∈ collectTypeRefs t, refNoColon ref) → resolveNamespaces r nss acc ≠ none
  | [], acc, _ => by simp [resolveNamespaces]
  | (n, d) :: rest, acc, h => by
    unfold resolveNamespaces
    apply fbind_ne_none
    · exact resolveNamespace_ne_none r hok hcyc n d _ (h (n, d) (by simp))
    · intro acc'
      exact resolveNamespaces_ne_none rest acc' (fun nd hnd => h nd (by simp [hnd]))

end

end CedarGo.Schema
