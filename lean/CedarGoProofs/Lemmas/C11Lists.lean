/-
  C11 helper lemmas, part 2: duplicate-free lists modulo a symmetric, transitive Boolean relation.
  Two such lists that cover each other have the same length and the same sum of any function that
  respects the relation; one-sided covering plus a length bound gives the other side (this is what
  makes the one-directional loop of Go's `Set.Equal` sufficient).
-/
import CedarGo.Model.SetImpl
namespace CedarGo
namespace C11

theorem sumU64_append (a b : List UInt64) : sumU64 (a ++ b) = sumU64 a + sumU64 b := by
  induction a with
  | nil => simp [sumU64]
  | cons x a ih => simp [sumU64, ih, UInt64.add_assoc]

section Rel
variable {α : Type} (R : α → α → Bool)

/-- no two members related -/
def NoDupR (xs : List α) : Prop := xs.Pairwise (fun a b => R a b = false)

/-- every member of `xs` is related to some member of `ys` -/
def Sub (xs ys : List α) : Prop := ∀ x ∈ xs, ∃ y ∈ ys, R x y = true

variable {R}
variable (symm : ∀ a b, R a b = R b a) (trans : ∀ a b c, R a b = true → R b c = true → R a c = true)
include symm trans

/-- peel the partner of the head of `xs` out of `ys` -/
theorem step {x : α} {xs ys : List α} (hx : NoDupR R (x :: xs)) (hy : NoDupR R ys) (hs : Sub R (x :: xs) ys) :
    ∃ y l1 l2, ys = l1 ++ y :: l2 ∧ R x y = true ∧ NoDupR R (l1 ++ l2) ∧ Sub R xs (l1 ++ l2) ∧
      (Sub R ys (x :: xs) → Sub R (l1 ++ l2) xs) := by
  obtain ⟨y, hyin, hxy⟩ := hs x (by simp)
  obtain ⟨l1, l2, rfl⟩ := List.append_of_mem hyin
  have hxn : ∀ x' ∈ xs, R x x' = false := (List.pairwise_cons.mp hx).1
  unfold NoDupR at hy
  rw [List.pairwise_append, List.pairwise_cons] at hy
  obtain ⟨p1, ⟨py2, p2⟩, p12⟩ := hy
  -- nothing else in ys is related to y
  have hyz : ∀ z ∈ l1 ++ l2, R y z = false := by
    intro z hz
    rcases List.mem_append.mp hz with h | h
    · rw [symm]; exact p12 z h y (by simp)
    · exact py2 z h
  have hxz : ∀ z ∈ l1 ++ l2, R x z = false := by
    intro z hz
    cases hxz : R x z with
    | false => rfl
    | true =>
      have : R y z = true := trans y x z (by rw [symm]; exact hxy) hxz
      rw [hyz z hz] at this; cases this
  refine ⟨y, l1, l2, rfl, hxy, ?_, ?_, ?_⟩
  · unfold NoDupR
    rw [List.pairwise_append]
    exact ⟨p1, p2, fun a ha b hb => p12 a ha b (by simp [hb])⟩
  · intro x' hx'
    obtain ⟨y', hy', hb⟩ := hs x' (by simp [hx'])
    refine ⟨y', ?_, hb⟩
    have : y' ∈ l1 ∨ y' = y ∨ y' ∈ l2 := by simpa using hy'
    rcases this with h | h | h
    · exact List.mem_append.mpr (Or.inl h)
    · subst h
      have : R x x' = true := trans x y' x' hxy (by rw [symm]; exact hb)
      rw [hxn x' hx'] at this; cases this
    · exact List.mem_append.mpr (Or.inr h)
  · intro hback z hz
    have hzin : z ∈ l1 ++ y :: l2 := by
      rcases List.mem_append.mp hz with h | h
      · exact List.mem_append.mpr (Or.inl h)
      · exact List.mem_append.mpr (Or.inr (by simp [h]))
    obtain ⟨x', hx', hb⟩ := hback z hzin
    rcases List.mem_cons.mp hx' with rfl | hx'
    · have := hxz z hz
      rw [symm] at this; rw [this] at hb; cases hb
    · exact ⟨x', hx', hb⟩

theorem sub_length_le : ∀ {xs ys : List α}, NoDupR R xs → NoDupR R ys → Sub R xs ys → xs.length ≤ ys.length := by
  intro xs
  induction xs with
  | nil => intros; simp
  | cons x xs ih =>
    intro ys hx hy hs
    obtain ⟨y, l1, l2, rfl, _, hn, hs', _⟩ := step symm trans hx hy hs
    have := ih (List.pairwise_cons.mp hx).2 hn hs'
    simp at this ⊢; omega

/-- one-sided covering and `|ys| ≤ |xs|` give the other side -/
theorem sub_of_sub_of_length_le : ∀ {xs ys : List α}, NoDupR R xs → NoDupR R ys → Sub R xs ys →
    ys.length ≤ xs.length → Sub R ys xs := by
  intro xs
  induction xs with
  | nil =>
    intro ys _ _ _ hl
    have : ys = [] := by cases ys <;> simp_all
    subst this; intro z hz; cases hz
  | cons x xs ih =>
    intro ys hx hy hs hl
    obtain ⟨y, l1, l2, rfl, hxy, hn, hs', _⟩ := step symm trans hx hy hs
    have hl' : (l1 ++ l2).length ≤ xs.length := by simp at hl ⊢; omega
    have hback := ih (List.pairwise_cons.mp hx).2 hn hs' hl'
    intro z hz
    have : z ∈ l1 ∨ z = y ∨ z ∈ l2 := by simpa using hz
    rcases this with h | h | h
    · obtain ⟨x', hx', hb⟩ := hback z (List.mem_append.mpr (Or.inl h))
      exact ⟨x', by simp [hx'], hb⟩
    · subst h; exact ⟨x, by simp, by rw [symm]; exact hxy⟩
    · obtain ⟨x', hx', hb⟩ := hback z (List.mem_append.mpr (Or.inr h))
      exact ⟨x', by simp [hx'], hb⟩

/-- mutual covering: equal sums of every function respecting the relation across the two lists -/
theorem sum_eq_of_sub_sub (f : α → UInt64) : ∀ {xs ys : List α}, NoDupR R xs → NoDupR R ys → Sub R xs ys → Sub R ys xs →
    (∀ x ∈ xs, ∀ y ∈ ys, R x y = true → f x = f y) → sumU64 (xs.map f) = sumU64 (ys.map f) := by
  intro xs
  induction xs with
  | nil =>
    intro ys _ _ _ hb _
    have : ys = [] := by
      cases ys with
      | nil => rfl
      | cons y ys => obtain ⟨x, hx, _⟩ := hb y (by simp); cases hx
    subst this; rfl
  | cons x xs ih =>
    intro ys hx hy hs hb hf
    obtain ⟨y, l1, l2, rfl, hxy, hn, hs', hb'⟩ := step symm trans hx hy hs
    have hrec := ih (List.pairwise_cons.mp hx).2 hn hs' (hb' hb)
      (fun a ha b hb => hf a (by simp [ha]) b (by
        rcases List.mem_append.mp hb with h | h
        · exact List.mem_append.mpr (Or.inl h)
        · exact List.mem_append.mpr (Or.inr (by simp [h]))))
    have hfy : f x = f y := hf x (by simp) y (by simp) hxy
    simp only [List.map_cons, List.map_append, sumU64, sumU64_append] at hrec ⊢
    rw [hrec, hfy]
    rw [← UInt64.add_assoc, UInt64.add_comm (f y), UInt64.add_assoc]

theorem length_eq_of_sub_sub {xs ys : List α} (hx : NoDupR R xs) (hy : NoDupR R ys) (h1 : Sub R xs ys) (h2 : Sub R ys xs) :
    xs.length = ys.length :=
  Nat.le_antisymm (sub_length_le symm trans hx hy h1) (sub_length_le symm trans hy hx h2)

end Rel

/-- a duplicate-free list contained in another is no longer (pigeonhole) -/
theorem nodup_subset_length {α : Type} [DecidableEq α] : ∀ (l₁ l₂ : List α), l₁.Nodup → (∀ a ∈ l₁, a ∈ l₂) → l₁.length ≤ l₂.length := by
  intro l₁
  induction l₁ with
  | nil => intros; simp
  | cons a l₁ ih =>
    intro l₂ hn hs
    have ha : a ∈ l₂ := hs a (by simp)
    have hn' := List.nodup_cons.mp hn
    have := ih (l₂.erase a) hn'.2 (fun b hb => by
      have hne : b ≠ a := fun h => hn'.1 (h ▸ hb)
      exact (List.mem_erase_of_ne hne).mpr (hs b (by simp [hb])))
    rw [List.length_erase_of_mem ha] at this
    have : 0 < l₂.length := List.length_pos_of_mem ha
    simp; omega

end C11
end CedarGo
