/-
  C06, policy level: `partialConds` / `partialScope` / `partialPolicy` are sound when no ignore marker is met (`partialDomain`).
-/
import CedarGoProofs.Lemmas.C06
set_option linter.unusedSimpArgs false
set_option linter.unusedVariables false
namespace CedarGo

/-- the boolean expression is satisfied -/
def sat (e : Expr) (env : Env) : Bool :=
  match evalBool e env with
  | .ok true => true
  | _ => false

theorem sat_and (l r : Expr) (env : Env) : sat (.binop .and l r) env = (sat l env && sat r env) := by
  simp only [sat, evalBool, eval_binop]
  cases hl : eval l env with
  | error k => simp [binSem, bind, Except.bind]
  | ok v =>
    cases v <;> simp [binSem, bind, Except.bind, toBool]
    rename_i b
    cases b <;> simp [toBool]
    cases hr : eval r env with
    | error k => simp
    | ok w => cases w <;> simp [toBool]

theorem sat_andAll (env : Env) : ∀ (rest : List Expr) (e : Expr), sat (andAll e rest) env = (e :: rest).all (sat · env)
  | [], e => by simp [andAll]
  | e' :: rest, e => by
    simp only [andAll, sat_and, sat_andAll env rest e', List.all_cons]

theorem sat_of_R {a b : Expr} {env : Env} (h : R (eval a env) (eval b env)) : sat a env = sat b env := by
  simp only [sat, evalBool]
  cases ha : eval a env with
  | error k => rw [ha] at h; obtain ⟨k', hk'⟩ := R.err_left h; rw [hk']; rfl
  | ok v => rw [ha] at h; rw [R.ok_left h]

theorem sat_lit_true (env : Env) : sat (.lit (.bool true)) env = true := by rfl

theorem sat_of_err {e : Expr} {env : Env} (h : ∃ k, eval e env = .error k) : sat e env = false := by
  obtain ⟨k, hk⟩ := h
  simp [sat, evalBool, hk, Except.bind]

theorem sat_not_of_err {e : Expr} {env : Env} (h : ∃ k, eval e env = .error k) : sat (.unop .not e) env = false := by
  obtain ⟨k, hk⟩ := h
  simp [sat, evalBool, eval_unop, hk, unSem_err, Except.bind]

/-- `condToExpr` of a condition whose body evaluates to `v` -/
theorem sat_cond_of_val {w : Bool} {body : Expr} {env : Env} {v : Value} (h : eval body env = .ok v) :
    sat (condToExpr (w, body)) env = (match v with | .bool b => b == w | _ => false) := by
  cases w
  · have hc : condToExpr (false, body) = .unop .not body := rfl
    simp only [hc, sat, evalBool, eval_unop, h]
    cases v <;> simp [unSem, toBool, Except.bind, bind]
    rename_i b; cases b <;> simp
  · have hc : condToExpr (true, body) = body := rfl
    simp only [hc, sat, evalBool, h]
    cases v <;> simp [toBool, Except.bind, bind]
    rename_i b; cases b <;> simp

theorem sat_cond_of_err {w : Bool} {body : Expr} {env : Env} (h : ∃ k, eval body env = .error k) :
    sat (condToExpr (w, body)) env = false := by
  cases w
  · exact sat_not_of_err h
  · exact sat_of_err h

theorem sat_cond_of_R {w : Bool} {a b : Expr} {env : Env} (h : R (eval a env) (eval b env)) :
    sat (condToExpr (w, a)) env = sat (condToExpr (w, b)) env := by
  cases w
  · show sat (.unop .not a) env = sat (.unop .not b) env
    apply sat_of_R
    rw [eval_unop, eval_unop]; exact unSem_congr .not h
  · exact sat_of_R h

def satConds (cs : List (Bool × Expr)) (env : Env) : Bool := cs.all fun c => sat (condToExpr c) env

theorem condStep_nonlit (effect : Effect) (w : Bool) (body body' : Expr) (rest : Option (List (Bool × Expr)))
    (h : body'.isLit = false) : condStep effect w body (.ok body') rest = rest.map ((w, body') :: ·) := by
  cases body' <;> simp_all [condStep, Expr.isLit]

/-- what the condition loop promises: the residual conditions are satisfied exactly when the original ones are;
    a dropped policy is never satisfied -/
def CondsAgree (env : Env) (conds : List (Bool × Expr)) : Option (List (Bool × Expr)) → Prop
  | some cs => satConds cs env = satConds conds env
  | none => satConds conds env = false

/-- prepending a condition that agrees with the original one -/
theorem cons_agree {env : Env} {c c' : Bool × Expr} {conds : List (Bool × Expr)} {rest : Option (List (Bool × Expr))}
    (hc : sat (condToExpr c') env = sat (condToExpr c) env) (ih : CondsAgree env conds rest) :
    CondsAgree env (c :: conds) (rest.map (c' :: ·)) := by
  cases rest with
  | none => simp only [Option.map, CondsAgree, satConds, List.all_cons] at ih ⊢; simp [ih]
  | some cs => simp only [Option.map, CondsAgree, satConds, List.all_cons] at ih ⊢; rw [ih, hc]

/-- dropping a condition that is satisfied under every completion -/
theorem drop_true {env : Env} {c : Bool × Expr} {conds : List (Bool × Expr)} {rest : Option (List (Bool × Expr))}
    (hc : sat (condToExpr c) env = true) (ih : CondsAgree env conds rest) :
    CondsAgree env (c :: conds) rest := by
  cases rest with
  | none => simp only [CondsAgree, satConds, List.all_cons] at ih ⊢; simp [ih]
  | some cs => simp only [CondsAgree, satConds, List.all_cons] at ih ⊢; simp [ih, hc]

/-- a condition whose partial evaluation folded to a literal: how the original condition is satisfied -/
theorem sat_cond_of_lit {γ : Value → Value} [Completion γ] {env : Env} {w : Bool} {body : Expr} {v : Value}
    (hs : Sound γ env body (.ok (.lit v))) :
    sat (condToExpr (w, body)) env = (match v with | .bool b => b == w | _ => false) := by
  cases v with
  | bool b => exact sat_cond_of_val (lit_bool_eval hs)
  | _ =>
    obtain ⟨v', hev, hnb⟩ := lit_nonbool_eval hs (by intro b hb; cases hb)
    rw [sat_cond_of_val hev]
    cases v' <;> first | exact absurd rfl (hnb _) | rfl

/-- the condition loop of `PartialPolicy` when no condition reports `errIgnore` -/
theorem partialConds_sound {γ : Value → Value} [Completion γ] {envH env : Env} (C : CompletesVia γ envH env) (effect : Effect) :
    ∀ conds : List (Bool × Expr),
      (conds.all fun c => (partialE envH c.2).notIgn && c.2.recKeysDistinct) = true →
      CondsAgree env conds (partialConds envH effect conds)
  | [], _ => by simp [partialConds, CondsAgree]
  | (w, body) :: rest, h => by
    simp only [List.all_cons, Bool.and_eq_true] at h
    obtain ⟨⟨hni, hkd⟩, hrest⟩ := h
    have ih := partialConds_sound C effect rest (by simpa only [Bool.and_eq_true] using hrest)
    have hs := partialE_sound C body hkd
    simp only [partialConds]
    cases hp : partialE envH body with
    | var s => exact cons_agree rfl ih
    | ign => rw [hp] at hni; simp [PR.notIgn] at hni
    | err k =>
      rw [hp] at hs
      simp only [condStep, CondsAgree, satConds, List.all_cons, List.all_nil, Bool.and_true]
      rw [sat_cond_of_err hs, sat_cond_of_err ⟨_, eval_extError _⟩]; simp
    | ok body' =>
      rw [hp] at hs
      cases hl : body'.isLit
      · rw [condStep_nonlit _ _ _ _ _ hl]
        exact cons_agree (sat_cond_of_R ((Sound.ok_nonlit hl).mp hs)) ih
      · obtain ⟨v, rfl⟩ := isLit_iff.mp hl
        have hsat := sat_cond_of_lit (w := w) hs
        cases v with
        | bool b =>
          simp only [condStep]
          by_cases hbw : (b != w) = true
          · simp only [hbw, if_true]
            have : (b == w) = false := by cases b <;> cases w <;> simp_all
            simp [CondsAgree, satConds, List.all_cons, hsat, this]
          · have hbw' : (b != w) = false := by simpa using hbw
            simp only [hbw', Bool.false_eq_true, if_false]
            have : (b == w) = true := by cases b <;> cases w <;> simp_all
            exact drop_true (by rw [hsat]; exact this) ih
        | _ =>
          simp only [condStep, CondsAgree, satConds, List.all_cons, List.all_nil, Bool.and_true, hsat]
          rw [sat_cond_of_err ⟨_, eval_extError _⟩]; simp

/-! ## scopes -/

theorem beq_uidVal (a b : UID) : (uidVal a).beq (uidVal b) = (a == b) := by
  obtain ⟨a1, a2⟩ := a; obtain ⟨b1, b2⟩ := b
  simp only [uidVal, Value.beq]
  rfl

theorem memL_uidVal (u : UID) (acc : List UID) : Value.memL (uidVal u) (acc.map uidVal) = acc.contains u := by
  induction acc with
  | nil => rfl
  | cons a acc ih =>
    simp only [Value.memL, List.map_cons, List.any_cons, List.contains_cons] at ih ⊢
    rw [ih, beq_uidVal, BEq.comm]

/-- `types.NewSet` of entity values: a list of entity values with the same members -/
theorem dedupV_uids : ∀ (us accU : List UID),
    ∃ r : List UID, dedupV (accU.map uidVal) (us.map uidVal) = r.map uidVal ∧
      ∀ x, r.contains x = (accU.contains x || us.contains x)
  | [], accU => ⟨accU.reverse, by simp [dedupV], by simp⟩
  | u :: us, accU => by
    simp only [List.map_cons, dedupV, memL_uidVal]
    cases h : accU.contains u
    · obtain ⟨r, h1, h2⟩ := dedupV_uids us (u :: accU)
      refine ⟨r, by simpa using h1, ?_⟩
      intro x
      rw [h2]
      simp only [List.contains_cons]
      cases hxu : x == u <;> simp [Bool.or_comm]
    · obtain ⟨r, h1, h2⟩ := dedupV_uids us accU
      refine ⟨r, by simpa using h1, ?_⟩
      intro x
      rw [h2]
      simp only [List.contains_cons]
      cases hxu : x == u
      · simp
      · have : x = u := by simpa using hxu
        subst this
        rw [h]; simp

theorem mapM_toEntity_uidVal : ∀ r : List UID, (r.map uidVal).mapM toEntity = .ok r
  | [] => rfl
  | u :: r => by
    simp only [List.map_cons, List.mapM_cons, mapM_toEntity_uidVal r]
    rfl

theorem entityInSet_congr (es : Entities) (u : UID) (ps ps' : List UID) (h : ∀ x, ps.contains x = ps'.contains x) :
    entityInSet es u ps = entityInSet es u ps' := by
  unfold entityInSet entityInSetFuel
  have : (fun qs : List UID => qs.any fun p => ps.contains p) = (fun qs : List UID => qs.any fun p => ps'.contains p) := by
    funext qs; congr; funext p; exact h p
  rw [h u, this]

def doInRes : Option Bool → Res
  | some b => .ok (.bool b)
  | none => .error .panic

theorem doIn_mkSet_uids (env : Env) (u : UID) (us : List UID) :
    doIn env u (mkSet (us.map uidVal)) = doInRes (entityInSet env.entities u us) := by
  obtain ⟨r, h1, h2⟩ := dedupV_uids us []
  have h1' : dedupV [] (us.map uidVal) = r.map uidVal := by simpa using h1
  simp only [mkSet, doIn, h1', mapM_toEntity_uidVal]
  rw [entityInSet_congr env.entities u r us (by intro x; simpa using h2 x)]
  cases entityInSet env.entities u us <;> rfl

theorem doIn_uid (env : Env) (u e : UID) : doIn env u (uidVal e) = doInRes (entityInOne env.entities u e) := by
  simp only [uidVal, doIn]
  cases entityInOne env.entities u (e.1, e.2) <;> rfl

theorem sat_doInRes (o : Option Bool) :
    (match (doInRes o).bind toBool with | .ok true => true | _ => false) = (o == some true) := by
  cases o with
  | none => rfl
  | some b => cases b <;> rfl

theorem sat_scope_entity (env : Env) (v : Var) (ty id : String) (hv : eval (.var v) env = .ok (.entity ty id)) (s : Scope) :
    sat (scopeToExpr v s) env = scopeBool env ty id s := by
  cases s with
  | all => rfl
  | eq e =>
    simp only [scopeToExpr, sat, evalBool, eval_binop, hv, eval, binSem, bind, Except.bind, scopeBool]
    have : (Value.entity ty id).beq (uidVal e) = ((ty, id) == e) := beq_uidVal (ty, id) e
    rw [this]
    cases ((ty, id) == e) <;> rfl
  | in_ e =>
    simp only [scopeToExpr, sat, evalBool, eval_binop, hv, eval, binSem, bind, Except.bind, scopeBool, toEntity, doIn_uid]
    exact sat_doInRes _
  | inSet es =>
    simp only [scopeToExpr, sat, evalBool, eval_binop, hv, eval, binSem, bind, Except.bind, scopeBool, toEntity,
      doIn_mkSet_uids]
    exact sat_doInRes _
  | is t =>
    simp only [scopeToExpr, sat, evalBool, eval_is, hv, isSem, bind, Except.bind, scopeBool, toEntity, toBool]
    cases ty == t <;> rfl
  | isIn t e =>
    simp only [scopeToExpr, sat, evalBool, eval_isIn, hv, eval, isInSem, bind, Except.bind, scopeBool, toEntity, doIn_uid]
    cases ht : ty == t
    · simp [bne, ht, toBool]
    · simp only [bne, ht, Bool.not_true, Bool.false_eq_true, if_false, Bool.true_and]
      exact sat_doInRes _

theorem eval_var_complete (σ : String → Value) (envH : Env) (v : Var) :
    eval (.var v) (completeEnv σ envH) = .ok ((envPart v envH).substAll σ) := by
  cases v <;> rfl

/-- what scope resolution promises -/
def ScopeAgree (env : Env) (v : Var) (s : Scope) : Option Scope → Prop
  | some s' => sat (scopeToExpr v s') env = sat (scopeToExpr v s) env
  | none => sat (scopeToExpr v s) env = false

theorem partialScope_sound (γ : Value → Value) [Completion γ] (envH env : Env) (hentEq : envH.entities = env.entities)
    (v : Var) (s : Scope)
    (hni : (envPart v envH).isIgnore = false)
    (hpart : eval (.var v) env = .ok (γ (envPart v envH))) :
    ScopeAgree env v s (partialScope envH (envPart v envH) s) := by
  unfold partialScope scopeEval
  cases hvar : (envPart v envH).isVariable
  · simp only [Bool.false_eq_true, if_false, hni]
    cases hent : envPart v envH with
    | entity ty id =>
      have hev : eval (.var v) env = .ok (.entity ty id) := by
        rw [hpart, hent, Completion.entity (γ := γ) ty id (by rw [← hent]; exact hvar)]
      have hb := sat_scope_entity env v ty id hev s
      have hsb : scopeBool envH ty id s = scopeBool env ty id s := by cases s <;> simp only [scopeBool, hentEq]
      simp only [hsb]
      cases hsv : scopeBool env ty id s
      · simp only [ScopeAgree]; rw [hb, hsv]
      · simp only [ScopeAgree]; rw [hb, hsv]; rfl
    | _ => simp [ScopeAgree]
  · simp [ScopeAgree]

/-! ## whole policies -/

theorem sat_scope_all (env : Env) (v : Var) (s : Scope) (h : s.isAll = true) : sat (scopeToExpr v s) env = true := by
  cases s <;> simp [Scope.isAll] at h
  rfl

/-- a policy is satisfied exactly when its three scope clauses and all its conditions are -/
theorem satisfied_eq (p : Policy) (env : Env) :
    satisfied p env =
      (sat (scopeToExpr .principal p.principal) env && sat (scopeToExpr .action p.action) env &&
        sat (scopeToExpr .resource p.resource) env && satConds p.conditions env) := by
  have hsat : satisfied p env = sat (policyToExpr p) env := rfl
  rw [hsat]
  have key : ∀ l : List Expr, l = ((if p.principal.isAll && p.action.isAll && p.resource.isAll then [.lit (.bool true)]
      else (if p.principal.isAll then [] else [scopeToExpr .principal p.principal])
        ++ (if p.action.isAll then [] else [scopeToExpr .action p.action])
        ++ (if p.resource.isAll then [] else [scopeToExpr .resource p.resource])) ++ p.conditions.map condToExpr) →
      sat (policyToExpr p) env = l.all (sat · env) := by
    intro l hl
    unfold policyToExpr
    simp only []
    rw [← hl]
    cases l with
    | nil => rfl
    | cons e rest => exact sat_andAll env rest e
  rw [key _ rfl]
  simp only [List.all_append, List.all_map, satConds]
  have hc : (p.conditions.all ((fun x => sat x env) ∘ condToExpr)) = p.conditions.all (fun c => sat (condToExpr c) env) := rfl
  rw [hc]
  cases hp : p.principal.isAll <;> cases ha : p.action.isAll <;> cases hr : p.resource.isAll <;>
    simp [sat_scope_all, hp, ha, hr, sat_lit_true, Bool.and_assoc]

/-- the general form: `env` is any environment with the same store whose request parts are the completed parts of `envH` -/
theorem partialPolicy_sound_gen (γ : Value → Value) [Completion γ] (envH env : Env) (hent : envH.entities = env.entities)
    (hparts : ∀ x, eval (.var x) env = .ok (γ (envPart x envH))) (p : Policy) (hd : partialDomain envH p = true) :
    match partialPolicy envH p with
    | some r => satisfied r env = satisfied p env
    | none => satisfied p env = false := by
  simp only [partialDomain, Bool.and_eq_true, Bool.not_eq_true'] at hd
  obtain ⟨⟨⟨hp, ha⟩, hr⟩, hc⟩ := hd
  have h1 := partialScope_sound γ envH env hent .principal p.principal hp (hparts _)
  have h2 := partialScope_sound γ envH env hent .action p.action ha (hparts _)
  have h3 := partialScope_sound γ envH env hent .resource p.resource hr (hparts _)
  have h4 := partialConds_sound (completesVia_of_parts hent hparts) p.effect p.conditions hc
  simp only [envPart] at h1 h2 h3
  unfold partialPolicy
  cases hs1 : partialScope envH envH.principal p.principal with
  | none => rw [hs1] at h1; simp only [ScopeAgree] at h1; simp [satisfied_eq, h1]
  | some ps =>
    rw [hs1] at h1
    cases hs2 : partialScope envH envH.action p.action with
    | none => rw [hs2] at h2; simp only [ScopeAgree] at h2; simp [satisfied_eq, h2]
    | some acs =>
      rw [hs2] at h2
      cases hs3 : partialScope envH envH.resource p.resource with
      | none => rw [hs3] at h3; simp only [ScopeAgree] at h3; simp [satisfied_eq, h3]
      | some rs =>
        rw [hs3] at h3
        cases hs4 : partialConds envH p.effect p.conditions with
        | none => rw [hs4] at h4; simp only [CondsAgree] at h4; simp [satisfied_eq, h4]
        | some cs =>
          rw [hs4] at h4
          simp only [ScopeAgree] at h1 h2 h3
          simp only [CondsAgree] at h4
          simp only [satisfied_eq, h1, h2, h3, h4]

theorem partialPolicy_sound (σ : String → Value) (envH : Env) (p : Policy) (hd : partialDomain envH p = true) :
    match partialPolicy envH p with
    | some r => satisfied r (completeEnv σ envH) = satisfied p (completeEnv σ envH)
    | none => satisfied p (completeEnv σ envH) = false :=
  partialPolicy_sound_gen (Value.substAll σ) envH (completeEnv σ envH) rfl (eval_var_complete σ envH) p hd

/-! ## ignored parts: permit policies only widen -/

def CondsWiden (env : Env) (conds : List (Bool × Expr)) : Option (List (Bool × Expr)) → Prop
  | some cs => satConds conds env = true → satConds cs env = true
  | none => satConds conds env = false

theorem CondsWiden.of_agree {env : Env} {conds : List (Bool × Expr)} {o : Option (List (Bool × Expr))}
    (h : CondsAgree env conds o) : CondsWiden env conds o := by
  cases o with
  | none => exact h
  | some cs => intro hs; simp only [CondsAgree] at h; rw [h]; exact hs

theorem cons_widen {env : Env} {c c' : Bool × Expr} {conds : List (Bool × Expr)} {rest : Option (List (Bool × Expr))}
    (hc : sat (condToExpr c) env = true → sat (condToExpr c') env = true) (ih : CondsWiden env conds rest) :
    CondsWiden env (c :: conds) (rest.map (c' :: ·)) := by
  cases rest with
  | none => simp only [Option.map, CondsWiden, satConds, List.all_cons] at ih ⊢; simp [ih]
  | some cs =>
    simp only [Option.map, CondsWiden, satConds, List.all_cons, Bool.and_eq_true] at ih ⊢
    intro h; exact ⟨hc h.1, ih h.2⟩

/-- dropping a condition can only widen -/
theorem drop_widen {env : Env} {c : Bool × Expr} {conds : List (Bool × Expr)} {rest : Option (List (Bool × Expr))}
    (ih : CondsWiden env conds rest) : CondsWiden env (c :: conds) rest := by
  cases rest with
  | none => simp only [CondsWiden, satConds, List.all_cons] at ih ⊢; simp [ih]
  | some cs =>
    simp only [CondsWiden, satConds, List.all_cons, Bool.and_eq_true] at ih ⊢
    intro h; exact ih h.2

theorem partialConds_widen {γ : Value → Value} [Completion γ] {envH env : Env} (C : CompletesVia γ envH env) :
    ∀ conds : List (Bool × Expr), (conds.all fun c => c.2.recKeysDistinct) = true →
      CondsWiden env conds (partialConds envH .permit conds)
  | [], _ => by simp [partialConds, CondsWiden]
  | (w, body) :: rest, hkd => by
    simp only [List.all_cons, Bool.and_eq_true] at hkd
    have ih := partialConds_widen C rest hkd.2
    have hs := partialE_sound C body hkd.1
    simp only [partialConds]
    cases hp : partialE envH body with
    | var s => exact cons_widen id ih
    | ign => simp only [condStep]; exact drop_widen ih
    | err k =>
      rw [hp] at hs
      simp only [condStep, CondsWiden, satConds, List.all_cons, List.all_nil, Bool.and_true]
      rw [sat_cond_of_err hs]; simp
    | ok body' =>
      rw [hp] at hs
      cases hl : body'.isLit
      · rw [condStep_nonlit _ _ _ _ _ hl]
        exact cons_widen (by rw [sat_cond_of_R ((Sound.ok_nonlit hl).mp hs)]; exact id) ih
      · obtain ⟨v, rfl⟩ := isLit_iff.mp hl
        have hsat := sat_cond_of_lit (w := w) hs
        cases v with
        | bool b =>
          simp only [condStep]
          by_cases hbw : (b != w) = true
          · simp only [hbw, if_true]
            have : (b == w) = false := by cases b <;> cases w <;> simp_all
            simp [CondsWiden, satConds, List.all_cons, hsat, this]
          · have hbw' : (b != w) = false := by simpa using hbw
            simp only [hbw', Bool.false_eq_true, if_false]
            exact drop_widen ih
        | _ =>
          simp only [condStep, CondsWiden, satConds, List.all_cons, List.all_nil, Bool.and_true, hsat]
          simp

def ScopeWiden (env : Env) (v : Var) (s : Scope) : Option Scope → Prop
  | some s' => sat (scopeToExpr v s) env = true → sat (scopeToExpr v s') env = true
  | none => sat (scopeToExpr v s) env = false

theorem eval_var_completeI (σ : String → Value) (ι : Var → Value) (envH : Env) (v : Var)
    (h : (envPart v envH).isIgnore = false) :
    eval (.var v) (completeEnvI σ ι envH) = .ok ((envPart v envH).substAll σ) := by
  cases v <;> simp only [envPart] at h <;> simp [eval, completeEnvI, envPart, h]

theorem partialScope_widen (σ : String → Value) (ι : Var → Value) (envH : Env) (v : Var) (s : Scope) :
    ScopeWiden (completeEnvI σ ι envH) v s (partialScope envH (envPart v envH) s) := by
  cases hi : (envPart v envH).isIgnore
  · have := partialScope_sound (Value.substAll σ) envH (completeEnvI σ ι envH) rfl v s hi (eval_var_completeI σ ι envH v hi)
    cases hps : partialScope envH (envPart v envH) s with
    | none => rw [hps] at this; exact this
    | some s' => rw [hps] at this; simp only [ScopeAgree] at this; simp only [ScopeWiden]; rw [this]; exact id
  · -- an ignored part: the clause matches anything
    have hv : (envPart v envH).isVariable = false := by
      cases hp : envPart v envH with
      | entity ty id =>
        rw [hp] at hi
        simp only [Value.isIgnore, beq_iff_eq] at hi
        simp only [Value.isVariable, hi]
        decide +kernel
      | _ => rfl
    simp only [partialScope, scopeEval, hv, hi, Bool.false_eq_true, if_false, if_true, ScopeWiden]
    intro _; rfl

theorem partialPolicy_widen (σ : String → Value) (ι : Var → Value) (envH : Env) (p : Policy)
    (hkd : p.recKeysDistinct = true) (hperm : p.effect = .permit)
    (hsat : satisfied p (completeEnvI σ ι envH) = true) :
    ∃ r, partialPolicy envH p = some r ∧ satisfied r (completeEnvI σ ι envH) = true := by
  have h1 := partialScope_widen σ ι envH .principal p.principal
  have h2 := partialScope_widen σ ι envH .action p.action
  have h3 := partialScope_widen σ ι envH .resource p.resource
  have h4 := partialConds_widen (completesVia_ignore σ ι envH) p.conditions hkd
  simp only [envPart] at h1 h2 h3
  rw [satisfied_eq] at hsat
  simp only [Bool.and_eq_true] at hsat
  obtain ⟨⟨⟨s1, s2⟩, s3⟩, s4⟩ := hsat
  unfold partialPolicy
  cases hs1 : partialScope envH envH.principal p.principal with
  | none => rw [hs1] at h1; simp only [ScopeWiden] at h1; rw [h1] at s1; cases s1
  | some ps =>
    rw [hs1] at h1
    cases hs2 : partialScope envH envH.action p.action with
    | none => rw [hs2] at h2; simp only [ScopeWiden] at h2; rw [h2] at s2; cases s2
    | some acs =>
      rw [hs2] at h2
      cases hs3 : partialScope envH envH.resource p.resource with
      | none => rw [hs3] at h3; simp only [ScopeWiden] at h3; rw [h3] at s3; cases s3
      | some rs =>
        rw [hs3] at h3
        rw [hperm]
        cases hs4 : partialConds envH .permit p.conditions with
        | none => rw [hs4] at h4; simp only [CondsWiden] at h4; rw [h4] at s4; cases s4
        | some cs =>
          rw [hs4] at h4
          refine ⟨_, rfl, ?_⟩
          simp only [ScopeWiden] at h1 h2 h3
          simp only [CondsWiden] at h4
          simp only [satisfied_eq, h1 s1, h2 s2, h3 s3, h4 s4, Bool.and_self]

end CedarGo
