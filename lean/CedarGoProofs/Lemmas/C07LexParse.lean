/-
  C07 ∘ C18 bridge, part 11: parsing tokens WITH positions whose position-erased form is a rendering that the
  C07 round-trip theorems cover: the same policy, positioned at its first token.
-/
import CedarGoProofs.Lemmas.C07LexStrip
import CedarGoProofs.Lemmas.C07Head
namespace CedarGo.Text
open CedarGo

/-- a policy with its position reset to the default (what the printers' tokens, which carry no position, give) -/
def resetPos (p : Policy) : Policy := { p with position := {} }

def mapPols : Option (Except PErr (List Policy)) → Option (Except PErr (List Policy))
  | none => none
  | some (.error e) => some (.error e)
  | some (.ok ps) => some (.ok (ps.map resetPos))

theorem policiesLoop_SP (m : Nat) : ∀ (n : Nat) (ts : List Token), policiesLoop m n (SP ts) = mapPols (policiesLoop m n ts)
  | 0, _ => rfl
  | n + 1, ts => by
    simp only [policiesLoop, peek_SP, stripPos_ty, policy_SP]
    split
    · rfl
    · cases hp : policy m ts with
      | none => rfl
      | some x =>
        cases x with
        | error e => rfl
        | ok v =>
          obtain ⟨q, r⟩ := v
          simp only [mapPol, bindP]
          rw [policiesLoop_SP m n r]
          cases hl : policiesLoop m n r with
          | none => rfl
          | some y => cases y <;> rfl

theorem parsePolicies_SP (ts : List Token) : parsePolicies (SP ts) = mapPols (parsePolicies ts) := by
  simp only [parsePolicies, parseFuel, List.length_map]
  exact policiesLoop_SP _ _ _

theorem policy_position {n : Nat} {ts : List Token} {q : Policy} {r : List Token} (h : policy n ts = some (.ok (q, r))) :
    q.position = posOfC07 (peek ts) := by
  simp only [policy] at h
  cases h1 : policyHead ts with
  | error e => simp [h1, bindP] at h
  | ok hd =>
    simp only [h1, bindP] at h
    cases h2 : conditions n n hd.2 with
    | none => simp [h2] at h
    | some x =>
      cases x with
      | error e => simp [h2] at h
      | ok cs =>
        simp only [h2] at h
        cases h3 : exact ";" cs.2 with
        | error e => simp [h3] at h
        | ok ts15 =>
          simp only [h3, okP, Option.some.injEq, Except.ok.injEq, Prod.mk.injEq] at h
          rw [← h.1]

theorem policiesLoop_head_position {m n : Nat} {ts : List Token} {q : Policy} {qs : List Policy}
    (h : policiesLoop m n ts = some (.ok (q :: qs))) : q.position = posOfC07 (peek ts) := by
  cases n with
  | zero => simp [policiesLoop] at h
  | succ n =>
    simp only [policiesLoop] at h
    split at h
    · simp [okP] at h
    · cases hp : policy m ts with
      | none => simp [hp, bindP] at h
      | some x =>
        cases x with
        | error e => simp [hp, bindP] at h
        | ok v =>
          obtain ⟨q', r⟩ := v
          simp only [hp, bindP] at h
          cases hl : policiesLoop m n r with
          | none => simp [hl] at h
          | some y =>
            cases y with
            | error e => simp [hl] at h
            | ok ps =>
              simp only [hl, okP, Option.some.injEq, Except.ok.injEq, List.cons.injEq] at h
              rw [← h.1]
              exact policy_position hp

theorem resetPos_eq {q p : Policy} (h : resetPos q = p) : q = { p with position := q.position } := by
  cases q; cases p; simp_all [resetPos]

/-- tokens with positions whose position-erased form parses to `[p]` parse to `p` positioned at the first token -/
theorem parsePolicies_of_stripped {p : Policy} {toks : List Token} (h1 : parsePolicies (SP toks) = some (.ok [p])) :
    parsePolicies toks = some (.ok [{ p with position := posOfC07 (peek toks) }]) := by
  rw [parsePolicies_SP] at h1
  cases hp : parsePolicies toks with
  | none => simp [hp, mapPols] at h1
  | some x =>
    cases x with
    | error e => simp [hp, mapPols] at h1
    | ok qs =>
      simp only [hp, mapPols, Option.some.injEq, Except.ok.injEq] at h1
      match qs, h1, hp with
      | [q], h1, hp =>
        simp only [List.map_cons, List.map_nil, List.cons.injEq, and_true] at h1
        have hpos := policiesLoop_head_position hp
        rw [resetPos_eq h1, hpos]
      | [], h1, _ => simp at h1
      | _ :: _ :: _, h1, _ => simp at h1

/-- lists: the policies are recovered up to their positions, and the first one sits at the first token -/
theorem parsePolicies_of_stripped_list {ps : List Policy} {toks : List Token} (h1 : parsePolicies (SP toks) = some (.ok ps)) :
    ∃ qs, parsePolicies toks = some (.ok qs) ∧ qs.map resetPos = ps ∧ ∀ q ∈ qs.head?, q.position = posOfC07 (peek toks) := by
  rw [parsePolicies_SP] at h1
  cases hp : parsePolicies toks with
  | none => simp [hp, mapPols] at h1
  | some x =>
    cases x with
    | error e => simp [hp, mapPols] at h1
    | ok qs =>
      simp only [hp, mapPols, Option.some.injEq, Except.ok.injEq] at h1
      refine ⟨qs, rfl, h1, ?_⟩
      intro q hq
      cases qs with
      | nil => simp at hq
      | cons q' qs' =>
        simp only [List.head?_cons, Option.mem_def, Option.some.injEq] at hq
        subst hq
        exact policiesLoop_head_position hp

/-- the printers' tokens carry no position: what the round-trip theorems of C07 say about them transfers to their
    position-erased form -/
theorem parsePolicies_SP_of_default {ps : List Policy} {T : List Token} (h : parsePolicies T = some (.ok ps))
    (hpos : ∀ p ∈ ps, p.position = {}) : parsePolicies (SP T) = some (.ok ps) := by
  rw [parsePolicies_SP, h]
  simp only [mapPols, Option.some.injEq, Except.ok.injEq]
  have : ∀ l : List Policy, (∀ p ∈ l, p.position = {}) → l.map resetPos = l := by
    intro l
    induction l with
    | nil => intro _; rfl
    | cons a l ih =>
      intro hl
      simp only [List.map_cons, List.cons.injEq]
      refine ⟨?_, ih (fun p hp => hl p (List.mem_cons_of_mem _ hp))⟩
      have := hl a List.mem_cons_self
      cases a; simp_all [resetPos]
  exact this ps hpos

end CedarGo.Text
