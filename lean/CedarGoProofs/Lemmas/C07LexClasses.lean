/-
  C07 ∘ C18 bridge, part 6: one token of each class (identifier / keyword, integer, string, operator,
  unknown, EOF) at the look-ahead of a configuration is scanned as exactly that token.
-/
import CedarGoProofs.Lemmas.C07LexToken
namespace CedarGo.Text
open Lx

/-- the configuration at offset `k` with input `Z` is consistent with the document, and the fuel suffices -/
structure Ok (doc : List UInt8) (F k : Nat) (Z : List Char) : Prop where
  hdoc : doc.drop k = encChars Z
  hnn : NoNul Z
  hF : Z.length < F

theorem Ok.advance {doc : List UInt8} {F k : Nat} {pre Z : List Char} (h : Ok doc F k (pre ++ Z)) :
    Ok doc F (k + blen pre) Z :=
  ⟨drop_advance doc k pre Z h.hdoc, h.hnn.append_right, by have := h.hF; simp at this; omega⟩

/-- result of `nextToken`: a token of class `ty` with characters `T` that starts at offset `k`, followed by `X` -/
def tokRes (doc : List UInt8) (k : Nat) (ty : TokType) (T X : List Char) : TokRes PState :=
  ⟨⟨ty, goPos doc k, encChars T⟩, (cfg doc (k + blen T) (some k) (goPos doc k) X).1,
    (cfg doc (k + blen T) (some k) (goPos doc k) X).2⟩

theorem skipWs_none {doc : List UInt8} {F k : Nat} {Z : List Char} (h : Ok doc F k Z) (ts : Option Nat) (pos : Pos)
    (hz : headIs isWsChar Z = false) :
    skipWhitespace pureSrc F (cfg doc k ts pos Z).1 (cfg doc k ts pos Z).2 = cfg doc k ts pos Z := by
  have := skipWs_cfg doc ts pos [] F k Z (by simp) hz h.hnn (by have := h.hF; simp; omega)
  simpa [blen_nil] using this

theorem finishToken_cfg (doc : List UInt8) (tt : TokType) (k : Nat) (T X : List Char) (pos : Pos)
    (hdoc : doc.drop k = encChars (T ++ X)) :
    finishToken pureSrc tt (cfg doc (k + blen T) (some k) pos X).1 (cfg doc (k + blen T) (some k) pos X).2
      = ⟨⟨if tt == .ident && reservedKeywords.contains (String.ofList T) then .keyword else tt, pos, encChars T⟩,
          (cfg doc (k + blen T) (some k) pos X).1, (cfg doc (k + blen T) (some k) pos X).2⟩ := by
  simp only [finishToken]
  rw [tokEnd_cfg, take_drop_text doc k T X hdoc, keyword_contains]

/-! ## end of input -/

theorem tokenFrom_cfg_eof (doc : List UInt8) (F f k : Nat) (ts : Option Nat) (pos : Pos) (h : Ok doc F k []) :
    tokenFrom pureSrc F (f + 1) (cfg doc k ts pos []).1 (cfg doc k ts pos []).2 = tokRes doc k .eof [] [] := by
  rw [tokenFrom_eof pureSrc F f _ _ _ (skipWs_none h ts pos rfl) rfl, tokMark_cfg]
  have := finishToken_cfg doc .eof k [] [] (goPos doc k) h.hdoc
  simp only [blen_nil, Nat.add_zero] at this
  rw [cfg_fst_indep doc k k ts (some k) pos (goPos doc k), this]
  simp [tokRes, blen_nil]

/-! ## identifiers and keywords -/

theorem identRest_forall : ∀ cs : List Char, identCharsRest cs = true → ∀ c ∈ cs, isIdentChar c false = true
  | [], _, c, hc => by cases hc
  | d :: ds, h, c, hc => by
    simp only [identCharsRest, Bool.and_eq_true] at h
    rcases List.mem_cons.1 hc with rfl | hc
    · exact h.1
    · exact identRest_forall ds h.2 c hc

theorem head?_headIs (P : Char → Bool) (X : List Char) (h : ∀ c, X.head? = some c → P c = false) : headIs P X = false := by
  cases X with
  | nil => rfl
  | cons c X => exact h c rfl

theorem isWs_not_identStart (c : Char) (h : isIdentChar c true = true) : isWsChar c = false := by
  simp only [isIdentChar, char_beq_toNat, Text.isDecimal, Bool.not_true, Bool.and_false, Bool.or_false, Bool.or_eq_true,
    Bool.and_eq_true, beq_iff_eq, decide_eq_true_eq] at h
  have : ('_' : Char).toNat = 95 := rfl
  simp only [isWsChar, Bool.or_eq_false_iff, beq_eq_false_iff_ne]
  omega

theorem tokenFrom_cfg_ident (doc : List UInt8) (F f k : Nat) (ts : Option Nat) (pos : Pos) (c : Char) (cs X : List Char)
    (h : Ok doc F k (c :: cs ++ X)) (hc : isIdentChar c true = true) (hcs : identCharsRest cs = true)
    (hX : headIs (isIdentChar · false) X = false) :
    tokenFrom pureSrc F (f + 1) (cfg doc k ts pos (c :: cs ++ X)).1 (cfg doc k ts pos (c :: cs ++ X)).2
      = tokRes doc k (if reservedKeywords.contains (String.ofList (c :: cs)) then .keyword else .ident) (c :: cs) X := by
  have hw := skipWs_none h ts pos (isWs_not_identStart c hc)
  rw [tokenFrom_ident pureSrc F f _ _ _ hw (rune_ne_eof c) (by rw [List.cons_append, cfg_fst_cons, isIdentRune_char]; exact hc),
    tokMark_cfg]
  simp only [scanIdentifier, List.cons_append]
  rw [next_cfg doc k _ _ c (cs ++ X) h.hnn.tail,
    identLoop_cfg doc _ _ cs F _ X (identRest_forall cs hcs) hX h.hnn.tail (by have := h.hF; simp at this; omega)]
  have := finishToken_cfg doc .ident k (c :: cs) X (goPos doc k) h.hdoc
  rw [blen_cons, ← Nat.add_assoc] at this
  rw [this]
  simp only [tokRes, blen_cons, Nat.add_assoc, beq_self_eq_true, Bool.true_and]

/-! ## integers -/

theorem digit_not_identStart (c : Char) (h : Text.isDecimal c = true) : isIdentChar c true = false ∧ isWsChar c = false := by
  simp only [Text.isDecimal, Bool.and_eq_true, decide_eq_true_eq] at h
  have : ('_' : Char).toNat = 95 := rfl
  constructor
  · simp only [isIdentChar, char_beq_toNat, Bool.not_true, Bool.and_false, Bool.or_false, Bool.or_eq_false_iff,
      beq_eq_false_iff_ne, Bool.and_eq_false_imp, decide_eq_true_eq, decide_eq_false_iff_not]
    omega
  · simp only [isWsChar, Bool.or_eq_false_iff, beq_eq_false_iff_ne]; omega

theorem tokenFrom_cfg_int (doc : List UInt8) (F f k : Nat) (ts : Option Nat) (pos : Pos) (d : Char) (ds X : List Char)
    (h : Ok doc F k (d :: ds ++ X)) (hd : ∀ c ∈ d :: ds, Text.isDecimal c = true)
    (hX : headIs Text.isDecimal X = false) :
    tokenFrom pureSrc F (f + 1) (cfg doc k ts pos (d :: ds ++ X)).1 (cfg doc k ts pos (d :: ds ++ X)).2
      = tokRes doc k .int (d :: ds) X := by
  have hd0 := digit_not_identStart d (hd d List.mem_cons_self)
  have hw := skipWs_none h ts pos hd0.2
  rw [tokenFrom_int pureSrc F f _ _ _ hw (rune_ne_eof d)
    (by rw [List.cons_append, cfg_fst_cons, isIdentRune_char]; exact hd0.1)
    (by rw [List.cons_append, cfg_fst_cons, isDecimal_char]; exact hd d List.mem_cons_self), tokMark_cfg]
  rw [cfg_fst_indep doc k k ts (some k) pos (goPos doc k),
    scanInteger_cfg doc _ _ (d :: ds) F k X hd hX h.hnn (by have := h.hF; simp at this ⊢; omega)]
  rw [finishToken_cfg doc .int k (d :: ds) X (goPos doc k) h.hdoc]
  simp [tokRes]

/-! ## strings -/

theorem tokenFrom_cfg_string (doc : List UInt8) (F f k : Nat) (ts : Option Nat) (pos : Pos) (body X : List Char)
    (hb : StrBody body) (h : Ok doc F k ('"' :: (body ++ ['"']) ++ X)) :
    tokenFrom pureSrc F (f + 1) (cfg doc k ts pos ('"' :: (body ++ ['"']) ++ X)).1 (cfg doc k ts pos ('"' :: (body ++ ['"']) ++ X)).2
      = tokRes doc k .string ('"' :: (body ++ ['"'])) X := by
  have hw := skipWs_none h ts pos rfl
  have e : '"' :: (body ++ ['"']) ++ X = '"' :: (body ++ '"' :: X) := by simp
  have hnX : NoNul X := h.hnn.append_right
  rw [tokenFrom_string pureSrc F f _ _ _ hw rfl rfl rfl rfl, tokMark_cfg]
  rw [e, scanString_cfg doc _ _ hb F k X (by have := h.hF; simp at this; omega) hnX]
  rw [finishToken_cfg doc .string k ('"' :: (body ++ ['"'])) X (goPos doc k) h.hdoc]
  simp [tokRes]

/-! ## operators and unknown characters -/

/-- look-ahead rune of a configuration as an `Option Char` -/
def runeOf : Option Char → Rune
  | none => runeEOF
  | some c => Int.ofNat c.toNat

theorem cfg_fst_runeOf (doc : List UInt8) (k : Nat) (ts : Option Nat) (pos : Pos) (X : List Char) :
    (cfg doc k ts pos X).1 = runeOf X.head? := by cases X <;> rfl

theorem opStep_single_op (n0 : Nat) (r : Rune) (h : n0 ∈ singleOps) (h1 : n0 = 58 → r ≠ 58)
    (h2 : n0 = 33 ∨ n0 = 60 ∨ n0 = 62 → r ≠ 61) : opStep (Int.ofNat n0) r = (.operator, false) := by
  simp only [singleOps, List.mem_cons, List.not_mem_nil, or_false] at h
  simp only [opStep]
  repeat' split
  all_goals first
    | rfl
    | (exfalso
       simp only [Bool.or_eq_true, beq_iff_eq, bne_iff_ne, ne_eq, not_or, Int.ofNat_eq_natCast, Decidable.not_not] at *
       unfold Rune at *
       omega)

theorem opStep_single_unknown (n0 : Nat) (r : Rune) (h : n0 ∉ singleOps) (h1 : n0 = 61 → r ≠ 61) (h2 : n0 = 124 → r ≠ 124)
    (h3 : n0 = 38 → r ≠ 38) : opStep (Int.ofNat n0) r = (.unknown, false) := by
  simp only [singleOps, List.mem_cons, List.not_mem_nil, or_false, not_or] at h
  simp only [opStep]
  repeat' split
  all_goals first
    | rfl
    | (exfalso
       simp only [Bool.or_eq_true, beq_iff_eq, bne_iff_ne, ne_eq, not_or, Int.ofNat_eq_natCast, Decidable.not_not] at *
       unfold Rune at *
       omega)

theorem opStep_double (c0 c1 : Char) (h : merges c0 c1 = true) :
    opStep (Int.ofNat c0.toNat) (Int.ofNat c1.toNat) = (.operator, true) := by
  simp only [merges, Bool.or_eq_true, Bool.and_eq_true, beq_iff_eq] at h
  simp only [opStep]
  repeat' split
  all_goals first
    | rfl
    | (exfalso
       simp only [Bool.or_eq_true, beq_iff_eq, bne_iff_ne, ne_eq, not_or, Int.ofNat_eq_natCast, Decidable.not_not] at *
       unfold Rune at *
       omega)

theorem startsOther_parts (c : Char) (h : startsOther c = false) :
    isWsChar c = false ∧ isIdentChar c true = false ∧ Text.isDecimal c = false ∧ c.toNat ≠ 34 := by
  simp only [startsOther, Bool.or_eq_false_iff, beq_eq_false_iff_ne] at h
  exact ⟨h.1.1.1, h.1.1.2, h.1.2, h.2⟩

theorem tokenFrom_cfg_single (doc : List UInt8) (F f k : Nat) (ts : Option Nat) (pos : Pos) (c0 : Char) (X : List Char)
    (ty : TokType) (h : Ok doc F k (c0 :: X)) (hso : startsOther c0 = false) (hty : (ty == .ident) = false)
    (hop : opStep (Int.ofNat c0.toNat) (runeOf X.head?) = (ty, false))
    (hsl : c0.toNat = 47 → runeOf X.head? ≠ 47 ∧ runeOf X.head? ≠ 42) :
    tokenFrom pureSrc F (f + 1) (cfg doc k ts pos (c0 :: X)).1 (cfg doc k ts pos (c0 :: X)).2 = tokRes doc k ty [c0] X := by
  obtain ⟨p1, p2, p3, p4⟩ := startsOther_parts c0 hso
  have hw := skipWs_none h ts pos p1
  have hnext : pureSrc.next (pureSrc.tokMark (cfg doc k ts pos (c0 :: X)).2) = cfg doc (k + c0.utf8Size) (some k) (goPos doc k) X := by
    rw [tokMark_cfg, next_cfg doc k _ _ c0 X h.hnn.tail]
  rw [tokenFrom_op pureSrc F f _ _ _ hw (rune_ne_eof c0) (by rw [cfg_fst_cons, isIdentRune_char]; exact p2)
    (by rw [cfg_fst_cons, isDecimal_char]; exact p3)
    (by rw [cfg_fst_cons, beq_eq_false_iff_ne]; intro e; exact p4 (Int.ofNat.inj e))
    (by
      intro h47
      rw [hnext, cfg_fst_runeOf]
      rw [cfg_fst_cons, beq_iff_eq] at h47
      have := hsl (Int.ofNat.inj h47)
      simp only [Bool.or_eq_false_iff, beq_eq_false_iff_ne]; exact this)]
  rw [hnext, scanOperator_eq, cfg_fst_cons, cfg_fst_runeOf, hop]
  simp only [Bool.false_eq_true, if_false]
  have := finishToken_cfg doc ty k [c0] X (goPos doc k) h.hdoc
  simp only [blen_cons, blen_nil, Nat.add_zero] at this
  rw [← cfg_fst_runeOf doc (k + c0.utf8Size) (some k) (goPos doc k) X, this, hty]
  simp [tokRes, blen_cons, blen_nil]

theorem merges_first (c0 c1 : Char) (h : merges c0 c1 = true) : startsOther c0 = false ∧ c0.toNat ≠ 47 := by
  simp only [merges, Bool.or_eq_true, Bool.and_eq_true, beq_iff_eq] at h
  have : ('_' : Char).toNat = 95 := rfl
  refine ⟨?_, by omega⟩
  simp only [startsOther, isWsChar, isIdentChar, Text.isDecimal, char_beq_toNat, Bool.not_true, Bool.and_false, Bool.or_false,
    Bool.or_eq_false_iff, beq_eq_false_iff_ne, Bool.and_eq_false_imp, decide_eq_true_eq, decide_eq_false_iff_not]
  omega

theorem tokenFrom_cfg_double (doc : List UInt8) (F f k : Nat) (ts : Option Nat) (pos : Pos) (c0 c1 : Char) (X : List Char)
    (h : Ok doc F k (c0 :: c1 :: X)) (hm : merges c0 c1 = true) :
    tokenFrom pureSrc F (f + 1) (cfg doc k ts pos (c0 :: c1 :: X)).1 (cfg doc k ts pos (c0 :: c1 :: X)).2
      = tokRes doc k .operator [c0, c1] X := by
  obtain ⟨hso, h47⟩ := merges_first c0 c1 hm
  obtain ⟨p1, p2, p3, p4⟩ := startsOther_parts c0 hso
  have hw := skipWs_none h ts pos p1
  have hnext : pureSrc.next (pureSrc.tokMark (cfg doc k ts pos (c0 :: c1 :: X)).2)
      = cfg doc (k + c0.utf8Size) (some k) (goPos doc k) (c1 :: X) := by
    rw [tokMark_cfg, next_cfg doc k _ _ c0 (c1 :: X) h.hnn.tail]
  rw [tokenFrom_op pureSrc F f _ _ _ hw (rune_ne_eof c0) (by rw [cfg_fst_cons, isIdentRune_char]; exact p2)
    (by rw [cfg_fst_cons, isDecimal_char]; exact p3)
    (by rw [cfg_fst_cons, beq_eq_false_iff_ne]; intro e; exact p4 (Int.ofNat.inj e))
    (by
      intro e
      rw [cfg_fst_cons, beq_iff_eq] at e
      exact absurd (Int.ofNat.inj e) h47)]
  rw [hnext, scanOperator_eq, cfg_fst_cons, cfg_fst_cons, opStep_double c0 c1 hm]
  simp only [if_true]
  rw [next_cfg doc _ _ _ c1 X h.hnn.tail.tail]
  have := finishToken_cfg doc .operator k [c0, c1] X (goPos doc k) h.hdoc
  simp only [blen_cons, blen_nil, Nat.add_zero, ← Nat.add_assoc] at this
  rw [this]
  simp [tokRes, blen_cons, blen_nil, Nat.add_assoc]

end CedarGo.Text
