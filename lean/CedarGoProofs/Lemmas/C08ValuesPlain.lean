/-
  Helper lemmas for C08 (values): the text forms of extension values (`Decimal/Duration/Datetime/IPAddr.String`,
  Model/Scalars.lean) consist of "plain" characters only — ASCII `+` … `z` without the backslash — which
  `rust.EscapeString` leaves unchanged.  Hence the RAW string token Go writes in `decimal("…")`, `ip("…")`, … is the
  escaped string token `strT` of the same text, and the parser's `Unquote` reads the text back.
-/
import CedarGoProofs.Lemmas.C07Escape
import CedarGoProofs.Lemmas.C12Digits
import CedarGoProofs.Lemmas.C12Decimal
import CedarGoProofs.Lemmas.C12IP6
import CedarGo.Model.Text.Marshal
namespace CedarGo.Text
open CedarGo

/-- ASCII `+` (0x2b) … `z` (0x7a) except the backslash: printable, not grapheme-extending, no escape of its own -/
def plainCh (c : Char) : Bool := decide (0x2b ≤ c.toNat) && decide (c.toNat ≤ 0x7a) && !(c.toNat == 0x5c)

theorem escapeRune_plain_nat : ∀ n, n < 0x7b → (decide (0x2b ≤ n) && !(n == 0x5c)) = true →
    escapeRune (Char.ofNat n) true = [Char.ofNat n] ∧ escapeRune (Char.ofNat n) false = [Char.ofNat n] := by
  decide +kernel

theorem escapeRune_plain (c : Char) (egx : Bool) (h : plainCh c = true) : escapeRune c egx = [c] := by
  simp only [plainCh, Bool.and_eq_true, decide_eq_true_eq, Bool.not_eq_true', beq_eq_false_iff_ne, ne_eq] at h
  have := escapeRune_plain_nat c.toNat (by omega) (by simp; omega)
  rw [Char.ofNat_toNat] at this
  cases egx
  · exact this.2
  · exact this.1

theorem escapeRest_plain : ∀ cs : List Char, cs.all plainCh = true → escapeRest cs = cs
  | [], _ => rfl
  | c :: cs, h => by
    simp only [List.all_cons, Bool.and_eq_true] at h
    simp [escapeRest, escapeRune_plain c false h.1, escapeRest_plain cs h.2]

theorem escapeString_plain (cs : List Char) (h : cs.all plainCh = true) : escapeString cs = cs := by
  cases cs with
  | nil => rfl
  | cons c cs =>
    simp only [List.all_cons, Bool.and_eq_true] at h
    simp [escapeString, escapeRune_plain c true h.1, escapeRest_plain cs h.2]

/-- the raw string token of a plain text is the escaped one -/
theorem rawStrT_eq_strT (s : String) (h : s.toList.all plainCh = true) : rawStrT s = strT s := by
  simp only [rawStrT, strT, escapeString_plain _ h]

/-! ## the printers of Model/Scalars.lean write plain characters -/

theorem plain_of_isDig (c : Char) (h : Scalars.isDig c = true) : plainCh c = true := by
  simp only [Scalars.isDig, Bool.and_eq_true, decide_eq_true_eq, Char.le_def, UInt32.le_iff_toNat_le] at h
  have e : c.toNat = c.val.toNat := rfl
  have h0 : ('0' : Char).val.toNat = 48 := rfl
  have h9 : ('9' : Char).val.toNat = 57 := rfl
  simp only [plainCh, Bool.and_eq_true, decide_eq_true_eq, Bool.not_eq_true', beq_eq_false_iff_ne, ne_eq]
  omega

theorem plain_natDigits (n : Nat) : (Scalars.natDigits n).all plainCh = true := by
  have := Scalars.allDigits_natDigits n
  simp only [Scalars.allDigits, Bool.and_eq_true, List.all_eq_true] at this
  simp only [List.all_eq_true]
  exact fun c hc => plain_of_isDig c (this.2 c hc)

theorem plain_padLeft (k : Nat) (cs : List Char) (h : cs.all plainCh = true) : (Scalars.padLeft k '0' cs).all plainCh = true := by
  simp only [Scalars.padLeft, List.all_append, h, Bool.and_true, List.all_eq_true, List.mem_replicate]
  rintro c ⟨_, rfl⟩
  decide

theorem plain_padL (k n : Nat) : (Scalars.padL k n).all plainCh = true := plain_padLeft k _ (plain_natDigits n)

theorem mem_trimGo : ∀ (n : Nat) (r : List Char), ∀ c ∈ Scalars.trimZeros3.go n r, c ∈ r
  | 0, r, c, h => by simp [Scalars.trimZeros3.go] at h; exact h
  | n + 1, [], c, h => by simp [Scalars.trimZeros3.go] at h
  | n + 1, x :: r, c, h => by
    by_cases hx : x = '0'
    · subst hx
      rw [Scalars.trimZeros3.go] at h
      exact List.mem_cons_of_mem _ (mem_trimGo n r c h)
    · rw [Scalars.trimGo_ne (n + 1) x r hx] at h
      exact h

theorem plain_trimZeros3 (cs : List Char) (h : cs.all plainCh = true) : (Scalars.trimZeros3 cs).all plainCh = true := by
  simp only [List.all_eq_true] at h ⊢
  intro c hc
  simp only [Scalars.trimZeros3, List.mem_reverse] at hc
  exact h c (by simpa using mem_trimGo 3 _ c hc)

theorem plain_printDecimal (d : Int) : (Scalars.printDecimal d).toList.all plainCh = true := by
  simp only [Scalars.printDecimal, String.toList_ofList, Scalars.printDecimalL]
  have hb := plain_trimZeros3 (Scalars.natDigits (d.natAbs / 10000) ++ ['.'] ++ Scalars.padLeft 4 '0' (Scalars.natDigits (d.natAbs % 10000)))
    (by simp only [List.all_append, plain_natDigits, plain_padLeft _ _ (plain_natDigits _), Bool.and_true, Bool.true_and]; decide)
  split
  · simp only [List.all_cons, hb, Bool.and_true]; decide
  · exact hb

theorem plain_unitChars (i : Nat) : (Scalars.unitChars i).all plainCh = true := by
  unfold Scalars.unitChars
  split <;> decide

theorem plain_durPart (q : Int) (i : Nat) : (Scalars.durPart q i).all plainCh = true := by
  unfold Scalars.durPart
  split
  · simp [List.all_append, plain_natDigits, plain_unitChars]
  · rfl

theorem plain_printDuration (d : Int) : (Scalars.printDuration d).toList.all plainCh = true := by
  simp only [Scalars.printDuration, String.toList_ofList, Scalars.printDurationL]
  split
  · decide
  · simp only [List.all_append, plain_durPart, Bool.and_true]
    split <;> decide

theorem plain_printDatetime (t : Int) : (Scalars.printDatetime t).toList.all plainCh = true := by
  simp only [Scalars.printDatetime, String.toList_ofList, Scalars.printDatetimeL]
  have hc : plainCh '-' = true ∧ plainCh 'T' = true ∧ plainCh ':' = true ∧ plainCh '.' = true ∧ plainCh 'Z' = true ∧ plainCh '+' = true := by
    decide
  split
  · simp only [List.all_append, List.all_cons, List.all_nil, plain_padL, hc, Bool.and_true]
  · simp only [List.all_append, List.all_cons, List.all_nil, plain_padL, hc, Bool.and_true]
    split <;> simp [hc]

theorem plain_printV4 (a : Nat) : (Scalars.printV4 a).all plainCh = true := by
  simp only [List.all_eq_true]
  intro c hc
  rcases Scalars.mem_printV4 hc with h | rfl
  · exact plain_of_isDig c h
  · decide

theorem plain_hexDigitChar : ∀ d, d < 16 → plainCh (Scalars.hexDigitChar d) = true := by decide +kernel

theorem plain_natHex : ∀ n, (Scalars.natHex n).all plainCh = true := by
  apply Scalars.natHex_induction
  · intro n h
    rw [Scalars.natHex_lt h]
    simp [plain_hexDigitChar n h]
  · intro n h ih
    rw [Scalars.natHex_ge h]
    simp [List.all_append, ih, plain_hexDigitChar _ (Nat.mod_lt _ (by decide : 0 < 16))]

theorem plain_v6Emit (gs : List Nat) (zs ze : Nat) : ∀ (f i : Nat), (Scalars.v6Emit gs zs ze f i).all plainCh = true
  | 0, _ => rfl
  | f + 1, i => by
    rw [Scalars.v6Emit]
    have hc : plainCh ':' = true := by decide
    split
    · rfl
    split
    · simp only [List.all_cons, hc, Bool.true_and]
      split
      · rfl
      · simp [List.all_append, plain_natHex, plain_v6Emit gs zs ze f]
    · simp only [List.all_append, plain_natHex, plain_v6Emit gs zs ze f, Bool.and_true]
      split <;> simp [hc]

theorem plain_printAddr (v6 : Bool) (a : Nat) : (Scalars.printAddr v6 a).all plainCh = true := by
  unfold Scalars.printAddr
  split
  · exact plain_printV4 a
  split
  · simp only [List.all_append, plain_printV4, Bool.and_true]; decide +kernel
  · simp only
    split <;> exact plain_v6Emit _ _ _ _ _

theorem plain_printIP (a : IPNet) : (Scalars.printIP a).toList.all plainCh = true := by
  simp only [Scalars.printIP, String.toList_ofList, Scalars.printIPL]
  have h1 := plain_printAddr a.v6 a.addr
  have h2 : (Scalars.printAddr a.v6 a.addr ++ '/' :: Scalars.natDigits a.bits).all plainCh = true := by
    simp only [List.all_append, List.all_cons, h1, plain_natDigits, Bool.true_and, Bool.and_true]; decide
  repeat' split
  all_goals first | exact h1 | exact h2

end CedarGo.Text
