/-
  C07 ∘ C18 bridge, part 16: the spec printers' tokens carry no position (`noPos`), so erasing positions
  leaves a rendering unchanged.
-/
import CedarGo.Model.Text.Layout
namespace CedarGo.Text
open CedarGo
set_option linter.unusedVariables false

def AllNP (ts : List Token) : Prop := ∀ t ∈ ts, t.pos = noPos

theorem AllNP.nil : AllNP [] := fun _ h => by cases h
theorem AllNP.cons {t : Token} {ts : List Token} (h1 : t.pos = noPos) (h2 : AllNP ts) : AllNP (t :: ts) := by
  intro x hx; rcases List.mem_cons.1 hx with rfl | hx
  · exact h1
  · exact h2 x hx
theorem AllNP.append {xs ys : List Token} (h1 : AllNP xs) (h2 : AllNP ys) : AllNP (xs ++ ys) := by
  intro x hx; rcases List.mem_append.1 hx with hx | hx
  · exact h1 x hx
  · exact h2 x hx

theorem AllNP.map_strip {ts : List Token} (h : AllNP ts) : ts.map stripPos = ts := by
  induction ts with
  | nil => rfl
  | cons t ts ih =>
    simp only [List.map_cons, List.cons.injEq]
    refine ⟨?_, ih (fun x hx => h x (List.mem_cons_of_mem _ hx))⟩
    have := h t List.mem_cons_self
    cases t; simp_all [stripPos]

theorem np_wrapIf (b : Bool) {ts : List Token} (h : AllNP ts) : AllNP (wrapIf b ts) := by
  unfold wrapIf
  split
  · exact .cons rfl (.append h (.cons rfl .nil))
  · exact h

theorem np_pathToksOf : ∀ parts : List String, AllNP (pathToksOf parts)
  | [] => .nil
  | [a] => .cons rfl .nil
  | a :: b :: rest => by
    show AllNP (idT a :: opT "::" :: pathToksOf (b :: rest))
    exact .cons rfl (.cons rfl (np_pathToksOf (b :: rest)))

theorem np_pathToks (ty : String) : AllNP (pathToks ty) := np_pathToksOf _

theorem np_renderLit (v : Value) : AllNP (renderLit v) := by
  cases v <;> try exact .nil
  · exact .cons rfl .nil
  · rename_i n
    show AllNP (if n < 0 then [opT "-", intT n.natAbs] else [intT n.toNat])
    split
    · exact .cons rfl (.cons rfl .nil)
    · exact .cons rfl .nil
  · exact .cons rfl .nil
  · exact .append (np_pathToks _) (.cons rfl (.cons rfl .nil))

theorem np_accessToks (full : Bool) (a : String) : AllNP (accessToks full a) := by
  unfold accessToks
  split
  · exact .cons rfl (.cons rfl .nil)
  · exact .cons rfl (.cons rfl (.cons rfl .nil))

theorem np_attrTok (full : Bool) (a : String) : (attrTok full a).pos = noPos := by
  unfold attrTok; split <;> rfl

theorem np_patT (p : Pattern) (t : Token) (h : patT p = some t) : t.pos = noPos := by
  unfold patT at h
  split at h
  · cases h; rfl
  · cases h

mutual
theorem np_render (full : Bool) : ∀ (e : Expr), AllNP (render full e)
  | .lit v => by rw [render]; exact np_renderLit v
  | .var v => by rw [render]; exact .cons rfl .nil
  | .unop .not e => by rw [render]; exact .cons rfl (np_wrapIf _ (np_render full e))
  | .unop .neg e => by rw [render]; exact .cons rfl (np_wrapIf _ (np_render full e))
  | .unop .isEmpty e => by
    rw [render]; exact .append (np_wrapIf _ (np_render full e)) (.cons rfl (.cons rfl (.cons rfl (.cons rfl .nil))))
  | .binop op l r => by
    rw [render]
    cases hf : binForm op with
    | infixOp tok lp rp =>
      have ht : tok.pos = noPos := by
        cases op <;> simp only [binForm, BinForm.infixOp.injEq, reduceCtorEq] at hf <;> obtain ⟨rfl, _, _⟩ := hf <;> rfl
      exact .append (np_wrapIf _ (np_render full l)) (.cons ht (np_wrapIf _ (np_render full r)))
    | method name =>
      exact .append (np_wrapIf _ (np_render full l)) (.cons rfl (.cons rfl (.cons rfl
        (.append (np_wrapIf _ (np_render full r)) (.cons rfl .nil)))))
  | .ite c t e => by
    rw [render]
    exact .cons rfl (.append (np_wrapIf _ (np_render full c)) (.cons rfl
      (.append (np_wrapIf _ (np_render full t)) (.cons rfl (np_wrapIf _ (np_render full e))))))
  | .access e a => by rw [render]; exact .append (np_wrapIf _ (np_render full e)) (np_accessToks full a)
  | .has e a => by
    rw [render]; exact .append (np_wrapIf _ (np_render full e)) (.cons rfl (.cons (np_attrTok full a) .nil))
  | .like e p => by
    rw [render]
    refine .append (np_wrapIf _ (np_render full e)) ?_
    cases hp : patT p with
    | none => exact .cons rfl .nil
    | some t => exact .cons rfl (.cons (np_patT p t hp) .nil)
  | .is e ty => by rw [render]; exact .append (np_wrapIf _ (np_render full e)) (.cons rfl (np_pathToks ty))
  | .isIn e ty r => by
    rw [render]
    exact .append (np_wrapIf _ (np_render full e)) (.cons rfl (.append (np_pathToks ty) (.cons rfl (np_wrapIf _ (np_render full r)))))
  | .set es => by rw [render]; exact .cons rfl (.append (np_renderArgs full es) (.cons rfl .nil))
  | .record kes => by rw [render]; exact .cons rfl (.append (np_renderKVs full kes) (.cons rfl .nil))
  | .call fn [] => by
    rw [render]
    split
    · exact .nil
    · exact .cons rfl (.cons rfl (.append (np_renderArgs full []) (.cons rfl .nil)))
  | .call fn (recv :: rest) => by
    rw [render]
    split
    · exact .append (np_wrapIf _ (np_render full recv)) (.cons rfl (.cons rfl (.cons rfl
        (.append (np_renderArgs full rest) (.cons rfl .nil)))))
    · exact .cons rfl (.cons rfl (.append (np_renderArgs full (recv :: rest)) (.cons rfl .nil)))
theorem np_renderArgs (full : Bool) : ∀ (es : List Expr), AllNP (renderArgs full es)
  | [] => .nil
  | [e] => by rw [renderArgs]; exact np_wrapIf _ (np_render full e)
  | e :: e' :: es => by
    show AllNP (wrapIf full (render full e) ++ opT "," :: renderArgs full (e' :: es))
    exact .append (np_wrapIf _ (np_render full e)) (.cons rfl (np_renderArgs full (e' :: es)))
theorem np_renderKVs (full : Bool) : ∀ (kes : List (String × Expr)), AllNP (renderKVs full kes)
  | [] => .nil
  | [(k, e)] => by
    rw [renderKVs]; exact .cons (np_attrTok full k) (.cons rfl (np_wrapIf _ (np_render full e)))
  | (k, e) :: ke' :: kes => by
    show AllNP (attrTok full k :: opT ":" :: (wrapIf full (render full e) ++ opT "," :: renderKVs full (ke' :: kes)))
    exact .cons (np_attrTok full k) (.cons rfl (.append (np_wrapIf _ (np_render full e)) (.cons rfl (np_renderKVs full (ke' :: kes)))))
end

theorem np_uidToks (u : UID) : AllNP (uidToks u) := .append (np_pathToks _) (.cons rfl (.cons rfl .nil))

theorem np_uidListToks : ∀ es : List UID, AllNP (uidListToks es)
  | [] => .nil
  | [u] => np_uidToks u
  | u :: v :: rest => by
    show AllNP (uidToks u ++ opT "," :: uidListToks (v :: rest))
    exact .append (np_uidToks u) (.cons rfl (np_uidListToks (v :: rest)))

theorem np_scopeToks (v : Var) (sc : Scope) : AllNP (scopeToks v sc) := by
  cases sc with
  | all => exact .cons rfl .nil
  | eq e => exact .cons rfl (.cons rfl (np_uidToks e))
  | in_ e => exact .cons rfl (.cons rfl (np_uidToks e))
  | inSet es => exact .cons rfl (.cons rfl (.cons rfl (.append (np_uidListToks es) (.cons rfl .nil))))
  | is ty => exact .cons rfl (.cons rfl (np_pathToks ty))
  | isIn ty e => exact .cons rfl (.cons rfl (.append (np_pathToks ty) (.cons rfl (np_uidToks e))))

theorem np_annotationToks : ∀ anns : List (String × String), AllNP (annotationToks anns)
  | [] => .nil
  | (k, v) :: rest => by
    show AllNP (opT "@" :: (if reservedKeywords.contains k then kwT k else idT k) :: opT "(" :: strT v :: opT ")" :: annotationToks rest)
    have hk : (if reservedKeywords.contains k then kwT k else idT k).pos = noPos := by split <;> rfl
    exact .cons rfl (.cons hk (.cons rfl (.cons rfl (.cons rfl (np_annotationToks rest)))))

theorem np_conditionToks (full : Bool) : ∀ cs : List (Bool × Expr), AllNP (conditionToks full cs)
  | [] => .nil
  | (w, e) :: rest => by
    show AllNP (idT (if w then "when" else "unless") :: opT "{" :: (render full e ++ opT "}" :: conditionToks full rest))
    exact .cons rfl (.cons rfl (.append (np_render full e) (.cons rfl (np_conditionToks full rest))))

theorem np_renderPolicy (full : Bool) (p : Policy) : AllNP (renderPolicy full p) := by
  unfold renderPolicy
  exact .append (np_annotationToks _) (.cons rfl (.cons rfl (.append (np_scopeToks _ _) (.cons rfl (.append (np_scopeToks _ _)
    (.cons rfl (.append (np_scopeToks _ _) (.cons rfl (.append (np_conditionToks full _) (.cons rfl .nil))))))))))

/-- erasing positions leaves a rendering unchanged -/
theorem renderPolicy_strip (full : Bool) (p : Policy) : (renderPolicy full p).map stripPos = renderPolicy full p :=
  (np_renderPolicy full p).map_strip

end CedarGo.Text
