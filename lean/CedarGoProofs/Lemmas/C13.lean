/-
  Helper lemmas for C13 (value JSON round trip at the JSON-tree level).
-/
import CedarGo.Model.Json.Value
namespace CedarGo.JsonModel
open CedarGo CedarGo.Scalars

/-! ### `NewSet` on a duplicate-free list, `NewRecord` on a key-sorted list -/

theorem dedupV_nodup : ∀ (xs acc : List Value), nodupV acc xs = true → dedupV acc xs = acc.reverse ++ xs
  | [], acc, _ => by simp [dedupV]
  | x :: xs, acc, h => by
    simp only [nodupV, Bool.and_eq_true, Bool.not_eq_true'] at h
    simp only [dedupV, h.1]
    rw [dedupV_nodup xs (x :: acc) h.2]
    simp

theorem mkSet_nodup (xs : List Value) (h : nodupV [] xs = true) : mkSet xs = .set xs := by
  simp [mkSet, dedupV_nodup xs [] h]

/-- every key of `l` is below `k` -/
def allBelow (k : String) : List (String × Value) → Prop
  | [] => True
  | (k', _) :: rest => k' < k ∧ allBelow k rest

theorem kvInsert_above (k : String) (v : Value) : ∀ (l : List (String × Value)), allBelow k l → kvInsert k v l = l ++ [(k, v)]
  | [], _ => rfl
  | (k', v') :: rest, h => by
    obtain ⟨h1, h2⟩ := h
    have hn : ¬ k < k' := String.lt_asymm h1
    have hne : (k == k') = false := by
      simp only [beq_eq_false_iff_ne, ne_eq]
      exact fun e => String.ne_of_lt h1 e.symm
    simp only [kvInsert, hn, if_false, hne, Bool.false_eq_true, List.cons_append]
    rw [kvInsert_above k v rest h2]

theorem allBelow_append (k : String) : ∀ (l : List (String × Value)) (x : String × Value),
    allBelow k l → x.1 < k → allBelow k (l ++ [x])
  | [], _, _, hx => ⟨hx, trivial⟩
  | (_, _) :: rest, x, h, hx => ⟨h.1, allBelow_append k rest x h.2 hx⟩

theorem allBelow_mono {k k' : String} (hk : k < k') : ∀ (l : List (String × Value)), allBelow k l → allBelow k' l
  | [], _ => trivial
  | (_, _) :: rest, h => ⟨String.lt_trans h.1 hk, allBelow_mono hk rest h.2⟩

/-- folding `kvInsert` over a list whose keys increase strictly and all lie above those of `acc` appends it -/
theorem foldl_kvInsert_sorted : ∀ (xs acc : List (String × Value)),
    keysSorted xs = true → (∀ x, xs.head? = some x → allBelow x.1 acc) →
    xs.foldl (fun a kv => kvInsert kv.1 kv.2 a) acc = acc ++ xs
  | [], acc, _, _ => by simp
  | [x], acc, _, hb => by
    simp only [List.foldl]
    rw [kvInsert_above x.1 x.2 acc (hb x rfl)]
  | x :: y :: rest, acc, hs, hb => by
    simp only [keysSorted, Bool.and_eq_true, decide_eq_true_eq] at hs
    simp only [List.foldl]
    rw [kvInsert_above x.1 x.2 acc (hb x rfl)]
    have := foldl_kvInsert_sorted (y :: rest) (acc ++ [x]) hs.2 (by
      intro z hz
      simp only [List.head?_cons, Option.some.injEq] at hz
      subst hz
      exact allBelow_append _ acc x (allBelow_mono hs.1 acc (hb x rfl)) hs.1)
    simp only [List.foldl] at this
    rw [this]; simp

theorem mkRecord_sorted (kvs : List (String × Value)) (h : keysSorted kvs = true) : mkRecord kvs = .record kvs := by
  simp only [mkRecord]
  rw [foldl_kvInsert_sorted kvs [] h (fun _ _ => trivial)]
  simp

/-! ### Field look-ups on encodings -/

theorem filter_noReserved (f : String) (hf : ∀ k, reservedKey k = false → keyMatches k f = false) :
    ∀ (kvs : List (String × Value)), noReservedKeysKV kvs = true →
      (encodeKVs kvs).filter (fun kv => keyMatches kv.1 f) = []
  | [], _ => rfl
  | (k, v) :: kvs, h => by
    simp only [noReservedKeysKV, Bool.and_eq_true, Bool.not_eq_true'] at h
    simp only [encodeKVs, List.filter, hf k h.1.1]
    exact filter_noReserved f hf kvs h.2

theorem reserved_extn (k : String) (h : reservedKey k = false) : keyMatches k "__extn" = false := by
  simp only [reservedKey, Bool.or_eq_false_iff] at h; exact h.1

theorem reserved_entity (k : String) (h : reservedKey k = false) : keyMatches k "__entity" = false := by
  simp only [reservedKey, Bool.or_eq_false_iff] at h; exact h.2

theorem extnStep_record (kvs : List (String × Value)) (h : noReservedKeysKV kvs = true) :
    extnStep (.obj (encodeKVs kvs)) = .none := by
  simp only [extnStep, findField, filter_noReserved "__extn" reserved_extn kvs h]

theorem entityStep_record (kvs : List (String × Value)) (h : noReservedKeysKV kvs = true) :
    entityStep (encodeKVs kvs) = .none := by
  simp only [entityStep, findField, filter_noReserved "__entity" reserved_entity kvs h]

/-- the `__extn` escape object decodes to its function name and argument -/
theorem extnStep_extJ (fn arg : String) : extnStep (extJ fn arg) = .found fn arg := by
  have h1 : keyMatches "__extn" "__extn" = true := by decide +kernel
  have h2 : keyMatches "arg" "fn" = false := by decide +kernel
  have h3 : keyMatches "fn" "fn" = true := by decide +kernel
  have h4 : keyMatches "arg" "arg" = true := by decide +kernel
  have h5 : keyMatches "fn" "arg" = false := by decide +kernel
  simp [extnStep, extJ, findField, List.filter, h1, h2, h3, h4, h5, twoStrings, strField]

theorem liftErr_ok {α} (r : Except Err α) (a : α) (h : r = .ok a) : liftErr r = .ok a := by
  subst h; rfl

theorem okEq_ok {r : Except Err Int} {x : Int} (h : okEq r x = true) : r = .ok x := by
  cases r with
  | error e => simp [okEq] at h
  | ok y => simp only [okEq, beq_iff_eq] at h; rw [h]

theorem okEqIP_ok {r : Except Err IPNet} {x : IPNet} (h : okEqIP r x = true) : r = .ok x := by
  cases r with
  | error e => simp [okEqIP] at h
  | ok y => simp only [okEqIP, beq_iff_eq] at h; rw [h]

theorem parseExt_decimal (a : String) : parseExt "decimal" a = liftErr ((parseDecimal a).map Value.decimal) := by
  have h1 : ("decimal" == "ip") = false := by decide
  simp [parseExt, h1]
theorem parseExt_ip (a : String) : parseExt "ip" a = liftErr ((parseIP a).map Value.ip) := by
  simp [parseExt]
theorem parseExt_datetime (a : String) : parseExt "datetime" a = liftErr ((parseDatetime a).map Value.datetime) := by
  have h1 : ("datetime" == "ip") = false := by decide
  have h2 : ("datetime" == "decimal") = false := by decide
  simp [parseExt, h1, h2]
theorem parseExt_duration (a : String) : parseExt "duration" a = liftErr ((parseDuration a).map Value.duration) := by
  have h1 : ("duration" == "ip") = false := by decide
  have h2 : ("duration" == "decimal") = false := by decide
  have h3 : ("duration" == "datetime") = false := by decide
  simp [parseExt, h1, h2, h3]

/-! ### The round trip, by mutual induction over nested values -/

mutual
theorem decode_encode (v : Value) (n : Nat) (hn : vNeed v ≤ n) (hw : vWF v = true) (hr : vNoReserved v = true) :
    decodeValueF n (encodeValue v) = .ok v := by
  cases n with
  | zero => exfalso; cases v <;> simp [vNeed] at hn
  | succ n =>
    cases v with
    | bool b => simp [decodeValueF, encodeValue, extnStep]
    | str s => simp [decodeValueF, encodeValue, extnStep]
    | long k =>
      simp only [vWF, decide_eq_true_eq] at hw
      simp [decodeValueF, encodeValue, extnStep, hw]
    | entity t i =>
      have h1 : keyMatches "__entity" "__extn" = false := by decide +kernel
      have h2 : keyMatches "__entity" "__entity" = true := by decide +kernel
      have h3 : keyMatches "__entity" "type" = false := by decide +kernel
      have h4 : keyMatches "__entity" "id" = false := by decide +kernel
      have h5 : keyMatches "id" "type" = false := by decide +kernel
      have h6 : keyMatches "type" "type" = true := by decide +kernel
      have h7 : keyMatches "id" "id" = true := by decide +kernel
      have h8 : keyMatches "type" "id" = false := by decide +kernel
      simp [decodeValueF, encodeValue, extnStep, findField, List.filter, h1, h2, h3, h4, h5, h6, h7, h8, entityStep, optStrField,
        twoStrings, strField]
    | decimal d =>
      simp only [vWF] at hw
      simp only [decodeValueF, encodeValue, extnStep_extJ, parseExt_decimal, okEq_ok hw]
      rfl
    | datetime d =>
      simp only [vWF] at hw
      simp only [decodeValueF, encodeValue, extnStep_extJ, parseExt_datetime, okEq_ok hw]
      rfl
    | duration d =>
      simp only [vWF] at hw
      simp only [decodeValueF, encodeValue, extnStep_extJ, parseExt_duration, okEq_ok hw]
      rfl
    | ip a =>
      simp only [vWF] at hw
      simp only [decodeValueF, encodeValue, extnStep_extJ, parseExt_ip, okEqIP_ok hw]
      rfl
    | set xs =>
      simp only [vWF, Bool.and_eq_true] at hw
      simp only [vNoReserved] at hr
      simp only [vNeed] at hn
      have ih := decode_encodeL xs n (by omega) hw.1 hr
      simp only [decodeValueF, encodeValue, extnStep, ih, Except.map, mkSet_nodup xs hw.2]
    | record kvs =>
      simp only [vWF, Bool.and_eq_true] at hw
      simp only [vNoReserved] at hr
      simp only [vNeed] at hn
      have ih := decode_encodeKV kvs n (by omega) hw.1 hr
      simp only [decodeValueF, encodeValue, extnStep_record kvs hr, entityStep_record kvs hr, ih, Except.map,
        mkRecord_sorted kvs hw.2]
theorem decode_encodeL : ∀ (vs : List Value) (n : Nat), needL vs ≤ n → wfJsonL vs = true → noReservedKeysL vs = true →
    mapMR (decodeValueF n) (encodeValues vs) = .ok vs
  | [], _, _, _, _ => rfl
  | v :: vs, n, hn, hw, hr => by
    simp only [needL] at hn
    simp only [wfJsonL, Bool.and_eq_true] at hw
    simp only [noReservedKeysL, Bool.and_eq_true] at hr
    simp only [encodeValues, mapMR, decode_encode v n (by omega) hw.1 hr.1, decode_encodeL vs n (by omega) hw.2 hr.2]
theorem decode_encodeKV : ∀ (kvs : List (String × Value)) (n : Nat), needKV kvs ≤ n → wfJsonKV kvs = true →
    noReservedKeysKV kvs = true → mapKVR (decodeValueF n) (encodeKVs kvs) = .ok kvs
  | [], _, _, _, _ => rfl
  | (k, v) :: kvs, n, hn, hw, hr => by
    simp only [needKV] at hn
    simp only [wfJsonKV, Bool.and_eq_true] at hw
    simp only [noReservedKeysKV, Bool.and_eq_true] at hr
    simp only [encodeKVs, mapKVR, decode_encode v n (by omega) hw.1 hr.1.2, decode_encodeKV kvs n (by omega) hw.2 hr.2]
end

/-! ### Fuel: the depth of the encoding suffices -/

mutual
theorem need_le_depth : ∀ (v : Value), vNeed v ≤ (encodeValue v).depth
  | .bool _ => by simp [vNeed, encodeValue, J.depth]
  | .str _ => by simp [vNeed, encodeValue, J.depth]
  | .long _ => by simp [vNeed, encodeValue, J.depth]
  | .entity _ _ => by simp [vNeed, encodeValue, J.depth]
  | .decimal _ => by simp [vNeed, encodeValue, extJ, J.depth]
  | .datetime _ => by simp [vNeed, encodeValue, extJ, J.depth]
  | .duration _ => by simp [vNeed, encodeValue, extJ, J.depth]
  | .ip _ => by simp [vNeed, encodeValue, extJ, J.depth]
  | .set xs => by
    have := needL_le_depth xs
    simp only [vNeed, encodeValue, J.depth]; omega
  | .record kvs => by
    have := needKV_le_depth kvs
    simp only [vNeed, encodeValue, J.depth]; omega
theorem needL_le_depth : ∀ (vs : List Value), needL vs ≤ J.depthL (encodeValues vs)
  | [] => by simp [needL]
  | v :: vs => by
    have h1 := need_le_depth v
    have h2 := needL_le_depth vs
    simp only [needL, encodeValues, J.depthL]; omega
theorem needKV_le_depth : ∀ (kvs : List (String × Value)), needKV kvs ≤ J.depthKV (encodeKVs kvs)
  | [] => by simp [needKV]
  | (k, v) :: kvs => by
    have h1 := need_le_depth v
    have h2 := needKV_le_depth kvs
    simp only [needKV, encodeKVs, J.depthKV]; omega
end

theorem decodeValue_encodeValue (v : Value) (hw : vWF v = true) (hr : vNoReserved v = true) :
    decodeValue (encodeValue v) = .ok v := by
  have := need_le_depth v
  exact decode_encode v _ (by omega) hw hr

/-! ### `Value.beq` is reflexive -/

theorem subL_of_mem : ∀ (xs ys : List Value), (∀ x ∈ xs, x ∈ ys ∧ Value.beq x x = true) → Value.subL xs ys = true
  | [], _, _ => by simp [Value.subL]
  | x :: xs, ys, h => by
    simp only [Value.subL, Bool.and_eq_true, List.any_eq_true]
    refine ⟨⟨x, (h x (by simp)).1, (h x (by simp)).2⟩, subL_of_mem xs ys (fun y hy => h y (by simp [hy]))⟩

theorem supL_of_cover : ∀ (xs ys : List Value), (∀ y ∈ ys, ∃ x ∈ xs, Value.beq x y = true) → Value.supL xs ys = true
  | [], ys, h => by
    cases ys with
    | nil => simp [Value.supL]
    | cons y ys => obtain ⟨x, hx, _⟩ := h y (by simp); simp at hx
  | x :: xs, ys, h => by
    simp only [Value.supL]
    apply supL_of_cover xs
    intro y hy
    simp only [List.mem_filter, Bool.not_eq_true'] at hy
    obtain ⟨x0, hx0, hb⟩ := h y hy.1
    simp only [List.mem_cons] at hx0
    cases hx0 with
    | inl e => subst e; rw [hy.2] at hb; cases hb
    | inr m => exact ⟨x0, m, hb⟩

mutual
theorem beq_refl : ∀ (v : Value), Value.beq v v = true
  | .bool _ => by simp [Value.beq]
  | .long _ => by simp [Value.beq]
  | .str _ => by simp [Value.beq]
  | .entity _ _ => by simp [Value.beq]
  | .decimal _ => by simp [Value.beq]
  | .datetime _ => by simp [Value.beq]
  | .duration _ => by simp [Value.beq]
  | .ip _ => by simp [Value.beq]
  | .set xs => by
    have ih := beq_reflL xs
    simp only [Value.beq, Bool.and_eq_true]
    exact ⟨subL_of_mem xs xs (fun x hx => ⟨hx, ih x hx⟩), supL_of_cover xs xs (fun y hy => ⟨y, hy, ih y hy⟩)⟩
  | .record kvs => by simp only [Value.beq]; exact beq_reflKV kvs
theorem beq_reflL : ∀ (xs : List Value), ∀ x ∈ xs, Value.beq x x = true
  | [], _, h => by simp at h
  | v :: vs, x, h => by
    simp only [List.mem_cons] at h
    cases h with
    | inl e => subst e; exact beq_refl x
    | inr m => exact beq_reflL vs x m
theorem beq_reflKV : ∀ (kvs : List (String × Value)), Value.beqKV kvs kvs = true
  | [] => by simp [Value.beqKV]
  | (k, v) :: kvs => by simp [Value.beqKV, beq_refl v, beq_reflKV kvs]
end

/-! ### Deciding concrete decoder outcomes (`Value` has no `DecidableEq`) -/

def isOkEntity (r : R Value) (t i : String) : Bool :=
  match r with | .ok (.entity t' i') => t' == t && i' == i | _ => false

theorem isOkEntity_eq {r : R Value} {t i : String} (h : isOkEntity r t i = true) : r = .ok (.entity t i) := by
  unfold isOkEntity at h
  split at h
  · simp only [Bool.and_eq_true, beq_iff_eq] at h; rw [h.1, h.2]
  · cases h

def isReject {α} (r : R α) : Bool := match r with | .error .reject => true | _ => false

theorem isReject_eq {α} {r : R α} (h : isReject r = true) : r = .error .reject := by
  unfold isReject at h
  split at h
  · rfl
  · cases h

/-! ### Entities and requests -/

theorem mapKVR_decodeValue : ∀ (kvs : List (String × Value)), wfJsonKV kvs = true → noReservedKeysKV kvs = true →
    mapKVR decodeValue (encodeKVs kvs) = .ok kvs
  | [], _, _ => rfl
  | (k, v) :: kvs, hw, hr => by
    simp only [wfJsonKV, Bool.and_eq_true] at hw
    simp only [noReservedKeysKV, Bool.and_eq_true] at hr
    simp only [encodeKVs, mapKVR, decodeValue_encodeValue v hw.1 hr.1.2, mapKVR_decodeValue kvs hw.2 hr.2]

theorem decodeUID_implicit (u : UID) : decodeUID (implicitUID u) = .ok u := by
  have h5 : keyMatches "id" "type" = false := by decide +kernel
  have h6 : keyMatches "type" "type" = true := by decide +kernel
  have h7 : keyMatches "id" "id" = true := by decide +kernel
  have h8 : keyMatches "type" "id" = false := by decide +kernel
  have h9 : keyMatches "id" "__entity" = false := by decide +kernel
  have h10 : keyMatches "type" "__entity" = false := by decide +kernel
  simp [decodeUID, implicitUID, findField, List.filter, optStrField, h5, h6, h7, h8, h9, h10, bind, Except.bind]

theorem mapMR_decodeUID : ∀ (us : List UID), mapMR decodeUID (us.map implicitUID) = .ok us
  | [] => rfl
  | u :: us => by simp only [List.map, mapMR, decodeUID_implicit, mapMR_decodeUID us]

/-- record-typed struct field holding the encoding of a well-formed record -/
def recordWF (kvs : List (String × Value)) : Bool := wfJsonKV kvs && keysSorted kvs && noReservedKeysKV kvs

theorem decodeRecord_obj (kvs : List (String × Value)) (h : recordWF kvs = true) :
    (do match mkRecord (← mapKVR decodeValue (encodeKVs kvs)) with
        | .record r => (.ok r : R (List (String × Value)))
        | _ => .ok []) = .ok kvs := by
  simp only [recordWF, Bool.and_eq_true] at h
  simp only [mapKVR_decodeValue kvs h.1.1 h.2, bind, Except.bind, mkRecord_sorted kvs h.1.2]

theorem decodeRecordField_of (kvs : List (String × J)) (f : String) (r : List (String × Value))
    (hf : findField kvs f = .one (.obj (encodeKVs r))) (h : recordWF r = true) : decodeRecordField kvs f = .ok r := by
  simp only [decodeRecordField, hf]
  exact decodeRecord_obj r h

theorem decodeUIDField_of (kvs : List (String × J)) (f : String) (j : J) (hf : findField kvs f = .one j) :
    decodeUIDField kvs f = decodeUID j := by
  simp only [decodeUIDField, hf]

end CedarGo.JsonModel
