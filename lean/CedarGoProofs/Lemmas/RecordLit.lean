/-
  Shared lemmas about the evaluation order of a record literal (used by C01, C04, C06, C09, C10, C14, C15).

  Since the repair of `recordLiteralEval.Eval` (it used to range over a Go map) a record literal evaluates
  its entries the way the repaired code does: `ToEval` stores them in a map (a later duplicate key
  overwrites the earlier one), evaluation visits the distinct keys in ascending byte order, the first
  error wins.  `canonKVs` (Model/Value.lean) is that order;

      eval (.record kes) env = (evalKVs (canonKVs kes) env).bind (fun kvs => .ok (mkRecord kvs))      (`eval_recordLit`)

  Everything a proof needs about `canonKVs`: its entries are entries of the list (`canonKVs_subset`), it
  commutes with maps on the payload (`canonKVs_map`), it is key-sorted (`canonKVs_sorted`), idempotent,
  the identity on strictly key-sorted lists, and it forgets the order of a list with distinct keys
  (`canonKVs_perm`).
-/
import CedarGo.Model.Eval
namespace CedarGo

/-! ### `insKey` / `canonKVs` -/

abbrev KeysSorted {α : Type} (l : List (String × α)) : Prop := l.Pairwise (fun a b => a.1 < b.1)

theorem insKey_mem_imp {α : Type} (k : String) (v : α) (acc : List (String × α)) (x : String × α)
    (h : x ∈ insKey k v acc) : x = (k, v) ∨ x ∈ acc := by
  induction acc with
  | nil => simp [insKey] at h; exact .inl h
  | cons kv rest ih =>
    obtain ⟨k', v'⟩ := kv
    simp only [insKey] at h
    split at h
    · simp only [List.mem_cons] at h ⊢; rcases h with h | h | h <;> simp [h]
    · split at h
      · simp only [List.mem_cons] at h ⊢; rcases h with h | h <;> simp [h]
      · simp only [List.mem_cons] at h ⊢
        rcases h with h | h
        · simp [h]
        · rcases ih h with h | h <;> simp [h]

theorem insKey_mem_of_fresh {α : Type} (k : String) (v : α) (acc : List (String × α)) (hk : k ∉ acc.map (·.1))
    (x : String × α) : x ∈ insKey k v acc ↔ x = (k, v) ∨ x ∈ acc := by
  induction acc with
  | nil => simp [insKey]
  | cons kv rest ih =>
    obtain ⟨k', v'⟩ := kv
    simp only [List.map_cons, List.mem_cons, not_or] at hk
    simp only [insKey]
    split
    · simp
    · split
      · rename_i _ heq
        exact absurd (by simpa using heq) hk.1
      · simp only [List.mem_cons, ih hk.2]
        constructor <;> (intro h; rcases h with h | h | h <;> simp [h])

theorem insKey_sorted {α : Type} (k : String) (v : α) (acc : List (String × α)) (hs : KeysSorted acc) :
    KeysSorted (insKey k v acc) := by
  unfold KeysSorted at *
  induction acc with
  | nil => simp [insKey]
  | cons kv rest ih =>
    obtain ⟨k', v'⟩ := kv
    have hc := List.pairwise_cons.mp hs
    simp only [insKey]
    split
    · rename_i hlt
      refine List.pairwise_cons.mpr ⟨?_, hs⟩
      intro b hb
      cases hb with
      | head => exact hlt
      | tail _ hb => exact String.lt_trans hlt (hc.1 b hb)
    · rename_i hnlt
      split
      · rename_i heq
        have e : k = k' := by simpa using heq
        subst e
        exact List.pairwise_cons.mpr ⟨hc.1, hc.2⟩
      · rename_i hne
        have hne' : k ≠ k' := by simpa using hne
        have hlt : k' < k := by
          rcases String.le_total k k' with h | h
          · exact absurd (String.le_antisymm h (String.not_lt.mp hnlt)) hne'
          · exact String.not_le.mp (fun hle => hne' (String.le_antisymm hle h))
        refine List.pairwise_cons.mpr ⟨?_, ih hc.2⟩
        intro b hb
        rcases insKey_mem_imp k v rest b hb with h | h
        · rw [h]; exact hlt
        · exact hc.1 b h

/-- `canonKVs` with an explicit accumulator -/
def canonFrom {α : Type} (acc l : List (String × α)) : List (String × α) :=
  l.foldl (fun acc kv => insKey kv.1 kv.2 acc) acc

theorem canonKVs_eq_from {α : Type} (l : List (String × α)) : canonKVs l = canonFrom [] l := rfl

theorem canonFrom_subset {α : Type} (l acc : List (String × α)) : ∀ x ∈ canonFrom acc l, x ∈ acc ∨ x ∈ l := by
  induction l generalizing acc with
  | nil => intro x hx; exact .inl hx
  | cons kv rest ih =>
    intro x hx
    have : canonFrom acc (kv :: rest) = canonFrom (insKey kv.1 kv.2 acc) rest := rfl
    rw [this] at hx
    rcases ih _ x hx with h | h
    · rcases insKey_mem_imp _ _ _ _ h with h | h
      · exact .inr (by rw [h]; simp)
      · exact .inl h
    · exact .inr (by simp [h])

/-- the entries a record literal evaluates are entries of the literal -/
theorem canonKVs_subset {α : Type} (l : List (String × α)) : ∀ x ∈ canonKVs l, x ∈ l := by
  intro x hx
  rcases canonFrom_subset l [] x hx with h | h
  · cases h
  · exact h

theorem canonFrom_sorted {α : Type} (l acc : List (String × α)) (hs : KeysSorted acc) : KeysSorted (canonFrom acc l) := by
  induction l generalizing acc with
  | nil => exact hs
  | cons kv rest ih => exact ih _ (insKey_sorted _ _ _ hs)

/-- …in strictly ascending key order -/
theorem canonKVs_sorted {α : Type} (l : List (String × α)) : KeysSorted (canonKVs l) :=
  canonFrom_sorted l [] (by simp [KeysSorted])

theorem insKey_map {α β : Type} (f : α → β) (k : String) (x : α) (l : List (String × α)) :
    insKey k (f x) (l.map (fun kv => (kv.1, f kv.2))) = (insKey k x l).map (fun kv => (kv.1, f kv.2)) := by
  induction l with
  | nil => rfl
  | cons kv rest ih =>
    obtain ⟨k', x'⟩ := kv
    simp only [List.map_cons, insKey]
    split
    · rfl
    · split
      · rfl
      · simp only [List.map_cons, ih]

theorem canonFrom_map {α β : Type} (f : α → β) (l acc : List (String × α)) :
    canonFrom (acc.map (fun kv => (kv.1, f kv.2))) (l.map (fun kv => (kv.1, f kv.2))) =
      (canonFrom acc l).map (fun kv => (kv.1, f kv.2)) := by
  induction l generalizing acc with
  | nil => rfl
  | cons kv rest ih =>
    have h1 : canonFrom acc (kv :: rest) = canonFrom (insKey kv.1 kv.2 acc) rest := rfl
    have h2 : canonFrom (acc.map (fun kv => (kv.1, f kv.2))) ((kv :: rest).map (fun kv => (kv.1, f kv.2))) =
        canonFrom (insKey kv.1 (f kv.2) (acc.map (fun kv => (kv.1, f kv.2)))) (rest.map (fun kv => (kv.1, f kv.2))) := rfl
    rw [h1, h2, insKey_map, ih]

/-- the order only looks at the keys: it commutes with a map on the payloads -/
theorem canonKVs_map {α β : Type} (f : α → β) (l : List (String × α)) :
    canonKVs (l.map (fun kv => (kv.1, f kv.2))) = (canonKVs l).map (fun kv => (kv.1, f kv.2)) :=
  canonFrom_map f l []

theorem insKey_of_lt_all {α : Type} (k : String) (x : α) (l : List (String × α)) (h : ∀ kv ∈ l, kv.1 < k) :
    insKey k x l = l ++ [(k, x)] := by
  induction l with
  | nil => rfl
  | cons kv rest ih =>
    obtain ⟨k', x'⟩ := kv
    have hk : k' < k := h (k', x') (by simp)
    have h1 : ¬ k < k' := String.lt_asymm hk
    have h2 : (k == k') = false := by
      simp only [beq_eq_false_iff_ne, ne_eq]
      intro e; subst e; exact String.lt_irrefl _ hk
    simp only [insKey, h1, h2, if_false, Bool.false_eq_true, List.cons_append]
    rw [ih (fun kv hkv => h kv (by simp [hkv]))]

theorem canonFrom_of_sorted {α : Type} (l acc : List (String × α)) (hs : KeysSorted (acc ++ l)) :
    canonFrom acc l = acc ++ l := by
  induction l generalizing acc with
  | nil => simp [canonFrom]
  | cons kv rest ih =>
    have h1 : canonFrom acc (kv :: rest) = canonFrom (insKey kv.1 kv.2 acc) rest := rfl
    have hlt : ∀ x ∈ acc, x.1 < kv.1 := by
      intro x hx
      have := List.pairwise_append.mp hs
      exact this.2.2 x hx kv (by simp)
    rw [h1, insKey_of_lt_all _ _ _ hlt]
    have : acc ++ [(kv.1, kv.2)] ++ rest = acc ++ kv :: rest := by simp
    rw [ih _ (by rw [this]; exact hs), this]

/-- a literal whose keys are already strictly ascending is evaluated in source order -/
theorem canonKVs_of_sorted {α : Type} (l : List (String × α)) (hs : KeysSorted l) : canonKVs l = l := by
  have := canonFrom_of_sorted l [] (by simpa using hs)
  rw [canonKVs_eq_from]; simpa using this

theorem canonKVs_idem {α : Type} (l : List (String × α)) : canonKVs (canonKVs l) = canonKVs l :=
  canonKVs_of_sorted _ (canonKVs_sorted l)

theorem canonFrom_spec {α : Type} (l acc : List (String × α)) (nd : (l.map (·.1)).Nodup)
    (hd : ∀ kv ∈ l, kv.1 ∉ acc.map (·.1)) : ∀ x, x ∈ canonFrom acc l ↔ x ∈ acc ∨ x ∈ l := by
  induction l generalizing acc with
  | nil => simp [canonFrom]
  | cons kv rest ih =>
    obtain ⟨k, v⟩ := kv
    have hn := List.nodup_cons.mp nd
    have hfresh : k ∉ acc.map (·.1) := hd (k, v) (by simp)
    have hmem := insKey_mem_of_fresh k v acc hfresh
    have hd' : ∀ kv' ∈ rest, kv'.1 ∉ (insKey k v acc).map (·.1) := by
      intro kv' hkv' hin
      obtain ⟨y, hy, hy1⟩ := List.mem_map.mp hin
      rcases (hmem y).mp hy with h | h
      · rw [h] at hy1
        exact hn.1 (List.mem_map.mpr ⟨kv', hkv', hy1.symm⟩)
      · exact hd kv' (by simp [hkv']) (List.mem_map.mpr ⟨y, h, hy1⟩)
    have b := ih (insKey k v acc) hn.2 hd'
    intro x
    have : canonFrom acc ((k, v) :: rest) = canonFrom (insKey k v acc) rest := rfl
    rw [this, b x, hmem x]
    simp only [List.mem_cons]
    constructor
    · rintro ((h | h) | h)
      · exact .inr (.inl h)
      · exact .inl h
      · exact .inr (.inr h)
    · rintro (h | h | h)
      · exact .inl (.inr h)
      · exact .inl (.inl h)
      · exact .inr h

theorem KeysSorted.nodup {α : Type} {l : List (String × α)} (h : KeysSorted l) : l.Nodup := by
  unfold KeysSorted at h
  exact h.imp (fun {a b} hab heq => by rw [heq] at hab; exact String.lt_irrefl _ hab)

/-- with distinct keys (a Go map) the evaluation order does not depend on the order in which the entries
    are listed -/
theorem canonKVs_perm {α : Type} {l₁ l₂ : List (String × α)} (hp : l₁.Perm l₂) (nd : (l₁.map (·.1)).Nodup) :
    canonKVs l₁ = canonKVs l₂ := by
  have nd2 : (l₂.map (·.1)).Nodup := (hp.map _).nodup nd
  have s1 := canonKVs_sorted l₁
  have s2 := canonKVs_sorted l₂
  have m1 := canonFrom_spec l₁ [] nd (by simp)
  have m2 := canonFrom_spec l₂ [] nd2 (by simp)
  have hperm : (canonKVs l₁).Perm (canonKVs l₂) := by
    rw [List.perm_ext_iff_of_nodup s1.nodup s2.nodup]
    intro x
    rw [canonKVs_eq_from, canonKVs_eq_from, m1, m2]
    simp [hp.mem_iff]
  exact List.Perm.eq_of_pairwise (le := fun a b => a.1 < b.1)
    (fun a b _ _ h1 h2 => absurd h2 (String.lt_asymm h1)) s1 s2 hperm

/-- with distinct keys every entry is evaluated -/
theorem canonKVs_mem_iff {α : Type} (l : List (String × α)) (nd : (l.map (·.1)).Nodup) (x : String × α) :
    x ∈ canonKVs l ↔ x ∈ l := by
  rw [canonKVs_eq_from, canonFrom_spec l [] nd (by simp)]; simp

theorem canonKVs_keys_perm {α : Type} (l : List (String × α)) (nd : (l.map (·.1)).Nodup) : (canonKVs l).Perm l := by
  have hn : l.Nodup :=
    (List.pairwise_map.mp nd).imp (fun h heq => h (by rw [heq]))
  rw [List.perm_ext_iff_of_nodup (canonKVs_sorted l).nodup hn]
  exact canonKVs_mem_iff l nd

theorem insKey_self_mem {α : Type} (k : String) (x : α) (acc : List (String × α)) : (k, x) ∈ insKey k x acc := by
  induction acc with
  | nil => simp [insKey]
  | cons kv rest ih =>
    obtain ⟨k', x'⟩ := kv
    simp only [insKey]
    split
    · simp
    · split
      · simp
      · exact List.mem_cons_of_mem _ ih

theorem insKey_mem_of_ne {α : Type} (k : String) (x : α) (acc : List (String × α)) (kv : String × α)
    (h : kv ∈ acc) (hne : kv.1 ≠ k) : kv ∈ insKey k x acc := by
  induction acc with
  | nil => cases h
  | cons kv' rest ih =>
    obtain ⟨k', x'⟩ := kv'
    simp only [insKey]
    split
    · exact List.mem_cons_of_mem _ h
    · split
      · rename_i _ heq
        have e : k = k' := by simpa using heq
        rcases List.mem_cons.mp h with h | h
        · rw [h] at hne; exact absurd e.symm hne
        · exact List.mem_cons_of_mem _ h
      · rcases List.mem_cons.mp h with h | h
        · rw [h]; exact List.mem_cons_self
        · exact List.mem_cons_of_mem _ (ih h)

/-- an entry already stored stays when no later entry has its key -/
theorem canonFrom_mem_of_fresh {α : Type} (l acc : List (String × α)) (kv : String × α) (h : kv ∈ acc)
    (hf : ∀ y ∈ l, y.1 ≠ kv.1) : kv ∈ canonFrom acc l := by
  induction l generalizing acc with
  | nil => exact h
  | cons y rest ih =>
    have h1 : canonFrom acc (y :: rest) = canonFrom (insKey y.1 y.2 acc) rest := rfl
    rw [h1]
    exact ih _ (insKey_mem_of_ne _ _ _ _ h (fun e => hf y (by simp) e.symm)) (fun z hz => hf z (by simp [hz]))


theorem kvInsert_eq_insKey (k : String) (v : Value) (l : List (String × Value)) : kvInsert k v l = insKey k v l := by
  induction l with
  | nil => rfl
  | cons kv rest ih => obtain ⟨k', v'⟩ := kv; simp only [kvInsert, insKey, ih]

/-- `types.NewRecord`: the record lists its entries the way `canonKVs` does -/
theorem mkRecord_eq_canon (kvs : List (String × Value)) : mkRecord kvs = .record (canonKVs kvs) := by
  unfold mkRecord canonKVs
  congr 1
  generalize ([] : List (String × Value)) = acc
  induction kvs generalizing acc with
  | nil => rfl
  | cons kv rest _ => simp only [List.foldl_cons, kvInsert_eq_insKey]

theorem mkRecord_canon (kvs : List (String × Value)) : mkRecord (canonKVs kvs) = mkRecord kvs := by
  rw [mkRecord_eq_canon, mkRecord_eq_canon, canonKVs_idem]

/-! ### the record literal -/

theorem evalEach_eq_map (kes : List (String × Expr)) (env : Env) :
    evalEach kes env = kes.map (fun ke => (ke.1, eval ke.2 env)) := by
  induction kes with
  | nil => rfl
  | cons ke kes ih => obtain ⟨k, e⟩ := ke; simp only [evalEach, List.map_cons, ih]

theorem seqKVs_map_eval (l : List (String × Expr)) (env : Env) :
    seqKVs (l.map (fun ke => (ke.1, eval ke.2 env))) = evalKVs l env := by
  induction l with
  | nil => rfl
  | cons ke l ih => obtain ⟨k, e⟩ := ke; simp only [List.map_cons, seqKVs, evalKVs, ih]

/-- **What a record literal evaluates**: the entries of the map `ToEval` builds, distinct keys in
    ascending order, first error wins; then `NewRecord`. -/
theorem eval_recordLit (kes : List (String × Expr)) (env : Env) :
    eval (.record kes) env = (evalKVs (canonKVs kes) env).bind (fun kvs => .ok (mkRecord kvs)) := by
  rw [eval, evalEach_eq_map, canonKVs_map (fun e => eval e env), seqKVs_map_eval]
  rfl

/-- `evalKVs` only looks at each entry's own result -/
theorem evalKVs_congr_results (l l' : List (String × Expr)) (env env' : Env)
    (h : l.map (fun ke => (ke.1, eval ke.2 env)) = l'.map (fun ke => (ke.1, eval ke.2 env'))) :
    evalKVs l env = evalKVs l' env' := by
  rw [← seqKVs_map_eval, ← seqKVs_map_eval, h]

/-- two literals with the same keys whose entries evaluate alike evaluate alike -/
theorem eval_recordLit_congr (kes kes' : List (String × Expr)) (env env' : Env)
    (h : kes.map (fun ke => (ke.1, eval ke.2 env)) = kes'.map (fun ke => (ke.1, eval ke.2 env'))) :
    eval (.record kes) env = eval (.record kes') env' := by
  rw [eval, eval, evalEach_eq_map, evalEach_eq_map, h]

/-- mapping a meaning-preserving transformation over the entries of a literal preserves its meaning -/
theorem eval_recordLit_map (f : Expr → Expr) (kes : List (String × Expr)) (env : Env)
    (h : ∀ ke ∈ kes, eval (f ke.2) env = eval ke.2 env) :
    eval (.record (kes.map (fun ke => (ke.1, f ke.2)))) env = eval (.record kes) env := by
  apply eval_recordLit_congr
  rw [List.map_map]
  apply List.map_congr_left
  intro ke hke
  simp only [Function.comp, h ke hke]

/-- listing the entries of a literal in `canonKVs` order (what the JSON round trip does) preserves its meaning -/
theorem eval_recordLit_canon (kes : List (String × Expr)) (env : Env) :
    eval (.record (canonKVs kes)) env = eval (.record kes) env := by
  rw [eval_recordLit, eval_recordLit, canonKVs_idem]

/-- a literal with distinct keys means the same in whatever order its entries are listed -/
theorem eval_recordLit_perm (kes₁ kes₂ : List (String × Expr)) (env : Env) (hp : kes₁.Perm kes₂)
    (nd : (kes₁.map (·.1)).Nodup) : eval (.record kes₁) env = eval (.record kes₂) env := by
  rw [eval_recordLit, eval_recordLit, canonKVs_perm hp nd]

/-! ### `evalKVs`: first error wins -/

/-- the value an entry evaluates to (junk if it errors) -/
def entryVal (env : Env) (ke : String × Expr) : String × Value :=
  (ke.1, match eval ke.2 env with | .ok v => v | .error _ => default)

theorem evalKVs_ok_of_all_ok (kes : List (String × Expr)) (env : Env)
    (h : ∀ ke ∈ kes, ∃ v, eval ke.2 env = .ok v) : evalKVs kes env = .ok (kes.map (entryVal env)) := by
  induction kes with
  | nil => simp [evalKVs]
  | cons ke kes ih =>
    obtain ⟨k, e⟩ := ke
    obtain ⟨v, hv⟩ := h (k, e) (by simp)
    have := ih (fun ke hke => h ke (by simp [hke]))
    simp only [evalKVs, hv, this, bind, Except.bind, List.map_cons, entryVal]

theorem evalKVs_error_mem (kes : List (String × Expr)) (env : Env) (err : Err)
    (h : evalKVs kes env = .error err) : ∃ ke ∈ kes, eval ke.2 env = .error err := by
  induction kes with
  | nil => simp [evalKVs] at h
  | cons ke kes ih =>
    obtain ⟨k, e⟩ := ke
    simp only [evalKVs, bind, Except.bind] at h
    cases hv : eval e env with
    | error e' =>
      rw [hv] at h; simp at h
      exact ⟨(k, e), by simp, by rw [hv, h]⟩
    | ok v =>
      rw [hv] at h; simp only at h
      cases hr : evalKVs kes env with
      | error e' =>
        rw [hr] at h; simp at h
        obtain ⟨ke, hke, he⟩ := ih (by rw [hr, h])
        exact ⟨ke, by simp [hke], he⟩
      | ok vs => rw [hr] at h; simp at h

theorem evalKVs_error_of_mem (kes : List (String × Expr)) (env : Env) (ke : String × Expr) (err : Err)
    (hm : ke ∈ kes) (he : eval ke.2 env = .error err) : ∃ err', evalKVs kes env = .error err' := by
  cases h : evalKVs kes env with
  | error e' => exact ⟨e', rfl⟩
  | ok kvs =>
    exfalso
    induction kes generalizing kvs with
    | nil => simp at hm
    | cons x kes ih =>
      obtain ⟨k, e⟩ := x
      simp only [evalKVs, bind, Except.bind] at h
      cases hv : eval e env with
      | error e' => rw [hv] at h; simp at h
      | ok v =>
        rw [hv] at h; simp only at h
        cases hr : evalKVs kes env with
        | error e' => rw [hr] at h; simp at h
        | ok vs =>
          cases hm with
          | head => simp only at he; rw [he] at hv; cases hv
          | tail _ hm => exact ih hm vs hr



end CedarGo
