/-
  Helper lemmas for C08 (values): MEANING of the expression a `NodeValue` is read back as.

  * `eval_valExpr`: for every value of `valOK`, `valExpr v` evaluates to `v` itself in every environment —
    constructor calls by the C12 round trips `parse (print x) = x`, set literals because `NewSet` of duplicate-free
    members keeps them all in order, record literals because strictly ascending keys are already in evaluation order;
  * `eval_desugar`: replacing every `NodeValue` of an expression by that expression changes no evaluation result.
-/
import CedarGoProofs.Properties.C12
import CedarGoProofs.Lemmas.C08Values
namespace CedarGo.Text
open CedarGo

/-! ## `NewSet` on duplicate-free members -/

theorem dedupV_of_noDup : ∀ (xs acc : List Value), noDupB acc xs = true → dedupV acc xs = acc.reverse ++ xs
  | [], acc, _ => by simp [dedupV]
  | x :: xs, acc, h => by
    simp only [noDupB, Bool.and_eq_true, Bool.not_eq_true'] at h
    simp only [dedupV, h.1, Bool.false_eq_true, ↓reduceIte]
    rw [dedupV_of_noDup xs (x :: acc) h.2]
    simp

theorem mkSet_of_noDup (xs : List Value) (h : noDupB [] xs = true) : mkSet xs = .set xs := by
  simp [mkSet, dedupV_of_noDup xs [] h]

/-! ## extension constructors on the text form -/

theorem eval_ctor (fn s : String) (env : Env) (hfn : fn = "decimal" ∨ fn = "datetime" ∨ fn = "duration" ∨ fn = "ip") :
    eval (.call fn [.lit (.str s)]) env = callExt fn [.str s] := by
  rcases hfn with rfl | rfl | rfl | rfl <;>
    simp [eval, evalTyped, extLookup, extMap, extSig, checkKind, partialErrorName, bind, Except.bind]

theorem inI64_of_B {n : Int} (h : inI64B n = true) : InI64 n := by
  simp only [inI64B, Bool.and_eq_true, decide_eq_true_eq] at h
  exact ⟨h.1, h.2⟩

theorem ipOK_valid {a : IPNet} (h : ipOK a = true) : a.Valid ∧ ¬ a.Is4In6 := by
  obtain ⟨v6, addr, bits⟩ := a
  cases v6 with
  | false =>
    simp only [ipOK, Bool.false_eq_true, ↓reduceIte, Bool.and_eq_true, decide_eq_true_eq] at h
    simp [IPNet.Valid, IPNet.Is4In6, h.1, h.2]
  | true =>
    simp only [ipOK, ↓reduceIte, Bool.and_eq_true, decide_eq_true_eq, Bool.not_eq_true', beq_eq_false_iff_ne, ne_eq] at h
    refine ⟨by simp [IPNet.Valid, h.1.1, h.1.2], ?_⟩
    simp only [IPNet.Is4In6, true_and]
    exact h.2

theorem keysSorted_valExprKVs (kvs : List (String × Value)) (h : keysAsc kvs = true) : KeysSorted (valExprKVs kvs) := by
  have hs := keysAsc_sorted kvs h
  have h1 : ((valExprKVs kvs).map (·.1)).Pairwise (· < ·) := by
    rw [valExprKVs_keys, List.pairwise_map]; exact hs
  rw [List.pairwise_map] at h1
  exact h1

/-! ## every value -/

mutual
/-- **`valExpr v` evaluates to `v`**, whatever the request and the entity store -/
theorem eval_valExpr : ∀ (v : Value), valOK v = true → ∀ env, eval (valExpr v) env = .ok v
  | .bool _, _, _ => by simp [valExpr, eval]
  | .long _, _, _ => by simp [valExpr, eval]
  | .str _, _, _ => by simp [valExpr, eval]
  | .entity _ _, _, _ => by simp [valExpr, eval]
  | .set xs, h, env => by
    simp only [valOK, Bool.and_eq_true] at h
    simp only [valExpr, eval, evalList_valExprs xs h.1 env, mkSet_of_noDup xs h.2, bind, Except.bind]
  | .record kvs, h, env => by
    simp only [valOK, Bool.and_eq_true] at h
    simp only [valExpr]
    rw [eval_recordLit, canonKVs_of_sorted _ (keysSorted_valExprKVs kvs h.2), evalKVs_valExprKVs kvs h.1 env]
    simp only [Except.bind, mkRecord_eq_canon, canonKVs_of_sorted _ (keysAsc_sorted kvs h.2)]
  | .decimal d, h, env => by
    simp only [valOK] at h
    simp only [valExpr]
    rw [eval_ctor _ _ _ (.inl rfl)]
    simp [callExt, C12_decimal_roundtrip d (inI64_of_B h), Except.map]
  | .datetime t, h, env => by
    simp only [valOK, Bool.and_eq_true, decide_eq_true_eq] at h
    simp only [valExpr]
    rw [eval_ctor _ _ _ (.inr (.inl rfl))]
    simp [callExt, C12_datetime_roundtrip_partial t h.1 h.2, Except.map]
  | .duration d, h, env => by
    simp only [valOK] at h
    simp only [valExpr]
    rw [eval_ctor _ _ _ (.inr (.inr (.inl rfl)))]
    simp [callExt, C12_duration_roundtrip d (inI64_of_B h), Except.map]
  | .ip a, h, env => by
    simp only [valOK] at h
    obtain ⟨hv, h4⟩ := ipOK_valid h
    simp only [valExpr]
    rw [eval_ctor _ _ _ (.inr (.inr (.inr rfl)))]
    simp [callExt, (C12_ip_roundtrip_iff a hv).2 h4, Except.map]
theorem evalList_valExprs : ∀ (xs : List Value), valsOK xs = true → ∀ env, evalList (valExprs xs) env = .ok xs
  | [], _, _ => rfl
  | v :: vs, h, env => by
    simp only [valsOK, Bool.and_eq_true] at h
    simp only [valExprs, evalList, eval_valExpr v h.1 env, evalList_valExprs vs h.2 env, bind, Except.bind]
theorem evalKVs_valExprKVs : ∀ (kvs : List (String × Value)), kvValsOK kvs = true → ∀ env,
    evalKVs (valExprKVs kvs) env = .ok kvs
  | [], _, _ => rfl
  | (k, v) :: rest, h, env => by
    simp only [kvValsOK, Bool.and_eq_true] at h
    simp only [valExprKVs, evalKVs, eval_valExpr v h.1 env, evalKVs_valExprKVs rest h.2 env, bind, Except.bind]
end

/-! ## replacing `NodeValue`s by what they are read back as preserves every evaluation -/

theorem desugarKVs_eq_map : ∀ (kes : List (String × Expr)), desugarKVs kes = kes.map (fun ke => (ke.1, desugar ke.2))
  | [] => rfl
  | (k, e) :: kes => by simp [desugarKVs, desugarKVs_eq_map kes]

mutual
theorem eval_desugar : ∀ (e : Expr), inFragGoV e = true → ∀ env, eval (desugar e) env = eval e env
  | .lit v, h, env => by
    simp only [inFragGoV] at h
    simp only [desugar, eval_valExpr v h env, eval]
  | .var v, _, _ => rfl
  | .unop op e, h, env => by
    have hh : inFragGoV e = true := by cases op <;> simp only [inFragGoV, Bool.and_eq_true] at h <;> first | exact h | exact h.1
    have ih := eval_desugar e hh
    cases op <;> simp only [desugar, eval, ih]
  | .binop op l r, h, env => by
    simp only [inFragGoV, Bool.and_eq_true] at h
    have ihl := eval_desugar l h.1
    have ihr := eval_desugar r h.2
    cases op <;> simp only [desugar, eval, ihl, ihr]
  | .ite c t e, h, env => by
    simp only [inFragGoV, Bool.and_eq_true] at h
    simp only [desugar, eval, eval_desugar c h.1.1, eval_desugar t h.1.2, eval_desugar e h.2]
  | .access e a, h, env => by
    simp only [inFragGoV] at h
    simp only [desugar, eval, eval_desugar e h]
  | .has e a, h, env => by
    simp only [inFragGoV] at h
    simp only [desugar, eval, eval_desugar e h]
  | .like e p, h, env => by
    simp only [inFragGoV, Bool.and_eq_true] at h
    simp only [desugar, eval, eval_desugar e h.1]
  | .is e ty, h, env => by
    simp only [inFragGoV, Bool.and_eq_true] at h
    simp only [desugar, eval, eval_desugar e h.1]
  | .isIn e ty r, h, env => by
    simp only [inFragGoV, Bool.and_eq_true] at h
    simp only [desugar, eval, eval_desugar e h.1.1, eval_desugar r h.2]
  | .set es, h, env => by
    simp only [inFragGoV] at h
    simp only [desugar, eval, evalList_desugar es h]
  | .record kes, h, env => by
    simp only [inFragGoV, Bool.and_eq_true] at h
    simp only [desugar]
    rw [desugarKVs_eq_map]
    exact eval_recordLit_map desugar kes env (evalKVs_desugar kes h.1 env)
  | .call fn args, h, env => by
    simp only [inFragGoV, Bool.and_eq_true] at h
    simp only [desugar, eval, evalTyped_desugar args h.2, desugarList_length args]
theorem evalList_desugar : ∀ (es : List Expr), inFragGoVList es = true → ∀ env, evalList (desugarList es) env = evalList es env
  | [], _, _ => rfl
  | e :: es, h, env => by
    simp only [inFragGoVList, Bool.and_eq_true] at h
    simp only [desugarList, evalList, eval_desugar e h.1 env, evalList_desugar es h.2 env]
theorem evalKVs_desugar : ∀ (kes : List (String × Expr)), inFragGoVKVs kes = true → ∀ env, ∀ ke ∈ kes,
    eval (desugar ke.2) env = eval ke.2 env
  | [], _, _ => by intro ke hk; cases hk
  | (k, e) :: kes, h, env => by
    simp only [inFragGoVKVs, Bool.and_eq_true] at h
    intro ke hk
    rcases List.mem_cons.mp hk with hk | hk
    · rw [hk]; exact eval_desugar e h.1 env
    · exact evalKVs_desugar kes h.2 env ke hk
theorem evalTyped_desugar : ∀ (es : List Expr), inFragGoVList es = true → ∀ (ks : List Kind) env,
    evalTyped (desugarList es) ks env = evalTyped es ks env
  | [], _, _, _ => rfl
  | e :: es, h, ks, env => by
    simp only [inFragGoVList, Bool.and_eq_true] at h
    simp only [desugarList, evalTyped, eval_desugar e h.1 env, evalTyped_desugar es h.2 ks.tail env]
theorem desugarList_length : ∀ (es : List Expr), (desugarList es).length = es.length
  | [] => rfl
  | e :: es => by simp [desugarList, desugarList_length es]
end

/-! ## policies -/

/-- two expressions that evaluate alike in `env` -/
def SameEval (env : Env) (a b : Expr) : Prop := eval a env = eval b env

/-- lists of pairwise `SameEval` expressions -/
inductive SameEvals (env : Env) : List Expr → List Expr → Prop where
  | nil : SameEvals env [] []
  | cons {a b : Expr} {l l' : List Expr} : SameEval env a b → SameEvals env l l' → SameEvals env (a :: l) (b :: l')

theorem eval_andAll_congr (env : Env) : ∀ {rest rest' : List Expr}, SameEvals env rest rest' →
    ∀ {e e' : Expr}, SameEval env e e' → eval (andAll e rest) env = eval (andAll e' rest') env
  | _, _, .nil, _, _, h => h
  | _, _, .cons hab hrest, e, e', h => by
    have ih := eval_andAll_congr env hrest hab
    unfold SameEval at h
    simp only [andAll, eval, h, ih]

theorem sameEvals_refl (env : Env) : ∀ (l : List Expr), SameEvals env l l
  | [] => .nil
  | _ :: l => .cons rfl (sameEvals_refl env l)

theorem sameEvals_conds (env : Env) : ∀ (cs : List (Bool × Expr)), cs.all (fun c => inFragGoV c.2) = true →
    SameEvals env ((desugarConds cs).map condToExpr) (cs.map condToExpr)
  | [], _ => .nil
  | (w, e) :: cs, h => by
    simp only [List.all_cons, Bool.and_eq_true] at h
    simp only [desugarConds, List.map_cons]
    refine .cons ?_ (sameEvals_conds env cs h.2)
    unfold SameEval condToExpr
    cases w <;> simp only [eval, eval_desugar e h.1 env, Bool.false_eq_true, ↓reduceIte]

theorem sameEvals_append (env : Env) : ∀ {a a' b b' : List Expr}, SameEvals env a a' → SameEvals env b b' →
    SameEvals env (a ++ b) (a' ++ b')
  | _, _, _, _, .nil, h => h
  | _, _, _, _, .cons h1 h2, h => .cons h1 (sameEvals_append env h2 h)

/-- the scope part of `PolicyToNode` -/
def scopeExprs (p : Policy) : List Expr :=
  if p.principal.isAll && p.action.isAll && p.resource.isAll then [.lit (.bool true)]
  else (if p.principal.isAll then [] else [scopeToExpr .principal p.principal])
    ++ (if p.action.isAll then [] else [scopeToExpr .action p.action])
    ++ (if p.resource.isAll then [] else [scopeToExpr .resource p.resource])

def conjOf : List Expr → Expr
  | [] => .lit (.bool true)
  | e :: rest => andAll e rest

theorem policyToExpr_eq (p : Policy) : policyToExpr p = conjOf (scopeExprs p ++ p.conditions.map condToExpr) := by
  unfold policyToExpr scopeExprs
  simp only
  split <;> simp_all [conjOf]

/-- the policy read back from the text evaluates like the policy that was written, on every request and store -/
theorem eval_policyToExpr_desugar (p : Policy) (h : p.conditions.all (fun c => inFragGoV c.2) = true) (env : Env) :
    eval (policyToExpr (desugarPolicy p)) env = eval (policyToExpr p) env := by
  rw [policyToExpr_eq, policyToExpr_eq]
  have hs : scopeExprs (desugarPolicy p) = scopeExprs p := rfl
  have hc : (desugarPolicy p).conditions = desugarConds p.conditions := rfl
  rw [hs, hc]
  have hall := sameEvals_append env (sameEvals_refl env (scopeExprs p)) (sameEvals_conds env p.conditions h)
  generalize scopeExprs p ++ (desugarConds p.conditions).map condToExpr = L at hall
  generalize scopeExprs p ++ p.conditions.map condToExpr = L' at hall
  cases hall with
  | nil => rfl
  | cons h1 h2 => exact eval_andAll_congr env h2 h1

end CedarGo.Text
