/-
  C07 ∘ C18 bridge, part 3: the scanning loops of the lexer on configurations (`cfg`): whitespace,
  identifiers, integers, line and block comments, hexadecimal digits, string bodies, operators.
-/
import CedarGoProofs.Lemmas.C07LexState
namespace CedarGo.Text
open Lx

/-! ## character classes on runes vs. characters -/

theorem isWhitespace_char (c : Char) : Lx.isWhitespace (Int.ofNat c.toNat) = isWsChar c := by
  simp only [Lx.isWhitespace, isWsChar]
  rw [Bool.eq_iff_iff]
  simp only [Bool.or_eq_true, beq_iff_eq, Int.ofNat_eq_natCast]
  unfold Rune; omega

theorem char_beq_toNat (c d : Char) : (c == d) = (c.toNat == d.toNat) := by
  rw [Bool.eq_iff_iff]; simp only [beq_iff_eq]
  exact ⟨fun h => by rw [h], fun h => Char.ext (UInt32.toNat_inj.1 h)⟩

theorem isDecimal_char (c : Char) : Lx.isDecimal (Int.ofNat c.toNat) = Text.isDecimal c := by
  simp only [Lx.isDecimal, Text.isDecimal]
  rw [Bool.eq_iff_iff]
  simp only [Bool.and_eq_true, decide_eq_true_eq, Int.ofNat_eq_natCast]
  unfold Rune; omega

theorem isIdentRune_char (c : Char) (first : Bool) : Lx.isIdentRune (Int.ofNat c.toNat) first = isIdentChar c first := by
  cases first <;>
  simp only [Lx.isIdentRune, isIdentChar, Lx.isDecimal, Text.isDecimal, Lx.isASCIILetter, char_beq_toNat, Bool.not_true, Bool.not_false,
    Bool.and_true, Bool.and_false, Bool.or_false] <;>
  rw [Bool.eq_iff_iff] <;>
  simp only [Bool.or_eq_true, Bool.and_eq_true, beq_iff_eq, decide_eq_true_eq, Int.ofNat_eq_natCast] <;>
  have : ('_' : Char).toNat = 95 := rfl <;>
  unfold Rune <;> omega

theorem isHexadecimal_char (c : Char) : Lx.isHexadecimal (Int.ofNat c.toNat) = isHexChar c := by
  simp only [Lx.isHexadecimal, isHexChar, Lx.isDecimal, Text.isDecimal]
  rw [Bool.eq_iff_iff]
  simp only [Bool.or_eq_true, Bool.and_eq_true, decide_eq_true_eq, Int.ofNat_eq_natCast]
  unfold Rune; omega

theorem rune_beq_nat (c : Char) (n : Nat) : ((Int.ofNat c.toNat : Rune) == (Int.ofNat n : Rune)) = (c.toNat == n) := by
  rw [Bool.eq_iff_iff]; simp only [beq_iff_eq]
  exact ⟨fun h => Int.ofNat.inj h, fun h => by rw [h]⟩

theorem rune_ne_eof (c : Char) : ((Int.ofNat c.toNat : Rune) == runeEOF) = false := by
  rw [beq_eq_false_iff_ne]; intro h
  have : (0 : Int) ≤ Int.ofNat c.toNat := Int.natCast_nonneg _
  rw [h] at this; simp [runeEOF] at this

theorem rune_nonneg (c : Char) : ¬ (Int.ofNat c.toNat : Rune) < 0 := by
  have : (0 : Int) ≤ Int.ofNat c.toNat := Int.natCast_nonneg _
  omega

/-- class of the look-ahead of a configuration, `false` at EOF -/
def headIs (P : Char → Bool) : List Char → Bool
  | [] => false
  | c :: _ => P c

/-! ## generic `for P(ch) { ch = s.next() }` loop -/

theorem while_cfg (L : Nat → Rune → PState → Rune × PState) (P : Rune → Bool) (Q : Char → Bool)
    (hL : ∀ f ch s, L (f + 1) ch s = if P ch then L f (pureSrc.next s).1 (pureSrc.next s).2 else (ch, s))
    (hPQ : ∀ c : Char, P (Int.ofNat c.toNat) = Q c) (hE : P runeEOF = false)
    (doc : List UInt8) (ts : Option Nat) (pos : Pos) :
    ∀ (xs : List Char) (f k : Nat) (X : List Char), (∀ c ∈ xs, Q c = true) → headIs Q X = false → NoNul (xs ++ X) →
      xs.length < f →
      L f (cfg doc k ts pos (xs ++ X)).1 (cfg doc k ts pos (xs ++ X)).2 = cfg doc (k + blen xs) ts pos X := by
  intro xs
  induction xs with
  | nil =>
    intro f k X _ hX _ hf
    obtain ⟨f, rfl⟩ : ∃ f', f = f' + 1 := ⟨f - 1, by omega⟩
    rw [hL]
    have : P (cfg doc k ts pos ([] ++ X)).1 = false := by
      cases X with
      | nil => exact hE
      | cons c X => simp only [List.nil_append, cfg_fst_cons, hPQ]; exact hX
    rw [this]
    simp [blen_nil]
  | cons c xs ih =>
    intro f k X hxs hX hn hf
    obtain ⟨f, rfl⟩ : ∃ f', f = f' + 1 := ⟨f - 1, by omega⟩
    rw [hL]
    have : P (cfg doc k ts pos (c :: xs ++ X)).1 = true := by
      simp only [List.cons_append, cfg_fst_cons, hPQ]; exact hxs c List.mem_cons_self
    rw [this, if_pos rfl, List.cons_append, next_cfg doc k ts pos c (xs ++ X) hn.tail]
    rw [ih f _ X (fun d hd => hxs d (List.mem_cons_of_mem _ hd)) hX hn.tail (by simp at hf; omega)]
    rw [blen_cons, Nat.add_assoc]

theorem skipWs_cfg (doc : List UInt8) (ts : Option Nat) (pos : Pos) (ws : List Char) (f k : Nat) (X : List Char)
    (hws : ∀ c ∈ ws, isWsChar c = true) (hX : headIs isWsChar X = false) (hn : NoNul (ws ++ X)) (hf : ws.length < f) :
    skipWhitespace pureSrc f (cfg doc k ts pos (ws ++ X)).1 (cfg doc k ts pos (ws ++ X)).2 = cfg doc (k + blen ws) ts pos X :=
  while_cfg (skipWhitespace pureSrc) Lx.isWhitespace isWsChar (fun _ _ _ => rfl) isWhitespace_char (by decide)
    doc ts pos ws f k X hws hX hn hf

theorem identLoop_cfg (doc : List UInt8) (ts : Option Nat) (pos : Pos) (xs : List Char) (f k : Nat) (X : List Char)
    (hxs : ∀ c ∈ xs, isIdentChar c false = true) (hX : headIs (isIdentChar · false) X = false) (hn : NoNul (xs ++ X))
    (hf : xs.length < f) :
    identLoop pureSrc f (cfg doc k ts pos (xs ++ X)).1 (cfg doc k ts pos (xs ++ X)).2 = cfg doc (k + blen xs) ts pos X :=
  while_cfg (identLoop pureSrc) (Lx.isIdentRune · false) (isIdentChar · false) (fun _ _ _ => rfl)
    (fun c => isIdentRune_char c false) (by decide) doc ts pos xs f k X hxs hX hn hf

theorem scanInteger_cfg (doc : List UInt8) (ts : Option Nat) (pos : Pos) (xs : List Char) (f k : Nat) (X : List Char)
    (hxs : ∀ c ∈ xs, Text.isDecimal c = true) (hX : headIs Text.isDecimal X = false) (hn : NoNul (xs ++ X))
    (hf : xs.length < f) :
    scanInteger pureSrc f (cfg doc k ts pos (xs ++ X)).1 (cfg doc k ts pos (xs ++ X)).2 = cfg doc (k + blen xs) ts pos X :=
  while_cfg (scanInteger pureSrc) Lx.isDecimal Text.isDecimal (fun _ _ _ => rfl) isDecimal_char (by decide)
    doc ts pos xs f k X hxs hX hn hf

theorem lineCommentLoop_cfg (doc : List UInt8) (ts : Option Nat) (pos : Pos) (xs : List Char) (f k : Nat) (X : List Char)
    (hxs : ∀ c ∈ xs, (c.toNat != 10) = true) (hX : headIs (·.toNat != 10) X = false) (hn : NoNul (xs ++ X))
    (hf : xs.length < f) :
    lineCommentLoop pureSrc f (cfg doc k ts pos (xs ++ X)).1 (cfg doc k ts pos (xs ++ X)).2 = cfg doc (k + blen xs) ts pos X :=
  while_cfg (lineCommentLoop pureSrc) (fun ch => ch != 10 && decide (ch ≥ 0)) (·.toNat != 10) (fun _ _ _ => rfl)
    (fun c => by
      have h1 := rune_beq_nat c 10
      have h2 : decide ((Int.ofNat c.toNat : Rune) ≥ 0) = true := by
        simp only [decide_eq_true_eq]; exact Int.natCast_nonneg _
      show (!((Int.ofNat c.toNat : Rune) == 10) && decide ((Int.ofNat c.toNat : Rune) ≥ 0)) = !(c.toNat == 10)
      rw [h2, Bool.and_true]; congr 1)
    (by decide) doc ts pos xs f k X hxs hX hn hf

end CedarGo.Text
