/-
  C17, text half — shared definitions of the proofs about the schema text LEXER / PARSER
  (CedarGo/Model/Schema/Parser.lean) and PRINTER (Text.lean):

  * `toksSchema s`   the TOKEN rendering of a schema: what the printer writes, token by token (no layout);
  * `normSchema s`   what the text parser makes of the printed text: declarations in the printer's (key) order,
                     annotations in key order, and every type node the text syntax cannot distinguish from a name
                     (String/Long/Bool/extension type nodes, explicit entity references) replaced by the type
                     reference of the name it is printed under;
  * `SchemaTextOk s` the decidable fragment of the text round-trip theorems.
-/
import CedarGo.Model.Schema.Parser
import CedarGo.Model.Schema.Json
import CedarGo.Model.Schema.Resolve
namespace CedarGo.Schema

/-! ## names -/

/-- the `::`-separated components of a name -/
def pathComps (n : String) : List String := (splitPathAux [] n.toList).map String.ofList

/-- what `parsePathRest` builds from the components -/
def joinPath : List String → String
  | [] => ""
  | c :: cs => cs.foldl (fun p s => p ++ "::" ++ s) c

/-- IDENT { '::' IDENT } where the first component may also be `__cedar` — what `parsePath` reads (type references,
    entity type references, the type part of an action parent) -/
def isTypePath (n : String) : Bool :=
  match pathComps n with
  | [] => false
  | f :: rest => (f == "__cedar" || isValidIdent f) && rest.all isValidIdent && joinPath (f :: rest) == n

/-- IDENT { '::' IDENT } (namespace names: no `__cedar` component) -/
def isNsPath (n : String) : Bool := (pathComps n).all isValidIdent && joinPath (pathComps n) == n

def nodupKeys : List String → Bool
  | [] => true
  | x :: xs => !xs.contains x && nodupKeys xs

/-! ## the token rendering -/

def toksPath (n : String) : List Tok :=
  match pathComps n with
  | [] => []
  | f :: rest => identTok f :: rest.flatMap fun c => [.dcolon, .ident c]

/-- `marshalActionName` / `marshalAttrName` -/
def toksName (s : String) : List Tok := if isValidIdent s then [.ident s] else [.str s]

def toksAnn (kv : String × String) : List Tok :=
  if kv.2 = "" then [.at, identTok kv.1] else [.at, identTok kv.1, .lparen, .str kv.2, .rparen]

def toksAnns (a : Anns) : List Tok := (sortedKV a).flatMap toksAnn

/-- items separated by commas -/
def commaSep : List (List Tok) → List Tok
  | [] => []
  | [x] => x
  | x :: y :: xs => x ++ [.comma] ++ commaSep (y :: xs)

mutual
def toksTy (sh : List String) : Ty → List Tok
  | .string => toksPath (builtinName sh "String")
  | .long => toksPath (builtinName sh "Long")
  | .bool => toksPath (builtinName sh "Bool")
  | .ext n => toksPath (builtinName sh n)
  | .set e => [.ident "Set", .langle] ++ toksTy sh e ++ [.rangle]
  | .record as => [.lbrace] ++ toksAttrs sh as ++ [.rbrace]
  | .entityRef n => toksPath n
  | .typeRef n => toksPath n
def toksAttrs (sh : List String) : Attrs → List Tok
  | .nil => []
  | .cons n o a t rest =>
    toksAnns a ++ toksName n ++ (if o then [.question] else []) ++ [.colon] ++ toksTy sh t ++
    (match rest with | .nil => [] | _ => [.comma]) ++ toksAttrs sh rest
end

def toksTypeRefs (refs : List String) : List Tok :=
  match refs with
  | [r] => toksPath r
  | _ => [.lbrack] ++ commaSep (refs.map toksPath) ++ [.rbrack]

def toksParentRef (p : String × String) : List Tok :=
  if p.1 = "" then toksName p.2 else toksPath p.1 ++ [.dcolon, .str p.2]

def toksParentRefs (refs : List (String × String)) : List Tok :=
  match refs with
  | [r] => toksParentRef r
  | _ => [.lbrack] ++ commaSep (refs.map toksParentRef) ++ [.rbrack]

def toksAppliesTo (sh : List String) (ap : AppliesTo) : List Tok :=
  let parts : List (List Tok) :=
    (if ap.principals.isEmpty then [] else [[.ident "principal", .colon] ++ toksTypeRefs ap.principals]) ++
    (if ap.resources.isEmpty then [] else [[.ident "resource", .colon] ++ toksTypeRefs ap.resources]) ++
    (match ap.context with | some t => [[.ident "context", .colon] ++ toksTy sh t] | none => [])
  [.ident "appliesTo", .lbrace] ++ commaSep parts ++ [.rbrace]

def toksCommon (sh : List String) (c : String × CommonType) : List Tok :=
  toksAnns c.2.anns ++ [.ident "type", .ident c.1, .equals] ++ toksTy sh c.2.ty ++ [.semi]

def toksEntity (sh : List String) (e : String × Entity) : List Tok :=
  toksAnns e.2.anns ++ [.ident "entity", .ident e.1] ++
  (if e.2.parents.isEmpty then [] else [.reserved "in"] ++ toksTypeRefs e.2.parents) ++
  (match e.2.shape with | some as => toksTy sh (.record as) | none => []) ++
  (match e.2.tags with | some t => [.ident "tags"] ++ toksTy sh t | none => []) ++ [.semi]

def toksEnum (e : String × Enum) : List Tok :=
  toksAnns e.2.anns ++ [.ident "entity", .ident e.1, .ident "enum", .lbrack] ++
  commaSep (e.2.values.map fun v => [.str v]) ++ [.rbrack, .semi]

def toksAction (sh : List String) (a : String × Action) : List Tok :=
  toksAnns a.2.anns ++ [.ident "action"] ++ toksName a.1 ++
  (if a.2.parents.isEmpty then [] else [.reserved "in"] ++ toksParentRefs a.2.parents) ++
  (match a.2.appliesTo with | some ap => toksAppliesTo sh ap | none => []) ++ [.semi]

/-- one token list per declaration, in the order of `printDecls` -/
def toksDecls (sh : List String) (d : Namespace) : List (List Tok) :=
  (sortedKV d.commonTypes).map (toksCommon sh) ++ (sortedKV d.entities).map (toksEntity sh) ++
  (sortedKV d.enums).map toksEnum ++ (sortedKV d.actions).map (toksAction sh)

def toksNamespace (bareNames : List String) (nd : String × Namespace) : List Tok :=
  toksAnns nd.2.anns ++ [.ident "namespace"] ++ toksPath nd.1 ++ [.lbrace] ++
  (toksDecls (declNames nd.2 ++ bareNames) nd.2).flatten ++ [.rbrace]

/-- the tokens of `printSchema s` (without the final `eof`) -/
def toksSchema (s : Schema) : List Tok :=
  (toksDecls (declNames s.bare) s.bare).flatten ++ (sortedKV s.namespaces).flatMap (toksNamespace (declNames s.bare))

/-! ## the normalisation the text trip applies -/

mutual
/-- type nodes the text syntax writes as a name come back as the type reference of that name -/
def normTy (sh : List String) : Ty → Ty
  | .string => .typeRef (builtinName sh "String")
  | .long => .typeRef (builtinName sh "Long")
  | .bool => .typeRef (builtinName sh "Bool")
  | .ext n => .typeRef (builtinName sh n)
  | .set e => .set (normTy sh e)
  | .record as => .record (normAttrs sh as)
  | .entityRef n => .typeRef n
  | .typeRef n => .typeRef n
def normAttrs (sh : List String) : Attrs → Attrs
  | .nil => .nil
  | .cons n o a t rest => .cons n o (sortedKV a) (normTy sh t) (normAttrs sh rest)
end

def normEntity (sh : List String) (e : Entity) : Entity :=
  { anns := sortedKV e.anns, parents := e.parents, shape := e.shape.map (normAttrs sh), tags := e.tags.map (normTy sh) }

def normEnum (e : Enum) : Enum := { anns := sortedKV e.anns, values := e.values }

def normAppliesTo (sh : List String) (ap : AppliesTo) : AppliesTo :=
  { principals := ap.principals, resources := ap.resources, context := ap.context.map (normTy sh) }

def normAction (sh : List String) (a : Action) : Action :=
  { anns := sortedKV a.anns, parents := a.parents, appliesTo := a.appliesTo.map (normAppliesTo sh) }

def normCommon (sh : List String) (c : CommonType) : CommonType := { anns := sortedKV c.anns, ty := normTy sh c.ty }

/-- the declarations of a namespace as the parser rebuilds them (annotations of the namespace itself: `anns`) -/
def normDecls (sh : List String) (anns : Anns) (d : Namespace) : Namespace :=
  { anns := anns
    entities := (sortedKV d.entities).map fun e => (e.1, normEntity sh e.2)
    enums := (sortedKV d.enums).map fun e => (e.1, normEnum e.2)
    actions := (sortedKV d.actions).map fun a => (a.1, normAction sh a.2)
    commonTypes := (sortedKV d.commonTypes).map fun c => (c.1, normCommon sh c.2) }

/-- **the stated normalisation** of `C17_schema_text_roundtrip_partial`:
    * every association list (declarations of each kind, namespaces, annotations) in ascending key order — the order
      in which the printer writes them (`slices.Sorted(maps.Keys(..))`); attribute lists of records keep their order;
    * annotations of the EMPTY namespace dropped (the text format has no place for them);
    * `String` / `Long` / `Bool` / extension type nodes and explicit entity references become the type reference of the
      name they are printed under (`Long`, or `__cedar::Long` when the current or the empty namespace declares a `Long`). -/
def normSchema (s : Schema) : Schema :=
  { bare := normDecls (declNames s.bare) [] s.bare
    namespaces := (sortedKV s.namespaces).map fun nd =>
      (nd.1, normDecls (declNames nd.2 ++ declNames s.bare) (sortedKV nd.2.anns) nd.2) }

/-! ## the fragment -/

/-- annotation keys are identifier-shaped (reserved words included) and distinct; values are arbitrary strings -/
def annsOk (a : Anns) : Bool := a.all (fun kv => isIdentLike kv.1) && nodupKeys (a.map (·.1))

def attrNames : Attrs → List String
  | .nil => []
  | .cons n _ _ _ rest => n :: attrNames rest

mutual
/-- every type node is printed as a path (`String`, `__cedar::Long`, `NS::T`, …), a `Set<…>` or a record whose attribute
    names (ARBITRARY strings: identifiers are written bare, everything else quoted) are distinct -/
def tyOk (sh : List String) : Ty → Bool
  | .string => isTypePath (builtinName sh "String")
  | .long => isTypePath (builtinName sh "Long")
  | .bool => isTypePath (builtinName sh "Bool")
  | .ext n => isTypePath (builtinName sh n)
  | .set e => tyOk sh e
  | .record as => attrsOk sh as && nodupKeys (attrNames as)
  | .entityRef n => isTypePath n
  | .typeRef n => isTypePath n
def attrsOk (sh : List String) : Attrs → Bool
  | .nil => true
  | .cons _ _ a t rest => annsOk a && tyOk sh t && attrsOk sh rest
end

def entityOk (sh : List String) (e : String × Entity) : Bool :=
  isValidIdent e.1 && annsOk e.2.anns && e.2.parents.all isTypePath &&
  (match e.2.shape with | some as => tyOk sh (.record as) | none => true) &&
  (match e.2.tags with | some t => tyOk sh t | none => true)

/-- enum values are arbitrary strings; at least one (the grammar requires it) -/
def enumOk (e : String × Enum) : Bool := isValidIdent e.1 && annsOk e.2.anns && !e.2.values.isEmpty

/-- action names and the ids of parents are ARBITRARY strings; `appliesTo` needs a principal and a resource list (an
    empty one has no text form: open finding `appliesTo-without-principal-or-resource-renders-unparseable`) -/
def actionOk (sh : List String) (a : String × Action) : Bool :=
  annsOk a.2.anns && a.2.parents.all (fun p => p.1 = "" || isTypePath p.1) &&
  (match a.2.appliesTo with
   | some ap => !ap.principals.isEmpty && !ap.resources.isEmpty && ap.principals.all isTypePath && ap.resources.all isTypePath &&
      (match ap.context with | some t => tyOk sh t | none => true)
   | none => true)

def commonOk (sh : List String) (c : String × CommonType) : Bool :=
  isValidIdent c.1 && !reservedTypeNames.contains c.1 && annsOk c.2.anns && tyOk sh c.2.ty

/-- the declarations of one namespace: names distinct per kind (entity types and enums share one name space) -/
def declsOk (sh : List String) (d : Namespace) : Bool :=
  d.entities.all (entityOk sh) && d.enums.all enumOk && d.actions.all (actionOk sh) && d.commonTypes.all (commonOk sh) &&
  nodupKeys (d.entities.map (·.1) ++ d.enums.map (·.1)) && nodupKeys (d.actions.map (·.1)) && nodupKeys (d.commonTypes.map (·.1))

/-- **the fragment of the text round-trip theorems** (decidable).  Every construct of the grammar is inside:
    declarations in the empty namespace and in any number of named namespaces, entity types with memberOf lists, shapes
    and tags, enum entity types, common types, actions with (qualified or unqualified) parents and appliesTo, all type
    forms arbitrarily nested, annotations with and without value on everything, names that need quoting and keywords used
    as names wherever the grammar allows.  What it excludes are ASTs that are not the AST of any Cedar text:
    names that are not identifiers / paths where the grammar demands one, a reserved common type name, repeated keys in an
    association list (a Go map cannot hold one), an entity type and an enum of one name, an enum without values, an
    `appliesTo` without principal or resource types, a namespace called `""` or containing `__cedar`. -/
def SchemaTextOk (s : Schema) : Bool :=
  declsOk (declNames s.bare) s.bare &&
  s.namespaces.all (fun nd => isNsPath nd.1 && annsOk nd.2.anns && declsOk (declNames nd.2 ++ declNames s.bare) nd.2) &&
  nodupKeys (s.namespaces.map (·.1))

end CedarGo.Schema
