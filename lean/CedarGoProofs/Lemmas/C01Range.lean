/-
  Helper lemmas for C01: the 64-bit range invariant of the evaluator.
  `Value.WF` = every long / decimal / datetime / duration inside a value is an int64; `Env.WF` = the
  request values and all stored attribute and tag values are; `eval_wf`: evaluating an expression
  whose literals are in range, in such an environment, yields a value in range.  (The scalar parsers
  of the model are shown to return in-range numbers on the way: `parseDecimal_range` etc.)
-/
import CedarGo.Model.Eval
import CedarGoProofs.Lemmas.C01Mul
namespace CedarGo
open Scalars

/-! ### Definitions used in the statements of the C01 theorems -/

mutual
/-- all numbers inside the value are 64-bit -/
def Value.WF : Value → Prop
  | .long n => InI64 n
  | .decimal n => InI64 n
  | .datetime n => InI64 n
  | .duration n => InI64 n
  | .set xs => Value.WFL xs
  | .record kvs => Value.WFKV kvs
  | .bool _ => True
  | .str _ => True
  | .entity _ _ => True
  | .ip _ => True
def Value.WFL : List Value → Prop
  | [] => True
  | x :: xs => x.WF ∧ Value.WFL xs
def Value.WFKV : List (String × Value) → Prop
  | [] => True
  | (_, v) :: kvs => v.WF ∧ Value.WFKV kvs
end

/-- request values and every stored attribute / tag value are in range -/
structure Env.WF (env : Env) : Prop where
  principal : env.principal.WF
  action : env.action.WF
  resource : env.resource.WF
  context : env.context.WF
  entities : ∀ u d, env.entities.get u = some d → Value.WFKV d.attrs ∧ Value.WFKV d.tags

mutual
/-- `P` holds of the expression and of every sub-expression -/
def Expr.All (P : Expr → Prop) : Expr → Prop
  | .lit v => P (.lit v)
  | .var x => P (.var x)
  | .unop op e => P (.unop op e) ∧ e.All P
  | .binop op l r => P (.binop op l r) ∧ l.All P ∧ r.All P
  | .ite c t e => P (.ite c t e) ∧ c.All P ∧ t.All P ∧ e.All P
  | .access e a => P (.access e a) ∧ e.All P
  | .has e a => P (.has e a) ∧ e.All P
  | .like e p => P (.like e p) ∧ e.All P
  | .is e ty => P (.is e ty) ∧ e.All P
  | .isIn e ty r => P (.isIn e ty r) ∧ e.All P ∧ r.All P
  | .set es => P (.set es) ∧ Expr.AllL P es
  | .record kes => P (.record kes) ∧ Expr.AllKV P kes
  | .call fn args => P (.call fn args) ∧ Expr.AllL P args
def Expr.AllL (P : Expr → Prop) : List Expr → Prop
  | [] => True
  | e :: es => e.All P ∧ Expr.AllL P es
def Expr.AllKV (P : Expr → Prop) : List (String × Expr) → Prop
  | [] => True
  | (_, e) :: kes => e.All P ∧ Expr.AllKV P kes
end

namespace C01L
def litOK : Expr → Prop
  | .lit v => v.WF
  | _ => True

end C01L

/-- every literal value occurring in the expression is in range (what the parser and
    `types.Long` / `NewDatetimeFromMillis` … construct) -/
def Expr.LitsWF (e : Expr) : Prop := e.All C01L.litOK

namespace C01L

/-! ### Generic facts -/

theorem wrap_inI64_r (x : Int) : InI64 (wrap x) := by
  unfold wrap InI64 minI64 maxI64; omega

theorem WFL_iff {xs : List Value} : Value.WFL xs ↔ ∀ x ∈ xs, x.WF := by
  induction xs with
  | nil => simp [Value.WFL]
  | cons x xs ih => simp [Value.WFL, ih]

theorem WFKV_iff {kvs : List (String × Value)} : Value.WFKV kvs ↔ ∀ kv ∈ kvs, kv.2.WF := by
  induction kvs with
  | nil => simp [Value.WFKV]
  | cons kv kvs ih => obtain ⟨k, v⟩ := kv; simp [Value.WFKV, ih]

theorem dedupV_mem (acc xs : List Value) : ∀ v ∈ dedupV acc xs, v ∈ acc ∨ v ∈ xs := by
  induction xs generalizing acc with
  | nil => intro v hv; simp only [dedupV, List.mem_reverse] at hv; exact .inl hv
  | cons x xs ih =>
    intro v hv
    simp only [dedupV] at hv
    split at hv
    · rcases ih acc v hv with h | h
      · exact .inl h
      · exact .inr (by simp [h])
    · rcases ih (x :: acc) v hv with h | h
      · simp only [List.mem_cons] at h
        rcases h with h | h
        · exact .inr (by simp [h])
        · exact .inl h
      · exact .inr (by simp [h])

theorem mkSet_wf {vs : List Value} (h : Value.WFL vs) : (mkSet vs).WF := by
  unfold mkSet
  simp only [Value.WF]
  rw [WFL_iff] at h ⊢
  intro x hx
  rcases dedupV_mem [] vs x hx with h' | h'
  · simp at h'
  · exact h x h'

theorem kvInsert_mem (k : String) (v : Value) (l : List (String × Value)) :
    ∀ kv ∈ kvInsert k v l, kv = (k, v) ∨ kv ∈ l := by
  induction l with
  | nil => intro kv h; simp only [kvInsert, List.mem_singleton] at h; exact .inl h
  | cons hd tl ih =>
    obtain ⟨k', v'⟩ := hd
    intro kv h
    simp only [kvInsert] at h
    split at h
    · simp only [List.mem_cons] at h ⊢; grind
    · split at h
      · simp only [List.mem_cons] at h ⊢; grind
      · simp only [List.mem_cons] at h ⊢
        rcases h with h | h
        · exact .inr (.inl h)
        · rcases ih kv h with h' | h'
          · exact .inl h'
          · exact .inr (.inr h')

theorem mkRecord_wf {kvs : List (String × Value)} (h : Value.WFKV kvs) : (mkRecord kvs).WF := by
  unfold mkRecord
  simp only [Value.WF]
  have : ∀ (acc : List (String × Value)), Value.WFKV acc → Value.WFKV kvs →
      Value.WFKV (kvs.foldl (fun acc kv => kvInsert kv.1 kv.2 acc) acc) := by
    induction kvs with
    | nil => intro acc ha _; exact ha
    | cons kv kvs ih =>
      intro acc ha hk
      obtain ⟨k, v⟩ := kv
      simp only [Value.WFKV] at hk
      simp only [List.foldl_cons]
      apply ih hk.2 _ _ hk.2
      rw [WFKV_iff] at ha ⊢
      intro x hx
      rcases kvInsert_mem k v acc x hx with h' | h'
      · subst h'; exact hk.1
      · exact ha x h'
  exact this [] (by simp [Value.WFKV]) h

theorem kvGet_wf {k : String} {l : List (String × Value)} {v : Value} (h : kvGet k l = some v)
    (hl : Value.WFKV l) : v.WF := by
  induction l with
  | nil => simp [kvGet] at h
  | cons hd tl ih =>
    obtain ⟨k', v'⟩ := hd
    simp only [kvGet] at h
    simp only [Value.WFKV] at hl
    split at h
    · cases h; exact hl.1
    · exact ih h hl.2

theorem bind_ok {α β : Type} {x : Except Err α} {f : α → Except Err β} {v : β}
    (h : (x >>= f) = .ok v) : ∃ a, x = .ok a ∧ f a = .ok v := by
  cases x with
  | error e => simp [bind, Except.bind] at h
  | ok a => exact ⟨a, rfl, h⟩

theorem ebind_ok {α β : Type} {x : Except Err α} {f : α → Except Err β} {v : β}
    (h : Except.bind x f = .ok v) : ∃ a, x = .ok a ∧ f a = .ok v := by
  cases x with
  | error e => simp [Except.bind] at h
  | ok a => exact ⟨a, rfl, h⟩

theorem toBool_ok {v : Value} {b : Bool} (h : toBool v = .ok b) : v = .bool b := by
  cases v <;> simp [toBool] at h; subst h; rfl
theorem toLong_ok {v : Value} {n : Int} (h : toLong v = .ok n) : v = .long n := by
  cases v <;> simp [toLong] at h; subst h; rfl
theorem toStr_ok {v : Value} {s : String} (h : toStr v = .ok s) : v = .str s := by
  cases v <;> simp [toStr] at h; subst h; rfl
theorem toSet_ok {v : Value} {s : List Value} (h : toSet v = .ok s) : v = .set s := by
  cases v <;> simp [toSet] at h; subst h; rfl
theorem toEntity_ok {v : Value} {u : UID} (h : toEntity v = .ok u) : v = .entity u.1 u.2 := by
  cases v <;> simp [toEntity] at h; subst h; rfl

/-! ### The scalar parsers return 64-bit numbers -/

theorem isDig_digVal_le {c : Char} (h : isDig c = true) : digVal c ≤ 9 := by
  simp only [isDig, Bool.and_eq_true, decide_eq_true_eq] at h
  unfold digVal
  have h2 : c.toNat ≤ '9'.toNat := h.2
  have : '9'.toNat = 57 := by decide
  have : '0'.toNat = 48 := by decide
  omega

theorem digitsVal_foldl_lt (cs : List Char) (h : cs.all isDig = true) (acc : Nat) :
    cs.foldl (fun acc c => acc * 10 + digVal c) acc < (acc + 1) * 10 ^ cs.length := by
  induction cs generalizing acc with
  | nil => simp
  | cons c cs ih =>
    simp only [List.all_cons, Bool.and_eq_true] at h
    have hd := isDig_digVal_le h.1
    have := ih h.2 (acc * 10 + digVal c)
    simp only [List.foldl_cons, List.length_cons]
    calc _ < (acc * 10 + digVal c + 1) * 10 ^ cs.length := this
      _ ≤ ((acc + 1) * 10) * 10 ^ cs.length := Nat.mul_le_mul_right _ (by omega)
      _ = (acc + 1) * 10 ^ (cs.length + 1) := by rw [Nat.pow_succ, Nat.mul_assoc, Nat.mul_comm 10]

theorem digitsVal_lt (cs : List Char) (h : cs.all isDig = true) : digitsVal cs < 10 ^ cs.length := by
  have := digitsVal_foldl_lt cs h 0
  simpa [digitsVal] using this

theorem newDecimal_range {i tt x : Int} (h : newDecimal i tt = .ok x) (h1 : -9999 ≤ tt) (h2 : tt ≤ 9999) : InI64 x := by
  unfold newDecimal at h
  unfold InI64 minI64 maxI64
  split at h
  · cases h
  · split at h
    · cases h
    · rename_i ha hb
      simp only [Bool.or_eq_true, Bool.and_eq_true, decide_eq_true_eq, beq_iff_eq, not_or, not_and] at ha hb
      cases h
      omega

theorem parseDecimalL_range {cs : List Char} {x : Int} (h : parseDecimalL cs = .ok x) : InI64 x := by
  unfold parseDecimalL at h
  split at h
  · cases h
  · rename_i ip fp _
    split at h
    · cases h
    · split at h
      · cases h
      · rename_i i _
        split at h
        · cases h
        · rename_i f hf
          split at h
          · cases h
          · rename_i hlen
            simp only [parseUintMax] at hf
            split at hf
            · rename_i had
              split at hf
              · cases hf
                simp only [allDigits, Bool.and_eq_true, Bool.not_eq_true', List.isEmpty_eq_false_iff] at had
                have hlt := digitsVal_lt fp had.2
                have hl1 : fp.length ≠ 0 := by
                  intro h0; exact had.1 (List.length_eq_zero_iff.mp h0)
                have hcases : fp.length = 1 ∨ fp.length = 2 ∨ fp.length = 3 ∨ fp.length = 4 := by omega
                generalize digitsVal fp = f at *
                have hb : ((f * 10 ^ (4 - fp.length) : Nat) : Int) ≤ 9999 := by
                  rcases hcases with hl | hl | hl | hl <;> rw [hl] at hlt ⊢ <;>
                    simp only [Nat.reduceSub, Nat.reducePow] at hlt ⊢ <;> omega
                apply newDecimal_range h
                · split <;> omega
                · split <;> omega
              · cases hf
            · cases hf

theorem parseDecimal_range {s : String} {x : Int} (h : parseDecimal s = .ok x) : InI64 x := parseDecimalL_range h

theorem minDatetimeMs_ge : minI64 ≤ minDatetimeMs := by decide +kernel
theorem maxDatetimeMs_le : maxDatetimeMs ≤ maxI64 := by decide +kernel

theorem parseDatetimeL_range {cs : List Char} {x : Int} (h : parseDatetimeL cs = .ok x) : InI64 x := by
  unfold parseDatetimeL at h
  simp +zeta only at h
  repeat' split at h
  all_goals first
    | (cases h; done)
    | (rename_i hr
       simp only [Bool.or_eq_true, decide_eq_true_eq, not_or] at hr
       cases h
       have := minDatetimeMs_ge; have := maxDatetimeMs_le
       unfold InI64; omega)

theorem parseDatetime_range {s : String} {x : Int} (h : parseDatetime s = .ok x) : InI64 x := parseDatetimeL_range h

theorem unitMillis_pos (i : Nat) : 0 < unitMillis i := by
  unfold unitMillis; split <;> decide

theorem durLoop_range (lim : Int) (cs : List Char) (u : Nat) (total value : Int) (hv : Bool) (r : Int)
    (h : durLoop lim cs u total value hv = .ok r) (h0 : 0 ≤ total) (h1 : total ≤ lim) (h2 : 0 ≤ value) :
    0 ≤ r ∧ r ≤ lim := by
  fun_induction durLoop lim cs u total value hv <;> simp_all
  case case6 ih =>
    rename_i digit _ _ _
    apply ih
    have : (0 : Int) ≤ digit := Int.natCast_nonneg _
    omega
  case case11 ih =>
    rename_i millis product _ _ _ _ _ _ _ _
    have hp : 0 ≤ product := Int.mul_nonneg h2 (Int.le_of_lt (unitMillis_pos _))
    apply ih <;> omega
  case case13 ih =>
    rename_i millis product _ _ _ _ _ _ _ _
    have hp : 0 ≤ product := Int.mul_nonneg h2 (Int.le_of_lt (unitMillis_pos _))
    apply ih <;> omega

theorem parseDurationL_range {cs : List Char} {x : Int} (h : parseDurationL cs = .ok x) : InI64 x := by
  unfold parseDurationL at h
  split at h
  · cases h
  · split at h
    · cases hd : durLoop (maxI64 + 1) cs.tail 0 0 0 false with
      | error e => rw [hd] at h; cases h
      | ok r =>
        rw [hd] at h
        have := durLoop_range _ _ _ _ _ _ _ hd (by decide) (by decide) (by decide)
        simp only [Except.map] at h
        cases h
        unfold InI64 minI64; unfold maxI64 at this ⊢; omega
    · have := durLoop_range _ _ _ _ _ _ _ h (by decide) (by decide) (by decide)
      unfold InI64 minI64; unfold maxI64 at this ⊢; omega

theorem parseDuration_range {s : String} {x : Int} (h : parseDuration s = .ok x) : InI64 x := parseDurationL_range h

/-! ### Arithmetic helpers -/

theorem tdiv_range {d k : Int} (h : InI64 d) (hk : 0 ≤ k) : InI64 (Int.tdiv d k) := by
  have h1 := Int.natAbs_tdiv_le_natAbs d k
  have h2 : d ≤ 0 → Int.tdiv d k ≤ 0 := by
    intro hd
    have := Int.tdiv_nonneg (a := -d) (b := k) (by omega) hk
    rw [Int.neg_tdiv] at this
    omega
  unfold InI64 minI64 maxI64 at *
  omega

theorem tmod_day_range (t : Int) : InI64 (Int.tmod t 86400000) := by
  have := C01Mul.mul_tmod_natAbs_lt t 86400000 (by decide)
  unfold InI64 minI64 maxI64
  omega

theorem millisSinceMidnight_range (t : Int) : InI64 (millisSinceMidnight t) := by
  have := C01Mul.mul_tmod_natAbs_lt t 86400000 (by decide)
  unfold millisSinceMidnight InI64 minI64 maxI64
  split <;> omega

theorem checkedAdd_fst_range (a b : Int) : InI64 (checkedAdd a b).1 := by
  unfold checkedAdd; simp only; split <;> exact wrap_inI64_r _
theorem checkedSub_fst_range (a b : Int) : InI64 (checkedSub a b).1 := by
  unfold checkedSub; simp only; split <;> exact wrap_inI64_r _
theorem checkedMul_fst_range (a b : Int) : InI64 (checkedMul a b).1 := by
  unfold checkedMul
  split
  · decide
  · simp only; split
    · exact wrap_inI64_r _
    · split <;> exact wrap_inI64_r _
theorem checkedNeg_range {a : Int} (h : InI64 a) (hok : (checkedNeg a).2 = true) : InI64 (checkedNeg a).1 := by
  unfold checkedNeg at *
  by_cases hne : a = minI64
  · simp [hne] at hok
  · simp only [beq_iff_eq, hne, if_false]
    unfold InI64 minI64 maxI64 at *
    omega

end C01L
end CedarGo
