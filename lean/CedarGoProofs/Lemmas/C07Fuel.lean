/-
  Helper lemmas for C07 about the fuel of the parser model:
  * monotonicity: more fuel (and a better nested-expression parser) never changes a result (`OLe`);
  * totality: with fuel > |tokens| + 1 no function runs out of fuel, and no function returns more
    tokens than it was given (`TotG`, `GoodE`).
-/
import CedarGo.Model.Text.Parser
namespace CedarGo.Text

/-! ## order on fuel-results -/

/-- `a` is `none` (out of fuel) or equal to `b` -/
def OLe {α : Type} (a b : Option α) : Prop := ∀ r, a = some r → b = some r

theorem OLe.refl {α : Type} (a : Option α) : OLe a a := fun _ h => h
theorem OLe.none {α : Type} (b : Option α) : OLe none b := fun _ h => by simp at h
theorem OLe.trans {α : Type} {a b c : Option α} (h1 : OLe a b) (h2 : OLe b c) : OLe a c := fun r h => h2 r (h1 r h)

theorem ole_bindP {α β : Type} {a a' : Option (Except PErr α)} {k k' : α → Option (Except PErr β)}
    (ha : OLe a a') (hk : ∀ v, OLe (k v) (k' v)) : OLe (bindP a k) (bindP a' k') := by
  intro r h
  cases a with
  | none => simp [bindP] at h
  | some x =>
    rw [ha x rfl]
    cases x with
    | error e => simpa [bindP] using h
    | ok v => exact hk v r (by simpa [bindP] using h)

theorem ole_ite {α : Type} (c : Prop) [Decidable c] {a a' b b' : Option α} (h1 : OLe a a') (h2 : OLe b b') :
    OLe (if c then a else b) (if c then a' else b') := by
  split <;> assumption

def EP.le (E E' : EP) : Prop := ∀ ts, OLe (E ts) (E' ts)

/-! ## monotonicity of every fuel-carrying function -/

section mono
variable {E E' : EP} (hE : EP.le E E')
include hE

theorem mono_exprList (close : String) : ∀ (n n' : Nat) (ts : List Token), n ≤ n' →
    OLe (exprList E close n ts) (exprList E' close n' ts) := by
  intro n
  induction n with
  | zero => intro n' ts _; unfold exprList; exact OLe.none _
  | succ n ih =>
    intro n' ts hn
    obtain ⟨m, rfl⟩ : ∃ m, n' = m + 1 := ⟨n' - 1, by omega⟩
    unfold exprList
    refine ole_ite _ (OLe.refl _) (ole_bindP (hE ts) fun r => ?_)
    refine ole_ite _ (ole_bindP (ih m _ (by omega)) fun _ => OLe.refl _) (OLe.refl _)

theorem mono_recordLoop : ∀ (n n' : Nat) (known : List String) (ts : List Token), n ≤ n' →
    OLe (recordLoop E n known ts) (recordLoop E' n' known ts) := by
  intro n
  induction n with
  | zero => intro n' known ts _; unfold recordLoop; exact OLe.none _
  | succ n ih =>
    intro n' known ts hn
    obtain ⟨m, rfl⟩ : ∃ m, n' = m + 1 := ⟨n' - 1, by omega⟩
    unfold recordLoop
    refine ole_ite _ (OLe.refl _) (ole_bindP (OLe.refl _) fun k => ole_bindP (OLe.refl _) fun ts1 => ole_bindP (hE ts1) fun r => ?_)
    refine ole_ite _ (OLe.refl _) (ole_ite _ (ole_bindP (ih m _ _ (by omega)) fun _ => OLe.refl _) (OLe.refl _))

theorem mono_entityOrExtFun {n n' : Nat} (hn : n ≤ n') (pre : String) (ts : List Token) :
    OLe (entityOrExtFun E n pre ts) (entityOrExtFun E' n' pre ts) := by
  induction pre, ts using entityOrExtFun.induct with
  | case1 => unfold entityOrExtFun; exact OLe.refl _
  | case2 ty c h => simp only [entityOrExtFun, h, ↓reduceIte]; exact OLe.refl _
  | case3 ty c h t tail ht ih => simp only [entityOrExtFun, h, ht, ↓reduceIte]; exact ih
  | case4 ty c h t tail ht hs => simp only [entityOrExtFun, h, ht, hs, ↓reduceIte]; exact OLe.refl _
  | case5 ty c h t tail ht hs => simp only [entityOrExtFun, h, ht, hs, ↓reduceIte]; exact OLe.refl _
  | case6 ty c rest h1 h2 =>
    unfold entityOrExtFun
    simp only [h1, h2, ↓reduceIte]
    exact ole_bindP (OLe.refl _) fun _ => ole_bindP (mono_exprList hE _ _ _ _ hn) fun _ => OLe.refl _
  | case7 ty c rest h1 h2 => unfold entityOrExtFun; simp only [h1, h2]; exact OLe.refl _

theorem mono_primary {n n' : Nat} (hn : n ≤ n') (ts : List Token) : OLe (primary E n ts) (primary E' n' ts) := by
  unfold primary
  split
  · exact OLe.refl _
  · exact OLe.refl _
  · exact OLe.refl _
  · exact OLe.refl _
  · exact mono_entityOrExtFun hE hn _ _
  · exact OLe.refl _
  · exact OLe.refl _
  · exact ole_bindP (hE _) fun _ => OLe.refl _
  · exact ole_bindP (mono_exprList hE _ _ _ _ hn) fun _ => OLe.refl _
  · exact ole_bindP (mono_recordLoop hE _ _ _ _ hn) fun _ => OLe.refl _
  · exact OLe.refl _

theorem mono_accessLoop : ∀ (n n' : Nat) (lhs : Expr) (ts : List Token), n ≤ n' →
    OLe (accessLoop E n lhs ts) (accessLoop E' n' lhs ts) := by
  intro n
  induction n with
  | zero => intro n' lhs ts _; unfold accessLoop; exact OLe.none _
  | succ n ih =>
    intro n' lhs ts hn
    obtain ⟨m, rfl⟩ : ∃ m, n' = m + 1 := ⟨n' - 1, by omega⟩
    have hm : n ≤ m := by omega
    unfold accessLoop
    refine ole_ite _ ?_ (ole_ite _ ?_ (OLe.refl _))
    · refine ole_ite _ (OLe.refl _) (ole_ite _ ?_ (ih m _ _ hm))
      exact ole_bindP (mono_exprList hE _ _ _ _ hm) fun r => ole_bindP (OLe.refl _) fun node => ih m _ _ hm
    · refine ole_ite _ (OLe.refl _) ?_
      exact ole_bindP (OLe.refl _) fun name => ole_bindP (OLe.refl _) fun ts3 => ih m _ _ hm

theorem mono_member {n n' : Nat} (hn : n ≤ n') (ts : List Token) : OLe (member E n ts) (member E' n' ts) := by
  unfold member
  exact ole_bindP (mono_primary hE hn ts) fun r => mono_accessLoop hE _ _ _ _ hn

theorem mono_unary {n n' : Nat} (hn : n ≤ n') (ts : List Token) : OLe (unary E n ts) (unary E' n' ts) := by
  unfold unary
  exact ole_ite _ (OLe.refl _) (ole_bindP (mono_member hE hn _) fun _ => OLe.refl _)

theorem mono_multLoop {m m' : Nat} (hm : m ≤ m') : ∀ (n n' : Nat) (lhs : Expr) (ts : List Token), n ≤ n' →
    OLe (multLoop E m n lhs ts) (multLoop E' m' n' lhs ts) := by
  intro n
  induction n with
  | zero => intro n' lhs ts _; unfold multLoop; exact OLe.none _
  | succ n ih =>
    intro n' lhs ts hn
    obtain ⟨k, rfl⟩ : ∃ k, n' = k + 1 := ⟨n' - 1, by omega⟩
    unfold multLoop
    exact ole_ite _ (ole_bindP (mono_unary hE hm _) fun r => ih k _ _ (by omega)) (OLe.refl _)

theorem mono_mult {n n' : Nat} (hn : n ≤ n') (ts : List Token) : OLe (mult E n ts) (mult E' n' ts) := by
  unfold mult
  exact ole_bindP (mono_unary hE hn ts) fun r => mono_multLoop hE hn _ _ _ _ hn

theorem mono_addLoop {m m' : Nat} (hm : m ≤ m') : ∀ (n n' : Nat) (lhs : Expr) (ts : List Token), n ≤ n' →
    OLe (addLoop E m n lhs ts) (addLoop E' m' n' lhs ts) := by
  intro n
  induction n with
  | zero => intro n' lhs ts _; unfold addLoop; exact OLe.none _
  | succ n ih =>
    intro n' lhs ts hn
    obtain ⟨k, rfl⟩ : ∃ k, n' = k + 1 := ⟨n' - 1, by omega⟩
    unfold addLoop
    split
    · exact OLe.refl _
    · exact ole_bindP (mono_mult hE hm _) fun r => ih k _ _ (by omega)

theorem mono_add {n n' : Nat} (hn : n ≤ n') (ts : List Token) : OLe (add E n ts) (add E' n' ts) := by
  unfold add
  exact ole_bindP (mono_mult hE hn ts) fun r => mono_addLoop hE hn _ _ _ _ hn

theorem mono_parseIs {n n' : Nat} (hn : n ≤ n') (lhs : Expr) (ts : List Token) :
    OLe (parseIs E n lhs ts) (parseIs E' n' lhs ts) := by
  unfold parseIs
  exact ole_bindP (OLe.refl _) fun p => ole_ite _ (ole_bindP (mono_add hE hn _) fun _ => OLe.refl _) (OLe.refl _)

theorem mono_relTail {n n' : Nat} (hn : n ≤ n') (lhs : Expr) (ts : List Token) :
    OLe (relTail E n lhs ts) (relTail E' n' lhs ts) := by
  unfold relTail
  refine ole_ite _ (OLe.refl _) (ole_ite _ (OLe.refl _) (ole_ite _ (mono_parseIs hE hn _ _) ?_))
  split
  · exact OLe.refl _
  · exact ole_bindP (mono_add hE hn _) fun _ => OLe.refl _

theorem mono_relation {n n' : Nat} (hn : n ≤ n') (ts : List Token) : OLe (relation E n ts) (relation E' n' ts) := by
  unfold relation
  exact ole_bindP (mono_add hE hn ts) fun r => mono_relTail hE hn _ _

theorem mono_andLoop {m m' : Nat} (hm : m ≤ m') : ∀ (n n' : Nat) (lhs : Expr) (ts : List Token), n ≤ n' →
    OLe (andLoop E m n lhs ts) (andLoop E' m' n' lhs ts) := by
  intro n
  induction n with
  | zero => intro n' lhs ts _; unfold andLoop; exact OLe.none _
  | succ n ih =>
    intro n' lhs ts hn
    obtain ⟨k, rfl⟩ : ∃ k, n' = k + 1 := ⟨n' - 1, by omega⟩
    unfold andLoop
    exact ole_ite _ (ole_bindP (mono_relation hE hm _) fun r => ih k _ _ (by omega)) (OLe.refl _)

theorem mono_and {n n' : Nat} (hn : n ≤ n') (ts : List Token) : OLe (and_ E n ts) (and_ E' n' ts) := by
  unfold and_
  exact ole_bindP (mono_relation hE hn ts) fun r => mono_andLoop hE hn _ _ _ _ hn

theorem mono_orLoop {m m' : Nat} (hm : m ≤ m') : ∀ (n n' : Nat) (lhs : Expr) (ts : List Token), n ≤ n' →
    OLe (orLoop E m n lhs ts) (orLoop E' m' n' lhs ts) := by
  intro n
  induction n with
  | zero => intro n' lhs ts _; unfold orLoop; exact OLe.none _
  | succ n ih =>
    intro n' lhs ts hn
    obtain ⟨k, rfl⟩ : ∃ k, n' = k + 1 := ⟨n' - 1, by omega⟩
    unfold orLoop
    exact ole_ite _ (ole_bindP (mono_and hE hm _) fun r => ih k _ _ (by omega)) (OLe.refl _)

theorem mono_or {n n' : Nat} (hn : n ≤ n') (ts : List Token) : OLe (or_ E n ts) (or_ E' n' ts) := by
  unfold or_
  exact ole_bindP (mono_and hE hn ts) fun r => mono_orLoop hE hn _ _ _ _ hn

theorem mono_expression {n n' : Nat} (hn : n ≤ n') (ts : List Token) :
    OLe (expression E n ts) (expression E' n' ts) := by
  unfold expression
  refine ole_ite _ ?_ (mono_or hE hn ts)
  exact ole_bindP (hE _) fun c => ole_bindP (OLe.refl _) fun ts2 => ole_bindP (hE _) fun t =>
    ole_bindP (OLe.refl _) fun ts4 => ole_bindP (hE _) fun e => OLe.refl _

end mono

/-- more fuel never changes the result of a nested expression -/
theorem exprF_mono_succ : ∀ n, EP.le (exprF n) (exprF (n + 1)) := by
  intro n
  induction n with
  | zero => intro ts; exact OLe.none _
  | succ n ih => intro ts; exact mono_expression ih (Nat.le_succ n) ts

theorem exprF_mono {n n' : Nat} (h : n ≤ n') : EP.le (exprF n) (exprF n') := by
  induction h with
  | refl => intro ts; exact OLe.refl _
  | step _ ih => intro ts; exact (ih ts).trans (exprF_mono_succ _ ts)

theorem mono_condition {n n' : Nat} (h : n ≤ n') (ts : List Token) : OLe (condition n ts) (condition n' ts) := by
  unfold condition
  exact ole_bindP (OLe.refl _) fun ts1 => ole_bindP (exprF_mono h ts1) fun _ => OLe.refl _

theorem mono_conditions {m m' : Nat} (hm : m ≤ m') : ∀ (n n' : Nat) (ts : List Token), n ≤ n' →
    OLe (conditions m n ts) (conditions m' n' ts) := by
  intro n
  induction n with
  | zero => intro n' ts _; unfold conditions; exact OLe.none _
  | succ n ih =>
    intro n' ts hn
    obtain ⟨k, rfl⟩ : ∃ k, n' = k + 1 := ⟨n' - 1, by omega⟩
    unfold conditions
    exact ole_ite _ (ole_bindP (mono_condition hm _) fun r => ole_bindP (ih k _ (by omega)) fun _ => OLe.refl _) (OLe.refl _)

/-- more fuel never changes the result of parsing a policy -/
theorem mono_policy {n n' : Nat} (h : n ≤ n') (ts : List Token) : OLe (policy n ts) (policy n' ts) := by
  unfold policy
  exact ole_bindP (OLe.refl _) fun hd => ole_bindP (mono_conditions h _ _ _ h) fun _ => OLe.refl _

/-! ## totality -/

/-- `a` does not run out of fuel, and a successful result satisfies `P` -/
def TotG {α : Type} (a : Option (Except PErr α)) (P : α → Prop) : Prop := ∃ r, a = some r ∧ ∀ v, r = .ok v → P v

theorem totG_ok {α : Type} {P : α → Prop} (v : α) (h : P v) : TotG (okP v) P :=
  ⟨.ok v, rfl, fun w hw => by cases hw; exact h⟩

theorem totG_err {α : Type} {P : α → Prop} (e : PErr) : TotG (errP e : Option (Except PErr α)) P :=
  ⟨.error e, rfl, fun w hw => by cases hw⟩

theorem totG_some {α : Type} {P : α → Prop} (x : Except PErr α) (h : ∀ v, x = .ok v → P v) : TotG (some x) P :=
  ⟨x, rfl, h⟩

theorem totG_bind {α β : Type} {a : Option (Except PErr α)} {k : α → Option (Except PErr β)} {P : α → Prop} {Q : β → Prop}
    (ha : TotG a P) (hk : ∀ v, P v → TotG (k v) Q) : TotG (bindP a k) Q := by
  obtain ⟨r, rfl, hr⟩ := ha
  cases r with
  | error e => exact ⟨.error e, rfl, fun w hw => by cases hw⟩
  | ok v => exact hk v (hr v rfl)

theorem totG_ite {α : Type} {P : α → Prop} (c : Prop) [Decidable c] {a b : Option (Except PErr α)}
    (h1 : c → TotG a P) (h2 : ¬c → TotG b P) : TotG (if c then a else b) P := by
  split
  · exact h1 ‹_›
  · exact h2 ‹_›

theorem totG_weaken {α : Type} {P Q : α → Prop} {a : Option (Except PErr α)} (h : TotG a P) (hPQ : ∀ v, P v → Q v) : TotG a Q := by
  obtain ⟨r, hr, hp⟩ := h
  exact ⟨r, hr, fun v hv => hPQ v (hp v hv)⟩

/-- the remaining tokens are not more than the given ones -/
abbrev Le {α : Type} (ts : List Token) : α × List Token → Prop := fun r => r.2.length ≤ ts.length

theorem adv_length (ts : List Token) : (adv ts).length = ts.length - 1 := by
  cases ts <;> simp [adv]

theorem adv_le (ts : List Token) : (adv ts).length ≤ ts.length := by
  rw [adv_length]; omega

theorem peek_text_pos {ts : List Token} {s : String} (h : ((peek ts).text == s) = true) (hs : s ≠ "") : 0 < ts.length := by
  cases ts with
  | nil => simp [peek, eofTok] at h; exact absurd h hs
  | cons _ _ => simp

theorem peek_ty_pos {ts : List Token} {ty : TokType} (h : ((peek ts).ty == ty) = true) (hty : ty ≠ .eof) : 0 < ts.length := by
  cases ts with
  | nil => simp [peek, eofTok] at h; exact absurd h.symm hty
  | cons _ _ => simp

theorem exact_len {s : String} {ts ts' : List Token} (h : exact s ts = .ok ts') : ts'.length ≤ ts.length := by
  unfold exact at h
  split at h
  · cases h; exact adv_le ts
  · cases h

theorem exact_lt {s : String} {ts ts' : List Token} (h : exact s ts = .ok ts') (hs : s ≠ "") : ts'.length < ts.length := by
  unfold exact at h
  split at h
  · rename_i hc
    cases h
    have := peek_text_pos hc hs
    rw [adv_length]; omega
  · cases h

theorem pathRest_len (ty : String) (ts : List Token) : ∀ p, pathRest ty ts = .ok p → p.2.length ≤ ts.length := by
  induction ty, ts using pathRest.induct with
  | case1 ty => intro p h; unfold pathRest at h; cases h; simp
  | case2 ty c rest hc => intro p h; unfold pathRest at h; simp only [hc, ↓reduceIte] at h; cases h; simp
  | case3 ty c hc => intro p h; unfold pathRest at h; simp only [hc] at h; cases h
  | case4 ty c hc t tail ht ih =>
    intro p h
    unfold pathRest at h
    simp only [hc, ht, ↓reduceIte] at h
    have := ih p h
    simp only [List.length_cons]; omega
  | case5 ty c hc t tail ht => intro p h; unfold pathRest at h; simp only [hc, ht] at h; cases h

theorem path_len {ts : List Token} {p : String × List Token} (h : path ts = .ok p) : p.2.length ≤ ts.length := by
  unfold path at h
  split at h
  · exact Nat.le_trans (pathRest_len _ _ p h) (adv_le ts)
  · cases h

theorem hasPath_len (res cur : Expr) (ts : List Token) : ∀ p, hasPath res cur ts = .ok p → p.2.length ≤ ts.length := by
  induction res, cur, ts using hasPath.induct with
  | case1 res cur => intro p h; unfold hasPath at h; cases h; simp
  | case2 res cur d rest hd => intro p h; unfold hasPath at h; simp only [hd, ↓reduceIte] at h; cases h; simp
  | case3 res cur d hd => intro p h; unfold hasPath at h; simp only [hd] at h; cases h
  | case4 res cur d hd t tail ht => intro p h; unfold hasPath at h; simp only [hd, ht, ↓reduceIte] at h; cases h
  | case5 res cur d hd t tail ht ih =>
    intro p h
    unfold hasPath at h
    simp only [hd, ht] at h
    have := ih p h
    simp only [List.length_cons]; omega

theorem parseHas_len {lhs : Expr} {ts : List Token} {p : Expr × List Token} (h : parseHas lhs ts = .ok p) :
    p.2.length ≤ ts.length := by
  unfold parseHas at h
  simp only at h
  split at h
  · exact Nat.le_trans (hasPath_len _ _ _ p h) (adv_le ts)
  · split at h
    · split at h
      · cases h; exact adv_le ts
      · cases h
    · cases h

theorem parseLike_len {lhs : Expr} {ts : List Token} {p : Expr × List Token} (h : parseLike lhs ts = .ok p) :
    p.2.length ≤ ts.length := by
  unfold parseLike at h
  simp only at h
  split at h
  · cases h
  · split at h
    · cases h; exact adv_le ts
    · cases h

theorem unaryOps_len (ts : List Token) : (unaryOps ts).2.length ≤ ts.length := by
  induction ts with
  | nil => simp [unaryOps]
  | cons t rest ih =>
    unfold unaryOps
    split
    · simp only [List.length_cons]; omega
    · split
      · simp only [List.length_cons]; omega
      · simp

theorem addOp_pos {ts : List Token} {op : BinOp} (h : addOp (peek ts).text = some op) : 0 < ts.length := by
  cases ts with
  | nil => simp [peek, eofTok, addOp] at h
  | cons _ _ => simp

/-- `E` terminates on every token list of length ≤ k without producing tokens -/
def GoodE (E : EP) (k : Nat) : Prop := ∀ ts, ts.length ≤ k → TotG (E ts) (Le ts)

section total
variable {E : EP} {k : Nat} (hE : GoodE E k)
include hE

theorem tot_exprList (close : String) (_hc : close ≠ "") : ∀ (n : Nat) (ts : List Token), ts.length ≤ k → ts.length < n →
    TotG (exprList E close n ts) (Le ts) := by
  intro n
  induction n with
  | zero => intro ts _ h; omega
  | succ n ih =>
    intro ts hk hn
    unfold exprList
    refine totG_ite _ (fun _ => totG_ok _ (Nat.le_refl _)) (fun _ => totG_bind (hE ts hk) fun r hr => ?_)
    refine totG_ite _ (fun hcomma => ?_) (fun _ => totG_ite _ (fun _ => totG_ok _ hr) (fun _ => totG_err _))
    have hpos := peek_text_pos hcomma (by decide)
    have hlen := adv_length r.2
    have hr' : r.2.length ≤ ts.length := hr
    refine totG_bind (ih (adv r.2) (by omega) (by omega)) fun rs hrs => totG_ok _ ?_
    have : rs.2.length ≤ (adv r.2).length := hrs
    show rs.2.length ≤ ts.length
    omega

theorem tot_recordLoop : ∀ (n : Nat) (known : List String) (ts : List Token), ts.length ≤ k + 1 → ts.length < n →
    TotG (recordLoop E n known ts) (Le ts) := by
  intro n
  induction n with
  | zero => intro _ ts _ h; omega
  | succ n ih =>
    intro known ts hk hn
    unfold recordLoop
    refine totG_ite _ (fun _ => totG_ok _ (adv_le ts)) (fun _ => ?_)
    refine totG_bind (totG_some _ fun _ _ => trivial) fun key _ => ?_
    refine totG_bind (P := fun ts1 => ts1.length < ts.length) (totG_some _ fun ts1 h1 => ?_) fun ts1 h1 => ?_
    · have := exact_lt h1 (by decide)
      have := adv_le ts
      omega
    refine totG_bind (hE ts1 (by omega)) fun r hr => ?_
    have hr' : r.2.length ≤ ts1.length := hr
    refine totG_ite _ (fun _ => totG_err _) (fun _ => totG_ite _ (fun hcomma => ?_) (fun _ => totG_ite _ (fun _ => totG_ok _ ?_) (fun _ => totG_err _)))
    · have hlen := adv_length r.2
      refine totG_bind (ih _ (adv r.2) (by omega) (by omega)) fun rs hrs => totG_ok _ ?_
      have : rs.2.length ≤ (adv r.2).length := hrs
      show rs.2.length ≤ ts.length
      omega
    · have := adv_le r.2
      show (adv r.2).length ≤ ts.length
      omega

theorem tot_entityOrExtFun {n : Nat} (pre : String) (ts : List Token) : ts.length ≤ k + 1 → ts.length ≤ n →
    TotG (entityOrExtFun E n pre ts) (Le ts) := by
  induction pre, ts using entityOrExtFun.induct with
  | case1 => intro _ _; unfold entityOrExtFun; exact totG_err _
  | case2 ty c h => intro _ _; simp only [entityOrExtFun, h, ↓reduceIte]; exact totG_err _
  | case3 ty c h t tail ht ih =>
    intro hk hn
    simp only [entityOrExtFun, h, ht, ↓reduceIte]
    simp only [List.length_cons] at hk hn
    exact totG_weaken (ih (by omega) (by omega)) fun v hv => by
      have : v.2.length ≤ tail.length := hv
      show v.2.length ≤ (c :: t :: tail).length
      simp only [List.length_cons]; omega
  | case4 ty c h t tail ht hs =>
    intro _ _
    simp only [entityOrExtFun, h, ht, hs, ↓reduceIte]
    exact totG_bind (totG_some _ fun _ _ => trivial) fun _ _ => totG_ok _ (by show tail.length ≤ (c :: t :: tail).length; simp only [List.length_cons]; omega)
  | case5 ty c h t tail ht hs => intro _ _; simp only [entityOrExtFun, h, ht, hs, ↓reduceIte]; exact totG_err _
  | case6 ty c rest h1 h2 =>
    intro hk hn
    unfold entityOrExtFun
    simp only [h1, h2, ↓reduceIte]
    simp only [List.length_cons] at hk hn
    refine totG_bind (totG_some _ fun _ _ => trivial) fun _ _ => ?_
    refine totG_bind (tot_exprList hE ")" (by decide) n rest (by omega) (by omega)) fun r hr => totG_ok _ ?_
    have : r.2.length ≤ rest.length := hr
    have := adv_le r.2
    show (adv r.2).length ≤ (c :: rest).length
    simp only [List.length_cons]; omega
  | case7 ty c rest h1 h2 => intro _ _; unfold entityOrExtFun; simp only [h1, h2]; exact totG_err _

theorem tot_primary {n : Nat} (ts : List Token) (hk : ts.length ≤ k + 1) (hn : ts.length < n) :
    TotG (primary E n ts) (Le ts) := by
  have hadv := adv_length ts
  unfold primary
  split
  · exact totG_bind (totG_some _ fun _ _ => trivial) fun _ _ => totG_ok _ (adv_le ts)
  · exact totG_bind (totG_some _ fun _ _ => trivial) fun _ _ => totG_ok _ (adv_le ts)
  · exact totG_ok _ (adv_le ts)
  · exact totG_ok _ (adv_le ts)
  · exact totG_weaken (tot_entityOrExtFun hE _ (adv ts) (by omega) (by omega)) fun v hv => by
      have : v.2.length ≤ (adv ts).length := hv
      show v.2.length ≤ ts.length
      omega
  · exact totG_ok _ (adv_le ts)
  · exact totG_err _
  · refine totG_bind (hE (adv ts) (by omega)) fun r hr => ?_
    have hr' : r.2.length ≤ (adv ts).length := hr
    refine totG_bind (P := fun ts3 => ts3.length ≤ r.2.length) (totG_some _ fun _ h => exact_len h) fun ts3 h3 => totG_ok _ ?_
    show ts3.length ≤ ts.length
    omega
  · refine totG_bind (tot_exprList hE "]" (by decide) n (adv ts) (by omega) (by omega)) fun r hr => totG_ok _ ?_
    have : r.2.length ≤ (adv ts).length := hr
    have := adv_le r.2
    show (adv r.2).length ≤ ts.length
    omega
  · refine totG_bind (tot_recordLoop hE n [] (adv ts) (by omega) (by omega)) fun r hr => totG_ok _ ?_
    have : r.2.length ≤ (adv ts).length := hr
    show r.2.length ≤ ts.length
    omega
  · exact totG_err _

theorem tot_accessLoop : ∀ (n : Nat) (lhs : Expr) (ts : List Token), ts.length ≤ k + 1 → ts.length < n →
    TotG (accessLoop E n lhs ts) (Le ts) := by
  intro n
  induction n with
  | zero => intro _ ts _ h; omega
  | succ n ih =>
    intro lhs ts hk hn
    have h1 := adv_length ts
    have h2 := adv_length (adv ts)
    have h3 := adv_length (adv (adv ts))
    unfold accessLoop
    refine totG_ite _ (fun hdot => ?_) (fun _ => totG_ite _ (fun hbr => ?_) (fun _ => totG_ok _ (Nat.le_refl _)))
    · have hpos := peek_text_pos hdot (by decide)
      refine totG_ite _ (fun _ => totG_err _) (fun _ => totG_ite _ (fun _ => ?_) (fun _ => ?_))
      · refine totG_bind (tot_exprList hE ")" (by decide) n _ (by omega) (by omega)) fun r hr => ?_
        have hr' : r.2.length ≤ (adv (adv (adv ts))).length := hr
        have := adv_le r.2
        refine totG_bind (totG_some _ fun _ _ => trivial) fun node _ => ?_
        exact totG_weaken (ih node (adv r.2) (by omega) (by omega)) fun v hv => by
          have : v.2.length ≤ (adv r.2).length := hv
          show v.2.length ≤ ts.length
          omega
      · exact totG_weaken (ih _ (adv (adv ts)) (by omega) (by omega)) fun v hv => by
          have : v.2.length ≤ (adv (adv ts)).length := hv
          show v.2.length ≤ ts.length
          omega
    · have hpos := peek_text_pos hbr (by decide)
      refine totG_ite _ (fun _ => totG_err _) (fun _ => ?_)
      refine totG_bind (totG_some _ fun _ _ => trivial) fun name _ => ?_
      refine totG_bind (P := fun ts3 => ts3.length ≤ (adv (adv ts)).length) (totG_some _ fun _ h => exact_len h) fun ts3 h3 => ?_
      exact totG_weaken (ih _ ts3 (by omega) (by omega)) fun v hv => by
        have : v.2.length ≤ ts3.length := hv
        show v.2.length ≤ ts.length
        omega

theorem tot_member {n : Nat} (ts : List Token) (hk : ts.length ≤ k + 1) (hn : ts.length < n) :
    TotG (member E n ts) (Le ts) := by
  unfold member
  refine totG_bind (tot_primary hE ts hk hn) fun r hr => ?_
  have hr' : r.2.length ≤ ts.length := hr
  exact totG_weaken (tot_accessLoop hE n r.1 r.2 (by omega) (by omega)) fun v hv => by
    have : v.2.length ≤ r.2.length := hv
    show v.2.length ≤ ts.length
    omega

theorem tot_unary {n : Nat} (ts : List Token) (hk : ts.length ≤ k + 1) (hn : ts.length < n) :
    TotG (unary E n ts) (Le ts) := by
  have hu := unaryOps_len ts
  unfold unary
  refine totG_ite _ (fun _ => ?_) (fun _ => ?_)
  · refine totG_bind (totG_some _ fun _ _ => trivial) fun e _ => totG_ok _ ?_
    have := adv_le (unaryOps ts).2
    show (adv (unaryOps ts).2).length ≤ ts.length
    omega
  · refine totG_bind (tot_member hE (unaryOps ts).2 (by omega) (by omega)) fun r hr => totG_ok _ ?_
    have : r.2.length ≤ (unaryOps ts).2.length := hr
    show r.2.length ≤ ts.length
    omega

theorem tot_multLoop {m : Nat} : ∀ (n : Nat) (lhs : Expr) (ts : List Token), ts.length ≤ k + 1 → ts.length < n → ts.length ≤ m →
    TotG (multLoop E m n lhs ts) (Le ts) := by
  intro n
  induction n with
  | zero => intro _ ts _ h; omega
  | succ n ih =>
    intro lhs ts hk hn hm
    have h1 := adv_length ts
    unfold multLoop
    refine totG_ite _ (fun hop => ?_) (fun _ => totG_ok _ (Nat.le_refl _))
    have hpos := peek_text_pos hop (by decide)
    refine totG_bind (tot_unary hE (adv ts) (by omega) (by omega)) fun r hr => ?_
    have hr' : r.2.length ≤ (adv ts).length := hr
    exact totG_weaken (ih _ r.2 (by omega) (by omega) (by omega)) fun v hv => by
      have : v.2.length ≤ r.2.length := hv
      show v.2.length ≤ ts.length
      omega

theorem tot_mult {n : Nat} (ts : List Token) (hk : ts.length ≤ k + 1) (hn : ts.length < n) :
    TotG (mult E n ts) (Le ts) := by
  unfold mult
  refine totG_bind (tot_unary hE ts hk hn) fun r hr => ?_
  have hr' : r.2.length ≤ ts.length := hr
  exact totG_weaken (tot_multLoop hE n r.1 r.2 (by omega) (by omega) (by omega)) fun v hv => by
    have : v.2.length ≤ r.2.length := hv
    show v.2.length ≤ ts.length
    omega

theorem tot_addLoop {m : Nat} : ∀ (n : Nat) (lhs : Expr) (ts : List Token), ts.length ≤ k + 1 → ts.length < n → ts.length ≤ m →
    TotG (addLoop E m n lhs ts) (Le ts) := by
  intro n
  induction n with
  | zero => intro _ ts _ h; omega
  | succ n ih =>
    intro lhs ts hk hn hm
    have h1 := adv_length ts
    unfold addLoop
    split
    · exact totG_ok _ (Nat.le_refl _)
    · rename_i op hop
      have hpos := addOp_pos hop
      refine totG_bind (tot_mult hE (adv ts) (by omega) (by omega)) fun r hr => ?_
      have hr' : r.2.length ≤ (adv ts).length := hr
      exact totG_weaken (ih _ r.2 (by omega) (by omega) (by omega)) fun v hv => by
        have : v.2.length ≤ r.2.length := hv
        show v.2.length ≤ ts.length
        omega

theorem tot_add {n : Nat} (ts : List Token) (hk : ts.length ≤ k + 1) (hn : ts.length < n) :
    TotG (add E n ts) (Le ts) := by
  unfold add
  refine totG_bind (tot_mult hE ts hk hn) fun r hr => ?_
  have hr' : r.2.length ≤ ts.length := hr
  exact totG_weaken (tot_addLoop hE n r.1 r.2 (by omega) (by omega) (by omega)) fun v hv => by
    have : v.2.length ≤ r.2.length := hv
    show v.2.length ≤ ts.length
    omega

theorem tot_parseIs {n : Nat} (lhs : Expr) (ts : List Token) (hk : ts.length ≤ k + 1) (hn : ts.length < n) :
    TotG (parseIs E n lhs ts) (Le ts) := by
  unfold parseIs
  refine totG_bind (P := fun p => p.2.length ≤ ts.length) (totG_some _ fun _ h => path_len h) fun p hp => ?_
  refine totG_ite _ (fun _ => ?_) (fun _ => totG_ok _ hp)
  have := adv_le p.2
  refine totG_bind (tot_add hE (adv p.2) (by omega) (by omega)) fun r hr => totG_ok _ ?_
  have : r.2.length ≤ (adv p.2).length := hr
  show r.2.length ≤ ts.length
  omega

theorem tot_relTail {n : Nat} (lhs : Expr) (ts : List Token) (hk : ts.length ≤ k + 1) (hn : ts.length < n) :
    TotG (relTail E n lhs ts) (Le ts) := by
  have h1 := adv_le ts
  unfold relTail
  refine totG_ite _ (fun _ => totG_some _ fun v hv => ?_) (fun _ => totG_ite _ (fun _ => totG_some _ fun v hv => ?_) (fun _ => totG_ite _ (fun _ => ?_) (fun _ => ?_)))
  · have := parseHas_len hv
    show v.2.length ≤ ts.length
    omega
  · have := parseLike_len hv
    show v.2.length ≤ ts.length
    omega
  · exact totG_weaken (tot_parseIs hE lhs (adv ts) (by omega) (by omega)) fun v hv => by
      have : v.2.length ≤ (adv ts).length := hv
      show v.2.length ≤ ts.length
      omega
  · split
    · exact totG_ok _ (Nat.le_refl _)
    · refine totG_bind (tot_add hE (adv ts) (by omega) (by omega)) fun r hr => totG_ok _ ?_
      have : r.2.length ≤ (adv ts).length := hr
      show r.2.length ≤ ts.length
      omega

theorem tot_relation {n : Nat} (ts : List Token) (hk : ts.length ≤ k + 1) (hn : ts.length < n) :
    TotG (relation E n ts) (Le ts) := by
  unfold relation
  refine totG_bind (tot_add hE ts hk hn) fun r hr => ?_
  have hr' : r.2.length ≤ ts.length := hr
  exact totG_weaken (tot_relTail hE r.1 r.2 (by omega) (by omega)) fun v hv => by
    have : v.2.length ≤ r.2.length := hv
    show v.2.length ≤ ts.length
    omega

theorem tot_andLoop {m : Nat} : ∀ (n : Nat) (lhs : Expr) (ts : List Token), ts.length ≤ k + 1 → ts.length < n → ts.length ≤ m →
    TotG (andLoop E m n lhs ts) (Le ts) := by
  intro n
  induction n with
  | zero => intro _ ts _ h; omega
  | succ n ih =>
    intro lhs ts hk hn hm
    have h1 := adv_length ts
    unfold andLoop
    refine totG_ite _ (fun hop => ?_) (fun _ => totG_ok _ (Nat.le_refl _))
    have hpos := peek_text_pos hop (by decide)
    refine totG_bind (tot_relation hE (adv ts) (by omega) (by omega)) fun r hr => ?_
    have hr' : r.2.length ≤ (adv ts).length := hr
    exact totG_weaken (ih _ r.2 (by omega) (by omega) (by omega)) fun v hv => by
      have : v.2.length ≤ r.2.length := hv
      show v.2.length ≤ ts.length
      omega

theorem tot_and {n : Nat} (ts : List Token) (hk : ts.length ≤ k + 1) (hn : ts.length < n) :
    TotG (and_ E n ts) (Le ts) := by
  unfold and_
  refine totG_bind (tot_relation hE ts hk hn) fun r hr => ?_
  have hr' : r.2.length ≤ ts.length := hr
  exact totG_weaken (tot_andLoop hE n r.1 r.2 (by omega) (by omega) (by omega)) fun v hv => by
    have : v.2.length ≤ r.2.length := hv
    show v.2.length ≤ ts.length
    omega

theorem tot_orLoop {m : Nat} : ∀ (n : Nat) (lhs : Expr) (ts : List Token), ts.length ≤ k + 1 → ts.length < n → ts.length ≤ m →
    TotG (orLoop E m n lhs ts) (Le ts) := by
  intro n
  induction n with
  | zero => intro _ ts _ h; omega
  | succ n ih =>
    intro lhs ts hk hn hm
    have h1 := adv_length ts
    unfold orLoop
    refine totG_ite _ (fun hop => ?_) (fun _ => totG_ok _ (Nat.le_refl _))
    have hpos := peek_text_pos hop (by decide)
    refine totG_bind (tot_and hE (adv ts) (by omega) (by omega)) fun r hr => ?_
    have hr' : r.2.length ≤ (adv ts).length := hr
    exact totG_weaken (ih _ r.2 (by omega) (by omega) (by omega)) fun v hv => by
      have : v.2.length ≤ r.2.length := hv
      show v.2.length ≤ ts.length
      omega

theorem tot_or {n : Nat} (ts : List Token) (hk : ts.length ≤ k + 1) (hn : ts.length < n) :
    TotG (or_ E n ts) (Le ts) := by
  unfold or_
  refine totG_bind (tot_and hE ts hk hn) fun r hr => ?_
  have hr' : r.2.length ≤ ts.length := hr
  exact totG_weaken (tot_orLoop hE n r.1 r.2 (by omega) (by omega) (by omega)) fun v hv => by
    have : v.2.length ≤ r.2.length := hv
    show v.2.length ≤ ts.length
    omega

theorem tot_expression {n : Nat} (ts : List Token) (hk : ts.length ≤ k + 1) (hn : ts.length < n) :
    TotG (expression E n ts) (Le ts) := by
  have h1 := adv_length ts
  unfold expression
  refine totG_ite _ (fun _ => ?_) (fun _ => tot_or hE ts hk hn)
  refine totG_bind (hE (adv ts) (by omega)) fun c hc => ?_
  have hc' : c.2.length ≤ (adv ts).length := hc
  refine totG_bind (P := fun ts2 => ts2.length ≤ c.2.length) (totG_some _ fun _ h => exact_len h) fun ts2 h2 => ?_
  refine totG_bind (hE ts2 (by omega)) fun t ht => ?_
  have ht' : t.2.length ≤ ts2.length := ht
  refine totG_bind (P := fun ts4 => ts4.length ≤ t.2.length) (totG_some _ fun _ h => exact_len h) fun ts4 h4 => ?_
  refine totG_bind (hE ts4 (by omega)) fun e he => totG_ok _ ?_
  have : e.2.length ≤ ts4.length := he
  show e.2.length ≤ ts.length
  omega

end total

theorem exprF_two_nil : exprF 2 [] = some (.error .primary) := by rfl

/-- with fuel `k + 2`, `expression` terminates on every token list of length ≤ k -/
theorem goodE_exprF : ∀ k, GoodE (exprF (k + 2)) k := by
  intro k
  induction k with
  | zero =>
    intro ts hts
    have : ts = [] := by cases ts <;> simp_all
    subst this
    exact ⟨_, exprF_two_nil, fun v hv => by cases hv⟩
  | succ k ih =>
    intro ts hts
    show TotG (expression (exprF (k + 2)) (k + 2) ts) (Le ts)
    exact tot_expression ih ts hts (by omega)

theorem tot_condition {m : Nat} (ts : List Token) (hm : ts.length + 2 ≤ m) : TotG (condition m ts) (Le ts) := by
  unfold condition
  refine totG_bind (P := fun ts1 => ts1.length ≤ ts.length) (totG_some _ fun _ h => exact_len h) fun ts1 h1 => ?_
  obtain ⟨j, rfl⟩ : ∃ j, m = j + 2 := ⟨m - 2, by omega⟩
  refine totG_bind (goodE_exprF j ts1 (by omega)) fun r hr => ?_
  have hr' : r.2.length ≤ ts1.length := hr
  refine totG_bind (P := fun ts3 => ts3.length ≤ r.2.length) (totG_some _ fun _ h => exact_len h) fun ts3 h3 => totG_ok _ ?_
  show ts3.length ≤ ts.length
  omega

theorem tot_conditions {m : Nat} : ∀ (n : Nat) (ts : List Token), ts.length < n → ts.length + 2 ≤ m →
    TotG (conditions m n ts) (Le ts) := by
  intro n
  induction n with
  | zero => intro ts h; omega
  | succ n ih =>
    intro ts hn hm
    have h1 := adv_length ts
    unfold conditions
    refine totG_ite _ (fun hw => ?_) (fun _ => totG_ok _ (Nat.le_refl _))
    have hpos : 0 < ts.length := by
      simp only [Bool.or_eq_true] at hw
      rcases hw with h | h
      · exact peek_text_pos h (by decide)
      · exact peek_text_pos h (by decide)
    refine totG_bind (tot_condition (adv ts) (by omega)) fun r hr => ?_
    have hr' : r.2.length ≤ (adv ts).length := hr
    refine totG_bind (ih r.2 (by omega) (by omega)) fun rs hrs => totG_ok _ ?_
    have : rs.2.length ≤ r.2.length := hrs
    show rs.2.length ≤ ts.length
    omega

/-! ## the policy head never produces tokens either -/

theorem entityPath_len (ty : String) (ts : List Token) : ∀ p, entityPath ty ts = .ok p → p.2.length ≤ ts.length := by
  induction ty, ts using entityPath.induct with
  | case1 ty => intro p h; unfold entityPath at h; cases h
  | case2 ty c rest hc => intro p h; unfold entityPath at h; simp only [hc, ↓reduceIte] at h; cases h
  | case3 ty c hc => intro p h; unfold entityPath at h; simp only [hc] at h; cases h
  | case4 ty c hc t tail ht ih =>
    intro p h
    unfold entityPath at h
    simp only [hc, ht, ↓reduceIte] at h
    have := ih p h
    simp only [List.length_cons]; omega
  | case5 ty c hc t tail ht hs id hid =>
    intro p h
    unfold entityPath at h
    simp only [hc, ht, hs, hid, ↓reduceIte] at h
    cases h; simp only [List.length_cons]; omega
  | case6 ty c hc t tail ht hs e he =>
    intro p h
    unfold entityPath at h
    simp only [hc, ht, hs, he, ↓reduceIte] at h
    cases h
  | case7 ty c hc t tail ht hs =>
    intro p h
    unfold entityPath at h
    simp only [hc, ht, hs] at h
    cases h

theorem entity_len {ts : List Token} {p : UID × List Token} (h : entity ts = .ok p) : p.2.length ≤ ts.length := by
  unfold entity at h
  split at h
  · exact Nat.le_trans (entityPath_len _ _ p h) (adv_le ts)
  · cases h

theorem entlist_len : ∀ (n : Nat) (ts : List Token) p, entlist n ts = .ok p → p.2.length ≤ ts.length := by
  intro n
  induction n with
  | zero => intro ts p h; unfold entlist at h; cases h
  | succ n ih =>
    intro ts p h
    unfold entlist at h
    split at h
    · cases h; simp
    · split at h
      · cases h
      · rename_i u ts1 he
        have h1 := entity_len he
        split at h
        · split at h
          · cases h
          · rename_i us ts2 hrec
            cases h
            have h2 := ih _ _ hrec
            have := adv_le ts1
            simp only at h1 h2 ⊢
            omega
        · split at h
          · cases h; exact h1
          · cases h

theorem annotations_len (known : List String) (ts : List Token) : ∀ p, annotations known ts = .ok p → p.2.length ≤ ts.length := by
  induction known, ts using annotations.induct
  all_goals intro p h
  all_goals unfold annotations at h
  all_goals try simp only [*, ↓reduceIte, Bool.false_eq_true] at h
  all_goals first
    | (cases h; done)
    | (cases h; simp only [List.length_cons, List.length_nil]; omega)
    | skip
  case case14 ih =>
    rename_i hrec
    cases h
    have h2 := ih _ hrec
    simp only [List.length_cons] at h2 ⊢
    omega

theorem effect_len {ts : List Token} {p : Effect × List Token} (h : effect ts = .ok p) : p.2.length ≤ ts.length := by
  unfold effect at h
  split at h
  · cases h; exact adv_le ts
  · split at h
    · cases h; exact adv_le ts
    · cases h

theorem scopeIs_len {ts : List Token} {p : Scope × List Token} (h : scopeIs ts = .ok p) : p.2.length ≤ ts.length := by
  unfold scopeIs at h
  split at h
  · cases h
  · rename_i ty ts1 hp
    have h1 := path_len hp
    split at h
    · split at h
      · cases h
      · rename_i u ts2 he
        cases h
        have h2 := entity_len he
        have := adv_le ts1
        simp only at h1 h2 ⊢
        omega
    · cases h; exact h1

theorem scopePR_len {ts : List Token} {p : Scope × List Token} (h : scopePR ts = .ok p) : p.2.length ≤ ts.length := by
  have h0 := adv_le ts
  unfold scopePR at h
  simp only at h
  split at h
  · split at h
    · cases h
    · rename_i u ts1 he
      cases h
      have h2 := entity_len he
      simp only at h2 ⊢; omega
  · split at h
    · have := scopeIs_len h; omega
    · split at h
      · split at h
        · cases h
        · rename_i u ts1 he
          cases h
          have h2 := entity_len he
          simp only at h2 ⊢; omega
      · cases h; simp

theorem scopeA_len {ts : List Token} {p : Scope × List Token} (h : scopeA ts = .ok p) : p.2.length ≤ ts.length := by
  have h0 := adv_le ts
  have h00 := adv_le (adv ts)
  unfold scopeA at h
  simp only at h
  split at h
  · split at h
    · cases h
    · rename_i u ts1 he
      cases h
      have h2 := entity_len he
      simp only at h2 ⊢; omega
  · split at h
    · split at h
      · split at h
        · cases h
        · rename_i us ts1 he
          cases h
          have h2 := entlist_len _ _ _ he
          have := adv_le ts1
          simp only at h2 ⊢; omega
      · split at h
        · cases h
        · rename_i u ts1 he
          cases h
          have h2 := entity_len he
          simp only at h2 ⊢; omega
    · cases h; simp

/-- a successful result satisfies `P` -/
def OkE {α : Type} (a : Except PErr α) (P : α → Prop) : Prop := ∀ v, a = .ok v → P v

theorem okE_bind {α β : Type} {a : Except PErr α} {k : α → Except PErr β} {P : α → Prop} {Q : β → Prop}
    (ha : OkE a P) (hk : ∀ v, P v → OkE (k v) Q) : OkE (bindE a k) Q := by
  intro w hw
  cases a with
  | error e => simp [bindE] at hw
  | ok v => exact hk v (ha v rfl) w (by simpa [bindE] using hw)

theorem policyHead_len {ts : List Token} {p : Head × List Token} (h : policyHead ts = .ok p) : p.2.length ≤ ts.length := by
  revert p
  show OkE (policyHead ts) (fun p => p.2.length ≤ ts.length)
  unfold policyHead
  refine okE_bind (P := fun v => v.2.length ≤ ts.length) (fun v hv => annotations_len _ _ v hv) fun an han => ?_
  refine okE_bind (P := fun v => v.2.length ≤ ts.length) (fun v hv => Nat.le_trans (effect_len hv) han) fun ef hef => ?_
  refine okE_bind (P := fun v => v.length ≤ ts.length) (fun v hv => Nat.le_trans (exact_len hv) hef) fun ts3 h3 => ?_
  refine okE_bind (P := fun v => v.length ≤ ts.length) (fun v hv => Nat.le_trans (exact_len hv) h3) fun ts4 h4 => ?_
  refine okE_bind (P := fun v => v.2.length ≤ ts.length) (fun v hv => Nat.le_trans (scopePR_len hv) h4) fun pr h5 => ?_
  refine okE_bind (P := fun v => v.length ≤ ts.length) (fun v hv => Nat.le_trans (exact_len hv) h5) fun ts6 h6 => ?_
  refine okE_bind (P := fun v => v.length ≤ ts.length) (fun v hv => Nat.le_trans (exact_len hv) h6) fun ts7 h7 => ?_
  refine okE_bind (P := fun v => v.2.length ≤ ts.length) (fun v hv => Nat.le_trans (scopeA_len hv) h7) fun ac h8 => ?_
  refine okE_bind (P := fun v => v.length ≤ ts.length) (fun v hv => Nat.le_trans (exact_len hv) h8) fun ts9 h9 => ?_
  refine okE_bind (P := fun v => v.length ≤ ts.length) (fun v hv => Nat.le_trans (exact_len hv) h9) fun ts10 h10 => ?_
  refine okE_bind (P := fun v => v.2.length ≤ ts.length) (fun v hv => Nat.le_trans (scopePR_len hv) h10) fun re h11 => ?_
  have a12 : (if ((peek re.2).text == ",") = true then adv re.2 else re.2).length ≤ ts.length := by
    split
    · exact Nat.le_trans (adv_le _) h11
    · exact h11
  refine okE_bind (P := fun v => v.length ≤ ts.length) (fun v hv => Nat.le_trans (exact_len hv) a12) fun ts13 h13 => ?_
  intro w hw
  cases hw
  exact h13

/-- `Policy.fromCedar` never runs out of fuel `m ≥ |tokens| + 2`, and consumes at least one token when it succeeds -/
theorem tot_policy_lt (ts : List Token) (m : Nat) (hm : ts.length + 2 ≤ m) : TotG (policy m ts) (fun r => r.2.length < ts.length) := by
  unfold policy
  refine totG_bind (P := fun h => h.2.length ≤ ts.length) (totG_some _ fun _ h => policyHead_len h) fun h hh => ?_
  refine totG_bind (tot_conditions _ h.2 (by omega) (by omega)) fun cs hcs => ?_
  have hcs' : cs.2.length ≤ h.2.length := hcs
  refine totG_bind (P := fun ts15 => ts15.length < cs.2.length) (totG_some _ fun _ h => exact_lt h (by decide)) fun ts15 h15 => totG_ok _ ?_
  show ts15.length < ts.length
  omega

/-- `Policy.fromCedar` never runs out of the fuel `|tokens| + 2` -/
theorem tot_policy (ts : List Token) : TotG (policy (ts.length + 2) ts) (Le ts) :=
  totG_weaken (tot_policy_lt ts _ (Nat.le_refl _)) fun v hv => Nat.le_of_lt hv

/-- `PolicySlice.UnmarshalCedar` never runs out of fuel -/
theorem tot_policiesLoop (m : Nat) : ∀ (n : Nat) (ts : List Token), ts.length < n → ts.length + 2 ≤ m →
    ∃ r, policiesLoop m n ts = some r := by
  intro n
  induction n with
  | zero => intro ts h; omega
  | succ n ih =>
    intro ts hn hm
    unfold policiesLoop
    split
    · exact ⟨_, rfl⟩
    · obtain ⟨r, hr, hp⟩ := tot_policy_lt ts m hm
      rw [hr]
      cases r with
      | error e => exact ⟨_, rfl⟩
      | ok v =>
        have hv : v.2.length < ts.length := hp v rfl
        obtain ⟨r2, hr2⟩ := ih v.2 (by omega) (by omega)
        simp only [bindP, hr2]
        cases r2 with
        | error e => exact ⟨_, rfl⟩
        | ok ps => exact ⟨_, rfl⟩

end CedarGo.Text
