/-
  Helper lemmas for C07 (`like`): every pattern `parser.ParsePattern` returns is in `NewPattern` normal form (`patOK`) —
  the fragment of the round-trip theorems contains every `like` node the parser can build.

  * `ByteArray.toList` is the list of the bytes (core has no lemma for the accumulator loop), hence UTF-8 encoding
    commutes with concatenation and decoding inverts it (`utf8_append`, `ofUtf8_utf8`): every chunk `NewPattern`
    assembles from the strings `Unquote` returned is valid UTF-8;
  * `types.NewPattern` keeps the shape invariant (`okFrom`): a component without wildcard only first, an empty
    literal only last.
-/
import CedarGo.Model.Text.Fragment
namespace CedarGo.Text
open CedarGo

/-! ## bytes of strings -/

theorem toList_loop_eq (data : Array UInt8) : ∀ (n i : Nat) (r : List UInt8), data.size - i = n →
    ByteArray.toList.loop ⟨data⟩ i r = r.reverse ++ data.toList.drop i := by
  intro n
  induction n with
  | zero =>
    intro i r h
    rw [ByteArray.toList.loop]
    have hs : (ByteArray.mk data).size = data.size := rfl
    have hi : ¬ i < (ByteArray.mk data).size := by omega
    have hl : data.toList.length ≤ i := by rw [Array.length_toList]; omega
    simp only [hi, ↓reduceIte, List.drop_eq_nil_of_le hl, List.append_nil]
  | succ n ih =>
    intro i r h
    rw [ByteArray.toList.loop]
    have hs : (ByteArray.mk data).size = data.size := rfl
    have hi : i < (ByteArray.mk data).size := by omega
    simp only [hi, ↓reduceIte]
    rw [ih (i + 1) _ (by omega)]
    have hlt : i < data.toList.length := by rw [Array.length_toList]; omega
    rw [List.drop_eq_getElem_cons hlt]
    have hsz : i < data.size := by omega
    have hg : (ByteArray.mk data).get! i = data.toList[i] := by
      show data[i]! = _
      rw [getElem!_pos data i hsz, Array.getElem_toList]
    rw [hg]
    simp

theorem byteArray_toList (bs : ByteArray) : bs.toList = bs.data.toList := by
  obtain ⟨data⟩ := bs
  unfold ByteArray.toList
  rw [toList_loop_eq data _ 0 [] rfl]
  simp

theorem byteArray_mk_toList (bs : ByteArray) : ByteArray.mk bs.toList.toArray = bs := by
  rw [byteArray_toList]

theorem byteArray_toList_append (a b : ByteArray) : (a ++ b).toList = a.toList ++ b.toList := by
  simp only [byteArray_toList, ByteArray.data_append, Array.toList_append]

/-- UTF-8 encoding commutes with concatenation -/
theorem utf8_append (a b : List Char) : utf8 (a ++ b) = utf8 a ++ utf8 b := by
  simp only [utf8, String.ofList_append, String.toUTF8_eq_toByteArray, String.toByteArray_append, byteArray_toList_append]

/-- decoding inverts encoding -/
theorem ofUtf8_utf8 (l : List Char) : ofUtf8 (utf8 l) = some l := by
  unfold ofUtf8 utf8
  rw [byteArray_mk_toList]
  have : String.fromUTF8? (String.ofList l).toUTF8 = some (String.ofList l) := by
    unfold String.fromUTF8?
    have hv : (String.ofList l).toUTF8.IsValidUTF8 := (String.ofList l).isValidUTF8
    rw [dif_pos hv]
    rfl
  rw [this]
  simp

theorem litUtf8OK_utf8 (w : Bool) (l : List Char) : litUtf8OK ⟨w, utf8 l⟩ = true := by
  simp [litUtf8OK, ofUtf8_utf8]

theorem litUtf8OK_append (c : PatComp) (s : List Char) (h : litUtf8OK c = true) :
    litUtf8OK ⟨c.wildcard, c.literal ++ utf8 s⟩ = true := by
  unfold litUtf8OK at h
  cases hl : ofUtf8 c.literal with
  | none => simp [hl] at h
  | some l =>
    simp only [hl, beq_iff_eq] at h
    rw [← h, ← utf8_append]
    exact litUtf8OK_utf8 _ _

/-! ## the shape invariant of `NewPattern` -/

/-- `first`: the component may lack the wildcard -/
def okFrom : Bool → Pattern → Bool
  | _, [] => true
  | first, c :: rest => (first || c.wildcard) && (!c.literal.isEmpty || rest.isEmpty) && okFrom false rest

theorem patTailOK_eq_okFrom : ∀ p : Pattern, patTailOK p = okFrom false p
  | [] => rfl
  | c :: rest => by simp [patTailOK, okFrom, patTailOK_eq_okFrom rest]

theorem patOK_iff_okFrom (p : Pattern) : patOK p = true ↔ p ≠ [] ∧ okFrom true p = true ∧ p.all litUtf8OK = true := by
  cases p with
  | nil => simp [patOK]
  | cons c rest => simp [patOK, okFrom, patTailOK_eq_okFrom, and_assoc]

/-- the literal of the LAST component may be anything -/
theorem okFrom_set_last : ∀ (init : Pattern) (f : Bool) (last : PatComp) (lit : List UInt8),
    okFrom f (init ++ [last]) = true → okFrom f (init ++ [⟨last.wildcard, lit⟩]) = true
  | [], f, last, lit, h => by simpa [okFrom] using h
  | c :: init, f, last, lit, h => by
    simp only [List.cons_append, okFrom, Bool.and_eq_true, Bool.or_eq_true, Bool.not_eq_true', List.isEmpty_iff,
      List.append_eq_nil_iff, List.cons_ne_self, and_false, or_false] at h ⊢
    exact ⟨h.1, okFrom_set_last init false last lit h.2⟩

/-- the LAST component may be turned into a wildcard component -/
theorem okFrom_set_last_wild : ∀ (init : Pattern) (f : Bool) (last : PatComp),
    okFrom f (init ++ [last]) = true → okFrom f (init ++ [⟨true, last.literal⟩]) = true
  | [], f, last, h => by
    simp only [List.nil_append, okFrom, Bool.and_eq_true, Bool.or_eq_true] at h ⊢
    exact ⟨⟨.inr trivial, h.1.2⟩, h.2⟩
  | c :: init, f, last, h => by
    simp only [List.cons_append, okFrom, Bool.and_eq_true, Bool.or_eq_true, Bool.not_eq_true', List.isEmpty_iff,
      List.append_eq_nil_iff, List.cons_ne_self, and_false, or_false] at h ⊢
    exact ⟨h.1, okFrom_set_last_wild init false last h.2⟩

theorem litUtf8OK_set_wild (c : PatComp) (h : litUtf8OK c = true) : litUtf8OK ⟨true, c.literal⟩ = true := by
  simpa [litUtf8OK] using h

/-- a wildcard component may follow a component with a non-empty literal -/
theorem okFrom_snoc_wild : ∀ (init : Pattern) (f : Bool) (last : PatComp), last.literal.isEmpty = false →
    okFrom f (init ++ [last]) = true → okFrom f (init ++ [last] ++ [⟨true, []⟩]) = true
  | [], f, last, hne, h => by
    simp only [List.nil_append, okFrom, Bool.and_eq_true, Bool.or_eq_true] at h
    simp [okFrom, hne, h.1.1]
  | c :: init, f, last, hne, h => by
    simp only [List.cons_append, okFrom, Bool.and_eq_true, Bool.or_eq_true, Bool.not_eq_true', List.isEmpty_iff,
      List.append_eq_nil_iff, List.cons_ne_self, and_false, or_false] at h ⊢
    exact ⟨h.1, by simpa using okFrom_snoc_wild init false last hne h.2⟩

/-- the accumulator of `NewPattern` is empty or in normal form -/
def AccOK (acc : Pattern) : Prop := acc = [] ∨ patOK acc = true

theorem litUtf8OK_wild : litUtf8OK ⟨true, []⟩ = true := by decide +kernel

theorem accOK_lit (acc : Pattern) (s : List Char) (h : AccOK acc) :
    AccOK (match acc.reverse with
      | [] => [⟨false, utf8 s⟩]
      | last :: revInit => (⟨last.wildcard, last.literal ++ utf8 s⟩ :: revInit).reverse) := by
  rcases List.eq_nil_or_concat acc with rfl | ⟨init, last, rfl⟩
  · right
    simp [patOK, patTailOK, litUtf8OK_utf8]
  · rcases h with h | h
    · simp at h
    · right
      rw [List.concat_eq_append] at h ⊢
      simp only [List.reverse_append, List.reverse_cons, List.reverse_nil, List.nil_append, List.singleton_append,
        List.reverse_reverse]
      rw [patOK_iff_okFrom] at h ⊢
      refine ⟨by simp, okFrom_set_last init true last _ h.2.1, ?_⟩
      simp only [List.all_append, List.all_cons, List.all_nil, Bool.and_true, Bool.and_eq_true] at h ⊢
      exact ⟨h.2.2.1, litUtf8OK_append last s h.2.2.2⟩

theorem accOK_wild (acc : Pattern) (h : AccOK acc) :
    AccOK (match acc.reverse with
      | [] => [⟨true, []⟩]
      | last :: revInit => if last.literal.isEmpty then (⟨true, last.literal⟩ :: revInit).reverse else acc ++ [⟨true, []⟩]) := by
  rcases List.eq_nil_or_concat acc with rfl | ⟨init, last, rfl⟩
  · right
    simp [patOK, patTailOK, litUtf8OK_wild]
  · rcases h with h | h
    · simp at h
    · rw [List.concat_eq_append] at h ⊢
      simp only [List.reverse_append, List.reverse_cons, List.reverse_nil, List.nil_append, List.singleton_append,
        List.reverse_reverse]
      split
      · right
        rw [patOK_iff_okFrom] at h ⊢
        refine ⟨by simp, okFrom_set_last_wild init true last h.2.1, ?_⟩
        simp only [List.all_append, List.all_cons, List.all_nil, Bool.and_true, Bool.and_eq_true] at h ⊢
        exact ⟨h.2.2.1, litUtf8OK_set_wild last h.2.2.2⟩
      · rename_i hne
        right
        rw [patOK_iff_okFrom] at h ⊢
        refine ⟨by simp, okFrom_snoc_wild init true last (by simpa using hne) h.2.1, ?_⟩
        simp only [List.all_append, List.all_cons, List.all_nil, Bool.and_true, Bool.and_eq_true] at h ⊢
        exact ⟨⟨h.2.2.1, h.2.2.2⟩, litUtf8OK_wild⟩

theorem newPattern_lit (s : List Char) (rest : List PArg) (acc : Pattern) :
    newPattern (.lit s :: rest) acc = newPattern rest (match acc.reverse with
      | [] => [⟨false, utf8 s⟩]
      | last :: revInit => (⟨last.wildcard, last.literal ++ utf8 s⟩ :: revInit).reverse) := by
  rw [newPattern]; split <;> (rename_i heq; simp only [heq])

theorem newPattern_wild (rest : List PArg) (acc : Pattern) :
    newPattern (.wild :: rest) acc = newPattern rest (match acc.reverse with
      | [] => [⟨true, []⟩]
      | last :: revInit => if last.literal.isEmpty then (⟨true, last.literal⟩ :: revInit).reverse else acc ++ [⟨true, []⟩]) := by
  rw [newPattern]; split
  · rename_i heq; simp only [heq]
  · rename_i heq; simp only [heq]; split <;> rfl

theorem step_ne_nil_lit (acc : Pattern) (s : List Char) :
    (match acc.reverse with
      | [] => [(⟨false, utf8 s⟩ : PatComp)]
      | last :: revInit => (⟨last.wildcard, last.literal ++ utf8 s⟩ :: revInit).reverse) ≠ [] := by
  split <;> simp

theorem step_ne_nil_wild (acc : Pattern) :
    (match acc.reverse with
      | [] => [(⟨true, []⟩ : PatComp)]
      | last :: revInit => if last.literal.isEmpty then (⟨true, last.literal⟩ :: revInit).reverse else acc ++ [⟨true, []⟩]) ≠ [] := by
  split
  · simp
  · split <;> simp

/-- `NewPattern` keeps the invariant, and returns a component-less pattern only for no arguments at all -/
theorem newPattern_accOK : ∀ (args : List PArg) (acc : Pattern), AccOK acc →
    AccOK (newPattern args acc) ∧ (newPattern args acc = [] → args = [] ∧ acc = [])
  | [], acc, h => by simp [newPattern, h]
  | .lit s :: rest, acc, h => by
    rw [newPattern_lit]
    have ih := newPattern_accOK rest _ (accOK_lit acc s h)
    exact ⟨ih.1, fun h0 => absurd (ih.2 h0).2 (step_ne_nil_lit acc s)⟩
  | .wild :: rest, acc, h => by
    rw [newPattern_wild]
    have ih := newPattern_accOK rest _ (accOK_wild acc h)
    exact ⟨ih.1, fun h0 => absurd (ih.2 h0).2 (step_ne_nil_wild acc)⟩

/-- **every pattern the parser returns is in `NewPattern` normal form** -/
theorem parsePattern_patOK (raw : List Char) (p : Pattern) (h : parsePattern raw = .ok p) : patOK p = true := by
  unfold parsePattern at h
  split at h
  · cases h
  · simp only [Except.ok.injEq] at h
    subst h
    have := newPattern_accOK [.lit []] [] (.inl rfl)
    rcases this.1 with h0 | h0
    · exact absurd (this.2 h0).1 (by simp)
    · exact h0
  · rename_i comps hne _
    simp only [Except.ok.injEq] at h
    subst h
    have := newPattern_accOK comps [] (.inl rfl)
    rcases this.1 with h0 | h0
    · have := (this.2 h0).1
      subst this
      exact absurd rfl (hne)
    · exact h0

end CedarGo.Text
