/-
  C19 helper lemmas: heap agreement, the interleaving invariant (traces) and the scheduler invariant (programs).
-/
import CedarGo.Model.Heap
namespace CedarGo.Heap

theorem set_same (h : Heap) (l : Loc) (v : Val) : (h.set l v) l = v := by
  simp [Heap.set]

theorem set_other (h : Heap) (l l' : Loc) (v : Val) (hne : l' ≠ l) : (h.set l v) l' = h l' := by
  simp [Heap.set, hne]

theorem AgreeOn.refl (i : Nat) (h : Heap) : AgreeOn i h h := fun _ _ => rfl

theorem AgreeOn.set_both {i : Nat} {h h' : Heap} (l : Loc) (v : Val) (ha : AgreeOn i h h') :
    AgreeOn i (h.set l v) (h'.set l v) := by
  intro l' hv
  by_cases hl : l' = l
  · subst hl; simp [Heap.set]
  · simp [Heap.set, hl, ha l' hv]

theorem AgreeOn.set_invisible {i : Nat} {h h' : Heap} (l : Loc) (v : Val) (hinv : l.visibleTo i = false)
    (ha : AgreeOn i h h') : AgreeOn i (h.set l v) h' := by
  intro l' hv
  have hne : l' ≠ l := by
    intro e; subst e; rw [hinv] at hv; cases hv
  simp [Heap.set, hne, ha l' hv]

/-- a location that is not shared and that operation `j` can name is one of `j`'s allocations: nobody else sees it -/
theorem invisible_of_private {i j : Nat} {l : Loc} (hns : l.isShared = false) (hvis : l.visibleTo j = true)
    (hne : j ≠ i) : l.visibleTo i = false := by
  cases l with
  | shared n => simp [Loc.isShared] at hns
  | priv o n =>
    simp [Loc.visibleTo] at hvis ⊢
    omega

theorem mem_writeSet {o : Nat} {l : Loc} {v : Val} : ∀ {op : List Step}, (⟨o, .write l v⟩ : Step) ∈ op → l ∈ writeSet op
  | [], hm => by cases hm
  | ⟨o', .write l' v'⟩ :: rest, hm => by
    rcases List.mem_cons.mp hm with e | hm'
    · cases e; simp [writeSet]
    · simp [writeSet, mem_writeSet hm']
  | ⟨o', .read l'⟩ :: rest, hm => by
    rcases List.mem_cons.mp hm with e | hm'
    · cases e
    · simp [writeSet, mem_writeSet hm']

theorem ReadOnly.tail {s : Step} {rest : List Step} (h : ReadOnly (s :: rest)) : ReadOnly rest := by
  intro l hl
  apply h
  obtain ⟨o, act⟩ := s
  cases act <;> simp [writeSet, hl]

theorem Confined.tail {i : Nat} {s : Step} {rest : List Step} (h : Confined i (s :: rest)) : Confined i rest :=
  fun s' hs' => h s' (List.mem_cons_of_mem _ hs')

/-- the two facts about one operation that the theorems need -/
def Good (i : Nat) (op : List Step) : Prop := ReadOnly op ∧ Confined i op

theorem good_after_step {ops : List (List Step)} {j : Nat} {s : Step} {rest : List Step}
    (hj : ops[j]? = some (s :: rest)) (hgood : ∀ (i : Nat) (op : List Step), ops[i]? = some op → Good i op) :
    ∀ (i : Nat) (op : List Step), (ops.set j rest)[i]? = some op → Good i op := by
  intro i op hi
  by_cases hij : j = i
  · subst hij
    have hlt : j < ops.length := (List.getElem?_eq_some_iff.mp hj).1
    rw [List.getElem?_set_self hlt] at hi
    cases hi
    exact ⟨(hgood j _ hj).1.tail, (hgood j _ hj).2.tail⟩
  · rw [List.getElem?_set_ne hij] at hi
    exact hgood i op hi

theorem obsOf_cons_self (i : Nat) (v : Val) (obs : List (Nat × Val)) : obsOf i ((i, v) :: obs) = v :: obsOf i obs := by
  simp [obsOf]

theorem obsOf_cons_other {i j : Nat} (hne : j ≠ i) (v : Val) (obs : List (Nat × Val)) :
    obsOf i ((j, v) :: obs) = obsOf i obs := by
  simp [obsOf, hne]

/-- THE interleaving invariant: while the other operations run, operation `i` keeps seeing exactly the heap
    it would see alone, so it observes the same values, and ends with the same visible heap -/
theorem interleave_invariant {ops : List (List Step)} {tr : List Step} (hil : Interleave ops tr) :
    (∀ (i : Nat) (op : List Step), ops[i]? = some op → Good i op) →
    ∀ (h : Heap) (i : Nat) (op : List Step), ops[i]? = some op → ∀ h' : Heap, AgreeOn i h h' →
      obsOf i (exec h tr).2 = (exec h' op).2.map (·.2) ∧ AgreeOn i (exec h tr).1 (exec h' op).1 := by
  induction hil with
  | done ops hall =>
    intro _ h i op hi h' ha
    have : op = [] := hall op (List.mem_of_getElem? hi)
    subst this
    exact ⟨by simp [exec, obsOf], by simpa [exec] using ha⟩
  | step ops j s rest tr hj _ ih =>
    intro hgood h i op hi h' ha
    have hgood' := good_after_step hj hgood
    have hlt : j < ops.length := (List.getElem?_eq_some_iff.mp hj).1
    obtain ⟨hro, hconf⟩ := hgood j _ hj
    have hs := hconf s (List.mem_cons_self)
    obtain ⟨o, act⟩ := s
    have ho : o = j := hs.1
    subst ho
    by_cases hij : o = i
    · -- the step belongs to operation i itself
      subst hij
      have hop : op = ⟨o, act⟩ :: rest := by rw [hj] at hi; cases hi; rfl
      subst hop
      have hrest : (ops.set o rest)[o]? = some rest := List.getElem?_set_self hlt
      cases act with
      | read l =>
        have hvis : l.visibleTo o = true := hs.2
        have := ih hgood' h o rest hrest h' ha
        refine ⟨?_, by simpa [exec] using this.2⟩
        simp only [exec, obsOf_cons_self, List.map_cons]
        rw [this.1, ha l hvis]
      | write l v =>
        have := ih hgood' (h.set l v) o rest hrest (h'.set l v) (ha.set_both l v)
        simpa [exec] using this
    · -- a step of another operation: invisible to i
      have hi' : (ops.set o rest)[i]? = some op := by rw [List.getElem?_set_ne hij]; exact hi
      cases act with
      | read l =>
        have := ih hgood' h i op hi' h' ha
        refine ⟨?_, by simpa [exec] using this.2⟩
        simp only [exec, obsOf_cons_other hij]
        exact this.1
      | write l v =>
        have hns : l.isShared = false := hro l (by simp [writeSet])
        have hvis : l.visibleTo o = true := hs.2
        have hinv := invisible_of_private hns hvis hij
        have := ih hgood' (h.set l v) i op hi' h' (ha.set_invisible l v hinv)
        simpa [exec] using this

/-- every step of an interleaving is a step of one of the operations -/
theorem interleave_mem {ops : List (List Step)} {tr : List Step} (hil : Interleave ops tr) :
    ∀ s ∈ tr, ∃ (i : Nat) (op : List Step), ops[i]? = some op ∧ s ∈ op := by
  induction hil with
  | done ops _ => intro s hs; cases hs
  | step ops j s0 rest tr hj _ ih =>
    intro s hs
    rcases List.mem_cons.mp hs with e | hs'
    · subst e; exact ⟨j, _, hj, List.mem_cons_self⟩
    · obtain ⟨i, op, hi, hm⟩ := ih s hs'
      by_cases hij : j = i
      · subst hij
        have hlt : j < ops.length := (List.getElem?_eq_some_iff.mp hj).1
        rw [List.getElem?_set_self hlt] at hi
        cases hi
        exact ⟨j, _, hj, List.mem_cons_of_mem _ hm⟩
      · rw [List.getElem?_set_ne hij] at hi
        exact ⟨i, op, hi, hm⟩

/-- a step list none of whose writes hits a shared location leaves every shared location as it was -/
theorem exec_shared_unchanged : ∀ (tr : List Step) (h : Heap),
    (∀ o l v, (⟨o, .write l v⟩ : Step) ∈ tr → l.isShared = false) →
    ∀ n, (exec h tr).1 (.shared n) = h (.shared n)
  | [], h, _, n => by simp [exec]
  | ⟨o, .read l⟩ :: rest, h, hw, n => by
    simp only [exec]
    exact exec_shared_unchanged rest h (fun o' l' v' hm => hw o' l' v' (List.mem_cons_of_mem _ hm)) n
  | ⟨o, .write l v⟩ :: rest, h, hw, n => by
    simp only [exec]
    rw [exec_shared_unchanged rest (h.set l v) (fun o' l' v' hm => hw o' l' v' (List.mem_cons_of_mem _ hm)) n]
    have hns : l.isShared = false := hw o l v List.mem_cons_self
    apply set_other
    intro e; subst e; simp [Loc.isShared] at hns

/-! ### programs -/

theorem Prog.Isolated.step1 {α : Type} {i : Nat} {p : Prog α} (hp : p.Isolated i) (h : Heap) : (p.step1 h).1.Isolated i := by
  cases hp with
  | ret a => exact .ret a
  | read l k _ hk => exact hk _
  | write n v k hk => exact hk

/-- a quantum of an isolated program `j` changes nothing another operation `i` can see -/
theorem Prog.Isolated.step1_invisible {α : Type} {i j : Nat} {p : Prog α} (hp : p.Isolated j) (hne : j ≠ i)
    {h hi : Heap} (ha : AgreeOn i h hi) : AgreeOn i (p.step1 h).2 hi := by
  cases hp with
  | ret a => exact ha
  | read l k _ _ => exact ha
  | write n v k _ =>
    apply ha.set_invisible
    simp [Loc.visibleTo]; omega

theorem Prog.Isolated.step1_shared {α : Type} {j : Nat} {p : Prog α} (hp : p.Isolated j) (h : Heap) (n : Nat) :
    (p.step1 h).2 (.shared n) = h (.shared n) := by
  cases hp with
  | ret a => rfl
  | read l k _ _ => rfl
  | write m v k _ => simp [Prog.step1, Heap.set]

theorem isolated_after_quantum {α : Type} {ps : List (Prog α)} {j : Nat} {q : Prog α} (h : Heap)
    (hj : ps[j]? = some q) (hiso : ∀ (i : Nat) (p : Prog α), ps[i]? = some p → p.Isolated i) :
    ∀ (i : Nat) (p : Prog α), (ps.set j (q.step1 h).1)[i]? = some p → p.Isolated i := by
  intro i p hi
  by_cases hij : j = i
  · subst hij
    have hlt : j < ps.length := (List.getElem?_eq_some_iff.mp hj).1
    rw [List.getElem?_set_self hlt] at hi
    cases hi
    exact (hiso j q hj).step1 h
  · rw [List.getElem?_set_ne hij] at hi
    exact hiso i p hi

/-- THE scheduler invariant: whatever the schedule, if program `i` has finished it holds the result of its
    solo run on any heap that looked the same to it at the start -/
theorem runSched_invariant {α : Type} : ∀ (sched : List Nat) (ps : List (Prog α)) (h : Heap),
    (∀ (i : Nat) (p : Prog α), ps[i]? = some p → p.Isolated i) →
    ∀ (i : Nat) (p : Prog α), ps[i]? = some p → ∀ hi : Heap, AgreeOn i h hi →
      ∀ a, (runSched ps h sched).1[i]? = some (.ret a) → (p.run hi).1 = a
  | [], ps, h, _, i, p, hp, hi, _, a, hfin => by
    simp only [runSched] at hfin
    rw [hp] at hfin
    cases hfin
    rfl
  | j :: sched, ps, h, hiso, i, p, hp, hi, ha, a, hfin => by
    simp only [runSched] at hfin
    cases hq : ps[j]? with
    | none =>
      rw [hq] at hfin
      exact runSched_invariant sched ps h hiso i p hp hi ha a hfin
    | some q =>
      rw [hq] at hfin
      have hiso' := isolated_after_quantum h hq hiso
      have hlt : j < ps.length := (List.getElem?_eq_some_iff.mp hq).1
      by_cases hij : j = i
      · subst hij
        have hqp : q = p := by rw [hp] at hq; cases hq; rfl
        subst hqp
        have hself : (ps.set j (q.step1 h).1)[j]? = some (q.step1 h).1 := List.getElem?_set_self hlt
        cases hqi : hiso j q hp with
        | ret a0 =>
          exact runSched_invariant sched _ _ hiso' j _ hself hi (by simpa [Prog.step1] using ha) a hfin
        | read l k hvis hk =>
          have hval : h l = hi l := ha l hvis
          have := runSched_invariant sched _ _ hiso' j _ hself hi (by simpa [Prog.step1] using ha) a hfin
          simp only [Prog.step1] at this
          simp only [Prog.run]
          rw [← hval]
          exact this
        | write n v k hk =>
          have := runSched_invariant sched _ _ hiso' j _ hself (hi.set (.priv j n) v)
            (by simpa [Prog.step1] using ha.set_both (.priv j n) v) a hfin
          simpa [Prog.step1, Prog.run] using this
      · have hi' : (ps.set j (q.step1 h).1)[i]? = some p := by rw [List.getElem?_set_ne hij]; exact hp
        exact runSched_invariant sched _ _ hiso' i p hi' hi ((hiso j q hq).step1_invisible hij ha) a hfin

theorem runSched_shared_unchanged {α : Type} : ∀ (sched : List Nat) (ps : List (Prog α)) (h : Heap),
    (∀ (i : Nat) (p : Prog α), ps[i]? = some p → p.Isolated i) → ∀ n, (runSched ps h sched).2 (.shared n) = h (.shared n)
  | [], ps, h, _, n => by simp [runSched]
  | j :: sched, ps, h, hiso, n => by
    simp only [runSched]
    cases hq : ps[j]? with
    | none => exact runSched_shared_unchanged sched ps h hiso n
    | some q =>
      simp only
      rw [runSched_shared_unchanged sched _ _ (isolated_after_quantum h hq hiso) n]
      exact (hiso j q hq).step1_shared h n

/-- the solo trace of an isolated program is a read-only, confined step list, and executing it is running the program -/
theorem Prog.Isolated.trace_good {α : Type} {i : Nat} : ∀ {p : Prog α}, p.Isolated i → ∀ h : Heap, Good i (p.trace i h)
  | _, .ret a, h => ⟨fun l hl => by simp [Prog.trace, writeSet] at hl, fun s hs => by simp [Prog.trace] at hs⟩
  | _, .read l k hvis hk, h => by
    obtain ⟨hro, hconf⟩ := (hk (h l)).trace_good h
    refine ⟨fun l' hl' => hro l' (by simpa [Prog.trace, writeSet] using hl'), fun s hs => ?_⟩
    simp only [Prog.trace, List.mem_cons] at hs
    rcases hs with e | hs
    · subst e; exact ⟨rfl, hvis⟩
    · exact hconf s hs
  | _, .write n v k hk, h => by
    obtain ⟨hro, hconf⟩ := hk.trace_good (h.set (.priv i n) v)
    refine ⟨fun l' hl' => ?_, fun s hs => ?_⟩
    · simp only [Prog.trace, writeSet, List.mem_cons] at hl'
      rcases hl' with e | hl'
      · subst e; rfl
      · exact hro l' hl'
    · simp only [Prog.trace, List.mem_cons] at hs
      rcases hs with e | hs
      · subst e; exact ⟨rfl, by simp [Step.loc, Loc.visibleTo]⟩
      · exact hconf s hs

theorem Prog.exec_trace {α : Type} (i : Nat) : ∀ (p : Prog α) (h : Heap), (exec h (p.trace i h)).1 = (p.run h).2
  | .ret a, h => by simp [Prog.trace, Prog.run, exec]
  | .read l k, h => by simp [Prog.trace, Prog.run, exec, Prog.exec_trace i (k (h l)) h]
  | .write l v k, h => by simp [Prog.trace, Prog.run, exec, Prog.exec_trace i k (h.set l v)]

end CedarGo.Heap
