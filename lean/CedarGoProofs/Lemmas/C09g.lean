/-
  C09: policy sets.
-/
import CedarGoProofs.Lemmas.C09f
namespace CedarGo.JsonModel
open CedarGo CedarGo.Scalars

theorem setEntry_toJ (p : Policy) (hr : renderableP p = true) : setEntry (toJ p) = .ok (some (normP p)) := by
  have h := json_roundtrip p hr
  obtain ⟨kvs, hk⟩ : ∃ kvs, toJ p = .obj kvs := ⟨_, toJ_eq p⟩
  rw [hk] at h ⊢
  simp only [setEntry, h, Except.map]

theorem mapKVR_setEntry_fold : ∀ (ps : List (PolicyID × Policy)) (acc : List (String × J))
    (acc' : List (String × Option Policy)),
    ps.all (fun ip => renderableP ip.2) = true → mapKVR setEntry acc = .ok acc' →
    mapKVR setEntry ((ps.map fun ip => (ip.1, toJ ip.2)).foldl (fun a kv => insKV kv.1 kv.2 a) acc)
      = .ok ((ps.map fun ip => (ip.1, some (normP ip.2))).foldl (fun a kv => insKV kv.1 kv.2 a) acc')
  | [], acc, acc', _, h => by simpa using h
  | (i, p) :: ps, acc, acc', hr, h => by
    simp only [List.all_cons, Bool.and_eq_true] at hr
    simp only [List.map, List.foldl]
    exact mapKVR_setEntry_fold ps _ _ hr.2 (mapKVR_insKV setEntry i (toJ p) (some (normP p)) (setEntry_toJ p hr.1) acc acc' h)

theorem mapVals_some_eq {α : Type} (l : List (String × α)) :
    mapVals (fun p => some p) l = l.map (fun kv => (kv.1, some kv.2)) := by
  induction l with
  | nil => rfl
  | cons x xs ih => obtain ⟨k, v⟩ := x; simp [mapVals, ih]

theorem any_none_mapVals (l : List (PolicyID × Policy)) : (mapVals (fun p => some p) l).any (fun kv => kv.2.isNone) = false := by
  induction l with
  | nil => rfl
  | cons x xs ih => obtain ⟨k, v⟩ := x; simp [mapVals, ih]

theorem filterMap_mapVals (l : List (PolicyID × Policy)) : (mapVals (fun p => some p) l).filterMap entryPolicy = l := by
  induction l with
  | nil => rfl
  | cons x xs ih => obtain ⟨k, v⟩ := x; simp [mapVals, entryPolicy, ih]

theorem policyset_roundtrip (ps : List (PolicyID × Policy)) (hr : ps.all (fun ip => renderableP ip.2) = true) :
    setFromJ (setToJ ps) = .ok (sortKV (ps.map fun ip => (ip.1, normP ip.2))) := by
  have k : keyMatches "staticPolicies" "staticPolicies" = true := by decide +kernel
  have h := mapKVR_setEntry_fold ps [] [] hr rfl
  have e : (ps.map fun ip => (ip.1, some (normP ip.2))) = mapVals (fun p => some p) (ps.map fun ip => (ip.1, normP ip.2)) := by
    rw [mapVals_some_eq]; simp [List.map_map]
  rw [e] at h
  have h' : mapKVR setEntry (sortKV (ps.map fun ip => (ip.1, toJ ip.2)))
      = .ok (mapVals (fun p => some p) (sortKV (ps.map fun ip => (ip.1, normP ip.2)))) := by
    rw [mapVals_sortKV]; exact h
  simp only [setFromJ, setToJ, jObjOfPairs, findField, List.filter, k, h', any_none_mapVals, filterMap_mapVals]
  simp

/-! ### deciding concrete decoder outcomes; a skeleton document with one condition -/

def isRejectP (r : R Policy) : Bool := match r with | .error .reject => true | _ => false
def isPanicP (r : R Policy) : Bool := match r with | .error .panic => true | _ => false
theorem isRejectP_eq {r : R Policy} (h : isRejectP r = true) : r = .error .reject := by
  unfold isRejectP at h; split at h <;> first | rfl | cases h
theorem isPanicP_eq {r : R Policy} (h : isPanicP r = true) : r = .error .panic := by
  unfold isPanicP at h; split at h <;> first | rfl | cases h

def condDoc (body : J) : J :=
  .obj [("action", .obj [("op", .str "All")]), ("conditions", .arr [.obj [("body", body), ("kind", .str "when")]]),
        ("effect", .str "permit"), ("principal", .obj [("op", .str "All")]), ("resource", .obj [("op", .str "All")])]

def isCondP (r : R Policy) (f : Expr → Bool) : Bool :=
  match r with | .ok p => (match p.conditions with | [(true, e)] => f e | _ => false) | _ => false

end CedarGo.JsonModel
