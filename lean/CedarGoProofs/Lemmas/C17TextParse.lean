/-
  C17, text half — the PARSER half, part E: declaration loops, namespaces, the schema.
  Main result: `parseToks_toksSchema`.
-/
import CedarGoProofs.Lemmas.C17TextParseD
namespace CedarGo.Schema.TextParse
open CedarGo.Schema

/-! ### one iteration of a declaration loop -/

/-- the tokens of a declaration after its annotations start with one of the three keywords -/
def IsDeclBody (body : List Tok) : Prop :=
  ∃ kw tl, body = .ident kw :: tl ∧ (kw = "entity" ∨ kw = "action" ∨ kw = "type")

/-- what the two declaration loops (`nsLoopF`, and `parseSchemaF` on declarations of the empty namespace) have in common:
    annotations, then `parseDeclF` with one unit of fuel less, then the loop again -/
def StepOK {β : Type} (L : Nat → Namespace → List Tok → β) : Prop :=
  ∀ (n : Nat) (d d' : Namespace) (A : Anns) (body R : List Tok), IsDeclBody body → annsOk A = true →
    (sortedKV A).length ≤ n → parseDeclF n (sortedKV A) d (body ++ R) = some (.ok (d', R)) →
    L (n + 1) d (toksAnns A ++ (body ++ R)) = L n d' R

theorem peek_anns_body (A : Anns) (body R : List Tok) (hb : IsDeclBody body) (t : Tok) (h1 : t ≠ .at) (h2 : ∀ s, t ≠ .ident s) :
    peekT (toksAnns A ++ (body ++ R)) ≠ t := by
  obtain ⟨kw, tl, rfl, _⟩ := hb
  unfold toksAnns
  apply peek_flatMap_toksAnn _ _ t h1
  simpa using (h2 kw).symm

theorem stepOK_nsLoopF : StepOK nsLoopF := by
  intro n d d' A body R hb hA hn hd
  rw [nsLoopF]
  rw [if_neg (peek_anns_body A body R hb .rbrace (by simp) (by simp)),
    if_neg (peek_anns_body A body R hb .eof (by simp) (by simp))]
  obtain ⟨kw, tl, rfl, hkw⟩ := hb
  rw [parseAnnsF_toksAnns A (n + 1) _ (by omega) (annsOk_nodup A hA) (by simp) (by simp)]
  simp only [bindR_ok, hd]

theorem stepOK_top (s0 : Schema) : StepOK (fun n d ts => parseSchemaF n { s0 with bare := d } ts) := by
  intro n d d' A body R hb hA hn hd
  show parseSchemaF (n + 1) _ _ = _
  rw [parseSchemaF]
  rw [if_neg (peek_anns_body A body R hb .eof (by simp) (by simp))]
  obtain ⟨kw, tl, rfl, hkw⟩ := hb
  rw [parseAnnsF_toksAnns A (n + 1) _ (by omega) (annsOk_nodup A hA) (by simp) (by simp)]
  have hns : (Tok.ident kw = Tok.ident "namespace") = False := by
    rcases hkw with rfl | rfl | rfl <;> simp
  simp only [bindR_ok, List.cons_append, peekT_cons, hns, if_false]
  simp only [List.cons_append] at hd
  rw [hd]
  rfl

/-! ### a list of declarations of one kind -/

theorem toksAnns_length (A : Anns) : (sortedKV A).length ≤ (toksAnns A).length := by
  unfold toksAnns
  generalize sortedKV A = l
  induction l with
  | nil => simp
  | cons kv l ih =>
    simp only [List.flatMap_cons, List.length_append, List.length_cons]
    have : 1 ≤ (toksAnn kv).length := by unfold toksAnn; split <;> simp
    omega

theorem loop_kind {β α : Type} (L : Nat → Namespace → List Tok → β) (hL : StepOK L)
    (tk : String × α → List Tok) (an : String × α → Anns) (bd : String × α → List Tok)
    (ok : String × α → Prop) (fresh : Namespace → String → Prop) (add : Namespace → String × α → Namespace)
    (htk : ∀ x, tk x = toksAnns (an x) ++ bd x)
    (hbody : ∀ x, IsDeclBody (bd x))
    (hann : ∀ x, ok x → annsOk (an x) = true)
    (hdecl : ∀ x n d R, ok x → (bd x).length ≤ n → fresh d x.1 →
      parseDeclF n (sortedKV (an x)) d (bd x ++ R) = some (.ok (add d x, R)))
    (hfresh : ∀ d x y, fresh d y → x.1 ≠ y → fresh (add d x) y) :
    ∀ (xs : List (String × α)) (n : Nat) (d : Namespace) (R : List Tok), (∀ x ∈ xs, ok x) → (xs.map (·.1)).Nodup →
      (∀ x ∈ xs, fresh d x.1) → ((xs.map tk).flatten ++ R).length ≤ n → 1 ≤ R.length →
      ∃ n', R.length ≤ n' ∧ L n d ((xs.map tk).flatten ++ R) = L n' (xs.foldl add d) R
  | [], n, d, R, _, _, _, hn, _ => ⟨n, by simpa using hn, by simp⟩
  | x :: xs, n, d, R, hok, hnd, hfr, hn, hR => by
    simp only [List.map_cons, List.flatten_cons, List.append_assoc, List.length_append, htk x] at hn ⊢
    obtain ⟨kw, tl, hb, _⟩ := hbody x
    have hbl : 1 ≤ (bd x).length := by rw [hb]; simp
    obtain ⟨m, rfl⟩ : ∃ m, n = m + 1 := ⟨n - 1, by omega⟩
    have hal := toksAnns_length (an x)
    have hstep := hL m d (add d x) (an x) (bd x) ((xs.map tk).flatten ++ R) (hbody x) (hann x (hok x (by simp)))
      (by omega) (hdecl x m d _ (hok x (by simp)) (by omega) (hfr x (by simp)))
    simp only [List.map_cons, List.nodup_cons] at hnd
    obtain ⟨n', h1, h2⟩ := loop_kind L hL tk an bd ok fresh add htk hbody hann hdecl hfresh xs m (add d x) R
      (fun y hy => hok y (by simp [hy])) hnd.2
      (fun y hy => hfresh d x y.1 (hfr y (by simp [hy])) (fun e => hnd.1 (List.mem_map.mpr ⟨y, hy, e.symm⟩)))
      (by simp only [List.length_append]; omega) hR
    exact ⟨n', h1, by rw [hstep, h2]; rfl⟩

/-! ### the four kinds -/

def addCommon (sh : List String) (d : Namespace) (c : String × CommonType) : Namespace :=
  { d with commonTypes := d.commonTypes ++ [(c.1, normCommon sh c.2)] }
def addEntity (sh : List String) (d : Namespace) (e : String × Entity) : Namespace :=
  { d with entities := d.entities ++ [(e.1, normEntity sh e.2)] }
def addEnum (d : Namespace) (e : String × Enum) : Namespace :=
  { d with enums := d.enums ++ [(e.1, normEnum e.2)] }
def addAction (sh : List String) (d : Namespace) (a : String × Action) : Namespace :=
  { d with actions := d.actions ++ [(a.1, normAction sh a.2)] }

theorem foldl_addCommon (sh : List String) : ∀ (xs : List (String × CommonType)) (d : Namespace),
    xs.foldl (addCommon sh) d = { d with commonTypes := d.commonTypes ++ xs.map fun c => (c.1, normCommon sh c.2) }
  | [], d => by simp
  | x :: xs, d => by simp [foldl_addCommon sh xs, addCommon]
theorem foldl_addEntity (sh : List String) : ∀ (xs : List (String × Entity)) (d : Namespace),
    xs.foldl (addEntity sh) d = { d with entities := d.entities ++ xs.map fun c => (c.1, normEntity sh c.2) }
  | [], d => by simp
  | x :: xs, d => by simp [foldl_addEntity sh xs, addEntity]
theorem foldl_addEnum : ∀ (xs : List (String × Enum)) (d : Namespace),
    xs.foldl addEnum d = { d with enums := d.enums ++ xs.map fun c => (c.1, normEnum c.2) }
  | [], d => by simp
  | x :: xs, d => by simp [foldl_addEnum xs, addEnum]
theorem foldl_addAction (sh : List String) : ∀ (xs : List (String × Action)) (d : Namespace),
    xs.foldl (addAction sh) d = { d with actions := d.actions ++ xs.map fun c => (c.1, normAction sh c.2) }
  | [], d => by simp
  | x :: xs, d => by simp [foldl_addAction sh xs, addAction]

def freshCommon (d : Namespace) (n : String) : Prop := d.commonTypes.any (fun x => decide (x.1 = n)) = false
def freshEntity (d : Namespace) (n : String) : Prop :=
  d.entities.any (fun x => decide (x.1 = n)) = false ∧ d.enums.any (fun x => decide (x.1 = n)) = false
def freshAction (d : Namespace) (n : String) : Prop := d.actions.any (fun x => decide (x.1 = n)) = false

theorem any_append_single {α : Type} (l : List (String × α)) (x : String × α) (n : String) (h : l.any (fun y => decide (y.1 = n)) = false)
    (hx : x.1 ≠ n) : (l ++ [x]).any (fun y => decide (y.1 = n)) = false := by
  simp [List.any_append, h, hx]

variable {β : Type} (L : Nat → Namespace → List Tok → β) (hL : StepOK L) (sh : List String)
include hL

theorem loop_commons (xs : List (String × CommonType)) (n : Nat) (d : Namespace) (R : List Tok)
    (hok : ∀ x ∈ xs, commonOk sh x = true) (hnd : (xs.map (·.1)).Nodup) (hfr : ∀ x ∈ xs, freshCommon d x.1)
    (hn : ((xs.map (toksCommon sh)).flatten ++ R).length ≤ n) (hR : 1 ≤ R.length) :
    ∃ n', R.length ≤ n' ∧ L n d ((xs.map (toksCommon sh)).flatten ++ R) = L n' (xs.foldl (addCommon sh) d) R :=
  loop_kind L hL (toksCommon sh) (fun c => c.2.anns) (bodyCommon sh) (fun c => commonOk sh c = true) freshCommon (addCommon sh)
    (toksCommon_eq sh) (fun _ => ⟨"type", _, rfl, Or.inr (Or.inr rfl)⟩)
    (fun x hx => by unfold commonOk at hx; simp only [Bool.and_eq_true] at hx; exact hx.1.2)
    (fun x n d R hx hn hf => by
      rw [parseDeclF_common sh x hx n _ d R hn hf]
      rfl)
    (fun d x y hf hne => any_append_single _ _ _ hf hne) xs n d R hok hnd hfr hn hR

theorem loop_entities (xs : List (String × Entity)) (n : Nat) (d : Namespace) (R : List Tok)
    (hok : ∀ x ∈ xs, entityOk sh x = true) (hnd : (xs.map (·.1)).Nodup) (hfr : ∀ x ∈ xs, freshEntity d x.1)
    (hn : ((xs.map (toksEntity sh)).flatten ++ R).length ≤ n) (hR : 1 ≤ R.length) :
    ∃ n', R.length ≤ n' ∧ L n d ((xs.map (toksEntity sh)).flatten ++ R) = L n' (xs.foldl (addEntity sh) d) R :=
  loop_kind L hL (toksEntity sh) (fun c => c.2.anns) (bodyEntity sh) (fun c => entityOk sh c = true) freshEntity (addEntity sh)
    (toksEntity_eq sh) (fun _ => ⟨"entity", _, rfl, Or.inl rfl⟩)
    (fun x hx => by unfold entityOk at hx; simp only [Bool.and_eq_true] at hx; exact hx.1.1.1.2)
    (fun x n d R hx hn hf => by
      rw [parseDeclF_entity sh x hx n _ d R hn hf]
      rfl)
    (fun d x y hf hne => ⟨any_append_single _ _ _ hf.1 hne, hf.2⟩) xs n d R hok hnd hfr hn hR

theorem loop_enums (xs : List (String × Enum)) (n : Nat) (d : Namespace) (R : List Tok)
    (hok : ∀ x ∈ xs, enumOk x = true) (hnd : (xs.map (·.1)).Nodup) (hfr : ∀ x ∈ xs, freshEntity d x.1)
    (hn : ((xs.map toksEnum).flatten ++ R).length ≤ n) (hR : 1 ≤ R.length) :
    ∃ n', R.length ≤ n' ∧ L n d ((xs.map toksEnum).flatten ++ R) = L n' (xs.foldl addEnum d) R :=
  loop_kind L hL toksEnum (fun c => c.2.anns) bodyEnum (fun c => enumOk c = true) freshEntity addEnum
    toksEnum_eq (fun _ => ⟨"entity", _, rfl, Or.inl rfl⟩)
    (fun x hx => by unfold enumOk at hx; simp only [Bool.and_eq_true] at hx; exact hx.1.2)
    (fun x n d R hx _ hf => by
      rw [parseDeclF_enum x hx n _ d R hf]
      rfl)
    (fun d x y hf hne => ⟨hf.1, any_append_single _ _ _ hf.2 hne⟩) xs n d R hok hnd hfr hn hR

theorem loop_actions (xs : List (String × Action)) (n : Nat) (d : Namespace) (R : List Tok)
    (hok : ∀ x ∈ xs, actionOk sh x = true) (hnd : (xs.map (·.1)).Nodup) (hfr : ∀ x ∈ xs, freshAction d x.1)
    (hn : ((xs.map (toksAction sh)).flatten ++ R).length ≤ n) (hR : 1 ≤ R.length) :
    ∃ n', R.length ≤ n' ∧ L n d ((xs.map (toksAction sh)).flatten ++ R) = L n' (xs.foldl (addAction sh) d) R :=
  loop_kind L hL (toksAction sh) (fun c => c.2.anns) (bodyAction sh) (fun c => actionOk sh c = true) freshAction (addAction sh)
    (toksAction_eq sh) (fun _ => ⟨"action", _, rfl, Or.inr (Or.inl rfl)⟩)
    (fun x hx => by unfold actionOk at hx; simp only [Bool.and_eq_true] at hx; exact hx.1.1)
    (fun x n d R hx hn hf => by
      rw [parseDeclF_action sh x hx n _ d R hn hf]
      rfl)
    (fun d x y hf hne => any_append_single _ _ _ hf hne) xs n d R hok hnd hfr hn hR

/-! ### all declarations of a namespace -/

omit hL in
theorem any_map_false {α γ : Type} (l : List (String × α)) (f : String × α → String × γ) (hf : ∀ x, (f x).1 = x.1) (n : String)
    (h : n ∉ l.map (·.1)) : (l.map f).any (fun y => decide (y.1 = n)) = false := by
  rw [List.any_eq_false]
  intro y hy
  obtain ⟨x, hx, rfl⟩ := List.mem_map.mp hy
  simp only [decide_eq_true_eq, hf]
  intro e
  exact h (List.mem_map.mpr ⟨x, hx, e⟩)

theorem loop_decls (d : Namespace) (hok : declsOk sh d = true) (A : Anns) (n : Nat) (R : List Tok)
    (hn : ((toksDecls sh d).flatten ++ R).length ≤ n) (hR : 1 ≤ R.length) :
    ∃ n', R.length ≤ n' ∧ L n { anns := A } ((toksDecls sh d).flatten ++ R) = L n' (normDecls sh A d) R := by
  unfold declsOk at hok
  simp only [Bool.and_eq_true] at hok
  obtain ⟨⟨⟨⟨⟨⟨hE, hN⟩, hA⟩, hC⟩, hndEN⟩, hndA⟩, hndC⟩ := hok
  have hndEN' := (nodupKeys_iff _).mp hndEN
  obtain ⟨hndE, hndN, hdisj⟩ := List.nodup_append.mp hndEN'
  unfold toksDecls at hn ⊢
  simp only [List.flatten_append, List.append_assoc, List.length_append] at hn ⊢
  let Cs := (sortedKV d.commonTypes).map fun c => (c.1, normCommon sh c.2)
  let Es := (sortedKV d.entities).map fun c => (c.1, normEntity sh c.2)
  let Ns := (sortedKV d.enums).map fun c => (c.1, normEnum c.2)
  have hd1 : (sortedKV d.commonTypes).foldl (addCommon sh) { anns := A } = ⟨A, [], [], [], Cs⟩ := by
    rw [foldl_addCommon]; simp [Cs]
  have hd2 : (sortedKV d.entities).foldl (addEntity sh) ⟨A, [], [], [], Cs⟩ = ⟨A, Es, [], [], Cs⟩ := by
    rw [foldl_addEntity]; simp [Es]
  have hd3 : (sortedKV d.enums).foldl addEnum ⟨A, Es, [], [], Cs⟩ = ⟨A, Es, Ns, [], Cs⟩ := by
    rw [foldl_addEnum]; simp [Ns]
  have hd4 : (sortedKV d.actions).foldl (addAction sh) ⟨A, Es, Ns, [], Cs⟩ = normDecls sh A d := by
    rw [foldl_addAction]; simp [normDecls, Es, Ns, Cs]
  -- common types
  obtain ⟨n1, h1, e1⟩ := loop_commons L hL sh (sortedKV d.commonTypes) n { anns := A }
    (((sortedKV d.entities).map (toksEntity sh)).flatten ++ (((sortedKV d.enums).map toksEnum).flatten ++
      (((sortedKV d.actions).map (toksAction sh)).flatten ++ R)))
    (fun x hx => (List.all_eq_true.mp (all_sortedKV _ _ hC)) x hx) (sortedKV_keys_nodup _ hndC)
    (fun x _ => by simp [freshCommon]) (by simp only [List.length_append]; omega) (by simp only [List.length_append]; omega)
  rw [e1, hd1]
  -- entity types
  simp only [List.length_append] at h1
  obtain ⟨n2, h2, e2⟩ := loop_entities L hL sh (sortedKV d.entities) n1 ⟨A, [], [], [], Cs⟩
    (((sortedKV d.enums).map toksEnum).flatten ++ (((sortedKV d.actions).map (toksAction sh)).flatten ++ R))
    (fun x hx => (List.all_eq_true.mp (all_sortedKV _ _ hE)) x hx)
    ((((sortedKV_perm d.entities).map (·.1)).nodup_iff).mpr hndE)
    (fun x _ => by simp [freshEntity]) (by simp only [List.length_append]; omega) (by simp only [List.length_append]; omega)
  rw [e2, hd2]
  -- enums
  simp only [List.length_append] at h2
  obtain ⟨n3, h3, e3⟩ := loop_enums L hL (sortedKV d.enums) n2 ⟨A, Es, [], [], Cs⟩
    (((sortedKV d.actions).map (toksAction sh)).flatten ++ R)
    (fun x hx => (List.all_eq_true.mp (all_sortedKV _ _ hN)) x hx)
    ((((sortedKV_perm d.enums).map (·.1)).nodup_iff).mpr hndN)
    (fun x hx => by
      refine ⟨?_, by simp⟩
      show (((sortedKV d.entities).map fun c => (c.1, normEntity sh c.2)).any fun y => decide (y.1 = x.1)) = false
      apply any_map_false (sortedKV d.entities) (fun c => (c.1, normEntity sh c.2)) (fun _ => rfl)
      intro hmem
      have hx' : x.1 ∈ d.enums.map (·.1) := List.mem_map.mpr ⟨x, (mem_sortedKV _ _).mp hx, rfl⟩
      have hm' : x.1 ∈ d.entities.map (·.1) := by
        obtain ⟨y, hy, e⟩ := List.mem_map.mp hmem
        exact List.mem_map.mpr ⟨y, (mem_sortedKV _ _).mp hy, e⟩
      exact hdisj x.1 hm' x.1 hx' rfl)
    (by simp only [List.length_append]; omega) (by simp only [List.length_append]; omega)
  rw [e3, hd3]
  -- actions
  simp only [List.length_append] at h3
  obtain ⟨n4, h4, e4⟩ := loop_actions L hL sh (sortedKV d.actions) n3 ⟨A, Es, Ns, [], Cs⟩ R
    (fun x hx => (List.all_eq_true.mp (all_sortedKV _ _ hA)) x hx) (sortedKV_keys_nodup _ hndA)
    (fun x _ => by simp [freshAction]) (by simp only [List.length_append]; omega) hR
  rw [e4, hd4]
  exact ⟨n4, h4, rfl⟩

omit hL

/-! ### namespaces -/

theorem splitPathAux_ne_nil : ∀ (l cur : List Char), splitPathAux cur l ≠ []
  | [], cur => by simp [splitPathAux]
  | [c], cur => by simp [splitPathAux]
  | c :: d :: rest, cur => by
    rw [splitPathAux]
    split
    · simp
    · exact splitPathAux_ne_nil (d :: rest) (c :: cur)

theorem isNsPath_isTypePath (n : String) (h : isNsPath n = true) : isTypePath n = true := by
  unfold isNsPath at h
  unfold isTypePath
  simp only [Bool.and_eq_true, beq_iff_eq] at h
  cases hc : pathComps n with
  | nil =>
    unfold pathComps at hc
    exact absurd (List.map_eq_nil_iff.mp hc) (splitPathAux_ne_nil _ _)
  | cons f rest =>
    rw [hc] at h
    simp only [List.all_cons, Bool.and_eq_true] at h
    simp [h.1.1, h.1.2, h.2]

theorem pathHasCedar_ns (n : String) (h : isNsPath n = true) : pathHasCedar n = false := by
  unfold isNsPath pathComps at h
  simp only [Bool.and_eq_true, List.all_map, List.all_eq_true, Function.comp] at h
  unfold pathHasCedar
  rw [List.contains_eq_mem, decide_eq_false_iff_not]
  intro hm
  have := h.1 _ hm
  rw [String.ofList_toList] at this
  exact valid_ne_cedar _ this rfl

theorem nsLoopF_end (n : Nat) (d : Namespace) (R : List Tok) (hn : 1 ≤ n) : nsLoopF n d (.rbrace :: R) = some (.ok (d, R)) := by
  obtain ⟨m, rfl⟩ : ∃ m, n = m + 1 := ⟨n - 1, by omega⟩
  rw [nsLoopF]
  simp

/-- the body of a namespace -/
theorem nsLoopF_decls (sh : List String) (d : Namespace) (hok : declsOk sh d = true) (A : Anns) (n : Nat) (R : List Tok)
    (hn : ((toksDecls sh d).flatten ++ .rbrace :: R).length ≤ n) :
    nsLoopF n { anns := A } ((toksDecls sh d).flatten ++ .rbrace :: R) = some (.ok (normDecls sh A d, R)) := by
  obtain ⟨n', h1, h2⟩ := loop_decls nsLoopF stepOK_nsLoopF sh d hok A n (.rbrace :: R) hn (by simp)
  rw [h2, nsLoopF_end n' _ R (by simp at h1; omega)]

def nsOk (bn : List String) (nd : String × Namespace) : Bool :=
  isNsPath nd.1 && annsOk nd.2.anns && declsOk (declNames nd.2 ++ bn) nd.2

theorem parseSchemaF_namespace (bn : List String) (nd : String × Namespace) (hok : nsOk bn nd = true) (n : Nat) (s : Schema)
    (R : List Tok) (hn : (toksNamespace bn nd ++ R).length ≤ n + 1) (hfresh : s.namespaces.any (fun x => decide (x.1 = nd.1)) = false) :
    parseSchemaF (n + 1) s (toksNamespace bn nd ++ R) =
      parseSchemaF n { s with namespaces := s.namespaces ++
        [(nd.1, normDecls (declNames nd.2 ++ bn) (sortedKV nd.2.anns) nd.2)] } R := by
  unfold nsOk at hok
  simp only [Bool.and_eq_true] at hok
  obtain ⟨⟨hpath, hanns⟩, hdecls⟩ := hok
  have htp := isNsPath_isTypePath nd.1 hpath
  have hshape : toksNamespace bn nd ++ R = toksAnns nd.2.anns ++ (.ident "namespace" :: (toksPath nd.1 ++
      (.lbrace :: ((toksDecls (declNames nd.2 ++ bn) nd.2).flatten ++ .rbrace :: R)))) := by
    simp [toksNamespace, List.append_assoc]
  rw [hshape] at hn ⊢
  simp only [List.length_append, List.length_cons] at hn
  have hal := toksAnns_length nd.2.anns
  have hpl := toksPath_length_pos nd.1 htp
  rw [parseSchemaF]
  have hpk : peekT (toksAnns nd.2.anns ++ (.ident "namespace" :: (toksPath nd.1 ++
      (.lbrace :: ((toksDecls (declNames nd.2 ++ bn) nd.2).flatten ++ .rbrace :: R))))) ≠ .eof := by
    unfold toksAnns
    apply peek_flatMap_toksAnn _ _ _ (by simp)
    simp
  rw [if_neg hpk, parseAnnsF_toksAnns nd.2.anns (n + 1) _ (by omega) (annsOk_nodup _ hanns) (by simp) (by simp)]
  simp only [bindR_ok, peekT_cons, advT_cons, if_true]
  rw [parsePath_toksPath nd.1 htp _ (by simp)]
  simp only [bindE_ok, pathHasCedar_ns nd.1 hpath, Bool.false_eq_true, if_false, expectT, peekT_cons, advT_cons, if_true]
  rw [nsLoopF_decls (declNames nd.2 ++ bn) nd.2 hdecls (sortedKV nd.2.anns) n R
    (by simp only [List.length_append, List.length_cons]; omega)]
  simp only [bindR_ok, hfresh, Bool.false_eq_true, if_false]

theorem parseSchemaF_namespaces (bn : List String) : ∀ (nss : List (String × Namespace)) (n : Nat) (s : Schema) (R : List Tok),
    (∀ nd ∈ nss, nsOk bn nd = true) → (s.namespaces.map (·.1) ++ nss.map (·.1)).Nodup →
    (nss.flatMap (toksNamespace bn) ++ R).length ≤ n → 1 ≤ R.length →
    ∃ n', R.length ≤ n' ∧ parseSchemaF n s (nss.flatMap (toksNamespace bn) ++ R) =
      parseSchemaF n' { s with namespaces := s.namespaces ++ nss.map fun nd =>
        (nd.1, normDecls (declNames nd.2 ++ bn) (sortedKV nd.2.anns) nd.2) } R
  | [], n, s, R, _, _, hn, _ => ⟨n, by simpa using hn, by simp⟩
  | nd :: nss, n, s, R, hok, hnd, hn, hR => by
    simp only [List.flatMap_cons, List.append_assoc, List.length_append] at hn ⊢
    have hpos : 1 ≤ (toksNamespace bn nd).length := by simp [toksNamespace]; omega
    obtain ⟨m, rfl⟩ : ∃ m, n = m + 1 := ⟨n - 1, by omega⟩
    have hfresh : s.namespaces.any (fun x => decide (x.1 = nd.1)) = false := by
      rw [List.any_eq_false]
      intro x hx
      simp only [decide_eq_true_eq]
      intro e
      simp only [List.map_cons] at hnd
      exact (List.nodup_append.mp hnd).2.2 x.1 (List.mem_map.mpr ⟨x, hx, rfl⟩) nd.1 (by simp) e
    rw [parseSchemaF_namespace bn nd (hok nd (by simp)) m s _ (by simp only [List.length_append]; omega) hfresh]
    obtain ⟨n', h1, h2⟩ := parseSchemaF_namespaces bn nss m
      { s with namespaces := s.namespaces ++ [(nd.1, normDecls (declNames nd.2 ++ bn) (sortedKV nd.2.anns) nd.2)] } R
      (fun x hx => hok x (by simp [hx])) (by simpa using hnd) (by simp only [List.length_append]; omega) hR
    exact ⟨n', h1, by rw [h2]; simp⟩

/-! ### the schema -/

/-- **the parser half**: parsing the token rendering of a schema in the fragment gives its normal form -/
theorem parseToks_toksSchema (s : Schema) (h : SchemaTextOk s = true) :
    parseToks (toksSchema s ++ [.eof]) = some (.ok (normSchema s, [.eof])) := by
  unfold SchemaTextOk at h
  simp only [Bool.and_eq_true] at h
  obtain ⟨⟨hbare, hnss⟩, hnd⟩ := h
  unfold parseToks toksSchema
  generalize hN : ((toksDecls (declNames s.bare) s.bare).flatten ++
    (sortedKV s.namespaces).flatMap (toksNamespace (declNames s.bare)) ++ [Tok.eof]).length + 1 = N
  rw [List.append_assoc]
  rw [List.append_assoc, List.length_append] at hN
  -- declarations of the empty namespace
  obtain ⟨n1, h1, e1⟩ := loop_decls (fun n d ts => parseSchemaF n { ({} : Schema) with bare := d } ts) (stepOK_top {})
    (declNames s.bare) s.bare hbare [] N
    ((sortedKV s.namespaces).flatMap (toksNamespace (declNames s.bare)) ++ [Tok.eof])
    (by simp only [List.length_append, List.length_cons, List.length_nil] at hN ⊢; omega) (by simp)
  have e1' : parseSchemaF N {} ((toksDecls (declNames s.bare) s.bare).flatten ++
      ((sortedKV s.namespaces).flatMap (toksNamespace (declNames s.bare)) ++ [Tok.eof])) =
      parseSchemaF n1 { bare := normDecls (declNames s.bare) [] s.bare }
        ((sortedKV s.namespaces).flatMap (toksNamespace (declNames s.bare)) ++ [Tok.eof]) := e1
  rw [e1']
  -- named namespaces
  obtain ⟨n2, h2, e2⟩ := parseSchemaF_namespaces (declNames s.bare) (sortedKV s.namespaces) n1
    { bare := normDecls (declNames s.bare) [] s.bare } [Tok.eof]
    (fun nd hnd' => by
      have := (List.all_eq_true.mp hnss) nd ((mem_sortedKV _ _).mp hnd')
      simpa [nsOk] using this)
    (by simpa using sortedKV_keys_nodup _ hnd) h1 (by simp)
  rw [e2]
  obtain ⟨m, rfl⟩ : ∃ m, n2 = m + 1 := ⟨n2 - 1, by simp at h2; omega⟩
  rw [parseSchemaF]
  simp [normSchema]

end CedarGo.Schema.TextParse
