/-
  C15 (entity extension, step a) — `has` and `.` on ENTITY-typed operands.

  * `lookupEntityAttrGo_sound`: the attribute type `lookupEntityAttr` computes for an entity LUB is an upper bound of the
    declared attribute type of EVERY element of the LUB, and it is required only if it is required everywhere.
  * `sound_has_entity` / `sound_access_entity`: soundness of `typeOfHas` / `typeOfAccess` on entity types in a store whose
    PRESENT entities conform to their declarations (`EnvOK.store`); an ABSENT entity makes `has` false and `.` fail with the
    allowed `entity` error.  In particular: no `attr` error on a present entity.
  * `sound_has` / `sound_access`: record and entity cases together (what Properties/C15.lean uses).
-/
import CedarGoProofs.Lemmas.C15
namespace CedarGo.Validate
open CedarGo

section entattr
variable {Γ : TEnv} {env : Env}

/-- an evaluated operand of entity type is an entity value of one of the LUB's types, not the unspecified entity -/
theorem hasTy_entity_inv {v : Value} {tys : List String} (h : HasTy v (.entity tys)) :
    ∃ ty id, v = .entity ty id ∧ ty ∈ tys ∧ ty ≠ "" := by
  cases h with
  | entity hm hne => exact ⟨_, _, rfl, hm, hne⟩

theorem eval_has_entity {e : Expr} {a ty id : String} (h : eval e env = .ok (.entity ty id)) :
    eval (.has e a) env = .ok (.bool (match env.entities.get (ty, id) with
      | none => false | some d => (kvGet a d.attrs).isSome)) := by
  simp only [eval, h, bind, Except.bind]
  cases env.entities.get (ty, id) <;> rfl

theorem uid_ne_unspecified {ty id : String} (h : ty ≠ "") : ((ty, id) == (("", "") : UID)) = false := by
  simp [h]

theorem eval_access_entity {e : Expr} {a ty id : String} (h : eval e env = .ok (.entity ty id)) (hne : ty ≠ "") :
    eval (.access e a) env = (match env.entities.get (ty, id) with
      | none => .error .entity
      | some d => match kvGet a d.attrs with | some x => .ok x | none => .error .attr) := by
  simp only [eval, h, bind, Except.bind, uid_ne_unspecified hne, Bool.false_eq_true, if_false]
  cases env.entities.get (ty, id) with
  | none => rfl
  | some d => simp only []; cases kvGet a d.attrs <;> rfl

/-- the capability bookkeeping of `typeOfHas`, given what `e has a` evaluates to -/
theorem sound_has_of {e : Expr} {a : String} {caps : Caps} (hc : CapsHold env caps)
    (hev : (∃ k, eval (.has e a) env = .error k ∧ Allowed k) ∨ (∃ b, eval (.has e a) env = .ok (.bool b))) :
    ((∀ b, eval (.has e a) env = .ok (.bool b) → b = false) →
      Sound env .ff (if (exprCapPath e).isEmpty then caps else caps.add (exprCapPath e) a) (eval (.has e a) env)) ∧
    Sound env (if !(exprCapPath e).isEmpty && caps.has (exprCapPath e) a then .tt else .bool)
      (if (exprCapPath e).isEmpty then caps else caps.add (exprCapPath e) a) (eval (.has e a) env) := by
  have hcapsNew : (∀ b, eval (.has e a) env = .ok (.bool b) → b = true) →
      CapsHold env (if (exprCapPath e).isEmpty then caps else caps.add (exprCapPath e) a) := by
    intro hb
    split
    · exact hc
    · refine capsHold_add hc ?_
      intro e' hname hne b' hb'
      have : e' = e := exprCapPath_inj e' e hname (by rw [hname]; exact hne)
      subst this; exact hb b' hb'
  constructor
  · intro hfalse
    refine ⟨by simp, ?_⟩
    rcases hev with ⟨k, hk, hak⟩ | ⟨b, hb⟩
    · rw [hk]; exact hak
    · have := hfalse b hb; subst this
      rw [hb]; exact ⟨HasTy.ff, by simp⟩
  · by_cases hcap : (!(exprCapPath e).isEmpty && caps.has (exprCapPath e) a) = true
    · simp only [hcap, if_true]
      simp only [Bool.and_eq_true, Bool.not_eq_true', List.isEmpty_eq_false_iff] at hcap
      have htrue := capsHold_has hc hcap.2 hcap.1
      refine ⟨fun _ => hcapsNew htrue, ?_⟩
      rcases hev with ⟨k, hk, hak⟩ | ⟨b, hb⟩
      · rw [hk]; exact hak
      · have := htrue b hb; subst this
        rw [hb]; exact ⟨HasTy.tt, fun _ => hcapsNew htrue⟩
    · simp only [hcap, Bool.false_eq_true, if_false]
      refine ⟨by simp, ?_⟩
      rcases hev with ⟨k, hk, hak⟩ | ⟨b, hb⟩
      · rw [hk]; exact hak
      · rw [hb]
        refine ⟨HasTy.bool _, fun htrue => hcapsNew ?_⟩
        intro b' hb'
        rw [hb] at hb'
        simp only [Except.ok.injEq, Value.bool.injEq] at hb' htrue
        rw [← hb']; exact htrue

/-- `has` on an operand of ENTITY type -/
theorem sound_has_entity (hΓ : EnvOK Γ env) {e : Expr} {a : String} {caps caps' c : Caps} {τ : Ty} {tys : List String}
    (ih : IH Γ env e) (hc : CapsHold env caps) (he : typeOf true Γ e caps = .ok (.entity tys, c))
    (h : typeOf true Γ (.has e a) caps = .ok (τ, caps')) : Sound env τ caps' (eval (.has e a) env) := by
  simp only [typeOf, he] at h
  have hs := (ih _ _ _ hc he).2
  -- the operand fails with an allowed error, or is an entity of one of the LUB's types
  have hop : (∃ k, eval e env = .error k ∧ Allowed k) ∨ (∃ ty id, eval e env = .ok (.entity ty id) ∧ ty ∈ tys ∧ ty ≠ "") := by
    cases hr : eval e env with
    | error k => rw [hr] at hs; exact .inl ⟨k, rfl, hs⟩
    | ok v =>
      rw [hr] at hs
      obtain ⟨ty, id, rfl, hm, hne⟩ := hasTy_entity_inv hs.1
      exact .inr ⟨ty, id, rfl, hm, hne⟩
  have hev : (∃ k, eval (.has e a) env = .error k ∧ Allowed k) ∨ (∃ b, eval (.has e a) env = .ok (.bool b)) := by
    rcases hop with ⟨k, hk, hak⟩ | ⟨ty, id, hk, _, _⟩
    · exact .inl ⟨k, by simp only [eval, hk, bind, Except.bind], hak⟩
    · exact .inr ⟨_, eval_has_entity hk⟩
  obtain ⟨hff, hbool⟩ := sound_has_of (a := a) hc hev
  split at h
  · simp only [Except.ok.injEq, Prod.mk.injEq] at h
    obtain ⟨rfl, rfl⟩ := h
    exact hbool
  · rename_i hany
    simp only [Except.ok.injEq, Prod.mk.injEq] at h
    obtain ⟨rfl, rfl⟩ := h
    refine hff ?_
    intro b hb
    rcases hop with ⟨k, hk, _⟩ | ⟨ty, id, hk, hm, _⟩
    · simp [eval, hk, bind, Except.bind] at hb
    · rw [eval_has_entity hk] at hb
      simp only [Except.ok.injEq, Value.bool.injEq] at hb
      rw [← hb]
      cases hg : env.entities.get (ty, id) with
      | none => rfl
      | some d =>
        simp only []
        -- a present entity has only declared attributes, and no element of the LUB declares `a`
        cases hx : kvGet a d.attrs with
        | none => rfl
        | some x =>
          exfalso
          have hok := (hΓ.store _ _ hg).attrs
          cases hok with
          | record h1 h2 h3 =>
            have := h2 a x hx
            apply hany
            simp only [anyHasAttr, List.any_eq_true]
            exact ⟨ty, hm, this⟩

/-- what `lookupEntityAttr` returns bounds the accumulated type and the declared type of every element -/
theorem lookupEntityAttrGo_sound {s : Bool} {a : String} : ∀ {tys : List String} {res : Option (Ty × Bool)} {ty : Ty} {req : Bool},
    lookupEntityAttrGo true s Γ a res tys = some (ty, req) →
    (∀ rty rreq, res = some (rty, rreq) → (∀ v, HasTy v rty → HasTy v ty) ∧ (req = true → rreq = true)) ∧
    (∀ t ∈ tys, ∃ ty' req', lookupAttr a (declOf Γ t).attrs = some (ty', req') ∧ (∀ v, HasTy v ty' → HasTy v ty) ∧
      (req = true → req' = true))
  | [], res, ty, req, h => by
    simp only [lookupEntityAttrGo] at h
    subst h
    refine ⟨?_, by simp⟩
    intro rty rreq hr
    simp only [Option.some.injEq, Prod.mk.injEq] at hr
    obtain ⟨rfl, rfl⟩ := hr
    exact ⟨fun _ hv => hv, fun h => h⟩
  | t :: ts, res, ty, req, h => by
    simp only [lookupEntityAttrGo] at h
    cases hl : lookupAttr a (declOf Γ t).attrs with
    | none => simp [hl] at h
    | some q =>
      obtain ⟨ty0, req0⟩ := q
      simp only [hl] at h
      cases res with
      | none =>
        simp only [] at h
        obtain ⟨h1, h2⟩ := lookupEntityAttrGo_sound h
        obtain ⟨hty, hreq⟩ := h1 ty0 req0 rfl
        refine ⟨by simp, ?_⟩
        intro t' ht'
        rcases List.mem_cons.mp ht' with rfl | ht'
        · exact ⟨ty0, req0, hl, hty, hreq⟩
        · exact h2 t' ht'
      | some p =>
        obtain ⟨rty, rreq⟩ := p
        simp only [] at h
        cases hu : lub true s rty ty0 with
        | none => simp [hu] at h
        | some u =>
          simp only [hu] at h
          obtain ⟨h1, h2⟩ := lookupEntityAttrGo_sound h
          obtain ⟨hty, hreq⟩ := h1 u (rreq && req0) rfl
          refine ⟨?_, ?_⟩
          · intro rty' rreq' hr
            simp only [Option.some.injEq, Prod.mk.injEq] at hr
            obtain ⟨rfl, rfl⟩ := hr
            exact ⟨fun v hv => hty v (lub_sound_left s _ _ _ v hu hv), fun hq => by have := hreq hq; simp at this; exact this.1⟩
          · intro t' ht'
            rcases List.mem_cons.mp ht' with rfl | ht'
            · exact ⟨ty0, req0, hl, fun v hv => hty v (lub_sound_right s _ _ _ v hu hv),
                fun hq => by have := hreq hq; simp at this; exact this.2⟩
            · exact h2 t' ht'

/-- `.` on an operand of ENTITY type: a value of the attribute's type, or the `entity` error when the entity is absent;
    never `attr` -/
theorem sound_access_entity (hΓ : EnvOK Γ env) {e : Expr} {a : String} {caps caps' c : Caps} {τ : Ty} {tys : List String}
    (ih : IH Γ env e) (hc : CapsHold env caps) (he : typeOf true Γ e caps = .ok (.entity tys, c))
    (h : typeOf true Γ (.access e a) caps = .ok (τ, caps')) : Sound env τ caps' (eval (.access e a) env) := by
  simp only [typeOf, he] at h
  have hs := (ih _ _ _ hc he).2
  split at h
  · simp at h
  · rename_i aty req hl
    split at h
    · simp at h
    · rename_i hguard
      simp only [Except.ok.injEq, Prod.mk.injEq] at h
      obtain ⟨rfl, rfl⟩ := h
      refine sound_same hc ?_
      cases hr : eval e env with
      | error k => rw [hr] at hs; simp only [eval, hr, bind, Except.bind]; exact hs
      | ok v =>
        rw [hr] at hs
        obtain ⟨ty, id, rfl, hm, hne⟩ := hasTy_entity_inv hs.1
        rw [eval_access_entity hr hne]
        cases hg : env.entities.get (ty, id) with
        | none => simp [SoundRes, Allowed]
        | some d =>
          simp only []
          obtain ⟨ty', req', hl', hty, hreq⟩ := (lookupEntityAttrGo_sound hl).2 ty hm
          have hok := (hΓ.store _ _ hg).attrs
          cases hok with
          | record h1 h2 h3 =>
            have hpresent : (kvGet a d.attrs).isSome = true := by
              cases req with
              | true => exact h3 a ty' (by rw [hl', hreq rfl])
              | false =>
                simp only [Bool.not_false, Bool.true_and, Bool.or_eq_true, Bool.not_eq_true', not_or,
                  Bool.not_eq_false] at hguard
                have hne' : exprCapPath e ≠ [] := by
                  intro h0; simp [h0] at hguard
                have := capsHold_has hc hguard.2 hne' _ (eval_has_entity (a := a) hr)
                simpa [hg] using this
            rw [Option.isSome_iff_exists] at hpresent
            obtain ⟨x, hx⟩ := hpresent
            simp only [hx]
            exact ⟨hty x (h1 a x ty' req' hx hl'), fun _ => hc⟩

/-- `typeOfHas`: record and entity operands -/
theorem sound_has (hΓ : EnvOK Γ env) {e : Expr} {a : String} {caps caps' : Caps} {τ : Ty} (ih : IH Γ env e)
    (hc : CapsHold env caps) (h : typeOf true Γ (.has e a) caps = .ok (τ, caps')) : Sound env τ caps' (eval (.has e a) env) := by
  cases he : typeOf true Γ e caps with
  | error x => simp [typeOf, he] at h
  | ok p =>
    obtain ⟨t, c⟩ := p
    cases t with
    | record attrs => exact sound_has_record ih hc he h
    | entity tys => exact sound_has_entity hΓ ih hc he h
    | _ => simp [typeOf, he] at h

/-- `typeOfAccess`: record and entity operands -/
theorem sound_access (hΓ : EnvOK Γ env) {e : Expr} {a : String} {caps caps' : Caps} {τ : Ty} (ih : IH Γ env e)
    (hc : CapsHold env caps) (h : typeOf true Γ (.access e a) caps = .ok (τ, caps')) :
    Sound env τ caps' (eval (.access e a) env) := by
  cases he : typeOf true Γ e caps with
  | error x => simp [typeOf, he] at h
  | ok p =>
    obtain ⟨t, c⟩ := p
    cases t with
    | record attrs => exact sound_access_record ih hc he h
    | entity tys => exact sound_access_entity hΓ ih hc he h
    | _ => simp [typeOf, he] at h

end entattr

end CedarGo.Validate
