/-
  C18: the fuel of the model's loops is never exhausted.  Generic statement over a source with a measure
  that `next` decreases (strictly unless the current character is EOF) and the other primitives keep;
  instantiated for the pure lexer with  μ(ch, s) = |remaining bytes| + (1 if ch ≠ EOF).
-/
import CedarGoProofs.Lemmas.C18Exact
namespace CedarGo.Text.Lx

structure Meas {σ : Type} (S : Src σ) (μ : Rune → σ → Nat) : Prop where
  next_le : ∀ c s, μ (S.next s).1 (S.next s).2 ≤ μ c s
  next_lt : ∀ c s, c ≠ runeEOF → μ (S.next s).1 (S.next s).2 < μ c s
  error : ∀ e c s, μ c (S.error e s) = μ c s
  tokKill : ∀ c s, μ c (S.tokKill s) = μ c s
  tokMark : ∀ c s, μ c (S.tokMark s) = μ c s
  tokEnd : ∀ c s, μ c (S.tokEnd s).2 = μ c s
  err_next : ∀ s, S.err (S.next s).2 = some .fuel → S.err s = some .fuel
  err_error : ∀ e s, S.err (S.error e s) = some e
  err_tokKill : ∀ s, S.err (S.tokKill s) = S.err s
  err_tokMark : ∀ s, S.err (S.tokMark s) = S.err s
  err_tokEnd : ∀ s, S.err (S.tokEnd s).2 = S.err s

/-- no NEW out-of-fuel error between two states -/
def NF {σ : Type} (S : Src σ) (s s' : σ) : Prop := S.err s' = some .fuel → S.err s = some .fuel

/-- the result of a scan function: measure not increased, no new out-of-fuel error -/
def Post {σ : Type} (S : Src σ) (μ : Rune → σ → Nat) (c : Rune) (s : σ) (r : Rune × σ) : Prop :=
  μ r.1 r.2 ≤ μ c s ∧ NF S s r.2

/-- same with a strict decrease -/
def PostLt {σ : Type} (S : Src σ) (μ : Rune → σ → Nat) (c : Rune) (s : σ) (r : Rune × σ) : Prop :=
  μ r.1 r.2 < μ c s ∧ NF S s r.2

section
variable {σ : Type} {S : Src σ} {μ : Rune → σ → Nat} (M : Meas S μ)
include M

omit M in
theorem NF.refl (s : σ) : NF S s s := fun h => h
omit M in
theorem NF.trans {a b c : σ} (h1 : NF S a b) (h2 : NF S b c) : NF S a c := fun h => h1 (h2 h)

theorem post_next (c : Rune) (s : σ) : Post S μ c s (S.next s) := ⟨M.next_le c s, M.err_next s⟩
theorem postLt_next (c : Rune) (s : σ) (hc : c ≠ runeEOF) : PostLt S μ c s (S.next s) := ⟨M.next_lt c s hc, M.err_next s⟩

theorem nf_error (e : LexErr) (he : e ≠ .fuel) (s : σ) : NF S s (S.error e s) := by
  intro h; rw [M.err_error] at h; exact absurd (Option.some.inj h) he

omit M in
theorem Post.trans {c c' : Rune} {s s' : σ} {r : Rune × σ} (h1 : Post S μ c s (c', s')) (h2 : Post S μ c' s' r) :
    Post S μ c s r := ⟨Nat.le_trans h2.1 h1.1, h1.2.trans h2.2⟩

theorem identLoop_post : ∀ (f : Nat) (c : Rune) (s : σ), μ c s < f → Post S μ c s (identLoop S f c s) := by
  intro f
  induction f with
  | zero => intro c s h; omega
  | succ f ih =>
    intro c s h
    simp only [identLoop]
    split
    · rename_i hc
      have hne : c ≠ runeEOF := by intro he; rw [he] at hc; simp [isIdentRune, isASCIILetter, isDecimal, runeEOF] at hc
      have hn := postLt_next M c s hne
      exact Post.trans ⟨Nat.le_of_lt hn.1, hn.2⟩ (ih _ _ (Nat.lt_of_lt_of_le hn.1 (Nat.le_of_lt_succ h)))
    · exact ⟨Nat.le_refl _, NF.refl s⟩

theorem scanInteger_post : ∀ (f : Nat) (c : Rune) (s : σ), μ c s < f → Post S μ c s (scanInteger S f c s) := by
  intro f
  induction f with
  | zero => intro c s h; omega
  | succ f ih =>
    intro c s h
    simp only [scanInteger]
    split
    · rename_i hc
      have hne : c ≠ runeEOF := by intro he; rw [he] at hc; simp [isDecimal, runeEOF] at hc
      have hn := postLt_next M c s hne
      exact Post.trans ⟨Nat.le_of_lt hn.1, hn.2⟩ (ih _ _ (Nat.lt_of_lt_of_le hn.1 (Nat.le_of_lt_succ h)))
    · exact ⟨Nat.le_refl _, NF.refl s⟩

theorem skipWhitespace_post : ∀ (f : Nat) (c : Rune) (s : σ), μ c s < f → Post S μ c s (skipWhitespace S f c s) := by
  intro f
  induction f with
  | zero => intro c s h; omega
  | succ f ih =>
    intro c s h
    simp only [skipWhitespace]
    split
    · rename_i hc
      have hne : c ≠ runeEOF := by intro he; rw [he] at hc; simp [isWhitespace, runeEOF] at hc
      have hn := postLt_next M c s hne
      exact Post.trans ⟨Nat.le_of_lt hn.1, hn.2⟩ (ih _ _ (Nat.lt_of_lt_of_le hn.1 (Nat.le_of_lt_succ h)))
    · exact ⟨Nat.le_refl _, NF.refl s⟩

theorem lineCommentLoop_post : ∀ (f : Nat) (c : Rune) (s : σ), μ c s < f → Post S μ c s (lineCommentLoop S f c s) := by
  intro f
  induction f with
  | zero => intro c s h; omega
  | succ f ih =>
    intro c s h
    simp only [lineCommentLoop]
    split
    · rename_i hc
      have hne : c ≠ runeEOF := by intro he; rw [he] at hc; simp [runeEOF] at hc
      have hn := postLt_next M c s hne
      exact Post.trans ⟨Nat.le_of_lt hn.1, hn.2⟩ (ih _ _ (Nat.lt_of_lt_of_le hn.1 (Nat.le_of_lt_succ h)))
    · exact ⟨Nat.le_refl _, NF.refl s⟩

omit M in
theorem PostLt.trans {c c' : Rune} {s s' : σ} {r : Rune × σ} (h1 : PostLt S μ c s (c', s')) (h2 : Post S μ c' s' r) :
    PostLt S μ c s r := ⟨Nat.lt_of_le_of_lt h2.1 h1.1, h1.2.trans h2.2⟩

omit M in
theorem PostLt.le {c : Rune} {s : σ} {r : Rune × σ} (h : PostLt S μ c s r) : Post S μ c s r := ⟨Nat.le_of_lt h.1, h.2⟩

theorem scanInteger_postLt (f : Nat) (c : Rune) (s : σ) (hd : isDecimal c = true) (h : μ c s < f) :
    PostLt S μ c s (scanInteger S f c s) := by
  cases f with
  | zero => omega
  | succ f =>
    simp only [scanInteger, hd, if_true]
    have hne : c ≠ runeEOF := by intro he; rw [he] at hd; simp [isDecimal, runeEOF] at hd
    have hn := postLt_next M c s hne
    exact hn.trans (scanInteger_post M f _ _ (Nat.lt_of_lt_of_le hn.1 (Nat.le_of_lt_succ h)))

theorem scanIdentifier_postLt (F : Nat) (c : Rune) (s : σ) (hne : c ≠ runeEOF) (h : μ c s < F) :
    PostLt S μ c s (scanIdentifier S F s) := by
  have hn := postLt_next M c s hne
  simp only [scanIdentifier]
  exact hn.trans (identLoop_post M F _ _ (Nat.lt_trans hn.1 h))

theorem hexLoop_post : ∀ (rem n : Nat) (c : Rune) (s : σ), Post S μ c s (hexLoop S rem n c s).2 := by
  intro rem
  induction rem with
  | zero => intro n c s; exact ⟨Nat.le_refl _, NF.refl s⟩
  | succ rem ih =>
    intro n c s
    simp only [hexLoop]
    split
    · exact Post.trans (post_next M c s) (ih _ _ _)
    · exact ⟨Nat.le_refl _, NF.refl s⟩

theorem scanHexDigits_post (c : Rune) (mn mx : Nat) (s : σ) : Post S μ c s (scanHexDigits S c mn mx s) := by
  have hl := hexLoop_post M mx 0 c s
  simp only [scanHexDigits]
  split
  · exact ⟨by rw [M.error]; exact hl.1, hl.2.trans (nf_error M _ (by simp) _)⟩
  · exact hl

theorem scanEscape_postLt (c : Rune) (s : σ) (hne : c ≠ runeEOF) : PostLt S μ c s (scanEscape S s) := by
  have h1 := postLt_next M c s hne
  simp only [scanEscape]
  split
  · exact h1.trans (post_next M _ _)
  · split
    · exact h1.trans (Post.trans (post_next M _ _) (scanHexDigits_post M _ 2 2 _))
    · split
      · split
        · have h2 := post_next M (S.next s).1 (S.next s).2
          exact h1.trans ⟨by rw [M.error]; exact h2.1, h2.2.trans (nf_error M _ (by simp) _)⟩
        · have h2 := post_next M (S.next s).1 (S.next s).2
          have h3 := post_next M (S.next (S.next s).2).1 (S.next (S.next s).2).2
          have h4 := scanHexDigits_post M (S.next (S.next (S.next s).2).2).1 1 6 (S.next (S.next (S.next s).2).2).2
          have h123 := h1.trans (Post.trans h2 (Post.trans h3 h4))
          split
          · exact ⟨by rw [M.error]; exact h123.1, h123.2.trans (nf_error M _ (by simp) _)⟩
          · exact h123.trans (post_next M _ _)
      · exact ⟨by rw [M.error]; exact h1.1, h1.2.trans (nf_error M _ (by simp) _)⟩

theorem stringLoop_post : ∀ (f : Nat) (c : Rune) (s : σ), μ c s < f →
    ∃ c', μ c' (stringLoop S f c s) ≤ μ c s ∧ NF S s (stringLoop S f c s) := by
  intro f
  induction f with
  | zero => intro c s h; omega
  | succ f ih =>
    intro c s h
    simp only [stringLoop]
    split
    · exact ⟨c, Nat.le_refl _, NF.refl s⟩
    · split
      · exact ⟨c, by rw [M.error]; exact Nat.le_refl _, nf_error M _ (by simp) _⟩
      · rename_i h34 hbad
        have hne : c ≠ runeEOF := by
          intro he; apply hbad; rw [he]; simp [runeEOF]
        split
        · have he := scanEscape_postLt M c s hne
          obtain ⟨c', h1, h2⟩ := ih _ _ (Nat.lt_of_lt_of_le he.1 (Nat.le_of_lt_succ h))
          exact ⟨c', Nat.le_trans h1 (Nat.le_of_lt he.1), he.2.trans h2⟩
        · have hn := postLt_next M c s hne
          obtain ⟨c', h1, h2⟩ := ih _ _ (Nat.lt_of_lt_of_le hn.1 (Nat.le_of_lt_succ h))
          exact ⟨c', Nat.le_trans h1 (Nat.le_of_lt hn.1), hn.2.trans h2⟩

theorem scanString_postLt (F : Nat) (c : Rune) (s : σ) (hne : c ≠ runeEOF) (h : μ c s < F) :
    ∃ c', μ c' (scanString S F s) < μ c s ∧ NF S s (scanString S F s) := by
  have hn := postLt_next M c s hne
  simp only [scanString]
  obtain ⟨c', h1, h2⟩ := stringLoop_post M F _ _ (Nat.lt_trans hn.1 h)
  exact ⟨c', Nat.lt_of_le_of_lt h1 hn.1, hn.2.trans h2⟩

theorem blockCommentLoop_post : ∀ (f : Nat) (c : Rune) (s : σ), μ c s < f → Post S μ c s (blockCommentLoop S f c s) := by
  intro f
  induction f with
  | zero => intro c s h; omega
  | succ f ih =>
    intro c s h
    simp only [blockCommentLoop]
    split
    · exact ⟨by rw [M.error]; exact Nat.le_refl _, nf_error M _ (by simp) _⟩
    · rename_i hc
      have hne : c ≠ runeEOF := by intro he; apply hc; rw [he]; simp [runeEOF]
      have hn := postLt_next M c s hne
      split
      · exact hn.le.trans (post_next M _ _)
      · exact hn.le.trans (ih _ _ (Nat.lt_of_lt_of_le hn.1 (Nat.le_of_lt_succ h)))

theorem scanComment_post (F : Nat) (ch c : Rune) (s : σ) (hne : c ≠ runeEOF) (h : μ c s < F) :
    Post S μ c s (scanComment S F ch s) := by
  have hn := postLt_next M c s hne
  simp only [scanComment]
  split
  · exact hn.le.trans (lineCommentLoop_post M F _ _ (Nat.lt_trans hn.1 h))
  · exact hn.le.trans (blockCommentLoop_post M F _ _ (Nat.lt_trans hn.1 h))

theorem scanOperator_post (ch0 c : Rune) (s : σ) : Post S μ c s (scanOperator S ch0 c s).2 := by
  simp only [scanOperator]
  repeat' split
  all_goals first | exact ⟨Nat.le_refl _, NF.refl s⟩ | exact post_next M c s

/-- result of `nextToken`/`tokenFrom`: measure not increased, strictly decreased unless the EOF token was
    produced, no new out-of-fuel error -/
def TokPost (S : Src σ) (μ : Rune → σ → Nat) (c : Rune) (s : σ) (r : TokRes σ) : Prop :=
  μ r.ch r.st ≤ μ c s ∧ NF S s r.st ∧ (r.tok.ty ≠ .eof → μ r.ch r.st < μ c s)

theorem finishToken_post (tt : TokType) (c0 c : Rune) (s0 s : σ) (h : Post S μ c0 s0 (c, s))
    (hlt : tt ≠ .eof → μ c s < μ c0 s0) (htt : tt = .eof → True) :
    TokPost S μ c0 s0 (finishToken S tt c s) := by
  simp only [finishToken, TokPost]
  refine ⟨by rw [M.tokEnd]; exact h.1, ?_, ?_⟩
  · intro he; rw [M.err_tokEnd] at he; exact h.2 he
  · intro hty
    rw [M.tokEnd]
    apply hlt
    intro he; apply hty; rw [he]; simp

theorem tokenFrom_post (F : Nat) : ∀ (f : Nat) (c : Rune) (s : σ), μ c s < f → μ c s < F →
    TokPost S μ c s (tokenFrom S F f c s) := by
  intro f
  induction f with
  | zero => intro c s h; omega
  | succ f ih =>
    intro c s hf hF
    have hw := skipWhitespace_post M F c s hF
    -- state after tokMark
    have hm : Post S μ c s ((skipWhitespace S F c s).1, S.tokMark (skipWhitespace S F c s).2) :=
      ⟨by rw [M.tokMark]; exact hw.1, fun he => hw.2 (by rw [M.err_tokMark] at he; exact he)⟩
    have hmF : μ (skipWhitespace S F c s).1 (S.tokMark (skipWhitespace S F c s).2) < F := Nat.lt_of_le_of_lt hm.1 hF
    simp only [tokenFrom]
    split
    · exact finishToken_post M _ _ _ _ _ hm (fun h => absurd rfl h) (fun _ => trivial)
    rename_i hneof
    have hne : (skipWhitespace S F c s).1 ≠ runeEOF := by simpa using hneof
    split
    · have hr := scanIdentifier_postLt M F _ _ hne hmF
      exact finishToken_post M _ _ _ _ _ (hm.trans hr.le) (fun _ => Nat.lt_of_lt_of_le hr.1 hm.1) (fun _ => trivial)
    split
    · rename_i hd
      have hr := scanInteger_postLt M F _ _ hd hmF
      exact finishToken_post M _ _ _ _ _ (hm.trans hr.le) (fun _ => Nat.lt_of_lt_of_le hr.1 hm.1) (fun _ => trivial)
    split
    · obtain ⟨c', h1, h2⟩ := scanString_postLt M F _ _ hne hmF
      have hn := post_next M c' (scanString S F (S.tokMark (skipWhitespace S F c s).2))
      have hall : PostLt S μ (skipWhitespace S F c s).1 (S.tokMark (skipWhitespace S F c s).2)
          (S.next (scanString S F (S.tokMark (skipWhitespace S F c s).2))) :=
        ⟨Nat.lt_of_le_of_lt hn.1 h1, h2.trans hn.2⟩
      exact finishToken_post M _ _ _ _ _ (hm.trans hall.le) (fun _ => Nat.lt_of_lt_of_le hall.1 hm.1) (fun _ => trivial)
    split
    · have hn := postLt_next M _ (S.tokMark (skipWhitespace S F c s).2) hne
      split
      · rename_i hcm
        have hcne : (S.next (S.tokMark (skipWhitespace S F c s).2)).1 ≠ runeEOF := by
          intro he; rw [he] at hcm; simp [runeEOF] at hcm
        have hk : μ (S.next (S.tokMark (skipWhitespace S F c s).2)).1 (S.tokKill (S.next (S.tokMark (skipWhitespace S F c s).2)).2)
            = μ (S.next (S.tokMark (skipWhitespace S F c s).2)).1 (S.next (S.tokMark (skipWhitespace S F c s).2)).2 := M.tokKill _ _
        have hc := scanComment_post M F (S.next (S.tokMark (skipWhitespace S F c s).2)).1 _ _ hcne
          (by rw [hk]; exact Nat.lt_trans hn.1 hmF)
        -- total: strictly below μ c s
        have hlt : μ (scanComment S F (S.next (S.tokMark (skipWhitespace S F c s).2)).1 (S.tokKill (S.next (S.tokMark (skipWhitespace S F c s).2)).2)).1
              (scanComment S F (S.next (S.tokMark (skipWhitespace S F c s).2)).1 (S.tokKill (S.next (S.tokMark (skipWhitespace S F c s).2)).2)).2 < μ c s := by
          have := hc.1; rw [hk] at this
          exact Nat.lt_of_le_of_lt this (Nat.lt_of_lt_of_le hn.1 hm.1)
        have hnf : NF S s (scanComment S F (S.next (S.tokMark (skipWhitespace S F c s).2)).1 (S.tokKill (S.next (S.tokMark (skipWhitespace S F c s).2)).2)).2 := by
          refine hm.2.trans (hn.2.trans (NF.trans ?_ hc.2))
          intro he; rw [M.err_tokKill] at he; exact he
        obtain ⟨r1, r2, _⟩ := ih _ _ (Nat.lt_of_lt_of_le hlt (Nat.le_of_lt_succ hf)) (Nat.lt_trans hlt hF)
        exact ⟨Nat.le_trans r1 (Nat.le_of_lt hlt), hnf.trans r2, fun _ => Nat.lt_of_le_of_lt r1 hlt⟩
      · have ho := scanOperator_post M (skipWhitespace S F c s).1 (S.next (S.tokMark (skipWhitespace S F c s).2)).1
          (S.next (S.tokMark (skipWhitespace S F c s).2)).2
        have hall := hn.trans ho
        exact finishToken_post M _ _ _ _ _ (hm.trans hall.le) (fun _ => Nat.lt_of_lt_of_le hall.1 hm.1) (fun _ => trivial)
    · have hn := postLt_next M _ (S.tokMark (skipWhitespace S F c s).2) hne
      have ho := scanOperator_post M (skipWhitespace S F c s).1 (S.next (S.tokMark (skipWhitespace S F c s).2)).1
        (S.next (S.tokMark (skipWhitespace S F c s).2)).2
      have hall := hn.trans ho
      exact finishToken_post M _ _ _ _ _ (hm.trans hall.le) (fun _ => Nat.lt_of_lt_of_le hall.1 hm.1) (fun _ => trivial)

theorem nextToken_post (F : Nat) (c : Rune) (s : σ) (hF : μ c s < F) : TokPost S μ c s (nextToken S F c s) := by
  simp only [nextToken]
  split
  · have hn := post_next M c s
    have hk : μ (S.next s).1 (S.tokKill (S.next s).2) = μ (S.next s).1 (S.next s).2 := M.tokKill _ _
    obtain ⟨r1, r2, r3⟩ := tokenFrom_post M F F (S.next s).1 (S.tokKill (S.next s).2)
      (by rw [hk]; exact Nat.lt_of_le_of_lt hn.1 hF) (by rw [hk]; exact Nat.lt_of_le_of_lt hn.1 hF)
    rw [hk] at r1 r3
    refine ⟨Nat.le_trans r1 hn.1, ?_, fun h => Nat.lt_of_lt_of_le (r3 h) hn.1⟩
    exact hn.2.trans (NF.trans (fun he => by rw [M.err_tokKill] at he; exact he) r2)
  · have hk : μ c (S.tokKill s) = μ c s := M.tokKill _ _
    obtain ⟨r1, r2, r3⟩ := tokenFrom_post M F F c (S.tokKill s) (by rw [hk]; exact hF) (by rw [hk]; exact hF)
    rw [hk] at r1 r3
    exact ⟨r1, NF.trans (fun he => by rw [M.err_tokKill] at he; exact he) r2, r3⟩

/-- `TokenizeReader`'s loop never runs out of fuel when started with fuel above the measure -/
theorem tokenizeLoop_nofuel (F : Nat) : ∀ (f : Nat) (c : Rune) (s : σ), μ c s < f → μ c s < F →
    S.err s ≠ some .fuel → tokenizeLoop S F f c s ≠ .error .fuel := by
  intro f
  induction f with
  | zero => intro c s h; omega
  | succ f ih =>
    intro c s hf hF he
    obtain ⟨r1, r2, r3⟩ := nextToken_post M F c s hF
    have he' : S.err (nextToken S F c s).st ≠ some .fuel := fun h => he (r2 h)
    simp only [tokenizeLoop]
    cases hx : S.err (nextToken S F c s).st with
    | some e =>
      intro h
      have : e = .fuel := by simpa using h
      rw [this] at hx; exact he' hx
    | none =>
      dsimp only
      split
      · intro h; cases h
      · rename_i hty
        have hty : (nextToken S F c s).tok.ty ≠ .eof := by simpa using hty
        have hlt := r3 hty
        have hih := ih _ _ (Nat.lt_of_lt_of_le hlt (Nat.le_of_lt_succ hf)) (Nat.lt_trans hlt hF) he'
        split
        · intro h; cases h
        · rename_i e hrec
          intro h
          have : e = .fuel := by simpa using h
          rw [this] at hrec; exact hih hrec

end

/-- measure of the pure lexer: bytes left, plus one for a pending non-EOF look-ahead -/
def pureMeasure (c : Rune) (s : PState) : Nat := s.rest.length + (if c = runeEOF then 0 else 1)

theorem PState.next_meas (s : PState) :
    (s.rest = [] → s.next.1 = runeEOF ∧ s.next.2.rest = []) ∧
    (s.rest ≠ [] → s.next.1 ≠ runeEOF ∧ s.next.2.rest.length < s.rest.length) ∧
    (s.next.2.err = some .fuel → s.err = some .fuel) := by
  unfold PState.next
  cases hr : s.rest with
  | nil =>
    refine ⟨fun _ => ⟨rfl, rfl⟩, fun h => absurd rfl h, ?_⟩
    dsimp only
    split <;> simp
  | cons b bs =>
    have hw := decodeRune_width b bs
    have hnn := decodeRune_nonneg (b :: bs)
    have hne : (decodeRune (b :: bs)).1 ≠ runeEOF := by
      intro h; rw [h] at hnn; simp [runeEOF] at hnn
    have hlen : ((b :: bs).drop (decodeRune (b :: bs)).2).length < (b :: bs).length := by
      simp only [List.length_drop, List.length_cons]; omega
    refine ⟨fun h => by simp at h, fun _ => ?_, ?_⟩
    · dsimp only
      split
      · exact ⟨hne, hlen⟩
      · split <;> exact ⟨hne, hlen⟩
    · dsimp only
      split
      · simp
      · split
        · simp
        · exact id

theorem pure_meas : Meas pureSrc pureMeasure where
  next_le := by
    intro c s
    obtain ⟨h1, h2, _⟩ := s.next_meas
    show (PState.next s).2.rest.length + (if (PState.next s).1 = runeEOF then 0 else 1) ≤ s.rest.length + _
    by_cases hr : s.rest = []
    · obtain ⟨e1, e2⟩ := h1 hr
      rw [e1, e2, hr]; simp
    · obtain ⟨e1, e2⟩ := h2 hr
      rw [if_neg e1]; split <;> omega
  next_lt := by
    intro c s hc
    obtain ⟨h1, h2, _⟩ := s.next_meas
    show (PState.next s).2.rest.length + (if (PState.next s).1 = runeEOF then 0 else 1) < s.rest.length + _
    rw [if_neg hc]
    by_cases hr : s.rest = []
    · obtain ⟨e1, e2⟩ := h1 hr
      rw [e1, e2, hr]; simp
    · obtain ⟨e1, e2⟩ := h2 hr
      rw [if_neg e1]; omega
  error := fun _ _ _ => rfl
  tokKill := fun _ _ => rfl
  tokMark := fun _ _ => rfl
  tokEnd := fun _ _ => rfl
  err_next := fun s => s.next_meas.2.2
  err_error := fun _ _ => rfl
  err_tokKill := fun _ => rfl
  err_tokMark := fun _ => rfl
  err_tokEnd := fun _ => rfl

/-- FUEL SUFFICES: the pure lexer never reports the model's out-of-fuel marker -/
theorem rawTokens_ne_fuel (doc : List UInt8) (fails : Bool) : rawTokens doc fails ≠ .error .fuel := by
  unfold rawTokens tokenize
  have hμ : pureMeasure runeBOF (PState.init doc fails) < doc.length + 2 := by
    simp [pureMeasure, PState.init, runeBOF, runeEOF]
  exact tokenizeLoop_nofuel pure_meas _ _ _ _ hμ hμ (by simp [pureSrc, PState.init])

end CedarGo.Text.Lx
