/-
  C15 (entity extension) — facts about the sorted entity-LUB union `unionTys` (`unionLUB` of cedar_type.go):
  as a SET it is the union of its arguments; it is sorted and duplicate-free whatever the arguments are.
-/
import CedarGo.Model.Validate.Check
namespace CedarGo.Validate
open CedarGo

theorem mem_insertTy {x t : String} : ∀ {l : List String}, x ∈ insertTy t l ↔ x = t ∨ x ∈ l
  | [] => by simp [insertTy]
  | y :: ys => by
    simp only [insertTy]
    split
    · simp
    · split
      · rename_i _ hty
        have : t = y := by simpa using hty
        subst this; simp
      · simp only [List.mem_cons, mem_insertTy (l := ys)]
        constructor
        · rintro (h | h | h)
          · exact .inr (.inl h)
          · exact .inl h
          · exact .inr (.inr h)
        · rintro (h | h | h)
          · exact .inr (.inl h)
          · exact .inl h
          · exact .inr (.inr h)

theorem mem_foldr_insertTy {x : String} : ∀ {l : List String}, x ∈ l.foldr insertTy [] ↔ x ∈ l
  | [] => by simp
  | y :: ys => by simp only [List.foldr_cons, mem_insertTy, mem_foldr_insertTy (l := ys), List.mem_cons]

/-- `unionLUB` as a set -/
theorem mem_unionTys {x : String} {a b : List String} : x ∈ unionTys a b ↔ x ∈ a ∨ x ∈ b := by
  simp only [unionTys, mem_foldr_insertTy, List.mem_append]

end CedarGo.Validate
