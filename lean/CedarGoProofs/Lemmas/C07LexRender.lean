/-
  C07 ∘ C18 bridge, part 12: every token the spec printers (`renderMin` / `renderFull`) emit for a policy of the
  proved fragment is `Lexable`, and the single-space layout is admissible for every list of lexable tokens.
-/
import CedarGo.Model.Text.Layout
import CedarGo.Model.Text.Fragment
import CedarGoProofs.Lemmas.C07Escape
import CedarGoProofs.Lemmas.C07Like
namespace CedarGo.Text
open CedarGo

def AllLex (ts : List Token) : Prop := ∀ t ∈ ts, Lexable t

theorem AllLex.nil : AllLex [] := fun _ h => by cases h
theorem AllLex.cons {t : Token} {ts : List Token} (h1 : Lexable t) (h2 : AllLex ts) : AllLex (t :: ts) := by
  intro x hx; rcases List.mem_cons.1 hx with rfl | hx
  · exact h1
  · exact h2 x hx
theorem AllLex.append {xs ys : List Token} (h1 : AllLex xs) (h2 : AllLex ys) : AllLex (xs ++ ys) := by
  intro x hx; rcases List.mem_append.1 hx with hx | hx
  · exact h1 x hx
  · exact h2 x hx

/-! ## single tokens -/

theorem lexable_op (s : String) (h : opText s.toList = true) : Lexable (opT s) := h

theorem lexable_kw (s : String) (h : (identText s.toList && reservedKeywords.contains s) = true) : Lexable (kwT s) := by
  simp only [Bool.and_eq_true] at h
  exact ⟨h.1, by simpa [kwT] using h.2⟩

theorem lexable_id (s : String) (h : isIdentName s = true) : Lexable (idT s) := by
  simp only [isIdentName, Bool.and_eq_true, Bool.not_eq_true'] at h
  refine ⟨?_, by simpa [idT] using h.2⟩
  show identText s.toList = true
  cases hs : s.toList with
  | nil => simp [hs] at h
  | cons c cs => simpa [hs, identText] using h.1

theorem lexable_lparen : Lexable (opT "(") := by show opText _ = true; decide +kernel
theorem lexable_rparen : Lexable (opT ")") := by show opText _ = true; decide +kernel
theorem lexable_lbrack : Lexable (opT "[") := by show opText _ = true; decide +kernel
theorem lexable_rbrack : Lexable (opT "]") := by show opText _ = true; decide +kernel
theorem lexable_lbrace : Lexable (opT "{") := by show opText _ = true; decide +kernel
theorem lexable_rbrace : Lexable (opT "}") := by show opText _ = true; decide +kernel
theorem lexable_comma : Lexable (opT ",") := by show opText _ = true; decide +kernel
theorem lexable_dot : Lexable (opT ".") := by show opText _ = true; decide +kernel
theorem lexable_colon : Lexable (opT ":") := by show opText _ = true; decide +kernel
theorem lexable_coloncolon : Lexable (opT "::") := by show opText _ = true; decide +kernel
theorem lexable_semi : Lexable (opT ";") := by show opText _ = true; decide +kernel
theorem lexable_at : Lexable (opT "@") := by show opText _ = true; decide +kernel
theorem lexable_bang : Lexable (opT "!") := by show opText _ = true; decide +kernel
theorem lexable_minus : Lexable (opT "-") := by show opText _ = true; decide +kernel
theorem lexable_eqeq : Lexable (opT "==") := by show opText _ = true; decide +kernel

theorem lexable_true : Lexable (kwT "true") := lexable_kw _ (by decide +kernel)
theorem lexable_false : Lexable (kwT "false") := lexable_kw _ (by decide +kernel)
theorem lexable_if : Lexable (kwT "if") := lexable_kw _ (by decide +kernel)
theorem lexable_then : Lexable (kwT "then") := lexable_kw _ (by decide +kernel)
theorem lexable_else : Lexable (kwT "else") := lexable_kw _ (by decide +kernel)
theorem lexable_in : Lexable (kwT "in") := lexable_kw _ (by decide +kernel)
theorem lexable_has : Lexable (kwT "has") := lexable_kw _ (by decide +kernel)
theorem lexable_like : Lexable (kwT "like") := lexable_kw _ (by decide +kernel)
theorem lexable_is : Lexable (kwT "is") := lexable_kw _ (by decide +kernel)

theorem lexable_var (v : Var) : Lexable (idT (varName v)) := by
  cases v <;> exact lexable_id _ (by decide +kernel)

theorem lexable_binForm (op : BinOp) (tok : Token) (lp rp : Nat) (h : binForm op = .infixOp tok lp rp) : Lexable tok := by
  cases op <;> simp only [binForm, BinForm.infixOp.injEq, reduceCtorEq] at h <;> obtain ⟨rfl, _, _⟩ := h
  all_goals first
    | exact lexable_in
    | (show opText _ = true; decide +kernel)

theorem lexable_method (op : BinOp) (name : String) (h : binForm op = .method name) : Lexable (idT name) := by
  cases op <;> simp only [binForm, BinForm.method.injEq, reduceCtorEq] at h <;> subst h <;>
    exact lexable_id _ (by decide +kernel)

/-- every known extension function / method name is an identifier -/
theorem extNames_ident : ∀ x ∈ extMap, isIdentName x.1 = true := by decide +kernel

theorem lexable_extName (fn : String) (h : extLookup fn ≠ none) : Lexable (idT fn) := by
  apply lexable_id
  unfold extLookup at h
  cases hf : extMap.find? (·.1 == fn) with
  | none => simp [hf] at h
  | some x =>
    have hm := List.mem_of_find?_eq_some hf
    have he := List.find?_some hf
    simp only [beq_iff_eq] at he
    rw [← he]; exact extNames_ident x hm

/-! ## integers -/

theorem natDigitsAux_digits : ∀ (f n : Nat) (acc : List Char), (∀ c ∈ acc, isDecimal c = true) →
    ∀ c ∈ natDigitsAux f n acc, isDecimal c = true := by
  intro f
  induction f with
  | zero => intro n acc h; simpa [natDigitsAux] using h
  | succ f ih =>
    intro n acc h
    unfold natDigitsAux
    split
    · rename_i hn
      intro c hc
      rcases List.mem_cons.1 hc with rfl | hc
      · exact (decChar_facts n hn).1
      · exact h c hc
    · apply ih
      intro c hc
      rcases List.mem_cons.1 hc with rfl | hc
      · exact (decChar_facts (n % 10) (Nat.mod_lt _ (by decide))).1
      · exact h c hc

theorem natDigitsAux_ne_nil : ∀ (f n : Nat) (acc : List Char), (f = 0 → acc ≠ []) → natDigitsAux f n acc ≠ [] := by
  intro f
  induction f with
  | zero => intro n acc h; simpa [natDigitsAux] using h rfl
  | succ f ih =>
    intro n acc _
    unfold natDigitsAux
    split
    · simp
    · exact ih _ _ (fun _ => by simp)

theorem lexable_int (n : Nat) : Lexable (intT n) := by
  show intText (String.ofList (natDigits n)).toList = true
  rw [String.toList_ofList]
  simp only [intText, Bool.and_eq_true, Bool.not_eq_true', List.isEmpty_eq_false_iff, List.all_eq_true]
  exact ⟨natDigitsAux_ne_nil _ _ _ (by simp), natDigitsAux_digits _ _ _ (by simp)⟩

/-! ## string literals: `EscapeString` produces a `StrBody` -/

theorem hexChar_isHexChar : ∀ d, d < 16 → isHexChar (hexChar d) = true := by decide +kernel

theorem hexD_isHexChar (f n : Nat) : ∀ d ∈ hexD f n, isHexChar d = true := by
  induction f generalizing n with
  | zero => intro d hd; simp [hexD] at hd
  | succ f ih =>
    intro d hd
    unfold hexD at hd
    split at hd
    · rename_i h
      simp only [List.mem_singleton] at hd
      subst hd; exact hexChar_isHexChar n h
    · simp only [List.mem_append, List.mem_singleton] at hd
      rcases hd with hd | hd
      · exact ih _ d hd
      · subst hd; exact hexChar_isHexChar _ (Nat.mod_lt _ (by decide))

theorem strBody_uEscape (c : Char) {cs : List Char} (h : StrBody cs) : StrBody (uEscape c ++ cs) := by
  have hlt : c.toNat < 16 ^ 6 := by
    have := c.valid
    simp only [UInt32.isValidChar, Nat.isValidChar] at this
    have e : c.toNat = c.val.toNat := rfl
    omega
  have hl := hexD_length 64 c.toNat 6 (by omega) (by omega) hlt
  have e : uEscape c ++ cs = '\\' :: 'u' :: '{' :: (hexD 64 c.toNat ++ '}' :: cs) := by
    simp [uEscape, hexDigits, hexDigitsAux_eq]
  rw [e]
  exact .uni _ _ hl.1 hl.2 (hexD_isHexChar 64 c.toNat) h

theorem char_of_toNat (c d : Char) (h : c.toNat = d.toNat) : c = d := Char.ext (UInt32.toNat_inj.1 h)

theorem strBody_escapeRune (c : Char) (egx : Bool) {cs : List Char} (h : StrBody cs) : StrBody (escapeRune c egx ++ cs) := by
  unfold escapeRune
  split
  · exact .esc '0' cs (by decide) h
  split
  · exact .esc 't' cs (by decide) h
  split
  · exact .esc 'r' cs (by decide) h
  split
  · exact .esc 'n' cs (by decide) h
  split
  · exact .esc '\\' cs (by decide) h
  split
  · exact .esc '"' cs (by decide) h
  split
  · exact .esc '\'' cs (by decide) h
  rename_i h0 _ _ hn hb hq _
  split
  · exact strBody_uEscape c h
  split
  · refine .raw c cs ?_ ?_ ?_ ?_ h
    · intro e; apply hq; rw [char_of_toNat c '"' e]; rfl
    · intro e; apply hb; rw [char_of_toNat c '\\' e]; rfl
    · intro e; apply hn; rw [char_of_toNat c '\n' e]; rfl
    · simpa using h0
  · exact strBody_uEscape c h

theorem strBody_escapeRest : ∀ cs : List Char, StrBody (escapeRest cs)
  | [] => .nil
  | c :: cs => strBody_escapeRune c false (strBody_escapeRest cs)

theorem strBody_escapeString : ∀ cs : List Char, StrBody (escapeString cs)
  | [] => .nil
  | c :: cs => strBody_escapeRune c true (strBody_escapeRest cs)

theorem lexable_str (s : String) : Lexable (strT s) := by
  refine ⟨escapeString s.toList, ?_, strBody_escapeString _⟩
  show (String.ofList _).toList = _
  rw [String.toList_ofList]

/-! ## pattern literals: `Pattern.MarshalCedar` produces a `StrBody` (the scanner accepts the escape `\*`) -/

theorem strBody_escStar (c : Char) {cs : List Char} (h : StrBody cs) : StrBody (escapeStars (escapeRune c true) ++ cs) := by
  by_cases hc : c = '*'
  · subst hc
    rw [escapeRune_star]
    exact .esc '*' cs (by decide) h
  · rw [escapeStars_noStar _ (escapeRune_noStar c true hc)]
    exact strBody_escapeRune c true h

theorem strBody_dpEsc (l : List Char) {cs : List Char} (h : StrBody cs) : StrBody (dpEsc l ++ cs) := by
  induction l with
  | nil => exact h
  | cons c l ih =>
    rw [dpEsc_cons, List.append_assoc]
    exact strBody_escStar c ih

theorem strBody_dpRender : ∀ dp : DPat, StrBody (dpRender dp)
  | [] => .nil
  | (w, l) :: rest => by
    have h := strBody_dpEsc l (strBody_dpRender rest)
    cases w with
    | false => simpa [dpRender] using h
    | true =>
      have e : dpRender ((true, l) :: rest) = '*' :: (dpEsc l ++ dpRender rest) := by simp [dpRender]
      rw [e]
      exact .raw '*' _ (by decide) (by decide) (by decide) (by decide) h

/-- the pattern-literal token of a pattern in `NewPattern` normal form is written the way the scanner reads it -/
theorem lexable_patT (p : Pattern) (h : patOK p = true) (t : Token) (ht : patT p = some t) : Lexable t := by
  obtain ⟨dp, _, hesc⟩ := decode_pat p (patOK_all h)
  simp only [patT, hesc, Option.some.injEq] at ht
  subst ht
  refine ⟨dpRender dp, ?_, strBody_dpRender dp⟩
  show (String.ofList _).toList = _
  rw [String.toList_ofList]

/-! ## expressions -/

theorem allLex_wrapIf (b : Bool) {ts : List Token} (h : AllLex ts) : AllLex (wrapIf b ts) := by
  unfold wrapIf
  split
  · exact .cons lexable_lparen (.append h (.cons lexable_rparen .nil))
  · exact h

theorem allLex_pathToksOf : ∀ parts : List String, (∀ a ∈ parts, isIdentName a = true) → AllLex (pathToksOf parts)
  | [], _ => .nil
  | [a], h => .cons (lexable_id a (h a (by simp))) .nil
  | a :: b :: rest, h => by
    show AllLex (idT a :: opT "::" :: pathToksOf (b :: rest))
    exact .cons (lexable_id a (h a (by simp))) (.cons lexable_coloncolon
      (allLex_pathToksOf (b :: rest) (fun x hx => h x (List.mem_cons_of_mem _ hx))))

theorem allLex_pathToks (ty : String) (h : isPathName ty = true) : AllLex (pathToks ty) := by
  apply allLex_pathToksOf
  simpa [isPathName, List.all_eq_true] using h

theorem allLex_uid (ty id : String) (h : isPathName ty = true) : AllLex (pathToks ty ++ [opT "::", strT id]) :=
  .append (allLex_pathToks ty h) (.cons lexable_coloncolon (.cons (lexable_str id) .nil))

theorem allLex_accessToks (full : Bool) (a : String) : AllLex (accessToks full a) := by
  unfold accessToks
  split
  · rename_i h
    simp only [Bool.and_eq_true] at h
    exact .cons lexable_dot (.cons (lexable_id a h.2) .nil)
  · exact .cons lexable_lbrack (.cons (lexable_str a) (.cons lexable_rbrack .nil))

theorem lexable_attrTok (full : Bool) (a : String) : Lexable (attrTok full a) := by
  unfold attrTok
  split
  · rename_i h
    simp only [Bool.and_eq_true] at h
    exact lexable_id a h.2
  · exact lexable_str a

theorem callOK_lookup (fn : String) (args : List Expr) (h : callOK fn args = true) : extLookup fn ≠ none := by
  unfold callOK at h
  split at h
  · rename_i hm
    unfold isMethodName at hm
    intro e; simp [e] at hm
  · unfold checkFunction at h
    intro e; simp [e] at h

theorem allLex_renderLit (v : Value) (h : inFrag full (.lit v) = true) : AllLex (renderLit v) := by
  cases v <;> simp only [inFrag, Bool.false_eq_true] at h
  · rename_i b
    cases b
    · exact .cons lexable_false .nil
    · exact .cons lexable_true .nil
  · rename_i n
    show AllLex (if n < 0 then [opT "-", intT n.natAbs] else [intT n.toNat])
    split
    · exact .cons lexable_minus (.cons (lexable_int _) .nil)
    · exact .cons (lexable_int _) .nil
  · exact .cons (lexable_str _) .nil
  · exact allLex_uid _ _ h

mutual
theorem allLex_render (full : Bool) : ∀ (e : Expr), inFrag full e = true → AllLex (render full e)
  | .lit v, h => by rw [render]; exact allLex_renderLit v h
  | .var v, _ => by rw [render]; exact .cons (lexable_var v) .nil
  | .unop .not e, h => by
    simp only [inFrag] at h
    rw [render]; exact .cons lexable_bang (allLex_wrapIf _ (allLex_render full e h))
  | .unop .neg e, h => by
    simp only [inFrag] at h
    rw [render]; exact .cons lexable_minus (allLex_wrapIf _ (allLex_render full e h))
  | .unop .isEmpty e, h => by
    simp only [inFrag] at h
    rw [render]
    exact .append (allLex_wrapIf _ (allLex_render full e h))
      (.cons lexable_dot (.cons (lexable_id _ (by decide +kernel)) (.cons lexable_lparen (.cons lexable_rparen .nil))))
  | .binop op l r, h => by
    simp only [inFrag, Bool.and_eq_true] at h
    have hl := allLex_render full l h.1
    have hr := allLex_render full r h.2
    rw [render]
    cases hf : binForm op with
    | infixOp tok lp rp =>
      exact .append (allLex_wrapIf _ hl) (.cons (lexable_binForm op tok lp rp hf) (allLex_wrapIf _ hr))
    | method name =>
      exact .append (allLex_wrapIf _ hl) (.cons lexable_dot (.cons (lexable_method op name hf) (.cons lexable_lparen
        (.append (allLex_wrapIf _ hr) (.cons lexable_rparen .nil)))))
  | .ite c t e, h => by
    simp only [inFrag, Bool.and_eq_true] at h
    rw [render]
    exact .cons lexable_if (.append (allLex_wrapIf _ (allLex_render full c h.1.1)) (.cons lexable_then
      (.append (allLex_wrapIf _ (allLex_render full t h.1.2)) (.cons lexable_else (allLex_wrapIf _ (allLex_render full e h.2))))))
  | .access e a, h => by
    simp only [inFrag] at h
    rw [render]; exact .append (allLex_wrapIf _ (allLex_render full e h)) (allLex_accessToks full a)
  | .has e a, h => by
    simp only [inFrag] at h
    rw [render]
    exact .append (allLex_wrapIf _ (allLex_render full e h)) (.cons lexable_has (.cons (lexable_attrTok full a) .nil))
  | .like e p, h => by
    simp only [inFrag, Bool.and_eq_true] at h
    obtain ⟨t, ht, _⟩ := patT_roundtrip p h.2
    rw [render, ht]
    exact .append (allLex_wrapIf _ (allLex_render full e h.1)) (.cons lexable_like (.cons (lexable_patT p h.2 t ht) .nil))
  | .is e ty, h => by
    simp only [inFrag, Bool.and_eq_true] at h
    rw [render]
    exact .append (allLex_wrapIf _ (allLex_render full e h.1)) (.cons lexable_is (allLex_pathToks ty h.2))
  | .isIn e ty r, h => by
    simp only [inFrag, Bool.and_eq_true] at h
    rw [render]
    exact .append (allLex_wrapIf _ (allLex_render full e h.1.1)) (.cons lexable_is (.append (allLex_pathToks ty h.1.2)
      (.cons lexable_in (allLex_wrapIf _ (allLex_render full r h.2)))))
  | .set es, h => by
    simp only [inFrag] at h
    rw [render]
    exact .cons lexable_lbrack (.append (allLex_renderArgs full es h) (.cons lexable_rbrack .nil))
  | .record kes, h => by
    simp only [inFrag, Bool.and_eq_true] at h
    rw [render]
    exact .cons lexable_lbrace (.append (allLex_renderKVs full kes h.1) (.cons lexable_rbrace .nil))
  | .call fn [], h => by
    simp only [inFrag, Bool.and_eq_true] at h
    have hfn := lexable_extName fn (callOK_lookup fn [] h.1)
    rw [render]
    split
    · exact .nil
    · exact .cons hfn (.cons lexable_lparen (.append (allLex_renderArgs full [] rfl) (.cons lexable_rparen .nil)))
  | .call fn (recv :: rest), h => by
    simp only [inFrag, inFragList, Bool.and_eq_true] at h
    have hfn := lexable_extName fn (callOK_lookup fn _ h.1)
    rw [render]
    split
    · exact .append (allLex_wrapIf _ (allLex_render full recv h.2.1)) (.cons lexable_dot (.cons hfn (.cons lexable_lparen
        (.append (allLex_renderArgs full rest h.2.2) (.cons lexable_rparen .nil)))))
    · have hargs : inFragList full (recv :: rest) = true := by simp [inFragList, h.2.1, h.2.2]
      exact .cons hfn (.cons lexable_lparen (.append (allLex_renderArgs full (recv :: rest) hargs) (.cons lexable_rparen .nil)))
theorem allLex_renderArgs (full : Bool) : ∀ (es : List Expr), inFragList full es = true → AllLex (renderArgs full es)
  | [], _ => .nil
  | [e], h => by
    simp only [inFragList, Bool.and_true] at h
    rw [renderArgs]; exact allLex_wrapIf _ (allLex_render full e h)
  | e :: e' :: es, h => by
    simp only [inFragList, Bool.and_eq_true] at h
    have h2 : inFragList full (e' :: es) = true := by simp [inFragList, h.2.1, h.2.2]
    show AllLex (wrapIf full (render full e) ++ opT "," :: renderArgs full (e' :: es))
    exact .append (allLex_wrapIf _ (allLex_render full e h.1)) (.cons lexable_comma (allLex_renderArgs full (e' :: es) h2))
theorem allLex_renderKVs (full : Bool) : ∀ (kes : List (String × Expr)), inFragKVs full kes = true → AllLex (renderKVs full kes)
  | [], _ => .nil
  | [(k, e)], h => by
    simp only [inFragKVs, Bool.and_true] at h
    rw [renderKVs]
    exact .cons (lexable_attrTok full k) (.cons lexable_colon (allLex_wrapIf _ (allLex_render full e h)))
  | (k, e) :: ke' :: kes, h => by
    rw [inFragKVs] at h
    simp only [Bool.and_eq_true] at h
    show AllLex (attrTok full k :: opT ":" :: (wrapIf full (render full e) ++ opT "," :: renderKVs full (ke' :: kes)))
    exact .cons (lexable_attrTok full k) (.cons lexable_colon (.append (allLex_wrapIf _ (allLex_render full e h.1))
      (.cons lexable_comma (allLex_renderKVs full (ke' :: kes) h.2))))
end

/-! ## policies -/

theorem allLex_uidToks (u : UID) (h : uidOK u = true) : AllLex (uidToks u) := allLex_uid u.1 u.2 h

theorem allLex_uidListToks : ∀ es : List UID, es.all uidOK = true → AllLex (uidListToks es)
  | [], _ => .nil
  | [u], h => by
    simp only [List.all_cons, List.all_nil, Bool.and_true] at h
    exact allLex_uidToks u h
  | u :: v :: rest, h => by
    simp only [List.all_cons, Bool.and_eq_true] at h
    show AllLex (uidToks u ++ opT "," :: uidListToks (v :: rest))
    exact .append (allLex_uidToks u h.1) (.cons lexable_comma (allLex_uidListToks (v :: rest) (by simp [h.2.1, h.2.2])))

theorem allLex_scopeToks (v : Var) (sc : Scope) (h : scopePROK sc = true ∨ scopeAOK sc = true) : AllLex (scopeToks v sc) := by
  cases sc with
  | all => exact .cons (lexable_var v) .nil
  | eq e =>
    have he : uidOK e = true := by rcases h with h | h <;> simpa [scopePROK, scopeAOK] using h
    exact .cons (lexable_var v) (.cons lexable_eqeq (allLex_uidToks e he))
  | in_ e =>
    have he : uidOK e = true := by rcases h with h | h <;> simpa [scopePROK, scopeAOK] using h
    exact .cons (lexable_var v) (.cons lexable_in (allLex_uidToks e he))
  | inSet es =>
    have he : es.all uidOK = true := by rcases h with h | h <;> simpa [scopePROK, scopeAOK] using h
    exact .cons (lexable_var v) (.cons lexable_in (.cons lexable_lbrack (.append (allLex_uidListToks es he) (.cons lexable_rbrack .nil))))
  | is ty =>
    have ht : isPathName ty = true := by rcases h with h | h <;> simpa [scopePROK, scopeAOK] using h
    exact .cons (lexable_var v) (.cons lexable_is (allLex_pathToks ty ht))
  | isIn ty e =>
    have ht : isPathName ty = true ∧ uidOK e = true := by rcases h with h | h <;> simpa [scopePROK, scopeAOK] using h
    exact .cons (lexable_var v) (.cons lexable_is (.append (allLex_pathToks ty ht.1) (.cons lexable_in (allLex_uidToks e ht.2))))

theorem reserved_identText : ∀ k ∈ reservedKeywords, identText k.toList = true := by decide +kernel

theorem allLex_annotationToks : ∀ anns : List (String × String), anns.all (fun a => isAnnotationKey a.1) = true →
    AllLex (annotationToks anns)
  | [], _ => .nil
  | (k, v) :: rest, h => by
    simp only [List.all_cons, Bool.and_eq_true] at h
    have hk : Lexable (if reservedKeywords.contains k then kwT k else idT k) := by
      split
      · rename_i hr
        exact ⟨reserved_identText k (by simpa using hr), by simpa [kwT] using hr⟩
      · rename_i hr
        have := h.1
        simp only [isAnnotationKey, Bool.or_eq_true] at this
        rcases this with h1 | h1
        · exact lexable_id k h1
        · exact absurd h1 hr
    show AllLex (opT "@" :: (if reservedKeywords.contains k then kwT k else idT k) :: opT "(" :: strT v :: opT ")" :: annotationToks rest)
    exact .cons lexable_at (.cons hk (.cons lexable_lparen (.cons (lexable_str v) (.cons lexable_rparen
      (allLex_annotationToks rest h.2)))))

theorem allLex_conditionToks (full : Bool) : ∀ cs : List (Bool × Expr), cs.all (fun c => inFrag full c.2) = true →
    AllLex (conditionToks full cs)
  | [], _ => .nil
  | (w, e) :: rest, h => by
    simp only [List.all_cons, Bool.and_eq_true] at h
    show AllLex (idT (if w then "when" else "unless") :: opT "{" :: (render full e ++ opT "}" :: conditionToks full rest))
    have hw : Lexable (idT (if w then "when" else "unless")) := by
      cases w <;> exact lexable_id _ (by decide +kernel)
    exact .cons hw (.cons lexable_lbrace (.append (allLex_render full e h.1) (.cons lexable_rbrace (allLex_conditionToks full rest h.2))))

/-- all tokens of `renderMin p` / `renderFull p` are written the way the scanner reads them -/
theorem allLex_renderPolicy (full : Bool) (p : Policy) (h : policyOK full p = true) (ha : annKeysOK p = true) :
    AllLex (renderPolicy full p) := by
  simp only [policyOK, headOKb, headOf, Bool.and_eq_true] at h
  obtain ⟨⟨⟨⟨⟨_, hpr⟩, hac⟩, hre⟩, _⟩, hcs⟩ := h
  unfold renderPolicy
  have he : Lexable (idT (match p.effect with | .permit => "permit" | .forbid => "forbid")) := by
    cases p.effect <;> exact lexable_id _ (by decide +kernel)
  exact .append (allLex_annotationToks _ ha) (.cons he (.cons lexable_lparen
    (.append (allLex_scopeToks _ _ (.inl hpr)) (.cons lexable_comma (.append (allLex_scopeToks _ _ (.inr hac)) (.cons lexable_comma
      (.append (allLex_scopeToks _ _ (.inl hre)) (.cons lexable_rparen (.append (allLex_conditionToks full _ hcs) (.cons lexable_semi .nil))))))))))

/-! ## the single-space layout is admissible for lexable tokens -/

theorem lexable_ne_eof {t : Token} (h : Lexable t) : t.ty ≠ .eof := by
  intro e; unfold Lexable at h; rw [e] at h; exact h

theorem sepOK_space {t : Token} (_h : Lexable t) : sepOK t (some ' ') = true := by
  unfold sepOK sepOKChars
  cases t.ty <;> try rfl
  all_goals
    simp only []
    split
    · rename_i c0 _
      have h32 : (' ' : Char).toNat = 32 := rfl
      simp [merges, h32]
    · rfl

theorem space_toList : " ".toList = [' '] := by decide +kernel
theorem empty_toList : "".toList = [] := by decide +kernel

theorem isSeparator_space (fin : Bool) : IsSeparator fin " " := by
  unfold IsSeparator; rw [space_toList]; exact .ws fin ' ' [] rfl (.nil fin)

theorem isSeparator_empty (fin : Bool) : IsSeparator fin "" := by
  unfold IsSeparator; rw [empty_toList]; exact .nil fin

theorem admissible_spaceSeps : ∀ (ts : List Token) (t : Token) (sep : String), IsSeparator false sep → Lexable t → AllLex ts →
    Admissible (sep :: spaceSeps ts.length) (t :: ts)
  | [], t, sep, hs, ht, _ => by
    show IsSeparator false sep ∧ Lexable t ∧ sepOK t (renderChars [""] []).head? = true ∧ Admissible [""] []
    refine ⟨hs, ht, ?_, isSeparator_empty true⟩
    show sepOK t ("".toList).head? = true
    rw [empty_toList]; rfl
  | u :: ts, t, sep, hs, ht, hts => by
    show IsSeparator false sep ∧ Lexable t ∧ sepOK t (renderChars (" " :: spaceSeps ts.length) (u :: ts)).head? = true ∧
      Admissible (" " :: spaceSeps ts.length) (u :: ts)
    refine ⟨hs, ht, ?_, admissible_spaceSeps ts u " " (isSeparator_space false) (hts u (by simp))
      (fun x hx => hts x (List.mem_cons_of_mem _ hx))⟩
    show sepOK t (" ".toList ++ _).head? = true
    rw [space_toList]
    exact sepOK_space ht

theorem admissible_spaceLayout : ∀ ts : List Token, AllLex ts → Admissible (spaceLayout ts.length) ts
  | [], _ => isSeparator_empty true
  | t :: ts, h => admissible_spaceSeps ts t "" (isSeparator_empty false) (h t (by simp)) (fun x hx => h x (List.mem_cons_of_mem _ hx))

end CedarGo.Text
