/-
  Helper lemmas for C01: `eval` preserves the 64-bit range invariant (mutual structural induction).
-/
import CedarGoProofs.Lemmas.C01Range
import CedarGoProofs.Lemmas.RecordLit
namespace CedarGo
open Scalars
namespace C01L

theorem doIn_ok_bool {env : Env} {a : UID} {b v : Value} (h : doIn env a b = .ok v) : ∃ x, v = .bool x := by
  unfold doIn at h
  split at h
  · split at h
    · cases h; exact ⟨_, rfl⟩
    · cases h
  · split at h
    · cases h
    · split at h
      · cases h; exact ⟨_, rfl⟩
      · cases h
  · cases h

theorem bool_wf (b : Bool) : (Value.bool b).WF := by simp [Value.WF]

theorem map_ok {α : Type} {x : Except Err α} {f : α → Value} {v : Value} (h : x.map f = .ok v) :
    ∃ a, x = .ok a ∧ v = f a := by
  cases x with
  | error e => simp [Except.map] at h
  | ok a => simp only [Except.map] at h; cases h; exact ⟨a, rfl, rfl⟩

/-- every extension function returns an in-range value on in-range arguments -/
theorem callExt_wf {fn : String} {vs : List Value} {v : Value} (hvs : Value.WFL vs) (h : callExt fn vs = .ok v) : v.WF := by
  unfold callExt at h
  split at h
  · -- [.str s]
    repeat' split at h
    · obtain ⟨a, ha, rfl⟩ := map_ok h; simp only [Value.WF]; exact parseDecimal_range ha
    · obtain ⟨a, ha, rfl⟩ := map_ok h; simp only [Value.WF]; exact parseDatetime_range ha
    · obtain ⟨a, ha, rfl⟩ := map_ok h; simp only [Value.WF]; exact parseDuration_range ha
    · obtain ⟨a, ha, rfl⟩ := map_ok h; simp only [Value.WF]
    · cases h
  · repeat' split at h
    all_goals first | (cases h; exact bool_wf _) | cases h
  · repeat' split at h
    all_goals first | (cases h; exact bool_wf _) | cases h
  · repeat' split at h
    all_goals first | (cases h; exact bool_wf _) | cases h
  · -- [.datetime t]
    rename_i t
    split at h
    · have := checkedSub_fst_range t (millisSinceMidnight t)
      cases hc : checkedSub t (millisSinceMidnight t) with
      | mk x ok =>
        rw [hc] at h this
        simp only at h
        split at h
        · cases h; simp only [Value.WF]; exact this
        · cases h
    · split at h
      · cases h; simp only [Value.WF]; exact millisSinceMidnight_range _
      · cases h
  · -- [.duration d]
    rename_i d
    have hd : InI64 d := by simpa [Value.WFL, Value.WF] using hvs
    repeat' split at h
    all_goals first
      | (cases h; simp only [Value.WF]; exact hd)
      | (cases h; simp only [Value.WF]; exact tdiv_range hd (by decide))
      | cases h
  · -- offset
    split at h
    · rename_i t d _
      have := checkedAdd_fst_range t d
      cases hc : checkedAdd t d with
      | mk x ok =>
        rw [hc] at h this
        simp only at h
        split at h
        · cases h; simp only [Value.WF]; exact this
        · cases h
    · cases h
  · split at h
    · rename_i t u _
      have := checkedSub_fst_range t u
      cases hc : checkedSub t u with
      | mk x ok =>
        rw [hc] at h this
        simp only at h
        split at h
        · cases h; simp only [Value.WF]; exact this
        · cases h
    · cases h
  · cases h

theorem entity_attrs_wf {env : Env} (hwf : env.WF) {u : UID} {d : EntityData} (h : env.entities.get u = some d) :
    Value.WFKV d.attrs := (hwf.entities u d h).1
theorem entity_tags_wf {env : Env} (hwf : env.WF) {u : UID} {d : EntityData} (h : env.entities.get u = some d) :
    Value.WFKV d.tags := (hwf.entities u d h).2

/-- entries evaluated in a given order: in-range values if every entry yields one -/
theorem evalKVs_wf_of (env : Env) : ∀ (l : List (String × Expr)) (kvs : List (String × Value)),
    (∀ ke ∈ l, ∀ v, eval ke.2 env = .ok v → v.WF) → evalKVs l env = .ok kvs → Value.WFKV kvs
  | [], kvs, _, h => by simp only [evalKVs] at h; cases h; simp [Value.WFKV]
  | (k, e) :: l, kvs, hl, h => by
    simp only [evalKVs] at h
    obtain ⟨v, hv, h⟩ := bind_ok h
    obtain ⟨vs', hvs', h⟩ := bind_ok h
    cases h
    exact ⟨hl (k, e) (by simp) v hv, evalKVs_wf_of env l vs' (fun ke hke => hl ke (by simp [hke])) hvs'⟩

mutual
/-- **Range invariant**: in-range literals and environment ⇒ in-range result. -/
theorem eval_wf : ∀ (e : Expr) (env : Env) (v : Value), env.WF → e.All litOK → eval e env = .ok v → v.WF
  | .lit w, env, v, _, hl, h => by
    simp only [eval] at h; cases h
    simpa [Expr.All, litOK] using hl
  | .var x, env, v, hwf, _, h => by
    cases x <;> simp only [eval] at h <;> cases h
    · exact hwf.principal
    · exact hwf.action
    · exact hwf.resource
    · exact hwf.context
  | .unop op e, env, v, hwf, hl, h => by
    simp only [Expr.All] at hl
    cases op with
    | not =>
      simp only [eval] at h
      obtain ⟨b, _, h⟩ := bind_ok h
      cases h; exact bool_wf _
    | neg =>
      simp only [eval] at h
      obtain ⟨n, hn, h⟩ := bind_ok h
      obtain ⟨w, hw, hn⟩ := ebind_ok hn
      have := toLong_ok hn; subst this
      have hr : InI64 n := by simpa [Value.WF] using eval_wf e env _ hwf hl.2 hw
      cases hc : checkedNeg n with
      | mk r ok =>
        rw [hc] at h
        simp only at h
        split at h
        · rename_i hok
          cases h
          have := checkedNeg_range hr (by rw [hc]; exact hok)
          rw [hc] at this
          simpa [Value.WF] using this
        · cases h
    | isEmpty =>
      simp only [eval] at h
      obtain ⟨b, _, h⟩ := bind_ok h
      cases h; exact bool_wf _
  | .binop op l r, env, v, hwf, hl, h => by
    simp only [Expr.All] at hl
    cases op with
    | and =>
      simp only [eval] at h
      obtain ⟨w, hw, h⟩ := bind_ok h
      obtain ⟨b, hb, h⟩ := bind_ok h
      split at h
      · cases h; exact eval_wf l env _ hwf hl.2.1 hw
      · obtain ⟨w2, hw2, h⟩ := bind_ok h
        obtain ⟨_, _, h⟩ := bind_ok h
        cases h; exact eval_wf r env _ hwf hl.2.2 hw2
    | or =>
      simp only [eval] at h
      obtain ⟨w, hw, h⟩ := bind_ok h
      obtain ⟨b, hb, h⟩ := bind_ok h
      split at h
      · cases h; exact eval_wf l env _ hwf hl.2.1 hw
      · obtain ⟨w2, hw2, h⟩ := bind_ok h
        obtain ⟨_, _, h⟩ := bind_ok h
        cases h; exact eval_wf r env _ hwf hl.2.2 hw2
    | eq | ne | contains | containsAll | containsAny =>
      simp only [eval] at h
      obtain ⟨_, _, h⟩ := bind_ok h
      obtain ⟨_, _, h⟩ := bind_ok h
      cases h; exact bool_wf _
    | lt | le | gt | ge =>
      simp only [eval] at h
      obtain ⟨_, _, h⟩ := bind_ok h
      obtain ⟨_, _, h⟩ := bind_ok h
      split at h
      · cases h; exact bool_wf _
      · cases h
    | add =>
      simp only [eval] at h
      obtain ⟨a, _, h⟩ := bind_ok h
      obtain ⟨b, _, h⟩ := bind_ok h
      have := checkedAdd_fst_range a b
      cases hc : checkedAdd a b with
      | mk x ok =>
        rw [hc] at h this
        simp only at h
        split at h
        · cases h; simpa [Value.WF] using this
        · cases h
    | sub =>
      simp only [eval] at h
      obtain ⟨a, _, h⟩ := bind_ok h
      obtain ⟨b, _, h⟩ := bind_ok h
      have := checkedSub_fst_range a b
      cases hc : checkedSub a b with
      | mk x ok =>
        rw [hc] at h this
        simp only at h
        split at h
        · cases h; simpa [Value.WF] using this
        · cases h
    | mul =>
      simp only [eval] at h
      obtain ⟨a, _, h⟩ := bind_ok h
      obtain ⟨b, _, h⟩ := bind_ok h
      have := checkedMul_fst_range a b
      cases hc : checkedMul a b with
      | mk x ok =>
        rw [hc] at h this
        simp only at h
        split at h
        · cases h; simpa [Value.WF] using this
        · cases h
    | in_ =>
      simp only [eval] at h
      obtain ⟨_, _, h⟩ := bind_ok h
      obtain ⟨_, _, h⟩ := bind_ok h
      obtain ⟨x, rfl⟩ := doIn_ok_bool h
      exact bool_wf _
    | getTag =>
      simp only [eval] at h
      obtain ⟨u, _, h⟩ := bind_ok h
      split at h
      · cases h
      · obtain ⟨t, _, h⟩ := bind_ok h
        split at h
        · cases h
        · rename_i d hd
          split at h
          · rename_i x hx
            cases h
            exact kvGet_wf hx (entity_tags_wf hwf hd)
          · cases h
    | hasTag =>
      simp only [eval] at h
      obtain ⟨u, _, h⟩ := bind_ok h
      obtain ⟨t, _, h⟩ := bind_ok h
      split at h <;> (cases h; exact bool_wf _)
  | .ite c t e, env, v, hwf, hl, h => by
    simp only [Expr.All] at hl
    simp only [eval] at h
    obtain ⟨b, _, h⟩ := bind_ok h
    split at h
    · exact eval_wf t env _ hwf hl.2.2.1 h
    · exact eval_wf e env _ hwf hl.2.2.2 h
  | .access e a, env, v, hwf, hl, h => by
    simp only [Expr.All] at hl
    simp only [eval] at h
    obtain ⟨w, hw, h⟩ := bind_ok h
    have hwwf := eval_wf e env _ hwf hl.2 hw
    split at h
    · split at h
      · cases h
      · split at h
        · cases h
        · rename_i d hd
          split at h
          · rename_i x hx; cases h; exact kvGet_wf hx (entity_attrs_wf hwf hd)
          · cases h
    · split at h
      · rename_i x hx; cases h
        simp only [Value.WF] at hwwf
        exact kvGet_wf hx hwwf
      · cases h
    · cases h
  | .has e a, env, v, hwf, hl, h => by
    simp only [eval] at h
    obtain ⟨w, hw, h⟩ := bind_ok h
    split at h
    · split at h <;> (cases h; exact bool_wf _)
    · cases h; exact bool_wf _
    · cases h
  | .like e p, env, v, hwf, hl, h => by
    simp only [eval] at h
    obtain ⟨_, _, h⟩ := bind_ok h
    cases h; exact bool_wf _
  | .is e ty, env, v, hwf, hl, h => by
    simp only [eval] at h
    obtain ⟨_, _, h⟩ := bind_ok h
    cases h; exact bool_wf _
  | .isIn e ty r, env, v, hwf, hl, h => by
    simp only [eval] at h
    obtain ⟨_, _, h⟩ := bind_ok h
    split at h
    · cases h; exact bool_wf _
    · obtain ⟨_, _, h⟩ := bind_ok h
      obtain ⟨x, rfl⟩ := doIn_ok_bool h
      exact bool_wf _
  | .set es, env, v, hwf, hl, h => by
    simp only [Expr.All] at hl
    simp only [eval] at h
    obtain ⟨vs, hvs, h⟩ := bind_ok h
    cases h
    exact mkSet_wf (evalList_wf es env vs hwf hl.2 hvs)
  | .record kes, env, v, hwf, hl, h => by
    simp only [Expr.All] at hl
    rw [eval_recordLit] at h
    obtain ⟨kvs, hkvs, h⟩ := ebind_ok h
    cases h
    have ih := evalKVs_wf kes env hwf hl.2
    exact mkRecord_wf (evalKVs_wf_of env _ kvs (fun ke hke => ih ke (canonKVs_subset kes ke hke)) hkvs)
  | .call fn args, env, v, hwf, hl, h => by
    simp only [Expr.All] at hl
    simp only [eval] at h
    split at h
    · obtain ⟨_, _, h⟩ := bind_ok h
      cases h
    · split at h
      · cases h
      · split at h
        · cases h
        · obtain ⟨vs, hvs, h⟩ := bind_ok h
          exact callExt_wf (evalTyped_wf args _ env vs hwf hl.2 hvs) h
theorem evalList_wf : ∀ (es : List Expr) (env : Env) (vs : List Value), env.WF → Expr.AllL litOK es →
    evalList es env = .ok vs → Value.WFL vs
  | [], _, vs, _, _, h => by simp only [evalList] at h; cases h; simp [Value.WFL]
  | e :: es, env, vs, hwf, hl, h => by
    simp only [Expr.AllL] at hl
    simp only [evalList] at h
    obtain ⟨v, hv, h⟩ := bind_ok h
    obtain ⟨vs', hvs', h⟩ := bind_ok h
    cases h
    exact ⟨eval_wf e env v hwf hl.1 hv, evalList_wf es env vs' hwf hl.2 hvs'⟩
theorem evalKVs_wf : ∀ (kes : List (String × Expr)) (env : Env), env.WF →
    Expr.AllKV litOK kes → ∀ ke ∈ kes, ∀ v, eval ke.2 env = .ok v → v.WF
  | [], _, _, _ => by intro ke h; cases h
  | (k, e) :: kes, env, hwf, hl => by
    simp only [Expr.AllKV] at hl
    intro ke h v hv
    rcases List.mem_cons.mp h with h | h
    · rw [h] at hv; exact eval_wf e env v hwf hl.1 hv
    · exact evalKVs_wf kes env hwf hl.2 ke h v hv
theorem evalTyped_wf : ∀ (es : List Expr) (ks : List Kind) (env : Env) (vs : List Value), env.WF →
    Expr.AllL litOK es → evalTyped es ks env = .ok vs → Value.WFL vs
  | [], _, _, vs, _, _, h => by simp only [evalTyped] at h; cases h; simp [Value.WFL]
  | e :: es, ks, env, vs, hwf, hl, h => by
    simp only [Expr.AllL] at hl
    simp only [evalTyped] at h
    obtain ⟨v, hv, h⟩ := bind_ok h
    obtain ⟨_, _, h⟩ := bind_ok h
    obtain ⟨vs', hvs', h⟩ := bind_ok h
    cases h
    exact ⟨eval_wf e env v hwf hl.1 hv, evalTyped_wf es ks.tail env vs' hwf hl.2 hvs'⟩
end

end C01L
end CedarGo
