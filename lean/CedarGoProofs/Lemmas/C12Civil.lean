import CedarGo.Model.Scalars

/-!
# Days-from-civil / civil-from-days (Hinnant) are mutually inverse

All statements are over unbounded `Int`.  The proofs reduce to one 400-year era and split the
day-of-era as `36524*c + 1461*q + 365*r + doy` (century, 4-year block, year in block, day of the
March-based year); every leaf is closed by `omega`.  `omega` is only ever called with the facts it
needs: the year-of-era quotient expression is kept out of the context when calling it.
-/

namespace CedarGo.Scalars

def validDate (y : Int) (m d : Nat) : Prop := 1 ≤ m ∧ m ≤ 12 ∧ 1 ≤ d ∧ d ≤ daysInMonth y m

theorem isLeap_iff (y : Int) :
    isLeap y = true ↔ (y % 4 = 0 ∧ y % 100 ≠ 0) ∨ y % 400 = 0 := by
  simp [isLeap]

/-! ## year of era -/

theorem yoe_spec (c q r doy doe : Int) (hc0 : 0 ≤ c) (hc1 : c ≤ 3) (hq0 : 0 ≤ q) (hq1 : q ≤ 24)
    (hr0 : 0 ≤ r) (hr1 : r ≤ 3) (hd0 : 0 ≤ doy) (hd1 : doy ≤ 365)
    (hleap : doy = 365 → r = 3 ∧ (q = 24 → c = 3))
    (hdoe : doe = 36524*c + 1461*q + 365*r + doy) :
    (doe - doe/1460 + doe/36524 - doe/146096)/365 = 100*c+4*q+r := by
  by_cases hmax : doe = 146096
  · have : c = 3 ∧ q = 24 ∧ r = 3 ∧ doy = 365 := by omega
    obtain ⟨rfl, rfl, rfl, rfl⟩ := this
    subst hdoe
    decide
  · have h3 : doe / 146096 = 0 := by omega
    have h2 : doe / 36524 = c := by omega
    have h1 : doe / 1460 = 25*c+q ∨ doe / 1460 = 25*c+q+1 := by omega
    rcases h1 with h1 | h1 <;> rw [h1, h2, h3] <;> omega

theorem era_split (doe : Int) (h0 : 0 ≤ doe) (h1 : doe < 146097) :
    ∃ c q r doy : Int, 0 ≤ c ∧ c ≤ 3 ∧ 0 ≤ q ∧ q ≤ 24 ∧ 0 ≤ r ∧ r ≤ 3 ∧ 0 ≤ doy ∧ doy ≤ 365 ∧
      (doy = 365 → r = 3 ∧ (q = 24 → c = 3)) ∧ doe = 36524*c + 1461*q + 365*r + doy := by
  by_cases hmax : doe = 146096
  · exact ⟨3, 24, 3, 365, by omega⟩
  · by_cases hq : (doe % 36524) % 1461 = 1460
    · exact ⟨doe / 36524, (doe % 36524) / 1461, 3, 365, by omega⟩
    · exact ⟨doe / 36524, (doe % 36524) / 1461, ((doe % 36524) % 1461) / 365,
        ((doe % 36524) % 1461) % 365, by omega⟩

/-- the year-of-era formula recovers the March-based year `yoe` from
`doe = yoe*365 + yoe/4 - yoe/100 + doy` -/
theorem yoe_formula (yoe doy doe : Int) (hy0 : 0 ≤ yoe) (hy1 : yoe ≤ 399) (hd0 : 0 ≤ doy)
    (hd1 : doy ≤ 365)
    (hleap : doy = 365 → (yoe + 1) % 4 = 0 ∧ ((yoe + 1) % 100 = 0 → yoe = 399))
    (hdoe : doe = yoe * 365 + yoe / 4 - yoe / 100 + doy) :
    0 ≤ doe ∧ doe < 146097 ∧ (doe - doe/1460 + doe/36524 - doe/146096)/365 = yoe := by
  obtain ⟨c, q, r, hc0, hc1, hq0, hq1, hr0, hr1, hy⟩ : ∃ c q r : Int, 0 ≤ c ∧ c ≤ 3 ∧ 0 ≤ q ∧
      q ≤ 24 ∧ 0 ≤ r ∧ r ≤ 3 ∧ yoe = 100*c+4*q+r := ⟨yoe/100, yoe%100/4, yoe%4, by omega⟩
  subst hy
  have h4 : (100*c+4*q+r)/4 = 25*c+q := by omega
  have h100 : (100*c+4*q+r)/100 = c := by omega
  rw [h4, h100] at hdoe
  have hleap' : doy = 365 → r = 3 ∧ (q = 24 → c = 3) := by
    intro h; have := hleap h; omega
  clear hleap h4 h100
  have hdoe' : doe = 36524*c + 1461*q + 365*r + doy := by omega
  have hlo : 0 ≤ doe := by omega
  have hhi : doe < 146097 := by
    by_cases h365 : doy = 365
    · have := hleap' h365; omega
    · omega
  exact ⟨hlo, hhi, yoe_spec c q r doy doe hc0 hc1 hq0 hq1 hr0 hr1 hd0 hd1 hleap' hdoe'⟩

/-! ## month / day of month -/

theorem month_fwd (doy mp d : Int) (h0 : 0 ≤ doy) (h1 : doy ≤ 365)
    (hmp : mp = (5*doy+2)/153) (hd : d = doy - (153*mp+2)/5 + 1) :
    0 ≤ mp ∧ mp ≤ 11 ∧ 1 ≤ d ∧
    (mp = 0 ∨ mp = 2 ∨ mp = 4 ∨ mp = 5 ∨ mp = 7 ∨ mp = 9 ∨ mp = 10 → d ≤ 31) ∧
    (mp = 1 ∨ mp = 3 ∨ mp = 6 ∨ mp = 8 → d ≤ 30) ∧
    (mp = 11 → d ≤ 29 ∧ (d = 29 → doy = 365)) := by
  have hmp' : mp = 0 ∨ mp = 1 ∨ mp = 2 ∨ mp = 3 ∨ mp = 4 ∨ mp = 5 ∨ mp = 6 ∨ mp = 7 ∨ mp = 8 ∨
      mp = 9 ∨ mp = 10 ∨ mp = 11 := by omega
  rcases hmp' with h|h|h|h|h|h|h|h|h|h|h|h <;> (subst h; omega)

theorem month_bwd (mp d doy : Int) (h0 : 0 ≤ mp) (h1 : mp ≤ 11) (hd0 : 1 ≤ d)
    (h31 : mp = 0 ∨ mp = 2 ∨ mp = 4 ∨ mp = 5 ∨ mp = 7 ∨ mp = 9 ∨ mp = 10 → d ≤ 31)
    (h30 : mp = 1 ∨ mp = 3 ∨ mp = 6 ∨ mp = 8 → d ≤ 30)
    (h29 : mp = 11 → d ≤ 29)
    (hdoy : doy = (153*mp+2)/5 + d - 1) :
    0 ≤ doy ∧ doy ≤ 365 ∧ (doy = 365 → mp = 11 ∧ d = 29) ∧ (5*doy+2)/153 = mp := by
  have hmp : mp = 0 ∨ mp = 1 ∨ mp = 2 ∨ mp = 3 ∨ mp = 4 ∨ mp = 5 ∨ mp = 6 ∨ mp = 7 ∨ mp = 8 ∨
      mp = 9 ∨ mp = 10 ∨ mp = 11 := by omega
  rcases hmp with h|h|h|h|h|h|h|h|h|h|h|h <;> (subst h; omega)

/-! ## the shape of `civilFromDays z` -/

theorem civilFromDays_core (z : Int) :
    ∃ era yoe doy mp d : Int,
      era = (z + 719468) / 146097 ∧
      z + 719468 = era * 146097 + (yoe * 365 + yoe / 4 - yoe / 100 + doy) ∧
      0 ≤ yoe ∧ yoe ≤ 399 ∧ 0 ≤ doy ∧ doy ≤ 365 ∧
      (doy = 365 → (yoe + 1) % 4 = 0 ∧ ((yoe + 1) % 100 = 0 → yoe = 399)) ∧
      mp = (5 * doy + 2) / 153 ∧ d = doy - (153 * mp + 2) / 5 + 1 ∧
      civilFromDays z =
        (if (if mp < 10 then mp + 3 else mp - 9) ≤ 2 then yoe + era * 400 + 1 else yoe + era * 400,
         (if mp < 10 then mp + 3 else mp - 9).toNat, d.toNat) := by
  obtain ⟨c, q, r, doy, hc0, hc1, hq0, hq1, hr0, hr1, hd0, hd1, hleap, hdoe⟩ :=
    era_split (z + 719468 - (z + 719468) / 146097 * 146097) (by omega) (by omega)
  have h4 : (100*c+4*q+r)/4 = 25*c+q := by omega
  have h100 : (100*c+4*q+r)/100 = c := by omega
  have hdoy : z + 719468 - (z + 719468) / 146097 * 146097 -
      (365 * (100*c+4*q+r) + (100*c+4*q+r) / 4 - (100*c+4*q+r) / 100) = doy := by
    rw [h4, h100]; omega
  have hz : z + 719468 = (z + 719468) / 146097 * 146097 +
      ((100*c+4*q+r) * 365 + (100*c+4*q+r) / 4 - (100*c+4*q+r) / 100 + doy) := by
    rw [h4, h100]; omega
  have hl : doy = 365 → (100*c+4*q+r + 1) % 4 = 0 ∧
      ((100*c+4*q+r + 1) % 100 = 0 → 100*c+4*q+r = 399) := by
    intro h; have := hleap h; omega
  have hy0 : 0 ≤ 100*c+4*q+r := by omega
  have hy1 : 100*c+4*q+r ≤ 399 := by omega
  have hy := yoe_spec c q r doy _ hc0 hc1 hq0 hq1 hr0 hr1 hd0 hd1 hleap hdoe
  refine ⟨(z + 719468) / 146097, 100*c+4*q+r, doy, (5 * doy + 2) / 153,
    doy - (153 * ((5 * doy + 2) / 153) + 2) / 5 + 1, rfl, hz, hy0, hy1, hd0, hd1,
    hl, rfl, rfl, ?_⟩
  simp only [civilFromDays]
  rw [hy, hdoy]


/-- re-computation: any decomposition of `z` into era / March-based year / day of year is the one
`civilFromDays` finds -/
theorem civilFromDays_of (z era yoe doy : Int)
    (hz : z + 719468 = era * 146097 + (yoe * 365 + yoe / 4 - yoe / 100 + doy))
    (hy0 : 0 ≤ yoe) (hy1 : yoe ≤ 399) (hd0 : 0 ≤ doy) (hd1 : doy ≤ 365)
    (hleap : doy = 365 → (yoe + 1) % 4 = 0 ∧ ((yoe + 1) % 100 = 0 → yoe = 399)) :
    civilFromDays z =
      (if (if (5 * doy + 2) / 153 < 10 then (5 * doy + 2) / 153 + 3 else (5 * doy + 2) / 153 - 9) ≤ 2
        then yoe + era * 400 + 1 else yoe + era * 400,
       (if (5 * doy + 2) / 153 < 10 then (5 * doy + 2) / 153 + 3 else (5 * doy + 2) / 153 - 9).toNat,
       (doy - (153 * ((5 * doy + 2) / 153) + 2) / 5 + 1).toNat) := by
  generalize hdoe : yoe * 365 + yoe / 4 - yoe / 100 + doy = doe at hz
  have hdoy : doe - (365 * yoe + yoe / 4 - yoe / 100) = doy := by omega
  obtain ⟨hlo, hhi, hf⟩ := yoe_formula yoe doy doe hy0 hy1 hd0 hd1 hleap hdoe.symm
  clear hdoe hleap
  have hera : (z + 719468) / 146097 = era := by omega
  have hdoe' : z + 719468 - era * 146097 = doe := by omega
  simp only [civilFromDays]
  rw [hera, hdoe', hf, hdoy]

/-- `isLeap` of the civil year following the March-based year `yoe` of era `era` -/
theorem isLeap_next (era yoe : Int) (hy0 : 0 ≤ yoe) (hy1 : yoe ≤ 399) :
    isLeap (yoe + era * 400 + 1) = true ↔
      ((yoe + 1) % 4 = 0 ∧ ((yoe + 1) % 100 = 0 → yoe = 399)) := by
  rw [isLeap_iff]; omega

/-! ## main theorems -/

theorem civilFromDays_valid (z : Int) :
    validDate (civilFromDays z).1 (civilFromDays z).2.1 (civilFromDays z).2.2 := by
  obtain ⟨era, yoe, doy, mp, d, -, -, hy0, hy1, hd0, hd1, hleap, hmp, hd, hciv⟩ :=
    civilFromDays_core z
  obtain ⟨hm0, hm1, hdd, h31, h30, h29⟩ := month_fwd doy mp d hd0 hd1 hmp hd
  have hl := isLeap_next era yoe hy0 hy1
  rw [hciv]
  clear hciv hmp hd
  have hmp' : mp = 0 ∨ mp = 1 ∨ mp = 2 ∨ mp = 3 ∨ mp = 4 ∨ mp = 5 ∨ mp = 6 ∨ mp = 7 ∨ mp = 8 ∨
      mp = 9 ∨ mp = 10 ∨ mp = 11 := by omega
  rcases hmp' with h|h|h|h|h|h|h|h|h|h|h|h <;> subst h <;> simp [validDate, daysInMonth]
  all_goals first | omega | skip
  by_cases hL : isLeap (yoe + era * 400 + 1) = true
  · rw [if_pos hL]; omega
  · have hn := mt hl.2 hL
    rw [if_neg hL]; omega

/-- `daysFromCivil` with the era / year-of-era / shifted month made explicit -/
theorem daysFromCivil_eq (y : Int) (m d : Nat) (era yoe mp : Int)
    (hy : (if m ≤ 2 then y - 1 else y) = yoe + era * 400) (hy0 : 0 ≤ yoe) (hy1 : yoe ≤ 399)
    (hmp : (if m > 2 then (m : Int) - 3 else (m : Int) + 9) = mp) :
    daysFromCivil y m d =
      era * 146097 + (yoe * 365 + yoe / 4 - yoe / 100 + ((153 * mp + 2) / 5 + (d : Int) - 1))
        - 719468 := by
  have he : (yoe + era * 400) / 400 = era := by omega
  have hyoe : yoe + era * 400 - era * 400 = yoe := by omega
  simp only [daysFromCivil]
  rw [hy, hmp, he, hyoe]

theorem daysFromCivil_civilFromDays (z : Int) :
    daysFromCivil (civilFromDays z).1 (civilFromDays z).2.1 (civilFromDays z).2.2 = z := by
  obtain ⟨era, yoe, doy, mp, d, -, hz, hy0, hy1, hd0, hd1, -, hmp, hd, hciv⟩ :=
    civilFromDays_core z
  obtain ⟨hm0, hm1, hdd, -, -, -⟩ := month_fwd doy mp d hd0 hd1 hmp hd
  rw [hciv]
  simp only []
  rw [daysFromCivil_eq _ _ _ era yoe mp ?_ hy0 hy1 ?_]
  · omega
  · by_cases h10 : mp < 10
    · simp only [h10, if_true]
      repeat' split
      all_goals omega
    · simp only [h10, if_false]
      repeat' split
      all_goals omega
  · by_cases h10 : mp < 10
    · simp only [h10, if_true]
      repeat' split
      all_goals omega
    · simp only [h10, if_false]
      repeat' split
      all_goals omega

theorem civilFromDays_year_bounds (z : Int) :
    (z + 719468) / 146097 * 400 ≤ (civilFromDays z).1 ∧
      (civilFromDays z).1 ≤ (z + 719468) / 146097 * 400 + 400 := by
  obtain ⟨era, yoe, doy, mp, d, hera, -, hy0, hy1, -, -, -, -, -, hciv⟩ := civilFromDays_core z
  rw [hciv, ← hera]
  simp only []
  split <;> omega

/-- what `validDate` says in terms of the shifted month `mp` (March = 0) -/
theorem validDate_mp (y : Int) (m d : Nat) (h : validDate y m d) (mp : Int)
    (hmp : (if m > 2 then (m : Int) - 3 else (m : Int) + 9) = mp) :
    0 ≤ mp ∧ mp ≤ 11 ∧ 1 ≤ (d : Int) ∧
    (mp = 0 ∨ mp = 2 ∨ mp = 4 ∨ mp = 5 ∨ mp = 7 ∨ mp = 9 ∨ mp = 10 → (d : Int) ≤ 31) ∧
    (mp = 1 ∨ mp = 3 ∨ mp = 6 ∨ mp = 8 → (d : Int) ≤ 30) ∧
    (mp = 11 → (d : Int) ≤ 29 ∧ ((d : Int) = 29 → isLeap y = true)) ∧
    (if mp < 10 then mp + 3 else mp - 9) = (m : Int) ∧ (m ≤ 2 ↔ 10 ≤ mp) := by
  obtain ⟨hm1, hm12, hd1, hdm⟩ := h
  have hm : m = 1 ∨ m = 2 ∨ m = 3 ∨ m = 4 ∨ m = 5 ∨ m = 6 ∨ m = 7 ∨ m = 8 ∨ m = 9 ∨ m = 10 ∨
      m = 11 ∨ m = 12 := by omega
  rcases hm with h|h|h|h|h|h|h|h|h|h|h|h <;> subst h <;> subst hmp <;>
    simp [daysInMonth] at hdm ⊢
  all_goals first | omega | skip
  by_cases hL : isLeap y = true
  · rw [if_pos hL] at hdm; exact ⟨by omega, by omega, fun _ => hL⟩
  · rw [if_neg hL] at hdm; exact ⟨by omega, by omega, fun _ => by omega⟩

theorem civilFromDays_daysFromCivil (y : Int) (m d : Nat) (h : validDate y m d) :
    civilFromDays (daysFromCivil y m d) = (y, m, d) := by
  generalize hy' : (if m ≤ 2 then y - 1 else y) = y'
  have hyoe0 : 0 ≤ y' - y' / 400 * 400 := by omega
  have hyoe1 : y' - y' / 400 * 400 ≤ 399 := by omega
  generalize y' / 400 = era at hyoe0 hyoe1
  generalize hyoe : y' - era * 400 = yoe at hyoe0 hyoe1
  generalize hmp : (if m > 2 then (m : Int) - 3 else (m : Int) + 9) = mp
  obtain ⟨hm0, hm1, hd1, h31, h30, h29, hm, hm2⟩ := validDate_mp y m d h mp hmp
  have hdfc := daysFromCivil_eq y m d era yoe mp (by omega) hyoe0 hyoe1 hmp
  generalize hdoy : (153 * mp + 2) / 5 + (d : Int) - 1 = doy at hdfc
  obtain ⟨hdoy0, hdoy1, hdoy365, hmp'⟩ :=
    month_bwd mp d doy hm0 hm1 hd1 h31 h30 (fun h => (h29 h).1) hdoy.symm
  have hleap : doy = 365 → (yoe + 1) % 4 = 0 ∧ ((yoe + 1) % 100 = 0 → yoe = 399) := by
    intro h365
    obtain ⟨h11, hd29⟩ := hdoy365 h365
    have hL := (h29 h11).2 hd29
    have hy : y = yoe + era * 400 + 1 := by
      have : m ≤ 2 := hm2.2 (by omega)
      rw [if_pos this] at hy'; omega
    rw [hy] at hL
    exact (isLeap_next era yoe hyoe0 hyoe1).1 hL
  rw [civilFromDays_of (daysFromCivil y m d) era yoe doy (by omega) hyoe0 hyoe1 hdoy0 hdoy1 hleap]
  rw [hmp', hm]
  have hd : (doy - (153 * mp + 2) / 5 + 1).toNat = d := by omega
  rw [hd]
  simp only [Int.toNat_natCast, Prod.mk.injEq, and_true]
  split <;> split at hy' <;> omega

end CedarGo.Scalars
