/-
  C12 helper lemmas: own decimal digit functions (`natDigits`, `digitsVal`, `padLeft`) on `List Char`.
-/
import CedarGo.Model.Scalars
namespace CedarGo.Scalars

/-- decidable equality of parser results, so that concrete evaluations can be checked by `decide +kernel` -/
instance : DecidableEq (Except Err Int) := fun a b =>
  match a, b with
  | .ok x, .ok y => if h : x = y then isTrue (by rw [h]) else isFalse (by intro e; injection e with e; exact h e)
  | .error x, .error y => if h : x = y then isTrue (by rw [h]) else isFalse (by intro e; injection e with e; exact h e)
  | .ok _, .error _ => isFalse (by intro e; cases e)
  | .error _, .ok _ => isFalse (by intro e; cases e)

/-! ### digit characters -/

theorem isDig_digitChar : ∀ d, d < 10 → isDig (digitChar d) = true := by decide
theorem digVal_digitChar : ∀ d, d < 10 → digVal (digitChar d) = d := by decide
theorem digitChar_eq_zero : ∀ d, d < 10 → (digitChar d = '0' ↔ d = 0) := by decide
theorem digitChar_zero : digitChar 0 = '0' := by decide

/-- a digit character is none of the punctuation / unit / sign characters the parsers look for -/
theorem isDig_ne {c : Char} (h : isDig c = true) :
    c ≠ '.' ∧ c ≠ '-' ∧ c ≠ '+' ∧ c ≠ 'd' ∧ c ≠ 'h' ∧ c ≠ 'm' ∧ c ≠ 's' ∧ c ≠ 'T' ∧ c ≠ 'Z' ∧ c ≠ ':' := by
  simp only [isDig, Bool.and_eq_true, decide_eq_true_eq] at h
  refine ⟨?_, ?_, ?_, ?_, ?_, ?_, ?_, ?_, ?_, ?_⟩ <;> (intro e; subst e; revert h; decide)


/-! ### `natDigits` -/

theorem natDigitsF_fuel : ∀ (f g n : Nat), n < f → n < g → natDigitsF f n = natDigitsF g n := by
  intro f
  induction f with
  | zero => intro g n h; omega
  | succ f ih =>
    intro g n hf hg
    cases g with
    | zero => omega
    | succ g =>
      simp only [natDigitsF]
      split
      · rfl
      · rw [ih g (n / 10) (by omega) (by omega)]

theorem natDigits_lt {n : Nat} (h : n < 10) : natDigits n = [digitChar n] := by
  simp [natDigits, natDigitsF, h]

theorem natDigits_ge {n : Nat} (h : 10 ≤ n) : natDigits n = natDigits (n / 10) ++ [digitChar (n % 10)] := by
  have h' : ¬ n < 10 := by omega
  show natDigitsF (n + 1) n = natDigitsF (n / 10 + 1) (n / 10) ++ [digitChar (n % 10)]
  rw [show natDigitsF (n + 1) n = (if n < 10 then [digitChar n] else natDigitsF n (n / 10) ++ [digitChar (n % 10)]) from rfl,
    if_neg h', natDigitsF_fuel n (n / 10 + 1) (n / 10) (by omega) (by omega)]

/-- induction principle following the digit recursion -/
theorem natDigits_induction {P : Nat → Prop} (base : ∀ n, n < 10 → P n)
    (step : ∀ n, 10 ≤ n → P (n / 10) → P n) : ∀ n, P n := by
  intro n
  induction n using Nat.strongRecOn with
  | _ n ih =>
    by_cases h : n < 10
    · exact base n h
    · exact step n (by omega) (ih (n / 10) (by omega))

theorem digitsVal_append_single (ds : List Char) (c : Char) :
    digitsVal (ds ++ [c]) = digitsVal ds * 10 + digVal c := by
  simp [digitsVal, List.foldl_append]

/-- `ofDigits (digits n) = n` -/
theorem digitsVal_natDigits : ∀ n, digitsVal (natDigits n) = n := by
  apply natDigits_induction
  · intro n h; rw [natDigits_lt h]; simp [digitsVal, digVal_digitChar n h]
  · intro n h ih
    rw [natDigits_ge h, digitsVal_append_single, ih, digVal_digitChar _ (Nat.mod_lt _ (by omega))]
    omega

theorem all_isDig_natDigits : ∀ n, (natDigits n).all isDig = true := by
  apply natDigits_induction
  · intro n h; rw [natDigits_lt h]; simp [isDig_digitChar n h]
  · intro n h ih
    rw [natDigits_ge h, List.all_append, ih]; simp [isDig_digitChar _ (Nat.mod_lt n (by omega : 0 < 10))]

theorem natDigits_ne_nil : ∀ n, natDigits n ≠ [] := by
  apply natDigits_induction
  · intro n h; rw [natDigits_lt h]; simp
  · intro n h _; rw [natDigits_ge h]; simp

theorem allDigits_natDigits (n : Nat) : allDigits (natDigits n) = true := by
  simp [allDigits, all_isDig_natDigits, natDigits_ne_nil]

/-- no leading zero (except for `0` itself) -/
theorem natDigits_head : ∀ n, ∃ c rest, natDigits n = c :: rest ∧ isDig c = true ∧ (c = '0' → n = 0) := by
  apply natDigits_induction
  · intro n h
    exact ⟨digitChar n, [], natDigits_lt h, isDig_digitChar n h, fun e => (digitChar_eq_zero n h).1 e⟩
  · intro n h ih
    obtain ⟨c, rest, e, hd, hz⟩ := ih
    refine ⟨c, rest ++ [digitChar (n % 10)], by rw [natDigits_ge h, e]; rfl, hd, fun e0 => ?_⟩
    have := hz e0; omega

theorem natDigits_length_le : ∀ (k n : Nat), 0 < k → n < 10 ^ k → (natDigits n).length ≤ k := by
  intro k
  induction k with
  | zero => intro n h; omega
  | succ k ih =>
    intro n _ hn
    by_cases h : n < 10
    · rw [natDigits_lt h]; simp
    · rw [natDigits_ge (by omega)]
      have hk : 0 < k := by
        rcases k with _ | k
        · simp at hn; omega
        · omega
      have : n / 10 < 10 ^ k := by
        rw [Nat.pow_succ] at hn; omega
      have := ih (n / 10) hk this
      simp; omega


/-! ### zero padding (`%0kd`) and fixed-width fields -/

theorem digitsVal_zeros (j : Nat) (ds : List Char) : digitsVal (List.replicate j '0' ++ ds) = digitsVal ds := by
  have hz : ∀ j, List.foldl (fun acc c => acc * 10 + digVal c) 0 (List.replicate j '0') = 0 := by
    intro j; induction j with
    | zero => rfl
    | succ j ih => rw [List.replicate_succ, List.foldl_cons]; simpa [digVal] using ih
  simp [digitsVal, List.foldl_append, hz]

theorem padL_spec (k n : Nat) (hk : 0 < k) (h : n < 10 ^ k) :
    (padL k n).length = k ∧ (padL k n).all isDig = true ∧ digitsVal (padL k n) = n := by
  have hl := natDigits_length_le k n hk h
  refine ⟨?_, ?_, ?_⟩
  · simp [padL, padLeft]; omega
  · simp only [padL, padLeft, List.all_append, all_isDig_natDigits, Bool.and_true]
    simp [isDig]
  · simp [padL, padLeft, digitsVal_zeros, digitsVal_natDigits]

theorem allDigits_of {ds : List Char} (h1 : ds.length ≠ 0) (h2 : ds.all isDig = true) : allDigits ds = true := by
  cases ds with
  | nil => simp at h1
  | cons c cs => simp [allDigits] at *; exact h2

/-- `parseUint(s, n, max)` on a field of exactly `n` digits followed by anything -/
theorem takeUint_append (ds rest : List Char) (n max : Nat) (hn : ds.length = n) (h0 : n ≠ 0)
    (hd : ds.all isDig = true) (hv : digitsVal ds ≤ max) :
    takeUint (ds ++ rest) n max = some (digitsVal ds, rest) := by
  subst hn
  have : allDigits ds = true := allDigits_of h0 hd
  simp [takeUint, this, hv]

theorem takeUint_padL (k n max : Nat) (rest : List Char) (hk : 0 < k) (h : n < 10 ^ k) (hm : n ≤ max) :
    takeUint (padL k n ++ rest) k max = some (n, rest) := by
  obtain ⟨h1, h2, h3⟩ := padL_spec k n hk h
  have := takeUint_append (padL k n) rest k max h1 (by omega) h2 (by omega)
  rw [this, h3]

/-- the first character of a padded field is a digit -/
theorem padL_head (k n : Nat) (hk : 0 < k) (h : n < 10 ^ k) :
    ∃ c rest, padL k n = c :: rest ∧ isDig c = true := by
  obtain ⟨h1, h2, _⟩ := padL_spec k n hk h
  cases hp : padL k n with
  | nil => rw [hp] at h1; simp at h1; omega
  | cons c rest => rw [hp] at h2; simp at h2; exact ⟨c, rest, rfl, h2.1⟩

end CedarGo.Scalars
