/-
  C17, text half (part B) — resolution commutes with the normalisation the text trip applies:
  `resolve (normSchema s) = resolve s` for every key-sorted schema (`KeysSorted`) in which no built-in type name is
  shadowed ambiguously and no explicit entity reference is captured (`ResolvesAlike`); both hypotheses are decidable
  (C17TextResolveA.lean).
-/
import CedarGoProofs.Lemmas.C17TextResolveA
namespace CedarGo.Schema.TextResolve
open CedarGo.Schema

/-! ## what `Sim` preserves -/

section
variable {r' r : RState}

theorem Sim.isEntity (h : Sim r' r) (n : String) : r'.isEntity n = r.isEntity n := by
  unfold RState.isEntity
  rw [h.ent, h.enum]

theorem Sim.nsOf (h : Sim r' r) (p : String) : r'.nsOf p = r.nsOf p := by
  unfold RState.nsOf
  rw [h.cns]

theorem Sim.isSome (h : Sim r' r) (p : String) : (r'.common? p).isSome = (r.common? p).isSome := by
  cases hc : r.common? p with
  | none => rw [h.cnone p hc]
  | some b =>
    obtain ⟨sh, h1, _⟩ := h.csome p b hc
    rw [h1]
    rfl

theorem Sim.path (h : Sim r' r) (ns ref : String) : resolveTypeRefPath r' ns ref = resolveTypeRefPath r ns ref := by
  unfold resolveTypeRefPath
  rw [h.isSome]

theorem Sim.fuel (h : Sim r' r) : r'.fuel = r.fuel := by
  unfold RState.fuel
  have := congrArg List.length h.keys
  simp only [List.length_map] at this
  rw [this]

theorem Sim.nodes (h : Sim r' r) : r'.nodes = r.nodes := by
  unfold RState.nodes
  rw [h.keys]

theorem Sim.entRef (h : Sim r' r) (ns ref : String) : resolveEntityTypeRef r' ns ref = resolveEntityTypeRef r ns ref := by
  unfold resolveEntityTypeRef
  simp only [h.isEntity]

theorem nameGood_iff (r : RState) (ns p : String) (tgt : RefTarget) (h : nameGood r ns p tgt = true) :
    lookupTypeRef r ns p = tgt ∧ (r.common? (resolveTypeRefPath r ns p)).isSome = false := by
  simpa [nameGood] using h

theorem entityRef_good (r : RState) (ns : String) (sh : List String) (n : String) (h : tyGood r ns sh (.entityRef n) = true) :
    ∃ et, resolveEntityTypeRef r ns n = .ok et ∧ lookupTypeRef r ns n = .entity et ∧
      (r.common? (resolveTypeRefPath r ns n)).isSome = false := by
  unfold tyGood at h
  split at h
  · rename_i et he
    exact ⟨et, he, nameGood_iff _ _ _ _ h⟩
  · cases h

/-! ## phase 3: the dependency graph of the common types is the same -/

mutual
theorem refs_nTy (F : String → Option String) (r : RState) (ns : String) (sh : List String)
    (hF : ∀ ref, (r.common? (resolveTypeRefPath r ns ref)).isSome = false → F ref = none) :
    ∀ t, tyGood r ns sh t = true → (collectTypeRefs (nTy sh t)).filterMap F = (collectTypeRefs t).filterMap F
  | .string, h => by
    simp only [tyGood] at h
    simp [nTy, collectTypeRefs, hF _ (nameGood_iff _ _ _ _ h).2]
  | .long, h => by
    simp only [tyGood] at h
    simp [nTy, collectTypeRefs, hF _ (nameGood_iff _ _ _ _ h).2]
  | .bool, h => by
    simp only [tyGood] at h
    simp [nTy, collectTypeRefs, hF _ (nameGood_iff _ _ _ _ h).2]
  | .ext n, h => by
    simp only [tyGood, Bool.and_eq_true] at h
    simp [nTy, collectTypeRefs, hF _ (nameGood_iff _ _ _ _ h.2).2]
  | .entityRef n, h => by
    obtain ⟨et, _, _, h3⟩ := entityRef_good r ns sh n h
    simp [nTy, collectTypeRefs, hF _ h3]
  | .typeRef n, _ => by simp [nTy]
  | .set e, h => by
    simp only [tyGood] at h
    simp only [nTy, collectTypeRefs]
    exact refs_nTy F r ns sh hF e h
  | .record as, h => by
    simp only [tyGood] at h
    simp only [nTy, collectTypeRefs]
    exact refs_nAttrs F r ns sh hF as h
theorem refs_nAttrs (F : String → Option String) (r : RState) (ns : String) (sh : List String)
    (hF : ∀ ref, (r.common? (resolveTypeRefPath r ns ref)).isSome = false → F ref = none) :
    ∀ as, attrsGood r ns sh as = true → (collectAttrRefs (nAttrs sh as)).filterMap F = (collectAttrRefs as).filterMap F
  | .nil, _ => by simp [nAttrs]
  | .cons n o a t rest, h => by
    simp only [attrsGood, Bool.and_eq_true] at h
    simp only [nAttrs, collectAttrRefs, List.filterMap_append, refs_nTy F r ns sh hF t h.1, refs_nAttrs F r ns sh hF rest h.2]
end

theorem Sim.deps (h : Sim r' r) : r'.deps = r.deps := by
  funext name
  unfold RState.deps
  cases hc : r.common? name with
  | none => rw [h.cnone name hc]
  | some body =>
    obtain ⟨sh, h1, h2⟩ := h.csome name body hc
    rw [h1]
    unfold depsOf
    simp only [h.nsOf, h.path, h.isSome]
    apply refs_nTy _ r (r.nsOf name) sh _ body h2
    intro ref hr
    simp [hr]

theorem Sim.cycles (h : Sim r' r) : detectCycles r' = detectCycles r := by
  unfold detectCycles kahnRun
  rw [h.nodes, h.deps]

/-! ## phase 4: type references -/

theorem Sim.lookup (h : Sim r' r) (ns ref : String) :
    match lookupTypeRef r ns ref with
    | .common ns' body => ∃ sh, lookupTypeRef r' ns ref = .common ns' (nTy sh body) ∧ tyGood r ns' sh body = true
    | t => lookupTypeRef r' ns ref = t := by
  have e1 : ∀ p, (r.common? p = none ∧ r'.common? p = none) ∨
      ∃ b sh, r.common? p = some b ∧ r'.common? p = some (nTy sh b) ∧ tyGood r (r.nsOf p) sh b = true := by
    intro p
    cases hc : r.common? p with
    | none => exact .inl ⟨rfl, h.cnone p hc⟩
    | some b =>
      obtain ⟨sh, h1, h2⟩ := h.csome p b hc
      exact .inr ⟨b, sh, rfl, h1, h2⟩
  unfold lookupTypeRef
  simp only [h.isEntity, h.nsOf]
  by_cases hs : hasSep ref = true
  · simp only [hs, if_true]
    cases cedarSuffix ref with
    | some b =>
      simp only
      cases lookupBuiltin b <;> simp
    | none =>
      simp only
      rcases e1 ref with ⟨a1, a2⟩ | ⟨b, sh, a1, a2, a3⟩
      · rw [a1, a2]
        simp only
        by_cases he : r.isEntity ref = true <;> simp [he]
      · rw [a1, a2]
        exact ⟨sh, rfl, a3⟩
  · simp only [hs, Bool.false_eq_true, if_false]
    have tail : match (match r.common? ref with
          | some ct => RefTarget.common (r.nsOf ref) ct
          | none => if r.isEntity ref = true then RefTarget.entity ref
            else match lookupBuiltin ref with
              | some t => RefTarget.builtin t
              | none => RefTarget.undefined RErr.undefinedType) with
        | .common ns' body => ∃ sh, (match r'.common? ref with
            | some ct => RefTarget.common (r.nsOf ref) ct
            | none => if r.isEntity ref = true then RefTarget.entity ref
              else match lookupBuiltin ref with
                | some t => RefTarget.builtin t
                | none => RefTarget.undefined RErr.undefinedType) = .common ns' (nTy sh body) ∧ tyGood r ns' sh body = true
        | t => (match r'.common? ref with
            | some ct => RefTarget.common (r.nsOf ref) ct
            | none => if r.isEntity ref = true then RefTarget.entity ref
              else match lookupBuiltin ref with
                | some t => RefTarget.builtin t
                | none => RefTarget.undefined RErr.undefinedType) = t := by
      rcases e1 ref with ⟨a1, a2⟩ | ⟨b, sh, a1, a2, a3⟩
      · rw [a1, a2]
        simp only
        by_cases he : r.isEntity ref = true
        · simp [he]
        · simp only [he, Bool.false_eq_true, if_false]
          cases lookupBuiltin ref <;> simp
      · rw [a1, a2]
        exact ⟨sh, rfl, a3⟩
    by_cases hns : ns = ""
    · simp only [hns, ne_eq, not_true_eq_false, if_false, false_and]
      exact tail
    · simp only [ne_eq, hns, not_false_eq_true, if_true, true_and]
      rcases e1 (ns ++ "::" ++ ref) with ⟨a1, a2⟩ | ⟨b, sh, a1, a2, a3⟩
      · rw [a1, a2]
        simp only
        by_cases he : r.isEntity (ns ++ "::" ++ ref) = true
        · simp [he]
        · simp only [he, Bool.false_eq_true, if_false]
          exact tail
      · rw [a1, a2]
        exact ⟨sh, rfl, a3⟩

theorem Sim.typeRef_builtin (h : Sim r' r) (k' : String → Ty → Fuelled RTy) (ns p : String) (rt : RTy)
    (hl : lookupTypeRef r ns p = .builtin rt) : resolveTyWith r' k' ns (.typeRef p) = some (.ok rt) := by
  have := h.lookup ns p
  rw [hl] at this
  simp only at this
  unfold resolveTyWith
  rw [this]

theorem Sim.typeRef_entity (h : Sim r' r) (k' : String → Ty → Fuelled RTy) (ns p et : String)
    (hl : lookupTypeRef r ns p = .entity et) : resolveTyWith r' k' ns (.typeRef p) = some (.ok (.entity et)) := by
  have := h.lookup ns p
  rw [hl] at this
  simp only at this
  unfold resolveTyWith
  rw [this]

theorem knownExt_builtin (n : String) (h : knownExt n = true) : lookupBuiltin n = some (.ext n) := by
  simp only [knownExt, Bool.or_eq_true, decide_eq_true_eq] at h
  rcases h with ((rfl | rfl) | rfl) | rfl <;> decide +kernel

mutual
theorem Sim.ty_eq (h : Sim r' r) (k' k : String → Ty → Fuelled RTy)
    (hk : ∀ ns' sh' body, tyGood r ns' sh' body = true → k' ns' (nTy sh' body) = k ns' body) (ns : String) (sh : List String) :
    ∀ t, tyGood r ns sh t = true → resolveTyWith r' k' ns (nTy sh t) = resolveTyWith r k ns t
  | .string, hg => by
    simp only [tyGood] at hg
    rw [nTy, h.typeRef_builtin k' ns _ _ (nameGood_iff _ _ _ _ hg).1, resolveTyWith]
  | .long, hg => by
    simp only [tyGood] at hg
    rw [nTy, h.typeRef_builtin k' ns _ _ (nameGood_iff _ _ _ _ hg).1, resolveTyWith]
  | .bool, hg => by
    simp only [tyGood] at hg
    rw [nTy, h.typeRef_builtin k' ns _ _ (nameGood_iff _ _ _ _ hg).1, resolveTyWith]
  | .ext n, hg => by
    simp only [tyGood, Bool.and_eq_true] at hg
    rw [nTy, h.typeRef_builtin k' ns _ _ (nameGood_iff _ _ _ _ hg.2).1, resolveTyWith]
    simp only [knownExt_builtin n hg.1, if_true]
  | .entityRef n, hg => by
    obtain ⟨et, h1, h2, _⟩ := entityRef_good r ns sh n hg
    rw [nTy, h.typeRef_entity k' ns _ _ h2, resolveTyWith, h1]
  | .typeRef n, _ => by
    rw [nTy]
    have := h.lookup ns n
    unfold resolveTyWith
    cases hl : lookupTypeRef r ns n with
    | common ns' body =>
      rw [hl] at this
      obtain ⟨sh', g1, g2⟩ := this
      rw [g1]
      exact hk ns' sh' body g2
    | entity et => rw [hl] at this; simp only at this; rw [this]
    | builtin t => rw [hl] at this; simp only at this; rw [this]
    | undefined x => rw [hl] at this; simp only at this; rw [this]
  | .set e, hg => by
    simp only [tyGood] at hg
    rw [nTy, resolveTyWith, resolveTyWith, h.ty_eq k' k hk ns sh e hg]
  | .record as, hg => by
    simp only [tyGood] at hg
    rw [nTy, resolveTyWith, resolveTyWith, h.attrs_eq k' k hk ns sh as hg]
theorem Sim.attrs_eq (h : Sim r' r) (k' k : String → Ty → Fuelled RTy)
    (hk : ∀ ns' sh' body, tyGood r ns' sh' body = true → k' ns' (nTy sh' body) = k ns' body) (ns : String) (sh : List String) :
    ∀ as, attrsGood r ns sh as = true → resolveAttrsWith r' k' ns (nAttrs sh as) = resolveAttrsWith r k ns as
  | .nil, _ => by rw [nAttrs, resolveAttrsWith, resolveAttrsWith]
  | .cons n o a t rest, hg => by
    simp only [attrsGood, Bool.and_eq_true] at hg
    rw [nAttrs, resolveAttrsWith, resolveAttrsWith, h.ty_eq k' k hk ns sh t hg.1, h.attrs_eq k' k hk ns sh rest hg.2]
end

theorem Sim.tyFuel_eq (h : Sim r' r) : ∀ (fuel : Nat) (ns : String) (sh : List String) (t : Ty),
    tyGood r ns sh t = true → resolveTypeFuel r' fuel ns (nTy sh t) = resolveTypeFuel r fuel ns t
  | 0, _, _, _, _ => rfl
  | fuel + 1, ns, sh, t, hg => by
    unfold resolveTypeFuel
    exact h.ty_eq _ _ (fun ns' sh' body hb => h.tyFuel_eq fuel ns' sh' body hb) ns sh t hg

theorem Sim.attrsFuel_eq (h : Sim r' r) (fuel : Nat) (ns : String) (sh : List String) (as : Attrs)
    (hg : attrsGood r ns sh as = true) : resolveAttrsFuel r' fuel ns (nAttrs sh as) = resolveAttrsFuel r fuel ns as := by
  unfold resolveAttrsFuel
  cases fuel with
  | zero => rfl
  | succ fuel =>
    exact h.attrs_eq _ _ (fun ns' sh' body hb => h.tyFuel_eq fuel ns' sh' body hb) ns sh as hg

/-! ## phase 4: declarations -/

theorem fmapM_map {α β γ} (g : α → β) (f' : β → Fuelled γ) (f : α → Fuelled γ) :
    ∀ l : List α, (∀ a ∈ l, f' (g a) = f a) → fmapM f' (l.map g) = fmapM f l
  | [], _ => rfl
  | a :: l, h => by
    simp only [List.map_cons, fmapM]
    rw [h a (by simp), fmapM_map g f' f l (fun b hb => h b (by simp [hb]))]

theorem Sim.entity_eq (h : Sim r' r) (ns : String) (sh : List String) (name : String) (e : Entity)
    (hg : (optAttrs (attrsGood r ns sh) e.shape && optTy (tyGood r ns sh) e.tags) = true) :
    resolveEntity r' ns name (nEntity sh e) = resolveEntity r ns name e := by
  obtain ⟨anns, parents, shape, tags⟩ := e
  simp only [Bool.and_eq_true] at hg
  unfold resolveEntity
  simp only [nEntity, h.entRef, h.fuel]
  cases shape with
  | none =>
    cases tags with
    | none => rfl
    | some t => simp only [Option.map_none, Option.map_some, h.tyFuel_eq _ ns sh t hg.2]
  | some as =>
    cases tags with
    | none => simp only [Option.map_none, Option.map_some, h.attrsFuel_eq _ ns sh as hg.1]
    | some t =>
      simp only [Option.map_some, h.attrsFuel_eq _ ns sh as hg.1, h.tyFuel_eq _ ns sh t hg.2]

theorem Sim.action_eq (h : Sim r' r) (ns : String) (sh : List String) (name : String) (a : Action)
    (hg : optTy (tyGood r ns sh) (ctxOf a) = true) :
    resolveAction r' ns name (nAction sh a) = resolveAction r ns name a := by
  obtain ⟨anns, parents, appliesTo⟩ := a
  unfold resolveAction
  simp only [nAction, h.entRef, h.fuel]
  cases appliesTo with
  | none => rfl
  | some ap =>
    obtain ⟨ps, rs, ctx⟩ := ap
    cases ctx with
    | none => rfl
    | some t =>
      simp only [ctxOf, optTy] at hg
      simp only [Option.map_some, nAppliesTo, h.tyFuel_eq _ ns sh t hg]

theorem Sim.namespace_eq (h : Sim r' r) (ns : String) (sh : List String) (anns : Anns) (d : Namespace) (acc : RSchema)
    (hg : declsAll (tyGood r ns sh) (attrsGood r ns sh) d = true) :
    resolveNamespace r' ns (nDecls sh anns d) acc = resolveNamespace r ns d acc := by
  simp only [declsAll, Bool.and_eq_true, List.all_eq_true] at hg
  obtain ⟨⟨_, g1⟩, g2⟩ := hg
  unfold resolveNamespace
  simp only [nDecls]
  rw [fmapM_map (fun e : String × Entity => (e.1, nEntity sh e.2)) _
      (fun e => fbind (resolveEntity r ns e.1 e.2) fun re => some (.ok (qualify ns e.1, re))) d.entities
      (fun e he => by simp only [h.entity_eq ns sh e.1 e.2 (by simpa only [Bool.and_eq_true] using g1 e he)]),
    fmapM_map (fun a : String × Action => (a.1, nAction sh a.2)) _
      (fun a => fbind (resolveAction r ns a.1 a.2) fun ra => some (.ok (ra.uid, ra))) d.actions
      (fun a ha => by simp only [h.action_eq ns sh a.1 a.2 (g2 a ha)])]

theorem Sim.namespaces_eq (h : Sim r' r) (shB : List String) : ∀ (nss : List (String × Namespace)) (acc : RSchema),
    (∀ nd ∈ nss, declsAll (tyGood r nd.1 (declNames nd.2 ++ shB)) (attrsGood r nd.1 (declNames nd.2 ++ shB)) nd.2 = true) →
    resolveNamespaces r' (nss.map fun nd => (nd.1, nDecls (declNames nd.2 ++ shB) nd.2.anns nd.2)) acc =
      resolveNamespaces r nss acc
  | [], _, _ => rfl
  | (n, d) :: rest, acc, hg => by
    simp only [List.map_cons, resolveNamespaces]
    have e1 : (nDecls (declNames d ++ shB) d.anns d).anns = d.anns := rfl
    rw [e1, h.namespace_eq n _ d.anns d _ (hg (n, d) (by simp))]
    congr 1
    funext acc'
    exact h.namespaces_eq shB rest acc' (fun nd hnd => hg nd (by simp [hnd]))

end

/-! ## the theorem -/

theorem checkShadowing_nSchema (s : Schema) : checkShadowing (nSchema s) = checkShadowing s := by
  have k1 : (nSchema s).bare.entities.map (·.1) = s.bare.entities.map (·.1) := by
    simp [nSchema, nDecls, Function.comp_def]
  have k2 : (nSchema s).bare.enums = s.bare.enums := rfl
  have k3 : (nSchema s).bare.commonTypes.map (·.1) = s.bare.commonTypes.map (·.1) := by
    simp [nSchema, nDecls, Function.comp_def]
  have k4 : (nSchema s).bare.actions.map (·.1) = s.bare.actions.map (·.1) := by
    simp [nSchema, nDecls, Function.comp_def]
  have k5 : (nSchema s).namespaces =
      s.namespaces.map fun nd => (nd.1, nDecls (declNames nd.2 ++ declNames s.bare) nd.2.anns nd.2) := rfl
  unfold checkShadowing
  simp only [k1, k2, k3, k4, k5, List.any_map, Function.comp_def, nDecls]

theorem fbind_ok {α β} (a : α) (f : α → Fuelled β) : fbind (flift (.ok a)) f = f a := rfl

theorem resolve_nSchema (s : Schema) (hr : ResolvesAlike s = true) : resolve (nSchema s) = resolve s := by
  have h1 := registerAll_sim s hr
  unfold resolve
  rw [checkShadowing_nSchema]
  cases hreg : registerAll s with
  | error e =>
    rw [hreg] at h1
    simp only at h1
    rw [h1]
    rfl
  | ok r =>
    rw [hreg] at h1
    obtain ⟨r', g1, g2⟩ := h1
    obtain ⟨b1, b2⟩ := resolvesAlike_ok s r hreg hr
    have e1 : (nSchema s).bare = nDecls (declNames s.bare) [] s.bare := rfl
    have e2 : (nSchema s).namespaces =
        s.namespaces.map fun nd => (nd.1, nDecls (declNames nd.2 ++ declNames s.bare) nd.2.anns nd.2) := rfl
    have e3 := fun acc => g2.namespaces_eq (declNames s.bare) s.namespaces acc b2
    rw [g1, fbind_ok, fbind_ok, g2.cycles, e1, e2, g2.namespace_eq "" _ [] s.bare _ b1]
    simp only [e3]

/-- **Resolution commutes with the normalisation the text trip applies**: for a key-sorted schema (`KeysSorted`, the
    representation invariant of the model) in which every built-in type node and every explicit entity reference denotes
    the same thing when read back as the name it is printed under (`ResolvesAlike`), the schema and its text normal form
    resolve alike — to the same resolved schema or to the same error. -/
theorem resolve_normSchema (s : Schema) (hs : KeysSorted s = true) (hr : ResolvesAlike s = true) :
    resolve (normSchema s) = resolve s := by
  rw [normSchema_eq s hs]
  exact resolve_nSchema s hr

/-! ## non-vacuity, and what the hypotheses exclude -/

local instance {ε α} [DecidableEq ε] [DecidableEq α] : DecidableEq (Except ε α)
  | .ok a, .ok b => if h : a = b then isTrue (by rw [h]) else isFalse (by intro h'; cases h'; exact h rfl)
  | .error a, .error b => if h : a = b then isTrue (by rw [h]) else isFalse (by intro h'; cases h'; exact h rfl)
  | .ok _, .error _ => isFalse (by intro h; cases h)
  | .error _, .ok _ => isFalse (by intro h; cases h)

/-- ```
    type Ctx = { ip: ipaddr, who: User, n?: __cedar::Long };
    entity Long;
    @a @b("1") entity User in [NS::Group] { flag: Bool, @k("v") name: String, nested: { s: Set<__cedar::Long> } } tags Set<String>;
    @doc("ns") namespace NS {
      type Inner = { x: __cedar::Long };   // NS declares no `Long`, the empty namespace does
      type T = Other::U;
      entity Bool;
      entity Group tags __cedar::Bool;      // the primitive, next to the entity type NS::Bool
      action "view" appliesTo { principal: User, resource: Group, context: T };
    }
    namespace Other { type U = { a: Ctx, g: NS::Group, i: NS::Inner }; }
    ```
    (plus annotations on the empty namespace, which the text form drops) -/
def exSchema : Schema where
  bare := {
    anns := [("dropped", "x")]
    entities := [("Long", {}),
                 ("User", { anns := [("a", ""), ("b", "1")], parents := ["NS::Group"],
                            shape := some (.cons "flag" false [] .bool (.cons "name" false [("k", "v")] .string
                              (.cons "nested" false [] (.record (.cons "s" false [] (.set .long) .nil)) .nil))),
                            tags := some (.set .string) })]
    commonTypes := [("Ctx", { ty := .record (.cons "ip" false [] (.ext "ipaddr") (.cons "who" false [] (.entityRef "User")
                                (.cons "n" true [] .long .nil))) })] }
  namespaces := [
    ("NS", { anns := [("doc", "ns")]
             entities := [("Bool", {}), ("Group", { tags := some .bool })]
             commonTypes := [("Inner", { ty := .record (.cons "x" false [] .long .nil) }), ("T", { ty := .typeRef "Other::U" })]
             actions := [("view", { appliesTo := some { principals := ["User"], resources := ["Group"], context := some (.typeRef "T") } })] }),
    ("Other", { commonTypes := [("U", { ty := .record (.cons "a" false [] (.typeRef "Ctx") (.cons "g" false [] (.entityRef "NS::Group")
                                  (.cons "i" false [] (.typeRef "NS::Inner") .nil))) })] })]

/-- the hypotheses of `resolve_normSchema` hold for `exSchema`, the normalisation changes it, it resolves, and (checked
    by evaluation, independently of the theorem) both sides of the conclusion agree -/
example : KeysSorted exSchema = true ∧ ResolvesAlike exSchema = true ∧ normSchema exSchema ≠ exSchema ∧
    (match resolve exSchema with | some (.ok _) => true | _ => false) = true ∧
    resolve (normSchema exSchema) = resolve exSchema := by decide +kernel

example : resolve (normSchema exSchema) = resolve exSchema :=
  resolve_normSchema exSchema (by decide +kernel) (by decide +kernel)

/-- the primitive `Long` of `NS::Inner` and of `User.nested.s` come back as references to `__cedar::Long`, the
    primitive `Bool` of `NS::Group` as `__cedar::Bool`, the one of `User.flag` as `Bool` -/
example : ((normSchema exSchema).namespaces.lookup "NS").map
      (fun d => ((d.commonTypes.lookup "Inner").map (·.ty), (d.entities.lookup "Group").map (·.tags))) =
      some (some (.record (.cons "x" false [] (.typeRef "__cedar::Long") .nil)), some (some (.typeRef "__cedar::Bool"))) ∧
    ((normSchema exSchema).bare.entities.lookup "User").map (·.shape) =
      some (some (.cons "flag" false [] (.typeRef "Bool") (.cons "name" false [("k", "v")] (.typeRef "String")
        (.cons "nested" false [] (.record (.cons "s" false [] (.set (.typeRef "__cedar::Long")) .nil)) .nil)))) := by
  decide +kernel

/-- **what `ResolvesAlike` excludes** (each schema is key-sorted; the text normal form resolves DIFFERENTLY):
    * an explicit entity reference `X` where a common type `X` is in scope (the open finding
      `entity-ref-rendered-as-ambiguous-name`, `C17_print_entity_ref_counterexample`);
    * an explicit entity reference to an undeclared type (`undefinedEntity` for the node, `undefinedType` for the name);
    * an extension node with an unknown name (`unknownExtension` for the node, `undefinedType` for the name);
    * a common type `Long` in a namespace called `__cedar` whose body mentions the primitive `Long`: the printed name
      `__cedar::Long` is a self-edge of the dependency graph (cycle) -/
example :
    let bad1 : Schema := { bare := { entities := [("X", {}), ("Y", { shape := some (.cons "b" false [] (.entityRef "X") .nil) })],
                                     commonTypes := [("X", { ty := .long })] } }
    let bad2 : Schema := { bare := { entities := [("Y", { shape := some (.cons "b" false [] (.entityRef "X") .nil) })] } }
    let bad3 : Schema := { bare := { entities := [("Y", { tags := some (.ext "nope") })] } }
    let bad4 : Schema := { namespaces := [("__cedar", { commonTypes := [("Long", { ty := .set .long })] })] }
    [bad1, bad2, bad3, bad4].all (fun s => KeysSorted s && !ResolvesAlike s && decide (resolve (normSchema s) ≠ resolve s)) = true := by
  decide +kernel

/-- …and what it does NOT exclude: schemas that fail to resolve (both sides fail alike), e.g. one name declared as
    entity type and as enum, or an undefined type reference -/
example :
    let s1 : Schema := { bare := { entities := [("A", { tags := some (.ext "nope") })], enums := [("A", {})] } }
    let s2 : Schema := { bare := { entities := [("A", { tags := some (.set (.typeRef "Nope")) })] } }
    [s1, s2].all (fun s => KeysSorted s && ResolvesAlike s && decide (resolve (normSchema s) = resolve s) &&
      (match resolve s with | some (.error _) => true | _ => false)) = true := by
  decide +kernel

end CedarGo.Schema.TextResolve
