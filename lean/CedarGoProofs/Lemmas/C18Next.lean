/-
  C18: the buffered scanner refines the bufferless scanner `IState`.
  Core invariant (`Core`):  srcBuf[srcPos..srcEnd] ++ (bytes the reader has not delivered yet) = remaining input,
  srcBufOffset + srcPos = offset;  tokBuf ++ srcBuf[tokPos..srcPos] ++ remaining = input from the token start.
-/
import CedarGoProofs.Lemmas.C18Utf8
import CedarGoProofs.Lemmas.C18Buf
import CedarGoProofs.Lemmas.C18Inc
import CedarGoProofs.Lemmas.C18Sim
namespace CedarGo.Text.Lx

/-- the unread window of the source buffer -/
def ScanState.window (s : ScanState) : List UInt8 := slice s.srcBuf s.srcPos s.srcEnd

/-- token-text part of the invariant -/
def TokInv (s : ScanState) (i : IState) : Prop :=
  match s.tokPos, i.tokStart with
  | none, none => True
  | some tp, some st =>
    tp ≤ s.srcPos ∧ s.tokBuf ++ slice s.srcBuf tp s.srcPos ++ i.rest = i.doc.drop st ∧
      st + s.tokBuf.length + (s.srcPos - tp) = i.off
  | _, _ => False

/-- buffer part of the invariant -/
structure Core (bufLen : Nat) (s : ScanState) (i : IState) : Prop where
  hlen : s.srcBuf.length = bufLen + 1
  hpe : s.srcPos ≤ s.srcEnd
  heb : s.srcEnd ≤ bufLen
  hsent : s.srcBuf.getD s.srcEnd 0 = 0x80
  hwin : s.window ++ s.rd.bytes = i.rest
  hoff : s.srcBufOffset + s.srcPos = i.off
  hfin : (s.rd.final == .fail) = i.fails
  htok : TokInv s i
  hfuel : s.rd.measure < s.readFuel

/-- the full relation between the buffered scanner and the bufferless one -/
structure Rel (bufLen : Nat) (s : ScanState) (i : IState) : Prop extends Core bufLen s i where
  hlcl : s.lastCharLen = i.lastCharLen
  hlp : s.lastCharLen ≤ s.srcPos
  htl : ∀ tp, s.tokPos = some tp → tp + s.lastCharLen ≤ s.srcPos
  hline : s.line = i.line
  hcol : s.column = i.column
  hlll : s.lastLineLen = i.lastLineLen
  hposn : s.position = i.position
  herr : s.err = i.err
  hdoc : i.rest = i.doc.drop i.off
  hlast : slice s.srcBuf (s.srcPos - s.lastCharLen) s.srcPos ++ i.rest = i.doc.drop (i.off - i.lastCharLen)

variable {bufLen : Nat}

theorem Rel.error {s i} (h : Rel bufLen s i) (e : LexErr) : Rel bufLen (s.error e) { i with err := some e } := by
  obtain ⟨⟨a1, a2, a3, a4, a5, a6, a7, a8, a9⟩, b1, b2, b3, b4, b5, b6, b7, b8, b9, b10⟩ := h
  exact ⟨⟨a1, a2, a3, a4, a5, a6, a7, a8, a9⟩, b1, b2, b3, b4, b5, b6, b7, rfl, b9, b10⟩

theorem Rel.tokKill {s i} (h : Rel bufLen s i) :
    Rel bufLen s.tokKill { i with tokStart := none, position := { i.position with line := 0 } } := by
  obtain ⟨⟨a1, a2, a3, a4, a5, a6, a7, a8, a9⟩, b1, b2, b3, b4, b5, b6, b7, b8, b9, b10⟩ := h
  refine ⟨⟨a1, a2, a3, a4, a5, a6, a7, ?_, a9⟩, b1, b2, ?_, b4, b5, b6, ?_, b8, b9, b10⟩
  · simp [TokInv, ScanState.tokKill]
  · intro tp h; simp [ScanState.tokKill] at h
  · simp [ScanState.tokKill, b7]

theorem Rel.tokMark {s i} (h : Rel bufLen s i) : Rel bufLen s.tokMark i.tokMark := by
  obtain ⟨⟨a1, a2, a3, a4, a5, a6, a7, a8, a9⟩, b1, b2, b3, b4, b5, b6, b7, b8, b9, b10⟩ := h
  have hpos : s.srcBufOffset + (s.srcPos - s.lastCharLen) = i.off - i.lastCharLen := by omega
  have htok : TokInv { s with tokBuf := [], tokPos := some (s.srcPos - s.lastCharLen) }
      { i with tokStart := some (i.off - i.lastCharLen) } := by
    simp only [TokInv, List.nil_append, List.length_nil]
    exact ⟨by omega, b10, by omega⟩
  unfold ScanState.tokMark IState.tokMark
  by_cases hc : s.column > 0
  · have hc' : i.column > 0 := b5 ▸ hc
    simp only [hc, hc', if_true]
    refine ⟨⟨a1, a2, a3, a4, a5, a6, a7, htok, a9⟩, b1, b2, ?_, b4, b5, b6, ?_, b8, b9, b10⟩
    · intro tp ht; dsimp only at ht ⊢; simp only [Option.some.injEq] at ht; omega
    · dsimp only; rw [hpos, b4, b5]
  · have hc' : ¬ i.column > 0 := b5 ▸ hc
    simp only [hc, hc', if_false]
    refine ⟨⟨a1, a2, a3, a4, a5, a6, a7, htok, a9⟩, b1, b2, ?_, b4, b5, b6, ?_, b8, b9, b10⟩
    · intro tp ht; dsimp only at ht ⊢; simp only [Option.some.injEq] at ht; omega
    · dsimp only; rw [hpos, b4, b6]

theorem Rel.tokEnd {s i} (h : Rel bufLen s i) :
    s.tokEndText.1 = i.tokEnd.1 ∧ Rel bufLen s.tokEndText.2 i := by
  obtain ⟨⟨a1, a2, a3, a4, a5, a6, a7, a8, a9⟩, b1, b2, b3, b4, b5, b6, b7, b8, b9, b10⟩ := h
  unfold ScanState.tokEndText ScanState.tokenText IState.tokEnd
  unfold TokInv at a8
  cases hp : s.tokPos with
  | none =>
    cases hs : i.tokStart with
    | none =>
      dsimp only
      exact ⟨by rw [b7], ⟨a1, a2, a3, a4, a5, a6, a7, by simp [TokInv, hp, hs], a9⟩, b1, b2, by simp [hp], b4, b5, b6, b7, b8, b9, b10⟩
    | some st => simp [hp, hs] at a8
  | some tp =>
    cases hs : i.tokStart with
    | none => simp [hp, hs] at a8
    | some st =>
      simp only [hp, hs] at a8
      obtain ⟨t1, t2, t3⟩ := a8
      have hle := b3 tp hp
      have hte : tp ≤ s.srcPos - s.lastCharLen := by omega
      have hsl : (slice s.srcBuf tp (s.srcPos - s.lastCharLen)).length = s.srcPos - s.lastCharLen - tp :=
        slice_length _ _ _ (by omega)
      have hsplit := slice_append_slice s.srcBuf tp (s.srcPos - s.lastCharLen) s.srcPos hte (by omega)
      have htext : (i.doc.drop st).take (i.off - i.lastCharLen - st) = s.tokBuf ++ slice s.srcBuf tp (s.srcPos - s.lastCharLen) := by
        rw [← t2, ← hsplit]
        have : i.off - i.lastCharLen - st = (s.tokBuf ++ slice s.srcBuf tp (s.srcPos - s.lastCharLen)).length := by
          rw [List.length_append, hsl]; omega
        rw [this]
        simp only [List.append_assoc]
        rw [← List.append_assoc, List.take_left']
        rfl
      dsimp only
      split
      · rename_i he
        have he' : s.tokBuf = [] := by simpa using he
        refine ⟨?_, ⟨a1, a2, a3, a4, a5, a6, a7, ?_, a9⟩, b1, b2, ?_, b4, b5, b6, b7, b8, b9, b10⟩
        · rw [htext, he', b7]; rfl
        · simp only [TokInv, hp, hs]; exact ⟨t1, t2, t3⟩
        · intro tp' ht; dsimp only at ht ⊢; cases ht; exact hle
      · refine ⟨?_, ⟨a1, a2, a3, a4, a5, a6, a7, ?_, a9⟩, b1, b2, ?_, b4, b5, b6, b7, b8, b9, b10⟩
        · rw [htext, b7]
        · simp only [TokInv, hs]
          refine ⟨by omega, ?_, ?_⟩
          · rw [← t2, ← hsplit]; simp only [List.append_assoc]
          · rw [List.length_append, hsl]; omega
        · intro tp' ht; dsimp only at ht ⊢; cases ht; omega

/-- the three buffer writes of one refill iteration -/
theorem refill_buffer (buf w data : List UInt8) (n : Nat) (hn : w.length + data.length + 1 ≤ buf.length) :
    let b3 := writeAt (writeAt (writeAt buf 0 w) w.length data) (w.length + data.length) [0x80]
    b3.length = buf.length ∧ slice b3 0 (w.length + data.length) = w ++ data ∧ b3.getD (w.length + data.length) 0 = 0x80 := by
  have l1 : (writeAt buf 0 w).length = buf.length := writeAt_length _ _ _ (by omega)
  have l2 : (writeAt (writeAt buf 0 w) w.length data).length = buf.length := by
    rw [writeAt_length _ _ _ (by omega), l1]
  refine ⟨?_, ?_, ?_⟩
  · rw [writeAt_length _ _ _ (by simp; omega), l2]
  · rw [slice_zero, take_writeAt_le _ _ _ _ (Nat.le_refl _) (by omega), take_writeAt_end _ _ _ (by omega)]
    congr 1
    have := take_writeAt_end buf 0 w (by omega)
    simpa using this
  · exact getD_writeAt _ _ _ _ (by omega)

theorem Core.refillStep {s i} (h : Core bufLen s i) (hc : s.srcPos + 4 > s.srcEnd) (hb : 4 ≤ bufLen) :
    Core bufLen (s.refillStep bufLen).1 i ∧ (s.refillStep bufLen).1.srcPos = 0 ∧
    (s.refillStep bufLen).1.window = s.window ++ (s.rd.read (bufLen - (s.srcEnd - s.srcPos))).1 ∧
    (s.refillStep bufLen).1.rd = (s.rd.read (bufLen - (s.srcEnd - s.srcPos))).2.2 ∧
    (s.refillStep bufLen).2 = (s.rd.read (bufLen - (s.srcEnd - s.srcPos))).2.1 ∧
    (s.refillStep bufLen).1.line = s.line ∧ (s.refillStep bufLen).1.column = s.column ∧
    (s.refillStep bufLen).1.lastLineLen = s.lastLineLen ∧ (s.refillStep bufLen).1.lastCharLen = s.lastCharLen ∧
    (s.refillStep bufLen).1.position = s.position ∧ (s.refillStep bufLen).1.err = s.err ∧
    ((s.refillStep bufLen).1.tokPos = none ↔ s.tokPos = none) := by
  obtain ⟨a1, a2, a3, a4, a5, a6, a7, a8, a9⟩ := h
  have hwl : s.window.length = s.srcEnd - s.srcPos := slice_length _ _ _ (by omega)
  have hrl := Reader.read_length s.rd (bufLen - (s.srcEnd - s.srcPos))
  have hrb := Reader.read_bytes s.rd (bufLen - (s.srcEnd - s.srcPos))
  have hrf := Reader.read_final s.rd (bufLen - (s.srcEnd - s.srcPos))
  have hbuf := refill_buffer s.srcBuf s.window (s.rd.read (bufLen - (s.srcEnd - s.srcPos))).1 0 (by omega)
  rw [hwl] at hbuf
  obtain ⟨hb1, hb2, hb3⟩ := hbuf
  cases hp : s.tokPos with
  | none =>
    have e : s.refillStep bufLen = ({ s with
        rd := (s.rd.read (bufLen - (s.srcEnd - s.srcPos))).2.2,
        srcBuf := writeAt (writeAt (writeAt s.srcBuf 0 s.window) (s.srcEnd - s.srcPos) (s.rd.read (bufLen - (s.srcEnd - s.srcPos))).1)
          (s.srcEnd - s.srcPos + (s.rd.read (bufLen - (s.srcEnd - s.srcPos))).1.length) [0x80],
        srcPos := 0, srcEnd := s.srcEnd - s.srcPos + (s.rd.read (bufLen - (s.srcEnd - s.srcPos))).1.length,
        srcBufOffset := s.srcBufOffset + s.srcPos }, (s.rd.read (bufLen - (s.srcEnd - s.srcPos))).2.1) := by
      simp [ScanState.refillStep, hp, ScanState.window]
    rw [e]
    refine ⟨⟨by simpa using hb1.trans a1, by simp, by dsimp only; omega, hb3, ?_, a6, by dsimp only; rw [hrf]; exact a7, ?_, Nat.lt_of_le_of_lt (Reader.read_measure_le _ _) a9⟩,
      rfl, hb2, rfl, rfl, rfl, rfl, rfl, rfl, rfl, rfl, by simp [hp]⟩
    · show slice _ 0 _ ++ _ = _
      rw [hb2, List.append_assoc, hrb]; exact a5
    · unfold TokInv at a8 ⊢
      simp only [hp] at a8 ⊢
      cases hs : i.tokStart with
      | none => trivial
      | some st => simp [hs] at a8
  | some tp =>
    have e : s.refillStep bufLen = ({ s with
        tokBuf := s.tokBuf ++ slice s.srcBuf tp s.srcPos, tokPos := some 0,
        rd := (s.rd.read (bufLen - (s.srcEnd - s.srcPos))).2.2,
        srcBuf := writeAt (writeAt (writeAt s.srcBuf 0 s.window) (s.srcEnd - s.srcPos) (s.rd.read (bufLen - (s.srcEnd - s.srcPos))).1)
          (s.srcEnd - s.srcPos + (s.rd.read (bufLen - (s.srcEnd - s.srcPos))).1.length) [0x80],
        srcPos := 0, srcEnd := s.srcEnd - s.srcPos + (s.rd.read (bufLen - (s.srcEnd - s.srcPos))).1.length,
        srcBufOffset := s.srcBufOffset + s.srcPos }, (s.rd.read (bufLen - (s.srcEnd - s.srcPos))).2.1) := by
      simp [ScanState.refillStep, hp, ScanState.window]
    rw [e]
    refine ⟨⟨by simpa using hb1.trans a1, by simp, by dsimp only; omega, hb3, ?_, a6, by dsimp only; rw [hrf]; exact a7, ?_, Nat.lt_of_le_of_lt (Reader.read_measure_le _ _) a9⟩,
      rfl, hb2, rfl, rfl, rfl, rfl, rfl, rfl, rfl, rfl, by simp [hp]⟩
    · show slice _ 0 _ ++ _ = _
      rw [hb2, List.append_assoc, hrb]; exact a5
    · unfold TokInv at a8 ⊢
      simp only [hp] at a8 ⊢
      cases hs : i.tokStart with
      | none => simp [hs] at a8
      | some st =>
        simp only [hs] at a8 ⊢
        obtain ⟨t1, t2, t3⟩ := a8
        refine ⟨Nat.le_refl _, ?_, ?_⟩
        · rw [slice_self, List.append_nil]; exact t2
        · rw [List.length_append, slice_length _ _ _ (by omega)]; omega

/-- what the refill loop of `next` establishes -/
structure RefillPost (bufLen : Nat) (s : ScanState) (i : IState) (r : ScanState × Bool) : Prop where
  core : Core bufLen r.1 i
  line : r.1.line = s.line
  lll : r.1.lastLineLen = s.lastLineLen
  posn : r.1.position = s.position
  tokn : r.1.tokPos = none ↔ s.tokPos = none
  eof : r.2 = true → i.rest = [] ∧ r.1.srcPos = 0 ∧ r.1.lastCharLen = 0 ∧
    r.1.column = (if s.lastCharLen > 0 then s.column + 1 else s.column) ∧
    r.1.err = (if i.fails then some .read else s.err)
  more : r.2 = false → r.1.column = s.column ∧ r.1.lastCharLen = s.lastCharLen ∧ r.1.window ≠ [] ∧
    (fullRune r.1.window = true ∨ r.1.rd.bytes = []) ∧ (r.1.err = s.err ∨ fullRune r.1.window = false)

theorem window_nil_of {s : ScanState} (h : s.srcPos = s.srcEnd) : s.window = [] := by
  simp [ScanState.window, h, slice_self]

theorem Core.refillLoop (hb : 4 ≤ bufLen) : ∀ (f : Nat) {s : ScanState} {i : IState}, Core bufLen s i →
    s.rd.measure < f → RefillPost bufLen s i (s.refillLoop bufLen f) := by
  intro f
  induction f with
  | zero => intro s i _ hm; omega
  | succ f ih =>
    intro s i h hm
    have hwl : s.window.length = s.srcEnd - s.srcPos := slice_length _ _ _ (by have := h.heb; have := h.hlen; omega)
    unfold ScanState.refillLoop
    split
    · rename_i hcond
      simp only [Bool.and_eq_true, Bool.not_eq_true'] at hcond
      have hc : s.srcPos + 4 > s.srcEnd := of_decide_eq_true hcond.1
      have hnf : fullRune s.window = false := hcond.2
      obtain ⟨c1, c2, c3, c4, c5, c6, c7, c8, c9, c10, c11, c12⟩ := Core.refillStep h hc hb
      have hm1 : 1 ≤ bufLen - (s.srcEnd - s.srcPos) := by omega
      have hwl' : (s.refillStep bufLen).1.window.length = (s.refillStep bufLen).1.srcEnd := by
        have := slice_length (s.refillStep bufLen).1.srcBuf (s.refillStep bufLen).1.srcPos (s.refillStep bufLen).1.srcEnd
          (by have := c1.heb; have := c1.hlen; omega)
        rw [c2] at this; simpa [ScanState.window, c2] using this
      dsimp only
      cases he : (s.refillStep bufLen).2 with
      | none =>
        -- err == nil: loop again
        rw [c5] at he
        have hdec := Reader.read_measure _ _ hm1 he
        rw [← c4] at hdec
        obtain ⟨p1, p2, p3, p4, p5, p6, p7⟩ := ih c1 (by omega)
        refine ⟨p1, by rw [p2, c6], by rw [p3, c8], by rw [p4, c10], by rw [p5, c12], ?_, ?_⟩
        · intro he; have := p6 he; rw [c9, c7, c11] at this; exact this
        · intro he; have := p7 he; rw [c9, c7, c11] at this; exact this
      | eof =>
        have hbytes : (s.refillStep bufLen).1.rd.bytes = [] := by
          rw [c4]; exact Reader.read_err_bytes _ _ (by rw [← c5, he]; simp)
        have hfails : i.fails = false := by
          have := Reader.read_eof _ _ (c5 ▸ he)
          rw [← h.hfin]; simpa using this
        simp only [show (ReadErr.eof == ReadErr.fail) = false from rfl, Bool.false_eq_true, if_false]
        split
        · rename_i h0
          have h0 : (s.refillStep bufLen).1.srcEnd = 0 := by simpa using h0
          have hw0 : (s.refillStep bufLen).1.window = [] := List.eq_nil_of_length_eq_zero (hwl'.trans h0)
          have hrest : i.rest = [] := by rw [← c1.hwin, hw0, hbytes]; rfl
          refine ⟨?_, ?_, c8, c10, c12, ?_, fun hh => by simp at hh⟩
          · obtain ⟨a1, a2, a3, a4, a5, a6, a7, a8, a9⟩ := c1
            exact ⟨a1, a2, a3, a4, a5, a6, a7, a8, a9⟩
          · exact c6
          · intro _
            refine ⟨hrest, c2, rfl, ?_, ?_⟩
            · dsimp only; rw [c9, c7]
            · dsimp only; rw [hfails, c11]; rfl
        · rename_i h0
          have h0 : (s.refillStep bufLen).1.srcEnd ≠ 0 := by simpa using h0
          refine ⟨c1, c6, c8, c10, c12, fun hh => by simp at hh, fun _ => ⟨c7, c9, ?_, Or.inr hbytes, Or.inl c11⟩⟩
          intro hw; rw [hw] at hwl'; simp at hwl'; omega
      | fail =>
        have hbytes : (s.refillStep bufLen).1.rd.bytes = [] := by
          rw [c4]; exact Reader.read_err_bytes _ _ (by rw [← c5, he]; simp)
        obtain ⟨hff, hdata⟩ := Reader.read_fail _ _ (c5 ▸ he)
        have hfails : i.fails = true := by rw [← h.hfin, hff]; rfl
        have hwin' : (s.refillStep bufLen).1.window = s.window := by rw [c3, hdata, List.append_nil]
        simp only [show (ReadErr.fail == ReadErr.fail) = true from rfl, if_true]
        split
        · rename_i h0
          have h0 : (s.refillStep bufLen).1.srcEnd = 0 := by simpa [ScanState.error] using h0
          have hw0 : (s.refillStep bufLen).1.window = [] := List.eq_nil_of_length_eq_zero (hwl'.trans h0)
          have hrest : i.rest = [] := by rw [← c1.hwin, hw0, hbytes]; rfl
          refine ⟨?_, ?_, c8, c10, c12, ?_, fun hh => by simp at hh⟩
          · obtain ⟨a1, a2, a3, a4, a5, a6, a7, a8, a9⟩ := c1
            exact ⟨a1, a2, a3, a4, a5, a6, a7, a8, a9⟩
          · exact c6
          · intro _
            refine ⟨hrest, c2, rfl, ?_, ?_⟩
            · show (if (s.refillStep bufLen).1.lastCharLen > 0 then (s.refillStep bufLen).1.column + 1 else (s.refillStep bufLen).1.column) = _
              rw [c9, c7]
            · show some LexErr.read = _
              rw [hfails]; rfl
        · rename_i h0
          have h0 : (s.refillStep bufLen).1.srcEnd ≠ 0 := by simpa [ScanState.error] using h0
          obtain ⟨a1, a2, a3, a4, a5, a6, a7, a8, a9⟩ := c1
          refine ⟨⟨a1, a2, a3, a4, a5, a6, a7, a8, a9⟩, c6, c8, c10, c12, fun hh => by simp at hh, fun _ => ⟨c7, c9, ?_, Or.inr hbytes, Or.inr ?_⟩⟩
          · intro hw; rw [show ((s.refillStep bufLen).1.error LexErr.read).window = (s.refillStep bufLen).1.window from rfl] at hw
            rw [hw] at hwl'; simp at hwl'; omega
          · rw [show ((s.refillStep bufLen).1.error LexErr.read).window = (s.refillStep bufLen).1.window from rfl, hwin']; exact hnf
    · rename_i hcond
      have hfull : fullRune s.window = true := by
        simp only [Bool.and_eq_true, Bool.not_eq_true', decide_eq_true_eq, utfMax, not_and, Bool.not_eq_false] at hcond
        by_cases hc : s.srcPos + 4 > s.srcEnd
        · exact hcond (decide_eq_true hc)
        · exact fullRune_of_length _ (by omega)
      refine ⟨h, rfl, rfl, rfl, Iff.rfl, fun he => by simp at he, ?_⟩
      intro _
      refine ⟨rfl, rfl, ?_, Or.inl hfull, Or.inl rfl⟩
      intro hw; rw [hw] at hfull; simp [fullRune] at hfull

theorem slice_take_window (buf : List UInt8) (p e w : Nat) (hw : w ≤ e - p) :
    (slice buf p e).take w = slice buf p (p + w) := by
  simp only [slice, List.take_take]
  congr 1; omega

theorem slice_drop_window (buf : List UInt8) (p e w : Nat) :
    (slice buf p e).drop w = slice buf (p + w) e := by
  simp only [slice, List.drop_take, List.drop_drop]
  congr 1; omega

/-- the relation without the fields that `next` overwrites (`lastCharLen`, `err`) -/
structure Rel0 (bufLen : Nat) (s : ScanState) (i : IState) : Prop extends Core bufLen s i where
  hline : s.line = i.line
  hcol : s.column = i.column
  hlll : s.lastLineLen = i.lastLineLen
  hposn : s.position = i.position
  hdoc : i.rest = i.doc.drop i.off

/-- consuming `w` bytes of the window (a decoded character) re-establishes the full relation -/
theorem Rel0.consume {s i} (h : Rel0 bufLen s i) (w : Nat) (hw1 : 1 ≤ w) (hw : w ≤ s.window.length) (e : Option LexErr) :
    Rel bufLen { s with srcPos := s.srcPos + w, lastCharLen := w, column := s.column + 1, err := e }
      { i with rest := i.rest.drop w, off := i.off + w, lastCharLen := w, column := i.column + 1, err := e } := by
  obtain ⟨⟨a1, a2, a3, a4, a5, a6, a7, a8, a9⟩, b4, b5, b6, b7, b9⟩ := h
  have hwl : s.window.length = s.srcEnd - s.srcPos := slice_length _ _ _ (by omega)
  have htake : i.rest.take w = slice s.srcBuf s.srcPos (s.srcPos + w) := by
    rw [← a5, List.take_append_of_le_length hw]
    exact slice_take_window _ _ _ _ (by omega)
  have hdrop : i.rest.drop w = slice s.srcBuf (s.srcPos + w) s.srcEnd ++ s.rd.bytes := by
    rw [← a5, List.drop_append_of_le_length hw]
    congr 1
    exact slice_drop_window _ _ _ _
  refine ⟨⟨a1, by dsimp only; omega, a3, a4, ?_, by dsimp only; omega, a7, ?_, a9⟩, rfl, by dsimp only; omega, ?_, b4, by dsimp only; rw [b5], b6, b7, rfl, ?_, ?_⟩
  · exact hdrop.symm
  · unfold TokInv at a8 ⊢
    dsimp only
    cases hp : s.tokPos with
    | none => cases hs : i.tokStart with
      | none => trivial
      | some st => simp [hp, hs] at a8
    | some tp => cases hs : i.tokStart with
      | none => simp [hp, hs] at a8
      | some st =>
        simp only [hp, hs] at a8 ⊢
        obtain ⟨t1, t2, t3⟩ := a8
        refine ⟨by omega, ?_, by omega⟩
        rw [← slice_append_slice s.srcBuf tp s.srcPos (s.srcPos + w) t1 (by omega), ← htake, ← t2]
        simp only [List.append_assoc, List.take_append_drop]
  · intro tp hp
    dsimp only at hp ⊢
    unfold TokInv at a8
    cases hs : i.tokStart with
    | none => simp [hp, hs] at a8
    | some st => simp only [hp, hs] at a8; omega
  · dsimp only; rw [b9, List.drop_drop]
  · dsimp only
    rw [show s.srcPos + w - w = s.srcPos by omega, show i.off + w - w = i.off by omega, ← htake, List.take_append_drop, b9]

theorem Rel0.advance {s i} (h : Rel0 bufLen s i) (he : s.err = i.err) (r : Rune) (w : Nat) (hw1 : 1 ≤ w)
    (hw : w ≤ s.window.length) :
    (s.advance r w).1 = (i.advance r w).1 ∧ Rel bufLen (s.advance r w).2 (i.advance r w).2 := by
  have hc := h.consume w hw1 hw s.err
  unfold ScanState.advance IState.advance
  dsimp only
  split
  · refine ⟨rfl, ?_⟩
    have := hc.error .nul
    exact this
  · split
    · refine ⟨rfl, ?_⟩
      obtain ⟨⟨a1, a2, a3, a4, a5, a6, a7, a8, a9⟩, b1, b2, b3, b4, b5, b6, b7, b8, b9, b10⟩ := hc
      exact ⟨⟨a1, a2, a3, a4, a5, a6, a7, a8, a9⟩, b1, b2, b3, by dsimp only at b4 ⊢; rw [b4], rfl, by dsimp only at b5 ⊢; rw [b5], b7, by dsimp only; rw [he], b9, b10⟩
    · refine ⟨rfl, ?_⟩
      obtain ⟨⟨a1, a2, a3, a4, a5, a6, a7, a8, a9⟩, b1, b2, b3, b4, b5, b6, b7, b8, b9, b10⟩ := hc
      exact ⟨⟨a1, a2, a3, a4, a5, a6, a7, a8, a9⟩, b1, b2, b3, b4, b5, b6, b7, by dsimp only; rw [he], b9, b10⟩

theorem Rel.toRel0 {s i} (h : Rel bufLen s i) : Rel0 bufLen s i :=
  ⟨h.toCore, h.hline, h.hcol, h.hlll, h.hposn, h.hdoc⟩

/-- the part of `next` after the refill loop -/
def ScanState.decodeTail (s : ScanState) : Rune × ScanState :=
  let ch := (s.srcBuf.getD s.srcPos 0).toNat
  if ch < runeSelf then s.advance (Int.ofNat ch) 1
  else
    let rw := decodeRune (slice s.srcBuf s.srcPos s.srcEnd)
    if rw.1 == runeError && rw.2 == 1 then
      (rw.1, ({ s with srcPos := s.srcPos + rw.2, lastCharLen := rw.2, column := s.column + 1 }).error .invalidUTF8)
    else s.advance rw.1 rw.2

theorem ScanState.next_eq (s : ScanState) : s.next bufLen =
    if (s.srcBuf.getD s.srcPos 0).toNat < runeSelf then s.decodeTail
    else if (s.refillLoop bufLen s.readFuel).2 then (runeEOF, (s.refillLoop bufLen s.readFuel).1)
    else (s.refillLoop bufLen s.readFuel).1.decodeTail := by
  unfold ScanState.next ScanState.decodeTail
  by_cases h : (s.srcBuf.getD s.srcPos 0).toNat < runeSelf
  · simp only [h, if_true]
  · simp only [h, if_false]

theorem Rel0.decodeStep {s i} (h : Rel0 bufLen s i) (x : UInt8) (xs : List UInt8) (hwin : s.window = x :: xs)
    (hfull : fullRune s.window = true ∨ s.rd.bytes = []) (herr : s.err = i.err ∨ fullRune s.window = false) :
    s.decodeTail.1 = i.next.1 ∧ Rel bufLen s.decodeTail.2 i.next.2 := by
  have hx : s.srcBuf.getD s.srcPos 0 = x := getD_of_slice_cons _ _ _ _ _ hwin
  have hrest : i.rest = x :: (xs ++ s.rd.bytes) := by rw [← h.hwin, hwin]; rfl
  have hdec : decodeRune i.rest = decodeRune s.window := by
    rcases hfull with hf | hb
    · rw [← h.hwin]; exact decodeRune_append_of_fullRune _ _ hf
    · rw [← h.hwin, hb, List.append_nil]
  have hwpos := decodeRune_width x xs
  have hwle := decodeRune_width_le s.window
  rw [← hwin] at hwpos
  unfold ScanState.decodeTail IState.next
  rw [hrest]
  dsimp only
  rw [← hrest, hdec, hx]
  by_cases hasc : x.toNat < runeSelf
  · have hd : decodeRune s.window = (Int.ofNat x.toNat, 1) := by rw [hwin]; exact decodeRune_ascii _ _ hasc
    have hfr : fullRune s.window = true := by rw [hwin]; exact fullRune_ascii _ _ hasc
    have he : s.err = i.err := by
      rcases herr with he | hn
      · exact he
      · rw [hfr] at hn; cases hn
    rw [if_pos hasc, hd]
    have hne : ¬ ((Int.ofNat x.toNat == runeError && (1 : Nat) == 1) = true) := by
      simp only [runeSelf] at hasc
      simp [runeError]; omega
    rw [if_neg hne]
    exact h.advance he _ 1 (Nat.le_refl _) (by rw [hwin]; simp)
  · rw [if_neg hasc]
    show (if _ then _ else _ : Rune × ScanState).1 = _ ∧ _
    rw [show slice s.srcBuf s.srcPos s.srcEnd = s.window from rfl]
    split
    · rename_i hinv
      simp only [Bool.and_eq_true, beq_iff_eq] at hinv
      refine ⟨rfl, ?_⟩
      have hc := h.consume 1 (Nat.le_refl _) (by rw [hwin]; simp) (some .invalidUTF8)
      obtain ⟨⟨a1, a2, a3, a4, a5, a6, a7, a8, a9⟩, b1, b2, b3, b4, b5, b6, b7, b8, b9, b10⟩ := hc
      rw [hinv.2]
      have hr1 : i.rest.drop 1 = xs ++ s.rd.bytes := by rw [hrest]; rfl
      rw [hr1] at a5 b9 b10
      simp only [hr1] at a8
      exact ⟨⟨a1, a2, a3, a4, a5, a6, a7, a8, a9⟩, b1, b2, b3, b4, b5, b6, b7, b8, b9, b10⟩
    · rename_i hinv
      have he : s.err = i.err := by
        rcases herr with he | hn
        · exact he
        · exfalso; apply hinv
          rw [hwin] at hn ⊢
          rw [decodeRune_of_not_fullRune _ _ hn]; rfl
      exact h.advance he _ _ hwpos.1 hwle

/-- `next` of the buffered scanner = `next` of the bufferless scanner (rune, and the relation is kept) -/
theorem Rel.next (hb : 4 ≤ bufLen) {s i} (h : Rel bufLen s i) :
    (s.next bufLen).1 = i.next.1 ∧ Rel bufLen (s.next bufLen).2 i.next.2 := by
  rw [ScanState.next_eq]
  have hwl : s.window.length = s.srcEnd - s.srcPos :=
    slice_length _ _ _ (by have := h.heb; have := h.hlen; omega)
  split
  · -- common case: ASCII in the buffer
    rename_i hasc
    have hlt : s.srcPos < s.srcEnd := by
      rcases Nat.lt_or_ge s.srcPos s.srcEnd with hlt | hge
      · exact hlt
      · have : s.srcPos = s.srcEnd := Nat.le_antisymm h.hpe hge
        rw [this, h.hsent] at hasc
        simp [runeSelf] at hasc
    cases hw : s.window with
    | nil => rw [hw] at hwl; simp at hwl; omega
    | cons x xs =>
      have hx : s.srcBuf.getD s.srcPos 0 = x := getD_of_slice_cons _ _ _ _ _ hw
      rw [hx] at hasc
      exact h.toRel0.decodeStep x xs hw (Or.inl (by rw [hw]; exact fullRune_ascii _ _ hasc)) (Or.inl h.herr)
  · have post := Core.refillLoop hb s.readFuel h.toCore h.hfuel
    obtain ⟨p1, p2, p3, p4, p5, p6, p7⟩ := post
    split
    · rename_i heof
      obtain ⟨e1, e2, e3, e4, e5⟩ := p6 heof
      unfold IState.next
      rw [e1]
      dsimp only
      refine ⟨rfl, ?_⟩
      obtain ⟨a1, a2, a3, a4, a5, a6, a7, a8, a9⟩ := p1
      rw [e1] at a5
      have a8' := a8
      unfold TokInv at a8'
      rw [e1] at a8'
      refine ⟨⟨a1, a2, a3, a4, a5, a6, a7, a8', a9⟩, e3, by omega, ?_, by rw [p2, h.hline], ?_, by rw [p3, h.hlll], by rw [p4, h.hposn], ?_, ?_, ?_⟩
      · intro tp hp
        unfold TokInv at a8
        rw [hp] at a8
        cases hs : i.tokStart with
        | none => simp [hs] at a8
        | some st => simp only [hs] at a8; omega
      · rw [e4, h.hlcl, h.hcol]
      · rw [e5, h.herr]
      · exact e1 ▸ h.hdoc
      · show slice _ _ _ ++ [] = _
        rw [e3, e2, slice_self]
        show [] = List.drop (i.off - 0) i.doc
        rw [Nat.sub_zero, ← h.hdoc, e1]
    · rename_i hne
      have hne : (s.refillLoop bufLen s.readFuel).2 = false := by simpa using hne
      obtain ⟨m1, m2, m3, m4, m5⟩ := p7 hne
      have h0 : Rel0 bufLen (s.refillLoop bufLen s.readFuel).1 i :=
        ⟨p1, by rw [p2, h.hline], by rw [m1, h.hcol], by rw [p3, h.hlll], by rw [p4, h.hposn], h.hdoc⟩
      cases hw : (s.refillLoop bufLen s.readFuel).1.window with
      | nil => exact absurd hw m3
      | cons x xs =>
        refine h0.decodeStep x xs hw m4 ?_
        rcases m5 with he | hn
        · exact Or.inl (he.trans h.herr)
        · exact Or.inr hn

theorem Rel.init (rd : Reader) :
    Rel bufLen (ScanState.init bufLen rd) (IState.init rd.bytes (rd.final == .fail)) := by
  refine ⟨⟨by simp [ScanState.init], Nat.le_refl _, Nat.zero_le _, rfl, ?_, rfl, rfl, ?_, Nat.lt_succ_self _⟩, rfl, Nat.le_refl _, ?_, rfl, rfl, rfl, rfl, rfl, rfl, ?_⟩
  · simp [ScanState.window, ScanState.init, IState.init, slice_self]
  · simp [TokInv, ScanState.init, IState.init]
  · intro tp hp; simp [ScanState.init] at hp
  · simp [ScanState.init, IState.init, slice_self]

/-- the buffered scanner simulates the bufferless one -/
theorem scan_sim_inc (hb : 4 ≤ bufLen) : Sim (scanSrc bufLen) incSrc (fun _ _ s i => Rel bufLen s i) where
  next := fun _ _ _ _ h => h.next hb
  error := fun e _ _ _ _ h => h.error e
  tokKill := fun _ _ _ _ h => h.tokKill
  tokMark := fun _ _ _ _ h => h.tokMark
  tokEnd := fun _ _ _ h => h.tokEnd
  err := fun _ _ _ _ h => h.herr

/-- tokens of the bufferless scanner -/
def incTokens (doc : List UInt8) (fails : Bool) : Except LexErr (List RawTok) :=
  tokenize incSrc (doc.length + 2) (IState.init doc fails)

/-- CHUNKING INVARIANCE, core form: the result of the buffered scanner depends only on the delivered
    bytes and on whether the reader ends with a failure -/
theorem scan_eq_incTokens (hb : 4 ≤ bufLen) (rd : Reader) :
    scan bufLen rd = incTokens rd.bytes (rd.final == .fail) :=
  tokenize_sim (scan_sim_inc hb) _ (m := false) (Rel.init rd)

end CedarGo.Text.Lx
