/-
  C14, x/exp/batch: the comparison `batch.Authorize` sorts its variables with is total and transitive, and on the
  entries of a Go map (distinct names) antisymmetric — so the sorted list is the same for every order in which the
  map yields them.
-/
import CedarGo.Model.BatchOrder
import CedarGoProofs.Lemmas.C14
namespace CedarGo

theorem varLe_iff {α : Type} (a b : String × List α) :
    varLe a b = true ↔ a.2.length < b.2.length ∨ (a.2.length = b.2.length ∧ a.1 ≤ b.1) := by
  simp [varLe, strLe]

theorem varLe_total {α : Type} (a b : String × List α) : varLe a b = true ∨ varLe b a = true := by
  simp only [varLe_iff]
  rcases Nat.lt_trichotomy a.2.length b.2.length with h | h | h
  · exact .inl (.inl h)
  · rcases String.le_total a.1 b.1 with h' | h'
    · exact .inl (.inr ⟨h, h'⟩)
    · exact .inr (.inr ⟨h.symm, h'⟩)
  · exact .inr (.inl h)

theorem varLe_trans {α : Type} (a b c : String × List α) : varLe a b = true → varLe b c = true → varLe a c = true := by
  simp only [varLe_iff]
  rintro (h1 | ⟨e1, h1⟩) (h2 | ⟨e2, h2⟩)
  · exact .inl (Nat.lt_trans h1 h2)
  · exact .inl (e2 ▸ h1)
  · exact .inl (e1 ▸ h2)
  · exact .inr ⟨e1.trans e2, String.le_trans h1 h2⟩

/-- two entries that are below each other have the same name -/
theorem varLe_antisymm_name {α : Type} (a b : String × List α) : varLe a b = true → varLe b a = true → a.1 = b.1 := by
  simp only [varLe_iff]
  rintro (h1 | ⟨_, h1⟩) (h2 | ⟨e2, h2⟩)
  · omega
  · omega
  · omega
  · exact String.le_antisymm h1 h2

theorem bindingOrder_perm {α : Type} (vars : List (String × List α)) : (bindingOrder vars).Perm vars :=
  sortBy_perm varLe vars

theorem bindingOrder_sorted {α : Type} (vars : List (String × List α)) :
    (bindingOrder vars).Pairwise (fun a b => varLe a b = true) :=
  sortBy_sorted_of varLe_total varLe_trans vars

/-- the binding order is a function of the SET of (name, values) entries -/
theorem bindingOrder_eq_of_perm {α : Type} {v₁ v₂ : List (String × List α)} (hp : v₁.Perm v₂)
    (nd : (v₁.map (·.1)).Nodup) : bindingOrder v₁ = bindingOrder v₂ := by
  have p1 := bindingOrder_perm v₁
  have p2 := bindingOrder_perm v₂
  refine List.Perm.eq_of_pairwise (le := fun a b => varLe a b = true) ?_ (bindingOrder_sorted v₁) (bindingOrder_sorted v₂)
    (p1.trans (hp.trans p2.symm))
  intro a b ha hb h1 h2
  exact eq_of_key_eq nd a (p1.mem_iff.mp ha) b (hp.mem_iff.mpr (p2.mem_iff.mp hb)) (varLe_antisymm_name a b h1 h2)

end CedarGo
