/-
  C18: the incremental line/column bookkeeping of the scanner computes `posOf`; the bufferless scanner
  `IState` and the pure lexer `PState` produce the same tokens.
-/
import CedarGoProofs.Lemmas.C18Stream
namespace CedarGo.Text.Lx

/-- total width of a decoded rune list -/
def widths (xs : List (Rune × Nat)) : Nat := (xs.map (·.2)).sum

theorem widths_decodeAll : ∀ (n : Nat) (xs : List UInt8), xs.length = n → widths (decodeAll xs) = xs.length := by
  intro n
  induction n using Nat.strongRecOn with
  | _ n ih =>
    intro xs hn
    cases xs with
    | nil => rfl
    | cons b bs =>
      have hw := decodeRune_width b bs
      rw [decodeAll_cons]
      simp only [widths, List.map_cons, List.sum_cons]
      have := ih ((b :: bs).drop (decodeRune (b :: bs)).2).length
        (by simp only [List.length_drop, List.length_cons] at hn ⊢; omega) _ rfl
      simp only [widths] at this
      rw [this]
      simp only [List.length_drop, List.length_cons]; omega

/-- decoding a prefix that ends on a rune boundary gives the corresponding prefix of the rune list -/
theorem decodeAll_prefix : ∀ (X : List (Rune × Nat)) (A B : List UInt8) (Y : List (Rune × Nat)),
    decodeAll (A ++ B) = X ++ Y → widths X = A.length → decodeAll A = X := by
  intro X
  induction X with
  | nil =>
    intro A B Y _ hw
    have : A = [] := List.eq_nil_of_length_eq_zero (by simpa [widths] using hw.symm)
    subst this; rfl
  | cons rw X ih =>
    intro A B Y h hw
    cases A with
    | nil =>
      exfalso
      simp only [widths, List.map_cons, List.sum_cons, List.length_nil] at hw
      cases B with
      | nil => simp [decodeAll_nil] at h
      | cons b bs =>
        rw [List.nil_append, decodeAll_cons] at h
        have := decodeRune_width b bs
        have h1 : decodeRune (b :: bs) = rw := by simpa using (List.cons.inj h).1
        rw [h1] at this; omega
    | cons a A' =>
      have hne : (a :: A') ++ B = a :: (A' ++ B) := rfl
      rw [hne, decodeAll_cons] at h
      obtain ⟨h1, h2⟩ := List.cons.inj h
      simp only [widths, List.map_cons, List.sum_cons, List.length_cons] at hw
      have hwle : (decodeRune ((a :: A') ++ B)).2 ≤ (a :: A').length := by
        rw [hne, h1]; simp only [List.length_cons]; omega
      have hp := decodeRune_prefix (a :: A') B (by simp) hwle
      rw [hne, h1] at hp
      rw [decodeAll_cons, hp]
      congr 1
      rw [← hne, List.drop_append_of_le_length (by simpa [hne, h1] using hwle)] at h2
      have h1' : decodeRune (a :: A' ++ B) = rw := by rw [hne]; exact h1
      rw [h1'] at h2
      exact ih _ B Y h2 (by simp only [widths, List.length_drop, List.length_cons]; omega)

/-! newline bytes and runes -/

theorem ok1_ge (b0 b1 : Nat) (h : ok1 b0 b1 = true) : 0x80 ≤ b1 := by
  have hlo : 0x80 ≤ acceptLo b0 := by unfold acceptLo; split <;> (try split) <;> omega
  simp only [ok1, Bool.and_eq_true, decide_eq_true_eq] at h
  omega

theorem ok1_le (b0 b1 : Nat) (h : ok1 b0 b1 = true) : b1 ≤ 0xBF := by
  have hhi : acceptHi b0 ≤ 0xBF := by unfold acceptHi; split <;> (try split) <;> omega
  simp only [ok1, Bool.and_eq_true, decide_eq_true_eq] at h
  omega

theorem okc_ge (b : Nat) (h : okc b = true) : 0x80 ≤ b := by
  simp only [okc, Bool.and_eq_true, decide_eq_true_eq] at h; omega

theorem dec2_facts (b0 : Nat) (hs : seqLen b0 = 2) (r : List UInt8) :
    (dec2 b0 r).1 ≠ 10 ∧ ∀ x ∈ r.take ((dec2 b0 r).2 - 1), 0x80 ≤ x.toNat := by
  have hb : 0xC2 ≤ b0 ∧ b0 < 0xE0 := by
    simp only [seqLen] at hs; repeat (split at hs <;> try omega)
  unfold dec2
  split
  · split
    · rename_i p1 _ hk
      refine ⟨by intro h; have h' := Int.ofNat.inj (show Int.ofNat _ = Int.ofNat 10 from h); omega, ?_⟩
      intro x hx; simp at hx; subst hx; exact ok1_ge _ _ hk
    · exact ⟨by simp [runeError], by simp⟩
  · exact ⟨by simp [runeError], by simp⟩

theorem dec3_facts (b0 : Nat) (hs : seqLen b0 = 3) (r : List UInt8) :
    (dec3 b0 r).1 ≠ 10 ∧ ∀ x ∈ r.take ((dec3 b0 r).2 - 1), 0x80 ≤ x.toNat := by
  have hb : 0xE0 ≤ b0 ∧ b0 < 0xF0 := by
    simp only [seqLen] at hs; repeat (split at hs <;> try omega)
  unfold dec3
  split
  · split
    · rename_i p1 p2 _ hk
      simp only [Bool.and_eq_true] at hk
      have h1 := ok1_ge _ _ hk.1
      have h1' := ok1_le _ _ hk.1
      have h2 := okc_ge _ hk.2
      have hlo : b0 = 0xE0 → 0xA0 ≤ p1.toNat := by
        intro hb0; have := hk.1
        simp only [ok1, acceptLo, hb0, Bool.and_eq_true, decide_eq_true_eq] at this; simp at this; omega
      refine ⟨by intro h; have h' := Int.ofNat.inj (show Int.ofNat _ = Int.ofNat 10 from h); by_cases hb0 : b0 = 0xE0 <;> (try have := hlo hb0) <;> omega, ?_⟩
      intro x hx; simp at hx; rcases hx with rfl | rfl <;> assumption
    · exact ⟨by simp [runeError], by simp⟩
  · exact ⟨by simp [runeError], by simp⟩

theorem dec4_facts (b0 : Nat) (hs : seqLen b0 = 4) (r : List UInt8) :
    (dec4 b0 r).1 ≠ 10 ∧ ∀ x ∈ r.take ((dec4 b0 r).2 - 1), 0x80 ≤ x.toNat := by
  have hb : 0xF0 ≤ b0 ∧ b0 < 0xF5 := by
    simp only [seqLen] at hs; repeat (split at hs <;> try omega)
  unfold dec4
  split
  · split
    · rename_i p1 p2 p3 _ hk
      simp only [Bool.and_eq_true] at hk
      have h1 := ok1_ge _ _ hk.1.1
      have h1' := ok1_le _ _ hk.1.1
      have h2 := okc_ge _ hk.1.2
      have h3 := okc_ge _ hk.2
      have hlo : b0 = 0xF0 → 0x90 ≤ p1.toNat := by
        intro hb0; have := hk.1.1
        simp only [ok1, acceptLo, hb0, Bool.and_eq_true, decide_eq_true_eq] at this; simp at this; omega
      refine ⟨by intro h; have h' := Int.ofNat.inj (show Int.ofNat _ = Int.ofNat 10 from h); by_cases hb0 : b0 = 0xF0 <;> (try have := hlo hb0) <;> omega, ?_⟩
      intro x hx; simp at hx; rcases hx with rfl | rfl | rfl <;> assumption
    · exact ⟨by simp [runeError], by simp⟩
  · exact ⟨by simp [runeError], by simp⟩

/-- a decoded rune is `'\n'` iff it is the single byte 0x0A; the bytes of any other rune contain no 0x0A -/
theorem decodeRune_newline (b : UInt8) (bs : List UInt8) :
    ((decodeRune (b :: bs)).1 = 10 → b = 10 ∧ (decodeRune (b :: bs)).2 = 1) ∧
    ((decodeRune (b :: bs)).1 ≠ 10 → ∀ x ∈ (b :: bs).take (decodeRune (b :: bs)).2, x ≠ 10) := by
  have hw := decodeRune_width b bs
  have htake : (b :: bs).take (decodeRune (b :: bs)).2 = b :: bs.take ((decodeRune (b :: bs)).2 - 1) := by
    obtain ⟨m, hm⟩ : ∃ m, (decodeRune (b :: bs)).2 = m + 1 := ⟨_, (Nat.sub_add_cancel hw.1).symm⟩
    rw [hm]; rfl
  by_cases hasc : b.toNat < 0x80
  · rw [decodeRune_ascii _ _ hasc]
    refine ⟨fun h => ⟨?_, rfl⟩, fun h x hx => ?_⟩
    · have : b.toNat = 10 := Int.ofNat.inj (show Int.ofNat _ = Int.ofNat 10 from h)
      exact UInt8.toNat_inj.1 this
    · simp at hx; subst hx; intro hx; apply h; rw [hx]; rfl
  · have key : (decodeRune (b :: bs)).1 ≠ 10 ∧ ∀ x ∈ bs.take ((decodeRune (b :: bs)).2 - 1), 0x80 ≤ x.toNat := by
      simp only [decodeRune, hasc, if_false]
      split; · exact dec2_facts _ (by assumption) _
      split; · exact dec3_facts _ (by assumption) _
      split; · exact dec4_facts _ (by assumption) _
      exact ⟨by simp [runeError], by simp⟩
    refine ⟨fun h => absurd h key.1, fun _ x hx => ?_⟩
    rw [htake] at hx
    intro hx10
    rcases List.mem_cons.1 hx with rfl | hx'
    · rw [hx10] at hasc; exact hasc (by decide)
    · have := key.2 x hx'; rw [hx10] at this; exact absurd this (by decide)

/-! `lastLine`, `posOf` -/

theorem lastLine_append_newline (P : List UInt8) : lastLine (P ++ [10]) = [] := by
  simp [lastLine, List.takeWhile]

theorem lastLine_append_of_no_newline (P cb : List UInt8) (h : ∀ x ∈ cb, x ≠ 10) :
    lastLine (P ++ cb) = lastLine P ++ cb := by
  simp only [lastLine, List.reverse_append]
  rw [List.takeWhile_append_of_pos (by intro a ha; simpa using h a (List.mem_reverse.1 ha))]
  simp

/-- decoding the current line up to `off` and then the rest = decoding them separately
    (i.e. `off` is a rune boundary of the line) -/
def Aligned (doc : List UInt8) (off : Nat) : Prop :=
  decodeAll (lastLine (doc.take off) ++ doc.drop off) = decodeAll (lastLine (doc.take off)) ++ decodeAll (doc.drop off)

theorem aligned_zero (doc : List UInt8) : Aligned doc 0 := by simp [Aligned, lastLine, decodeAll_nil]

/-- position of the byte after a decoded character -/
theorem posOf_step (doc : List UInt8) (off : Nat) (b : UInt8) (bs : List UInt8) (hT : doc.drop off = b :: bs)
    (hal : Aligned doc off) :
    posOf doc (off + (decodeRune (b :: bs)).2) =
      (if (decodeRune (b :: bs)).1 = 10 then ⟨off + (decodeRune (b :: bs)).2, (posOf doc off).line + 1, 1⟩
       else ⟨off + (decodeRune (b :: bs)).2, (posOf doc off).line, (posOf doc off).column + 1⟩) ∧
    Aligned doc (off + (decodeRune (b :: bs)).2) := by
  have hw := decodeRune_width b bs
  have hnl := decodeRune_newline b bs
  have htake : doc.take (off + (decodeRune (b :: bs)).2) = doc.take off ++ (b :: bs).take (decodeRune (b :: bs)).2 := by
    rw [List.take_add, hT]
  have hdrop : doc.drop (off + (decodeRune (b :: bs)).2) = (b :: bs).drop (decodeRune (b :: bs)).2 := by
    rw [← List.drop_drop, hT]
  by_cases h10 : (decodeRune (b :: bs)).1 = 10
  · obtain ⟨hb, hw1⟩ := hnl.1 h10
    have hcb : (b :: bs).take (decodeRune (b :: bs)).2 = [10] := by rw [hw1, hb]; rfl
    rw [if_pos h10]
    refine ⟨?_, ?_⟩
    · simp only [posOf, htake, hcb, lastLine_append_newline, List.count_append, decodeAll_nil]
      simp; omega
    · simp only [Aligned, htake, hcb, lastLine_append_newline, List.nil_append, decodeAll_nil]
  · have hno := hnl.2 h10
    rw [if_neg h10]
    have hll := lastLine_append_of_no_newline (doc.take off) _ hno
    have hcnt : ((b :: bs).take (decodeRune (b :: bs)).2).count 10 = 0 :=
      List.count_eq_zero.2 (fun hm => hno _ hm rfl)
    -- decoding line ++ char
    have hsplit : (b :: bs) = (b :: bs).take (decodeRune (b :: bs)).2 ++ (b :: bs).drop (decodeRune (b :: bs)).2 :=
      (List.take_append_drop _ _).symm
    have hall : decodeAll (lastLine (doc.take off) ++ (b :: bs).take (decodeRune (b :: bs)).2 ++ (b :: bs).drop (decodeRune (b :: bs)).2)
        = (decodeAll (lastLine (doc.take off)) ++ [decodeRune (b :: bs)]) ++ decodeAll ((b :: bs).drop (decodeRune (b :: bs)).2) := by
      rw [List.append_assoc, ← hsplit, ← hT, hal, hT, decodeAll_cons]; simp
    have hpre := decodeAll_prefix _ _ _ _ hall (by
      simp only [widths, List.map_append, List.sum_append, List.map_cons, List.map_nil, List.sum_cons, List.sum_nil,
        List.length_append, List.length_take, List.length_cons]
      have := widths_decodeAll _ (lastLine (doc.take off)) rfl
      simp only [widths] at this
      rw [this]; omega)
    refine ⟨?_, ?_⟩
    · simp only [posOf, htake, hll, List.count_append, hcnt, hpre, List.length_append, List.length_cons, List.length_nil]
      simp; omega
    · simp only [Aligned, htake, hll, hdrop]
      rw [hall, hpre]

theorem posOf_offset (doc : List UInt8) (off : Nat) : (posOf doc off).offset = off := rfl

/-- the position `nextToken` would record now (`tokMark`) -/
def IState.markPos (i : IState) : Pos :=
  if i.column > 0 then ⟨i.off - i.lastCharLen, i.line, i.column⟩ else ⟨i.off - i.lastCharLen, i.line - 1, i.lastLineLen⟩

/-- relation between the bufferless scanner and the pure lexer, with the position invariant -/
structure Rel2 (m : Bool) (i : IState) (p : PState) : Prop where
  hdoc : i.doc = p.doc
  hfails : i.fails = p.fails
  hrest : i.rest = p.rest
  hoff : i.off = p.off
  hlcl : i.lastCharLen = p.lastCharLen
  htok : i.tokStart = p.tokStart
  hposn : i.position = p.position
  herr : i.err = p.err
  k0 : i.off ≤ i.doc.length
  k1 : i.rest = i.doc.drop i.off
  k2 : i.line = (posOf i.doc i.off).line
  k3a : i.lastCharLen = 0 → i.off > 0 → i.column = (posOf i.doc i.off).column ∧ i.rest = []
  k3b : ¬(i.lastCharLen = 0 ∧ i.off > 0) → i.column + 1 = (posOf i.doc i.off).column
  k4 : Aligned i.doc i.off
  k5 : m = true → i.markPos = goPos i.doc (i.off - i.lastCharLen)
  k6 : i.lastCharLen ≤ i.off
  k7 : i.off = 0 → i.lastLineLen = 0

theorem Rel2.step {m i p} (h : Rel2 m i p) (b : UInt8) (bs : List UInt8) (hr : i.rest = b :: bs) (e : Option LexErr)
    (nl : Bool) (hnl : nl = true ↔ (decodeRune (b :: bs)).1 = 10) :
    Rel2 true
      ({ i with rest := (b :: bs).drop (decodeRune (b :: bs)).2, off := i.off + (decodeRune (b :: bs)).2,
                lastCharLen := (decodeRune (b :: bs)).2, column := if nl then 0 else i.column + 1,
                line := if nl then i.line + 1 else i.line,
                lastLineLen := if nl then i.column + 1 else i.lastLineLen, err := e } : IState)
      ({ p with rest := (b :: bs).drop (decodeRune (b :: bs)).2, off := p.off + (decodeRune (b :: bs)).2,
                lastCharLen := (decodeRune (b :: bs)).2, err := e } : PState) := by
  have hw := decodeRune_width b bs
  have hT : i.doc.drop i.off = b :: bs := by rw [← h.k1, hr]
  have hlen : (b :: bs).length ≤ i.doc.length - i.off := by
    rw [← hT, List.length_drop]; exact Nat.le_refl _
  obtain ⟨hpos, hal⟩ := posOf_step i.doc i.off b bs hT h.k4
  have hne : i.doc ≠ [] := by intro hd; rw [hd] at hT; simp at hT
  have hcol : i.column + 1 = (posOf i.doc i.off).column := by
    apply h.k3b
    rintro ⟨h0, hp⟩
    have := (h.k3a h0 hp).2
    rw [hr] at this; cases this
  have hgo : goPos i.doc i.off = posOf i.doc i.off := by
    simp only [goPos]; rw [if_neg]; simpa using hne
  simp only [List.length_cons] at hlen
  have hposc : (posOf i.doc i.off).column = 1 + (decodeAll (lastLine (i.doc.take i.off))).length := rfl
  cases nl with
  | true =>
    have h10 : (decodeRune (b :: bs)).1 = 10 := hnl.1 rfl
    rw [if_pos h10] at hpos
    simp only [if_true]
    refine ⟨h.hdoc, h.hfails, rfl, ?_, rfl, h.htok, h.hposn, rfl, ?_, ?_, ?_, ?_, ?_, hal, ?_, ?_, ?_⟩
    · dsimp only; rw [h.hoff]
    · dsimp only; omega
    · dsimp only; rw [← List.drop_drop, hT]
    · dsimp only; rw [hpos, h.k2]
    · dsimp only; intro h0; omega
    · dsimp only; intro _; rw [hpos]
    · intro _
      simp only [IState.markPos]
      rw [show i.off + (decodeRune (b :: bs)).2 - (decodeRune (b :: bs)).2 = i.off by omega, hgo]
      simp only [Nat.lt_irrefl, if_false, Nat.add_sub_cancel, h.k2, hcol]
      rfl
    · dsimp only; omega
    · dsimp only; intro h0; omega
  | false =>
    have h10 : ¬ (decodeRune (b :: bs)).1 = 10 := fun hh => by have := hnl.2 hh; cases this
    rw [if_neg h10] at hpos
    simp only [Bool.false_eq_true, if_false]
    refine ⟨h.hdoc, h.hfails, rfl, ?_, rfl, h.htok, h.hposn, rfl, ?_, ?_, ?_, ?_, ?_, hal, ?_, ?_, ?_⟩
    · dsimp only; rw [h.hoff]
    · dsimp only; omega
    · dsimp only; rw [← List.drop_drop, hT]
    · dsimp only; rw [hpos, h.k2]
    · dsimp only; intro h0; omega
    · dsimp only; intro _; rw [hpos, hcol]
    · intro _
      simp only [IState.markPos]
      rw [show i.off + (decodeRune (b :: bs)).2 - (decodeRune (b :: bs)).2 = i.off by omega, hgo]
      rw [if_pos (Nat.succ_pos _), h.k2, hcol]
      rfl
    · dsimp only; omega
    · dsimp only; intro h0; omega

theorem Rel2.next {m i p} (h : Rel2 m i p) : i.next.1 = p.next.1 ∧ Rel2 true i.next.2 p.next.2 := by
  unfold IState.next PState.next
  rw [← h.hrest]
  cases hr : i.rest with
  | nil =>
    dsimp only
    refine ⟨rfl, ?_⟩
    obtain ⟨a1, a2, a3, a4, a5, a6, a7, a8, k0, k1, k2, k3a, k3b, k4, k5, k6, k7⟩ := h
    rw [hr] at k1 a3 k3a
    have hgo : i.doc ≠ [] → i.off > 0 ∧ goPos i.doc i.off = posOf i.doc i.off := by
      intro hne
      refine ⟨?_, by simp only [goPos]; rw [if_neg]; simpa using hne⟩
      have : (i.doc.drop i.off).length = 0 := by rw [← k1]; rfl
      rw [List.length_drop] at this
      have : 0 < i.doc.length := List.length_pos_iff.2 hne
      omega
    refine ⟨a1, a2, rfl, a4, rfl, a6, a7, by dsimp only; rw [a2, a8], k0, k1, k2, ?_, ?_, k4, ?_, Nat.zero_le _, k7⟩
    · intro _ hp
      dsimp only
      refine ⟨?_, rfl⟩
      by_cases hl : i.lastCharLen > 0
      · rw [if_pos hl]; exact k3b (by omega)
      · rw [if_neg hl]; exact (k3a (by omega) hp).1
    · intro hn
      dsimp only at hn ⊢
      have h0 : i.off = 0 := by omega
      have hl : ¬ i.lastCharLen > 0 := by omega
      rw [if_neg hl]; exact k3b (by omega)
    · intro _
      simp only [IState.markPos, Nat.sub_zero]
      by_cases hd : i.doc = []
      · have h0 : i.off = 0 := by rw [hd] at k0; simpa using k0
        have hl : ¬ i.lastCharLen > 0 := by omega
        have hc := k3b (by omega)
        rw [hd] at hc k2
        simp only [posOf, List.take_nil, List.count_nil, lastLine, List.reverse_nil, List.takeWhile_nil, decodeAll_nil, List.length_nil] at hc k2
        rw [if_neg hl, if_neg (by omega), hd, k2, k7 h0, h0]
        rfl
      · obtain ⟨hp, hg⟩ := hgo hd
        rw [hg]
        have hcol : (if i.lastCharLen > 0 then i.column + 1 else i.column) = (posOf i.doc i.off).column := by
          by_cases hl : i.lastCharLen > 0
          · rw [if_pos hl]; exact k3b (by omega)
          · rw [if_neg hl]; exact (k3a (by omega) hp).1
        rw [hcol, if_pos (by simp only [posOf]; omega), k2]
        rfl
  | cons b bs =>
    dsimp only
    split
    · rename_i hinv
      refine ⟨rfl, ?_⟩
      simp only [Bool.and_eq_true, beq_iff_eq] at hinv
      have := h.step b bs hr (some .invalidUTF8) false (by rw [hinv.1]; simp [runeError])
      simp only [Bool.false_eq_true, if_false] at this
      rw [hinv.2] at this ⊢
      exact this
    · unfold IState.advance
      dsimp only
      split
      · rename_i h0
        refine ⟨rfl, ?_⟩
        have h0' : (decodeRune (b :: bs)).1 = 0 := by simpa using h0
        have := h.step b bs hr (some .nul) false (by rw [h0']; simp)
        simp only [Bool.false_eq_true, if_false] at this
        rw [hr]
        exact this
      · rename_i h0
        split
        · rename_i h10
          refine ⟨rfl, ?_⟩
          have h10' : (decodeRune (b :: bs)).1 = 10 := by simpa using h10
          have := h.step b bs hr i.err true (by simp [h10'])
          simp only [if_true] at this
          rw [hr]
          have e : p.err = i.err := h.herr.symm
          obtain ⟨a1, a2, a3, a4, a5, a6, a7, a8, k0, k1, k2, k3a, k3b, k4, k5, k6, k7⟩ := this
          exact ⟨a1, a2, a3, a4, a5, a6, a7, by dsimp only; exact h.herr, k0, k1, k2, k3a, k3b, k4, k5, k6, k7⟩
        · rename_i h10
          refine ⟨rfl, ?_⟩
          have h10' : ¬ (decodeRune (b :: bs)).1 = 10 := by simpa using h10
          have := h.step b bs hr i.err false (by simp [h10'])
          simp only [Bool.false_eq_true, if_false] at this
          rw [hr]
          obtain ⟨a1, a2, a3, a4, a5, a6, a7, a8, k0, k1, k2, k3a, k3b, k4, k5, k6, k7⟩ := this
          exact ⟨a1, a2, a3, a4, a5, a6, a7, by dsimp only; exact h.herr, k0, k1, k2, k3a, k3b, k4, k5, k6, k7⟩

theorem Rel2.init (doc : List UInt8) (fails : Bool) : Rel2 false (IState.init doc fails) (PState.init doc fails) := by
  refine ⟨rfl, rfl, rfl, rfl, rfl, rfl, rfl, rfl, Nat.zero_le _, rfl, ?_, ?_, ?_, aligned_zero _, ?_, Nat.le_refl _, fun _ => rfl⟩
  · simp [IState.init, posOf]
  · intro _ h; simp [IState.init] at h
  · intro _; simp [IState.init, posOf, lastLine, decodeAll_nil]
  · intro h; cases h

theorem inc_sim_pure : Sim incSrc pureSrc (fun _ _ i p => Rel2 true i p) where
  next := fun _ _ _ _ h => h.next
  error := by
    intro e m c i p h
    obtain ⟨a1, a2, a3, a4, a5, a6, a7, a8, k0, k1, k2, k3a, k3b, k4, k5, k6, k7⟩ := h
    exact ⟨a1, a2, a3, a4, a5, a6, a7, rfl, k0, k1, k2, k3a, k3b, k4, k5, k6, k7⟩
  tokKill := by
    intro m c i p h
    obtain ⟨a1, a2, a3, a4, a5, a6, a7, a8, k0, k1, k2, k3a, k3b, k4, k5, k6, k7⟩ := h
    exact ⟨a1, a2, a3, a4, a5, rfl, by simp [incSrc, pureSrc, a7], a8, k0, k1, k2, k3a, k3b, k4, k5, k6, k7⟩
  tokMark := by
    intro m c i p h
    obtain ⟨a1, a2, a3, a4, a5, a6, a7, a8, k0, k1, k2, k3a, k3b, k4, k5, k6, k7⟩ := h
    have hk := k5 rfl
    simp only [IState.markPos] at hk
    simp only [incSrc, pureSrc, IState.tokMark]
    split
    · rename_i hc
      rw [if_pos hc] at hk
      exact ⟨a1, a2, a3, a4, a5, by dsimp only; rw [a4, a5], by dsimp only; rw [hk, a1, a4, a5], a8, k0, k1, k2, k3a, k3b, k4,
        fun _ => by simpa [IState.markPos, hc] using hk, k6, k7⟩
    · rename_i hc
      rw [if_neg hc] at hk
      exact ⟨a1, a2, a3, a4, a5, by dsimp only; rw [a4, a5], by dsimp only; rw [hk, a1, a4, a5], a8, k0, k1, k2, k3a, k3b, k4,
        fun _ => by simpa [IState.markPos, hc] using hk, k6, k7⟩
  tokEnd := by
    intro c i p h
    refine ⟨?_, h⟩
    show (IState.tokEnd i).1 = (PState.tokEnd p).1
    simp only [IState.tokEnd, PState.tokEnd, h.hposn, h.htok, h.hdoc, h.hoff, h.hlcl]
    cases p.tokStart <;> rfl
  err := fun _ _ _ _ h => h.herr

/-- the first `nextToken` (look-ahead = BOF) is `nextToken` after one `next` -/
theorem tokenizeLoop_bof {σ : Type} (S : Src σ) (F f : Nat) (s : σ) (hne : (S.next s).1 ≠ runeBOF) :
    tokenizeLoop S F f runeBOF s = tokenizeLoop S F f (S.next s).1 (S.next s).2 := by
  have hnt : nextToken S F runeBOF s = nextToken S F (S.next s).1 (S.next s).2 := by
    simp only [nextToken]
    rw [if_pos (by simp), if_neg (by simpa using hne)]
  cases f with
  | zero => rfl
  | succ f => simp only [tokenizeLoop, hnt]

theorem IState.next_ne_bof (i : IState) : i.next.1 ≠ runeBOF := by
  have hobs := i.next_obs
  cases hr : i.rest with
  | nil => rw [hr] at hobs; rw [hobs.1]; simp [runeEOF, runeBOF]
  | cons b bs =>
    rw [hr] at hobs; rw [hobs.1]
    have := decodeRune_nonneg (b :: bs)
    intro h; rw [h] at this; simp [runeBOF] at this

/-- the bufferless scanner and the pure lexer (positions by `posOf`) produce the same result -/
theorem incTokens_eq_rawTokens (doc : List UInt8) (fails : Bool) : incTokens doc fails = rawTokens doc fails := by
  have h0 := Rel2.init doc fails
  obtain ⟨h1, h2⟩ := h0.next
  have hne := (IState.init doc fails).next_ne_bof
  have hne' : (pureSrc.next (PState.init doc fails)).1 ≠ runeBOF := by
    show (PState.init doc fails).next.1 ≠ runeBOF
    rw [← h1]; exact hne
  unfold incTokens rawTokens tokenize
  rw [tokenizeLoop_bof incSrc _ _ _ hne, tokenizeLoop_bof pureSrc _ _ _ hne']
  have := tokenizeLoop_sim inc_sim_pure (doc.length + 2) (doc.length + 2) (m := false) (c := (incSrc.next (IState.init doc fails)).1) h2
  have h1' : (incSrc.next (IState.init doc fails)).1 = (pureSrc.next (PState.init doc fails)).1 := h1
  rw [← h1']
  exact this

end CedarGo.Text.Lx
