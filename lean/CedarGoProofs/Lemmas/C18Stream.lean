/-
  C18: the character stream of `next` and the reader-failure invariant.
-/
import CedarGoProofs.Lemmas.C18Next
namespace CedarGo.Text.Lx

/-- SPEC of the character stream: decode the whole byte string rune by rune; after the end, EOF for ever.
    Entries are (rune, width, offset after the rune). -/
def runeStream : Nat → List UInt8 → Nat → List (Rune × Nat × Nat)
  | 0, _, _ => []
  | n + 1, [], off => (runeEOF, 0, off) :: runeStream n [] off
  | n + 1, b :: bs, off =>
    let rw := decodeRune (b :: bs)
    (rw.1, rw.2, off + rw.2) :: runeStream n ((b :: bs).drop rw.2) (off + rw.2)

/-- what `n` successive calls of `next` return: (rune, `lastCharLen`, source offset `srcBufOffset + srcPos`) -/
def ScanState.nextStream (bufLen : Nat) : Nat → ScanState → List (Rune × Nat × Nat)
  | 0, _ => []
  | n + 1, s =>
    let r := s.next bufLen
    (r.1, r.2.lastCharLen, r.2.srcBufOffset + r.2.srcPos) :: nextStream bufLen n r.2

theorem IState.next_obs (i : IState) :
    (match i.rest with
     | [] => i.next.1 = runeEOF ∧ i.next.2.lastCharLen = 0 ∧ i.next.2.off = i.off ∧ i.next.2.rest = []
     | b :: bs => i.next.1 = (decodeRune (b :: bs)).1 ∧ i.next.2.lastCharLen = (decodeRune (b :: bs)).2 ∧
        i.next.2.off = i.off + (decodeRune (b :: bs)).2 ∧ i.next.2.rest = (b :: bs).drop (decodeRune (b :: bs)).2) := by
  unfold IState.next
  cases h : i.rest with
  | nil => simp
  | cons b bs =>
    dsimp only
    split
    · rename_i hinv
      simp only [Bool.and_eq_true, beq_iff_eq] at hinv
      rw [hinv.2]; exact ⟨rfl, rfl, rfl, rfl⟩
    · unfold IState.advance
      dsimp only
      split
      · exact ⟨rfl, rfl, rfl, by rw [h]⟩
      · split
        · exact ⟨rfl, rfl, rfl, by rw [h]⟩
        · exact ⟨rfl, rfl, rfl, by rw [h]⟩

theorem nextStream_eq_runeStream {bufLen : Nat} (hb : 4 ≤ bufLen) : ∀ (n : Nat) {s : ScanState} {i : IState},
    Rel bufLen s i → s.nextStream bufLen n = runeStream n i.rest i.off := by
  intro n
  induction n with
  | zero => intros; rfl
  | succ n ih =>
    intro s i h
    obtain ⟨h1, h2⟩ := h.next hb
    have hobs := i.next_obs
    simp only [ScanState.nextStream]
    rw [ih h2, h1, h2.hlcl, h2.hoff]
    cases hr : i.rest with
    | nil =>
      rw [hr] at hobs
      obtain ⟨o1, o2, o3, o4⟩ := hobs
      simp only [runeStream]; rw [o1, o2, o3, o4]
    | cons b bs =>
      rw [hr] at hobs
      obtain ⟨o1, o2, o3, o4⟩ := hobs
      simp only [runeStream]; rw [o1, o2, o3, o4]

/-! reader failure -/

theorem dec2_nonneg (b0 : Nat) (r : List UInt8) : 0 ≤ (dec2 b0 r).1 := by
  unfold dec2; split <;> (try split) <;> first | exact Int.natCast_nonneg _ | simp [runeError]
theorem dec3_nonneg (b0 : Nat) (r : List UInt8) : 0 ≤ (dec3 b0 r).1 := by
  unfold dec3; split <;> (try split) <;> first | exact Int.natCast_nonneg _ | simp [runeError]
theorem dec4_nonneg (b0 : Nat) (r : List UInt8) : 0 ≤ (dec4 b0 r).1 := by
  unfold dec4; split <;> (try split) <;> first | exact Int.natCast_nonneg _ | simp [runeError]

theorem decodeRune_nonneg (xs : List UInt8) : 0 ≤ (decodeRune xs).1 := by
  unfold decodeRune
  split
  · simp [runeError]
  · dsimp only
    split; · exact Int.natCast_nonneg _
    split; · exact dec2_nonneg _ _
    split; · exact dec3_nonneg _ _
    split; · exact dec4_nonneg _ _
    simp [runeError]

/-- invariant of a failing source: whenever EOF has just been returned, an error is recorded -/
def FailInv (_ : Bool) (c : Rune) (a b : IState) : Prop := a = b ∧ a.fails = true ∧ (c = runeEOF → a.err ≠ none)

theorem failInv_sim : Sim incSrc incSrc FailInv where
  next := by
    rintro m c a b ⟨rfl, hf, _⟩
    refine ⟨rfl, rfl, ?_, ?_⟩
    · show (IState.next a).2.fails = true
      unfold IState.next IState.advance
      split
      · exact hf
      · dsimp only; split
        · exact hf
        · split
          · exact hf
          · split <;> exact hf
    · show (IState.next a).1 = runeEOF → (IState.next a).2.err ≠ none
      have hobs := a.next_obs
      cases hr : a.rest with
      | nil =>
        intro _
        unfold IState.next
        rw [hr]; simp [hf]
      | cons x xs =>
        rw [hr] at hobs
        intro he
        rw [hobs.1] at he
        have := decodeRune_nonneg (x :: xs)
        rw [he] at this
        simp [runeEOF] at this
  error := by rintro e m c a b ⟨rfl, hf, _⟩; exact ⟨rfl, hf, fun _ => by simp [incSrc]⟩
  tokKill := by rintro m c a b ⟨rfl, hf, h⟩; exact ⟨rfl, hf, h⟩
  tokMark := by
    rintro m c a b ⟨rfl, hf, h⟩
    refine ⟨rfl, ?_, ?_⟩
    · show (IState.tokMark a).fails = true
      unfold IState.tokMark; split <;> exact hf
    · show c = runeEOF → (IState.tokMark a).err ≠ none
      unfold IState.tokMark; split <;> exact h
  tokEnd := by rintro c a b ⟨rfl, hf, h⟩; exact ⟨rfl, rfl, hf, h⟩
  err := by rintro m c a b ⟨rfl, _, _⟩; rfl

/-- an EOF token is only produced when the look-ahead is EOF -/
theorem tokenFrom_eof {σ : Type} (S : Src σ) (F : Nat) : ∀ (f : Nat) (c : Rune) (s : σ),
    (tokenFrom S F f c s).tok.ty = .eof → (tokenFrom S F f c s).ch = runeEOF := by
  have hfin : ∀ (tt : TokType) (c : Rune) (s : σ), tt ≠ .eof → (finishToken S tt c s).tok.ty ≠ .eof := by
    intro tt c s htt
    simp only [finishToken]
    split
    · simp
    · exact htt
  have hop : ∀ (c0 c : Rune) (s : σ), (scanOperator S c0 c s).1 ≠ .eof := by
    intro c0 c s
    simp only [scanOperator]
    repeat' split
    all_goals simp
  intro f
  induction f with
  | zero => intro c s h; exact absurd h (hfin _ _ _ (by simp))
  | succ f ih =>
    intro c s
    simp only [tokenFrom]
    split
    · rename_i he
      intro _
      simp only [finishToken]
      exact (beq_iff_eq).1 he
    split
    · intro h; exact absurd h (hfin _ _ _ (by simp))
    split
    · intro h; exact absurd h (hfin _ _ _ (by simp))
    split
    · intro h; exact absurd h (hfin _ _ _ (by simp))
    split
    · split
      · exact ih _ _
      · intro h; exact absurd h (hfin _ _ _ (hop _ _ _))
    · intro h; exact absurd h (hfin _ _ _ (hop _ _ _))

theorem tokenizeLoop_fails (F : Nat) : ∀ (f : Nat) (c : Rune) (s : IState), FailInv false c s s →
    ∃ e, tokenizeLoop incSrc F f c s = .error e := by
  intro f
  induction f with
  | zero => intro c s _; exact ⟨_, rfl⟩
  | succ f ih =>
    intro c s h
    have hn := nextToken_sim failInv_sim F h
    obtain ⟨_, _, hr⟩ := hn
    simp only [tokenizeLoop]
    cases he : incSrc.err (nextToken incSrc F c s).st with
    | some e => exact ⟨e, rfl⟩
    | none =>
      dsimp only
      split
      · rename_i hty
        exfalso
        have hty : (nextToken incSrc F c s).tok.ty = .eof := by simpa using hty
        have hch : (nextToken incSrc F c s).ch = runeEOF := by
          simp only [nextToken] at hty ⊢
          exact tokenFrom_eof incSrc F F _ _ hty
        exact hr.2.2 hch he
      · obtain ⟨e, he'⟩ := ih _ _ hr
        rw [he']; exact ⟨e, rfl⟩

/-- a reader that ends with a failure never yields a token list -/
theorem incTokens_fails (doc : List UInt8) : ∃ e, incTokens doc true = .error e :=
  tokenizeLoop_fails _ _ _ _ ⟨rfl, rfl, fun h => by simp [runeEOF, runeBOF] at h⟩

instance : DecidableEq (Except LexErr (List RawTok)) := fun a b =>
  match a, b with
  | .ok x, .ok y => if h : x = y then isTrue (by rw [h]) else isFalse (by intro e; cases e; exact h rfl)
  | .error x, .error y => if h : x = y then isTrue (by rw [h]) else isFalse (by intro e; cases e; exact h rfl)
  | .ok _, .error _ => isFalse (by intro e; cases e)
  | .error _, .ok _ => isFalse (by intro e; cases e)

theorem flatten_filter_nonempty (cs : List (List UInt8)) : (cs.filter (fun c => !c.isEmpty)).flatten = cs.flatten := by
  induction cs with
  | nil => rfl
  | cons c cs ih =>
    cases c with
    | nil => simpa using ih
    | cons x xs => simp [List.filter_cons, ih]

end CedarGo.Text.Lx
