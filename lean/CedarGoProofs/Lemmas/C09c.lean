/-
  C09: phase 2 (`ToNode`) on the decoded struct of an encoded expression, and the policy level.
-/
import CedarGoProofs.Lemmas.C09b
namespace CedarGo.JsonModel
open CedarGo CedarGo.Scalars

def mapVals {α β : Type} (f : α → β) : List (String × α) → List (String × β)
  | [] => []
  | (k, v) :: rest => (k, f v) :: mapVals f rest

theorem mapVals_insKV {α β : Type} (f : α → β) (k : String) (v : α) :
    ∀ (l : List (String × α)), mapVals f (insKV k v l) = insKV k (f v) (mapVals f l)
  | [] => rfl
  | (k', v') :: rest => by
    simp only [insKV, mapVals]
    split
    · rfl
    · split
      · rfl
      · simp [mapVals, mapVals_insKV f k v rest]

theorem mapVals_foldl {α β : Type} (f : α → β) : ∀ (xs acc : List (String × α)),
    mapVals f (xs.foldl (fun a kv => insKV kv.1 kv.2 a) acc)
      = (mapVals f xs).foldl (fun a kv => insKV kv.1 kv.2 a) (mapVals f acc)
  | [], acc => rfl
  | (k, v) :: xs, acc => by
    simp only [List.foldl, mapVals]
    rw [mapVals_foldl f xs, mapVals_insKV]

theorem mapVals_sortKV {α β : Type} (f : α → β) (xs : List (String × α)) : mapVals f (sortKV xs) = sortKV (mapVals f xs) := by
  simp only [sortKV]; exact mapVals_foldl f xs []

def recVal (o : Option NJ) : R Expr := match o with | none => .error .reject | some n => nodeToExpr n

theorem recordToExprs_eq : ∀ (l : List (String × Option NJ)), recordToExprs l = mapVals recVal l
  | [] => by simp [recordToExprs, mapVals]
  | (k, none) :: rest => by simp [recordToExprs, mapVals, recVal, recordToExprs_eq rest]
  | (k, some n) :: rest => by simp [recordToExprs, mapVals, recVal, recordToExprs_eq rest]

theorem combineRecord_ok : ∀ (l : List (String × Expr)), combineRecord (mapVals (fun e => (.ok e : R Expr)) l) = .ok l := by
  intro l
  have h1 : ∀ (l : List (String × Expr)), (mapVals (fun e => (.ok e : R Expr)) l).filterMap errOf = [] := by
    intro l; induction l with
    | nil => rfl
    | cons x xs ih => obtain ⟨k, e⟩ := x; simp [mapVals, List.filterMap, errOf, ih]
  have h2 : ∀ (l : List (String × Expr)), (mapVals (fun e => (.ok e : R Expr)) l).filterMap okOf = l := by
    intro l; induction l with
    | nil => rfl
    | cons x xs ih => obtain ⟨k, e⟩ := x; simp [mapVals, okOf, ih]
  simp [combineRecord, h1, h2]

mutual
theorem toExpr_embed (e : Expr) (hr : renderableE e = true) : nodeToExpr (embed e) = .ok (normE e) := by
  cases e with
  | lit v =>
    cases v with
    | decimal d =>
      have : Facts.extMap.any (fun x => x.1 == "decimal") = true := by decide +kernel
      simp [embed, normE, nodeToExpr, extToExpr, this, nodesToExprs]
    | ip a =>
      have : Facts.extMap.any (fun x => x.1 == "ip") = true := by decide +kernel
      simp [embed, normE, nodeToExpr, extToExpr, this, nodesToExprs]
    | _ => simp [embed, normE, nodeToExpr]
  | var v => cases v <;> simp [embed, normE, nodeToExpr, varName, varOfName]
  | unop op e => simp only [renderableE] at hr; simp [embed, normE, nodeToExpr, toExpr_embed e hr]
  | binop op l r =>
    simp only [renderableE, Bool.and_eq_true] at hr
    simp [embed, normE, nodeToExpr, toExpr_embed l hr.1, toExpr_embed r hr.2]
  | ite c t e =>
    simp only [renderableE, Bool.and_eq_true] at hr
    simp [embed, normE, nodeToExpr, toExpr_embed c hr.1.1, toExpr_embed t hr.1.2, toExpr_embed e hr.2]
  | access e a => simp only [renderableE] at hr; simp [embed, normE, nodeToExpr, toExpr_embed e hr]
  | has e a => simp only [renderableE] at hr; simp [embed, normE, nodeToExpr, toExpr_embed e hr]
  | like e p =>
    simp only [renderableE, Bool.and_eq_true] at hr
    simp [embed, normE, nodeToExpr, toExpr_embed e hr.1]
  | is e ty => simp only [renderableE] at hr; simp [embed, normE, nodeToExpr, toExpr_embed e hr]
  | isIn e ty r =>
    simp only [renderableE, Bool.and_eq_true] at hr
    simp [embed, normE, nodeToExpr, toExpr_embed e hr.1, toExpr_embed r hr.2]
  | set es => simp only [renderableE] at hr; simp [embed, normE, nodeToExpr, toExprs_embeds es hr]
  | record kes =>
    simp only [renderableE, Bool.and_eq_true] at hr
    simp only [embed, normE, nodeToExpr, recordToExprs_eq, mapVals_sortKV, recVals_embedKEs kes hr.1]
    rw [← mapVals_sortKV, combineRecord_ok]
  | call fn args =>
    simp only [renderableE, Bool.and_eq_true] at hr
    have hm : (extIsMethod fn && (embeds args).isEmpty) = false := by
      have := hr.1.2
      cases args <;> simp_all [embeds]
    simp only [embed, normE, nodeToExpr, extToExpr, hr.1.1, if_true, hm, Bool.false_eq_true, if_false, toExprs_embeds args hr.2]
theorem toExprs_embeds (es : List Expr) (hr : renderableEs es = true) : nodesToExprs (embeds es) = .ok (normEs es) := by
  cases es with
  | nil => simp [embeds, normEs, nodesToExprs]
  | cons e es =>
    simp only [renderableEs, Bool.and_eq_true] at hr
    simp [embeds, normEs, nodesToExprs, toExpr_embed e hr.1, toExprs_embeds es hr.2]
theorem recVals_embedKEs (kes : List (String × Expr)) (hr : renderableKEs kes = true) :
    mapVals recVal (embedKEs kes) = mapVals (fun e => (.ok e : R Expr)) (normKEs kes) := by
  cases kes with
  | nil => simp [embedKEs, normKEs, mapVals]
  | cons ke kes =>
    obtain ⟨k, e⟩ := ke
    simp only [renderableKEs, Bool.and_eq_true] at hr
    simp [embedKEs, normKEs, mapVals, recVal, toExpr_embed e hr.1, recVals_embedKEs kes hr.2]
end

/-! ### phase 2 has no panic branch -/

theorem combineRecord_noPanic (rs : List (String × R Expr)) : combineRecord rs ≠ .error .panic := by
  unfold combineRecord
  simp only
  split
  · simp
  · split
    · simp
    · split <;> simp

mutual
theorem nodeToExpr_noPanic : ∀ (n : NJ), nodeToExpr n ≠ .error .panic
  | .empty => by simp [nodeToExpr]
  | .value v => by simp [nodeToExpr]
  | .var s => by simp only [nodeToExpr]; split <;> simp
  | .unary op a => by
    have := nodeToExpr_noPanic a
    simp only [nodeToExpr]; split <;> simp_all
  | .binary op l r => by
    have := nodeToExpr_noPanic l
    have := nodeToExpr_noPanic r
    simp only [nodeToExpr]; repeat' split
    all_goals simp_all
  | .strop h l a => by
    have := nodeToExpr_noPanic l
    simp only [nodeToExpr]; split <;> simp_all
  | .like l p => by
    have := nodeToExpr_noPanic l
    simp only [nodeToExpr]; split <;> simp_all
  | .is_ l ty none => by
    have := nodeToExpr_noPanic l
    simp only [nodeToExpr]; split <;> simp_all
  | .is_ l ty (some r) => by
    have := nodeToExpr_noPanic l
    have := nodeToExpr_noPanic r
    simp only [nodeToExpr]; repeat' split
    all_goals simp_all
  | .ite c t e => by
    have := nodeToExpr_noPanic c
    have := nodeToExpr_noPanic t
    have := nodeToExpr_noPanic e
    simp only [nodeToExpr]; repeat' split
    all_goals simp_all
  | .set xs => by
    have := nodesToExprs_noPanic xs
    simp only [nodeToExpr]; split <;> simp_all
  | .record kvs => by
    have := combineRecord_noPanic (recordToExprs kvs)
    simp only [nodeToExpr]; split <;> simp_all
  | .ext entries => by
    simp only [nodeToExpr]
    match entries with
    | [] => simp [extToExpr]
    | [(name, args)] =>
      have := nodesToExprs_noPanic args
      simp only [extToExpr]; repeat' split
      all_goals simp_all
    | _ :: _ :: _ => simp [extToExpr]
theorem nodesToExprs_noPanic : ∀ (ns : List NJ), nodesToExprs ns ≠ .error .panic
  | [] => by simp [nodesToExprs]
  | n :: ns => by
    have := nodeToExpr_noPanic n
    have := nodesToExprs_noPanic ns
    simp only [nodesToExprs]; repeat' split
    all_goals simp_all
end

end CedarGo.JsonModel
