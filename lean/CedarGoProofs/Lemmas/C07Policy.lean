/-
  Helper lemmas for C07/C08 at the policy level: a policy whose scope is `(principal, action, resource)`,
  without annotations, whose condition bodies are valid renderings, is read back; conversion from
  "for all sufficiently large fuel" to the canonical fuel `parseFuel`.
-/
import CedarGoProofs.Lemmas.C07Render
namespace CedarGo.Text
open CedarGo

/-- a result obtained with all sufficiently large fuel is the result at any fuel at which the function terminates -/
theorem fuel_canon {α : Type} (f : Nat → Option α) (mono : ∀ n n', n ≤ n' → OLe (f n) (f n')) (n0 : Nat)
    (tot : ∃ r, f n0 = some r) (N : Nat) (r : α) (h : ∀ n, N ≤ n → f n = some r) : f n0 = some r := by
  obtain ⟨r', hr'⟩ := tot
  have h1 := h (max n0 N) (Nat.le_max_right _ _)
  have h2 := mono n0 (max n0 N) (Nat.le_max_left _ _) r' hr'
  rw [h1] at h2
  cases h2
  exact hr'

/-- canonical-fuel form of `ReadsAt 0`: parsing a valid rendering as a complete expression -/
theorem parseExpr_of_reads {x : Expr} {ts : List Token} (h : ReadsAt 0 x ts) : parseExpr ts = some (.ok (x, [])) := by
  obtain ⟨d, hd⟩ := h
  unfold parseExpr parseFuel
  refine fuel_canon (fun n => exprF n ts) (fun n n' hn => exprF_mono hn ts) _ ?_ (d + 1) _ ?_
  · obtain ⟨r, hr, _⟩ := goodE_exprF ts.length ts (Nat.le_refl _)
    exact ⟨r, hr⟩
  · intro n hn
    obtain ⟨m, rfl⟩ : ∃ m, n = m + 1 := ⟨n - 1, by omega⟩
    have := hd [] (fun l hl => by simp [peek, eofTok, contLevel] at hl) m 0 (by omega)
    rw [List.append_nil] at this
    exact ole_okP this

/-! ## conditions -/

inductive CondsRend : List (Bool × Expr) → List Token → Prop where
  | nil : CondsRend [] []
  | cons {w : Bool} {x : Expr} {ts rest : List Token} {cs : List (Bool × Expr)} : ReadsAt 0 x ts → CondsRend cs rest →
      CondsRend ((w, x) :: cs) (idT (if w then "when" else "unless") :: opT "{" :: (ts ++ opT "}" :: rest))

theorem conditions_read {cs : List (Bool × Expr)} {tc : List Token} (h : CondsRend cs tc) :
    ∃ d, ∀ (rest : List Token) (m n : Nat), d ≤ m → d ≤ n → conditions m n (tc ++ opT ";" :: rest) = okP (cs, opT ";" :: rest) := by
  induction h with
  | nil =>
    refine ⟨1, fun rest m n _ hn => ?_⟩
    obtain ⟨n', rfl⟩ : ∃ n', n = n' + 1 := ⟨n - 1, by omega⟩
    unfold conditions
    simp [peek, opT]
  | @cons w x ts tl cs hx _ ih =>
    obtain ⟨dx, hx⟩ := hx
    obtain ⟨d', ih⟩ := ih
    refine ⟨dx + d' + 1, fun rest m n hm hn => ?_⟩
    obtain ⟨n', rfl⟩ : ∃ n', n = n' + 1 := ⟨n - 1, by omega⟩
    obtain ⟨m', rfl⟩ : ∃ m', m = m' + 1 := ⟨m - 1, by omega⟩
    cases w
    all_goals
      have e1 : ∀ (t : Token), (t :: opT "{" :: (ts ++ opT "}" :: tl)) ++ opT ";" :: rest
          = t :: opT "{" :: (ts ++ opT "}" :: (tl ++ opT ";" :: rest)) := by intro t; simp
      simp only [Bool.false_eq_true, ↓reduceIte]
      rw [e1]
      have h1 : exprF (m' + 1) (ts ++ opT "}" :: (tl ++ opT ";" :: rest)) = okP (x, opT "}" :: (tl ++ opT ";" :: rest)) :=
        ole_okP (hx _ (stop_rbrace _) m' 0 (by omega))
      have h2 := ih rest (m' + 1) n' (by omega) (by omega)
      unfold conditions
      simp only [peek, idT, adv]
      unfold condition
      simp only [exact, peek, adv, opT, beq_self_eq_true, ↓reduceIte, bindP_some_ok]
      simp only [opT] at h1 h2
      simp [h1, bindP, okP, exact, peek, adv, h2]

/-! ## the policy head `permit ( principal , action , resource )` -/

def effectTok (e : Effect) : Token := idT (match e with | .permit => "permit" | .forbid => "forbid")

def simpleHead (e : Effect) : List Token :=
  [effectTok e, opT "(", idT "principal", opT ",", idT "action", opT ",", idT "resource", opT ")"]

theorem policyHead_simple (e : Effect) (rest : List Token) :
    policyHead (simpleHead e ++ rest) = .ok (⟨[], e, .all, .all, .all⟩, rest) := by
  cases e <;> rfl

/-- a policy without annotations and with the scope `(principal, action, resource)` -/
def SimplePolicy (p : Policy) : Prop :=
  p.annotations = [] ∧ p.principal = .all ∧ p.action = .all ∧ p.resource = .all ∧ p.position = {}

theorem policy_simple_read {p : Policy} (hp : SimplePolicy p) {tc : List Token} (hc : CondsRend p.conditions tc) :
    parsePolicy (simpleHead p.effect ++ (tc ++ [opT ";"])) = some (.ok p) := by
  obtain ⟨d, hd⟩ := conditions_read hc
  obtain ⟨ha, hpr, hac, hre, hpos⟩ := hp
  have hpk : posOfC07 (peek (simpleHead p.effect ++ (tc ++ [opT ";"]))) = {} := by
    cases p.effect <;> rfl
  have key : ∀ n, d ≤ n → policy n (simpleHead p.effect ++ (tc ++ [opT ";"])) = okP (p, []) := by
    intro n hn
    unfold policy
    rw [policyHead_simple, bindP_some_ok, hpk]
    simp only
    rw [hd [] n n hn hn, bindP_okP]
    have e2 : exact ";" (opT ";" :: []) = .ok [] := rfl
    simp only [e2, bindP_some_ok]
    cases p
    simp_all
  have hcanon := fuel_canon (fun n => policy n (simpleHead p.effect ++ (tc ++ [opT ";"])))
    (fun n n' hn => mono_policy hn _) (parseFuel (simpleHead p.effect ++ (tc ++ [opT ";"])))
    (by obtain ⟨r, hr, _⟩ := tot_policy (simpleHead p.effect ++ (tc ++ [opT ";"])); exact ⟨r, hr⟩) d _ key
  unfold parsePolicy
  have hcanon' : policy (parseFuel (simpleHead p.effect ++ (tc ++ [opT ";"]))) (simpleHead p.effect ++ (tc ++ [opT ";"])) = okP (p, []) := hcanon
  rw [hcanon']
  rfl

/-! ## lists of policies -/

theorem policy_simple_read_rest {p : Policy} (hp : SimplePolicy p) {tc : List Token} (hc : CondsRend p.conditions tc) :
    ∃ d, ∀ n, d ≤ n → ∀ rest, policy n (simpleHead p.effect ++ (tc ++ opT ";" :: rest)) = okP (p, rest) := by
  obtain ⟨d, hd⟩ := conditions_read hc
  obtain ⟨ha, hpr, hac, hre, hpos⟩ := hp
  refine ⟨d, fun n hn rest => ?_⟩
  have hpk : posOfC07 (peek (simpleHead p.effect ++ (tc ++ opT ";" :: rest))) = {} := by
    cases p.effect <;> rfl
  unfold policy
  rw [policyHead_simple, bindP_some_ok, hpk]
  simp only
  rw [hd rest n n hn hn, bindP_okP]
  have e2 : exact ";" (opT ";" :: rest) = .ok rest := rfl
  simp only [e2, bindP_some_ok]
  cases p
  simp_all

theorem mono_policiesLoop {m m' : Nat} (hm : m ≤ m') : ∀ (n n' : Nat) (ts : List Token), n ≤ n' →
    OLe (policiesLoop m n ts) (policiesLoop m' n' ts) := by
  intro n
  induction n with
  | zero => intro n' ts _; unfold policiesLoop; exact OLe.none _
  | succ n ih =>
    intro n' ts hn
    obtain ⟨k, rfl⟩ : ∃ k, n' = k + 1 := ⟨n' - 1, by omega⟩
    unfold policiesLoop
    exact ole_ite _ (OLe.refl _) (ole_bindP (mono_policy hm ts) fun r => ole_bindP (ih k _ (by omega)) fun _ => OLe.refl _)

/-- token list of a sequence of policies (what `PolicyList.MarshalCedar` writes, white space aside) -/
inductive PolsRend : List Policy → List Token → Prop where
  | nil : PolsRend [] []
  | cons {p : Policy} {tc rest : List Token} {ps : List Policy} : SimplePolicy p → CondsRend p.conditions tc → PolsRend ps rest →
      PolsRend (p :: ps) (simpleHead p.effect ++ (tc ++ opT ";" :: rest))

theorem policies_read {ps : List Policy} {ts : List Token} (h : PolsRend ps ts) :
    ∃ d, ∀ m n, d ≤ m → d ≤ n → policiesLoop m n ts = okP ps := by
  induction h with
  | nil =>
    refine ⟨1, fun m n _ hn => ?_⟩
    obtain ⟨n', rfl⟩ : ∃ n', n = n' + 1 := ⟨n - 1, by omega⟩
    rfl
  | @cons p tc rest ps hp hc _ ih =>
    obtain ⟨d1, h1⟩ := policy_simple_read_rest hp hc
    obtain ⟨d2, h2⟩ := ih
    refine ⟨d1 + d2 + 1, fun m n hm hn => ?_⟩
    obtain ⟨n', rfl⟩ : ∃ n', n = n' + 1 := ⟨n - 1, by omega⟩
    have hne : ((peek (simpleHead p.effect ++ (tc ++ opT ";" :: rest))).ty == TokType.eof) = false := by
      cases p.effect <;> rfl
    unfold policiesLoop
    simp only [hne, Bool.false_eq_true, ↓reduceIte]
    rw [h1 m (by omega) rest, bindP_okP]
    simp only
    rw [h2 m n' (by omega) (by omega), bindP_okP]

theorem parsePolicies_read {ps : List Policy} {ts : List Token} (h : PolsRend ps ts) : parsePolicies ts = some (.ok ps) := by
  obtain ⟨d, hd⟩ := policies_read h
  unfold parsePolicies
  exact fuel_canon (fun n => policiesLoop n n ts) (fun n n' hn => mono_policiesLoop hn _ _ _ hn) (parseFuel ts)
    (tot_policiesLoop _ _ ts (by unfold parseFuel; omega) (by unfold parseFuel; omega)) d _ (fun n hn => hd n n hn hn)

end CedarGo.Text
