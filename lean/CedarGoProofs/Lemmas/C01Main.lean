/-
  C01: the glue between the headline theorems and the general
  refinement theorem `eval_refines` (which is parametric in the date projections).
-/
import CedarGoProofs.Lemmas.C01RefineEval
namespace CedarGo
open Scalars Spec

namespace C01L
theorem dateOK_goDates (env : Env) (x : Expr) : dateOK goDates env x := by
  unfold dateOK
  split
  · intro t _ _; exact ⟨fun _ => rfl, fun _ => rfl⟩
  · trivial

/-- the specification's floor functions ARE what the (repaired) Go code computes, at every node:
    no side condition on the datetimes `toDate` / `toTime` are applied to -/
theorem dateOK_cedarDates (env : Env) (x : Expr) : dateOK cedarDates env x := by
  unfold dateOK
  split
  · intro t _ hin
    exact ⟨fun _ => (goToDate_eq t hin).symm, fun _ => (goToTime_eq t).symm⟩
  · trivial

theorem nodeOK_of (D : DateFns) (env : Env) (e : Expr) (hl : e.LitsWF) (hp : e.PatternsWF)
    (hd : e.All (dateOK D env)) : e.All (nodeOK D env) := by
  have := Expr.All_and e hl (Expr.All_and e hp hd)
  exact this

/-- the Go evaluator refines the specification instantiated with the Go date projections -/
theorem eval_refines_goDates (e : Expr) (env : Env) (hwf : env.WF) (hl : e.LitsWF) (hp : e.PatternsWF) :
    Refines (eval e env) (evaluateWith goDates e env) :=
  eval_refines goDates e env hwf
    (nodeOK_of goDates env e hl hp (Expr.All_mono (fun x _ => dateOK_goDates env x) e hl))

theorem eval_refines_spec (e : Expr) (env : Env) (hwf : env.WF) (hl : e.LitsWF) (hp : e.PatternsWF) :
    Refines (eval e env) (Spec.evaluate e env) :=
  eval_refines cedarDates e env hwf
    (nodeOK_of cedarDates env e hl hp (Expr.All_mono (fun x _ => dateOK_cedarDates env x) e hl))

theorem ofName_toDate : Spec.ExtFun.ofName? "toDate" = some .toDate := by decide +kernel
theorem ofName_toTime : Spec.ExtFun.ofName? "toTime" = some .toTime := by decide +kernel

end C01L
end CedarGo
