/-
  C01: hypotheses of the headline theorems (definitions) and the glue between them and the general
  refinement theorem `eval_refines` (which is parametric in the date projections).
-/
import CedarGoProofs.Lemmas.C01RefineEval
namespace CedarGo
open Scalars Spec

namespace C01L
/-- The known defect is not triggered at this node: if the node is `toDate(a)` / `toTime(a)` and `a`
    evaluates (in the Go evaluator) to a datetime, that datetime is non-negative or day-aligned. -/
def toDateSafeNode (env : Env) : Expr → Prop
  | .call fn [a] => (fn = "toDate" ∨ fn = "toTime") →
      ∀ t, eval a env = .ok (.datetime t) → 0 ≤ t ∨ t % 86400000 = 0
  | _ => True

/-- no `toDate` / `toTime` call anywhere in `e` has an argument that evaluates, in `env`, to a negative
    datetime that is not a multiple of one day (calls in branches that are not taken are included) -/
def _root_.CedarGo.Expr.ToDateSafe (e : Expr) (env : Env) : Prop := e.All (toDateSafeNode env)

def noDateCallNode : Expr → Prop
  | .call fn _ => fn ≠ "toDate" ∧ fn ≠ "toTime"
  | _ => True

/-- syntactic sufficient condition: the expression does not mention `toDate` / `toTime` at all -/
def _root_.CedarGo.Expr.NoToDateToTime (e : Expr) : Prop := e.All noDateCallNode

theorem dateOK_goDates (env : Env) (x : Expr) : dateOK goDates env x := by
  unfold dateOK
  split
  · intro t _ _; exact ⟨fun _ => rfl, fun _ => rfl⟩
  · trivial

theorem dateOK_of_safe (env : Env) (x : Expr) (h : toDateSafeNode env x) : dateOK cedarDates env x := by
  unfold dateOK
  unfold toDateSafeNode at h
  split
  · rename_i fn a
    simp only at h
    intro t ht hin
    refine ⟨fun hf => ?_, fun hf => ?_⟩
    · exact ((goToDate_eq_iff t hin).mpr (h (.inl hf) t ht)).symm
    · exact ((goToTime_eq_iff t).mpr (h (.inr hf) t ht)).symm
  · trivial

theorem safe_of_noDateCall (env : Env) (x : Expr) (h : noDateCallNode x) : toDateSafeNode env x := by
  unfold toDateSafeNode
  split
  · rename_i fn a
    simp only [noDateCallNode] at h
    intro hf
    rcases hf with hf | hf
    · exact absurd hf h.1
    · exact absurd hf h.2
  · trivial

theorem nodeOK_of (D : DateFns) (env : Env) (e : Expr) (hl : e.LitsWF) (hp : e.PatternsWF)
    (hd : e.All (dateOK D env)) : e.All (nodeOK D env) := by
  have := Expr.All_and e hl (Expr.All_and e hp hd)
  exact this

/-- the Go evaluator refines the specification instantiated with the Go date projections -/
theorem eval_refines_goDates (e : Expr) (env : Env) (hwf : env.WF) (hl : e.LitsWF) (hp : e.PatternsWF) :
    Refines (eval e env) (evaluateWith goDates e env) :=
  eval_refines goDates e env hwf
    (nodeOK_of goDates env e hl hp (Expr.All_mono (fun x _ => dateOK_goDates env x) e hl))

theorem eval_refines_spec (e : Expr) (env : Env) (hwf : env.WF) (hl : e.LitsWF) (hp : e.PatternsWF)
    (hd : e.ToDateSafe env) : Refines (eval e env) (Spec.evaluate e env) :=
  eval_refines cedarDates e env hwf
    (nodeOK_of cedarDates env e hl hp (Expr.All_mono (fun x hx => dateOK_of_safe env x hx) e hd))

theorem ofName_toDate : Spec.ExtFun.ofName? "toDate" = some .toDate := by decide +kernel
theorem ofName_toTime : Spec.ExtFun.ofName? "toTime" = some .toTime := by decide +kernel

end C01L
end CedarGo
