/-
  Helper lemmas for C01: one lemma per operator relating the model's "convert the operands, then
  compute" (with the operands already evaluated) to the specification's `apply₁` / `apply₂`.
-/
import CedarGoProofs.Lemmas.C01Refine
import CedarGoProofs.Properties.C03
namespace CedarGo
open Scalars
namespace C01L

/-! ### Unary operators -/

theorem un_not (v : Value) : (toBool v >>= fun b => (.ok (.bool (!b)) : Res)) = Spec.apply₁ .not v := by
  cases v <;> rfl

theorem un_isEmpty (v : Value) : (toSet v >>= fun s => (.ok (.bool s.isEmpty) : Res)) = Spec.apply₁ .isEmpty v := by
  cases v <;> rfl

theorem un_neg (v : Value) (h : v.WF) :
    (toLong v >>= fun n => if (checkedNeg n).2 = true then (.ok (.long (checkedNeg n).1) : Res) else .error .overflow) =
      Spec.apply₁ .neg v := by
  cases v <;> try rfl
  rename_i n
  simp only [Value.WF] at h
  simp only [toLong, bind, Except.bind, Spec.apply₁]
  exact checked_eq_intOrErr (checkedNeg_spec n h)

theorem un_like (p : Pattern) (hp : WFPattern p) (v : Value) :
    (toStr v >>= fun s => (.ok (.bool (Pattern.matches p s)) : Res)) = Spec.applyLike p v := by
  cases v <;> try rfl
  rename_i s
  simp only [toStr, bind, Except.bind, Spec.applyLike, Pattern.matches, matchComps_eq_wildcardMatch p _ hp]

theorem un_is (ty : String) (v : Value) :
    (toEntity v >>= fun u => (.ok (.bool (u.1 == ty)) : Res)) = Spec.applyIs ty v := by
  cases v <;> rfl

/-! ### `in` -/

theorem toEntity_eq : toEntity = Spec.asEntityUID := by
  funext v; cases v <;> rfl

theorem reach_iff {es : Entities} {a b : UID} : Spec.Reach es a b ↔ Reach es a b := by
  constructor
  · intro h
    induction h with
    | refl => exact .refl _
    | step hg hp _ ih => exact .step hg hp ih
  · intro h
    induction h with
    | refl => exact .refl _
    | step hg hp _ ih => exact .step hg hp ih

theorem entityInOne_eq (es : Entities) (a b : UID) : entityInOne es a b = some (Spec.inₑ es a b) := by
  obtain ⟨r, hr⟩ := C03_entityInOne_total es a b
  have hc := C03_entityInOne_correct es a b
  rw [hr] at hc ⊢
  congr 1
  unfold Spec.inₑ
  cases r with
  | true => simp [reach_iff, hc.mp rfl]
  | false =>
    have : ¬ Reach es a b := fun h => by simpa using hc.mpr h
    simp [reach_iff, this]

theorem entityInSet_eq (es : Entities) (a : UID) (us : List UID) :
    entityInSet es a us = some (us.any (Spec.inₑ es a)) := by
  obtain ⟨r, hr⟩ := C03_entityInSet_total es a us
  have hc := C03_entityInSet_correct es a us
  rw [hr] at hc ⊢
  congr 1
  cases r with
  | true =>
    obtain ⟨b, hb, hreach⟩ := hc.mp rfl
    symm
    rw [List.any_eq_true]
    exact ⟨b, hb, by simp [Spec.inₑ, reach_iff, hreach]⟩
  | false =>
    symm
    rw [Bool.eq_false_iff]
    intro hany
    rw [List.any_eq_true] at hany
    obtain ⟨b, hb, hin⟩ := hany
    have : Reach es a b := by simpa [Spec.inₑ, reach_iff] using hin
    have := hc.mpr ⟨b, hb, this⟩
    simp at this

theorem doIn_eq (env : Env) (u : UID) (v₂ : Value) :
    doIn env u v₂ = Spec.apply₂ env.entities .in_ (.entity u.1 u.2) v₂ := by
  cases v₂ <;> try rfl
  · rename_i t i
    simp only [doIn, Spec.apply₂, entityInOne_eq]
  · rename_i xs
    simp only [doIn, Spec.apply₂, Spec.inₛ, toEntity_eq]
    cases xs.mapM Spec.asEntityUID with
    | error e => rfl
    | ok us => simp only [entityInSet_eq]; rfl

theorem bin_in (env : Env) (v₁ v₂ : Value) :
    (toEntity v₁ >>= fun u => doIn env u v₂) = Spec.apply₂ env.entities .in_ v₁ v₂ := by
  cases v₁ <;> try (simp [toEntity, bind, Except.bind, Spec.apply₂]; done)
  rename_i t i
  simp only [toEntity, bind, Except.bind]
  exact doIn_eq env (t, i) v₂

/-! ### Binary operators -/

theorem bin_eq (es : Entities) (v₁ v₂ : Value) : (.ok (.bool (v₁.beq v₂)) : Res) = Spec.apply₂ es .eq v₁ v₂ := by
  simp [Spec.apply₂]
theorem bin_ne (es : Entities) (v₁ v₂ : Value) : (.ok (.bool (!v₁.beq v₂)) : Res) = Spec.apply₂ es .ne v₁ v₂ := by
  simp [Spec.apply₂]

theorem bin_arith (es : Entities) (op : BinOp) (f : Int → Int → Int × Bool) (m : Int → Int → Int)
    (hspec : ∀ a b, InI64 a → InI64 b → ((f a b).2 = true ↔ InI64 (m a b)) ∧ ((f a b).2 = true → (f a b).1 = m a b))
    (hap : ∀ a b, Spec.apply₂ es op (.long a) (.long b) = Spec.intOrErr (m a b))
    (hty : ∀ v₁ v₂, (∀ a, v₁ ≠ .long a) ∨ (∀ b, v₂ ≠ .long b) → Spec.apply₂ es op v₁ v₂ = .error .type)
    (v₁ v₂ : Value) (h₁ : v₁.WF) (h₂ : v₂.WF) :
    (toLong v₁ >>= fun a => toLong v₂ >>= fun b =>
        if (f a b).2 = true then (.ok (.long (f a b).1) : Res) else .error .overflow) = Spec.apply₂ es op v₁ v₂ := by
  by_cases hl : ∃ a, v₁ = .long a
  · obtain ⟨a, rfl⟩ := hl
    by_cases hr : ∃ b, v₂ = .long b
    · obtain ⟨b, rfl⟩ := hr
      simp only [Value.WF] at h₁ h₂
      simp only [toLong, bind, Except.bind, hap]
      exact checked_eq_intOrErr (hspec a b h₁ h₂)
    · have hr' : ∀ b, v₂ ≠ .long b := fun b hb => hr ⟨b, hb⟩
      rw [hty _ _ (.inr hr')]
      cases v₂ <;> first | rfl | exact absurd rfl (hr' _)
  · have hl' : ∀ a, v₁ ≠ .long a := fun a ha => hl ⟨a, ha⟩
    rw [hty _ _ (.inl hl')]
    cases v₁ <;> first | rfl | exact absurd rfl (hl' _)

theorem bin_add (es : Entities) (v₁ v₂ : Value) (h₁ : v₁.WF) (h₂ : v₂.WF) :
    (toLong v₁ >>= fun a => toLong v₂ >>= fun b =>
        if (checkedAdd a b).2 = true then (.ok (.long (checkedAdd a b).1) : Res) else .error .overflow) =
      Spec.apply₂ es .add v₁ v₂ := by
  apply bin_arith es .add checkedAdd (· + ·) checkedAdd_spec (fun a b => by simp [Spec.apply₂]) _ v₁ v₂ h₁ h₂
  intro v₁ v₂ h
  cases v₁ <;> cases v₂ <;> simp_all [Spec.apply₂]

theorem bin_sub (es : Entities) (v₁ v₂ : Value) (h₁ : v₁.WF) (h₂ : v₂.WF) :
    (toLong v₁ >>= fun a => toLong v₂ >>= fun b =>
        if (checkedSub a b).2 = true then (.ok (.long (checkedSub a b).1) : Res) else .error .overflow) =
      Spec.apply₂ es .sub v₁ v₂ := by
  apply bin_arith es .sub checkedSub (· - ·) checkedSub_spec (fun a b => by simp [Spec.apply₂]) _ v₁ v₂ h₁ h₂
  intro v₁ v₂ h
  cases v₁ <;> cases v₂ <;> simp_all [Spec.apply₂]

theorem bin_mul (es : Entities) (v₁ v₂ : Value) (h₁ : v₁.WF) (h₂ : v₂.WF) :
    (toLong v₁ >>= fun a => toLong v₂ >>= fun b =>
        if (checkedMul a b).2 = true then (.ok (.long (checkedMul a b).1) : Res) else .error .overflow) =
      Spec.apply₂ es .mul v₁ v₂ := by
  apply bin_arith es .mul checkedMul (· * ·) checkedMul_spec (fun a b => by simp [Spec.apply₂]) _ v₁ v₂ h₁ h₂
  intro v₁ v₂ h
  cases v₁ <;> cases v₂ <;> simp_all [Spec.apply₂]

theorem bin_contains (es : Entities) (v₁ v₂ : Value) :
    (toSet v₁ >>= fun s => (.ok (.bool (v₂.memL s)) : Res)) = Spec.apply₂ es .contains v₁ v₂ := by
  cases v₁ <;> simp [toSet, bind, Except.bind, Spec.apply₂]

theorem bin_containsAll (es : Entities) (v₁ v₂ : Value) :
    (toSet v₁ >>= fun s => toSet v₂ >>= fun t => (.ok (.bool (t.all (fun x => x.memL s))) : Res)) =
      Spec.apply₂ es .containsAll v₁ v₂ := by
  cases v₁ <;> cases v₂ <;> simp [toSet, bind, Except.bind, Spec.apply₂]

theorem bin_containsAny (es : Entities) (v₁ v₂ : Value) :
    (toSet v₁ >>= fun s => toSet v₂ >>= fun t => (.ok (.bool (t.any (fun x => x.memL s))) : Res)) =
      Spec.apply₂ es .containsAny v₁ v₂ := by
  cases v₁ <;> cases v₂ <;> simp [toSet, bind, Except.bind, Spec.apply₂]

end C01L
end CedarGo
