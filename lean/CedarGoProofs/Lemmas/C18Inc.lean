/-
  C18 proof device: the scanner WITHOUT buffers.  `IState` keeps the Go scanner's incremental
  line/column bookkeeping literally but reads from the whole remaining input.  The refinement proof is
  split into  buffered scanner ≃ IState (C18Next: buffer/refill/tokBuf reasoning only)  and
  IState ≃ pure lexer (C18Pos: the line/column bookkeeping computes `posOf`).
-/
import CedarGo.Model.Text.Scanner
namespace CedarGo.Text.Lx

structure IState where
  doc : List UInt8
  fails : Bool
  rest : List UInt8
  off : Nat
  line : Nat
  column : Nat
  lastLineLen : Nat
  lastCharLen : Nat
  tokStart : Option Nat
  position : Pos
  err : Option LexErr

def IState.init (doc : List UInt8) (fails : Bool) : IState :=
  { doc, fails, rest := doc, off := 0, line := 1, column := 0, lastLineLen := 0, lastCharLen := 0,
    tokStart := none, position := ⟨0, 0, 0⟩, err := none }

/-- `advance` + `special situations` of `next` -/
def IState.advance (ch : Rune) (width : Nat) (s : IState) : Rune × IState :=
  let s := { s with rest := s.rest.drop width, off := s.off + width, lastCharLen := width, column := s.column + 1 }
  if ch == 0 then (ch, { s with err := some .nul })
  else if ch == 10 then (ch, { s with line := s.line + 1, lastLineLen := s.column, column := 0 })
  else (ch, s)

def IState.next (s : IState) : Rune × IState :=
  match s.rest with
  | [] => (runeEOF, { s with column := if s.lastCharLen > 0 then s.column + 1 else s.column, lastCharLen := 0,
                              err := if s.fails then some .read else s.err })
  | b :: bs =>
    let rw := decodeRune (b :: bs)
    if rw.1 == runeError && rw.2 == 1 then
      (rw.1, { s with rest := bs, off := s.off + 1, lastCharLen := 1, column := s.column + 1, err := some .invalidUTF8 })
    else s.advance rw.1 rw.2

def IState.tokMark (s : IState) : IState :=
  let st := s.off - s.lastCharLen
  if s.column > 0 then { s with tokStart := some st, position := ⟨st, s.line, s.column⟩ }
  else { s with tokStart := some st, position := ⟨st, s.line - 1, s.lastLineLen⟩ }

def IState.tokEnd (s : IState) : (Pos × List UInt8) × IState :=
  let text := match s.tokStart with
    | none => []
    | some st => (s.doc.drop st).take (s.off - s.lastCharLen - st)
  ((s.position, text), s)

def incSrc : Src IState where
  next := IState.next
  error := fun e s => { s with err := some e }
  tokKill := fun s => { s with tokStart := none, position := { s.position with line := 0 } }
  tokMark := IState.tokMark
  tokEnd := IState.tokEnd
  err := fun s => s.err

end CedarGo.Text.Lx
