/-
  Helper lemmas for C07: the spec-side printers `render false` (= renderMin) and `render true` (= renderFull)
  produce valid renderings (`Rend`) on the decidable fragment `inFrag`.
-/
import CedarGoProofs.Lemmas.C07Round
import CedarGo.Model.Text.Fragment
namespace CedarGo.Text
open CedarGo

theorem noFFFD_iff (s : String) : noFFFD s = true ↔ NoFFFD s := by
  simp [noFFFD, NoFFFD]

/-- `Rend` is closed under lowering the required level -/
theorem rend_mono {p lvl : Nat} {x : Expr} {ts : List Token} (h : Rend (.e p x) ts) (hl : lvl ≤ p) : Rend (.e lvl x) ts := by
  cases h with
  | paren h => exact .paren h
  | litBool b => exact .litBool b
  | litNat n hn => exact .litNat n hn
  | litNeg n hn hp => exact .litNeg n hn (by omega)
  | litStr s hs => exact .litStr s hs
  | var v => exact .var v
  | entity ty id first parts hp hid => exact .entity ty id first parts hp hid
  | is ty first parts hpa h hp => exact .is ty first parts hpa h (by omega)
  | isIn ty first parts hpa h1 h2 hp => exact .isIn ty first parts hpa h1 h2 (by omega)
  | not h hp => exact .not h (by omega)
  | neg h hi hp => exact .neg h hi (by omega)
  | isEmpty h hp => exact .isEmpty h (by omega)
  | infixOp hf h1 h2 hp => exact .infixOp hf h1 h2 (by omega)
  | method hf h1 h2 hp => exact .method hf h1 h2 (by omega)
  | ite h1 h2 h3 => have : lvl = 0 := by omega
                    subst this; exact .ite h1 h2 h3
  | accessDot a h hp => exact .accessDot a h (by omega)
  | accessIdx a ha h hp => exact .accessIdx a ha h (by omega)
  | hasId a h hp => exact .hasId a h (by omega)
  | hasStr a ha h hp => exact .hasStr a ha h (by omega)
  | set h => exact .set h
  | record h hn => exact .record h hn
  | callFn hf h => exact .callFn hf h
  | callMethod hm h1 h2 hp => exact .callMethod hm h1 h2 (by omega)

/-- from the natural-level rendering to the rendering of an operand -/
theorem rend_wrap {x : Expr} {ts : List Token} {p : Nat} (h : Rend (.e p x) ts) (b : Bool) (lvl : Nat) (hb : b = false → lvl ≤ p) :
    Rend (.e lvl x) (wrapIf b ts) := by
  unfold wrapIf
  cases b with
  | true => exact .paren (rend_mono h (Nat.zero_le _))
  | false => exact rend_mono h (hb rfl)

theorem isMethodName_ne (fn s : String) (h : isMethodName fn = true) (hs : isMethodName s = false) : (fn == s) = false := by
  apply beq_eq_false_iff_ne.mpr
  intro heq
  rw [heq, hs] at h
  cases h

theorem mkMethod_ext (fn : String) (h : isMethodName fn = true) (recv : Expr) (rest : List Expr) :
    mkMethod fn recv rest = .ok (.call fn (recv :: rest)) := by
  have e1 := isMethodName_ne fn "contains" h rfl
  have e2 := isMethodName_ne fn "containsAll" h rfl
  have e3 := isMethodName_ne fn "containsAny" h rfl
  have e4 := isMethodName_ne fn "hasTag" h rfl
  have e5 := isMethodName_ne fn "getTag" h rfl
  have e6 := isMethodName_ne fn "isEmpty" h rfl
  unfold mkMethod
  simp only [e1, e2, e3, e4, e5, e6, Bool.false_eq_true, ↓reduceIte]
  unfold isMethodName at h
  split at h
  · rename_i a m hl
    subst h
    simp [hl]
  · cases h

theorem checkFunction_of_callOK (fn : String) (args : List Expr) (hm : isMethodName fn = false) (h : callOK fn args = true) :
    checkFunction fn = .ok () := by
  unfold callOK at h
  simp only [hm, Bool.false_eq_true, ↓reduceIte] at h
  split at h
  · rename_i u hu; cases u; exact hu
  · cases h

theorem isIdentName_ne_rbrace (k : String) (h : isIdentName k = true) : k ≠ "}" := by
  intro hk; subst hk; revert h; decide

theorem render_ne_nil (full : Bool) (e : Expr) (h : inFrag full e = true) : render full e ≠ [] := by
  cases e with
  | lit v =>
    cases v <;> simp [inFrag] at h <;> simp [render, renderLit]
    split <;> simp
  | var v => simp [render]
  | unop op e => cases op <;> simp [render]
  | binop op l r => simp only [render]; split <;> simp
  | ite c t e => simp [render]
  | access e a => simp only [render, accessToks]; split <;> simp
  | has e a => simp [render]
  | like e p => simp [inFrag] at h
  | is e ty => simp [render]
  | isIn e ty r => simp [render]
  | set es => simp [render]
  | record kes => simp [render]
  | call fn args =>
    simp only [inFrag, Bool.and_eq_true, callOK] at h
    cases args with
    | nil =>
      simp only [render]
      split
      · rename_i hm; simp [hm] at h
      · simp
    | cons r rest =>
      simp only [render]
      split <;> simp

theorem peek_append_of_ne {ts : List Token} (h : ts ≠ []) (more : List Token) : peek (ts ++ more) = peek ts := by
  cases ts with
  | nil => exact absurd rfl h
  | cons _ _ => rfl

/-- head of an operand: parenthesised, or the operand's own head -/
theorem peek_wrapIf (b : Bool) (ts more : List Token) (h : ts ≠ []) :
    peek (wrapIf b ts ++ more) = if b then opT "(" else peek ts := by
  cases b with
  | true => rfl
  | false => simp only [wrapIf, Bool.false_eq_true, ↓reduceIte]; exact peek_append_of_ne h more

theorem head_operand (e : Expr) (q : Nat) (more : List Token) (hne : render false e ≠ [])
    (h : prec e < q ∨ ((peek (render false e)).ty == .int) = false) :
    ((peek (wrapIf (false || decide (prec e < q)) (render false e) ++ more)).ty == .int) = false := by
  rw [peek_wrapIf _ _ _ hne]
  by_cases hq : prec e < q
  · simp [hq, opT]
  · simp only [Bool.false_or, hq, decide_false, Bool.false_eq_true, ↓reduceIte]
    rcases h with h | h
    · exact absurd h hq
    · exact h

/-- if `headInt e` is false, the `renderMin` rendering of `e` does not start with an INT token -/
theorem headInt_spec : ∀ (e : Expr), inFrag false e = true → headInt e = false → ((peek (render false e)).ty == .int) = false
  | .lit v, h, hh => by
    cases v <;> simp [inFrag] at h
    · rename_i b; cases b <;> rfl
    · rename_i n
      simp only [headInt, decide_eq_false_iff_not, Int.not_le] at hh
      simp [render, renderLit, hh, peek, opT]
    · rfl
    · rename_i ty id
      obtain ⟨first, parts, hp⟩ := pathOK_of_isPathName ty h.1
      simp only [render, renderLit, hp.toks]
      rfl
  | .var _, _, _ => rfl
  | .unop .not _, _, _ => rfl
  | .unop .neg _, _, _ => rfl
  | .unop .isEmpty e, h, hh => by
    simp only [inFrag] at h
    simp only [headInt, Bool.and_eq_false_iff, decide_eq_false_iff_not, Nat.not_le] at hh
    simp only [render]
    refine head_operand e 7 _ (render_ne_nil false e h) ?_
    rcases hh with hh | hh
    · exact .inl hh
    · exact .inr (headInt_spec e h hh)
  | .binop op l r, h, hh => by
    simp only [inFrag, Bool.and_eq_true] at h
    simp only [headInt] at hh
    simp only [render]
    cases hf : binForm op with
    | infixOp tok lp rp =>
      simp only [hf, Bool.and_eq_false_iff, decide_eq_false_iff_not, Nat.not_le] at hh ⊢
      refine head_operand l lp _ (render_ne_nil false l h.1) ?_
      rcases hh with hh | hh
      · exact .inl hh
      · exact .inr (headInt_spec l h.1 hh)
    | method name =>
      simp only [hf, Bool.and_eq_false_iff, decide_eq_false_iff_not, Nat.not_le] at hh ⊢
      refine head_operand l 7 _ (render_ne_nil false l h.1) ?_
      rcases hh with hh | hh
      · exact .inl hh
      · exact .inr (headInt_spec l h.1 hh)
  | .ite _ _ _, _, _ => rfl
  | .access e a, h, hh => by
    simp only [inFrag, Bool.and_eq_true] at h
    simp only [headInt, Bool.and_eq_false_iff, decide_eq_false_iff_not, Nat.not_le] at hh
    simp only [render]
    refine head_operand e 7 _ (render_ne_nil false e h.1) ?_
    rcases hh with hh | hh
    · exact .inl hh
    · exact .inr (headInt_spec e h.1 hh)
  | .has e a, h, hh => by
    simp only [inFrag, Bool.and_eq_true] at h
    simp only [headInt, Bool.and_eq_false_iff, decide_eq_false_iff_not, Nat.not_le] at hh
    simp only [render]
    refine head_operand e 4 _ (render_ne_nil false e h.1) ?_
    rcases hh with hh | hh
    · exact .inl hh
    · exact .inr (headInt_spec e h.1 hh)
  | .like _ _, h, _ => by simp [inFrag] at h
  | .is e ty, h, hh => by
    simp only [inFrag, Bool.and_eq_true] at h
    simp only [headInt, Bool.and_eq_false_iff, decide_eq_false_iff_not, Nat.not_le] at hh
    simp only [render]
    refine head_operand e 4 _ (render_ne_nil false e h.1) ?_
    rcases hh with hh | hh
    · exact .inl hh
    · exact .inr (headInt_spec e h.1 hh)
  | .isIn e ty r, h, hh => by
    simp only [inFrag, Bool.and_eq_true] at h
    simp only [headInt, Bool.and_eq_false_iff, decide_eq_false_iff_not, Nat.not_le] at hh
    simp only [render]
    refine head_operand e 4 _ (render_ne_nil false e h.1.1) ?_
    rcases hh with hh | hh
    · exact .inl hh
    · exact .inr (headInt_spec e h.1.1 hh)
  | .set _, _, _ => rfl
  | .record _, _, _ => rfl
  | .call fn [], h, _ => by
    simp only [inFrag, Bool.and_eq_true, callOK] at h
    simp only [render]
    split
    · rename_i hm; simp [hm] at h
    · rfl
  | .call fn (recv :: rest), h, hh => by
    simp only [inFrag, inFragList, Bool.and_eq_true] at h
    simp only [render]
    split
    · rename_i hm
      simp only [headInt, hm, Bool.true_and, Bool.and_eq_false_iff, decide_eq_false_iff_not, Nat.not_le] at hh
      refine head_operand recv 7 _ (render_ne_nil false recv h.2.1) ?_
      rcases hh with hh | hh
      · exact .inl hh
      · exact .inr (headInt_spec recv h.2.1 hh)
    · rfl

theorem keyTok_attrTok (full : Bool) (k : String) (hk : noFFFD k = true) : KeyTok k (attrTok full k) := by
  unfold attrTok
  split
  · rename_i h
    simp only [Bool.and_eq_true, Bool.not_eq_true'] at h
    exact keyTok_ident k (isIdentName_ne_rbrace k h.2)
  · exact keyTok_string k ((noFFFD_iff k).mp hk)

theorem int_natAbs_neg (n : Int) (h : n < 0) : -(Int.ofNat n.natAbs) = n := by
  show -((n.natAbs : Nat) : Int) = n
  omega

theorem int_toNat_nonneg (n : Int) (h : ¬ n < 0) : Int.ofNat n.toNat = n := by
  show ((n.toNat : Nat) : Int) = n
  omega

theorem wrap_le {full : Bool} {e : Expr} {q : Nat} (hb : (full || decide (prec e < q)) = false) : q ≤ prec e := by
  simp only [Bool.or_eq_false_iff, decide_eq_false_iff_not, Nat.not_lt] at hb
  exact hb.2

mutual
/-- the un-parenthesised rendering of `e` is a valid rendering at the natural level of `e` -/
theorem render_rend (full : Bool) : ∀ (e : Expr), inFrag full e = true → Rend (.e (prec e) e) (render full e)
  | .lit v, h => by
    cases v <;> simp [inFrag] at h
    · rename_i b; exact .litBool b
    · rename_i n
      simp only [render, renderLit]
      by_cases hn : n < 0
      · have hp : prec (.lit (.long n)) = 6 := by simp [prec, hn]
        rw [hp]
        simp only [hn, ↓reduceIte]
        have := Rend.litNeg (lvl := 6) n.natAbs (by omega) (Nat.le_refl _)
        rw [int_natAbs_neg n hn] at this
        exact this
      · have hp : prec (.lit (.long n)) = 8 := by simp [prec, hn]
        rw [hp]
        simp only [hn, ↓reduceIte]
        have := Rend.litNat (lvl := 8) n.toNat (by omega)
        rw [int_toNat_nonneg n hn] at this
        exact this
    · rename_i s; exact .litStr s ((noFFFD_iff s).mp h)
    · rename_i ty id
      obtain ⟨first, parts, hp⟩ := pathOK_of_isPathName ty h.1
      exact .entity ty id first parts hp ((noFFFD_iff id).mp h.2)
  | .var v, _ => .var v
  | .unop .not e, h => by
    simp only [inFrag] at h
    exact .not (rend_wrap (render_rend full e h) (full || decide (prec e < 6)) 6 wrap_le) (Nat.le_refl _)
  | .unop .neg e, h => by
    simp only [inFrag, Bool.and_eq_true] at h
    have hr := render_rend full e h.1
    have hne := render_ne_nil full e h.1
    have hp : prec (.unop .neg e) = 6 := rfl
    rw [hp]
    simp only [render]
    refine .neg (rend_wrap hr (full || decide (prec e < 6) || isNonNegLong e) 6 (by
      intro hb
      simp only [Bool.or_eq_false_iff] at hb
      exact wrap_le (full := full) (by simp [hb.1.1, hb.1.2]))) ?_ (Nat.le_refl _)
    have hpk := peek_wrapIf (full || decide (prec e < 6) || isNonNegLong e) (render full e) [] hne
    rw [List.append_nil] at hpk
    rw [hpk]
    by_cases hb : (full || decide (prec e < 6) || isNonNegLong e) = true
    · simp [hb, opT]
    · simp only [hb, Bool.false_eq_true, ↓reduceIte]
      simp only [Bool.or_eq_true, decide_eq_true_eq, not_or, Bool.not_eq_true] at hb
      have hfull : full = false := hb.1.1
      subst hfull
      have h2 := h.2
      simp only [Bool.false_or, Bool.or_eq_true, decide_eq_true_eq, Bool.not_eq_true'] at h2
      rcases h2 with (h2 | h2) | h2
      · exact absurd h2 hb.1.2
      · rw [hb.2] at h2; cases h2
      · exact headInt_spec e h.1 h2
  | .unop .isEmpty e, h => by
    simp only [inFrag] at h
    exact .isEmpty (rend_wrap (render_rend full e h) (full || decide (prec e < 7)) 7 wrap_le) (Nat.le_refl _)
  | .binop op l r, h => by
    simp only [inFrag, Bool.and_eq_true] at h
    have hl := render_rend full l h.1
    have hr := render_rend full r h.2
    have hp : prec (.binop op l r) = binPrec op := rfl
    rw [hp]
    simp only [render]
    cases hf : binForm op with
    | infixOp tok lp rp =>
      simp only
      exact .infixOp hf (rend_wrap hl (full || decide (prec l < lp)) lp wrap_le) (rend_wrap hr (full || decide (prec r < rp)) rp wrap_le)
        (Nat.le_refl _)
    | method name =>
      simp only
      have hp7 : binPrec op = 7 := by cases op <;> simp [binForm] at hf <;> rfl
      rw [hp7]
      exact .method hf (rend_wrap hl (full || decide (prec l < 7)) 7 wrap_le) (rend_wrap hr full 0 (fun _ => Nat.zero_le _)) (Nat.le_refl _)
  | .ite c t e, h => by
    simp only [inFrag, Bool.and_eq_true] at h
    exact .ite (rend_wrap (render_rend full c h.1.1) full 0 (fun _ => Nat.zero_le _))
      (rend_wrap (render_rend full t h.1.2) full 0 (fun _ => Nat.zero_le _))
      (rend_wrap (render_rend full e h.2) full 0 (fun _ => Nat.zero_le _))
  | .access e a, h => by
    simp only [inFrag, Bool.and_eq_true] at h
    have hr := rend_wrap (render_rend full e h.1) (full || decide (prec e < 7)) 7 wrap_le
    have hp : prec (.access e a) = 7 := rfl
    rw [hp]
    simp only [render, accessToks]
    by_cases hc : (!full && isIdentName a) = true
    · simp only [hc, ↓reduceIte]
      exact .accessDot a hr (Nat.le_refl _)
    · simp only [hc, Bool.false_eq_true, ↓reduceIte]
      exact .accessIdx a ((noFFFD_iff a).mp h.2) hr (Nat.le_refl _)
  | .has e a, h => by
    simp only [inFrag, Bool.and_eq_true] at h
    have hr := rend_wrap (render_rend full e h.1) (full || decide (prec e < 4)) 4 wrap_le
    have hp : prec (.has e a) = 3 := rfl
    rw [hp]
    simp only [render, attrTok]
    by_cases hc : (!full && isIdentName a) = true
    · simp only [hc, ↓reduceIte]
      exact .hasId a hr (Nat.le_refl _)
    · simp only [hc, Bool.false_eq_true, ↓reduceIte]
      exact .hasStr a ((noFFFD_iff a).mp h.2) hr (Nat.le_refl _)
  | .like _ _, h => by simp [inFrag] at h
  | .is e ty, h => by
    simp only [inFrag, Bool.and_eq_true] at h
    obtain ⟨first, parts, hp⟩ := pathOK_of_isPathName ty h.2
    exact .is ty first parts hp (rend_wrap (render_rend full e h.1) (full || decide (prec e < 4)) 4 wrap_le) (Nat.le_refl _)
  | .isIn e ty r, h => by
    simp only [inFrag, Bool.and_eq_true] at h
    obtain ⟨first, parts, hp⟩ := pathOK_of_isPathName ty h.1.2
    exact .isIn ty first parts hp (rend_wrap (render_rend full e h.1.1) (full || decide (prec e < 4)) 4 wrap_le)
      (rend_wrap (render_rend full r h.2) (full || decide (prec r < 4)) 4 wrap_le) (Nat.le_refl _)
  | .set es, h => by
    simp only [inFrag] at h
    exact .set (renderArgs_rend full es h)
  | .record kes, h => by
    simp only [inFrag, Bool.and_eq_true, decide_eq_true_eq] at h
    exact .record (renderKVs_rend full kes h.1) h.2
  | .call fn [], h => by
    simp only [inFrag, Bool.and_eq_true] at h
    by_cases hm : isMethodName fn = true
    · simp [callOK, hm] at h
    · have hm' : isMethodName fn = false := by simpa using hm
      have hp : prec (.call fn []) = 8 := by simp [prec, hm']
      rw [hp]
      simp only [render, hm', Bool.false_eq_true, ↓reduceIte]
      exact .callFn (checkFunction_of_callOK fn [] hm' h.1) .argsNil
  | .call fn (recv :: rest), h => by
    simp only [inFrag, inFragList, Bool.and_eq_true] at h
    by_cases hm : isMethodName fn = true
    · have hp : prec (.call fn (recv :: rest)) = 7 := by simp [prec, hm]
      rw [hp]
      simp only [render, hm, ↓reduceIte]
      exact .callMethod (mkMethod_ext fn hm recv rest)
        (rend_wrap (render_rend full recv h.2.1) (full || decide (prec recv < 7)) 7 wrap_le)
        (renderArgs_rend full rest h.2.2) (Nat.le_refl _)
    · have hm' : isMethodName fn = false := by simpa using hm
      have hp : prec (.call fn (recv :: rest)) = 8 := by simp [prec, hm']
      rw [hp]
      simp only [render, hm', Bool.false_eq_true, ↓reduceIte]
      have hargs : inFragList full (recv :: rest) = true := by simp [inFragList, h.2.1, h.2.2]
      exact .callFn (checkFunction_of_callOK fn _ hm' h.1) (renderArgs_rend full (recv :: rest) hargs)
theorem renderArgs_rend (full : Bool) : ∀ (es : List Expr), inFragList full es = true → Rend (.args es) (renderArgs full es)
  | [], _ => .argsNil
  | [e], h => by
    simp only [inFragList, Bool.and_true] at h
    exact .argsOne (rend_wrap (render_rend full e h) full 0 (fun _ => Nat.zero_le _))
  | e :: e' :: es, h => by
    simp only [inFragList, Bool.and_eq_true] at h
    have h2 : inFragList full (e' :: es) = true := by simp [inFragList, h.2.1, h.2.2]
    exact .argsCons (rend_wrap (render_rend full e h.1) full 0 (fun _ => Nat.zero_le _)) (renderArgs_rend full (e' :: es) h2)
theorem renderKVs_rend (full : Bool) : ∀ (kes : List (String × Expr)), inFragKVs full kes = true → Rend (.kvs kes) (renderKVs full kes)
  | [], _ => .kvsNil
  | [(k, e)], h => by
    simp only [inFragKVs, Bool.and_true, Bool.and_eq_true] at h
    exact .kvsOne (keyTok_attrTok full k h.1) (rend_wrap (render_rend full e h.2) full 0 (fun _ => Nat.zero_le _))
  | (k, e) :: ke' :: kes, h => by
    rw [inFragKVs] at h
    simp only [Bool.and_eq_true] at h
    have h2 : inFragKVs full (ke' :: kes) = true := h.2
    exact .kvsCons (keyTok_attrTok full k h.1.1) (rend_wrap (render_rend full e h.1.2) full 0 (fun _ => Nat.zero_le _)) (by simp)
      (renderKVs_rend full (ke' :: kes) h2)
end

end CedarGo.Text
