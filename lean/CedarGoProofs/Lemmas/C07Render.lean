/-
  Helper lemmas for C07: the spec-side printers `render false` (= renderMin) and `render true` (= renderFull)
  produce valid renderings (`Rend`) on the decidable fragment `inFrag`.
-/
import CedarGoProofs.Lemmas.C07Round
import CedarGoProofs.Lemmas.C07Like
import CedarGo.Model.Text.Fragment
namespace CedarGo.Text
open CedarGo

/-- `Rend` is closed under lowering the required level -/
theorem rend_mono {p lvl : Nat} {x : Expr} {ts : List Token} (h : Rend (.e p x) ts) (hl : lvl ≤ p) : Rend (.e lvl x) ts := by
  cases h with
  | paren h => exact .paren h
  | litBool b => exact .litBool b
  | litNat n hn => exact .litNat n hn
  | litNeg n hn hp => exact .litNeg n hn (by omega)
  | litStr s => exact .litStr s
  | var v => exact .var v
  | entity ty id first parts hp => exact .entity ty id first parts hp
  | is ty first parts hpa h hp => exact .is ty first parts hpa h (by omega)
  | isIn ty first parts hpa h1 h2 hp => exact .isIn ty first parts hpa h1 h2 (by omega)
  | not h hp => exact .not h (by omega)
  | neg h hi hp => exact .neg h hi (by omega)
  | isEmpty h hp => exact .isEmpty h (by omega)
  | infixOp hf h1 h2 hp => exact .infixOp hf h1 h2 (by omega)
  | method hf h1 h2 hp => exact .method hf h1 h2 (by omega)
  | ite h1 h2 h3 => have : lvl = 0 := by omega
                    subst this; exact .ite h1 h2 h3
  | accessDot a h hp => exact .accessDot a h (by omega)
  | accessIdx a h hp => exact .accessIdx a h (by omega)
  | hasId a h hp => exact .hasId a h (by omega)
  | hasStr a h hp => exact .hasStr a h (by omega)
  | like p pt hty hpp h hp => exact .like p pt hty hpp h (by omega)
  | set h => exact .set h
  | record h hn => exact .record h hn
  | callFn hf h => exact .callFn hf h
  | callMethod hm h1 h2 hp => exact .callMethod hm h1 h2 (by omega)

/-- from the natural-level rendering to the rendering of an operand -/
theorem rend_wrap {x : Expr} {ts : List Token} {p : Nat} (h : Rend (.e p x) ts) (b : Bool) (lvl : Nat) (hb : b = false → lvl ≤ p) :
    Rend (.e lvl x) (wrapIf b ts) := by
  unfold wrapIf
  cases b with
  | true => exact .paren (rend_mono h (Nat.zero_le _))
  | false => exact rend_mono h (hb rfl)

theorem isMethodName_ne (fn s : String) (h : isMethodName fn = true) (hs : isMethodName s = false) : (fn == s) = false := by
  apply beq_eq_false_iff_ne.mpr
  intro heq
  rw [heq, hs] at h
  cases h

theorem mkMethod_ext (fn : String) (h : isMethodName fn = true) (recv : Expr) (rest : List Expr) :
    mkMethod fn recv rest = .ok (.call fn (recv :: rest)) := by
  have e1 := isMethodName_ne fn "contains" h rfl
  have e2 := isMethodName_ne fn "containsAll" h rfl
  have e3 := isMethodName_ne fn "containsAny" h rfl
  have e4 := isMethodName_ne fn "hasTag" h rfl
  have e5 := isMethodName_ne fn "getTag" h rfl
  have e6 := isMethodName_ne fn "isEmpty" h rfl
  unfold mkMethod
  simp only [e1, e2, e3, e4, e5, e6, Bool.false_eq_true, ↓reduceIte]
  unfold isMethodName at h
  split at h
  · rename_i a m hl
    subst h
    simp [hl]
  · cases h

theorem checkFunction_of_callOK (fn : String) (args : List Expr) (hm : isMethodName fn = false) (h : callOK fn args = true) :
    checkFunction fn = .ok () := by
  unfold callOK at h
  simp only [hm, Bool.false_eq_true, ↓reduceIte] at h
  split at h
  · rename_i u hu; cases u; exact hu
  · cases h

theorem isIdentName_ne_rbrace (k : String) (h : isIdentName k = true) : k ≠ "}" := by
  intro hk; subst hk; revert h; decide

theorem peek_append_of_ne {ts : List Token} (h : ts ≠ []) (more : List Token) : peek (ts ++ more) = peek ts := by
  cases ts with
  | nil => exact absurd rfl h
  | cons _ _ => rfl

/-! ## the first tokens of a valid rendering

  `-` followed by a rendering `ts` is read as a negation unless the parser's negative-literal special case applies
  (`negLitAt ts`): `ts` starts with an INT token that is not the receiver of a member access.  A valid rendering at
  unary level or above that starts with an INT token is either a bare non-negative literal or a member chain rooted
  at one — in which case its second token is `.` or `[`. -/

def HeadSpec : Item → List Token → Prop
  | .e lvl x, ts => ts ≠ [] ∧ (6 ≤ lvl → ((peek ts).ty == .int) = true →
      (isNonNegLong x = true ∧ ∃ n, ts = [intT n]) ∨ memberFollows ts = true)
  | _, _ => True

theorem headSpec_nonint {lvl : Nat} (x : Expr) (t : Token) (tl : List Token) (h : (t.ty == .int) = false) :
    HeadSpec (.e lvl x) (t :: tl) :=
  ⟨by simp, fun _ hd => by simp [peek, h] at hd⟩

theorem headSpec_low {lvl : Nat} (x : Expr) {ts : List Token} (hne : ts ≠ []) (hl : lvl ≤ 5) : HeadSpec (.e lvl x) ts :=
  ⟨hne, fun h6 => by omega⟩

theorem memberFollows_postfix {tr : List Token} (sep : Token) (more : List Token)
    (hsep : (sep.text == "." || sep.text == "[") = true)
    (h : (∃ n, tr = [intT n]) ∨ memberFollows tr = true) : memberFollows (tr ++ sep :: more) = true := by
  rcases h with ⟨n, rfl⟩ | h
  · exact hsep
  · cases tr with
    | nil => simp [memberFollows, peek, adv, eofTok] at h
    | cons t tl =>
      cases tl with
      | nil => simp [memberFollows, peek, adv, eofTok] at h
      | cons t' tl' => exact h

/-- receiver, then `.` or `[` -/
theorem headSpec_postfix {lvl : Nat} (x : Expr) {x' : Expr} {tr : List Token} (ih : HeadSpec (.e 7 x') tr) (sep : Token)
    (more : List Token) (hsep : (sep.text == "." || sep.text == "[") = true) : HeadSpec (.e lvl x) (tr ++ sep :: more) := by
  refine ⟨by simp, fun _ hd => .inr ?_⟩
  rw [peek_append_of_ne ih.1] at hd
  refine memberFollows_postfix sep more hsep ?_
  rcases ih.2 (by omega) hd with ⟨_, hn⟩ | hm
  · exact .inl hn
  · exact .inr hm

theorem binPrec_infix_le {op : BinOp} {tok : Token} {lp rp : Nat} (h : binForm op = .infixOp tok lp rp) : binPrec op ≤ 5 := by
  cases op <;> simp [binForm] at h <;> simp [binPrec]

theorem rend_head {it : Item} {ts : List Token} (h : Rend it ts) : HeadSpec it ts := by
  induction h with
  | @paren lvl x ts _ _ => exact headSpec_nonint x _ _ rfl
  | @litBool lvl b => exact headSpec_nonint _ _ _ rfl
  | @litNat lvl n hn => exact ⟨by simp, fun _ _ => .inl ⟨by simp [isNonNegLong], n, rfl⟩⟩
  | @litNeg lvl n hn hlvl => exact headSpec_nonint _ _ _ rfl
  | @litStr lvl s => exact headSpec_nonint _ _ _ rfl
  | @var lvl v => exact headSpec_nonint _ _ _ rfl
  | @entity lvl ty id first parts hp =>
    rw [hp.toks]
    exact headSpec_nonint _ _ _ rfl
  | @is lvl x ts ty first parts hp _ hlvl ih => exact headSpec_low _ (by simp [ih.1]) (by omega)
  | @isIn lvl x r ts tr ty first parts hp _ _ hlvl ihx _ => exact headSpec_low _ (by simp [ihx.1]) (by omega)
  | @not lvl x ts _ hlvl _ => exact headSpec_nonint _ _ _ rfl
  | @neg lvl x ts _ hi hlvl _ => exact headSpec_nonint _ _ _ rfl
  | @isEmpty lvl x ts _ hlvl ih => exact headSpec_postfix _ ih _ _ rfl
  | @infixOp lvl op tok lp rp l r tl tr hf _ _ hlvl ihl _ =>
    exact headSpec_low _ (by simp) (Nat.le_trans hlvl (binPrec_infix_le hf))
  | @method lvl op name l r tl tr hf _ _ hlvl ihl _ => exact headSpec_postfix _ ihl _ _ rfl
  | @ite c t e tc tt te _ _ _ _ _ _ => exact headSpec_nonint _ _ _ rfl
  | @accessDot lvl x ts a _ hlvl ih => exact headSpec_postfix _ ih _ _ rfl
  | @accessIdx lvl x ts a _ hlvl ih => exact headSpec_postfix _ ih _ _ rfl
  | @hasId lvl x ts a _ hlvl ih => exact headSpec_low _ (by simp) (by omega)
  | @hasStr lvl x ts a _ hlvl ih => exact headSpec_low _ (by simp) (by omega)
  | @like lvl x ts p pt _ _ _ hlvl ih => exact headSpec_low _ (by simp) (by omega)
  | @set lvl es ts _ _ => exact headSpec_nonint _ _ _ rfl
  | @record lvl kes ts _ hnd _ => exact headSpec_nonint _ _ _ rfl
  | @callFn lvl fn as ts hf _ _ => exact headSpec_nonint _ _ _ rfl
  | @callMethod lvl fn recv as tr ta hm _ _ hlvl ihr _ => exact headSpec_postfix _ ihr _ _ rfl
  | argsNil => trivial
  | argsOne _ _ => trivial
  | argsCons _ _ _ _ => trivial
  | kvsNil => trivial
  | kvsOne _ _ _ => trivial
  | kvsCons _ _ _ _ _ _ => trivial

/-- `-` in front of a valid unary-level rendering of anything but a bare non-negative literal is a negation -/
theorem negLitAt_of_rend {lvl : Nat} {x : Expr} {ts : List Token} (h : Rend (.e lvl x) ts) (hl : 6 ≤ lvl)
    (hx : isNonNegLong x = false) : negLitAt ts = false := by
  have hs := rend_head h
  cases hi : ((peek ts).ty == .int) with
  | false => simp [negLitAt, hi]
  | true =>
    rcases hs.2 hl hi with ⟨hn, _⟩ | hm
    · rw [hx] at hn; cases hn
    · simp [negLitAt, hm]

theorem negLitAt_paren (ts : List Token) : negLitAt (opT "(" :: ts) = false := rfl

theorem keyTok_attrTok (full : Bool) (k : String) : KeyTok k (attrTok full k) := by
  unfold attrTok
  split
  · rename_i h
    simp only [Bool.and_eq_true, Bool.not_eq_true'] at h
    exact keyTok_ident k (isIdentName_ne_rbrace k h.2)
  · exact keyTok_string k

theorem int_natAbs_neg (n : Int) (h : n < 0) : -(Int.ofNat n.natAbs) = n := by
  show -((n.natAbs : Nat) : Int) = n
  omega

theorem int_toNat_nonneg (n : Int) (h : ¬ n < 0) : Int.ofNat n.toNat = n := by
  show ((n.toNat : Nat) : Int) = n
  omega

theorem wrap_le {full : Bool} {e : Expr} {q : Nat} (hb : (full || decide (prec e < q)) = false) : q ≤ prec e := by
  simp only [Bool.or_eq_false_iff, decide_eq_false_iff_not, Nat.not_lt] at hb
  exact hb.2

mutual
/-- the un-parenthesised rendering of `e` is a valid rendering at the natural level of `e` -/
theorem render_rend (full : Bool) : ∀ (e : Expr), inFrag full e = true → Rend (.e (prec e) e) (render full e)
  | .lit v, h => by
    cases v <;> simp [inFrag] at h
    · rename_i b; exact .litBool b
    · rename_i n
      simp only [render, renderLit]
      by_cases hn : n < 0
      · have hp : prec (.lit (.long n)) = 6 := by simp [prec, hn]
        rw [hp]
        simp only [hn, ↓reduceIte]
        have := Rend.litNeg (lvl := 6) n.natAbs (by omega) (Nat.le_refl _)
        rw [int_natAbs_neg n hn] at this
        exact this
      · have hp : prec (.lit (.long n)) = 8 := by simp [prec, hn]
        rw [hp]
        simp only [hn, ↓reduceIte]
        have := Rend.litNat (lvl := 8) n.toNat (by omega)
        rw [int_toNat_nonneg n hn] at this
        exact this
    · rename_i s; exact .litStr s
    · rename_i ty id
      obtain ⟨first, parts, hp⟩ := pathOK_of_isPathName ty h
      exact .entity ty id first parts hp
  | .var v, _ => .var v
  | .unop .not e, h => by
    simp only [inFrag] at h
    exact .not (rend_wrap (render_rend full e h) (full || decide (prec e < 6)) 6 wrap_le) (Nat.le_refl _)
  | .unop .neg e, h => by
    simp only [inFrag] at h
    have hr := render_rend full e h
    have hp : prec (.unop .neg e) = 6 := rfl
    rw [hp]
    simp only [render]
    have hw : Rend (.e 6 e) (wrapIf (full || decide (prec e < 6) || isNonNegLong e) (render full e)) :=
      rend_wrap hr (full || decide (prec e < 6) || isNonNegLong e) 6 (by
        intro hb
        simp only [Bool.or_eq_false_iff] at hb
        exact wrap_le (full := full) (by simp [hb.1.1, hb.1.2]))
    refine .neg hw ?_ (Nat.le_refl _)
    by_cases hb : (full || decide (prec e < 6) || isNonNegLong e) = true
    · simp only [hb, wrapIf, ↓reduceIte]
      exact negLitAt_paren _
    · have hb' : (full || decide (prec e < 6) || isNonNegLong e) = false := by simpa using hb
      simp only [Bool.or_eq_false_iff] at hb'
      rw [show (full || decide (prec e < 6) || isNonNegLong e) = false by simp [hb'.1.1, hb'.1.2, hb'.2]] at hw ⊢
      exact negLitAt_of_rend hw (Nat.le_refl _) hb'.2
  | .unop .isEmpty e, h => by
    simp only [inFrag] at h
    exact .isEmpty (rend_wrap (render_rend full e h) (full || decide (prec e < 7)) 7 wrap_le) (Nat.le_refl _)
  | .binop op l r, h => by
    simp only [inFrag, Bool.and_eq_true] at h
    have hl := render_rend full l h.1
    have hr := render_rend full r h.2
    have hp : prec (.binop op l r) = binPrec op := rfl
    rw [hp]
    simp only [render]
    cases hf : binForm op with
    | infixOp tok lp rp =>
      simp only
      exact .infixOp hf (rend_wrap hl (full || decide (prec l < lp)) lp wrap_le) (rend_wrap hr (full || decide (prec r < rp)) rp wrap_le)
        (Nat.le_refl _)
    | method name =>
      simp only
      have hp7 : binPrec op = 7 := by cases op <;> simp [binForm] at hf <;> rfl
      rw [hp7]
      exact .method hf (rend_wrap hl (full || decide (prec l < 7)) 7 wrap_le) (rend_wrap hr full 0 (fun _ => Nat.zero_le _)) (Nat.le_refl _)
  | .ite c t e, h => by
    simp only [inFrag, Bool.and_eq_true] at h
    exact .ite (rend_wrap (render_rend full c h.1.1) full 0 (fun _ => Nat.zero_le _))
      (rend_wrap (render_rend full t h.1.2) full 0 (fun _ => Nat.zero_le _))
      (rend_wrap (render_rend full e h.2) full 0 (fun _ => Nat.zero_le _))
  | .access e a, h => by
    simp only [inFrag] at h
    have hr := rend_wrap (render_rend full e h) (full || decide (prec e < 7)) 7 wrap_le
    have hp : prec (.access e a) = 7 := rfl
    rw [hp]
    simp only [render, accessToks]
    by_cases hc : (!full && isIdentName a) = true
    · simp only [hc, ↓reduceIte]
      exact .accessDot a hr (Nat.le_refl _)
    · simp only [hc, Bool.false_eq_true, ↓reduceIte]
      exact .accessIdx a hr (Nat.le_refl _)
  | .has e a, h => by
    simp only [inFrag] at h
    have hr := rend_wrap (render_rend full e h) (full || decide (prec e < 4)) 4 wrap_le
    have hp : prec (.has e a) = 3 := rfl
    rw [hp]
    simp only [render, attrTok]
    by_cases hc : (!full && isIdentName a) = true
    · simp only [hc, ↓reduceIte]
      exact .hasId a hr (Nat.le_refl _)
    · simp only [hc, Bool.false_eq_true, ↓reduceIte]
      exact .hasStr a hr (Nat.le_refl _)
  | .like e p, h => by
    simp only [inFrag, Bool.and_eq_true] at h
    have hr := rend_wrap (render_rend full e h.1) (full || decide (prec e < 4)) 4 wrap_le
    obtain ⟨t, ht, hty, _, hparse⟩ := patT_roundtrip p h.2
    have hp : prec (.like e p) = 3 := rfl
    rw [hp]
    simp only [render, ht]
    exact .like p t hty hparse hr (Nat.le_refl _)
  | .is e ty, h => by
    simp only [inFrag, Bool.and_eq_true] at h
    obtain ⟨first, parts, hp⟩ := pathOK_of_isPathName ty h.2
    exact .is ty first parts hp (rend_wrap (render_rend full e h.1) (full || decide (prec e < 4)) 4 wrap_le) (Nat.le_refl _)
  | .isIn e ty r, h => by
    simp only [inFrag, Bool.and_eq_true] at h
    obtain ⟨first, parts, hp⟩ := pathOK_of_isPathName ty h.1.2
    exact .isIn ty first parts hp (rend_wrap (render_rend full e h.1.1) (full || decide (prec e < 4)) 4 wrap_le)
      (rend_wrap (render_rend full r h.2) (full || decide (prec r < 4)) 4 wrap_le) (Nat.le_refl _)
  | .set es, h => by
    simp only [inFrag] at h
    exact .set (renderArgs_rend full es h)
  | .record kes, h => by
    simp only [inFrag, Bool.and_eq_true, decide_eq_true_eq] at h
    exact .record (renderKVs_rend full kes h.1) h.2
  | .call fn [], h => by
    simp only [inFrag, Bool.and_eq_true] at h
    by_cases hm : isMethodName fn = true
    · simp [callOK, hm] at h
    · have hm' : isMethodName fn = false := by simpa using hm
      have hp : prec (.call fn []) = 8 := by simp [prec, hm']
      rw [hp]
      simp only [render, hm', Bool.false_eq_true, ↓reduceIte]
      exact .callFn (checkFunction_of_callOK fn [] hm' h.1) .argsNil
  | .call fn (recv :: rest), h => by
    simp only [inFrag, inFragList, Bool.and_eq_true] at h
    by_cases hm : isMethodName fn = true
    · have hp : prec (.call fn (recv :: rest)) = 7 := by simp [prec, hm]
      rw [hp]
      simp only [render, hm, ↓reduceIte]
      exact .callMethod (mkMethod_ext fn hm recv rest)
        (rend_wrap (render_rend full recv h.2.1) (full || decide (prec recv < 7)) 7 wrap_le)
        (renderArgs_rend full rest h.2.2) (Nat.le_refl _)
    · have hm' : isMethodName fn = false := by simpa using hm
      have hp : prec (.call fn (recv :: rest)) = 8 := by simp [prec, hm']
      rw [hp]
      simp only [render, hm', Bool.false_eq_true, ↓reduceIte]
      have hargs : inFragList full (recv :: rest) = true := by simp [inFragList, h.2.1, h.2.2]
      exact .callFn (checkFunction_of_callOK fn _ hm' h.1) (renderArgs_rend full (recv :: rest) hargs)
theorem renderArgs_rend (full : Bool) : ∀ (es : List Expr), inFragList full es = true → Rend (.args es) (renderArgs full es)
  | [], _ => .argsNil
  | [e], h => by
    simp only [inFragList, Bool.and_true] at h
    exact .argsOne (rend_wrap (render_rend full e h) full 0 (fun _ => Nat.zero_le _))
  | e :: e' :: es, h => by
    simp only [inFragList, Bool.and_eq_true] at h
    have h2 : inFragList full (e' :: es) = true := by simp [inFragList, h.2.1, h.2.2]
    exact .argsCons (rend_wrap (render_rend full e h.1) full 0 (fun _ => Nat.zero_le _)) (renderArgs_rend full (e' :: es) h2)
theorem renderKVs_rend (full : Bool) : ∀ (kes : List (String × Expr)), inFragKVs full kes = true → Rend (.kvs kes) (renderKVs full kes)
  | [], _ => .kvsNil
  | [(k, e)], h => by
    simp only [inFragKVs, Bool.and_true] at h
    exact .kvsOne (keyTok_attrTok full k) (rend_wrap (render_rend full e h) full 0 (fun _ => Nat.zero_le _))
  | (k, e) :: ke' :: kes, h => by
    rw [inFragKVs] at h
    simp only [Bool.and_eq_true] at h
    have h2 : inFragKVs full (ke' :: kes) = true := h.2
    exact .kvsCons (keyTok_attrTok full k) (rend_wrap (render_rend full e h.1) full 0 (fun _ => Nat.zero_le _)) (by simp)
      (renderKVs_rend full (ke' :: kes) h2)
end

end CedarGo.Text
