/-
  C06, policy level, from INPUT-level premises.

  §1  `partialDomain_of_inputs`: an ignore-free environment (`noIgnoreInput`) and a policy without ignore markers in its
      literals and with distinct record keys satisfy the model-level premise `partialDomain`; the residual policy is again
      such a policy (`partialPolicy_good`) — what the batch enumeration needs to go on to its next level.
  §2  three-valued agreement: a kept policy's residual evaluates to the SAME boolean as the original or both fail
      (`partialPolicy_tv`), which gives agreement of satisfaction AND of error-ness.
-/
import CedarGoProofs.Lemmas.C06Inv
import CedarGoProofs.Lemmas.C06Policy
set_option linter.unusedSimpArgs false
set_option linter.unusedVariables false
namespace CedarGo

/-! ## §1 the model-level premise follows from the input-level one -/

def Policy.good (p : Policy) : Prop := p.noIgnoreLits = true ∧ p.recKeysDistinct = true

theorem Policy.good_iff {p : Policy} : p.good ↔ ∀ c ∈ p.conditions, c.2.good := by
  simp only [Policy.good, Policy.noIgnoreLits, Policy.recKeysDistinct, List.all_eq_true, Expr.good]
  constructor
  · rintro ⟨h1, h2⟩ c hc; exact ⟨h1 c hc, h2 c hc⟩
  · intro h; exact ⟨fun c hc => (h c hc).1, fun c hc => (h c hc).2⟩

theorem notIgn_of_inv {p : PR} (h : Inv p) : p.notIgn = true := by
  cases p <;> first | rfl | exact h.elim

theorem partialDomain_of_inputs {envH : Env} {p : Policy} (hE : noIgnoreInput envH = true)
    (hl : p.noIgnoreLits = true) (hk : p.recKeysDistinct = true) : partialDomain envH p = true := by
  obtain ⟨h1, h2, h3, _, _⟩ := noIgnoreInput_parts hE
  simp only [partialDomain, Bool.and_eq_true, Bool.not_eq_true', isIgnore_of_hasIgnore h1, isIgnore_of_hasIgnore h2,
    isIgnore_of_hasIgnore h3, List.all_eq_true, true_and]
  intro c hc
  have a := List.all_eq_true.mp hl c hc
  have b := List.all_eq_true.mp hk c hc
  exact ⟨notIgn_of_inv (partialE_inv hE c.2 a b), b⟩

theorem partialConds_good {envH : Env} (hE : noIgnoreInput envH = true) (effect : Effect) :
    ∀ conds : List (Bool × Expr), (∀ c ∈ conds, c.2.good) →
      ∀ cs, partialConds envH effect conds = some cs → ∀ c ∈ cs, c.2.good
  | [], _, cs, h => by simp [partialConds] at h; subst h; simp
  | (w, body) :: rest, hg, cs, h => by
    have ih := partialConds_good hE effect rest (fun c hc => hg c (by simp [hc]))
    have hb : body.good := hg (w, body) (by simp)
    have hi := partialE_inv hE body hb.1 hb.2
    simp only [partialConds] at h
    have consCase : ∀ b' : Expr, b'.good →
        (partialConds envH effect rest).map ((w, b') :: ·) = some cs → ∀ c ∈ cs, c.2.good := by
      intro b' hb' hm
      cases hr : partialConds envH effect rest with
      | none => simp [hr] at hm
      | some cs' =>
        simp only [hr, Option.map_some, Option.some.injEq] at hm
        subst hm
        intro c hc
        rcases List.mem_cons.mp hc with rfl | hc
        · exact hb'
        · exact ih cs' hr c hc
    have errCase : some [(w, extError)] = some cs → ∀ c ∈ cs, c.2.good := by
      intro hm
      simp only [Option.some.injEq] at hm
      subst hm
      intro c hc
      simp only [List.mem_singleton] at hc
      subst hc
      exact good_extError
    cases hp : partialE envH body with
    | var s => rw [hp] at h; exact consCase body hb h
    | ign => rw [hp] at hi; exact hi.elim
    | err k => rw [hp] at h; exact errCase h
    | ok body' =>
      rw [hp] at h hi
      cases hl : body'.isLit
      · rw [condStep_nonlit _ _ _ _ _ hl] at h
        exact consCase body' hi h
      · obtain ⟨v, rfl⟩ := isLit_iff.mp hl
        cases v with
        | bool b =>
          simp only [condStep] at h
          split at h
          · cases h
          · exact ih cs h
        | _ => exact errCase h

theorem partialPolicy_conditions {envH : Env} {p r : Policy} (h : partialPolicy envH p = some r) :
    partialConds envH p.effect p.conditions = some r.conditions := by
  unfold partialPolicy at h
  split at h
  · cases h
  · split at h
    · cases h
    · split at h
      · cases h
      · split at h
        · cases h
        · rename_i cs hcs
          cases h
          exact hcs

/-- the residual of a policy without ignore markers / with distinct record keys is again such a policy -/
theorem partialPolicy_good {envH : Env} (hE : noIgnoreInput envH = true) {p r : Policy} (hp : p.good)
    (h : partialPolicy envH p = some r) : r.good :=
  Policy.good_iff.mpr
    (partialConds_good hE p.effect p.conditions (Policy.good_iff.mp hp) r.conditions (partialPolicy_conditions h))

/-! ## §2 three-valued agreement: satisfaction AND error-ness -/

/-- `BoolEvaler.Eval` as three values: `none` = an error -/
def tv (e : Expr) (env : Env) : Option Bool :=
  match evalBool e env with
  | .ok b => some b
  | .error _ => none

/-- `&&` on three values: an error or `false` on the left decides -/
def and3 (a b : Option Bool) : Option Bool :=
  match a with
  | none => none
  | some false => some false
  | some true => b

theorem and3_true_right (a : Option Bool) : and3 a (some true) = a := by
  cases a with
  | none => rfl
  | some b => cases b <;> rfl

theorem and3_true_left (b : Option Bool) : and3 (some true) b = b := rfl

theorem satisfied_eq_tv (p : Policy) (env : Env) : satisfied p env = (tv (policyToExpr p) env == some true) := by
  unfold satisfied tv
  cases evalBool (policyToExpr p) env with
  | error k => rfl
  | ok b => cases b <;> rfl

theorem erroring_eq_tv (p : Policy) (env : Env) : erroring p env = (tv (policyToExpr p) env == none) := by
  unfold erroring tv
  cases evalBool (policyToExpr p) env with
  | error k => rfl
  | ok b => cases b <;> rfl

theorem sat_eq_tv (e : Expr) (env : Env) : sat e env = (tv e env == some true) := by
  unfold sat tv
  cases evalBool e env with
  | error k => rfl
  | ok b => cases b <;> rfl

theorem tv_of_sat {e : Expr} {env : Env} (h : sat e env = true) : tv e env = some true := by
  rw [sat_eq_tv] at h; simpa using h

theorem tv_and (l r : Expr) (env : Env) : tv (.binop .and l r) env = and3 (tv l env) (tv r env) := by
  simp only [tv, evalBool, eval_binop]
  cases hl : eval l env with
  | error k => simp [binSem, bind, Except.bind, and3]
  | ok v =>
    cases v <;> simp [binSem, bind, Except.bind, toBool, and3]
    rename_i b
    cases b <;> simp [toBool]
    cases hr : eval r env with
    | error k => simp
    | ok w => cases w <;> simp [toBool]

theorem tv_andAll (env : Env) : ∀ (rest : List Expr) (e : Expr),
    tv (andAll e rest) env = (e :: rest).foldr (fun x acc => and3 (tv x env) acc) (some true)
  | [], e => by simp [andAll, and3_true_right]
  | e' :: rest, e => by
    simp only [andAll, tv_and, tv_andAll env rest e', List.foldr_cons]

theorem tv_of_R {a b : Expr} {env : Env} (h : R (eval a env) (eval b env)) : tv a env = tv b env := by
  simp only [tv, evalBool]
  cases ha : eval a env with
  | error k => rw [ha] at h; obtain ⟨k', hk'⟩ := R.err_left h; rw [hk']; rfl
  | ok v => rw [ha] at h; rw [R.ok_left h]

theorem tv_of_err {e : Expr} {env : Env} (h : ∃ k, eval e env = .error k) : tv e env = none := by
  obtain ⟨k, hk⟩ := h
  simp [tv, evalBool, hk, Except.bind]

theorem tv_cond_of_err {w : Bool} {body : Expr} {env : Env} (h : ∃ k, eval body env = .error k) :
    tv (condToExpr (w, body)) env = none := by
  cases w
  · obtain ⟨k, hk⟩ := h
    show tv (.unop .not body) env = none
    simp [tv, evalBool, eval_unop, hk, unSem_err, Except.bind]
  · exact tv_of_err h

theorem tv_cond_of_val {w : Bool} {body : Expr} {env : Env} {v : Value} (h : eval body env = .ok v) :
    tv (condToExpr (w, body)) env = (match v with | .bool b => some (b == w) | _ => none) := by
  cases w
  · have hc : condToExpr (false, body) = .unop .not body := rfl
    simp only [hc, tv, evalBool, eval_unop, h]
    cases v <;> simp [unSem, toBool, Except.bind, bind]
  · have hc : condToExpr (true, body) = body := rfl
    simp only [hc, tv, evalBool, h]
    cases v <;> simp [toBool, Except.bind, bind]

theorem tv_cond_of_R {w : Bool} {a b : Expr} {env : Env} (h : R (eval a env) (eval b env)) :
    tv (condToExpr (w, a)) env = tv (condToExpr (w, b)) env := by
  cases w
  · show tv (.unop .not a) env = tv (.unop .not b) env
    apply tv_of_R
    rw [eval_unop, eval_unop]; exact unSem_congr .not h
  · exact tv_of_R h

theorem tv_cond_of_lit {γ : Value → Value} [Completion γ] {env : Env} {w : Bool} {body : Expr} {v : Value}
    (hs : Sound γ env body (.ok (.lit v))) :
    tv (condToExpr (w, body)) env = (match v with | .bool b => some (b == w) | _ => none) := by
  cases v with
  | bool b => exact tv_cond_of_val (lit_bool_eval hs)
  | _ =>
    obtain ⟨v', hev, hnb⟩ := lit_nonbool_eval hs (by intro b hb; cases hb)
    rw [tv_cond_of_val hev]
    cases v' <;> first | exact absurd rfl (hnb _) | rfl

/-- the conditions of a policy as one three-valued conjunction, left to right -/
def conds3 (cs : List (Bool × Expr)) (env : Env) : Option Bool :=
  cs.foldr (fun c acc => and3 (tv (condToExpr c) env) acc) (some true)

theorem conds3_cons (c : Bool × Expr) (cs : List (Bool × Expr)) (env : Env) :
    conds3 (c :: cs) env = and3 (tv (condToExpr c) env) (conds3 cs env) := rfl

theorem tv_extError_cond (w : Bool) (env : Env) : tv (condToExpr (w, extError)) env = none :=
  tv_cond_of_err ⟨_, eval_extError env⟩

/-- the condition loop of `PartialPolicy`: when the policy is kept, the residual conditions evaluate — as a conjunction,
    errors included — to what the original conditions evaluate to -/
theorem partialConds_tv {γ : Value → Value} [Completion γ] {envH env : Env} (C : CompletesVia γ envH env) (effect : Effect) :
    ∀ conds : List (Bool × Expr),
      (conds.all fun c => (partialE envH c.2).notIgn && c.2.recKeysDistinct) = true →
      ∀ cs, partialConds envH effect conds = some cs → conds3 cs env = conds3 conds env
  | [], _, cs, h => by simp [partialConds] at h; subst h; rfl
  | (w, body) :: rest, hd, cs, h => by
    simp only [List.all_cons, Bool.and_eq_true] at hd
    obtain ⟨⟨hni, hkd⟩, hrest⟩ := hd
    have ih := partialConds_tv C effect rest (by simpa only [Bool.and_eq_true] using hrest)
    have hs := partialE_sound C body hkd
    simp only [partialConds] at h
    have consCase : ∀ b' : Expr, tv (condToExpr (w, b')) env = tv (condToExpr (w, body)) env →
        (partialConds envH effect rest).map ((w, b') :: ·) = some cs → conds3 cs env = conds3 ((w, body) :: rest) env := by
      intro b' hb' hm
      cases hr : partialConds envH effect rest with
      | none => simp [hr] at hm
      | some cs' =>
        simp only [hr, Option.map_some, Option.some.injEq] at hm
        subst hm
        rw [conds3_cons, conds3_cons, hb', ih cs' hr]
    have errCase : tv (condToExpr (w, body)) env = none → some [(w, extError)] = some cs →
        conds3 cs env = conds3 ((w, body) :: rest) env := by
      intro hb hm
      simp only [Option.some.injEq] at hm
      subst hm
      rw [conds3_cons, conds3_cons, hb, tv_extError_cond]
      rfl
    cases hp : partialE envH body with
    | var s => rw [hp] at h; exact consCase body rfl h
    | ign => rw [hp] at hni; simp [PR.notIgn] at hni
    | err k => rw [hp] at h hs; exact errCase (tv_cond_of_err hs) h
    | ok body' =>
      rw [hp] at h hs
      cases hl : body'.isLit
      · rw [condStep_nonlit _ _ _ _ _ hl] at h
        exact consCase body' (tv_cond_of_R ((Sound.ok_nonlit hl).mp hs)) h
      · obtain ⟨v, rfl⟩ := isLit_iff.mp hl
        have htv := tv_cond_of_lit (w := w) hs
        cases v with
        | bool b =>
          simp only [condStep] at h
          split at h
          · cases h
          · rename_i hbw
            have : (b == w) = true := by cases b <;> cases w <;> simp_all
            rw [conds3_cons, htv]
            simp only [this, and3_true_left]
            exact ih cs h
        | _ => exact errCase htv h

/-- scope resolution, three-valued: a scope clause that is kept or replaced by `all` evaluates as the original -/
theorem partialScope_tv (γ : Value → Value) [Completion γ] (envH env : Env) (hentEq : envH.entities = env.entities)
    (v : Var) (s s' : Scope)
    (hni : (envPart v envH).isIgnore = false)
    (hpart : eval (.var v) env = .ok (γ (envPart v envH)))
    (h : partialScope envH (envPart v envH) s = some s') :
    tv (scopeToExpr v s') env = tv (scopeToExpr v s) env := by
  unfold partialScope scopeEval at h
  cases hvar : (envPart v envH).isVariable
  · simp only [hvar, hni, Bool.false_eq_true, if_false] at h
    cases hent : envPart v envH with
    | entity ty id =>
      rw [hent] at h
      simp only at h
      have hev : eval (.var v) env = .ok (.entity ty id) := by
        rw [hpart, hent, Completion.entity (γ := γ) ty id (by rw [← hent]; exact hvar)]
      have hb := sat_scope_entity env v ty id hev s
      have hsb : scopeBool envH ty id s = scopeBool env ty id s := by cases s <;> simp only [scopeBool, hentEq]
      rw [hsb] at h
      cases hsv : scopeBool env ty id s
      · rw [hsv] at h; cases h
      · rw [hsv] at h
        simp only [Option.some.injEq] at h
        subst h
        rw [hsv] at hb
        rw [tv_of_sat hb]
        rfl
    | _ => rw [hent] at h; simp only [Option.some.injEq] at h; rw [h]
  · simp only [hvar, if_true, Option.some.injEq] at h
    rw [h]

theorem tv_scope_all (env : Env) (v : Var) (s : Scope) (h : s.isAll = true) : tv (scopeToExpr v s) env = some true := by
  cases s <;> simp [Scope.isAll] at h
  rfl

/-- a policy evaluates, three-valued, to the conjunction of its three scope clauses and its conditions -/
theorem tv_policy (p : Policy) (env : Env) :
    tv (policyToExpr p) env =
      and3 (tv (scopeToExpr .principal p.principal) env) (and3 (tv (scopeToExpr .action p.action) env)
        (and3 (tv (scopeToExpr .resource p.resource) env) (conds3 p.conditions env))) := by
  have key : ∀ l : List Expr, l = ((if p.principal.isAll && p.action.isAll && p.resource.isAll then [.lit (.bool true)]
      else (if p.principal.isAll then [] else [scopeToExpr .principal p.principal])
        ++ (if p.action.isAll then [] else [scopeToExpr .action p.action])
        ++ (if p.resource.isAll then [] else [scopeToExpr .resource p.resource])) ++ p.conditions.map condToExpr) →
      tv (policyToExpr p) env = l.foldr (fun x acc => and3 (tv x env) acc) (some true) := by
    intro l hl
    unfold policyToExpr
    simp only []
    rw [← hl]
    cases l with
    | nil => rfl
    | cons e rest => exact tv_andAll env rest e
  rw [key _ rfl]
  have hc : (p.conditions.map condToExpr).foldr (fun x acc => and3 (tv x env) acc) (some true) = conds3 p.conditions env := by
    simp only [conds3, List.foldr_map]
  have hlit : tv (.lit (.bool true)) env = some true := rfl
  simp only [List.foldr_append, hc]
  cases hp : p.principal.isAll <;> cases ha : p.action.isAll <;> cases hr : p.resource.isAll <;>
    simp [tv_scope_all, hp, ha, hr, hlit, and3_true_left]

/-- kept ⇒ the residual policy evaluates to the same boolean as the original, or both fail -/
theorem partialPolicy_tv_gen (γ : Value → Value) [Completion γ] (envH env : Env) (hent : envH.entities = env.entities)
    (hparts : ∀ x, eval (.var x) env = .ok (γ (envPart x envH))) (p r : Policy) (hd : partialDomain envH p = true)
    (hk : partialPolicy envH p = some r) :
    tv (policyToExpr r) env = tv (policyToExpr p) env := by
  simp only [partialDomain, Bool.and_eq_true, Bool.not_eq_true'] at hd
  obtain ⟨⟨⟨hp, ha⟩, hr⟩, hc⟩ := hd
  unfold partialPolicy at hk
  cases hs1 : partialScope envH envH.principal p.principal with
  | none => simp [hs1] at hk
  | some ps =>
    cases hs2 : partialScope envH envH.action p.action with
    | none => simp [hs1, hs2] at hk
    | some acs =>
      cases hs3 : partialScope envH envH.resource p.resource with
      | none => simp [hs1, hs2, hs3] at hk
      | some rs =>
        cases hs4 : partialConds envH p.effect p.conditions with
        | none => simp [hs1, hs2, hs3, hs4] at hk
        | some cs =>
          simp only [hs1, hs2, hs3, hs4, Option.some.injEq] at hk
          subst hk
          have h1 := partialScope_tv γ envH env hent .principal p.principal ps hp (hparts _) hs1
          have h2 := partialScope_tv γ envH env hent .action p.action acs ha (hparts _) hs2
          have h3 := partialScope_tv γ envH env hent .resource p.resource rs hr (hparts _) hs3
          have h4 := partialConds_tv (completesVia_of_parts hent hparts) p.effect p.conditions hc cs hs4
          rw [tv_policy, tv_policy]
          simp only [h1, h2, h3, h4]

theorem partialPolicy_tv (σ : String → Value) (envH : Env) (p r : Policy) (hd : partialDomain envH p = true)
    (hk : partialPolicy envH p = some r) :
    tv (policyToExpr r) (completeEnv σ envH) = tv (policyToExpr p) (completeEnv σ envH) :=
  partialPolicy_tv_gen (Value.substAll σ) envH (completeEnv σ envH) rfl (eval_var_complete σ envH) p r hd hk

end CedarGo
