/-
  C12 helper lemmas: `NewDecimal(i, exponent)`.
-/
import CedarGoProofs.Lemmas.C12Decimal
namespace CedarGo.Scalars
open CedarGo

theorem wrap_of_inI64 {x : Int} (h : InI64 x) : wrap x = x := by
  unfold InI64 minI64 maxI64 at h; unfold wrap; omega

theorem wrap16_small {x : Int} (h : -32768 ≤ x ∧ x ≤ 32767) : wrap16 x = x := by
  unfold wrap16; omega

/-- Go's truncated division by a positive literal, as linear facts `omega` can use -/
theorem tdiv_tmod_spec (i p : Int) (hp : 0 < p) :
    i = p * i.tdiv p + i.tmod p ∧
    (0 ≤ i → 0 ≤ i.tmod p ∧ i.tmod p < p ∧ 0 ≤ i.tdiv p) ∧
    (i ≤ 0 → -p < i.tmod p ∧ i.tmod p ≤ 0 ∧ i.tdiv p ≤ 0) := by
  refine ⟨(Int.mul_tdiv_add_tmod i p).symm, ?_, ?_⟩
  · intro h
    rw [Int.tdiv_eq_ediv_of_nonneg h, Int.tmod_eq_emod_of_nonneg h]
    exact ⟨Int.emod_nonneg _ (by omega), Int.emod_lt_of_pos _ hp, Int.ediv_nonneg h (by omega)⟩
  · intro h
    have hn : 0 ≤ -i := by omega
    have e1 : i.tdiv p = -((-i) / p) := by
      have := Int.neg_tdiv (-i) p; rw [Int.neg_neg] at this; rw [this, Int.tdiv_eq_ediv_of_nonneg hn]
    have e2 : i.tmod p = -((-i) % p) := by
      have := Int.neg_tmod (-i) p; rw [Int.neg_neg] at this; rw [this, Int.tmod_eq_emod_of_nonneg hn]
    rw [e1, e2]
    have := Int.emod_nonneg (-i) (by omega : p ≠ 0)
    have := Int.emod_lt_of_pos (-i) hp
    have := Int.ediv_nonneg hn (by omega : 0 ≤ p)
    omega


set_option hygiene false in
local macro "nd_case " m:term : tactic => `(tactic| (
    have hw : wrap (r * $m) = r * $m := wrap_of_inI64 (by unfold InI64 minI64 maxI64; omega)
    have hw16 : wrap16 (r * $m) = r * $m := wrap16_small (by omega)
    rw [hw, hw16, newDecimal_exact q _ (by omega) (by omega)]
    have : q * 10000 + r * $m = i * $m := by omega
    rw [this]))

theorem newDecimal_tdiv_aux (i P M : Int) (hi : InI64 i)
    (h : (P = 10000 ∧ M = 1) ∨ (P = 1000 ∧ M = 10) ∨ (P = 100 ∧ M = 100) ∨ (P = 10 ∧ M = 1000) ∨ (P = 1 ∧ M = 10000)) :
    newDecimal (i.tdiv P) (wrap16 (wrap (i.tmod P * M))) =
      if InI64 (i * M) then .ok (i * M) else .error .extDecimal := by
  have hP : 0 < P := by omega
  obtain ⟨h1, h2, h3⟩ := tdiv_tmod_spec i P hP
  generalize i.tdiv P = q at *
  generalize i.tmod P = r at *
  unfold InI64 minI64 maxI64 at hi
  rcases h with ⟨rfl, rfl⟩ | ⟨rfl, rfl⟩ | ⟨rfl, rfl⟩ | ⟨rfl, rfl⟩ | ⟨rfl, rfl⟩
  · nd_case 1
  · nd_case 10
  · nd_case 100
  · nd_case 1000
  · nd_case 10000

/-- non-positive exponents: exact for every `int64` mantissa -/
theorem newDecimalExp_nonpos (i : Int) (hi : InI64 i) (e : Int) (he : -4 ≤ e ∧ e ≤ 0) :
    newDecimalExp i e =
      if InI64 (i * 10 ^ (e + 4).toNat) then .ok (i * 10 ^ (e + 4).toNat) else .error .extDecimal := by
  have hcases : e = -4 ∨ e = -3 ∨ e = -2 ∨ e = -1 ∨ e = 0 := by omega
  rcases hcases with rfl | rfl | rfl | rfl | rfl
  all_goals
    unfold newDecimalExp
    simp only [show ((-4 : Int) < -4 || (-4 : Int) > 14) = false from by decide,
      show ((-3 : Int) < -4 || (-3 : Int) > 14) = false from by decide,
      show ((-2 : Int) < -4 || (-2 : Int) > 14) = false from by decide,
      show ((-1 : Int) < -4 || (-1 : Int) > 14) = false from by decide,
      show ((0 : Int) < -4 || (0 : Int) > 14) = false from by decide, Bool.false_eq_true, if_false]
    simp only [Int.reduceNeg, Int.neg_neg, Int.reduceAdd, Int.reduceToNat, Int.reducePow, Int.reduceLE, if_true,
      Int.neg_zero, Int.add_zero, Int.toNat_zero, Int.pow_zero]
    first
    | exact newDecimal_tdiv_aux i _ _ hi (by omega)
    | (have := newDecimal_tdiv_aux i 10000 1 hi (by omega); simpa using this)


theorem wrap16_zero : wrap16 0 = 0 := by decide

set_option hygiene false in
local macro "ndp_case " p:term:max q:term:max : tactic => `(tactic| (
    obtain ⟨a1, a2, _⟩ := tdiv_tmod_spec maxI64 $p (by decide)
    have a2 := a2 (by decide)
    obtain ⟨b1, _, b3⟩ := tdiv_tmod_spec minI64 $p (by decide)
    have b3 := b3 (by decide)
    generalize Int.tdiv maxI64 $p = qa at *
    generalize Int.tmod maxI64 $p = ra at *
    generalize Int.tdiv minI64 $p = qb at *
    generalize Int.tmod minI64 $p = rb at *
    unfold InI64 minI64 maxI64 at hi
    unfold maxI64 at a1
    unfold minI64 at b1
    by_cases h1 : i > qa
    · rw [if_pos h1, if_neg (by unfold InI64 minI64 maxI64; omega)]
    · rw [if_neg h1]
      by_cases h2 : i < qb
      · rw [if_pos h2, if_neg (by unfold InI64 minI64 maxI64; omega)]
      · rw [if_neg h2]
        have hs : InI64 (i * $p) := by unfold InI64 minI64 maxI64; omega
        rw [wrap_of_inI64 hs, wrap16_zero, newDecimal_exact (i * $p) 0 (by omega) (by omega)]
        have : i * $p * 10000 + 0 = i * $q := by omega
        rw [this]))

/-- positive exponents: the guard `i > MaxInt64/P`, `i < MinInt64/P` (truncated division) is exact, the product
    never wraps, and the result is the exact value or an error -/
theorem newDecimal_mul_aux (i P Q : Int) (hi : InI64 i)
    (h : (P = 10 ∧ Q = 100000) ∨ (P = 100 ∧ Q = 1000000) ∨ (P = 1000 ∧ Q = 10000000) ∨ (P = 10000 ∧ Q = 100000000) ∨ (P = 100000 ∧ Q = 1000000000) ∨ (P = 1000000 ∧ Q = 10000000000) ∨ (P = 10000000 ∧ Q = 100000000000) ∨ (P = 100000000 ∧ Q = 1000000000000) ∨ (P = 1000000000 ∧ Q = 10000000000000) ∨ (P = 10000000000 ∧ Q = 100000000000000) ∨ (P = 100000000000 ∧ Q = 1000000000000000) ∨ (P = 1000000000000 ∧ Q = 10000000000000000) ∨ (P = 10000000000000 ∧ Q = 100000000000000000) ∨ (P = 100000000000000 ∧ Q = 1000000000000000000)) :
    (if i > Int.tdiv maxI64 P then Except.error Err.extDecimal
     else if i < Int.tdiv minI64 P then Except.error Err.extDecimal
     else newDecimal (wrap (i * P)) (wrap16 0)) =
      if InI64 (i * Q) then .ok (i * Q) else .error .extDecimal := by
  rcases h with ⟨rfl, rfl⟩ | ⟨rfl, rfl⟩ | ⟨rfl, rfl⟩ | ⟨rfl, rfl⟩ | ⟨rfl, rfl⟩ | ⟨rfl, rfl⟩ | ⟨rfl, rfl⟩ | ⟨rfl, rfl⟩ | ⟨rfl, rfl⟩ | ⟨rfl, rfl⟩ | ⟨rfl, rfl⟩ | ⟨rfl, rfl⟩ | ⟨rfl, rfl⟩ | ⟨rfl, rfl⟩
  · ndp_case 10 100000
  · ndp_case 100 1000000
  · ndp_case 1000 10000000
  · ndp_case 10000 100000000
  · ndp_case 100000 1000000000
  · ndp_case 1000000 10000000000
  · ndp_case 10000000 100000000000
  · ndp_case 100000000 1000000000000
  · ndp_case 1000000000 10000000000000
  · ndp_case 10000000000 100000000000000
  · ndp_case 100000000000 1000000000000000
  · ndp_case 1000000000000 10000000000000000
  · ndp_case 10000000000000 100000000000000000
  · ndp_case 100000000000000 1000000000000000000

/-- positive exponents: exact for every `int64` mantissa -/
theorem newDecimalExp_pos (i : Int) (hi : InI64 i) (e : Int) (he : 1 ≤ e ∧ e ≤ 14) :
    newDecimalExp i e =
      if InI64 (i * 10 ^ (e + 4).toNat) then .ok (i * 10 ^ (e + 4).toNat) else .error .extDecimal := by
  have hcases : e = 1 ∨ e = 2 ∨ e = 3 ∨ e = 4 ∨ e = 5 ∨ e = 6 ∨ e = 7 ∨ e = 8 ∨ e = 9 ∨ e = 10 ∨ e = 11 ∨ e = 12 ∨ e = 13 ∨ e = 14 := by omega
  rcases hcases with rfl | rfl | rfl | rfl | rfl | rfl | rfl | rfl | rfl | rfl | rfl | rfl | rfl | rfl
  all_goals
    unfold newDecimalExp
    rw [if_neg (by decide), if_neg (by decide)]
    simp only [Int.reduceAdd, Int.reduceToNat, Int.reducePow]
    exact newDecimal_mul_aux i _ _ hi (by simp)

end CedarGo.Scalars
