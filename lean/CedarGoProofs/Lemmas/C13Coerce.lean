/-
  Helper lemmas for C13 (schema-guided coercion at any nesting depth).

  `spells v t u`: `u` is what the UNGUIDED decoder (`types.UnmarshalJSON`) returns for an accepted spelling of the datum
  `v` in a position of schema type `t` — at every entity-typed leaf the explicit escape (decodes to the entity) or the
  implicit `{"type","id"}` object (decodes to a record), at every extension-typed leaf the explicit escape (decodes to the
  extension value) or ANY string the extension parser maps to the value (decodes to a String), recursively under sets and
  records (attributes the record type does not declare are spelled explicitly).  The relation also fixes the typing:
  `spells v t u` implies that `v` is a value of type `t` (`spells_self`: the all-explicit spelling is one).

  Main lemma of this file: `coerce_spells : spells v t u → coerceValue t u = v` for canonical `v`.
-/
import CedarGoProofs.Lemmas.C13Leaves
import CedarGo.Model.Json.Coerce
namespace CedarGo.JsonModel
open CedarGo CedarGo.Scalars

/-! ### schema types -/

/-- the declared type of attribute `k` (Go: `typ[name]`, a map) -/
def attrTy : List (String × STy) → String → Option STy
  | [], _ => none
  | (n, t) :: rest, k => if n == k then some t else attrTy rest k

mutual
/-- every record type inside `t` names each attribute once (inherent in Go: `resolved.RecordType` is a map) -/
def tyOK : STy → Bool
  | .set t => tyOK t
  | .record attrs => attrsOK attrs
  | _ => true
def attrsOK : List (String × STy) → Bool
  | [] => true
  | (n, t) :: rest => !(rest.any (fun a => a.1 == n)) && tyOK t && attrsOK rest
end

theorem attrTy_none_of_not_any : ∀ (attrs : List (String × STy)) (n : String), attrs.any (fun a => a.1 == n) = false → attrTy attrs n = none
  | [], _, _ => rfl
  | (m, t) :: rest, n, h => by
    simp only [List.any_cons, Bool.or_eq_false_iff] at h
    simp only [attrTy, h.1, Bool.false_eq_true, if_false]
    exact attrTy_none_of_not_any rest n h.2

theorem tyOK_of_attrTy : ∀ (attrs : List (String × STy)) (k : String) (t : STy), attrsOK attrs = true → attrTy attrs k = some t → tyOK t = true
  | [], _, _, _, h => by simp [attrTy] at h
  | (n, t') :: rest, k, t, ho, h => by
    simp only [attrsOK, Bool.and_eq_true] at ho
    simp only [attrTy] at h
    split at h
    · cases h; exact ho.1.2
    · exact tyOK_of_attrTy rest k t ho.2 h

/-! ### spellings -/

/-- an extension value in a position typed `ext n`: itself (explicit escape) or a String its parser maps to it -/
def extSpells (n : String) (v u : Value) : Prop :=
  match v with
  | .decimal d => n = "decimal" ∧ (u = v ∨ ∃ s, u = .str s ∧ parseDecimal s = .ok d)
  | .datetime d => n = "datetime" ∧ (u = v ∨ ∃ s, u = .str s ∧ parseDatetime s = .ok d)
  | .duration d => n = "duration" ∧ (u = v ∨ ∃ s, u = .str s ∧ parseDuration s = .ok d)
  | .ip a => n = "ipaddr" ∧ (u = v ∨ ∃ s, u = .str s ∧ parseIP s = .ok a)
  | _ => False

/-- what the unguided decoder makes of the implicit `{"type","id"}` object -/
def implicitRec (ty id : String) : Value := .record [("id", .str id), ("type", .str ty)]

mutual
def spells : Value → STy → Value → Prop
  | .bool b, t, u => t = .bool ∧ u = .bool b
  | .long n, t, u => t = .long ∧ u = .long n
  | .str s, t, u => t = .str ∧ u = .str s
  | .entity ty id, t, u => (∃ n, t = .entity n) ∧ (u = .entity ty id ∨ u = implicitRec ty id)
  | .decimal d, t, u => ∃ n, t = .ext n ∧ extSpells n (.decimal d) u
  | .datetime d, t, u => ∃ n, t = .ext n ∧ extSpells n (.datetime d) u
  | .duration d, t, u => ∃ n, t = .ext n ∧ extSpells n (.duration d) u
  | .ip a, t, u => ∃ n, t = .ext n ∧ extSpells n (.ip a) u
  | .set xs, t, u => ∃ te us, t = .set te ∧ u = .set us ∧ spellsL xs te us
  | .record kvs, t, u => ∃ attrs ukvs, t = .record attrs ∧ u = .record ukvs ∧ spellsKV kvs attrs ukvs
def spellsL : List Value → STy → List Value → Prop
  | [], _, us => us = []
  | x :: xs, t, us => ∃ u us', us = u :: us' ∧ spells x t u ∧ spellsL xs t us'
def spellsKV : List (String × Value) → List (String × STy) → List (String × Value) → Prop
  | [], _, ukvs => ukvs = []
  | (k, x) :: kvs, attrs, ukvs => ∃ u ukvs', ukvs = (k, u) :: ukvs' ∧
      (match attrTy attrs k with | some t => spells x t u | none => u = x) ∧ spellsKV kvs attrs ukvs'
end

/-! ### `coerceAttrs` on a key-sorted record = a pointwise map -/

/-- one entry of `coerceRecord`'s result -/
def coerceAt (attrs : List (String × STy)) (kv : String × Value) : String × Value :=
  (kv.1, match attrTy attrs kv.1 with | some t => coerceValue t kv.2 | none => kv.2)

/-- `m[name] = f(m[name])` when present -/
def updAt (name : String) (f : Value → Value) (m : List (String × Value)) : List (String × Value) :=
  m.map (fun kv => if kv.1 == name then (kv.1, f kv.2) else kv)

theorem keysSorted_tail {kv : String × Value} {rest : List (String × Value)} (h : keysSorted (kv :: rest) = true) : keysSorted rest = true := by
  cases rest with
  | nil => rfl
  | cons kv' rest' =>
    obtain ⟨k, v⟩ := kv
    obtain ⟨k', v'⟩ := kv'
    simp only [keysSorted, Bool.and_eq_true] at h
    exact h.2

theorem keysSorted_head_lt : ∀ (rest : List (String × Value)) (k : String) (v : Value), keysSorted ((k, v) :: rest) = true →
    ∀ kv ∈ rest, k < kv.1
  | [], _, _, _, _, hm => by simp at hm
  | (k', v') :: rest', k, v, h, kv, hm => by
    simp only [keysSorted, Bool.and_eq_true, decide_eq_true_eq] at h
    rcases List.mem_cons.mp hm with e | hm'
    · subst e; exact h.1
    · exact String.lt_trans h.1 (keysSorted_head_lt rest' k' v' h.2 kv hm')

theorem kvGet_mem : ∀ (m : List (String × Value)) (name : String) (val : Value), kvGet name m = some val → ∃ kv ∈ m, kv.1 = name
  | [], _, _, h => by simp [kvGet] at h
  | (k, v) :: rest, name, val, h => by
    simp only [kvGet] at h
    split at h
    · rename_i hk
      exact ⟨(k, v), by simp, (by simpa using hk : name = k).symm⟩
    · obtain ⟨kv, hm, hk⟩ := kvGet_mem rest name val h
      exact ⟨kv, by simp [hm], hk⟩

theorem updAt_noop (name : String) (f : Value → Value) : ∀ (m : List (String × Value)), (∀ kv ∈ m, kv.1 ≠ name) → updAt name f m = m
  | [], _ => rfl
  | kv :: rest, h => by
    have h1 : (kv.1 == name) = false := by simpa using h kv (by simp)
    simp only [updAt, List.map_cons, h1, Bool.false_eq_true, if_false]
    have := updAt_noop name f rest (fun x hx => h x (by simp [hx]))
    simp only [updAt] at this
    rw [this]

/-- one iteration of `coerceRecord`'s loop on a key-sorted record -/
theorem step_eq_updAt (name : String) (f : Value → Value) : ∀ (m : List (String × Value)), keysSorted m = true →
    (match kvGet name m with | some val => kvInsert name (f val) m | none => m) = updAt name f m
  | [], _ => rfl
  | (k, v) :: rest, hs => by
    have hlt := keysSorted_head_lt rest k v hs
    have hs' := keysSorted_tail hs
    by_cases hk : name = k
    · subst hk
      have hn : ¬ name < name := String.lt_irrefl name
      simp only [kvGet, beq_self_eq_true, if_true, kvInsert, hn, if_false]
      have := updAt_noop name f rest (fun kv hkv e => by
        have := hlt kv hkv
        rw [e] at this
        exact String.lt_irrefl _ this)
      simp only [updAt, List.map_cons, beq_self_eq_true, if_true] at this ⊢
      rw [this]
    · have hk1 : (name == k) = false := by simpa using hk
      have hk2 : (k == name) = false := by simpa using fun e => hk e.symm
      have ih := step_eq_updAt name f rest hs'
      simp only [kvGet, hk1, Bool.false_eq_true, if_false]
      cases hg : kvGet name rest with
      | none =>
        rw [hg] at ih
        simp only [updAt, List.map_cons, hk2, Bool.false_eq_true, if_false]
        simp only [updAt] at ih
        rw [← ih]
      | some val =>
        rw [hg] at ih
        obtain ⟨kv, hm, hkv⟩ := kvGet_mem rest name val hg
        have hlt' : k < name := by rw [← hkv]; exact hlt kv hm
        have hn : ¬ name < k := String.lt_asymm hlt'
        simp only [kvInsert, hn, if_false, hk1, Bool.false_eq_true, updAt, List.map_cons, hk2]
        simp only [updAt] at ih
        rw [ih]

theorem keysSorted_map_val (g : String × Value → Value) : ∀ (m : List (String × Value)),
    keysSorted (m.map (fun kv => (kv.1, g kv))) = keysSorted m
  | [] => rfl
  | [_] => rfl
  | (k, v) :: (k', v') :: rest => by
    have := keysSorted_map_val g ((k', v') :: rest)
    simp only [List.map_cons] at this
    simp only [List.map_cons, keysSorted, this]

theorem updAt_as_map (name : String) (f : Value → Value) (m : List (String × Value)) :
    updAt name f m = m.map (fun kv => (kv.1, if kv.1 == name then f kv.2 else kv.2)) := by
  simp only [updAt]
  apply List.map_congr_left
  intro kv _
  split <;> rfl

theorem coerceAttrs_eq_map : ∀ (attrs : List (String × STy)), attrsOK attrs = true → ∀ (m : List (String × Value)), keysSorted m = true →
    coerceAttrs attrs m = m.map (coerceAt attrs)
  | [], _, m, _ => by
    rw [coerceAttrs]
    have : coerceAt [] = id := funext fun kv => by simp [coerceAt, attrTy]
    rw [this, List.map_id]
  | (name, t) :: rest, ho, m, hs => by
    simp only [attrsOK, Bool.and_eq_true, Bool.not_eq_true'] at ho
    rw [coerceAttrs]
    have hstep := step_eq_updAt name (coerceValue t) m hs
    have hgoal : coerceAttrs rest (updAt name (coerceValue t) m) = List.map (coerceAt ((name, t) :: rest)) m →
        coerceAttrs rest (match kvGet name m with | some val => kvInsert name (coerceValue t val) m | none => m) =
          List.map (coerceAt ((name, t) :: rest)) m := by
      intro h
      cases hg : kvGet name m with
      | none => rw [hg] at hstep; simp only [] at hstep ⊢; rw [← hstep] at h; exact h
      | some val => rw [hg] at hstep; simp only [] at hstep ⊢; rw [← hstep] at h; exact h
    apply hgoal
    have hs2 : keysSorted (updAt name (coerceValue t) m) = true := by
      rw [updAt_as_map, keysSorted_map_val (fun kv => if kv.1 == name then coerceValue t kv.2 else kv.2)]; exact hs
    rw [coerceAttrs_eq_map rest ho.2 _ hs2]
    simp only [updAt, List.map_map]
    apply List.map_congr_left
    intro kv _
    have hnone := attrTy_none_of_not_any rest name ho.1.1
    obtain ⟨k, v⟩ := kv
    by_cases hk : k = name
    · subst hk
      simp [coerceAt, attrTy, hnone]
    · have h1 : (k == name) = false := by simpa using hk
      have h2 : (name == k) = false := by simpa using fun e => hk e.symm
      simp [coerceAt, attrTy, h2, hk]

end CedarGo.JsonModel
