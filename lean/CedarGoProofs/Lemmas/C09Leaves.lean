/-
  C09 ⟵ C12: the fragments `renderableE` / `semNormalE` of the JSON policy codec theorems mention, for literal values,
  C13's `vWF` (whose extension leaves ask that the text form parses back) and, for decimal / ip literal values, the
  same parse∘print identity directly.  Here both are implied by purely structural predicates (`renderableRangeE`,
  `semNormalRangeE`) through the C12 theorems (via Lemmas/C13Leaves.lean).
-/
import CedarGoProofs.Lemmas.C09h
import CedarGoProofs.Lemmas.C13Leaves
namespace CedarGo.JsonModel
open CedarGo CedarGo.Scalars

mutual
/-- `renderableE` with the literal condition `vWF v` replaced by `vCanon v && vInRange v` (no parser / printer inside) -/
def renderableRangeE : Expr → Bool
  | .lit (.decimal _) => true
  | .lit (.ip _) => true
  | .lit v => vCanon v && vInRange v && vNoReserved v
  | .var _ => true
  | .unop _ e => renderableRangeE e
  | .binop _ l r => renderableRangeE l && renderableRangeE r
  | .ite c t e => renderableRangeE c && renderableRangeE t && renderableRangeE e
  | .access e _ => renderableRangeE e
  | .has e _ => renderableRangeE e
  | .like e p => renderableRangeE e && p.all (fun c => validLiteral c.literal)
  | .is e _ => renderableRangeE e
  | .isIn e _ r => renderableRangeE e && renderableRangeE r
  | .set es => renderableRangeEs es
  | .record kes => renderableRangeKEs kes && keysDistinct kes
  | .call fn args => (Facts.extMap.any (fun x => x.1 == fn) && !(extIsMethod fn && args.isEmpty)) && renderableRangeEs args
def renderableRangeEs : List Expr → Bool
  | [] => true
  | e :: es => renderableRangeE e && renderableRangeEs es
def renderableRangeKEs : List (String × Expr) → Bool
  | [] => true
  | (_, e) :: kes => renderableRangeE e && renderableRangeKEs kes
end

mutual
theorem renderableE_of_range (e : Expr) (h : renderableRangeE e = true) : renderableE e = true := by
  cases e with
  | lit v =>
    cases v with
    | decimal d => simp [renderableE]
    | ip a => simp [renderableE]
    | bool b => simp [renderableE, vWF, vNoReserved]
    | str s => simp [renderableE, vWF, vNoReserved]
    | entity t i => simp [renderableE, vWF, vNoReserved]
    | long n =>
      simp only [renderableRangeE, Bool.and_eq_true] at h
      simp only [renderableE, Bool.and_eq_true]
      exact ⟨vWF_of_inRange _ h.1.1 h.1.2, h.2⟩
    | datetime t =>
      simp only [renderableRangeE, Bool.and_eq_true] at h
      simp only [renderableE, Bool.and_eq_true]
      exact ⟨vWF_of_inRange _ h.1.1 h.1.2, h.2⟩
    | duration d =>
      simp only [renderableRangeE, Bool.and_eq_true] at h
      simp only [renderableE, Bool.and_eq_true]
      exact ⟨vWF_of_inRange _ h.1.1 h.1.2, h.2⟩
    | set xs =>
      simp only [renderableRangeE, Bool.and_eq_true] at h
      simp only [renderableE, Bool.and_eq_true]
      exact ⟨vWF_of_inRange _ h.1.1 h.1.2, h.2⟩
    | record kvs =>
      simp only [renderableRangeE, Bool.and_eq_true] at h
      simp only [renderableE, Bool.and_eq_true]
      exact ⟨vWF_of_inRange _ h.1.1 h.1.2, h.2⟩
  | var v => simp [renderableE]
  | unop op e => simp only [renderableRangeE] at h; simp only [renderableE]; exact renderableE_of_range e h
  | binop op l r =>
    simp only [renderableRangeE, Bool.and_eq_true] at h
    simp only [renderableE, Bool.and_eq_true]
    exact ⟨renderableE_of_range l h.1, renderableE_of_range r h.2⟩
  | ite c t e =>
    simp only [renderableRangeE, Bool.and_eq_true] at h
    simp only [renderableE, Bool.and_eq_true]
    exact ⟨⟨renderableE_of_range c h.1.1, renderableE_of_range t h.1.2⟩, renderableE_of_range e h.2⟩
  | access e a => simp only [renderableRangeE] at h; simp only [renderableE]; exact renderableE_of_range e h
  | has e a => simp only [renderableRangeE] at h; simp only [renderableE]; exact renderableE_of_range e h
  | like e p =>
    simp only [renderableRangeE, Bool.and_eq_true] at h
    simp only [renderableE, Bool.and_eq_true]
    exact ⟨renderableE_of_range e h.1, h.2⟩
  | is e ty => simp only [renderableRangeE] at h; simp only [renderableE]; exact renderableE_of_range e h
  | isIn e ty r =>
    simp only [renderableRangeE, Bool.and_eq_true] at h
    simp only [renderableE, Bool.and_eq_true]
    exact ⟨renderableE_of_range e h.1, renderableE_of_range r h.2⟩
  | set es => simp only [renderableRangeE] at h; simp only [renderableE]; exact renderableEs_of_range es h
  | record kes =>
    simp only [renderableRangeE, Bool.and_eq_true] at h
    simp only [renderableE, Bool.and_eq_true]
    exact ⟨renderableKEs_of_range kes h.1, h.2⟩
  | call fn args =>
    simp only [renderableRangeE, Bool.and_eq_true] at h
    simp only [renderableE, Bool.and_eq_true]
    exact ⟨h.1, renderableEs_of_range args h.2⟩
theorem renderableEs_of_range (es : List Expr) (h : renderableRangeEs es = true) : renderableEs es = true := by
  cases es with
  | nil => rfl
  | cons e es =>
    simp only [renderableRangeEs, Bool.and_eq_true] at h
    simp only [renderableEs, Bool.and_eq_true]
    exact ⟨renderableE_of_range e h.1, renderableEs_of_range es h.2⟩
theorem renderableKEs_of_range (kes : List (String × Expr)) (h : renderableRangeKEs kes = true) :
    renderableKEs kes = true := by
  cases kes with
  | nil => rfl
  | cons ke kes =>
    obtain ⟨k, e⟩ := ke
    simp only [renderableRangeKEs, Bool.and_eq_true] at h
    simp only [renderableKEs, Bool.and_eq_true]
    exact ⟨renderableE_of_range e h.1, renderableKEs_of_range kes h.2⟩
end

/-- `renderableP` with `renderableRangeE` on the conditions -/
def renderableRangeP (p : Policy) : Bool :=
  scopePR p.principal && scopeAct p.action && scopePR p.resource && p.conditions.all (fun c => renderableRangeE c.2)

theorem renderableP_of_range (p : Policy) (h : renderableRangeP p = true) : renderableP p = true := by
  simp only [renderableRangeP, Bool.and_eq_true, List.all_eq_true] at h
  simp only [renderableP, Bool.and_eq_true, List.all_eq_true]
  exact ⟨h.1, fun c hc => renderableE_of_range c.2 (h.2 c hc)⟩

/-! ### the semantic fragment -/

mutual
/-- `semNormalE` with "the literal's text parses back" replaced by ranges: decimal literal values in int64 range, ip
    literal values valid and not IPv4-mapped (`ipInRange`: exactly what C12 proves to round-trip) -/
def semNormalRangeE : Expr → Bool
  | .lit (.decimal d) => decide (InI64 d)
  | .lit (.ip a) => ipInRange a
  | .lit _ => true
  | .var _ => true
  | .unop _ e => semNormalRangeE e
  | .binop _ l r => semNormalRangeE l && semNormalRangeE r
  | .ite c t e => semNormalRangeE c && semNormalRangeE t && semNormalRangeE e
  | .access e _ => semNormalRangeE e
  | .has e _ => semNormalRangeE e
  | .like e p => semNormalRangeE e && decide (normPattern p = p)
  | .is e _ => semNormalRangeE e
  | .isIn e _ r => semNormalRangeE e && semNormalRangeE r
  | .set es => semNormalRangeEs es
  | .record kes => semNormalRangeKEs kes && strictKeys kes
  | .call _ args => semNormalRangeEs args
def semNormalRangeEs : List Expr → Bool
  | [] => true
  | e :: es => semNormalRangeE e && semNormalRangeEs es
def semNormalRangeKEs : List (String × Expr) → Bool
  | [] => true
  | (_, e) :: kes => semNormalRangeE e && semNormalRangeKEs kes
end

mutual
theorem semNormalE_of_range (e : Expr) (h : semNormalRangeE e = true) : semNormalE e = true := by
  cases e with
  | lit v =>
    cases v with
    | decimal d =>
      simp only [semNormalRangeE, decide_eq_true_eq] at h
      simp only [semNormalE]
      exact okEq_of_eq (C12_decimal_roundtrip d h)
    | ip a =>
      simp only [semNormalRangeE] at h
      simp only [semNormalE]
      exact okEqIP_of_eq (parseIP_printIPNet_of_inRange a h)
    | bool b => simp [semNormalE]
    | str s => simp [semNormalE]
    | entity t i => simp [semNormalE]
    | long n => simp [semNormalE]
    | datetime t => simp [semNormalE]
    | duration d => simp [semNormalE]
    | set xs => simp [semNormalE]
    | record kvs => simp [semNormalE]
  | var v => simp [semNormalE]
  | unop op e => simp only [semNormalRangeE] at h; simp only [semNormalE]; exact semNormalE_of_range e h
  | binop op l r =>
    simp only [semNormalRangeE, Bool.and_eq_true] at h
    simp only [semNormalE, Bool.and_eq_true]
    exact ⟨semNormalE_of_range l h.1, semNormalE_of_range r h.2⟩
  | ite c t e =>
    simp only [semNormalRangeE, Bool.and_eq_true] at h
    simp only [semNormalE, Bool.and_eq_true]
    exact ⟨⟨semNormalE_of_range c h.1.1, semNormalE_of_range t h.1.2⟩, semNormalE_of_range e h.2⟩
  | access e a => simp only [semNormalRangeE] at h; simp only [semNormalE]; exact semNormalE_of_range e h
  | has e a => simp only [semNormalRangeE] at h; simp only [semNormalE]; exact semNormalE_of_range e h
  | like e p =>
    simp only [semNormalRangeE, Bool.and_eq_true] at h
    simp only [semNormalE, Bool.and_eq_true]
    exact ⟨semNormalE_of_range e h.1, h.2⟩
  | is e ty => simp only [semNormalRangeE] at h; simp only [semNormalE]; exact semNormalE_of_range e h
  | isIn e ty r =>
    simp only [semNormalRangeE, Bool.and_eq_true] at h
    simp only [semNormalE, Bool.and_eq_true]
    exact ⟨semNormalE_of_range e h.1, semNormalE_of_range r h.2⟩
  | set es => simp only [semNormalRangeE] at h; simp only [semNormalE]; exact semNormalEs_of_range es h
  | record kes =>
    simp only [semNormalRangeE, Bool.and_eq_true] at h
    simp only [semNormalE]
    exact semNormalKEs_of_range kes h.1
  | call fn args => simp only [semNormalRangeE] at h; simp only [semNormalE]; exact semNormalEs_of_range args h
theorem semNormalEs_of_range (es : List Expr) (h : semNormalRangeEs es = true) : semNormalEs es = true := by
  cases es with
  | nil => rfl
  | cons e es =>
    simp only [semNormalRangeEs, Bool.and_eq_true] at h
    simp only [semNormalEs, Bool.and_eq_true]
    exact ⟨semNormalE_of_range e h.1, semNormalEs_of_range es h.2⟩
theorem semNormalKEs_of_range (kes : List (String × Expr)) (h : semNormalRangeKEs kes = true) :
    semNormalKEs kes = true := by
  cases kes with
  | nil => rfl
  | cons ke kes =>
    obtain ⟨k, e⟩ := ke
    simp only [semNormalRangeKEs, Bool.and_eq_true] at h
    simp only [semNormalKEs, Bool.and_eq_true]
    exact ⟨semNormalE_of_range e h.1, semNormalKEs_of_range kes h.2⟩
end

theorem semNormal_conditions_of_range (p : Policy) (h : p.conditions.all (fun c => semNormalRangeE c.2) = true) :
    p.conditions.all (fun c => semNormalE c.2) = true := by
  simp only [List.all_eq_true] at h ⊢
  exact fun c hc => semNormalE_of_range c.2 (h c hc)

end CedarGo.JsonModel
