/-
  C11 helper lemmas, part 3: the open-addressed table of `types.Set`.
  Invariant of an insert-only table (DESIGN §C11): keys unique; every stored `v` sits at slot
  `hash v + d` with slots `hash v … hash v + d − 1` occupied; no two stored values are equal.
-/
import CedarGoProofs.Lemmas.C11Beq
import CedarGoProofs.Lemmas.C11Lists
namespace CedarGo
namespace C11

/-- a hash function is usable iff equal values hash equally -/
def HashRespectsEq (hash : Value → UInt64) : Prop := ∀ a b, Value.beq a b = true → hash a = hash b

/-- the slot reached after `j` increments (`hash++`), wrapping at 2^64 -/
def addN : UInt64 → Nat → UInt64
  | h, 0 => h
  | h, j + 1 => addN (h + 1) j

theorem addN_toNat (h : UInt64) (j : Nat) : (addN h j).toNat = (h.toNat + j) % 18446744073709551616 := by
  induction j generalizing h with
  | zero => simp [addN]
  | succ j ih =>
    rw [addN, ih, UInt64.toNat_add]
    have : (1 : UInt64).toNat = 1 := rfl
    rw [this]; omega

theorem addN_inj (h : UInt64) {i j : Nat} (hi : i < 18446744073709551616) (hj : j < 18446744073709551616)
    (e : addN h i = addN h j) : i = j := by
  have := congrArg UInt64.toNat e
  rw [addN_toNat, addN_toNat] at this
  omega

def keys (t : Table) : List UInt64 := t.map (·.1)
def vals (t : Table) : List Value := t.map (·.2)

theorem get_some_mem {t : Table} {k : UInt64} {e : Value} (h : t.get k = some e) : (k, e) ∈ t := by
  induction t with
  | nil => simp [Table.get] at h
  | cons kv t ih =>
    obtain ⟨k', v⟩ := kv
    simp only [Table.get] at h
    split at h
    · rename_i hk; subst hk; cases h; simp
    · simp [ih h]

theorem get_none_iff {t : Table} {k : UInt64} : t.get k = none ↔ k ∉ keys t := by
  induction t with
  | nil => simp [Table.get, keys]
  | cons kv t ih =>
    obtain ⟨k', v⟩ := kv
    simp only [Table.get, keys, List.map_cons, List.mem_cons, not_or]
    split
    · rename_i hk; simp [hk]
    · rename_i hk; simp only [keys] at ih; simp [ih, hk]

theorem get_of_mem {t : Table} {k : UInt64} {e : Value} (hn : (keys t).Nodup) (h : (k, e) ∈ t) : t.get k = some e := by
  induction t with
  | nil => cases h
  | cons kv t ih =>
    obtain ⟨k', v⟩ := kv
    simp only [keys, List.map_cons, List.nodup_cons] at hn
    simp only [Table.get]
    rcases List.mem_cons.mp h with h | h
    · cases h; simp
    · have hk : k ∈ List.map (·.1) t := List.mem_map.mpr ⟨(k, e), h, rfl⟩
      have : k ≠ k' := fun e' => hn.1 (e' ▸ hk)
      simp [this]; exact ih hn.2 h

theorem get_cons_isSome {t : Table} {k s : UInt64} {v : Value} (h : (t.get k).isSome) : (Table.get ((s, v) :: t) k).isSome := by
  simp only [Table.get]; split <;> simp [h]

/-! ### what a probe result means -/

theorem probe_found {t : Table} {v : Value} : ∀ {f : Nat} {h s : UInt64}, probe t v f h = .found s →
    ∃ e, t.get s = some e ∧ Value.beq v e = true := by
  intro f
  induction f with
  | zero => intro h s hp; simp [probe] at hp
  | succ f ih =>
    intro h s hp
    simp only [probe] at hp
    split at hp
    · cases hp
    · rename_i e he
      split at hp
      · rename_i hb; cases hp; exact ⟨e, he, hb⟩
      · exact ih hp

theorem probe_empty {t : Table} {v : Value} : ∀ {f : Nat} {h s : UInt64}, probe t v f h = .empty s →
    ∃ d, d < f ∧ s = addN h d ∧ t.get s = none ∧
      ∀ j, j < d → ∃ e, t.get (addN h j) = some e ∧ Value.beq v e = false := by
  intro f
  induction f with
  | zero => intro h s hp; simp [probe] at hp
  | succ f ih =>
    intro h s hp
    simp only [probe] at hp
    split at hp
    · rename_i he; cases hp; exact ⟨0, by omega, rfl, he, fun j hj => by omega⟩
    · rename_i e he
      split at hp
      · cases hp
      · rename_i hb
        obtain ⟨d, hd, hs, hn, hc⟩ := ih hp
        refine ⟨d + 1, by omega, by simpa [addN] using hs, hn, fun j hj => ?_⟩
        cases j with
        | zero => exact ⟨e, he, by simpa using hb⟩
        | succ j => simpa [addN] using hc j (by omega)

theorem probe_exhausted {t : Table} {v : Value} : ∀ {f : Nat} {h : UInt64}, probe t v f h = .exhausted →
    ∀ j, j < f → ∃ e, t.get (addN h j) = some e ∧ Value.beq v e = false := by
  intro f
  induction f with
  | zero => intro h _ j hj; omega
  | succ f ih =>
    intro h hp j hj
    simp only [probe] at hp
    split at hp
    · cases hp
    · rename_i e he
      split at hp
      · cases hp
      · rename_i hb
        cases j with
        | zero => exact ⟨e, he, by simpa using hb⟩
        | succ j => simpa [addN] using ih hp j (by omega)

/-- pigeonhole: a table with fewer than 2^64 entries has an empty slot among any `size + 1` consecutive ones -/
theorem exists_empty_slot {t : Table} (hl : t.length < 18446744073709551616) (h : UInt64) :
    ∃ j, j < t.length + 1 ∧ t.get (addN h j) = none := by
  apply Classical.byContradiction
  intro hno
  have hall : ∀ j, j < t.length + 1 → addN h j ∈ keys t := by
    intro j hj
    apply Classical.byContradiction
    intro hnot
    exact hno ⟨j, hj, get_none_iff.mpr hnot⟩
  let ks := (List.range (t.length + 1)).map (addN h)
  have hks : ks.Nodup := by
    show (List.map (addN h) (List.range (t.length + 1))).Nodup
    rw [List.Nodup, List.pairwise_map]
    refine List.Pairwise.imp_of_mem (fun {a b} ha hb hab e => hab ?_) List.nodup_range
    have ha' := List.mem_range.mp ha
    have hb' := List.mem_range.mp hb
    exact addN_inj h (by omega) (by omega) e
  have hsub : ∀ a ∈ ks, a ∈ keys t := by
    intro a ha
    obtain ⟨j, hj, rfl⟩ := List.mem_map.mp ha
    exact hall j (List.mem_range.mp hj)
  have := nodup_subset_length ks (keys t) hks hsub
  simp [ks, keys] at this
  omega

/-- C11 probe termination: with fuel = size + 1 the probe loop never runs out -/
theorem probe_not_exhausted {t : Table} (hl : t.length < 18446744073709551616)
    (v : Value) (h : UInt64) : probe t v (t.length + 1) h ≠ .exhausted := by
  intro hp
  obtain ⟨j, hj, hnone⟩ := exists_empty_slot hl h
  obtain ⟨e, he, _⟩ := probe_exhausted hp j hj
  rw [hnone] at he; cases he

/-! ### the table invariant -/

structure Inv (hash : Value → UInt64) (t : Table) : Prop where
  nodupKeys : (keys t).Nodup
  chain : ∀ k v, (k, v) ∈ t → ∃ d, k = addN (hash v) d ∧ ∀ j, j < d → (t.get (addN (hash v) j)).isSome
  distinct : NoDupR Value.beq (vals t)
  small : t.length < 18446744073709551616

theorem inv_nil (hash : Value → UInt64) : Inv hash [] :=
  ⟨by simp [keys], (by intro k v h; cases h), (by simp [NoDupR, vals]), (by simp)⟩

/-- probing for `v` in a table holding an element equal to `v` finds it -/
theorem probe_of_mem {hash : Value → UInt64} (hr : HashRespectsEq hash) {t : Table} (inv : Inv hash t)
    {k : UInt64} {v w : Value} (hm : (k, w) ∈ t) (hb : Value.beq v w = true) :
    ∃ s, probe t v (t.length + 1) (hash v) = .found s := by
  have hh : hash v = hash w := hr v w hb
  obtain ⟨d, hk, hc⟩ := inv.chain k w hm
  have hget : t.get k = some w := get_of_mem inv.nodupKeys hm
  cases hp : probe t v (t.length + 1) (hash v) with
  | found s => exact ⟨s, rfl⟩
  | exhausted => exact absurd hp (probe_not_exhausted inv.small v _)
  | empty s =>
    exfalso
    obtain ⟨d', _, hs, hnone, hc'⟩ := probe_empty hp
    rw [hh] at hs hc'
    rcases Nat.lt_trichotomy d' d with hlt | heq | hgt
    · have := hc d' hlt
      rw [← hs, hnone] at this; cases this
    · subst heq; rw [← hk] at hs; subst hs; rw [hget] at hnone; cases hnone
    · obtain ⟨e, he, hne⟩ := hc' d hgt
      rw [← hk, hget] at he; cases he
      rw [hb] at hne; cases hne

theorem memL_iff (v : Value) (xs : List Value) : Value.memL v xs = true ↔ ∃ w ∈ xs, Value.beq v w = true := by
  simp only [Value.memL, List.any_eq_true]
  constructor
  · rintro ⟨x, hx, hb⟩; exact ⟨x, hx, by rw [beq_symm]; exact hb⟩
  · rintro ⟨x, hx, hb⟩; exact ⟨x, hx, by rw [beq_symm]; exact hb⟩

theorem mem_vals {t : Table} {w : Value} : w ∈ vals t ↔ ∃ k, (k, w) ∈ t := by
  simp [vals]

/-- `Set.Contains` is membership modulo `Equal` among the stored values -/
theorem probe_contains_iff {hash : Value → UInt64} (hr : HashRespectsEq hash) {t : Table} (inv : Inv hash t) (v : Value) :
    (∃ s, probe t v (t.length + 1) (hash v) = .found s) ↔ ∃ w ∈ vals t, Value.beq v w = true := by
  constructor
  · rintro ⟨s, hp⟩
    obtain ⟨e, he, hb⟩ := probe_found hp
    exact ⟨e, mem_vals.mpr ⟨s, get_some_mem he⟩, hb⟩
  · rintro ⟨w, hw, hb⟩
    obtain ⟨k, hk⟩ := mem_vals.mp hw
    exact probe_of_mem hr inv hk hb

/-- one `NewSet` loop iteration keeps the invariant and does to the value list exactly what `dedupV` does -/
theorem insertV_spec {hash : Value → UInt64} (hr : HashRespectsEq hash) {t : Table} (inv : Inv hash t)
    (hl : t.length + 1 < 18446744073709551616) (v : Value) :
    Inv hash (insertV hash t v) ∧
      vals (insertV hash t v) = if Value.memL v (vals t) then vals t else v :: vals t := by
  unfold insertV
  cases hp : probe t v (t.length + 1) (hash v) with
  | exhausted => exact absurd hp (probe_not_exhausted inv.small v _)
  | found s =>
    have : Value.memL v (vals t) = true := (memL_iff v _).mpr ((probe_contains_iff hr inv v).mp ⟨s, hp⟩)
    simp [this, inv]
  | empty s =>
    have hnot : ¬ ∃ w ∈ vals t, Value.beq v w = true := by
      intro h
      obtain ⟨s', hs'⟩ := (probe_contains_iff hr inv v).mpr h
      rw [hp] at hs'; cases hs'
    have hmem : Value.memL v (vals t) = false := by
      cases hm : Value.memL v (vals t) with
      | false => rfl
      | true => exact absurd ((memL_iff v _).mp hm) hnot
    obtain ⟨d, _, hs, hnone, hc⟩ := probe_empty hp
    refine ⟨⟨?_, ?_, ?_, ?_⟩, by rw [hmem]; rfl⟩
    · simp only [keys, List.map_cons, List.nodup_cons]
      exact ⟨get_none_iff.mp hnone, inv.nodupKeys⟩
    · intro k w hm
      rcases List.mem_cons.mp hm with h | h
      · cases h
        refine ⟨d, hs, fun j hj => ?_⟩
        obtain ⟨e, he, _⟩ := hc j hj
        exact get_cons_isSome (by simp [he])
      · obtain ⟨d', hk, hc'⟩ := inv.chain k w h
        exact ⟨d', hk, fun j hj => get_cons_isSome (hc' j hj)⟩
    · simp only [NoDupR, vals, List.map_cons, List.pairwise_cons]
      refine ⟨fun w hw => ?_, inv.distinct⟩
      cases hb : Value.beq v w with
      | false => rfl
      | true => exact absurd ⟨w, hw, hb⟩ hnot
    · simp; omega

theorem insertV_length_le (hash : Value → UInt64) (t : Table) (v : Value) : (insertV hash t v).length ≤ t.length + 1 := by
  unfold insertV; split <;> simp

/-- the whole `NewSet` loop: invariant, and the stored values are `dedupV`'s result -/
theorem foldl_insertV_spec {hash : Value → UInt64} (hr : HashRespectsEq hash) :
    ∀ (l : List Value) (t : Table), Inv hash t → t.length + l.length < 18446744073709551616 →
      Inv hash (l.foldl (insertV hash) t) ∧ (vals (l.foldl (insertV hash) t)).reverse = dedupV (vals t) l := by
  intro l
  induction l with
  | nil => intro t inv _; simp [dedupV, inv]
  | cons v l ih =>
    intro t inv hl
    simp only [List.length_cons] at hl
    obtain ⟨inv', hv⟩ := insertV_spec hr inv (by omega) v
    have hlen := insertV_length_le hash t v
    obtain ⟨inv'', hv'⟩ := ih (insertV hash t v) inv' (by omega)
    refine ⟨by simpa using inv'', ?_⟩
    simp only [List.foldl_cons, hv', hv, dedupV]
    split <;> rfl

/-! ### `dedupV` keeps exactly the members (modulo `beq`) and no duplicates -/

theorem dedupV_sub : ∀ (l acc : List Value) (x : Value), x ∈ dedupV acc l → x ∈ acc ∨ x ∈ l := by
  intro l
  induction l with
  | nil => intro acc x hx; simp [dedupV] at hx; exact Or.inl hx
  | cons y l ih =>
    intro acc x hx
    simp only [dedupV] at hx
    split at hx
    · rcases ih acc x hx with h | h
      · exact Or.inl h
      · exact Or.inr (by simp [h])
    · rcases ih (y :: acc) x hx with h | h
      · rcases List.mem_cons.mp h with rfl | h
        · exact Or.inr (by simp)
        · exact Or.inl h
      · exact Or.inr (by simp [h])

theorem dedupV_sup : ∀ (l acc : List Value) (x : Value), x ∈ acc ∨ x ∈ l → ∃ w ∈ dedupV acc l, Value.beq x w = true := by
  intro l
  induction l with
  | nil =>
    intro acc x hx
    rcases hx with h | h
    · exact ⟨x, by simp [dedupV, h], beq_refl x⟩
    · cases h
  | cons y l ih =>
    intro acc x hx
    simp only [dedupV]
    split
    · rename_i hm
      rcases hx with h | h
      · exact ih acc x (Or.inl h)
      · rcases List.mem_cons.mp h with rfl | h
        · obtain ⟨a, ha, hb⟩ := (memL_iff _ _).mp hm
          obtain ⟨w, hw, hb'⟩ := ih acc a (Or.inl ha)
          exact ⟨w, hw, beq_trans _ _ _ hb hb'⟩
        · exact ih acc x (Or.inr h)
    · rcases hx with h | h
      · exact ih (y :: acc) x (Or.inl (by simp [h]))
      · rcases List.mem_cons.mp h with rfl | h
        · exact ih (x :: acc) x (Or.inl (by simp))
        · exact ih (y :: acc) x (Or.inr h)

theorem dedupV_mem (l : List Value) (v : Value) :
    (∃ w ∈ dedupV [] l, Value.beq v w = true) ↔ ∃ w ∈ l, Value.beq v w = true := by
  constructor
  · rintro ⟨w, hw, hb⟩
    rcases dedupV_sub l [] w hw with h | h
    · cases h
    · exact ⟨w, h, hb⟩
  · rintro ⟨w, hw, hb⟩
    obtain ⟨w', hw', hb'⟩ := dedupV_sup l [] w (Or.inr hw)
    exact ⟨w', hw', beq_trans _ _ _ hb hb'⟩

theorem noDupR_reverse {xs : List Value} (h : NoDupR Value.beq xs) : NoDupR Value.beq xs.reverse := by
  unfold NoDupR at *
  rw [List.pairwise_reverse]
  exact h.imp (fun {a b} hab => by rw [beq_symm]; exact hab)

end C11
end CedarGo
