/-
  C07 ∘ C18 bridge, part 5: one `nextToken` on a configuration — block comments, operators, the dispatch of
  `tokenFrom`, `finishToken`.
-/
import CedarGoProofs.Lemmas.C07LexString
namespace CedarGo.Text
open Lx

/-! ## block comments -/

theorem blockCommentLoop_cfg (doc : List UInt8) (ts : Option Nat) (pos : Pos) :
    ∀ (body : List Char) (f k : Nat) (Y : List Char), noStarSlash body = true → NoNul (body ++ '*' :: '/' :: Y) →
      body.length < f →
      blockCommentLoop pureSrc f (cfg doc k ts pos (body ++ '*' :: '/' :: Y)).1 (cfg doc k ts pos (body ++ '*' :: '/' :: Y)).2
        = cfg doc (k + blen (body ++ ['*', '/'])) ts pos Y := by
  intro body
  induction body with
  | nil =>
    intro f k Y _ hn hf
    obtain ⟨f, rfl⟩ : ∃ f', f = f' + 1 := ⟨f - 1, by omega⟩
    have n1 := next_cfg doc k ts pos '*' ('/' :: Y) hn.tail
    have n2 := next_cfg doc (k + ('*' : Char).utf8Size) ts pos '/' Y hn.tail.tail
    simp only [List.nil_append, blockCommentLoop]
    rw [n1, n2]
    have e1 : (cfg doc k ts pos ('*' :: '/' :: Y)).1 = 42 := rfl
    have e2 : (cfg doc (k + ('*' : Char).utf8Size) ts pos ('/' :: Y)).1 = 47 := rfl
    rw [e1, e2, if_neg (by decide), if_pos (by decide)]
    simp only [blen_cons, blen_nil, Nat.add_zero, Nat.add_assoc]
  | cons c body ih =>
    intro f k Y hb hn hf
    obtain ⟨f, rfl⟩ : ∃ f', f = f' + 1 := ⟨f - 1, by omega⟩
    simp only [noStarSlash, Bool.and_eq_true, Bool.not_eq_true'] at hb
    have n1 := next_cfg doc k ts pos c (body ++ '*' :: '/' :: Y) hn.tail
    simp only [List.cons_append, blockCommentLoop]
    rw [n1, if_neg (show ¬ (cfg doc k ts pos (c :: (body ++ '*' :: '/' :: Y))).1 < 0 from rune_nonneg c)]
    have hcond : ((cfg doc k ts pos (c :: (body ++ '*' :: '/' :: Y))).1 == 42 &&
        (cfg doc (k + c.utf8Size) ts pos (body ++ '*' :: '/' :: Y)).1 == 47) = false := by
      rw [cfg_fst_cons]
      cases body with
      | nil =>
        have e2 : (cfg doc (k + c.utf8Size) ts pos ([] ++ '*' :: '/' :: Y)).1 = 42 := rfl
        rw [e2]; simp
      | cons d body =>
        simp only [List.cons_append, cfg_fst_cons]
        have := hb.1
        simp only [List.head?_cons, Option.map_some, Bool.and_eq_false_imp, beq_iff_eq] at this
        rw [Bool.and_eq_false_imp]
        intro h1
        have h1' : c.toNat = 42 := Int.ofNat.inj (by simpa using h1)
        have h2 := this h1'
        rw [beq_eq_false_iff_ne]; intro h3
        apply (by simpa using h2 : d.toNat ≠ 47)
        exact Int.ofNat.inj h3
    rw [hcond, if_neg (by decide)]
    rw [ih f _ Y hb.2 hn.tail (by simp at hf; omega)]
    simp only [blen_cons, blen_append, blen_nil, Nat.add_zero, Nat.add_assoc]

/-! ## operators: `scanOperator` as a pure table -/

/-- class of the operator token that starts with `ch0` when the next character is `ch`, and whether `ch`
    belongs to it -/
def opStep (ch0 ch : Rune) : TokType × Bool :=
  if ch0 == 64 || ch0 == 46 || ch0 == 44 || ch0 == 59 || ch0 == 40 || ch0 == 41 || ch0 == 123 || ch0 == 125
      || ch0 == 91 || ch0 == 93 || ch0 == 43 || ch0 == 45 || ch0 == 42 then (.operator, false)
  else if ch0 == 58 then
    if ch == 58 then (.operator, true) else (.operator, false)
  else if ch0 == 33 || ch0 == 60 || ch0 == 62 then
    if ch == 61 then (.operator, true) else (.operator, false)
  else if ch0 == 61 then
    if ch != 61 then (.unknown, false) else (.operator, true)
  else if ch0 == 124 then
    if ch != 124 then (.unknown, false) else (.operator, true)
  else if ch0 == 38 then
    if ch != 38 then (.unknown, false) else (.operator, true)
  else (.unknown, false)

theorem scanOperator_eq {σ : Type} (S : Src σ) (ch0 ch : Rune) (s : σ) :
    scanOperator S ch0 ch s = ((opStep ch0 ch).1, if (opStep ch0 ch).2 then S.next s else (ch, s)) := by
  simp only [scanOperator, opStep]
  repeat' split
  all_goals first | rfl | (rename_i h; simp at h)

/-! ## the dispatch of `tokenFrom` (generic in the source) -/

section Dispatch
variable {σ : Type} (S : Src σ) (F f : Nat) (ch : Rune) (s : σ) (w : Rune × σ) (hw : skipWhitespace S F ch s = w)
include hw

theorem tokenFrom_eof (h : w.1 = runeEOF) :
    tokenFrom S F (f + 1) ch s = finishToken S .eof w.1 (S.tokMark w.2) := by
  subst hw; simp [tokenFrom, h]

theorem tokenFrom_ident (h1 : (w.1 == runeEOF) = false) (h2 : isIdentRune w.1 true = true) :
    tokenFrom S F (f + 1) ch s
      = finishToken S .ident (scanIdentifier S F (S.tokMark w.2)).1 (scanIdentifier S F (S.tokMark w.2)).2 := by
  subst hw; simp [tokenFrom, h1, h2]

theorem tokenFrom_int (h1 : (w.1 == runeEOF) = false) (h2 : isIdentRune w.1 true = false) (h3 : Lx.isDecimal w.1 = true) :
    tokenFrom S F (f + 1) ch s
      = finishToken S .int (scanInteger S F w.1 (S.tokMark w.2)).1 (scanInteger S F w.1 (S.tokMark w.2)).2 := by
  subst hw; simp [tokenFrom, h1, h2, h3]

theorem tokenFrom_string (h1 : (w.1 == runeEOF) = false) (h2 : isIdentRune w.1 true = false) (h3 : Lx.isDecimal w.1 = false)
    (h4 : (w.1 == 34) = true) :
    tokenFrom S F (f + 1) ch s
      = finishToken S .string (S.next (scanString S F (S.tokMark w.2))).1 (S.next (scanString S F (S.tokMark w.2))).2 := by
  subst hw; simp [tokenFrom, h1, h2, h3, h4]

theorem tokenFrom_comment (h1 : (w.1 == runeEOF) = false) (h2 : isIdentRune w.1 true = false) (h3 : Lx.isDecimal w.1 = false)
    (h4 : (w.1 == 34) = false) (h5 : (w.1 == 47) = true)
    (h6 : ((S.next (S.tokMark w.2)).1 == 47 || (S.next (S.tokMark w.2)).1 == 42) = true) :
    tokenFrom S F (f + 1) ch s
      = tokenFrom S F f (scanComment S F (S.next (S.tokMark w.2)).1 (S.tokKill (S.next (S.tokMark w.2)).2)).1
          (scanComment S F (S.next (S.tokMark w.2)).1 (S.tokKill (S.next (S.tokMark w.2)).2)).2 := by
  subst hw
  simp only [tokenFrom]
  rw [if_neg (by simp [h1]), if_neg (by simp [h2]), if_neg (by simp [h3]), if_neg (by simp [h4]), if_pos h5, if_pos h6]

theorem tokenFrom_op (h1 : (w.1 == runeEOF) = false) (h2 : isIdentRune w.1 true = false) (h3 : Lx.isDecimal w.1 = false)
    (h4 : (w.1 == 34) = false)
    (h6 : (w.1 == 47) = true → ((S.next (S.tokMark w.2)).1 == 47 || (S.next (S.tokMark w.2)).1 == 42) = false) :
    tokenFrom S F (f + 1) ch s
      = finishToken S (scanOperator S w.1 (S.next (S.tokMark w.2)).1 (S.next (S.tokMark w.2)).2).1
          (scanOperator S w.1 (S.next (S.tokMark w.2)).1 (S.next (S.tokMark w.2)).2).2.1
          (scanOperator S w.1 (S.next (S.tokMark w.2)).1 (S.next (S.tokMark w.2)).2).2.2 := by
  subst hw
  simp only [tokenFrom]
  rw [if_neg (by simp [h1]), if_neg (by simp [h2]), if_neg (by simp [h3]), if_neg (by simp [h4])]
  by_cases h5 : (skipWhitespace S F ch s).1 == 47
  · rw [if_pos h5, if_neg (by have := h6 h5; simpa using this)]
  · rw [if_neg h5]

/-- only the result of `skipWhitespace` matters -/
theorem tokenFrom_of_ws (ch' : Rune) (s' : σ) (hw' : skipWhitespace S F ch' s' = w) :
    tokenFrom S F (f + 1) ch s = tokenFrom S F (f + 1) ch' s' := by
  simp only [tokenFrom, hw, hw']

end Dispatch

end CedarGo.Text
