/-
  C16: Kahn's algorithm as transcribed in `detectCycles` is complete — when it reports no cycle, the nodes it
  dequeued form a topological order of the whole dependency graph.
-/
import CedarGoProofs.Lemmas.C16
namespace CedarGo.Schema

theorem mem_dedupStr {x : String} : ∀ {l : List String}, x ∈ dedupStr l ↔ x ∈ l
  | [] => by simp [dedupStr]
  | a :: l => by
    have ih := @mem_dedupStr x l
    simp only [dedupStr, List.mem_cons, List.mem_filter, ih]
    by_cases h : x = a <;> simp [h]

theorem nodup_dedupStr : ∀ (l : List String), (dedupStr l).Nodup
  | [] => by simp [dedupStr]
  | a :: l => by
    simp only [dedupStr, List.nodup_cons, List.mem_filter]
    exact ⟨by simp, (nodup_dedupStr l).filter _⟩

section Kahn
variable (N : List String) (deps : String → List String)

/-- number of edge occurrences into `v` from nodes not yet dequeued -/
def cntU (S : List String) (v : String) : List String → Nat
  | [] => 0
  | u :: N => (if u ∈ S then 0 else (deps u).count v) + cntU S v N

/-- every element's predecessors occur before it (`pre` = what precedes the list) -/
def topoFrom (pre : List String) : List String → Prop
  | [] => True
  | v :: rest => (∀ u ∈ N, v ∈ deps u → u ∈ pre) ∧ topoFrom (pre ++ [v]) rest

theorem topoFrom_snoc (x : String) : ∀ (l pre : List String),
    topoFrom N deps pre (l ++ [x]) ↔ topoFrom N deps pre l ∧ ∀ u ∈ N, x ∈ deps u → u ∈ pre ++ l
  | [], pre => by simp [topoFrom]
  | a :: l, pre => by
    simp only [List.cons_append, topoFrom, topoFrom_snoc x l (pre ++ [a]), List.append_assoc, List.singleton_append]
    constructor
    · rintro ⟨h1, h2, h3⟩; exact ⟨⟨h1, h2⟩, h3⟩
    · rintro ⟨⟨h1, h2⟩, h3⟩; exact ⟨h1, h2, h3⟩

end Kahn

theorem cntU_le (N : List String) (deps : String → List String) (S : List String) (x v : String) :
    cntU deps (S ++ [x]) v N ≤ cntU deps S v N := by
  induction N with
  | nil => simp [cntU]
  | cons a N ih =>
    simp only [cntU, List.mem_append, List.mem_singleton]
    by_cases h1 : a ∈ S
    · simp [h1, ih]
    · by_cases h2 : a = x
      · simp [h1, h2]; omega
      · simp [h1, h2]; omega

theorem cntU_pop (N : List String) (deps : String → List String) (S : List String) (x v : String)
    (hx : x ∈ N) (hs : x ∉ S) : cntU deps (S ++ [x]) v N + (deps x).count v ≤ cntU deps S v N := by
  induction N with
  | nil => cases hx
  | cons a N ih =>
    simp only [cntU, List.mem_append, List.mem_singleton]
    by_cases h2 : a = x
    · subst h2
      have := cntU_le N deps S a v
      simp [hs]
      omega
    · have hxN : x ∈ N := by
        rcases List.mem_cons.mp hx with h | h
        · exact absurd h.symm h2
        · exact h
      have := ih hxN
      by_cases h1 : a ∈ S
      · simp [h1]; omega
      · simp [h1, h2]; omega

theorem cntU_pos (N : List String) (deps : String → List String) (S : List String) (u v : String)
    (hu : u ∈ N) (hs : u ∉ S) (hv : v ∈ deps u) : 0 < cntU deps S v N := by
  induction N with
  | nil => cases hu
  | cons a N ih =>
    simp only [cntU]
    rcases List.mem_cons.mp hu with rfl | h
    · have : 0 < (deps u).count v := List.count_pos_iff.mpr hv
      simp [hs]
      omega
    · have := ih h
      omega

theorem initInDegree_eq (deps : String → List String) (v : String) :
    ∀ N, initInDegree deps N v = (cntU deps [] v N : Int) := by
  intro N
  unfold initInDegree
  congr 1
  induction N with
  | nil => simp [cntU]
  | cons a N ih => simp [cntU, ih]

/-! ### `relax` -/

theorem relax_spec : ∀ (ns : List String) (ind : String → Int) (q : List String),
    (∀ v, (relax ns ind q).1 v = ind v - (ns.count v : Nat)) ∧
    ∃ pushed, (relax ns ind q).2 = q ++ pushed ∧ pushed.Nodup ∧
      ∀ x, x ∈ pushed ↔ (x ∈ ns ∧ 1 ≤ ind x ∧ ind x ≤ (ns.count x : Nat))
  | [], ind, q => by
    refine ⟨by simp [relax], [], by simp [relax], by simp, by simp⟩
  | n :: ns, ind, q => by
    unfold relax
    simp only
    have hupd : ∀ v, upd ind n (ind n - 1) v = if v = n then ind n - 1 else ind v := fun v => rfl
    by_cases h1 : upd ind n (ind n - 1) n = 0
    · rw [if_pos h1]
      obtain ⟨ih1, pushed, ih2, ih3, ih4⟩ := relax_spec ns (upd ind n (ind n - 1)) (q ++ [n])
      have hn1 : ind n = 1 := by simp [hupd] at h1; omega
      refine ⟨fun v => ?_, n :: pushed, by simp [ih2], ?_, fun x => ?_⟩
      · rw [ih1 v, hupd, List.count_cons]
        by_cases hv : v = n
        · subst hv; simp; omega
        · have : ¬ n = v := fun h => hv h.symm
          simp [hv, this]
      · refine List.nodup_cons.mpr ⟨fun hm => ?_, ih3⟩
        have := (ih4 n).mp hm
        simp [hupd] at this
        omega
      · rw [List.mem_cons, ih4 x, hupd, List.count_cons]
        by_cases hx : x = n
        · subst hx; simp; omega
        · have : ¬ n = x := fun h => hx h.symm
          simp [hx, this]
    · rw [if_neg h1]
      obtain ⟨ih1, pushed, ih2, ih3, ih4⟩ := relax_spec ns (upd ind n (ind n - 1)) q
      have hn1 : ind n ≠ 1 := by simp [hupd] at h1; omega
      refine ⟨fun v => ?_, pushed, ih2, ih3, fun x => ?_⟩
      · rw [ih1 v, hupd, List.count_cons]
        by_cases hv : v = n
        · subst hv; simp; omega
        · have : ¬ n = v := fun h => hv h.symm
          simp [hv, this]
      · rw [ih4 x, hupd, List.count_cons]
        by_cases hx : x = n
        · subst hx
          simp only [if_true, List.mem_cons, true_or, beq_self_eq_true, true_and]
          constructor
          · rintro ⟨_, h2, h3⟩; omega
          · rintro ⟨h2, h3⟩
            have hc : 0 < ns.count x := by omega
            exact ⟨List.count_pos_iff.mp hc, by omega, by omega⟩
        · have : ¬ n = x := fun h => hx h.symm
          simp [hx, this]

/-! ### the loop invariant -/

structure KInv (N : List String) (deps : String → List String) (ind : String → Int) (queue popped : List String) : Prop where
  nodup : (popped ++ queue).Nodup
  sub : ∀ x ∈ popped ++ queue, x ∈ N
  lower : ∀ v, (cntU deps popped v N : Int) ≤ ind v
  nonpos : ∀ v ∈ popped ++ queue, ind v ≤ 0
  zero_mem : ∀ v ∈ N, ind v = 0 → v ∈ popped ++ queue
  preds : ∀ v ∈ queue, ∀ u ∈ N, v ∈ deps u → u ∈ popped
  topo : topoFrom N deps [] popped

theorem KInv.step {N : List String} {deps : String → List String} (hdeps : ∀ u, ∀ v ∈ deps u, v ∈ N)
    {ind : String → Int} {node : String} {queue popped : List String}
    (h : KInv N deps ind (node :: queue) popped) :
    KInv N deps (relax (deps node) ind queue).1 (relax (deps node) ind queue).2 (popped ++ [node]) := by
  obtain ⟨r1, pushed, r2, r3, r4⟩ := relax_spec (deps node) ind queue
  have hnodeN : node ∈ N := h.sub node (by simp)
  have hnd := h.nodup
  have hnode_np : node ∉ popped := by
    have := (List.nodup_append.mp hnd).2.2
    intro hm
    exact this node hm node (by simp) rfl
  have hL : popped ++ [node] ++ (queue ++ pushed) = (popped ++ node :: queue) ++ pushed := by simp
  have hpushedL : ∀ x ∈ pushed, x ∉ popped ++ node :: queue := fun x hx hm => by
    have := h.nonpos x hm
    have := ((r4 x).mp hx).2.1
    omega
  rw [r2]
  refine ⟨?_, ?_, ?_, ?_, ?_, ?_, ?_⟩
  · rw [hL]
    exact List.nodup_append.mpr ⟨hnd, r3, fun a ha b hb hab => hpushedL b hb (hab ▸ ha)⟩
  · intro x hx
    rw [hL] at hx
    rcases List.mem_append.mp hx with hx | hx
    · exact h.sub x hx
    · exact hdeps node x ((r4 x).mp hx).1
  · intro v
    rw [r1 v]
    have h1 := cntU_pop N deps popped node v hnodeN hnode_np
    have h2 := h.lower v
    omega
  · intro v hv
    rw [hL] at hv
    rw [r1 v]
    rcases List.mem_append.mp hv with hv | hv
    · have := h.nonpos v hv
      omega
    · have := ((r4 v).mp hv).2.2
      omega
  · intro v hvN hz
    rw [hL]
    rw [r1 v] at hz
    by_cases hc : (deps node).count v = 0
    · have : ind v = 0 := by omega
      exact List.mem_append_left _ (h.zero_mem v hvN this)
    · refine List.mem_append_right _ ((r4 v).mpr ⟨?_, by omega, by omega⟩)
      exact List.count_pos_iff.mp (by omega)
  · intro v hv u huN hvu
    rcases List.mem_append.mp hv with hv | hv
    · exact List.mem_append_left _ (h.preds v (by simp [hv]) u huN hvu)
    · -- v was just enqueued: its counter is <= 0, so no predecessor is left undequeued
      by_cases hup : u ∈ popped ++ [node]
      · exact hup
      · exfalso
        have hpos := cntU_pos N deps (popped ++ [node]) u v huN hup hvu
        have h1 := cntU_pop N deps popped node v hnodeN hnode_np
        have h2 := h.lower v
        have h3 := ((r4 v).mp hv).2.2
        omega
  · rw [topoFrom_snoc]
    exact ⟨h.topo, fun u hu hnu => by simpa using h.preds node (by simp) u hu hnu⟩

theorem kahnLoop_spec {N : List String} {deps : String → List String} (hdeps : ∀ u, ∀ v ∈ deps u, v ∈ N) :
    ∀ (fuel : Nat) (ind : String → Int) (queue popped : List String),
      KInv N deps ind queue popped → fuel + popped.length = N.length + 1 →
      KInv N deps (kahnLoop deps fuel ind queue popped).2 [] (kahnLoop deps fuel ind queue popped).1
  | 0, ind, queue, popped, h, hf => by
    exfalso
    have h1 : popped.Nodup := (List.nodup_append.mp h.nodup).1
    have h2 := length_le_of_nodup_subset popped N h1 (fun x hx => h.sub x (by simp [hx]))
    omega
  | fuel + 1, ind, [], popped, h, _ => by
    simpa [kahnLoop] using h
  | fuel + 1, ind, node :: queue, popped, h, hf => by
    unfold kahnLoop
    simp only
    exact kahnLoop_spec hdeps fuel _ _ _ (h.step hdeps) (by simp; omega)

theorem KInv.init (N : List String) (deps : String → List String) (hN : N.Nodup) :
    KInv N deps (initInDegree deps N) (N.filter fun v => initInDegree deps N v = 0) [] := by
  have hcnt : ∀ v, initInDegree deps N v = (cntU deps [] v N : Int) := fun v => initInDegree_eq deps v N
  refine ⟨by rw [List.nil_append]; exact hN.filter _, ?_, fun v => by rw [hcnt]; exact Int.le_refl _, ?_, ?_, ?_, by simp [topoFrom]⟩
  · intro x hx
    simp only [List.nil_append, List.mem_filter] at hx
    exact hx.1
  · intro v hv
    simp only [List.nil_append, List.mem_filter, decide_eq_true_eq] at hv
    omega
  · intro v hv hz
    simp [hv, hz]
  · intro v hv u hu hvu
    exfalso
    simp only [List.mem_filter, decide_eq_true_eq] at hv
    have := cntU_pos N deps [] u v hu (by simp) hvu
    have := hcnt v
    omega

/-! ### from the final state to a rank function -/

theorem topoFrom_idx (N : List String) (deps : String → List String) :
    ∀ (l pre : List String), topoFrom N deps pre l → ∀ v ∈ l, ∀ u ∈ N, v ∈ deps u →
      u ∈ pre ∨ (u ∈ l ∧ l.idxOf u < l.idxOf v)
  | [], _, _, v, hv, _, _, _ => by cases hv
  | a :: l, pre, ht, v, hv, u, hu, hvu => by
    obtain ⟨h1, h2⟩ := ht
    by_cases hva : v = a
    · subst hva
      exact Or.inl (h1 u hu hvu)
    · have hvl : v ∈ l := by
        rcases List.mem_cons.mp hv with h | h
        · exact absurd h hva
        · exact h
      have hav : (a == v) = false := by simpa using fun h : a = v => hva h.symm
      rcases topoFrom_idx N deps l (pre ++ [a]) h2 v hvl u hu hvu with h | ⟨h3, h4⟩
      · rcases List.mem_append.mp h with h | h
        · exact Or.inl h
        · have : u = a := by simpa using h
          subst this
          right
          refine ⟨by simp, ?_⟩
          simp [List.idxOf_cons, hav]
      · right
        refine ⟨List.mem_cons_of_mem _ h3, ?_⟩
        by_cases hua : a = u
        · subst hua; simp [List.idxOf_cons, hav]
        · have hua' : (a == u) = false := by simpa using hua
          simp [List.idxOf_cons, hav, hua']; omega

theorem lookup_isSome_mem {β} (k : String) : ∀ (l : List (String × β)), (l.lookup k).isSome → k ∈ l.map (·.1)
  | [], h => by simp [List.lookup] at h
  | (a, b) :: l, h => by
    simp only [List.lookup] at h
    by_cases hk : k = a
    · simp [hk]
    · have : (k == a) = false := by simpa using hk
      rw [this] at h
      simp only [List.map_cons, List.mem_cons]
      exact Or.inr (lookup_isSome_mem k l h)

theorem deps_mem_nodes (r : RState) (u v : String) (h : v ∈ r.deps u) : v ∈ r.nodes := by
  unfold RState.deps at h
  split at h
  · unfold depsOf at h
    obtain ⟨ref, _, hf⟩ := List.mem_filterMap.mp h
    simp only at hf
    split at hf
    · rename_i hs
      simp only [Option.some.injEq] at hf
      subst hf
      exact mem_dedupStr.mpr (lookup_isSome_mem _ _ hs)
    · cases hf
  · cases h

theorem length_dedupStr_le : ∀ (l : List String), (dedupStr l).length ≤ l.length
  | [] => by simp [dedupStr]
  | a :: l => by
    have := length_dedupStr_le l
    have := List.length_filter_le (fun y => decide (y ≠ a)) (dedupStr l)
    simp only [dedupStr, List.length_cons]
    omega

/-- the final state of the Kahn run when `detectCycles` accepts -/
theorem detectCycles_ok (r : RState) (h : detectCycles r = .ok ()) :
    (∀ v ∈ r.nodes, v ∈ (kahnRun r).1) ∧ topoFrom r.nodes r.deps [] (kahnRun r).1 ∧
    (kahnRun r).1.Nodup ∧ (∀ x ∈ (kahnRun r).1, x ∈ r.nodes) := by
  have hdeps : ∀ u, ∀ v ∈ r.deps u, v ∈ r.nodes := fun u v hv => deps_mem_nodes r u v hv
  have inv := kahnLoop_spec hdeps (r.nodes.length + 1) _ _ [] (KInv.init r.nodes r.deps (nodup_dedupStr _)) (by simp)
  have hrun : kahnRun r = kahnLoop r.deps (r.nodes.length + 1) (initInDegree r.deps r.nodes)
      (r.nodes.filter fun v => initInDegree r.deps r.nodes v = 0) [] := rfl
  rw [← hrun] at inv
  have hnd : (kahnRun r).1.Nodup := by simpa using inv.nodup
  have hsub : ∀ x ∈ (kahnRun r).1, x ∈ r.nodes := fun x hx => inv.sub x (by simp [hx])
  refine ⟨fun v hv => ?_, inv.topo, hnd, hsub⟩
  apply Classical.byContradiction
  intro hvp
  unfold detectCycles at h
  simp only at h
  split at h
  · cases h
  · rename_i hcond
    have hlt := length_lt_of_nodup_subset_missing _ _ v hnd hsub hv hvp
    have hany : ¬ (r.nodes.any fun v => decide ((kahnRun r).2 v > 0)) = true := by
      intro ha
      exact hcond ⟨by omega, ha⟩
    have hle : (kahnRun r).2 v ≤ 0 := by
      apply Classical.byContradiction
      intro hgt
      exact hany (List.any_eq_true.mpr ⟨v, hv, by simp only [gt_iff_lt, decide_eq_true_eq]; omega⟩)
    have hlow := inv.lower v
    have hz : (kahnRun r).2 v = 0 := by omega
    exact hvp (by simpa using inv.zero_mem v hv hz)

/-- `detectCycles = ok` ⇒ a rank function that strictly decreases along every dependency edge -/
theorem kahn_rank (r : RState) (h : detectCycles r = .ok ()) :
    ∃ rank : String → Nat, (∀ c, rank c ≤ r.commonTypes.length) ∧ (∀ c ∈ r.nodes, 1 ≤ rank c) ∧
      ∀ u ∈ r.nodes, ∀ v ∈ r.deps u, rank v < rank u := by
  obtain ⟨hall, htopo, hnd, hsub⟩ := detectCycles_ok r h
  refine ⟨fun c => (kahnRun r).1.length - (kahnRun r).1.idxOf c, fun c => ?_, fun c hc => ?_, fun u hu v hv => ?_⟩
  · have h1 := length_le_of_nodup_subset _ _ hnd hsub
    have h2 : r.nodes.length ≤ r.commonTypes.length := by
      have := length_dedupStr_le (r.commonTypes.map (·.1))
      simpa [RState.nodes] using this
    simp only
    omega
  · have := List.idxOf_lt_length_iff.mpr (hall c hc)
    simp only
    omega
  · have hvN := deps_mem_nodes r u v hv
    rcases topoFrom_idx r.nodes r.deps _ [] htopo v (hall v hvN) u hu hv with h1 | ⟨_, h2⟩
    · cases h1
    · have := List.idxOf_lt_length_iff.mpr (hall v hvN)
      simp only
      omega

end CedarGo.Schema
