/-
  C17: `quoteCedar` produces only escapes that the schema lexer's `rust.Unquote(raw, false)` undoes.
-/
import CedarGoProofs.Lemmas.C17
namespace CedarGo.Schema

theorem hexVal_lower (k : Nat) (hk : k < 16) : hexVal (hexDigitLowerT k) = some k ∧ hexDigitLowerT k ≠ '}' := by
  have h : ∀ k : Fin 16, hexVal (hexDigitLowerT k.val) = some k.val ∧ hexDigitLowerT k.val ≠ '}' := by decide
  exact h ⟨k, hk⟩

theorem hexDigitsAux_spec : ∀ (fuel k n : Nat) (acc : List Char), 1 ≤ k → k ≤ fuel → n < 16 ^ k →
    ∃ ds : List Nat, hexDigitsAux fuel n acc = ds.map hexDigitLowerT ++ acc ∧ (∀ d ∈ ds, d < 16) ∧
      ds.foldl (fun a d => 16 * a + d) 0 = n ∧ 1 ≤ ds.length ∧ ds.length ≤ k
  | 0, k, n, acc, h1, h2, _ => by omega
  | fuel + 1, k, n, acc, h1, h2, h3 => by
    unfold hexDigitsAux
    simp only
    by_cases hz : n / 16 = 0
    · rw [if_pos hz]
      have hn : n < 16 := by
        have := Nat.div_add_mod n 16
        omega
      refine ⟨[n % 16], by simp, by simp; omega, by simp; omega, by simp, by simpa using h1⟩
    · rw [if_neg hz]
      have hk2 : 2 ≤ k := by
        apply Classical.byContradiction
        intro hlt
        have : k = 1 := by omega
        subst this
        have := Nat.div_add_mod n 16
        simp at h3
        omega
      have hdiv : n / 16 < 16 ^ (k - 1) := by
        have : 16 ^ k = 16 * 16 ^ (k - 1) := by
          have : k = (k - 1) + 1 := by omega
          rw [this, Nat.pow_succ]
          simp [Nat.mul_comm]
        rw [this] at h3
        exact Nat.div_lt_of_lt_mul h3
      obtain ⟨ds, e1, e2, e3, e4, e5⟩ := hexDigitsAux_spec fuel (k - 1) (n / 16) (hexDigitLowerT (n % 16) :: acc) (by omega) (by omega) hdiv
      refine ⟨ds ++ [n % 16], by simp [e1], ?_, ?_, by simp, by simp; omega⟩
      · intro d hd
        rcases List.mem_append.mp hd with hd | hd
        · exact e2 d hd
        · simp at hd; omega
      · rw [List.foldl_append, e3]
        simp only [List.foldl_cons, List.foldl_nil]
        have := Nat.div_add_mod n 16
        omega

theorem parseUnicodeDigits_digits (rest : List Char) : ∀ (ds : List Nat) (digits acc : Nat), (∀ d ∈ ds, d < 16) →
    parseUnicodeDigits digits acc (ds.map hexDigitLowerT ++ '}' :: rest) =
      parseUnicodeDigits (digits + ds.length) (ds.foldl (fun a d => 16 * a + d) acc) ('}' :: rest)
  | [], digits, acc, _ => by simp
  | d :: ds, digits, acc, h => by
    obtain ⟨h1, h2⟩ := hexVal_lower d (h d (by simp))
    have ih := parseUnicodeDigits_digits rest ds (digits + 1) (16 * acc + d) (fun x hx => h x (by simp [hx]))
    simp only [List.map_cons, List.cons_append, List.foldl_cons, List.length_cons]
    rw [parseUnicodeDigits]
    simp only [h2, if_false, h1]
    rw [ih]
    congr 1
    omega

theorem ofNatAux_val (c : Char) (h : c.val.toNat.isValidChar) : Char.ofNatAux c.val.toNat h = c := by
  apply Char.ext
  apply UInt32.toNat_inj.mp
  simp [Char.ofNatAux]

theorem parse_hexDigitsOf (c : Char) (rest : List Char) :
    parseUnicodeDigits 0 0 (hexDigitsOf c.val.toNat ++ '}' :: rest) = some (c, rest) := by
  have hvalid : c.val.toNat.isValidChar := c.valid
  have hlt : c.val.toNat < 16 ^ 6 := by
    have : (16 : Nat) ^ 6 = 16777216 := by decide
    rw [this]
    rcases hvalid with h | ⟨_, h⟩ <;> omega
  obtain ⟨ds, e1, e2, e3, e4, e5⟩ := hexDigitsAux_spec 8 6 c.val.toNat [] (by omega) (by omega) hlt
  unfold hexDigitsOf
  rw [e1, List.append_nil, parseUnicodeDigits_digits rest ds 0 0 e2, e3]
  rw [parseUnicodeDigits]
  simp only [if_true, Nat.zero_add]
  rw [dif_pos ⟨by omega, e5, hvalid⟩]
  rw [ofNatAux_val]

theorem quoteChar_ne_nil (c : Char) : quoteChar c ≠ [] := by
  unfold quoteChar
  repeat (first | split | simp)

theorem unquoteStep_quoteChar (c : Char) (rest : List Char) : unquoteStep (quoteChar c ++ rest) = some (c, rest) := by
  unfold quoteChar
  split
  · rename_i h; subst h; simp [unquoteStep]
  · split
    · rename_i h; subst h; simp [unquoteStep]
    · split
      · rename_i h; subst h; simp [unquoteStep]
      · split
        · rename_i h; subst h; simp [unquoteStep]
        · split
          · rename_i h; subst h; simp [unquoteStep]
          · split
            · rename_i h; subst h; simp [unquoteStep]
            · rename_i hq hb _ _ _ _
              split
              · simp [unquoteStep, hb]
              · have e : ['\\', 'u', '{'] ++ hexDigitsOf c.val.toNat ++ ['}'] ++ rest =
                    '\\' :: 'u' :: '{' :: (hexDigitsOf c.val.toNat ++ '}' :: rest) := by simp
                rw [e]
                have := parse_hexDigitsOf c rest
                simp only [unquoteStep]
                simp only [if_false, ne_eq, not_true_eq_false,
                  show ¬ ('u' : Char) = 'n' by decide, show ¬ ('u' : Char) = 'r' by decide,
                  show ¬ ('u' : Char) = 't' by decide, show ¬ ('u' : Char) = '\\' by decide, show ¬ ('u' : Char) = '0' by decide,
                  show ¬ ('u' : Char) = '\'' by decide, show ¬ ('u' : Char) = '"' by decide, show ¬ ('u' : Char) = 'x' by decide, if_true]
                exact this

theorem unquoteFuel_quoteBody : ∀ (s : List Char) (fuel : Nat), (quoteBody s).length ≤ fuel →
    unquoteFuel fuel (quoteBody s) = some s
  | [], fuel, _ => by simp [quoteBody, unquoteFuel]
  | c :: s, fuel, h => by
    have hb : quoteBody (c :: s) = quoteChar c ++ quoteBody s := by simp [quoteBody]
    rw [hb] at h ⊢
    have hne := quoteChar_ne_nil c
    have hlen : 1 ≤ (quoteChar c).length := by
      cases hq : quoteChar c with
      | nil => exact absurd hq hne
      | cons => simp
    rw [List.length_append] at h
    cases fuel with
    | zero => omega
    | succ f =>
      have ih := unquoteFuel_quoteBody s f (by omega)
      cases hq : quoteChar c ++ quoteBody s with
      | nil =>
        have : quoteChar c = [] := (List.append_eq_nil_iff.mp hq).1
        exact absurd this hne
      | cons x xs =>
        rw [← hq, unquoteFuel]
        · simp only [unquoteStep_quoteChar c (quoteBody s), ih, Option.map_some]
        · rw [hq]; simp

end CedarGo.Schema
