/-
  C18 helper lemmas: byte-buffer operations (`slice`, `writeAt`) and the abstract reader.
-/
import CedarGo.Model.Text.Scanner
namespace CedarGo.Text.Lx

theorem slice_length (b : List UInt8) (i j : Nat) (h : j ≤ b.length) : (slice b i j).length = j - i := by
  simp [slice]; omega

theorem slice_self (b : List UInt8) (i : Nat) : slice b i i = [] := by simp [slice]

theorem slice_zero (b : List UInt8) (j : Nat) : slice b 0 j = b.take j := by simp [slice]

theorem slice_append_slice (b : List UInt8) (i j k : Nat) (h1 : i ≤ j) (h2 : j ≤ k) :
    slice b i j ++ slice b j k = slice b i k := by
  simp only [slice]
  have : k - i = (j - i) + (k - j) := by omega
  rw [this, List.take_add]
  congr 2
  rw [List.drop_drop]; congr 1; omega

theorem writeAt_length (b : List UInt8) (i : Nat) (d : List UInt8) (h : i + d.length ≤ b.length) :
    (writeAt b i d).length = b.length := by
  simp [writeAt]; omega

theorem take_writeAt_le (b : List UInt8) (i j : Nat) (d : List UInt8) (hj : j ≤ i) (hi : i ≤ b.length) :
    (writeAt b i d).take j = b.take j := by
  simp only [writeAt, List.append_assoc]
  rw [List.take_append_of_le_length (by simp; omega)]
  rw [List.take_take]; congr 1; omega

theorem take_writeAt_end (b : List UInt8) (i : Nat) (d : List UInt8) (hi : i ≤ b.length) :
    (writeAt b i d).take (i + d.length) = b.take i ++ d := by
  simp only [writeAt]
  have : i + d.length = (b.take i ++ d).length := by simp; omega
  rw [this, List.take_left']
  rfl

theorem getD_writeAt (b : List UInt8) (i : Nat) (x : UInt8) (d : List UInt8) (hi : i ≤ b.length) :
    (writeAt b i (x :: d)).getD i 0 = x := by
  simp only [writeAt, List.append_assoc]
  rw [List.getD_eq_getElem?_getD, List.getElem?_append_right (by simp; omega)]
  simp [List.length_take, Nat.min_eq_left hi]

/-- head of a non-empty slice -/
theorem getD_of_slice_cons (b : List UInt8) (i j : Nat) (x : UInt8) (r : List UInt8) (h : slice b i j = x :: r) :
    b.getD i 0 = x := by
  simp only [slice] at h
  have h2 : (b.drop i)[0]? = some x := by
    have := congrArg (·[0]?) h
    simp only [List.getElem?_take, List.getElem?_cons_zero] at this
    split at this <;> simp_all
  rw [List.getElem?_drop] at h2
  simp only [Nat.add_zero] at h2
  simp [List.getD_eq_getElem?_getD, h2]

/-! reader -/

theorem Reader.read_nil (f : Final) (m : Nat) :
    (Reader.mk [] f).read m = ([], if f == .fail then .fail else .eof, ⟨[], f⟩) := rfl

theorem Reader.read_cons_le (c : List UInt8) (cs) (f : Final) (m : Nat) (h : c.length ≤ m) :
    (Reader.mk (c :: cs) f).read m = (c, if cs.isEmpty && f == .eofData then .eof else .none, ⟨cs, f⟩) := by
  simp [Reader.read, h]

theorem Reader.read_cons_gt (c : List UInt8) (cs) (f : Final) (m : Nat) (h : ¬ c.length ≤ m) :
    (Reader.mk (c :: cs) f).read m = (c.take m, .none, ⟨c.drop m :: cs, f⟩) := by
  simp [Reader.read, h]

theorem Reader.read_bytes (r : Reader) (m : Nat) : (r.read m).1 ++ (r.read m).2.2.bytes = r.bytes := by
  obtain ⟨chunks, f⟩ := r
  rcases chunks with _ | ⟨c, cs⟩
  · simp [Reader.read_nil, Reader.bytes]
  · by_cases h : c.length ≤ m
    · simp [Reader.read_cons_le _ _ _ _ h, Reader.bytes]
    · simp only [Reader.read_cons_gt _ _ _ _ h, Reader.bytes, List.flatten_cons]
      rw [← List.append_assoc, List.take_append_drop]

theorem Reader.read_length (r : Reader) (m : Nat) : (r.read m).1.length ≤ m := by
  obtain ⟨chunks, f⟩ := r
  rcases chunks with _ | ⟨c, cs⟩
  · simp [Reader.read_nil]
  · by_cases h : c.length ≤ m
    · simp [Reader.read_cons_le _ _ _ _ h, h]
    · simp [Reader.read_cons_gt _ _ _ _ h]; omega

theorem Reader.read_final (r : Reader) (m : Nat) : (r.read m).2.2.final = r.final := by
  obtain ⟨chunks, f⟩ := r
  rcases chunks with _ | ⟨c, cs⟩
  · simp [Reader.read_nil]
  · by_cases h : c.length ≤ m
    · simp [Reader.read_cons_le _ _ _ _ h]
    · simp [Reader.read_cons_gt _ _ _ _ h]

theorem Reader.read_measure (r : Reader) (m : Nat) (hm : 1 ≤ m) (he : (r.read m).2.1 = .none) :
    (r.read m).2.2.measure < r.measure := by
  obtain ⟨chunks, f⟩ := r
  rcases chunks with _ | ⟨c, cs⟩
  · simp only [Reader.read_nil] at he; split at he <;> simp at he
  · by_cases h : c.length ≤ m
    · simp [Reader.read_cons_le _ _ _ _ h, Reader.measure]
    · simp [Reader.read_cons_gt _ _ _ _ h, Reader.measure]; omega

theorem Reader.read_measure_le (r : Reader) (m : Nat) : (r.read m).2.2.measure ≤ r.measure := by
  obtain ⟨chunks, f⟩ := r
  rcases chunks with _ | ⟨c, cs⟩
  · simp [Reader.read_nil]
  · by_cases h : c.length ≤ m
    · simp [Reader.read_cons_le _ _ _ _ h, Reader.measure]
    · simp [Reader.read_cons_gt _ _ _ _ h, Reader.measure]

/-- a `Read` that returns an error (EOF or failure) leaves nothing to be read -/
theorem Reader.read_err_bytes (r : Reader) (m : Nat) (he : (r.read m).2.1 ≠ .none) : (r.read m).2.2.bytes = [] := by
  obtain ⟨chunks, f⟩ := r
  rcases chunks with _ | ⟨c, cs⟩
  · simp [Reader.read_nil, Reader.bytes]
  · by_cases h : c.length ≤ m
    · simp only [Reader.read_cons_le _ _ _ _ h] at he ⊢
      cases cs with
      | nil => simp [Reader.bytes]
      | cons a t => simp at he
    · simp [Reader.read_cons_gt _ _ _ _ h] at he

theorem Reader.read_fail (r : Reader) (m : Nat) (he : (r.read m).2.1 = .fail) : r.final = .fail ∧ (r.read m).1 = [] := by
  obtain ⟨chunks, f⟩ := r
  rcases chunks with _ | ⟨c, cs⟩
  · simp only [Reader.read_nil] at he ⊢
    split at he
    · rename_i hf; exact ⟨by simpa using hf, trivial⟩
    · simp at he
  · by_cases h : c.length ≤ m
    · simp only [Reader.read_cons_le _ _ _ _ h] at he; split at he <;> simp at he
    · simp [Reader.read_cons_gt _ _ _ _ h] at he

theorem Reader.read_eof (r : Reader) (m : Nat) (he : (r.read m).2.1 = .eof) : r.final ≠ .fail := by
  obtain ⟨chunks, f⟩ := r
  rcases chunks with _ | ⟨c, cs⟩
  · simp only [Reader.read_nil] at he
    split at he
    · simp at he
    · rename_i hf; simpa using hf
  · by_cases h : c.length ≤ m
    · simp only [Reader.read_cons_le _ _ _ _ h] at he
      split at he
      · rename_i hf; simp at hf; simp [hf.2]
      · simp at he
    · simp [Reader.read_cons_gt _ _ _ _ h] at he

end CedarGo.Text.Lx
