/-
  C18 helper lemmas: the token-level code (`scan*`, `nextToken`, `tokenizeLoop`) is parametric in the
  primitive operations: a relation between two sources that is preserved by the primitives (with equal
  observable results) is preserved by every scan function, and the produced tokens are equal.
  The relation is indexed by a phase (`true` between "start collecting token text" and the end of the
  token, so that `tokEnd` need only agree while a token is being collected) and by the current look-ahead character so that unary invariants relating the
  look-ahead to the state (e.g. "EOF was returned ⇒ a reader failure has been recorded") are instances.
-/
import CedarGo.Model.Text.Scanner
namespace CedarGo.Text.Lx

structure Sim {σ₁ σ₂ : Type} (S₁ : Src σ₁) (S₂ : Src σ₂) (R : Bool → Rune → σ₁ → σ₂ → Prop) : Prop where
  next : ∀ m c a b, R m c a b → (S₁.next a).1 = (S₂.next b).1 ∧ R m (S₁.next a).1 (S₁.next a).2 (S₂.next b).2
  error : ∀ e m c a b, R m c a b → R m c (S₁.error e a) (S₂.error e b)
  tokKill : ∀ m c a b, R m c a b → R false c (S₁.tokKill a) (S₂.tokKill b)
  tokMark : ∀ m c a b, R m c a b → R true c (S₁.tokMark a) (S₂.tokMark b)
  tokEnd : ∀ c a b, R true c a b → (S₁.tokEnd a).1 = (S₂.tokEnd b).1 ∧ R true c (S₁.tokEnd a).2 (S₂.tokEnd b).2
  err : ∀ m c a b, R m c a b → S₁.err a = S₂.err b

/-- related (character, state) results -/
def RP {σ₁ σ₂ : Type} (R : Bool → Rune → σ₁ → σ₂ → Prop) (m : Bool) (x : Rune × σ₁) (y : Rune × σ₂) : Prop :=
  x.1 = y.1 ∧ R m x.1 x.2 y.2

section
variable {σ₁ σ₂ : Type} {S₁ : Src σ₁} {S₂ : Src σ₂} {R : Bool → Rune → σ₁ → σ₂ → Prop} (H : Sim S₁ S₂ R)
include H

theorem Sim.next' {m c a b} (h : R m c a b) : RP R m (S₁.next a) (S₂.next b) := H.next m c a b h

theorem identLoop_sim (f : Nat) : ∀ {m c a b}, R m c a b → RP R m (identLoop S₁ f c a) (identLoop S₂ f c b) := by
  induction f with
  | zero => intro m c a b h; exact ⟨rfl, H.error _ _ _ _ _ h⟩
  | succ f ih =>
    intro m c a b h
    simp only [identLoop]
    split
    · have hn := H.next m c a b h
      rw [← hn.1]; exact ih hn.2
    · exact ⟨rfl, h⟩

theorem scanIdentifier_sim (F : Nat) {m c a b} (h : R m c a b) : RP R m (scanIdentifier S₁ F a) (scanIdentifier S₂ F b) := by
  have hn := H.next m c a b h
  simp only [scanIdentifier]; rw [← hn.1]; exact identLoop_sim H F hn.2

theorem scanInteger_sim (f : Nat) : ∀ {m c a b}, R m c a b → RP R m (scanInteger S₁ f c a) (scanInteger S₂ f c b) := by
  induction f with
  | zero => intro m c a b h; exact ⟨rfl, H.error _ _ _ _ _ h⟩
  | succ f ih =>
    intro m c a b h
    simp only [scanInteger]
    split
    · have hn := H.next m c a b h
      rw [← hn.1]; exact ih hn.2
    · exact ⟨rfl, h⟩

theorem skipWhitespace_sim (f : Nat) : ∀ {m c a b}, R m c a b → RP R m (skipWhitespace S₁ f c a) (skipWhitespace S₂ f c b) := by
  induction f with
  | zero => intro m c a b h; exact ⟨rfl, H.error _ _ _ _ _ h⟩
  | succ f ih =>
    intro m c a b h
    simp only [skipWhitespace]
    split
    · have hn := H.next m c a b h
      rw [← hn.1]; exact ih hn.2
    · exact ⟨rfl, h⟩

theorem lineCommentLoop_sim (f : Nat) : ∀ {m c a b}, R m c a b → RP R m (lineCommentLoop S₁ f c a) (lineCommentLoop S₂ f c b) := by
  induction f with
  | zero => intro m c a b h; exact ⟨rfl, H.error _ _ _ _ _ h⟩
  | succ f ih =>
    intro m c a b h
    simp only [lineCommentLoop]
    split
    · have hn := H.next m c a b h
      rw [← hn.1]; exact ih hn.2
    · exact ⟨rfl, h⟩

theorem hexLoop_sim (rem : Nat) : ∀ {m n c a b}, R m c a b →
    (hexLoop S₁ rem n c a).1 = (hexLoop S₂ rem n c b).1 ∧ RP R m (hexLoop S₁ rem n c a).2 (hexLoop S₂ rem n c b).2 := by
  induction rem with
  | zero => intro m n c a b h; exact ⟨rfl, rfl, h⟩
  | succ rem ih =>
    intro m n c a b h
    simp only [hexLoop]
    split
    · have hn := H.next m c a b h
      rw [← hn.1]; exact ih hn.2
    · exact ⟨rfl, rfl, h⟩

theorem scanHexDigits_sim {m c a b} (mn mx : Nat) (h : R m c a b) :
    RP R m (scanHexDigits S₁ c mn mx a) (scanHexDigits S₂ c mn mx b) := by
  have hl := hexLoop_sim H mx (n := 0) h
  simp only [scanHexDigits]
  rw [← hl.1]
  split
  · exact ⟨hl.2.1, H.error _ _ _ _ _ hl.2.2⟩
  · exact hl.2

theorem scanEscape_sim {m c a b} (h : R m c a b) : RP R m (scanEscape S₁ a) (scanEscape S₂ b) := by
  have h1 := H.next m c a b h
  simp only [scanEscape]
  rw [← h1.1]
  split
  · exact H.next _ _ _ _ h1.2
  · split
    · have h2 := H.next _ _ _ _ h1.2
      rw [← h2.1]; exact scanHexDigits_sim H 2 2 h2.2
    · split
      · have h2 := H.next _ _ _ _ h1.2
        rw [← h2.1]
        split
        · exact ⟨rfl, H.error _ _ _ _ _ h2.2⟩
        · have h3 := H.next _ _ _ _ h2.2
          rw [← h3.1]
          have h4 := scanHexDigits_sim H 1 6 h3.2
          rw [← h4.1]
          split
          · exact ⟨rfl, H.error _ _ _ _ _ h4.2⟩
          · exact H.next _ _ _ _ h4.2
      · exact ⟨rfl, H.error _ _ _ _ _ h1.2⟩

/-- `scanString` discards the character: the states are related at some look-ahead -/
theorem stringLoop_sim (f : Nat) : ∀ {m c a b}, R m c a b → ∃ c', R m c' (stringLoop S₁ f c a) (stringLoop S₂ f c b) := by
  induction f with
  | zero => intro m c a b h; exact ⟨c, H.error _ _ _ _ _ h⟩
  | succ f ih =>
    intro m c a b h
    simp only [stringLoop]
    split
    · exact ⟨c, h⟩
    · split
      · exact ⟨c, H.error _ _ _ _ _ h⟩
      · split
        · have he := scanEscape_sim H h
          rw [← he.1]; exact ih he.2
        · have hn := H.next m c a b h
          rw [← hn.1]; exact ih hn.2

theorem scanString_sim (F : Nat) {m c a b} (h : R m c a b) : ∃ c', R m c' (scanString S₁ F a) (scanString S₂ F b) := by
  have hn := H.next m c a b h
  simp only [scanString]; rw [← hn.1]; exact stringLoop_sim H F hn.2

theorem blockCommentLoop_sim (f : Nat) : ∀ {m c a b}, R m c a b → RP R m (blockCommentLoop S₁ f c a) (blockCommentLoop S₂ f c b) := by
  induction f with
  | zero => intro m c a b h; exact ⟨rfl, H.error _ _ _ _ _ h⟩
  | succ f ih =>
    intro m c a b h
    simp only [blockCommentLoop]
    split
    · exact ⟨rfl, H.error _ _ _ _ _ h⟩
    · have hn := H.next m c a b h
      rw [← hn.1]
      split
      · exact H.next _ _ _ _ hn.2
      · exact ih hn.2

theorem scanComment_sim (F : Nat) {m c a b} (ch : Rune) (h : R m c a b) : RP R m (scanComment S₁ F ch a) (scanComment S₂ F ch b) := by
  have hn := H.next m c a b h
  simp only [scanComment]
  split
  · rw [← hn.1]; exact lineCommentLoop_sim H F hn.2
  · rw [← hn.1]; exact blockCommentLoop_sim H F hn.2

theorem scanOperator_sim {m c a b} (ch0 : Rune) (h : R m c a b) :
    (scanOperator S₁ ch0 c a).1 = (scanOperator S₂ ch0 c b).1 ∧ RP R m (scanOperator S₁ ch0 c a).2 (scanOperator S₂ ch0 c b).2 := by
  have hn := H.next m c a b h
  simp only [scanOperator]
  repeat' split
  all_goals first | exact ⟨rfl, rfl, h⟩ | exact ⟨rfl, hn⟩

end

/-- related `nextToken` results -/
def RT {σ₁ σ₂ : Type} (R : Bool → Rune → σ₁ → σ₂ → Prop) (x : TokRes σ₁) (y : TokRes σ₂) : Prop :=
  x.tok = y.tok ∧ x.ch = y.ch ∧ R true x.ch x.st y.st

section
variable {σ₁ σ₂ : Type} {S₁ : Src σ₁} {S₂ : Src σ₂} {R : Bool → Rune → σ₁ → σ₂ → Prop} (H : Sim S₁ S₂ R)
include H

theorem finishToken_sim {c a b} (tt : TokType) (h : R true c a b) : RT R (finishToken S₁ tt c a) (finishToken S₂ tt c b) := by
  have he := H.tokEnd c a b h
  simp only [finishToken, RT]
  rw [← he.1]
  exact ⟨rfl, trivial, he.2⟩

theorem tokenFrom_sim (F : Nat) (f : Nat) : ∀ {m c a b}, R m c a b → RT R (tokenFrom S₁ F f c a) (tokenFrom S₂ F f c b) := by
  induction f with
  | zero => intro m c a b h; exact finishToken_sim H _ (H.tokMark _ _ _ _ (H.error _ _ _ _ _ h))
  | succ f ih =>
    intro m c a b h
    have hw := skipWhitespace_sim H F h
    simp only [tokenFrom]
    rw [← hw.1]
    have hm := H.tokMark _ _ _ _ hw.2
    split
    · exact finishToken_sim H _ hm
    split
    · have hr := scanIdentifier_sim H F hm
      rw [← hr.1]; exact finishToken_sim H _ hr.2
    split
    · have hr := scanInteger_sim H F hm
      rw [← hr.1]; exact finishToken_sim H _ hr.2
    split
    · obtain ⟨c', hs⟩ := scanString_sim H F hm
      have hr := H.next _ _ _ _ hs
      rw [← hr.1]; exact finishToken_sim H _ hr.2
    split
    · have hn := H.next _ _ _ _ hm
      rw [← hn.1]
      split
      · have hc := scanComment_sim H F (S₁.next (S₁.tokMark (skipWhitespace S₁ F c a).2)).1 (H.tokKill _ _ _ _ hn.2)
        rw [← hc.1]; exact ih hc.2
      · have ho := scanOperator_sim H (skipWhitespace S₁ F c a).1 hn.2
        rw [← ho.1, ← ho.2.1]; exact finishToken_sim H _ ho.2.2
    · have hn := H.next _ _ _ _ hm
      rw [← hn.1]
      have ho := scanOperator_sim H (skipWhitespace S₁ F c a).1 hn.2
      rw [← ho.1, ← ho.2.1]; exact finishToken_sim H _ ho.2.2

theorem nextToken_sim (F : Nat) {m c a b} (h : R m c a b) : RT R (nextToken S₁ F c a) (nextToken S₂ F c b) := by
  simp only [nextToken]
  split
  · have hn := H.next _ _ _ _ h
    rw [← hn.1]; exact tokenFrom_sim H F F (H.tokKill _ _ _ _ hn.2)
  · exact tokenFrom_sim H F F (H.tokKill _ _ _ _ h)

theorem tokenizeLoop_sim (F : Nat) (f : Nat) : ∀ {m c a b}, R m c a b → tokenizeLoop S₁ F f c a = tokenizeLoop S₂ F f c b := by
  induction f with
  | zero => intro m c a b _; rfl
  | succ f ih =>
    intro m c a b h
    have hn := nextToken_sim H F h
    obtain ⟨ht, hc, hr⟩ := hn
    simp only [tokenizeLoop]
    rw [← H.err _ _ _ _ hr, ← ht, ← hc, ih hr]

/-- related initial states give the same `TokenizeReader` result -/
theorem tokenize_sim (F : Nat) {m a b} (h : R m runeBOF a b) : tokenize S₁ F a = tokenize S₂ F b :=
  tokenizeLoop_sim H F F h

end
end CedarGo.Text.Lx
