/-
  C17 — `SchemaJsonOk` (the hypothesis of the JSON struct-level round trip) as a computable check.
-/
import CedarGoProofs.Lemmas.C17
namespace CedarGo.Schema

/-- `NamespaceJsonOk` as a Bool -/
def nsJsonOkB (d : Namespace) : Bool :=
  d.entities.all (fun e => decide (sortStrs e.2.parents = e.2.parents)) && d.enums.all (fun e => !e.2.values.isEmpty) &&
  d.entities.all (fun e => d.enums.all (fun en => decide (en.1 ≠ e.1))) && checkNames (marshalNamespace d)

/-- `SchemaJsonOk` as a Bool -/
def schemaJsonOkB (s : Schema) : Bool :=
  nsJsonOkB s.bare && decide (s.bare.anns = []) &&
  s.namespaces.all (fun nd => nsJsonOkB nd.2 && decide (nd.1 ≠ "") && isPathJ nd.1)

theorem nsJsonOkB_sound (d : Namespace) (h : nsJsonOkB d = true) : NamespaceJsonOk d := by
  unfold nsJsonOkB at h
  simp only [Bool.and_eq_true, List.all_eq_true, decide_eq_true_eq, Bool.not_eq_true', ne_eq] at h
  obtain ⟨⟨⟨h1, h2⟩, h3⟩, h4⟩ := h
  exact ⟨h1, fun e he hv => by have := h2 e he; simp [hv] at this, h3, h4⟩

theorem schemaJsonOkB_sound (s : Schema) (h : schemaJsonOkB s = true) : SchemaJsonOk s := by
  unfold schemaJsonOkB at h
  simp only [Bool.and_eq_true, List.all_eq_true, decide_eq_true_eq, ne_eq] at h
  obtain ⟨⟨h1, h2⟩, h3⟩ := h
  exact ⟨nsJsonOkB_sound _ h1, h2, fun nd hnd => ⟨nsJsonOkB_sound _ (h3 nd hnd).1.1, (h3 nd hnd).1.2, (h3 nd hnd).2⟩⟩

end CedarGo.Schema
