/-
  C07 ∘ C18 bridge, part 9: the pure lexer on the text of a token list under an admissible layout.
-/
import CedarGoProofs.Lemmas.C07LexSep
import CedarGoProofs.Lemmas.C18Pos
namespace CedarGo.Text
open Lx

/-! ## admissible texts contain no NUL; tokens are non-empty -/

theorem identRest_noNul : ∀ cs : List Char, identCharsRest cs = true → NoNul cs := by
  intro cs h c hc
  have := identRest_forall cs h c hc
  intro h0
  simp [isIdentChar, char_beq_toNat, Text.isDecimal, h0] at this

theorem lexChars_noNul {ty : TokType} {T : List Char} (h : LexChars ty T) : NoNul T := by
  cases ty with
  | eof => exact absurd h (by simp [LexChars])
  | ident =>
    cases T with
    | nil => intro c hc; cases hc
    | cons c cs =>
      have h1 := h.1
      simp only [identText, Bool.and_eq_true] at h1
      exact identRest_noNul (c :: cs) (by
        simp only [identCharsRest, Bool.and_eq_true]; refine ⟨?_, h1.2⟩
        have := h1.1
        simp only [isIdentChar, Bool.or_eq_true] at this ⊢
        rcases this with ((a | a) | a) | a
        · exact .inl (.inl (.inl a))
        · exact .inl (.inl (.inr a))
        · exact .inl (.inr a)
        · simp at a)
  | keyword =>
    cases T with
    | nil => intro c hc; cases hc
    | cons c cs =>
      have h1 := h.1
      simp only [identText, Bool.and_eq_true] at h1
      exact identRest_noNul (c :: cs) (by
        simp only [identCharsRest, Bool.and_eq_true]; refine ⟨?_, h1.2⟩
        have := h1.1
        simp only [isIdentChar, Bool.or_eq_true] at this ⊢
        rcases this with ((a | a) | a) | a
        · exact .inl (.inl (.inl a))
        · exact .inl (.inl (.inr a))
        · exact .inl (.inr a)
        · simp at a)
  | int =>
    obtain ⟨d, ds, rfl, hd⟩ := intText_parts T h
    intro c hc h0
    have := hd c hc
    simp [Text.isDecimal, h0] at this
  | string =>
    obtain ⟨body, rfl, hb⟩ := h
    exact NoNul.cons (by decide) (NoNul.append (strBody_noNul hb) (NoNul.cons (by decide) (by intro c hc; cases hc)))
  | operator =>
    have h' : opText T = true := h
    match T, h' with
    | [c], h' =>
      have hc : c.toNat ∈ singleOps := by simpa [opText] using h'
      refine NoNul.cons ?_ (by intro c hc; cases hc)
      simp only [singleOps, List.mem_cons, List.not_mem_nil, or_false] at hc
      omega
    | [c0, c1], h' =>
      have hm : merges c0 c1 = true := by simpa [opText] using h'
      simp only [merges, Bool.or_eq_true, Bool.and_eq_true, beq_iff_eq] at hm
      exact NoNul.cons (by omega) (NoNul.cons (by omega) (by intro c hc; cases hc))
    | [], h' => simp [opText] at h'
    | _ :: _ :: _ :: _, h' => simp [opText] at h'
  | unknown =>
    have h' : unknownText T = true := h
    match T, h' with
    | [c], h' =>
      simp only [unknownText, Bool.and_eq_true, bne_iff_ne, ne_eq] at h'
      exact NoNul.cons h'.1.1 (by intro c hc; cases hc)
    | [], h' => simp [unknownText] at h'
    | _ :: _ :: _, h' => simp [unknownText] at h'

theorem lexChars_ne_nil {ty : TokType} {T : List Char} (h : LexChars ty T) : T ≠ [] := by
  rintro rfl
  cases ty <;> simp [LexChars, identText, intText, opText, unknownText] at h

theorem lexChars_ne_eof {ty : TokType} {T : List Char} (h : LexChars ty T) : (ty == .eof) = false := by
  cases ty <;> first | rfl | exact absurd h (by simp [LexChars])

theorem isWs_nonzero (c : Char) (h : isWsChar c = true) : c.toNat ≠ 0 := by
  simp only [isWsChar, Bool.or_eq_true, beq_iff_eq] at h; omega

theorem sepChars_noNul {fin : Bool} {Z : List Char} (h : SepChars fin Z) : NoNul Z := by
  induction h with
  | nil => intro c hc; cases hc
  | ws fin c cs hc _ ih => exact NoNul.cons (isWs_nonzero c hc) ih
  | line fin body cs hb _ ih =>
    exact NoNul.cons (by decide) (NoNul.cons (by decide) (NoNul.append (fun c hc => (hb c hc).2) (NoNul.cons (by decide) ih)))
  | lineEnd body hb => exact NoNul.cons (by decide) (NoNul.cons (by decide) (fun c hc => (hb c hc).2))
  | block fin body cs hb _ ih =>
    exact NoNul.cons (by decide) (NoNul.cons (by decide) (NoNul.append hb.2 (NoNul.cons (by decide) (NoNul.cons (by decide) ih))))

theorem admissible_noNul : ∀ (toks : List Token) (lay : Layout), Admissible lay toks → NoNul (renderChars lay toks)
  | [], [], h => by simp [Admissible] at h
  | [], [sep], h => by simpa [renderChars] using sepChars_noNul h
  | [], _ :: _ :: _, h => by simp [Admissible] at h
  | t :: ts, [], h => by simp [Admissible] at h
  | t :: ts, sep :: seps, h => by
    simp only [Admissible] at h
    simp only [renderChars]
    exact NoNul.append (sepChars_noNul h.1) (NoNul.append (lexChars_noNul h.2.1) (admissible_noNul ts seps h.2.2.2))

/-! ## `nextToken`, `tokenizeLoop` -/

theorem cfg_fst_ne_bof (doc : List UInt8) (k : Nat) (ts : Option Nat) (pos : Pos) (Z : List Char) :
    ((cfg doc k ts pos Z).1 == runeBOF) = false := by
  cases Z with
  | nil => rfl
  | cons c Z =>
    rw [cfg_fst_cons, beq_eq_false_iff_ne]; intro h
    have : (0 : Int) ≤ Int.ofNat c.toNat := Int.natCast_nonneg _
    rw [h] at this; simp [runeBOF] at this

theorem nextToken_cfg (doc : List UInt8) (F k : Nat) (ts : Option Nat) (pos : Pos) (Z : List Char) :
    nextToken pureSrc F (cfg doc k ts pos Z).1 (cfg doc k ts pos Z).2
      = tokenFrom pureSrc F F (cfg doc k none { pos with line := 0 } Z).1 (cfg doc k none { pos with line := 0 } Z).2 := by
  simp only [nextToken, cfg_fst_ne_bof, Bool.false_eq_true, if_false]
  rw [tokKill_cfg, cfg_fst_indep doc k k ts none pos { pos with line := 0 }]

/-- raw tokens the lexer returns for the text of `toks` under `lay`, from byte offset `k` on -/
def placedRaw (doc : List UInt8) : Nat → Layout → List Token → List RawTok
  | k, sep :: seps, t :: ts =>
    ⟨t.ty, goPos doc (k + blen sep.toList), tokenBytes t⟩ :: placedRaw doc (k + blen sep.toList + blen t.text.toList) seps ts
  | k, [sep], [] => [⟨.eof, goPos doc (k + blen sep.toList), []⟩]
  | _, _, _ => []

theorem tokenizeLoop_layout (doc : List UInt8) (F : Nat) :
    ∀ (toks : List Token) (lay : Layout) (g k : Nat) (ts : Option Nat) (pos : Pos), Admissible lay toks →
      Ok doc F k (renderChars lay toks) → (renderChars lay toks).length < g →
      tokenizeLoop pureSrc F g (cfg doc k ts pos (renderChars lay toks)).1 (cfg doc k ts pos (renderChars lay toks)).2
        = .ok (placedRaw doc k lay toks) := by
  intro toks
  induction toks with
  | nil =>
    intro lay g k ts pos hadm hok hg
    match lay, hadm, hok, hg with
    | [], hadm, _, _ => simp [Admissible] at hadm
    | _ :: _ :: _, hadm, _, _ => simp [Admissible] at hadm
    | [sep], hadm, hok, hg =>
      obtain ⟨g, rfl⟩ : ∃ g', g = g' + 1 := ⟨g - 1, by omega⟩
      simp only [renderChars] at hok hg ⊢
      have hsk := skips_sep doc F (fun k' => tokRes doc k' .eof [] []) []
        (fun f k ts pos h => tokenFrom_cfg_eof doc F f k ts pos h) (show SepChars true sep.toList from hadm) (fun _ => rfl)
        F k none { pos with line := 0 } (by simpa using hok.hF) (by simpa using hok)
      simp only [List.append_nil] at hsk
      simp only [tokenizeLoop]
      rw [nextToken_cfg, hsk]
      simp only [tokRes, err_cfg, placedRaw]
      rfl
  | cons t toks ih =>
    intro lay g k ts pos hadm hok hg
    match lay, hadm, hok, hg with
    | [], hadm, _, _ => simp [Admissible] at hadm
    | sep :: seps, hadm, hok, hg =>
      obtain ⟨g, rfl⟩ : ∃ g', g = g' + 1 := ⟨g - 1, by omega⟩
      simp only [Admissible] at hadm
      obtain ⟨hsep, hlex, hsok, hadm'⟩ := hadm
      simp only [renderChars] at hok hg ⊢
      have hsk := skips_sep doc F (fun k' => tokRes doc k' t.ty t.text.toList (renderChars seps toks))
        (t.text.toList ++ renderChars seps toks)
        (fun f k ts pos h => tokenFrom_cfg_token doc F f k ts pos t.ty _ _ h hlex hsok) (show SepChars false sep.toList from hsep)
        (fun h => by cases h) F k none { pos with line := 0 } (by have := hok.hF; simp at this ⊢; omega) hok
      have hok1 : Ok doc F (k + blen sep.toList) (t.text.toList ++ renderChars seps toks) := hok.advance
      have hok2 : Ok doc F (k + blen sep.toList + blen t.text.toList) (renderChars seps toks) := hok1.advance
      have hne := lexChars_ne_nil hlex
      have hlen : (renderChars seps toks).length < g := by
        have : 0 < t.text.toList.length := List.length_pos_iff.2 hne
        simp at hg; omega
      have hi := ih seps g (k + blen sep.toList + blen t.text.toList) (some (k + blen sep.toList))
        (goPos doc (k + blen sep.toList)) hadm' hok2 hlen
      simp only [tokenizeLoop]
      rw [nextToken_cfg, hsk]
      simp only [tokRes, err_cfg, lexChars_ne_eof hlex, Bool.false_eq_true, if_false, hi, placedRaw]
      rfl

/-- **the pure lexer on the text of a token list**: raw tokens (`Lx.rawTokens`) -/
theorem rawTokens_layout (lay : Layout) (toks : List Token) (h : Admissible lay toks) :
    rawTokens (renderBytes lay toks) = .ok (placedRaw (renderBytes lay toks) 0 lay toks) := by
  have hn := admissible_noNul toks lay h
  generalize hZ : renderChars lay toks = Z at hn
  have hdoc : renderBytes lay toks = encChars Z := by rw [renderBytes, hZ]
  have hinit : PState.init (encChars Z) false = cur (encChars Z) 0 0 none ⟨0, 0, 0⟩ Z := rfl
  have hnext : pureSrc.next (PState.init (encChars Z) false) = cfg (encChars Z) 0 none ⟨0, 0, 0⟩ Z := by
    show PState.next _ = _
    rw [hinit]
    cases Z with
    | nil => rw [next_cur_nil]; rfl
    | cons c Z => rw [next_cur _ _ _ _ _ _ _ hn.head]; simp [cfg_cons]
  have hok : Ok (encChars Z) ((encChars Z).length + 2) 0 Z :=
    ⟨rfl, hn, by have := length_le_blen Z; simp only [blen] at this; omega⟩
  rw [hdoc]
  unfold rawTokens tokenize
  rw [tokenizeLoop_bof pureSrc _ _ _ (by rw [hnext]; simpa using cfg_fst_ne_bof _ _ _ _ _), hnext, ← hZ]
  rw [← hZ] at hok
  exact tokenizeLoop_layout (encChars (renderChars lay toks)) _ toks lay _ 0 none ⟨0, 0, 0⟩ h hok hok.hF

theorem placedRaw_toToken (doc : List UInt8) : ∀ (toks : List Token) (lay : Layout) (k : Nat),
    (placedRaw doc k lay toks).map RawTok.toToken = placed doc k lay toks
  | [], [], _ => rfl
  | [], [sep], _ => rfl
  | [], _ :: _ :: _, _ => rfl
  | t :: ts, [], _ => rfl
  | t :: ts, sep :: seps, k => by
    simp only [placedRaw, placed, List.map_cons, RawTok.toToken, tokenBytes, bytesToString_strBytes]
    congr 1
    exact placedRaw_toToken doc ts seps _

/-- **the pure lexer on the text of a token list**: tokens with `String` texts (`Lx.tokensWithPos`) -/
theorem tokensWithPos_layout (lay : Layout) (toks : List Token) (h : Admissible lay toks) :
    tokensWithPos (renderBytes lay toks) = .ok (placed (renderBytes lay toks) 0 lay toks) := by
  unfold tokensWithPos
  rw [rawTokens_layout lay toks h]
  exact congrArg Except.ok (placedRaw_toToken _ toks lay 0)

end CedarGo.Text
