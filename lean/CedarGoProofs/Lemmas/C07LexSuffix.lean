/-
  C07 ∘ C18 bridge, part 15: whatever a parser function leaves unconsumed is a SUFFIX of its input
  (`r = ts.drop j`).  Needed to know WHICH token (with its position) starts the next policy of a text.
-/
import CedarGo.Model.Text.Layout
namespace CedarGo.Text
open CedarGo
set_option linter.unusedVariables false

def Suf (ts r : List Token) : Prop := ∃ j, r = ts.drop j

theorem Suf.refl (ts : List Token) : Suf ts ts := ⟨0, rfl⟩
theorem Suf.trans {a b c : List Token} (h1 : Suf a b) (h2 : Suf b c) : Suf a c := by
  obtain ⟨i, rfl⟩ := h1; obtain ⟨j, rfl⟩ := h2; exact ⟨i + j, by rw [List.drop_drop]⟩
theorem adv_eq_drop (ts : List Token) : adv ts = ts.drop 1 := by cases ts <;> rfl
theorem Suf.adv {ts r : List Token} (h : Suf ts r) : Suf ts (adv r) := h.trans ⟨1, adv_eq_drop r⟩
theorem Suf.tail (t : Token) (ts : List Token) : Suf (t :: ts) ts := ⟨1, rfl⟩
theorem Suf.cons {t : Token} {ts r : List Token} (h : Suf ts r) : Suf (t :: ts) r := (Suf.tail t ts).trans h
theorem Suf.nil (ts : List Token) : Suf ts [] := ⟨ts.length, by simp⟩

/-- two suffixes of the same list with the same length are equal -/
theorem Suf.eq_of_length {ts a b : List Token} (ha : Suf ts a) (hb : Suf ts b) (h : a.length = b.length) : a = b := by
  obtain ⟨i, rfl⟩ := ha; obtain ⟨j, rfl⟩ := hb
  simp only [List.length_drop] at h
  by_cases hi : i ≤ ts.length
  · by_cases hj : j ≤ ts.length
    · have : i = j := by omega
      rw [this]
    · have : i = ts.length := by omega
      rw [this, List.drop_length, List.drop_eq_nil_of_le (by omega)]
  · rw [List.drop_eq_nil_of_le (by omega)]
    have : ts.length ≤ j := by omega
    rw [List.drop_eq_nil_of_le this]

def SufE {α : Type} (x : Except PErr (α × List Token)) (ts : List Token) : Prop := ∀ v, x = .ok v → Suf ts v.2
def SufT (x : Except PErr (List Token)) (ts : List Token) : Prop := ∀ r, x = .ok r → Suf ts r
def SufP {α : Type} (x : PRL α) (ts : List Token) : Prop := ∀ v, x = some (.ok v) → Suf ts v.2

theorem SufP.isNone {α : Type} (ts : List Token) : SufP (none : PRL α) ts := fun _ h => by cases h
theorem SufP.isErr {α : Type} (e : PErr) (ts : List Token) : SufP (errP e : PRL α) ts := fun _ h => by cases h
theorem SufP.isOk {α : Type} {v : α} {r ts : List Token} (h : Suf ts r) : SufP (okP (v, r)) ts := by
  intro w hw; cases hw; exact h
theorem SufP.ofE {α : Type} {x : Except PErr (α × List Token)} {ts : List Token} (h : SufE x ts) : SufP (some x) ts := by
  intro v hv; cases hv; exact h v rfl
theorem SufP.mono {α : Type} {x : PRL α} {ts r : List Token} (h1 : Suf ts r) (h2 : SufP x r) : SufP x ts :=
  fun v hv => h1.trans (h2 v hv)
theorem SufE.mono {α : Type} {x : Except PErr (α × List Token)} {ts r : List Token} (h1 : Suf ts r) (h2 : SufE x r) : SufE x ts :=
  fun v hv => h1.trans (h2 v hv)
theorem SufE.isErr {α : Type} (e : PErr) (ts : List Token) : SufE (.error e : Except PErr (α × List Token)) ts := fun _ h => by cases h
theorem SufE.isOk {α : Type} {v : α} {r ts : List Token} (h : Suf ts r) : SufE (.ok (v, r)) ts := by
  intro w hw; cases hw; exact h
theorem SufP.ite {α : Type} {c : Prop} [Decidable c] {a b : PRL α} {ts : List Token} (h1 : SufP a ts) (h2 : SufP b ts) :
    SufP (if c then a else b) ts := by split <;> assumption
theorem SufE.ite {α : Type} {c : Prop} [Decidable c] {a b : Except PErr (α × List Token)} {ts : List Token}
    (h1 : SufE a ts) (h2 : SufE b ts) : SufE (if c then a else b) ts := by split <;> assumption

/-- sequencing when the first step returns (value, tokens) -/
theorem SufP.bind {α β : Type} {a : PRL α} {k : α × List Token → PRL β} {ts : List Token} (h1 : SufP a ts)
    (h2 : ∀ v, Suf ts v.2 → SufP (k v) ts) : SufP (bindP a k) ts := by
  cases a with
  | none => exact SufP.isNone ts
  | some x => cases x with
    | error e => exact SufP.isErr e ts
    | ok v => exact h2 v (h1 v rfl)

/-- sequencing when the first step returns a plain value -/
theorem SufP.bindV {γ β : Type} {x : Except PErr γ} {k : γ → PRL β} {ts : List Token} (h2 : ∀ v, SufP (k v) ts) :
    SufP (bindP (some x) k) ts := by
  cases x with
  | error e => exact SufP.isErr e ts
  | ok v => exact h2 v

/-- sequencing when the first step returns tokens (`exact`) -/
theorem SufP.bindT {β : Type} {x : Except PErr (List Token)} {k : List Token → PRL β} {ts : List Token} (h1 : SufT x ts)
    (h2 : ∀ r, Suf ts r → SufP (k r) ts) : SufP (bindP (some x) k) ts := by
  cases x with
  | error e => exact SufP.isErr e ts
  | ok v => exact h2 v (h1 v rfl)

theorem exact_suf (s : String) {ts r : List Token} (h : Suf ts r) : SufT (exact s r) ts := by
  intro v hv
  simp only [exact] at hv
  split at hv
  · cases hv; exact h.adv
  · cases hv

/-! ## entities and paths -/

theorem entityPath_suf (ty : String) (ts : List Token) : SufE (entityPath ty ts) ts := by
  fun_induction entityPath ty ts with
  | case1 => exact SufE.isErr _ _
  | case2 => exact SufE.isErr _ _
  | case3 => exact SufE.isErr _ _
  | case4 ty c h1 t rest' h2 ih => exact SufE.mono ((Suf.tail _ _).trans (Suf.tail _ _)) ih
  | case5 ty c h1 t rest' h2 h3 id h4 => exact SufE.isOk ((Suf.tail _ _).trans (Suf.tail _ _))
  | case6 => exact SufE.isErr _ _
  | case7 => exact SufE.isErr _ _

syntax "suf" : tactic
macro_rules
  | `(tactic| suf) => `(tactic| first | assumption | exact Suf.refl _ | exact Suf.nil _ | (apply Suf.adv; suf) | (apply Suf.cons; suf))

theorem entity_suf {ts r : List Token} (h : Suf ts r) : SufE (entity r) ts := by
  unfold entity
  exact SufE.ite (SufE.mono h.adv (entityPath_suf _ _)) (SufE.isErr _ _)

theorem pathRest_suf (ty : String) (ts : List Token) : SufE (pathRest ty ts) ts := by
  fun_induction pathRest ty ts with
  | case1 => exact SufE.isOk (Suf.refl _)
  | case2 => exact SufE.isOk (Suf.refl _)
  | case3 => exact SufE.isErr _ _
  | case4 ty c h1 t rest' h2 ih => exact SufE.mono ((Suf.tail _ _).trans (Suf.tail _ _)) ih
  | case5 => exact SufE.isErr _ _

theorem path_suf {ts r : List Token} (h : Suf ts r) : SufE (path r) ts := by
  unfold path
  exact SufE.ite (SufE.mono h.adv (pathRest_suf _ _)) (SufE.isErr _ _)

/-! ## expressions -/

section Expr
variable {E : EP} (hE : ∀ ts, SufP (E ts) ts)
include hE

theorem E_suf {ts r : List Token} (h : Suf ts r) : SufP (E r) ts := SufP.mono h (hE r)

theorem exprList_suf (close : String) : ∀ (n : Nat) {ts r : List Token}, Suf ts r → SufP (exprList E close n r) ts
  | 0, _, _, _ => SufP.isNone _
  | n + 1, ts, r, h => by
    simp only [exprList]
    refine SufP.ite (SufP.isOk h) (SufP.bind (E_suf hE h) fun v hv => ?_)
    refine SufP.ite (SufP.bind (exprList_suf close n hv.adv) fun w hw => SufP.isOk hw) (SufP.ite (SufP.isOk hv) (SufP.isErr _ _))

theorem recordLoop_suf : ∀ (n : Nat) (known : List String) {ts r : List Token}, Suf ts r → SufP (recordLoop E n known r) ts
  | 0, _, _, _, _ => SufP.isNone _
  | n + 1, known, ts, r, h => by
    simp only [recordLoop]
    refine SufP.ite (SufP.isOk h.adv) (SufP.bindV fun k => SufP.bindT (exact_suf ":" h.adv) fun r1 h1 =>
      SufP.bind (E_suf hE h1) fun v hv => ?_)
    refine SufP.ite (SufP.isErr _ _) (SufP.ite (SufP.bind (recordLoop_suf n _ hv.adv) fun w hw => SufP.isOk hw)
      (SufP.ite (SufP.isOk hv.adv) (SufP.isErr _ _)))

theorem entityOrExtFun_suf (n : Nat) (pre : String) (r : List Token) : ∀ {ts : List Token}, Suf ts r →
    SufP (entityOrExtFun E n pre r) ts := by
  fun_induction entityOrExtFun E n pre r with
  | case1 => intro ts _; exact SufP.isErr _ _
  | case2 => intro ts _; exact SufP.isErr _ _
  | case3 pre t h1 t2 rest2 h2 ih => intro ts h; exact ih (h.trans ((Suf.tail _ _).trans (Suf.tail _ _)))
  | case4 pre t h1 t2 rest2 h2 h3 =>
    intro ts h
    exact SufP.bindV fun id => SufP.isOk (h.trans ((Suf.tail _ _).trans (Suf.tail _ _)))
  | case5 => intro ts _; exact SufP.isErr _ _
  | case6 pre t rest h1 h2 =>
    intro ts h
    exact SufP.bindV fun _ => SufP.bind (exprList_suf hE ")" n (h.trans (Suf.tail _ _))) fun v hv => SufP.isOk hv.adv
  | case7 => intro ts _; exact SufP.isErr _ _

theorem primary_suf (n : Nat) {ts r : List Token} (h : Suf ts r) : SufP (primary E n r) ts := by
  unfold primary
  split
  · exact SufP.bindV fun e => SufP.isOk h.adv
  · exact SufP.bindV fun e => SufP.isOk h.adv
  · exact SufP.isOk h.adv
  · exact SufP.isOk h.adv
  · exact entityOrExtFun_suf hE n _ _ h.adv
  · exact SufP.isOk h.adv
  · exact SufP.isErr _ _
  · exact SufP.bind (E_suf hE h.adv) fun v hv => SufP.bindT (exact_suf ")" hv) fun r3 h3 => SufP.isOk h3
  · exact SufP.bind (exprList_suf hE "]" n h.adv) fun v hv => SufP.isOk hv.adv
  · exact SufP.bind (recordLoop_suf hE n [] h.adv) fun v hv => SufP.isOk hv
  · exact SufP.isErr _ _

theorem accessLoop_suf : ∀ (n : Nat) (lhs : Expr) {ts r : List Token}, Suf ts r → SufP (accessLoop E n lhs r) ts
  | 0, _, _, _, _ => SufP.isNone _
  | n + 1, lhs, ts, r, h => by
    simp only [accessLoop]
    refine SufP.ite (SufP.ite (SufP.isErr _ _) (SufP.ite ?_ (accessLoop_suf n _ h.adv.adv))) (SufP.ite (SufP.ite (SufP.isErr _ _) ?_) (SufP.isOk h))
    · exact SufP.bind (exprList_suf hE ")" n h.adv.adv.adv) fun v hv => SufP.bindV fun node => accessLoop_suf n _ hv.adv
    · exact SufP.bindV fun name => SufP.bindT (exact_suf "]" h.adv.adv) fun r3 h3 => accessLoop_suf n _ h3

theorem member_suf (n : Nat) {ts r : List Token} (h : Suf ts r) : SufP (member E n r) ts :=
  SufP.bind (primary_suf hE n h) fun v hv => accessLoop_suf hE n _ hv

omit hE in
theorem unaryOps_suf : ∀ (r : List Token), Suf r (unaryOps r).2
  | [] => Suf.refl _
  | t :: rest => by
    simp only [unaryOps]
    split
    · exact (unaryOps_suf rest).cons
    · split
      · exact (unaryOps_suf rest).cons
      · exact Suf.refl _

theorem unary_suf (n : Nat) {ts r : List Token} (h : Suf ts r) : SufP (unary E n r) ts := by
  unfold unary
  have hu := h.trans (unaryOps_suf r)
  exact SufP.ite (SufP.bindV fun e => SufP.isOk hu.adv) (SufP.bind (member_suf hE n hu) fun v hv => SufP.isOk hv)

theorem multLoop_suf (m : Nat) : ∀ (n : Nat) (lhs : Expr) {ts r : List Token}, Suf ts r → SufP (multLoop E m n lhs r) ts
  | 0, _, _, _, _ => SufP.isNone _
  | n + 1, lhs, ts, r, h => by
    simp only [multLoop]
    exact SufP.ite (SufP.bind (unary_suf hE m h.adv) fun v hv => multLoop_suf m n _ hv) (SufP.isOk h)

theorem mult_suf (n : Nat) {ts r : List Token} (h : Suf ts r) : SufP (mult E n r) ts :=
  SufP.bind (unary_suf hE n h) fun v hv => multLoop_suf hE n n _ hv

theorem addLoop_suf (m : Nat) : ∀ (n : Nat) (lhs : Expr) {ts r : List Token}, Suf ts r → SufP (addLoop E m n lhs r) ts
  | 0, _, _, _, _ => SufP.isNone _
  | n + 1, lhs, ts, r, h => by
    simp only [addLoop]
    split
    · exact SufP.isOk h
    · exact SufP.bind (mult_suf hE m h.adv) fun v hv => addLoop_suf m n _ hv

theorem add_suf (n : Nat) {ts r : List Token} (h : Suf ts r) : SufP (add E n r) ts :=
  SufP.bind (mult_suf hE n h) fun v hv => addLoop_suf hE n n _ hv

omit hE in
theorem hasPath_suf (result cur : Expr) (r : List Token) : SufE (hasPath result cur r) r := by
  fun_induction hasPath result cur r with
  | case1 => exact SufE.isOk (Suf.refl _)
  | case2 => exact SufE.isOk (Suf.refl _)
  | case3 => exact SufE.isErr _ _
  | case4 => exact SufE.isErr _ _
  | case5 result cur d h1 t rest' h2 ih => exact SufE.mono ((Suf.tail _ _).trans (Suf.tail _ _)) ih

omit hE in
theorem parseHas_suf (lhs : Expr) {ts r : List Token} (h : Suf ts r) : SufE (parseHas lhs r) ts := by
  unfold parseHas
  refine SufE.ite (SufE.mono h.adv (hasPath_suf _ _ _)) (SufE.ite ?_ (SufE.isErr _ _))
  cases strVal (peek r) with
  | error e => exact SufE.isErr _ _
  | ok s => exact SufE.isOk h.adv

omit hE in
theorem parseLike_suf (lhs : Expr) {ts r : List Token} (h : Suf ts r) : SufE (parseLike lhs r) ts := by
  unfold parseLike
  refine SufE.ite (SufE.isErr _ _) ?_
  cases parsePattern (trimQuotes (peek r).text.toList) with
  | error e => exact SufE.isErr _ _
  | ok p => exact SufE.isOk h.adv

theorem parseIs_suf (n : Nat) (lhs : Expr) {ts r : List Token} (h : Suf ts r) : SufP (parseIs E n lhs r) ts := by
  unfold parseIs
  cases hp : path r with
  | error e => exact SufP.isErr _ _
  | ok p =>
    have hs : Suf ts p.2 := path_suf h p hp
    exact SufP.ite (SufP.bind (add_suf hE n hs.adv) fun v hv => SufP.isOk hv) (SufP.isOk hs)

theorem relTail_suf (n : Nat) (lhs : Expr) {ts r : List Token} (h : Suf ts r) : SufP (relTail E n lhs r) ts := by
  unfold relTail
  refine SufP.ite (SufP.ofE (parseHas_suf _ h.adv)) (SufP.ite (SufP.ofE (parseLike_suf _ h.adv)) (SufP.ite (parseIs_suf hE n _ h.adv) ?_))
  split
  · exact SufP.isOk h
  · exact SufP.bind (add_suf hE n h.adv) fun v hv => SufP.isOk hv

theorem relation_suf (n : Nat) {ts r : List Token} (h : Suf ts r) : SufP (relation E n r) ts :=
  SufP.bind (add_suf hE n h) fun v hv => relTail_suf hE n _ hv

theorem andLoop_suf (m : Nat) : ∀ (n : Nat) (lhs : Expr) {ts r : List Token}, Suf ts r → SufP (andLoop E m n lhs r) ts
  | 0, _, _, _, _ => SufP.isNone _
  | n + 1, lhs, ts, r, h => by
    simp only [andLoop]
    exact SufP.ite (SufP.bind (relation_suf hE m h.adv) fun v hv => andLoop_suf m n _ hv) (SufP.isOk h)

theorem and_suf (n : Nat) {ts r : List Token} (h : Suf ts r) : SufP (and_ E n r) ts :=
  SufP.bind (relation_suf hE n h) fun v hv => andLoop_suf hE n n _ hv

theorem orLoop_suf (m : Nat) : ∀ (n : Nat) (lhs : Expr) {ts r : List Token}, Suf ts r → SufP (orLoop E m n lhs r) ts
  | 0, _, _, _, _ => SufP.isNone _
  | n + 1, lhs, ts, r, h => by
    simp only [orLoop]
    exact SufP.ite (SufP.bind (and_suf hE m h.adv) fun v hv => orLoop_suf m n _ hv) (SufP.isOk h)

theorem or_suf (n : Nat) {ts r : List Token} (h : Suf ts r) : SufP (or_ E n r) ts :=
  SufP.bind (and_suf hE n h) fun v hv => orLoop_suf hE n n _ hv

theorem expression_suf (n : Nat) {ts r : List Token} (h : Suf ts r) : SufP (expression E n r) ts := by
  unfold expression
  refine SufP.ite ?_ (or_suf hE n h)
  exact SufP.bind (E_suf hE h.adv) fun c hc => SufP.bindT (exact_suf "then" hc) fun r2 h2 =>
    SufP.bind (E_suf hE h2) fun t ht => SufP.bindT (exact_suf "else" ht) fun r4 h4 =>
    SufP.bind (E_suf hE h4) fun e he => SufP.isOk he

end Expr

theorem exprF_suf : ∀ (n : Nat) (ts : List Token), SufP (exprF n ts) ts
  | 0, _ => SufP.isNone _
  | n + 1, ts => expression_suf (exprF_suf n) n (Suf.refl ts)

/-! ## policies -/

theorem annotations_suf (known : List String) (r : List Token) : SufE (annotations known r) r := by
  fun_induction annotations known r <;> first
    | exact SufE.isErr _ _
    | exact SufE.isOk (Suf.refl _)
    | (rename_i heq ih
       have hs := ih _ heq
       intro v hv
       cases hv
       exact ((Suf.tail _ _).trans ((Suf.tail _ _).trans ((Suf.tail _ _).trans ((Suf.tail _ _).trans (Suf.tail _ _))))).trans hs)

theorem effect_suf {ts r : List Token} (h : Suf ts r) : SufE (effect r) ts := by
  unfold effect
  exact SufE.ite (SufE.isOk h.adv) (SufE.ite (SufE.isOk h.adv) (SufE.isErr _ _))

theorem SufE.matchEntity {α : Type} {x : Except PErr (UID × List Token)} {f : UID → α} {ts : List Token} (h : SufE x ts) :
    SufE (match x with | .error e => .error e | .ok (u, ts1) => .ok (f u, ts1)) ts := by
  cases x with
  | error e => exact SufE.isErr _ _
  | ok v => obtain ⟨u, r1⟩ := v; exact SufE.isOk (h _ rfl)

theorem scopeIs_suf {ts r : List Token} (h : Suf ts r) : SufE (scopeIs r) ts := by
  unfold scopeIs
  cases hp : path r with
  | error e => exact SufE.isErr _ _
  | ok p =>
    obtain ⟨ty, r1⟩ := p
    have hs : Suf ts r1 := path_suf h _ hp
    exact SufE.ite (SufE.matchEntity (entity_suf hs.adv)) (SufE.isOk hs)

theorem scopePR_suf {ts r : List Token} (h : Suf ts r) : SufE (scopePR r) ts := by
  unfold scopePR
  exact SufE.ite (SufE.matchEntity (entity_suf h.adv)) (SufE.ite (scopeIs_suf h.adv)
    (SufE.ite (SufE.matchEntity (entity_suf h.adv)) (SufE.isOk h)))

theorem entlist_suf : ∀ (n : Nat) {ts r : List Token}, Suf ts r → SufE (entlist n r) ts
  | 0, _, _, _ => SufE.isErr _ _
  | n + 1, ts, r, h => by
    simp only [entlist]
    refine SufE.ite (SufE.isOk h) ?_
    cases he : entity r with
    | error e => exact SufE.isErr _ _
    | ok v =>
      obtain ⟨u, r1⟩ := v
      have h1 : Suf ts r1 := entity_suf h _ he
      refine SufE.ite ?_ (SufE.ite (SufE.isOk h1) (SufE.isErr _ _))
      have ih := entlist_suf n h1.adv
      cases hl : entlist n (adv r1) with
      | error e => exact SufE.isErr _ _
      | ok w => obtain ⟨us, r2⟩ := w; exact SufE.isOk (ih _ hl)

theorem scopeA_suf {ts r : List Token} (h : Suf ts r) : SufE (scopeA r) ts := by
  unfold scopeA
  refine SufE.ite (SufE.matchEntity (entity_suf h.adv)) (SufE.ite (SufE.ite ?_ (SufE.matchEntity (entity_suf h.adv))) (SufE.isOk h))
  have ih := entlist_suf ((adv (adv r)).length + 1) h.adv.adv
  cases hl : entlist ((adv (adv r)).length + 1) (adv (adv r)) with
  | error e => exact SufE.isErr _ _
  | ok w => obtain ⟨us, r2⟩ := w; exact SufE.isOk (ih _ hl).adv

theorem condition_suf (n : Nat) {ts r : List Token} (h : Suf ts r) : SufP (condition n r) ts :=
  SufP.bindT (exact_suf "{" h) fun r1 h1 => SufP.bind (SufP.mono h1 (exprF_suf n r1)) fun v hv =>
    SufP.bindT (exact_suf "}" hv) fun r3 h3 => SufP.isOk h3

theorem conditions_suf (m : Nat) : ∀ (n : Nat) {ts r : List Token}, Suf ts r → SufP (conditions m n r) ts
  | 0, _, _, _ => SufP.isNone _
  | n + 1, ts, r, h => by
    simp only [conditions]
    exact SufP.ite (SufP.bind (condition_suf m h.adv) fun v hv => SufP.bind (conditions_suf m n hv) fun w hw => SufP.isOk hw)
      (SufP.isOk h)

theorem SufE.seq {α β : Type} {a : Except PErr (α × List Token)} {k : α × List Token → Except PErr (β × List Token)}
    {ts : List Token} (h1 : SufE a ts) (h2 : ∀ v, Suf ts v.2 → SufE (k v) ts) : SufE (bindE a k) ts := by
  cases a with
  | error e => exact SufE.isErr _ _
  | ok v => exact h2 v (h1 v rfl)

theorem SufE.seqT {β : Type} {a : Except PErr (List Token)} {k : List Token → Except PErr (β × List Token)}
    {ts : List Token} (h1 : SufT a ts) (h2 : ∀ r, Suf ts r → SufE (k r) ts) : SufE (bindE a k) ts := by
  cases a with
  | error e => exact SufE.isErr _ _
  | ok v => exact h2 v (h1 v rfl)

theorem policyHead_suf (ts : List Token) : SufE (policyHead ts) ts := by
  unfold policyHead
  refine SufE.seq (annotations_suf [] ts) fun an han => SufE.seq (effect_suf han) fun ef hef =>
    SufE.seqT (exact_suf "(" hef) fun ts3 h3 => SufE.seqT (exact_suf "principal" h3) fun ts4 h4 =>
    SufE.seq (scopePR_suf h4) fun pr hpr => SufE.seqT (exact_suf "," hpr) fun ts6 h6 =>
    SufE.seqT (exact_suf "action" h6) fun ts7 h7 => SufE.seq (scopeA_suf h7) fun ac hac =>
    SufE.seqT (exact_suf "," hac) fun ts9 h9 => SufE.seqT (exact_suf "resource" h9) fun ts10 h10 =>
    SufE.seq (scopePR_suf h10) fun re hre => ?_
  have hsk : Suf ts (if (peek re.2).text == "," then adv re.2 else re.2) := by
    split
    · exact hre.adv
    · exact hre
  exact SufE.seqT (exact_suf ")" hsk) fun ts13 h13 => SufE.isOk h13

/-- **`Policy.fromCedar` leaves a suffix of its input** -/
theorem policy_suf (n : Nat) (ts : List Token) : SufP (policy n ts) ts := by
  unfold policy
  exact SufP.bind (SufP.ofE (policyHead_suf ts)) fun hd h1 => SufP.bind (conditions_suf n n h1) fun cs hcs =>
    SufP.bindT (exact_suf ";" hcs) fun r h => SufP.isOk h

end CedarGo.Text
