/-
  C12 helper lemmas: IPv6 text form, part 2 — the groups of an address, the compressed zero run (`bestZeroRun`),
  and `ParseIPAddr(ip.String()) == ip` for every IPv6 address / prefix that is not IPv4-mapped.
-/
import CedarGoProofs.Lemmas.C12IP6
namespace CedarGo.Scalars
open CedarGo

/-! ### the groups of an address -/

theorem v6Groups_eq (a : Nat) : v6Groups a =
    [a / 65536 ^ 7 % 65536, a / 65536 ^ 6 % 65536, a / 65536 ^ 5 % 65536, a / 65536 ^ 4 % 65536,
     a / 65536 ^ 3 % 65536, a / 65536 ^ 2 % 65536, a / 65536 ^ 1 % 65536, a / 65536 ^ 0 % 65536] := by
  simp [v6Groups, List.range, List.range.loop]

theorem v6Groups_length (a : Nat) : (v6Groups a).length = 8 := by simp [v6Groups]

theorem v6Groups_lt (a : Nat) : ∀ x ∈ v6Groups a, x < 65536 := by
  intro x hx
  simp only [v6Groups, List.mem_map] at hx
  obtain ⟨i, _, rfl⟩ := hx
  exact Nat.mod_lt _ (by omega)

theorem groupsToNat_v6Groups (a : Nat) (ha : a < 2 ^ 128) : groupsToNat (v6Groups a) = a := by
  rw [v6Groups_eq]
  simp only [groupsToNat, List.foldl]
  simp only [Nat.reducePow, Nat.zero_mul, Nat.zero_add, Nat.div_one] at ha ⊢
  omega

/-! ### the compressed run -/

theorem zeroRun_spec : ∀ (l : List Nat), zeroRun l ≤ l.length ∧ l.take (zeroRun l) = List.replicate (zeroRun l) 0
  | [] => by simp [zeroRun]
  | 0 :: r => by
    obtain ⟨h1, h2⟩ := zeroRun_spec r
    simp only [zeroRun, List.length_cons, List.take_succ_cons, List.replicate_succ, h2]
    exact ⟨by omega, trivial⟩
  | (n + 1) :: r => by simp [zeroRun]

/-- `[s, e)` is a run of at least two zero groups inside `gs` -/
def GoodRun (gs : List Nat) (s e : Nat) : Prop :=
  s + 2 ≤ e ∧ e ≤ gs.length ∧ (gs.drop s).take (e - s) = List.replicate (e - s) 0

def curLen : Option (Nat × Nat) → Nat
  | some (s, e) => e - s
  | none => 0

theorem bestZeroRun_cons (g : Nat) (r : List Nat) (i : Nat) (best : Option (Nat × Nat)) :
    bestZeroRun (g :: r) i best =
      bestZeroRun r (i + 1) (if zeroRun (g :: r) ≥ 2 && zeroRun (g :: r) > curLen best then some (i, i + zeroRun (g :: r))
        else best) := by
  rcases best with _ | ⟨s, e⟩ <;> rfl

theorem bestZeroRun_good (gs : List Nat) : ∀ (r : List Nat) (i : Nat) (best : Option (Nat × Nat)),
    gs.drop i = r → (∀ s e, best = some (s, e) → GoodRun gs s e) →
    ∀ s e, bestZeroRun r i best = some (s, e) → GoodRun gs s e
  | [], _, best, _, hb, s, e, h => hb s e (by simpa [bestZeroRun] using h)
  | g :: r, i, best, hd, hb, s, e, h => by
    rw [bestZeroRun_cons] at h
    generalize curLen best = cur at h
    have hlen : i < gs.length := by
      apply Classical.byContradiction; intro hn
      rw [List.drop_eq_nil_of_le (by omega)] at hd; cases hd
    have hd' : gs.drop (i + 1) = r := by
      have := congrArg (List.drop 1) hd
      simpa [List.drop_drop, Nat.add_comm] using this
    refine bestZeroRun_good gs r (i + 1) _ hd' ?_ s e h
    intro s' e' hs
    by_cases hc : (decide (zeroRun (g :: r) ≥ 2) && decide (zeroRun (g :: r) > cur)) = true
    · rw [if_pos hc] at hs
      cases hs
      simp only [Bool.and_eq_true, decide_eq_true_eq] at hc
      obtain ⟨h1, h2⟩ := zeroRun_spec (g :: r)
      have hl : (gs.drop i).length = gs.length - i := by simp
      rw [hd] at hl
      refine ⟨by omega, by omega, ?_⟩
      rw [hd, show i + zeroRun (g :: r) - i = zeroRun (g :: r) by omega]
      exact h2
    · rw [if_neg hc] at hs
      exact hb s' e' hs

theorem bestZeroRun_v6 (gs : List Nat) (s e : Nat) (h : bestZeroRun gs 0 none = some (s, e)) : GoodRun gs s e :=
  bestZeroRun_good gs gs 0 none rfl (fun _ _ h => by cases h) s e h

/-- a good run splits the groups as `pre ++ zeros ++ post` -/
theorem goodRun_split (gs : List Nat) (s e : Nat) (h : GoodRun gs s e) :
    gs.take s ++ List.replicate (e - s) 0 ++ gs.drop e = gs := by
  obtain ⟨h1, h2, h3⟩ := h
  rw [← h3, List.append_assoc]
  have : List.take (e - s) (List.drop s gs) ++ List.drop e gs = List.drop s gs := by
    have := List.take_append_drop (e - s) (List.drop s gs)
    rw [List.drop_drop, show s + (e - s) = e by omega] at this
    exact this
  rw [this, List.take_append_drop]

/-! ### characters of the printed text -/

theorem hexVal_none_of : hexVal '.' = none ∧ hexVal '%' = none ∧ hexVal '/' = none := by decide

theorem hexOrColon_ne {c : Char} (h : hexOrColon c) : c ≠ '.' ∧ c ≠ '%' ∧ c ≠ '/' := by
  obtain ⟨h1, h2, h3⟩ := hexVal_none_of
  refine ⟨?_, ?_, ?_⟩ <;> (intro e; subst e; rcases h with h | h)
  · rw [h1] at h; cases h
  · revert h; decide
  · rw [h2] at h; cases h
  · revert h; decide
  · rw [h3] at h; cases h
  · revert h; decide

theorem mem_joinTail : ∀ (gs : List Nat), ∀ x ∈ joinTail gs, hexOrColon x
  | [], x, h => by simp [joinTail] at h
  | g :: r, x, h => by
    simp only [joinTail, List.mem_cons, List.mem_append] at h
    rcases h with h | h | h
    · exact Or.inr h
    · exact Or.inl (mem_natHex g x h)
    · exact mem_joinTail r x h

theorem mem_joinHex : ∀ (gs : List Nat), ∀ x ∈ joinHex gs, hexOrColon x
  | [], x, h => by simp [joinHex] at h
  | g :: r, x, h => by
    simp only [joinHex, List.mem_append] at h
    rcases h with h | h
    · exact Or.inl (mem_natHex g x h)
    · exact mem_joinTail r x h

/-- the text `printAddr` produces for a non-IPv4-mapped IPv6 address -/
def v6Text (a : Nat) : List Char :=
  match bestZeroRun (v6Groups a) 0 none with
  | some (zs, ze) => v6Emit (v6Groups a) zs ze 9 0
  | none => v6Emit (v6Groups a) 255 255 9 0

theorem printAddr_v6 (a : Nat) (h4 : a / 4294967296 ≠ 0xffff) : printAddr true a = v6Text a := by
  have : (a / 4294967296 == 0xffff) = false := by simpa using h4
  unfold printAddr v6Text
  rw [this]
  rfl

/-- the shape of the text: either all eight groups, or `pre :: post` around a run of zero groups -/
theorem v6Text_cases (a : Nat) :
    v6Text a = joinHex (v6Groups a) ∨
    ∃ zs ze, GoodRun (v6Groups a) zs ze ∧
      v6Text a = joinHex ((v6Groups a).take zs) ++ ':' :: ':' :: joinHex ((v6Groups a).drop ze) := by
  unfold v6Text
  cases h : bestZeroRun (v6Groups a) 0 none with
  | none => exact Or.inl (v6Emit_plain _ (v6Groups_length a))
  | some p =>
    obtain ⟨zs, ze⟩ := p
    have hg := bestZeroRun_v6 _ zs ze h
    have hl := v6Groups_length a
    have h1 := hg.1
    have h2 := hg.2.1
    exact Or.inr ⟨zs, ze, hg, v6Emit_compressed _ zs ze hl (by omega) (by omega)⟩

theorem mem_v6Text (a : Nat) : ∀ x ∈ v6Text a, hexOrColon x := by
  intro x hx
  rcases v6Text_cases a with h | ⟨zs, ze, _, h⟩
  · rw [h] at hx; exact mem_joinHex _ x hx
  · rw [h] at hx
    simp only [List.mem_append, List.mem_cons] at hx
    rcases hx with hx | hx | hx | hx
    · exact mem_joinHex _ x hx
    · exact Or.inr hx
    · exact Or.inr hx
    · exact mem_joinHex _ x hx

theorem colon_mem_v6Text (a : Nat) : ':' ∈ v6Text a := by
  rcases v6Text_cases a with h | ⟨zs, ze, _, h⟩
  · rw [h, v6Groups_eq]; simp [joinHex, joinTail]
  · rw [h]; simp

/-! ### `parseIPv6` on the printed text -/

theorem contains_pct (l : List Char) (h : ∀ x ∈ l, hexOrColon x) : l.contains '%' = false := by
  rw [Bool.eq_false_iff]
  intro hc
  rw [List.contains_iff_mem] at hc
  exact (hexOrColon_ne (h _ hc)).2.1 rfl

/-- the dispatch on a leading `::` -/
def v6Head (cs : List Char) : Option (List Nat × Option Nat) :=
  match cs with
  | ':' :: ':' :: rest => if rest.isEmpty then some ([], some 0) else v6Loop 9 rest [] (some 0)
  | _ => v6Loop 9 cs [] none

/-- the expansion of `::` and the final length test -/
def v6Finish (groups : List Nat) (ell : Option Nat) : Option Nat :=
  if groups.length < 8 then
    match ell with
    | none => none
    | some e =>
      let n := 8 - groups.length
      some (groupsToNat (groups.take e ++ List.replicate n 0 ++ groups.drop e))
  else if groups.length == 8 then
    (match ell with | some _ => none | none => some (groupsToNat groups))
  else none

theorem parseV6_eq (cs : List Char) : parseV6 cs =
    if cs.contains '%' then none else
    match v6Head cs with
    | none => none
    | some (groups, ell) => v6Finish groups ell := rfl

theorem v6Head_hex (c : Char) (cs : List Char) (hc : c ≠ ':') : v6Head (c :: cs) = v6Loop 9 (c :: cs) [] none := by
  unfold v6Head
  split
  · rename_i e'; injection e' with e1 e2; exact absurd e1 hc
  · rfl

theorem v6Head_dcolon (rest : List Char) :
    v6Head (':' :: ':' :: rest) = if rest.isEmpty then some ([], some 0) else v6Loop 9 rest [] (some 0) := rfl

theorem joinHex_cons_head (g : Nat) (r : List Nat) (T : List Char) :
    ∃ c cs, joinHex (g :: r) ++ T = c :: cs ∧ c ≠ ':' := by
  obtain ⟨c, cs, ec, hc⟩ := natHex_cons g
  exact ⟨c, cs ++ joinTail r ++ T, by rw [joinHex_cons, ec]; simp, hc⟩

theorem list_cons_of_length {α} (l : List α) (n : Nat) (h : l.length = n + 1) : ∃ g r, l = g :: r ∧ r.length = n := by
  cases l with
  | nil => cases h
  | cons g r => exact ⟨g, r, rfl, by simpa using h⟩

theorem v6Finish_split (gs : List Nat) (zs ze : Nat) (hg : GoodRun gs zs ze) (hl : gs.length = 8) :
    v6Finish (gs.take zs ++ gs.drop ze) (some zs) = some (groupsToNat gs) := by
  have hs := goodRun_split gs zs ze hg
  obtain ⟨h1, h2, _⟩ := hg
  have hlt : (gs.take zs).length = zs := by simp; omega
  have hlen : (gs.take zs ++ gs.drop ze).length = zs + (8 - ze) := by simp [hl]; omega
  have ht : (gs.take zs ++ gs.drop ze).take zs = gs.take zs := List.take_left' hlt
  have hd : (gs.take zs ++ gs.drop ze).drop zs = gs.drop ze := List.drop_left' hlt
  unfold v6Finish
  rw [if_pos (by rw [hlen]; omega)]
  simp only [ht, hd, hlen]
  rw [show 8 - (zs + (8 - ze)) = ze - zs by omega, hs]

theorem parseV6_v6Text (a : Nat) (ha : a < 2 ^ 128) : parseV6 (v6Text a) = some a := by
  have hpct := contains_pct _ (mem_v6Text a)
  have hl := v6Groups_length a
  have hlt := v6Groups_lt a
  rw [parseV6_eq, hpct]
  simp only [Bool.false_eq_true, if_false]
  rcases v6Text_cases a with h | ⟨zs, ze, hg, h⟩
  · -- all eight groups
    obtain ⟨g, r, e, hr⟩ := list_cons_of_length _ 7 hl
    obtain ⟨c, cs, ec, hc⟩ := joinHex_cons_head g r []
    have hloop := v6Loop_groups r g 9 [] none (by rw [← e]; exact hlt) (by simp; omega) (by omega)
    rw [h, e, ← List.append_nil (joinHex (g :: r)), ec, v6Head_hex c cs hc, ← ec, List.append_nil, joinHex_cons, hloop]
    simp only [List.nil_append, v6Finish, List.length_cons, hr]
    rw [← e, groupsToNat_v6Groups a ha]
    simp
  · -- a compressed run [zs, ze)
    have hfin := v6Finish_split _ zs ze hg hl
    rw [groupsToNat_v6Groups a ha] at hfin
    obtain ⟨h1, h2, _⟩ := hg
    have hpre_lt : ∀ x ∈ (v6Groups a).take zs, x < 65536 := fun x hx => hlt x (List.mem_of_mem_take hx)
    have hpost_lt : ∀ x ∈ (v6Groups a).drop ze, x < 65536 := fun x hx => hlt x (List.mem_of_mem_drop hx)
    have hprel : ((v6Groups a).take zs).length = zs := by simp; omega
    have hpostl : ((v6Groups a).drop ze).length = 8 - ze := by simp [hl]
    generalize hpre : (v6Groups a).take zs = pre at *
    generalize hpost : (v6Groups a).drop ze = post at *
    rw [h]
    -- both sub-cases end in `some (pre ++ post, some zs)`
    suffices hh : v6Head (joinHex pre ++ ':' :: ':' :: joinHex post) = some (pre ++ post, some zs) by
      rw [hh]; exact hfin
    cases pre with
    | nil =>
      simp only [List.length_nil] at hprel
      subst hprel
      rw [joinHex_nil, List.nil_append, v6Head_dcolon]
      cases post with
      | nil => simp [joinHex_nil]
      | cons g r =>
        simp only [List.length_cons] at hpostl
        obtain ⟨c, cs, ec, hc⟩ := joinHex_cons_head g r []
        rw [List.append_nil] at ec
        have hne : (joinHex (g :: r)).isEmpty = false := by rw [ec]; rfl
        rw [hne]
        simp only [Bool.false_eq_true, if_false, joinHex_cons]
        rw [v6Loop_groups r g 9 [] (some 0) hpost_lt (by simp; omega) (by omega)]
    | cons g r =>
      simp only [List.length_cons] at hprel
      obtain ⟨c, cs, ec, hc⟩ := joinHex_cons_head g r (':' :: ':' :: joinHex post)
      rw [ec, v6Head_hex c cs hc, ← ec, joinHex_cons]
      have hloop := v6Loop_groups_dcolon r g (8 - r.length) [] (joinHex post) hpre_lt (by simp; omega)
      rw [show 8 - r.length + r.length + 1 = 9 by omega] at hloop
      rw [hloop]
      simp only [List.length_nil, Nat.zero_add, List.nil_append, hprel]
      cases post with
      | nil => simp [joinHex_nil]
      | cons g' r' =>
        simp only [List.length_cons] at hpostl
        obtain ⟨c', cs', ec', hc'⟩ := joinHex_cons_head g' r' []
        rw [List.append_nil] at ec'
        have hne : (joinHex (g' :: r')).isEmpty = false := by rw [ec']; rfl
        rw [hne]
        simp only [Bool.false_eq_true, if_false, joinHex_cons]
        rw [v6Loop_groups r' g' (8 - r.length) (g :: r) (some zs) hpost_lt (by simp; omega) (by omega)]

/-! ### `ParseAddr`, `ParsePrefix`, `ParseIPAddr` -/

/-- `netip.ParseAddr` picks the IPv6 parser: the first of `.`, `:`, `%` in the text is a `:` -/
theorem find_colon : ∀ (l : List Char), (∀ x ∈ l, hexOrColon x) → ':' ∈ l →
    l.find? (fun c => c == '.' || c == ':' || c == '%') = some ':'
  | [], _, hm => by simp at hm
  | x :: xs, h, hm => by
    by_cases hx : x = ':'
    · subst hx; simp
    · have hne := hexOrColon_ne (h x (by simp))
      have hm' : ':' ∈ xs := by
        simp only [List.mem_cons] at hm
        rcases hm with hm | hm
        · exact absurd hm.symm hx
        · exact hm
      have ih := find_colon xs (fun y hy => h y (by simp [hy])) hm'
      simp [hne.1, hne.2.1, hx, ih]

theorem parseAddr_v6Text (a : Nat) (ha : a < 2 ^ 128) : parseAddr (v6Text a) = some (true, a) := by
  unfold parseAddr
  rw [find_colon _ (mem_v6Text a) (colon_mem_v6Text a)]
  simp [parseV6_v6Text a ha]

/-- `netip.ParsePrefix` on `addr/bits` (the LAST `/` is the separator) -/
theorem parsePrefix_append (pre : List Char) (v6 : Bool) (a bits : Nat)
    (hp : parseAddr pre = some (v6, a)) (hb : bits ≤ (if v6 then 128 else 32)) :
    parsePrefix (pre ++ '/' :: natDigits bits) = some ⟨v6, a, bits⟩ := by
  have hslash : ∀ x ∈ natDigits bits, x ≠ '/' := by
    intro x hx e; subst e; have := mem_natDigits hx; revert this; decide
  have hl : lastIndexOf '/' (pre ++ '/' :: natDigits bits) = some pre.length := by
    unfold lastIndexOf
    rw [lastIndexOf_go_append '/' _ hslash]; simp
  obtain ⟨c, r, e, hcd, hz⟩ := natDigits_head bits
  have hlead : ¬ ((natDigits bits).length > 1 ∧ ¬ ('1' ≤ c ∧ c ≤ '9')) := by
    intro ⟨h1, h2⟩
    have hb10 : ¬ bits < 10 := by
      intro hlt; rw [natDigits_lt hlt] at h1; simp at h1
    have hc0 : c ≠ '0' := fun e0 => by have := hz e0; omega
    apply h2
    simp only [isDig, Bool.and_eq_true, decide_eq_true_eq] at hcd
    refine ⟨?_, hcd.2⟩
    have h0 : '0' ≤ c := hcd.1
    have : c.toNat ≠ 48 := by
      intro e48; apply hc0; apply Char.ext; apply UInt32.toNat_inj.mp; simpa using e48
    have h0' : 48 ≤ c.toNat := h0
    show (49 : Nat) ≤ c.toNat
    omega
  unfold parsePrefix
  rw [hl]
  simp only [List.take_left']
  rw [hp]
  have hdrop : (pre ++ '/' :: natDigits bits).drop (pre.length + 1) = natDigits bits := by
    rw [show (pre ++ '/' :: natDigits bits) = (pre ++ ['/']) ++ natDigits bits by simp]
    rw [List.drop_append_of_le_length (by simp)]
    simp
  have hall : allDigits (c :: r) = true := e ▸ allDigits_natDigits bits
  have hval : digitsVal (c :: r) = bits := e ▸ digitsVal_natDigits bits
  rw [e] at hlead
  simp only
  rw [hdrop, e]
  have hb1 : (decide ((c :: r).length > 1) && !(decide ('1' ≤ c) && decide (c ≤ '9'))) = false := by
    by_cases hlen : (c :: r).length > 1
    · have h2 : '1' ≤ c ∧ c ≤ '9' := Classical.not_not.mp (not_and.mp hlead hlen)
      simp [h2.1, h2.2]
    · have hr0 : ¬ (0 < r.length) := by rw [List.length_cons] at hlen; omega
      simp [hr0]
  have hb2 : ¬ (bits > (if v6 then 128 else 32)) := by omega
  simp only [List.head?_cons, hb1, hall, hval, Bool.false_eq_true, if_false, Bool.not_true, hb2]

/-- IPv6 addresses and prefixes other than IPv4-mapped ones: `ParseIPAddr(ip.String()) == ip` -/
theorem parseIPL_printIPL_v6 (a bits : Nat) (ha : a < 2 ^ 128) (h4 : a / 4294967296 ≠ 0xffff) (hb : bits ≤ 128) :
    parseIPL (printIPL ⟨true, a, bits⟩) = .ok ⟨true, a, bits⟩ := by
  unfold printIPL
  simp only [if_true, printAddr_v6 a h4]
  have hmem := mem_v6Text a
  have hdot : ∀ x ∈ v6Text a, x ≠ '.' := fun x hx => (hexOrColon_ne (hmem x hx)).1
  have hsl : ∀ x ∈ v6Text a, x ≠ '/' := fun x hx => (hexOrColon_ne (hmem x hx)).2.2
  by_cases hfull : bits = 128
  · subst hfull
    simp only [beq_self_eq_true, if_true]
    have hc : countCh '.' (v6Text a) = 0 := countCh_zero _ _ hdot
    have hp : parsePrefix (v6Text a) = none := by
      unfold parsePrefix lastIndexOf
      rw [lastIndexOf_go_none '/' _ 0 none hsl]
    unfold parseIPL
    rw [hc, hp]
    simp [parseAddr_v6Text a ha]
  · have hne : (bits == 128) = false := by simpa using hfull
    simp only [hne, Bool.false_eq_true, if_false]
    have hdot' : ∀ x ∈ v6Text a ++ '/' :: natDigits bits, x ≠ '.' := by
      intro x hx
      simp only [List.mem_append, List.mem_cons] at hx
      rcases hx with h | h | h
      · exact hdot x h
      · subst h; decide
      · exact (isDig_ne (mem_natDigits h)).1
    have hc : countCh '.' (v6Text a ++ '/' :: natDigits bits) = 0 := countCh_zero _ _ hdot'
    unfold parseIPL
    rw [hc, parsePrefix_append (v6Text a) true a bits (parseAddr_v6Text a ha) (by simpa using hb)]
    simp

/-! ### IPv4-mapped addresses: the printed form is always refused -/

theorem countCh_append (c : Char) (l1 l2 : List Char) : countCh c (l1 ++ l2) = countCh c l1 + countCh c l2 := by
  simp [countCh, List.filter_append]

theorem countCh_cons (c x : Char) (l : List Char) : countCh c (x :: l) = (if x = c then 1 else 0) + countCh c l := by
  by_cases h : x = c
  · simp [countCh, h]; omega
  · simp [countCh, h]

theorem countCh_dot_natDigits (n : Nat) : countCh '.' (natDigits n) = 0 :=
  countCh_zero _ _ (fun _ hx => (isDig_ne (mem_natDigits hx)).1)

theorem countCh_dot_printV4 (a : Nat) : countCh '.' (printV4 a) = 3 := by
  simp [printV4, countCh_append, countCh_cons, countCh_dot_natDigits]

theorem parseIPL_mixed (cs : List Char) (h1 : countCh ':' cs ≥ 2) (h2 : countCh '.' cs ≥ 2) :
    parseIPL cs = .error .extIP := by
  simp [parseIPL, h1, h2]

/-- every IPv4-mapped IPv6 address (and prefix) prints with both `:` and `.` and is refused by `ParseIPAddr` -/
theorem parseIPL_printIPL_4in6 (a bits : Nat) (h4 : a / 4294967296 = 0xffff) :
    parseIPL (printIPL ⟨true, a, bits⟩) = .error .extIP := by
  have hb : (a / 4294967296 == 0xffff) = true := by simpa using h4
  have hp : printAddr true a = "::ffff:".toList ++ printV4 (a % 4294967296) := by
    simp only [printAddr, Bool.not_true, Bool.false_eq_true, if_false, hb, if_true]
  have hc : countCh ':' ("::ffff:".toList) = 3 := by decide
  unfold printIPL
  simp only [if_true, hp]
  split
  · exact parseIPL_mixed _ (by rw [countCh_append, hc]; omega) (by rw [countCh_append, countCh_dot_printV4]; omega)
  · exact parseIPL_mixed _ (by rw [countCh_append, countCh_append, hc]; omega)
      (by rw [countCh_append, countCh_append, countCh_dot_printV4]; omega)

end CedarGo.Scalars
