/-
  C13 (nested coercion), part 3: spellings of different data are different — if the unguided decodings of two spellings
  (same position type) are `Equal`, so are the data.  Needed because the unguided decoder builds a set (`NewSet`,
  duplicates dropped) BEFORE coercion sees the members.
-/
import CedarGoProofs.Lemmas.C13CoerceMain
import CedarGoProofs.Lemmas.C11Beq
namespace CedarGo.JsonModel
open CedarGo CedarGo.Scalars

/-! ### inversion of `spells` by the position type -/

theorem spells_bool_inv (x u : Value) (h : spells x .bool u) : u = x := by
  cases x <;> rw [spells] at h
  case bool b => exact h.2
  all_goals simp at h

theorem spells_long_inv (x u : Value) (h : spells x .long u) : u = x := by
  cases x <;> rw [spells] at h
  case long b => exact h.2
  all_goals simp at h

theorem spells_str_inv (x u : Value) (h : spells x .str u) : u = x := by
  cases x <;> rw [spells] at h
  case str b => exact h.2
  all_goals simp at h

theorem spells_entity_inv (x u : Value) (n : String) (h : spells x (.entity n) u) :
    ∃ ty id, x = .entity ty id ∧ (u = .entity ty id ∨ u = implicitRec ty id) := by
  cases x <;> rw [spells] at h
  case entity ty id => exact ⟨ty, id, rfl, h.2⟩
  all_goals simp at h

theorem spells_ext_inv (x u : Value) (n : String) (h : spells x (.ext n) u) : extSpells n x u := by
  cases x <;> rw [spells] at h
  case decimal d => obtain ⟨m, e, he⟩ := h; cases e; exact he
  case datetime d => obtain ⟨m, e, he⟩ := h; cases e; exact he
  case duration d => obtain ⟨m, e, he⟩ := h; cases e; exact he
  case ip d => obtain ⟨m, e, he⟩ := h; cases e; exact he
  all_goals simp at h

theorem spells_set_inv (x u : Value) (te : STy) (h : spells x (.set te) u) :
    ∃ xs us, x = .set xs ∧ u = .set us ∧ spellsL xs te us := by
  cases x <;> rw [spells] at h
  case set xs => obtain ⟨te', us, e, rfl, hl⟩ := h; cases e; exact ⟨xs, us, rfl, rfl, hl⟩
  all_goals simp at h

theorem spells_record_inv (x u : Value) (attrs : List (String × STy)) (h : spells x (.record attrs) u) :
    ∃ kvs ukvs, x = .record kvs ∧ u = .record ukvs ∧ spellsKV kvs attrs ukvs := by
  cases x <;> rw [spells] at h
  case record kvs => obtain ⟨a', ukvs, e, rfl, hl⟩ := h; cases e; exact ⟨kvs, ukvs, rfl, rfl, hl⟩
  all_goals simp at h

/-! ### flat values: `Equal` is identity -/

def isFlat : Value → Bool
  | .set _ => false
  | .record _ => false
  | _ => true

theorem beq_eq_of_flat (u u' : Value) (hf : isFlat u = true) (h : Value.beq u u' = true) : u = u' := by
  cases u <;> cases u' <;> simp_all [Value.beq, isFlat]

theorem extSpells_flat (n : String) (x u : Value) (h : extSpells n x u) : isFlat u = true := by
  cases x <;> simp only [extSpells] at h
  all_goals (obtain ⟨_, h | ⟨s, rfl, _⟩⟩ := h <;> first | (subst h; rfl) | rfl)

/-! ### members of related lists -/

theorem spellsL_zip : ∀ (xs : List Value) (t : STy) (us : List Value), spellsL xs t us → ∀ p ∈ List.zip xs us, spells p.1 t p.2
  | [], _, _, h, p, hp => by rw [spellsL] at h; subst h; simp at hp
  | x :: xs, t, us, h, p, hp => by
    rw [spellsL] at h
    obtain ⟨u, us', rfl, hx, hr⟩ := h
    simp only [List.zip_cons_cons, List.mem_cons] at hp
    rcases hp with rfl | hp
    · exact hx
    · exact spellsL_zip xs t us' hr p hp

theorem spellsL_left : ∀ (xs : List Value) (t : STy) (us : List Value), spellsL xs t us → ∀ x ∈ xs, ∃ u, (x, u) ∈ List.zip xs us
  | [], _, _, _, x, hx => by simp at hx
  | y :: xs, t, us, h, x, hx => by
    rw [spellsL] at h
    obtain ⟨u, us', rfl, _, hr⟩ := h
    rcases List.mem_cons.mp hx with rfl | hx
    · exact ⟨u, by simp⟩
    · obtain ⟨w, hw⟩ := spellsL_left xs t us' hr x hx
      exact ⟨w, by simp [hw]⟩

theorem spellsL_right : ∀ (xs : List Value) (t : STy) (us : List Value), spellsL xs t us → ∀ u ∈ us, ∃ x, (x, u) ∈ List.zip xs us
  | [], _, _, h, u, hu => by rw [spellsL] at h; subst h; simp at hu
  | y :: xs, t, us, h, u, hu => by
    rw [spellsL] at h
    obtain ⟨u0, us', rfl, _, hr⟩ := h
    rcases List.mem_cons.mp hu with rfl | hu
    · exact ⟨y, by simp⟩
    · obtain ⟨w, hw⟩ := spellsL_right xs t us' hr u hu
      exact ⟨w, by simp [hw]⟩

/-! ### the injectivity, by mutual recursion over the first datum -/

mutual
theorem spells_inj : ∀ (x : Value) (t : STy) (u x' u' : Value), spells x t u → spells x' t u' → Value.beq u u' = true →
    Value.beq x x' = true
  | .bool b, t, u, x', u', h, h', hb => by
    rw [spells] at h; obtain ⟨rfl, rfl⟩ := h
    rw [← spells_bool_inv x' u' h']; exact hb
  | .long n, t, u, x', u', h, h', hb => by
    rw [spells] at h; obtain ⟨rfl, rfl⟩ := h
    rw [← spells_long_inv x' u' h']; exact hb
  | .str s, t, u, x', u', h, h', hb => by
    rw [spells] at h; obtain ⟨rfl, rfl⟩ := h
    rw [← spells_str_inv x' u' h']; exact hb
  | .entity ty id, t, u, x', u', h, h', hb => by
    rw [spells] at h
    obtain ⟨⟨n, rfl⟩, hu⟩ := h
    obtain ⟨ty', id', rfl, hu'⟩ := spells_entity_inv x' u' n h'
    rcases hu with rfl | rfl <;> rcases hu' with rfl | rfl
    · exact hb
    · simp [Value.beq, implicitRec] at hb
    · simp [Value.beq, implicitRec] at hb
    · simp only [Value.beq, implicitRec, Value.beqKV, beq_self_eq_true, Bool.true_and, Bool.and_true, Bool.and_eq_true, beq_iff_eq] at hb ⊢
      exact ⟨hb.2, hb.1⟩
  | .decimal d, t, u, x', u', h, h', hb => by
    rw [spells] at h; obtain ⟨n, rfl, he⟩ := h
    have he' := spells_ext_inv x' u' n h'
    have e := beq_eq_of_flat u u' (extSpells_flat n _ u he) hb
    rw [← coerceExtension_spells n _ u he, ← coerceExtension_spells n x' u' he', e]
    exact C11.beq_refl _
  | .datetime d, t, u, x', u', h, h', hb => by
    rw [spells] at h; obtain ⟨n, rfl, he⟩ := h
    have he' := spells_ext_inv x' u' n h'
    have e := beq_eq_of_flat u u' (extSpells_flat n _ u he) hb
    rw [← coerceExtension_spells n _ u he, ← coerceExtension_spells n x' u' he', e]
    exact C11.beq_refl _
  | .duration d, t, u, x', u', h, h', hb => by
    rw [spells] at h; obtain ⟨n, rfl, he⟩ := h
    have he' := spells_ext_inv x' u' n h'
    have e := beq_eq_of_flat u u' (extSpells_flat n _ u he) hb
    rw [← coerceExtension_spells n _ u he, ← coerceExtension_spells n x' u' he', e]
    exact C11.beq_refl _
  | .ip a, t, u, x', u', h, h', hb => by
    rw [spells] at h; obtain ⟨n, rfl, he⟩ := h
    have he' := spells_ext_inv x' u' n h'
    have e := beq_eq_of_flat u u' (extSpells_flat n _ u he) hb
    rw [← coerceExtension_spells n _ u he, ← coerceExtension_spells n x' u' he', e]
    exact C11.beq_refl _
  | .set xs, t, u, x', u', h, h', hb => by
    rw [spells] at h
    obtain ⟨te, us, rfl, rfl, hl⟩ := h
    obtain ⟨xs', us', rfl, rfl, hl'⟩ := spells_set_inv x' u' te h'
    rw [C11.beq_set_iff] at hb ⊢
    constructor
    · intro x hx
      obtain ⟨a, hza⟩ := spellsL_left xs te us hl x hx
      obtain ⟨b, hb', hab⟩ := hb.1 a (List.of_mem_zip hza).2
      obtain ⟨x'', hzb⟩ := spellsL_right xs' te us' hl' b hb'
      exact ⟨x'', (List.of_mem_zip hzb).1, spellsL_inj xs te us hl x'' b (spellsL_zip xs' te us' hl' _ hzb) (x, a) hza hab⟩
    · intro x'' hx''
      obtain ⟨b, hzb⟩ := spellsL_left xs' te us' hl' x'' hx''
      obtain ⟨a, ha, hab⟩ := hb.2 b (List.of_mem_zip hzb).2
      obtain ⟨x, hza⟩ := spellsL_right xs te us hl a ha
      exact ⟨x, (List.of_mem_zip hza).1, spellsL_inj xs te us hl x'' b (spellsL_zip xs' te us' hl' _ hzb) (x, a) hza hab⟩
  | .record kvs, t, u, x', u', h, h', hb => by
    rw [spells] at h
    obtain ⟨attrs, ukvs, rfl, rfl, hk⟩ := h
    obtain ⟨kvs', ukvs', rfl, rfl, hk'⟩ := spells_record_inv x' u' attrs h'
    rw [C11.beq_record] at hb ⊢
    exact spellsKV_inj kvs attrs ukvs kvs' ukvs' hk hk' hb
theorem spellsL_inj : ∀ (xs : List Value) (t : STy) (us : List Value), spellsL xs t us → ∀ (x'' b : Value), spells x'' t b →
    ∀ p ∈ List.zip xs us, Value.beq p.2 b = true → Value.beq p.1 x'' = true
  | [], _, _, h, _, _, _, p, hp, _ => by rw [spellsL] at h; subst h; simp at hp
  | x :: xs, t, us, h, x'', b, hs, p, hp, hpb => by
    rw [spellsL] at h
    obtain ⟨u, us', rfl, hx, hr⟩ := h
    simp only [List.zip_cons_cons, List.mem_cons] at hp
    rcases hp with rfl | hp
    · exact spells_inj x t u x'' b hx hs hpb
    · exact spellsL_inj xs t us' hr x'' b hs p hp hpb
theorem spellsKV_inj : ∀ (kvs : List (String × Value)) (attrs : List (String × STy)) (ukvs kvs' ukvs' : List (String × Value)),
    spellsKV kvs attrs ukvs → spellsKV kvs' attrs ukvs' → Value.beqKV ukvs ukvs' = true → Value.beqKV kvs kvs' = true
  | [], attrs, ukvs, kvs', ukvs', h, h', hb => by
    rw [spellsKV] at h; subst h
    cases kvs' with
    | nil => simp [Value.beqKV]
    | cons kv' rest' =>
      obtain ⟨k', x'⟩ := kv'
      rw [spellsKV] at h'
      obtain ⟨u', ur', rfl, _, _⟩ := h'
      simp [Value.beqKV] at hb
  | (k, x) :: kvs, attrs, ukvs, kvs', ukvs', h, h', hb => by
    rw [spellsKV] at h
    obtain ⟨u, ur, rfl, hx, hr⟩ := h
    cases kvs' with
    | nil => rw [spellsKV] at h'; subst h'; simp [Value.beqKV] at hb
    | cons kv' rest' =>
      obtain ⟨k', x'⟩ := kv'
      rw [spellsKV] at h'
      obtain ⟨u', ur', rfl, hx', hr'⟩ := h'
      simp only [Value.beqKV, Bool.and_eq_true, beq_iff_eq] at hb ⊢
      obtain ⟨⟨rfl, hbu⟩, hbr⟩ := hb
      refine ⟨⟨rfl, ?_⟩, spellsKV_inj kvs attrs ur rest' ur' hr hr' hbr⟩
      cases hty : attrTy attrs k with
      | none =>
        rw [hty] at hx hx'
        simp only [] at hx hx'
        rw [← hx, ← hx']; exact hbu
      | some t =>
        rw [hty] at hx hx'
        simp only [] at hx hx'
        exact spells_inj x t u x' u' hx hx' hbu
end

end CedarGo.JsonModel
