/-
  C17, text half — the PARSER half of the schema text round trip, part A: tokens of names, paths, annotations, types.
  `parseX fuel (toksX x ++ rest) = ok (normX x, rest)` for every construct, with the fuel bounded by the number of tokens.
-/
import CedarGoProofs.Lemmas.C17TextDefs
namespace CedarGo.Schema.TextParse
open CedarGo.Schema

/-! ### plumbing -/

@[simp] theorem peekT_cons (t : Tok) (r : List Tok) : peekT (t :: r) = t := rfl
@[simp] theorem advT_cons (t : Tok) (r : List Tok) : advT (t :: r) = r := rfl
@[simp] theorem bindR_ok {α β : Type} (v : α) (ts : List Tok) (k : α → List Tok → PR β) :
    bindR (some (.ok (v, ts))) k = k v ts := rfl
@[simp] theorem bindE_ok {α β : Type} (v : α) (ts : List Tok) (k : α → List Tok → PR β) :
    bindE (.ok (v, ts)) k = k v ts := rfl

theorem expectT_cons (t : Tok) (r : List Tok) : expectT t (t :: r) = .ok ((), r) := by simp [expectT]

theorem optT_cons (t : Tok) (r : List Tok) : optT t (t :: r) = r := by simp [optT]
theorem optT_ne (t : Tok) (r : List Tok) (h : peekT r ≠ t) : optT t r = r := by simp [optT, h]

/-! ### identifiers -/

theorem identTok_valid (w : String) (h : isValidIdent w = true) : identTok w = .ident w := by
  unfold isValidIdent at h
  unfold identTok
  split at h
  · cases h
  · simp only [Bool.and_eq_true, Bool.not_eq_true'] at h
    rw [if_neg (by rw [h.2]; simp)]

theorem valid_ne_cedar (w : String) (h : isValidIdent w = true) : w ≠ "__cedar" := by
  intro e
  subst e
  exact absurd h (by decide +kernel)

theorem pathFirst_identTok (f : String) (h : (f == "__cedar" || isValidIdent f) = true) : pathFirst (identTok f) = some f := by
  simp only [Bool.or_eq_true, beq_iff_eq] at h
  rcases h with rfl | h
  · decide +kernel
  · rw [identTok_valid f h]; rfl

theorem identTok_kind (w : String) : identTok w = .ident w ∨ identTok w = .reserved w := by
  unfold identTok
  split <;> simp

theorem annKey_identTok (w : String) : annKey (identTok w) = some w := by
  rcases identTok_kind w with h | h <;> rw [h] <;> rfl

/-! ### paths -/

theorem parsePathRest_stop (p : String) (r : List Tok) (h : peekT r ≠ .dcolon) : parsePathRest p r = .ok (p, r) := by
  cases r with
  | nil => rfl
  | cons t r =>
    cases t <;> first | rfl | (exact absurd rfl h)

theorem parsePathRest_comps : ∀ (comps : List String) (p : String) (r : List Tok), peekT r ≠ .dcolon →
    parsePathRest p (comps.flatMap (fun c => [Tok.dcolon, .ident c]) ++ r) =
      .ok (comps.foldl (fun p s => p ++ "::" ++ s) p, r)
  | [], p, r, h => by simpa using parsePathRest_stop p r h
  | c :: cs, p, r, h => by
    simp only [List.flatMap_cons, List.cons_append, List.nil_append, List.foldl_cons]
    rw [parsePathRest]
    exact parsePathRest_comps cs _ r h

/-- the components of a name in the fragment -/
theorem isTypePath_comps (n : String) (h : isTypePath n = true) :
    ∃ f rest, pathComps n = f :: rest ∧ (f == "__cedar" || isValidIdent f) = true ∧ rest.all isValidIdent = true ∧
      joinPath (f :: rest) = n := by
  unfold isTypePath at h
  split at h
  · cases h
  · rename_i f rest hc
    simp only [Bool.and_eq_true, beq_iff_eq] at h
    exact ⟨f, rest, hc, h.1.1, h.1.2, h.2⟩

theorem toksPath_eq (n f : String) (rest : List String) (hc : pathComps n = f :: rest) :
    toksPath n = identTok f :: rest.flatMap (fun c => [Tok.dcolon, .ident c]) := by
  unfold toksPath
  rw [hc]

theorem parsePath_toksPath (n : String) (h : isTypePath n = true) (r : List Tok) (hr : peekT r ≠ .dcolon) :
    parsePath (toksPath n ++ r) = .ok (n, r) := by
  obtain ⟨f, rest, hc, hf, _, hj⟩ := isTypePath_comps n h
  rw [toksPath_eq n f rest hc]
  unfold parsePath
  simp only [List.cons_append, peekT_cons, advT_cons, pathFirst_identTok f hf]
  rw [parsePathRest_comps rest f r hr]
  rw [← hj]
  rfl

theorem toksPath_length_pos (n : String) (h : isTypePath n = true) : 1 ≤ (toksPath n).length := by
  obtain ⟨f, rest, hc, _, _, _⟩ := isTypePath_comps n h
  rw [toksPath_eq n f rest hc]
  simp

/-- the first token of a path is an identifier or `__cedar` -/
theorem toksPath_head (n : String) (h : isTypePath n = true) :
    ∃ f tl, toksPath n = identTok f :: tl ∧ (f == "__cedar" || isValidIdent f) = true ∧
      (tl = [] ∨ ∃ tl', tl = .dcolon :: tl') := by
  obtain ⟨f, rest, hc, hf, _, _⟩ := isTypePath_comps n h
  refine ⟨f, _, toksPath_eq n f rest hc, hf, ?_⟩
  cases rest with
  | nil => left; rfl
  | cons c cs => right; exact ⟨_, rfl⟩

/-! ### names -/

theorem parseName_toksName (n : String) (r : List Tok) : parseName (toksName n ++ r) = .ok (n, r) := by
  unfold toksName
  by_cases h : isValidIdent n = true
  · rw [if_pos h]; rfl
  · rw [if_neg h]; rfl

theorem toksName_head (n : String) : ∃ t, toksName n = [t] ∧ (t = .ident n ∨ t = .str n) := by
  unfold toksName
  split
  · exact ⟨_, rfl, Or.inl rfl⟩
  · exact ⟨_, rfl, Or.inr rfl⟩

/-! ### annotations -/

theorem peek_flatMap_toksAnn (l : Anns) (r : List Tok) (t : Tok) (ht : t ≠ .at) (hr : peekT r ≠ t) :
    peekT (l.flatMap toksAnn ++ r) ≠ t := by
  cases l with
  | nil => simpa using hr
  | cons kv l =>
    simp only [List.flatMap_cons, toksAnn]
    split <;> simp [Ne.symm ht]

theorem annValue_stop (r : List Tok) (h : peekT r ≠ .lparen) : annValue r = .ok ("", r) := by
  simp [annValue, h]

theorem parseAnnsF_list : ∀ (l : Anns) (n : Nat) (acc : Anns) (r : List Tok),
    l.length + 1 ≤ n → ((acc ++ l).map (·.1)).Nodup → peekT r ≠ .at → peekT r ≠ .lparen →
    parseAnnsF n acc (l.flatMap toksAnn ++ r) = some (.ok (acc ++ l, r))
  | [], n, acc, r, hn, _, h1, _ => by
    obtain ⟨m, rfl⟩ : ∃ m, n = m + 1 := ⟨n - 1, by simp at hn; omega⟩
    simp [parseAnnsF, h1]
  | kv :: l, n, acc, r, hn, hnd, h1, h2 => by
    obtain ⟨m, rfl⟩ : ∃ m, n = m + 1 := ⟨n - 1, by simp at hn; omega⟩
    have hfresh : acc.any (fun x => decide (x.1 = kv.1)) = false := by
      rw [List.any_eq_false]
      intro x hx
      simp only [decide_eq_true_eq]
      intro e
      simp only [List.map_append, List.map_cons] at hnd
      have := (List.nodup_append.mp hnd).2.2 x.1 (List.mem_map.mpr ⟨x, hx, rfl⟩) kv.1 (by simp)
      exact this e
    have hnd' : (((acc ++ [kv]) ++ l).map (·.1)).Nodup := by simpa using hnd
    have ih := parseAnnsF_list l m (acc ++ [kv]) r (by simp at hn ⊢; omega) hnd' h1 h2
    have hpeek := peek_flatMap_toksAnn l r .lparen (by decide) h2
    simp only [List.flatMap_cons, toksAnn]
    by_cases hv : kv.2 = ""
    · rw [if_pos hv]
      simp only [List.cons_append, List.nil_append]
      rw [parseAnnsF]
      simp only [peekT_cons, advT_cons, ne_eq, not_true_eq_false, if_false, annKey_identTok, annValue_stop _ hpeek,
        bindE_ok, hfresh, Bool.false_eq_true]
      have : (kv.1, "") = kv := by rw [← hv]
      rw [this, ih]
      simp
    · rw [if_neg hv]
      simp only [List.cons_append, List.nil_append]
      rw [parseAnnsF]
      simp only [peekT_cons, advT_cons, ne_eq, not_true_eq_false, if_false, annKey_identTok, annValue, expectT, if_true,
        bindE_ok, hfresh, Bool.false_eq_true]
      rw [ih]
      simp

/-- `parseAnnotations` on the tokens of an annotation map returns it in key order -/
theorem parseAnnsF_toksAnns (a : Anns) (n : Nat) (r : List Tok) (hn : (sortedKV a).length + 1 ≤ n)
    (hnd : ((sortedKV a).map (·.1)).Nodup) (h1 : peekT r ≠ .at) (h2 : peekT r ≠ .lparen) :
    parseAnnsF n [] (toksAnns a ++ r) = some (.ok (sortedKV a, r)) := by
  have := parseAnnsF_list (sortedKV a) n [] r hn (by simpa using hnd) h1 h2
  simpa [toksAnns] using this

/-! ### key lists -/

theorem nodupKeys_iff : ∀ (l : List String), nodupKeys l = true ↔ l.Nodup
  | [] => by simp [nodupKeys]
  | x :: xs => by simp [nodupKeys, nodupKeys_iff xs]

theorem insertKV_perm {α} (x : String × α) : ∀ (l : List (String × α)), (insertKV x l).Perm (x :: l)
  | [] => List.Perm.refl _
  | y :: ys => by
    unfold insertKV
    split
    · exact List.Perm.refl _
    · exact ((insertKV_perm x ys).cons y).trans (List.Perm.swap x y ys)

theorem sortedKV_perm {α} : ∀ (l : List (String × α)), (sortedKV l).Perm l
  | [] => List.Perm.refl _
  | x :: xs => by
    show (insertKV x (sortedKV xs)).Perm (x :: xs)
    exact (insertKV_perm x _).trans ((sortedKV_perm xs).cons x)

theorem mem_sortedKV {α} (l : List (String × α)) (x : String × α) : x ∈ sortedKV l ↔ x ∈ l :=
  (sortedKV_perm l).mem_iff

theorem sortedKV_keys_nodup {α} (l : List (String × α)) (h : nodupKeys (l.map (·.1)) = true) :
    ((sortedKV l).map (·.1)).Nodup :=
  (((sortedKV_perm l).map (·.1)).nodup_iff).mpr ((nodupKeys_iff _).mp h)

theorem sortedKV_length {α} (l : List (String × α)) : (sortedKV l).length = l.length := (sortedKV_perm l).length_eq

theorem all_sortedKV {α} (l : List (String × α)) (p : String × α → Bool) (h : l.all p = true) : (sortedKV l).all p = true := by
  rw [List.all_eq_true] at h ⊢
  intro x hx
  exact h x ((mem_sortedKV l x).mp hx)

end CedarGo.Schema.TextParse
