/-
  C17, text half — the PARSER half, part D: the four kinds of declarations.
  `parseDeclF n anns d (body ++ R) = ok (d + the declaration, R)`.
-/
import CedarGoProofs.Lemmas.C17TextParseC
namespace CedarGo.Schema.TextParse
open CedarGo.Schema

/-! ### bodies (the tokens of a declaration after its annotations) -/

def inPartE (ps : List String) : List Tok := if ps.isEmpty then [] else [.reserved "in"] ++ toksTypeRefs ps
def shapePart (sh : List String) (shape : Option Attrs) : List Tok :=
  match shape with | some as => toksTy sh (.record as) | none => []
def tagsPart (sh : List String) (tags : Option Ty) : List Tok :=
  match tags with | some t => [.ident "tags"] ++ toksTy sh t | none => []

def bodyCommon (sh : List String) (c : String × CommonType) : List Tok :=
  .ident "type" :: .ident c.1 :: .equals :: (toksTy sh c.2.ty ++ [.semi])
def bodyEntity (sh : List String) (e : String × Entity) : List Tok :=
  .ident "entity" :: .ident e.1 :: (inPartE e.2.parents ++ (shapePart sh e.2.shape ++ (tagsPart sh e.2.tags ++ [.semi])))
def bodyEnum (e : String × Enum) : List Tok :=
  .ident "entity" :: .ident e.1 :: .ident "enum" :: .lbrack :: (commaSep (e.2.values.map fun v => [.str v]) ++ [.rbrack, .semi])
def inPartA (ps : List (String × String)) : List Tok := if ps.isEmpty then [] else [.reserved "in"] ++ toksParentRefs ps
def appliesPart (sh : List String) (ap : Option AppliesTo) : List Tok :=
  match ap with | some ap => toksAppliesTo sh ap | none => []
def bodyAction (sh : List String) (a : String × Action) : List Tok :=
  .ident "action" :: (toksName a.1 ++ (inPartA a.2.parents ++ (appliesPart sh a.2.appliesTo ++ [.semi])))

theorem toksCommon_eq (sh : List String) (c : String × CommonType) : toksCommon sh c = toksAnns c.2.anns ++ bodyCommon sh c := by
  simp [toksCommon, bodyCommon, List.append_assoc]
theorem toksEntity_eq (sh : List String) (e : String × Entity) : toksEntity sh e = toksAnns e.2.anns ++ bodyEntity sh e := by
  obtain ⟨nm, an, ps, shp, tg⟩ := e
  cases shp <;> cases tg <;> simp [toksEntity, bodyEntity, inPartE, shapePart, tagsPart, List.append_assoc]
theorem toksEnum_eq (e : String × Enum) : toksEnum e = toksAnns e.2.anns ++ bodyEnum e := by
  simp [toksEnum, bodyEnum, List.append_assoc]
theorem toksAction_eq (sh : List String) (a : String × Action) : toksAction sh a = toksAnns a.2.anns ++ bodyAction sh a := by
  obtain ⟨nm, an, ps, ap⟩ := a
  cases ap <;> simp [toksAction, bodyAction, inPartA, appliesPart, List.append_assoc]

/-! ### common types -/

theorem parseDeclF_common (sh : List String) (c : String × CommonType) (hok : commonOk sh c = true) (n : Nat) (A : Anns)
    (d : Namespace) (R : List Tok) (hn : (bodyCommon sh c).length ≤ n)
    (hfresh : d.commonTypes.any (fun x => decide (x.1 = c.1)) = false) :
    parseDeclF n A d (bodyCommon sh c ++ R) =
      some (.ok ({ d with commonTypes := d.commonTypes ++ [(c.1, { anns := A, ty := normTy sh c.2.ty })] }, R)) := by
  unfold commonOk at hok
  simp only [Bool.and_eq_true, Bool.not_eq_true'] at hok
  obtain ⟨⟨⟨_, hres⟩, _⟩, hty⟩ := hok
  unfold bodyCommon at hn ⊢
  simp only [List.length_cons, List.length_append, List.length_nil] at hn
  unfold parseDeclF
  have h1 : (Tok.ident "type" = Tok.ident "entity") = False := by simp
  have h2 : (Tok.ident "type" = Tok.ident "action") = False := by simp
  simp only [List.cons_append, peekT_cons, advT_cons, h1, h2, if_false, if_true]
  unfold parseTypeDeclF
  simp only [peekT_cons, advT_cons, hres, Bool.false_eq_true, if_false, expectT, if_true, bindE_ok, List.append_assoc,
    List.cons_append, List.nil_append]
  rw [parseTypeF_toksTy sh c.2.ty n (.semi :: R) hty (by omega) (by simp) (by simp)]
  simp [hfresh]

/-! ### entity types -/

theorem identsMore_stop (acc : List String) (r : List Tok) (h : peekT r ≠ .comma) : identsMore acc r = .ok (acc, r) := by
  cases r with
  | nil => rfl
  | cons t r =>
    cases t <;> first | rfl | (exact absurd rfl h)

theorem parseEntityIn_toks (ps : List String) (hok : ps.all isTypePath = true) (n : Nat) (X : List Tok)
    (hn : (inPartE ps).length ≤ n + 1) (h1 : peekT X ≠ .reserved "in") (h2 : peekT X ≠ .dcolon) :
    parseEntityIn n (inPartE ps ++ X) = some (.ok (ps, X)) := by
  unfold inPartE at hn ⊢
  unfold parseEntityIn
  by_cases he : ps.isEmpty = true
  · have : ps = [] := by simpa using he
    subst this
    simp [h1]
  · simp only [he, Bool.false_eq_true, if_false, List.cons_append, List.nil_append, peekT_cons, advT_cons, if_true,
      List.length_cons] at hn ⊢
    exact parseEntityTypesF_toks ps hok n X (by omega) h2

theorem parseEntityShape_toks (sh : List String) (shape : Option Attrs)
    (hok : (match shape with | some as => tyOk sh (.record as) | none => true) = true) (n : Nat) (X : List Tok)
    (hn : (shapePart sh shape).length ≤ n + 1) (h1 : peekT X ≠ .equals) (h2 : peekT X ≠ .lbrace) :
    parseEntityShape n (shapePart sh shape ++ X) = some (.ok (shape.map (normAttrs sh), X)) := by
  unfold shapePart at hn ⊢
  unfold parseEntityShape
  cases shape with
  | none => simp [h1, h2]
  | some as =>
    simp only [tyOk, Bool.and_eq_true] at hok
    simp only [toksTy, List.cons_append, List.nil_append, List.append_assoc, peekT_cons, reduceCtorEq, if_false, if_true,
      List.length_cons, List.length_append, List.length_nil] at hn ⊢
    unfold parseRecordF
    simp only [expectT, peekT_cons, advT_cons, if_true, bindE_ok]
    rw [recLoopF_toksAttrs sh as n [] X hok.1 (by simpa using (nodupKeys_iff _).mp hok.2) (by omega)]
    simp [ofList_toList]

theorem parseEntityTags_toks (sh : List String) (tags : Option Ty)
    (hok : (match tags with | some t => tyOk sh t | none => true) = true) (n : Nat) (X : List Tok)
    (hn : (tagsPart sh tags).length ≤ n + 1) (h1 : peekT X ≠ .ident "tags") (h2 : peekT X ≠ .dcolon) (h3 : peekT X ≠ .langle) :
    parseEntityTags n (tagsPart sh tags ++ X) = some (.ok (tags.map (normTy sh), X)) := by
  unfold tagsPart at hn ⊢
  unfold parseEntityTags
  cases tags with
  | none => simp [h1]
  | some t =>
    simp only [List.cons_append, List.nil_append, peekT_cons, advT_cons, if_true, List.length_cons] at hn ⊢
    rw [parseTypeF_toksTy sh t n X hok (by omega) h2 h3]
    rfl

theorem peek_inPartE (ps : List String) (X : List Tok) (t : Tok) (ht : t ≠ .reserved "in") (hX : peekT X ≠ t) :
    peekT (inPartE ps ++ X) ≠ t := by
  unfold inPartE
  split
  · simpa using hX
  · simpa using ht.symm

theorem peek_shapePart (sh : List String) (shape : Option Attrs) (X : List Tok) (t : Tok) (ht : t ≠ .lbrace) (hX : peekT X ≠ t) :
    peekT (shapePart sh shape ++ X) ≠ t := by
  unfold shapePart
  cases shape with
  | none => simpa using hX
  | some as => simpa [toksTy] using ht.symm

theorem peek_tagsPart (sh : List String) (tags : Option Ty) (X : List Tok) (t : Tok) (ht : t ≠ .ident "tags") (hX : peekT X ≠ t) :
    peekT (tagsPart sh tags ++ X) ≠ t := by
  unfold tagsPart
  cases tags with
  | none => simpa using hX
  | some t' => simpa using ht.symm

theorem parseDeclF_entity (sh : List String) (e : String × Entity) (hok : entityOk sh e = true) (n : Nat) (A : Anns)
    (d : Namespace) (R : List Tok) (hn : (bodyEntity sh e).length ≤ n)
    (hfresh : d.entities.any (fun x => decide (x.1 = e.1)) = false ∧ d.enums.any (fun x => decide (x.1 = e.1)) = false) :
    parseDeclF n A d (bodyEntity sh e ++ R) =
      some (.ok ({ d with entities := d.entities ++ [(e.1, (⟨A, e.2.parents, e.2.shape.map (normAttrs sh), e.2.tags.map (normTy sh)⟩ : Entity))] }, R)) := by
  unfold entityOk at hok
  simp only [Bool.and_eq_true] at hok
  obtain ⟨⟨⟨⟨_, _⟩, hps⟩, hshape⟩, htags⟩ := hok
  unfold bodyEntity at hn ⊢
  simp only [List.length_cons, List.length_append, List.length_nil] at hn
  unfold parseDeclF
  simp only [List.cons_append, peekT_cons, advT_cons, if_true]
  unfold parseEntityF parseIdents
  simp only [peekT_cons, advT_cons]
  -- the token after the name is `in`, `{`, `tags` or `;`
  have hk : ∀ t : Tok, t ≠ .reserved "in" → t ≠ .lbrace → t ≠ .ident "tags" → t ≠ .semi →
      peekT (inPartE e.2.parents ++ (shapePart sh e.2.shape ++ (tagsPart sh e.2.tags ++ [.semi])) ++ R) ≠ t := by
    intro t a b c dd
    rw [List.append_assoc]
    apply peek_inPartE _ _ _ a
    rw [List.append_assoc]
    apply peek_shapePart _ _ _ _ b
    rw [List.append_assoc]
    apply peek_tagsPart _ _ _ _ c
    simpa using dd.symm
  rw [identsMore_stop _ _ (hk .comma (by simp) (by simp) (by simp) (by simp))]
  simp only [bindE_ok]
  rw [if_neg (hk (.ident "enum") (by simp) (by simp) (by simp) (by simp))]
  have hk2 : ∀ t : Tok, t ≠ .lbrace → t ≠ .ident "tags" → t ≠ .semi →
      peekT (shapePart sh e.2.shape ++ (tagsPart sh e.2.tags ++ [.semi]) ++ R) ≠ t := by
    intro t b c dd
    rw [List.append_assoc]
    apply peek_shapePart _ _ _ _ b
    rw [List.append_assoc]
    apply peek_tagsPart _ _ _ _ c
    simpa using dd.symm
  have hk3 : ∀ t : Tok, t ≠ .ident "tags" → t ≠ .semi → peekT (tagsPart sh e.2.tags ++ [.semi] ++ R) ≠ t := by
    intro t c dd
    rw [List.append_assoc]
    apply peek_tagsPart _ _ _ _ c
    simpa using dd.symm
  rw [List.append_assoc, parseEntityIn_toks e.2.parents hps n _ (by omega) (hk2 _ (by simp) (by simp) (by simp))
    (hk2 _ (by simp) (by simp) (by simp))]
  simp only [bindR_ok]
  rw [List.append_assoc, parseEntityShape_toks sh e.2.shape hshape n _ (by omega) (hk3 _ (by simp) (by simp))
    (hk3 _ (by simp) (by simp))]
  simp only [bindR_ok]
  rw [List.append_assoc, parseEntityTags_toks sh e.2.tags htags n _ (by omega) (by simp) (by simp) (by simp)]
  simp only [bindR_ok, List.cons_append, List.nil_append, expectT, peekT_cons, advT_cons, if_true, bindE_ok]
  simp [addEntities, List.foldlM, hfresh.1, hfresh.2, liftNs, bind, Except.bind, pure, Except.pure]

/-! ### enum entity types -/

theorem enumLoop_toks : ∀ (vs acc : List String) (X : List Tok),
    enumLoop acc (commaSep (vs.map fun v => [Tok.str v]) ++ .rbrack :: X) = .ok (acc ++ vs, X)
  | [], acc, X => by simp [commaSep, enumLoop]
  | [v], acc, X => by simp [commaSep, enumLoop]
  | v :: w :: vs, acc, X => by
    have ih := enumLoop_toks (w :: vs) (acc ++ [v]) X
    simp only [List.map_cons, commaSep, List.cons_append, List.nil_append, List.append_assoc] at ih ⊢
    rw [enumLoop, ih]

theorem parseDeclF_enum (e : String × Enum) (hok : enumOk e = true) (n : Nat) (A : Anns)
    (d : Namespace) (R : List Tok)
    (hfresh : d.entities.any (fun x => decide (x.1 = e.1)) = false ∧ d.enums.any (fun x => decide (x.1 = e.1)) = false) :
    parseDeclF n A d (bodyEnum e ++ R) =
      some (.ok ({ d with enums := d.enums ++ [(e.1, { anns := A, values := e.2.values })] }, R)) := by
  unfold enumOk at hok
  simp only [Bool.and_eq_true, Bool.not_eq_true'] at hok
  unfold bodyEnum
  unfold parseDeclF
  simp only [List.cons_append, peekT_cons, advT_cons, if_true]
  unfold parseEntityF parseIdents
  simp only [peekT_cons, advT_cons]
  rw [identsMore_stop _ _ (by simp)]
  simp only [bindE_ok, peekT_cons, advT_cons, if_true]
  unfold parseEnumRest
  simp only [expectT, peekT_cons, advT_cons, if_true, bindE_ok, List.append_assoc, List.cons_append, List.nil_append]
  rw [enumLoop_toks e.2.values [] (.semi :: R)]
  have hne : e.2.values ≠ [] := by
    intro h
    simp [h] at hok
  simp [hne, addEnums, List.foldlM, hfresh.1, hfresh.2, liftNs, bind, Except.bind, pure, Except.pure]

/-! ### actions -/

theorem namesMore_stop (acc : List String) (r : List Tok) (h : peekT r ≠ .comma) : namesMore acc r = .ok (acc, r) := by
  cases r with
  | nil => rfl
  | cons t r =>
    cases t <;> first | rfl | (exact absurd rfl h)

theorem parseActionIn_toks (ps : List (String × String)) (hok : ps.all parentOk = true) (n : Nat) (X : List Tok)
    (hn : (inPartA ps).length ≤ n + 1) (h1 : peekT X ≠ .reserved "in") (h2 : peekT X ≠ .dcolon) :
    parseActionIn n (inPartA ps ++ X) = some (.ok (ps, X)) := by
  unfold inPartA at hn ⊢
  unfold parseActionIn
  by_cases he : ps.isEmpty = true
  · have : ps = [] := by simpa using he
    subst this
    simp [h1]
  · simp only [he, Bool.false_eq_true, if_false, List.cons_append, List.nil_append, peekT_cons, advT_cons, if_true,
      List.length_cons] at hn ⊢
    exact parseActionParentsF_toks ps hok n X (by omega) h2

theorem parseActionApplies_part (sh : List String) (ap : Option AppliesTo)
    (hok : (match ap with | some ap => appliesOk sh ap | none => true) = true) (n : Nat) (X : List Tok)
    (hn : (appliesPart sh ap).length ≤ n) (h1 : peekT X ≠ .ident "appliesTo") :
    parseActionApplies n (appliesPart sh ap ++ X) = some (.ok (ap.map (normAppliesTo sh), X)) := by
  unfold appliesPart at hn ⊢
  cases ap with
  | none => simp [parseActionApplies, h1]
  | some ap => exact parseActionApplies_toks sh ap hok n X hn

theorem peek_inPartA (ps : List (String × String)) (X : List Tok) (t : Tok) (ht : t ≠ .reserved "in") (hX : peekT X ≠ t) :
    peekT (inPartA ps ++ X) ≠ t := by
  unfold inPartA
  split
  · simpa using hX
  · simpa using ht.symm

theorem peek_appliesPart (sh : List String) (ap : Option AppliesTo) (X : List Tok) (t : Tok) (ht : t ≠ .ident "appliesTo")
    (hX : peekT X ≠ t) : peekT (appliesPart sh ap ++ X) ≠ t := by
  unfold appliesPart
  cases ap with
  | none => simpa using hX
  | some ap => simpa [toksAppliesTo] using ht.symm

theorem actionOk_parts (sh : List String) (a : String × Action) (hok : actionOk sh a = true) :
    a.2.parents.all parentOk = true ∧ (match a.2.appliesTo with | some ap => appliesOk sh ap | none => true) = true := by
  unfold actionOk at hok
  simp only [Bool.and_eq_true] at hok
  refine ⟨hok.1.2, ?_⟩
  cases h : a.2.appliesTo with
  | none => rfl
  | some ap =>
    have := hok.2
    rw [h] at this
    unfold appliesOk
    exact this

theorem parseDeclF_action (sh : List String) (a : String × Action) (hok : actionOk sh a = true) (n : Nat) (A : Anns)
    (d : Namespace) (R : List Tok) (hn : (bodyAction sh a).length ≤ n)
    (hfresh : d.actions.any (fun x => decide (x.1 = a.1)) = false) :
    parseDeclF n A d (bodyAction sh a ++ R) =
      some (.ok ({ d with actions := d.actions ++ [(a.1, (⟨A, a.2.parents, a.2.appliesTo.map (normAppliesTo sh)⟩ : Action))] }, R)) := by
  obtain ⟨hps, hap⟩ := actionOk_parts sh a hok
  unfold bodyAction at hn ⊢
  simp only [List.length_cons, List.length_append, List.length_nil] at hn
  unfold parseDeclF
  have h1 : (Tok.ident "action" = Tok.ident "entity") = False := by simp
  simp only [List.cons_append, peekT_cons, advT_cons, h1, if_false, if_true]
  unfold parseActionF parseNames
  rw [List.append_assoc, parseName_toksName]
  have hk : ∀ t : Tok, t ≠ .reserved "in" → t ≠ .ident "appliesTo" → t ≠ .semi →
      peekT (inPartA a.2.parents ++ (appliesPart sh a.2.appliesTo ++ [.semi]) ++ R) ≠ t := by
    intro t x y z
    rw [List.append_assoc]
    apply peek_inPartA _ _ _ x
    rw [List.append_assoc]
    apply peek_appliesPart _ _ _ _ y
    simpa using z.symm
  have hk2 : ∀ t : Tok, t ≠ .ident "appliesTo" → t ≠ .semi → peekT (appliesPart sh a.2.appliesTo ++ [.semi] ++ R) ≠ t := by
    intro t y z
    rw [List.append_assoc]
    apply peek_appliesPart _ _ _ _ y
    simpa using z.symm
  simp only []
  rw [namesMore_stop _ _ (hk _ (by simp) (by simp) (by simp))]
  simp only [bindE_ok]
  rw [List.append_assoc, parseActionIn_toks a.2.parents hps n _ (by omega) (hk2 _ (by simp) (by simp)) (hk2 _ (by simp) (by simp))]
  simp only [bindR_ok]
  rw [List.append_assoc, parseActionApplies_part sh a.2.appliesTo hap n _ (by omega) (by simp)]
  simp only [bindR_ok, List.cons_append, List.nil_append]
  simp [parseActionAttributes, expectT, addActions, List.foldlM, hfresh, liftNs, bind, Except.bind, pure, Except.pure]

end CedarGo.Schema.TextParse
