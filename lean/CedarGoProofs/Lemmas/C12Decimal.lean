/-
  C12 helper lemmas: decimal and long text forms.
-/
import CedarGoProofs.Lemmas.C12Digits
namespace CedarGo.Scalars
open CedarGo

theorem splitAtChar_append (c : Char) (pre post : List Char) (h : ∀ x ∈ pre, x ≠ c) :
    splitAtChar c (pre ++ c :: post) = some (pre, post) := by
  induction pre with
  | nil => simp [splitAtChar]
  | cons x xs ih =>
    have hx : x ≠ c := h x (by simp)
    have := ih (fun y hy => h y (by simp [hy]))
    simp [splitAtChar, hx, this]

theorem allDigits_cons {ds : List Char} (h : allDigits ds = true) :
    ∃ c r, ds = c :: r ∧ isDig c = true ∧ r.all isDig = true := by
  cases ds with
  | nil => simp [allDigits] at h
  | cons c r => simp [allDigits] at h; exact ⟨c, r, rfl, h.1, by simpa using h.2⟩

theorem allDigits_all {ds : List Char} (h : allDigits ds = true) : ∀ x ∈ ds, isDig x = true := by
  cases ds with
  | nil => simp [allDigits] at h
  | cons c r => simp [allDigits] at h; intro x hx; simp at hx; rcases hx with rfl | hx; exact h.1; exact h.2 x hx

theorem signSplit_digit {c : Char} (r : List Char) (hc : isDig c = true) : signSplit (c :: r) = (false, c :: r) := by
  have hne := isDig_ne hc
  unfold signSplit
  split <;> simp_all

/-- `strconv.ParseInt` on an unsigned digit string -/
theorem parseInt64_digits (ds : List Char) (h : allDigits ds = true) (hv : (digitsVal ds : Int) ≤ maxI64) :
    parseInt64 ds = some (digitsVal ds : Int) := by
  obtain ⟨c, r, rfl, hc, _⟩ := allDigits_cons h
  have : minI64 ≤ (digitsVal (c :: r) : Int) := by unfold minI64; omega
  simp [parseInt64, signSplit_digit r hc, h, this, hv]

/-- `strconv.ParseInt` on `-` followed by digits -/
theorem parseInt64_neg_digits (ds : List Char) (h : allDigits ds = true)
    (hv : (digitsVal ds : Int) ≤ 9223372036854775808) :
    parseInt64 ('-' :: ds) = some (-(digitsVal ds : Int)) := by
  have h1 : minI64 ≤ -(digitsVal ds : Int) := by unfold minI64; omega
  have h2 : -(digitsVal ds : Int) ≤ maxI64 := by unfold maxI64; omega
  simp [parseInt64, signSplit, h, h1, h2]


/-! ### `Long` -/

theorem parseInt64_printLongL (n : Int) (h : InI64 n) : parseInt64 (printLongL n) = some n := by
  unfold InI64 minI64 maxI64 at h
  unfold printLongL
  split
  · rw [parseInt64_neg_digits _ (allDigits_natDigits _) (by rw [digitsVal_natDigits]; omega), digitsVal_natDigits]
    congr 1; omega
  · rw [parseInt64_digits _ (allDigits_natDigits _) (by rw [digitsVal_natDigits]; unfold maxI64; omega), digitsVal_natDigits]
    congr 1; omega

/-! ### trailing-zero trimming of `Decimal.String` -/

def trim4 (a b c d : Char) : List Char :=
  if d ≠ '0' then [a, b, c, d] else if c ≠ '0' then [a, b, c] else if b ≠ '0' then [a, b] else [a]

theorem trimGo_ne (n : Nat) (x : Char) (r : List Char) (h : x ≠ '0') : trimZeros3.go n (x :: r) = x :: r := by
  cases n with
  | zero => rfl
  | succ n => unfold trimZeros3.go; split <;> simp_all

theorem trimZeros3_append4 (pre : List Char) (a b c d : Char) :
    trimZeros3 (pre ++ [a, b, c, d]) = pre ++ trim4 a b c d := by
  have hr : (pre ++ [a, b, c, d]).reverse = d :: c :: b :: a :: pre.reverse := by simp
  unfold trimZeros3 trim4
  simp only [hr]
  by_cases hd : d = '0'
  · subst hd
    by_cases hc : c = '0'
    · subst hc
      by_cases hb : b = '0'
      · subst hb; simp [trimZeros3.go]
      · simp [trimZeros3.go, hb]
    · simp [trimZeros3.go, hc]
  · simp [trimGo_ne 3 d _ hd, hd]

theorem digitsVal_lt : ∀ (ds : List Char), ds.all isDig = true → digitsVal ds < 10 ^ ds.length := by
  have key : ∀ (ds : List Char) (acc : Nat), ds.all isDig = true →
      List.foldl (fun acc c => acc * 10 + digVal c) acc ds + 1 ≤ (acc + 1) * 10 ^ ds.length := by
    intro ds
    induction ds with
    | nil => intro acc _; simp
    | cons c r ih =>
      intro acc h
      simp only [List.all_cons, Bool.and_eq_true] at h
      have hv : digVal c ≤ 9 := by
        have := h.1; simp only [isDig, Bool.and_eq_true, decide_eq_true_eq] at this
        have h2 : c.toNat ≤ 57 := this.2
        unfold digVal; simp; omega
      have := ih (acc * 10 + digVal c) h.2
      simp only [List.foldl_cons, List.length_cons, Nat.pow_succ]
      calc _ ≤ (acc * 10 + digVal c + 1) * 10 ^ r.length := this
        _ ≤ ((acc + 1) * 10) * 10 ^ r.length := Nat.mul_le_mul_right _ (by omega)
        _ = (acc + 1) * (10 ^ r.length * 10) := by rw [Nat.mul_assoc, Nat.mul_comm 10]
  intro ds h
  have := key ds 0 h
  simp [digitsVal] at *
  omega


/-! ### `ParseDecimal` on canonical input -/

theorem parseUintMax_of (F : List Char) (max : Nat) (hF : allDigits F = true) (hv : digitsVal F ≤ max) :
    parseUintMax F max = some (digitsVal F) := by
  simp [parseUintMax, hF, hv]

theorem digitsVal_le_9999 (F : List Char) (hF : allDigits F = true) (hl : F.length ≤ 4) : digitsVal F ≤ 9999 := by
  have h1 := digitsVal_lt F (by
    obtain ⟨c, r, rfl, hc, hr⟩ := allDigits_cons hF
    simp [hc, hr])
  have h2 : 10 ^ F.length ≤ 10 ^ 4 := Nat.pow_le_pow_right (by omega) hl
  omega

/-- `ParseDecimal` on `-?I.F` with `I`, `F` digit strings, `|F| ≤ 4`: exactly `newDecimal (±I) (±F·10^(4-|F|))` -/
theorem parseDecimalL_canon (neg : Bool) (I F : List Char) (hI : allDigits I = true) (hF : allDigits F = true)
    (hIv : (digitsVal I : Int) ≤ maxI64) (hFl : F.length ≤ 4) :
    parseDecimalL ((if neg then ['-'] else []) ++ (I ++ '.' :: F)) =
      newDecimal (if neg then -(digitsVal I : Int) else digitsVal I)
        (if neg then -((digitsVal F * 10 ^ (4 - F.length) : Nat) : Int)
         else ((digitsVal F * 10 ^ (4 - F.length) : Nat) : Int)) := by
  have hnd : ∀ x ∈ I, x ≠ '.' := fun x hx => (isDig_ne (allDigits_all hI x hx)).1
  have hF' := parseUintMax_of F 65535 hF (by have := digitsVal_le_9999 F hF hFl; omega)
  have hlen : ¬ (F.length > 4) := by omega
  cases neg with
  | false =>
    obtain ⟨c, r, rfl, hc, hr⟩ := allDigits_cons hI
    have hc' : c ≠ '-' := (isDig_ne hc).2.1
    have hc'' : c ≠ '+' := (isDig_ne hc).2.2.1
    have hs := splitAtChar_append '.' (c :: r) F hnd
    simp only [Bool.false_eq_true, if_false, List.nil_append]
    unfold parseDecimalL
    rw [hs]
    have hplus : (((c :: r) ++ '.' :: F).head? == some '+') = false := by simp [hc'']
    simp only [hplus, Bool.false_eq_true, parseInt64_digits _ hI hIv, hF', hlen, if_false]
    simp [hc']
  | true =>
    have hs := splitAtChar_append '.' ('-' :: I) F (by
      intro x hx; simp at hx; rcases hx with rfl | hx
      · decide
      · exact hnd x hx)
    simp only [if_true, List.singleton_append]
    unfold parseDecimalL
    rw [show '-' :: (I ++ '.' :: F) = ('-' :: I) ++ '.' :: F from rfl, hs]
    have hplus : ((('-' :: I) ++ '.' :: F).head? == some '+') = false := by simp
    simp only [hplus, Bool.false_eq_true, parseInt64_neg_digits _ hI (by unfold maxI64 at hIv; omega), hF', hlen, if_false]
    simp


/-! ### `newDecimal` is exact -/

theorem newDecimal_ok {i tt d : Int} (ht : -9999 ≤ tt ∧ tt ≤ 9999) (h : newDecimal i tt = .ok d) :
    d = i * 10000 + tt ∧ InI64 d := by
  unfold newDecimal at h
  split at h
  · cases h
  · split at h
    · cases h
    · rename_i h1 h2
      simp at h1 h2
      injection h with h; subst h
      refine ⟨rfl, ?_⟩
      unfold InI64 minI64 maxI64
      omega

/-- on sign-consistent arguments (what every caller passes) the range test is exactly `InI64` -/
theorem newDecimal_exact (i tt : Int) (ht : -9999 ≤ tt ∧ tt ≤ 9999) (hs : (0 ≤ i ∧ 0 ≤ tt) ∨ (i ≤ 0 ∧ tt ≤ 0)) :
    newDecimal i tt = if InI64 (i * 10000 + tt) then .ok (i * 10000 + tt) else .error .extDecimal := by
  by_cases hin : InI64 (i * 10000 + tt)
  · have : newDecimal i tt = .ok (i * 10000 + tt) := by
      unfold InI64 minI64 maxI64 at hin
      unfold newDecimal
      rw [if_neg (by simp <;> omega), if_neg (by simp <;> omega)]
    rw [this, if_pos hin]
  · have : newDecimal i tt = .error .extDecimal := by
      unfold InI64 minI64 maxI64 at hin
      unfold newDecimal
      by_cases h1 : i > 922337203685477 ∨ (i = 922337203685477 ∧ tt > 5807)
      · rw [if_pos (by simp <;> omega)]
      · rw [if_neg (by simp <;> omega), if_pos (by simp <;> omega)]
    rw [this, if_neg hin]

/-! ### whatever `ParseDecimal` accepts is in range -/

theorem parseUintMax_some {F : List Char} {max f : Nat} (h : parseUintMax F max = some f) :
    allDigits F = true ∧ f = digitsVal F ∧ f ≤ max := by
  unfold parseUintMax at h
  by_cases hd : allDigits F = true
  · simp only [hd, if_true] at h
    by_cases hv : digitsVal F ≤ max
    · simp only [hv, if_true] at h; injection h with h; subst h; exact ⟨hd, rfl, hv⟩
    · simp [hv] at h
  · simp [hd] at h

theorem frac_scaled_le (F : List Char) (hF : allDigits F = true) (hl : F.length ≤ 4) :
    digitsVal F * 10 ^ (4 - F.length) ≤ 9999 := by
  have h1 := digitsVal_lt F (by
    obtain ⟨c, r, rfl, hc, hr⟩ := allDigits_cons hF
    simp [hc, hr])
  have hk : F.length = 0 ∨ F.length = 1 ∨ F.length = 2 ∨ F.length = 3 ∨ F.length = 4 := by omega
  rcases hk with hk | hk | hk | hk | hk <;> rw [hk] at h1 ⊢ <;> simp at h1 ⊢ <;> omega

theorem parseDecimalL_ok_inI64 {cs : List Char} {d : Int} (h : parseDecimalL cs = .ok d) : InI64 d := by
  unfold parseDecimalL at h
  split at h
  · cases h
  · rename_i ip fp _
    split at h
    · cases h
    · split at h
      · cases h
      · split at h
        · cases h
        · rename_i f hf
          obtain ⟨hd, rfl, _⟩ := parseUintMax_some hf
          split at h
          · cases h
          · rename_i hl
            have hp := frac_scaled_le fp hd (by omega)
            simp only at h
            split at h
            · exact (newDecimal_ok (by omega) h).2
            · exact (newDecimal_ok (by omega) h).2

/-! ### round trip -/

theorem digVal_zero : digVal '0' = 0 := by decide

theorem trim4_spec (a b c d : Char) (ha : isDig a = true) (hb : isDig b = true) (hc : isDig c = true) (hd : isDig d = true) :
    allDigits (trim4 a b c d) = true ∧ (trim4 a b c d).length ≤ 4 ∧
      digitsVal (trim4 a b c d) * 10 ^ (4 - (trim4 a b c d).length) = digitsVal [a, b, c, d] := by
  unfold trim4
  by_cases h4 : d = '0'
  · subst h4
    by_cases h3 : c = '0'
    · subst h3
      by_cases h2 : b = '0'
      · subst h2; simp [allDigits, digitsVal, ha, digVal_zero]; omega
      · simp [allDigits, digitsVal, ha, hb, h2, digVal_zero]; omega
    · simp [allDigits, digitsVal, ha, hb, hc, h3, digVal_zero]
  · simp [allDigits, digitsVal, ha, hb, hc, hd, h4]

theorem newDecimal_of_inI64 (neg : Bool) (q r : Nat) (hr : r < 10000)
    (hv : if neg then (q : Int) * 10000 + r ≤ 9223372036854775808 else (q : Int) * 10000 + r ≤ 9223372036854775807) :
    newDecimal (if neg then -(q : Int) else q) (if neg then -(r : Int) else r) =
      .ok (if neg then -((q : Int) * 10000 + r) else (q : Int) * 10000 + r) := by
  unfold newDecimal
  cases neg with
  | true =>
    simp only [if_true] at *
    rw [if_neg (by simp <;> omega), if_neg (by simp <;> omega)]
    congr 1; omega
  | false =>
    simp only [Bool.false_eq_true, if_false] at *
    rw [if_neg (by simp <;> omega), if_neg (by simp <;> omega)]

theorem printDecimalL_shape (d : Int) :
    ∃ F, printDecimalL d = (if decide (d < 0) then ['-'] else []) ++ (natDigits (d.natAbs / 10000) ++ '.' :: F) ∧
      allDigits F = true ∧ F.length ≤ 4 ∧ digitsVal F * 10 ^ (4 - F.length) = d.natAbs % 10000 := by
  obtain ⟨h1, h2, h3⟩ := padL_spec 4 (d.natAbs % 10000) (by omega) (by omega)
  have hpad : padLeft 4 '0' (natDigits (d.natAbs % 10000)) = padL 4 (d.natAbs % 10000) := rfl
  match hp : padL 4 (d.natAbs % 10000), h1, h2, h3 with
  | [a, b, c, e], _, h2, h3 =>
    simp only [List.all_cons, List.all_nil, Bool.and_true, Bool.and_eq_true] at h2
    obtain ⟨ha, hb, hc, he⟩ := h2
    obtain ⟨t1, t2, t3⟩ := trim4_spec a b c e ha hb hc he
    refine ⟨trim4 a b c e, ?_, t1, t2, by rw [t3, h3]⟩
    unfold printDecimalL
    simp only [hpad, hp]
    rw [show natDigits (d.natAbs / 10000) ++ ['.'] ++ [a, b, c, e] = (natDigits (d.natAbs / 10000) ++ ['.']) ++ [a, b, c, e] from rfl,
      trimZeros3_append4]
    by_cases hneg : d < 0 <;> simp [hneg]

theorem parseDecimalL_printDecimalL (d : Int) (h : InI64 d) : parseDecimalL (printDecimalL d) = .ok d := by
  unfold InI64 minI64 maxI64 at h
  obtain ⟨F, hs, hF, hl, hv⟩ := printDecimalL_shape d
  rw [hs, parseDecimalL_canon _ _ _ (allDigits_natDigits _) hF (by rw [digitsVal_natDigits]; unfold maxI64; omega) hl,
    digitsVal_natDigits, hv]
  have := newDecimal_of_inI64 (decide (d < 0)) (d.natAbs / 10000) (d.natAbs % 10000) (by omega)
    (by by_cases hneg : d < 0 <;> simp [hneg] <;> omega)
  simp only [decide_eq_true_eq] at this ⊢
  rw [this]
  congr 1
  by_cases hneg : d < 0 <;> simp [hneg] <;> omega

end CedarGo.Scalars
