/-
  Helper lemmas for C07 (`like`): the pattern literal written by `Pattern.MarshalCedar` (`escapePattern`) is read
  back by `parser.ParsePattern` + `types.NewPattern` (`parsePattern`) to the identical pattern, for every pattern
  in `NewPattern` normal form (`patOK`, Model/Text/Fragment.lean).

  Route: a pattern whose literal chunks are valid UTF-8 is the image `dpPat dp` of a DECODED pattern `dp` (wildcard
  flag, characters); its text is `dpRender dp`.  Every chunk `escapeStars (escapeCharAll l)` is read back by
  `Unquote(·, star = true)` up to the next unescaped `*` (`unquote_dpEsc`); the loop of `ParsePattern` then yields
  the argument list `[Wildcard?, String l₀, Wildcard, String l₁, …]` (`parsePatternAux_tail`), from which
  `NewPattern` rebuilds the components (`newPattern_tail`).
-/
import CedarGoProofs.Lemmas.C07Escape
import CedarGo.Model.Text.Fragment
namespace CedarGo.Text
open CedarGo

/-! ## `strings.ReplaceAll(s, "*", "\\*")` -/

theorem escapeStars_append (a b : List Char) : escapeStars (a ++ b) = escapeStars a ++ escapeStars b := by
  induction a with
  | nil => rfl
  | cons c cs ih =>
    simp only [List.cons_append, escapeStars]
    split <;> simp [ih]

theorem escapeStars_noStar (a : List Char) (h : ∀ c ∈ a, c ≠ '*') : escapeStars a = a := by
  induction a with
  | nil => rfl
  | cons c cs ih =>
    have hc : (c == '*') = false := beq_eq_false_iff_ne.mpr (h c (by simp))
    simp only [escapeStars, hc, Bool.false_eq_true, ↓reduceIte]
    rw [ih (fun d hd => h d (by simp [hd]))]

theorem hexD_noStar (f n : Nat) : ∀ d ∈ hexD f n, d ≠ '*' := by
  intro d hd h
  subst h
  have := (hexD_allHex f n _ hd).1
  revert this
  decide

theorem uEscape_noStar (c : Char) : ∀ d ∈ uEscape c, d ≠ '*' := by
  intro d hd
  simp only [uEscape, hexDigits, hexDigitsAux_eq, List.append_nil, List.mem_append, List.mem_cons, List.not_mem_nil,
    or_false] at hd
  rcases hd with ((rfl | rfl | rfl) | hd) | rfl
  · decide
  · decide
  · decide
  · exact hexD_noStar _ _ d hd
  · decide

/-- an escaped character other than `*` contains no `*` -/
theorem escapeRune_noStar (c : Char) (egx : Bool) (hc : c ≠ '*') : ∀ d ∈ escapeRune c egx, d ≠ '*' := by
  have two (x : Char) (hx : x ≠ '*') : ∀ d ∈ ['\\', x], d ≠ '*' := by
    intro d hd
    simp only [List.mem_cons, List.not_mem_nil, or_false] at hd
    rcases hd with rfl | rfl
    · decide
    · exact hx
  unfold escapeRune
  split
  · exact two _ (by decide)
  split
  · exact two _ (by decide)
  split
  · exact two _ (by decide)
  split
  · exact two _ (by decide)
  split
  · exact two _ (by decide)
  split
  · exact two _ (by decide)
  split
  · exact two _ (by decide)
  split
  · exact uEscape_noStar c
  split
  · intro d hd
    simp only [List.mem_cons, List.not_mem_nil, or_false] at hd
    subst hd; exact hc
  · exact uEscape_noStar c

theorem escapeRune_ne_nil (c : Char) (egx : Bool) : escapeRune c egx ≠ [] := by
  unfold escapeRune uEscape
  repeat' split
  all_goals simp

theorem escapeRune_star (egx : Bool) : escapeRune '*' egx = ['*'] := by
  cases egx <;> decide +kernel

/-- the text of one pattern character: never empty, never starting with an unescaped `*` -/
theorem escStar_head (c : Char) (egx : Bool) : ∃ h t, escapeStars (escapeRune c egx) = h :: t ∧ h ≠ '*' := by
  by_cases hc : c = '*'
  · subst hc
    rw [escapeRune_star]
    exact ⟨'\\', ['*'], rfl, by decide⟩
  · rw [escapeStars_noStar _ (escapeRune_noStar c egx hc)]
    cases he : escapeRune c egx with
    | nil => exact absurd he (escapeRune_ne_nil c egx)
    | cons h t =>
      exact ⟨h, t, rfl, escapeRune_noStar c egx hc h (by rw [he]; simp)⟩

/-! ## `Unquote(·, star = true)` reads one escaped pattern character back -/

theorem unquote_escapeRune_star (c : Char) (egx : Bool) (hc : c ≠ '*') (acc tail : List Char) :
    unquoteAux true .normal acc (escapeRune c egx ++ tail) = unquoteAux true .normal (c :: acc) tail := by
  have two (x : Char) (out : Char)
      (hstep : ∀ acc' tl, unquoteAux true .esc acc' (x :: tl) = unquoteAux true .normal (out :: acc') tl) :
      unquoteAux true .normal acc (['\\', x] ++ tail) = unquoteAux true .normal (out :: acc) tail := by
    simp only [List.cons_append, List.nil_append]
    rw [unquoteAux]
    have e : (true && '\\' == '*') = false := by decide
    simp only [e, Bool.false_eq_true, ↓reduceIte, beq_self_eq_true]
    exact hstep _ _
  unfold escapeRune
  split
  · rename_i h0
    have hc0 : c = Char.ofNat 0 := by
      have : c.toNat = 0 := by simpa using h0
      rw [← Char.ofNat_toNat c, this]
    rw [hc0]
    exact two '0' _ (fun acc' tl => by
      rw [unquoteAux]; simp)
  split
  · rename_i _ h; have : c = '\t' := by simpa using h
    subst this
    exact two 't' _ (fun acc' tl => by
      rw [unquoteAux]; simp)
  split
  · rename_i _ _ h; have : c = '\r' := by simpa using h
    subst this
    exact two 'r' _ (fun acc' tl => by
      rw [unquoteAux]; simp)
  split
  · rename_i _ _ _ h; have : c = '\n' := by simpa using h
    subst this
    exact two 'n' _ (fun acc' tl => by
      rw [unquoteAux]; simp)
  split
  · rename_i _ _ _ _ h; have : c = '\\' := by simpa using h
    subst this
    exact two '\\' _ (fun acc' tl => by
      rw [unquoteAux]; simp)
  split
  · rename_i _ _ _ _ _ h; have : c = '"' := by simpa using h
    subst this
    exact two '"' _ (fun acc' tl => by
      rw [unquoteAux]; simp)
  split
  · rename_i _ _ _ _ _ _ h; have : c = '\'' := by simpa using h
    subst this
    exact two '\'' _ (fun acc' tl => by
      rw [unquoteAux]; simp)
  split
  · exact unquote_uEscape true c acc tail
  split
  · rename_i _ _ _ _ hbs _ _ _ _
    simp only [List.cons_append, List.nil_append]
    rw [unquoteAux]
    have h2 : (c == '\\') = false := by simpa using hbs
    have h3 : (c == '*') = false := beq_eq_false_iff_ne.mpr hc
    simp [h2, h3]
  · exact unquote_uEscape true c acc tail

/-- one pattern character as `Pattern.MarshalCedar` writes it (`EscapeCharAll`, then `*` → `\*`) is read back as
    that character -/
theorem unquote_escStar (c : Char) (egx : Bool) (acc tail : List Char) :
    unquoteAux true .normal acc (escapeStars (escapeRune c egx) ++ tail) = unquoteAux true .normal (c :: acc) tail := by
  by_cases hc : c = '*'
  · subst hc
    rw [escapeRune_star]
    show unquoteAux true .normal acc ('\\' :: '*' :: tail) = _
    rw [unquoteAux]
    have e : (true && '\\' == '*') = false := by decide
    simp only [e, Bool.false_eq_true, ↓reduceIte, beq_self_eq_true]
    rw [unquoteAux]
    simp
  · rw [escapeStars_noStar _ (escapeRune_noStar c egx hc)]
    exact unquote_escapeRune_star c egx hc acc tail

/-- text of one literal chunk of a pattern -/
def dpEsc (l : List Char) : List Char := escapeStars (escapeCharAll l)

theorem dpEsc_cons (c : Char) (cs : List Char) : dpEsc (c :: cs) = escapeStars (escapeRune c true) ++ dpEsc cs := by
  simp only [dpEsc, escapeCharAll, escapeStars_append]

theorem unquoteAux_dpEsc (l : List Char) (acc tail : List Char) :
    unquoteAux true .normal acc (dpEsc l ++ tail) = unquoteAux true .normal (l.reverse ++ acc) tail := by
  induction l generalizing acc with
  | nil => rfl
  | cons c cs ih =>
    rw [dpEsc_cons, List.append_assoc, unquote_escStar, ih]
    simp

/-- where `Unquote(·, star = true)` stops: the end of the input or an unescaped `*` -/
def StarOrNil (tail : List Char) : Prop := tail = [] ∨ ∃ t, tail = '*' :: t

theorem unquoteAux_stop (acc tail : List Char) (h : StarOrNil tail) :
    unquoteAux true .normal acc tail = .ok (acc.reverse, tail) := by
  rcases h with rfl | ⟨t, rfl⟩
  · rfl
  · rw [unquoteAux]; simp

/-- **a literal chunk is read back**, and `Unquote` stops exactly where the next wildcard (or the end) is -/
theorem unquote_dpEsc (l tail : List Char) (h : StarOrNil tail) : unquote true (dpEsc l ++ tail) = .ok (l, tail) := by
  unfold unquote
  rw [unquoteAux_dpEsc, unquoteAux_stop _ _ h]
  simp

/-- text that does not begin with a wildcard -/
def NoStarHead (X : List Char) : Prop := ∀ t, X ≠ '*' :: t

theorem noStarHead_dpEsc (c : Char) (cs tail : List Char) : NoStarHead (dpEsc (c :: cs) ++ tail) := by
  intro t ht
  obtain ⟨h, t', he, hne⟩ := escStar_head c true
  rw [dpEsc_cons, he] at ht
  simp only [List.cons_append, List.cons.injEq] at ht
  exact hne ht.1

theorem dpEsc_length_pos (c : Char) (cs : List Char) : 1 ≤ (dpEsc (c :: cs)).length := by
  obtain ⟨h, t', he, _⟩ := escStar_head c true
  rw [dpEsc_cons, he]
  simp

theorem dropStars_noStar (X : List Char) (acc : List PArg) (h : NoStarHead X) : dropStars X acc = (acc, X) := by
  rw [dropStars.eq_2]
  intro cs hcs
  exact h cs hcs

/-! ## decoded patterns -/

/-- a pattern with its literal chunks as characters -/
abbrev DPat := List (Bool × List Char)

def dpPat (dp : DPat) : Pattern := dp.map fun c => ⟨c.1, utf8 c.2⟩

def dpRender : DPat → List Char
  | [] => []
  | c :: rest => (if c.1 then ['*'] else []) ++ dpEsc c.2 ++ dpRender rest

/-- the arguments `ParsePattern` passes to `NewPattern` for components that all carry a wildcard -/
def argsTail : DPat → List PArg
  | [] => []
  | c :: rest => .wild :: .lit c.2 :: argsTail rest

theorem utf8_nil : utf8 [] = [] := by decide +kernel

/-- every pattern with valid-UTF-8 chunks is a decoded pattern, and `Pattern.MarshalCedar` writes `dpRender` -/
theorem decode_pat : ∀ p : Pattern, p.all litUtf8OK = true → ∃ dp : DPat, dpPat dp = p ∧ escapePattern p = some (dpRender dp)
  | [], _ => ⟨[], rfl, rfl⟩
  | c :: rest, h => by
    simp only [List.all_cons, Bool.and_eq_true] at h
    obtain ⟨dp, hdp, hesc⟩ := decode_pat rest h.2
    have hc := h.1
    unfold litUtf8OK at hc
    cases hl : ofUtf8 c.literal with
    | none => simp [hl] at hc
    | some l =>
      simp only [hl, beq_iff_eq] at hc
      refine ⟨(c.wildcard, l) :: dp, ?_, ?_⟩
      · simp only [dpPat, List.map_cons, List.cons.injEq]
        refine ⟨?_, hdp⟩
        cases c; simp_all
      · simp only [escapePattern, hl, hesc, dpRender, dpEsc]

theorem tail_facts {w : Bool} {l : List Char} {rest : DPat} (h : patTailOK (dpPat ((w, l) :: rest)) = true) :
    w = true ∧ (l = [] → rest = []) ∧ ((utf8 l).isEmpty = false ∨ rest = []) ∧ patTailOK (dpPat rest) = true := by
  simp only [dpPat, List.map_cons, patTailOK, Bool.and_eq_true, Bool.or_eq_true, Bool.not_eq_true',
    List.isEmpty_iff, List.map_eq_nil_iff] at h
  refine ⟨h.1.1, fun hl => ?_, h.1.2, h.2⟩
  subst hl
  rcases h.1.2 with h1 | h1
  · rw [utf8_nil] at h1; cases h1
  · exact h1

theorem starOrNil_tail (dp : DPat) (h : patTailOK (dpPat dp) = true) : StarOrNil (dpRender dp) := by
  cases dp with
  | nil => exact .inl rfl
  | cons c rest =>
    obtain ⟨w, l⟩ := c
    obtain ⟨rfl, _, _, _⟩ := tail_facts h
    exact .inr ⟨dpEsc l ++ dpRender rest, by simp [dpRender]⟩

theorem tail_length (dp : DPat) (h : patTailOK (dpPat dp) = true) : dp.length ≤ (dpRender dp).length := by
  induction dp with
  | nil => simp
  | cons c rest ih =>
    obtain ⟨w, l⟩ := c
    obtain ⟨rfl, _, _, hr⟩ := tail_facts h
    have := ih hr
    simp only [dpRender, ↓reduceIte, List.length_append, List.length_cons, List.length_nil]
    omega

/-! ## the loop of `ParsePattern` -/

theorem parsePatternAux_step (f : Nat) (b : List Char) (acc : List PArg) (hb : b ≠ []) :
    parsePatternAux (f + 1) b acc =
      (match unquote true (dropStars b acc).2 with
       | .error e => .error e
       | .ok (l, b2) => parsePatternAux f b2 (.lit l :: (dropStars b acc).1)) := by
  cases b with
  | nil => exact absurd rfl hb
  | cons c cs =>
    rw [parsePatternAux]
    · cases dropStars (c :: cs) acc; rfl
    · intro h0; cases h0

theorem parsePatternAux_nil (f : Nat) (acc : List PArg) : parsePatternAux f [] acc = .ok acc.reverse := by
  cases f <;> rfl

/-- the text of wildcard-led components is read as `Wildcard, String l` for each of them -/
theorem parsePatternAux_tail : ∀ (dp : DPat), patTailOK (dpPat dp) = true → ∀ (fuel : Nat) (acc : List PArg),
    dp.length < fuel → parsePatternAux fuel (dpRender dp) acc = .ok (acc.reverse ++ argsTail dp)
  | [], _, fuel, acc, _ => by simp [dpRender, parsePatternAux_nil, argsTail]
  | (w, l) :: rest, h, fuel, acc, hf => by
    obtain ⟨rfl, hl, _, hr⟩ := tail_facts h
    obtain ⟨f, rfl⟩ : ∃ f, fuel = f + 1 := ⟨fuel - 1, by simp at hf; omega⟩
    have hX : NoStarHead (dpEsc l ++ dpRender rest) := by
      cases l with
      | nil =>
        rw [hl rfl]
        intro t ht; cases ht
      | cons c cs => exact noStarHead_dpEsc c cs _
    have e : dpRender ((true, l) :: rest) = '*' :: (dpEsc l ++ dpRender rest) := by simp [dpRender]
    rw [e, parsePatternAux_step _ _ _ (by simp), dropStars.eq_1, dropStars_noStar _ _ hX]
    simp only [unquote_dpEsc l _ (starOrNil_tail rest hr)]
    rw [parsePatternAux_tail rest hr f _ (by simp at hf; omega)]
    simp [argsTail]

/-! ## `types.NewPattern` on the arguments -/

/-- the accumulator of `NewPattern` may take a new wildcard component: it is empty or its last literal is not -/
def GoodAcc (acc : Pattern) : Prop := acc = [] ∨ ∃ init last, acc = init ++ [last] ∧ last.literal.isEmpty = false

theorem newPattern_wild_lit (l : List Char) (more : List PArg) (acc : Pattern) (h : GoodAcc acc) :
    newPattern (.wild :: .lit l :: more) acc = newPattern more (acc ++ [⟨true, utf8 l⟩]) := by
  rcases h with rfl | ⟨init, last, rfl, hne⟩
  · simp [newPattern]
  · simp [newPattern, hne]

theorem newPattern_tail : ∀ (dp : DPat), patTailOK (dpPat dp) = true → ∀ acc : Pattern, (dp ≠ [] → GoodAcc acc) →
    newPattern (argsTail dp) acc = acc ++ dpPat dp
  | [], _, acc, _ => by simp [argsTail, newPattern, dpPat]
  | (w, l) :: rest, h, acc, hg => by
    obtain ⟨rfl, _, hne, hr⟩ := tail_facts h
    rw [argsTail, newPattern_wild_lit l _ acc (hg (by simp))]
    rw [newPattern_tail rest hr _ (fun hrest => ?_)]
    · simp [dpPat]
    · rcases hne with hne | hne
      · exact .inr ⟨acc, _, rfl, hne⟩
      · exact absurd hne hrest

theorem patOK_facts {w : Bool} {l : List Char} {rest : DPat} (h : patOK (dpPat ((w, l) :: rest)) = true) :
    ((utf8 l).isEmpty = false ∨ rest = []) ∧ patTailOK (dpPat rest) = true := by
  simp only [dpPat, List.map_cons, patOK, Bool.and_eq_true, Bool.or_eq_true, Bool.not_eq_true',
    List.isEmpty_iff, List.map_eq_nil_iff] at h
  exact ⟨h.1.1, h.1.2⟩

/-- **`ParsePattern` inverts `Pattern.MarshalCedar`** on decoded patterns in `NewPattern` normal form -/
theorem parsePattern_dpRender (dp : DPat) (h : patOK (dpPat dp) = true) : parsePattern (dpRender dp) = .ok (dpPat dp) := by
  cases dp with
  | nil => simp [dpPat, patOK] at h
  | cons c rest =>
    obtain ⟨w, l⟩ := c
    obtain ⟨hne, hr⟩ := patOK_facts h
    cases w with
    | true =>
      have ht : patTailOK (dpPat ((true, l) :: rest)) = true := by
        simp only [dpPat, List.map_cons, patTailOK, Bool.true_and, Bool.and_eq_true, Bool.or_eq_true, Bool.not_eq_true',
          List.isEmpty_iff, List.map_eq_nil_iff]
        exact ⟨hne, hr⟩
      unfold parsePattern
      rw [parsePatternAux_tail _ ht _ _ (by have := tail_length _ ht; omega)]
      simp only [List.reverse_nil, List.nil_append]
      rw [show argsTail ((true, l) :: rest) = .wild :: .lit l :: argsTail rest from rfl]
      simp only
      rw [show (PArg.wild :: .lit l :: argsTail rest) = argsTail ((true, l) :: rest) from rfl]
      rw [newPattern_tail _ ht [] (fun _ => .inl rfl)]
      simp
    | false =>
      cases l with
      | nil =>
        have hrest : rest = [] := by
          rcases hne with h1 | h1
          · rw [utf8_nil] at h1; cases h1
          · exact h1
        subst hrest
        simp [parsePattern, dpRender, dpEsc, escapeCharAll, escapeStars, parsePatternAux, newPattern, dpPat]
      | cons c cs =>
        have e : dpRender ((false, c :: cs) :: rest) = dpEsc (c :: cs) ++ dpRender rest := by simp [dpRender]
        have hX : NoStarHead (dpEsc (c :: cs) ++ dpRender rest) := noStarHead_dpEsc c cs _
        have hlen : rest.length < (dpEsc (c :: cs) ++ dpRender rest).length := by
          have h1 := tail_length _ hr
          have h2 := dpEsc_length_pos c cs
          simp only [List.length_append]; omega
        have hnn : dpEsc (c :: cs) ++ dpRender rest ≠ [] := by
          intro h0; rw [h0] at hlen; simp at hlen
        unfold parsePattern
        rw [e, parsePatternAux_step _ _ _ hnn, dropStars_noStar _ _ hX]
        simp only [unquote_dpEsc (c :: cs) _ (starOrNil_tail rest hr)]
        rw [parsePatternAux_tail rest hr _ _ hlen]
        simp only [List.reverse_cons, List.reverse_nil, List.nil_append, List.singleton_append]
        have hn : newPattern (.lit (c :: cs) :: argsTail rest) [] = newPattern (argsTail rest) [⟨false, utf8 (c :: cs)⟩] := by
          simp [newPattern]
        rw [hn, newPattern_tail rest hr _ (fun hrest => ?_)]
        · simp [dpPat]
        · rcases hne with h1 | h1
          · exact .inr ⟨[], _, rfl, h1⟩
          · exact absurd h1 hrest

/-- `patOK` in terms of the whole pattern -/
theorem patOK_all {p : Pattern} (h : patOK p = true) : p.all litUtf8OK = true := by
  cases p with
  | nil => simp [patOK] at h
  | cons c rest =>
    simp only [patOK, Bool.and_eq_true] at h
    exact h.2

/-- **pattern round trip**: for every pattern in `NewPattern` normal form, `Pattern.MarshalCedar` succeeds (inside the
    model: all chunks are valid UTF-8) and `ParsePattern` reads its text back to the identical pattern -/
theorem pattern_roundtrip (p : Pattern) (h : patOK p = true) :
    ∃ cs, escapePattern p = some cs ∧ parsePattern cs = .ok p := by
  obtain ⟨dp, hdp, hesc⟩ := decode_pat p (patOK_all h)
  subst hdp
  exact ⟨_, hesc, parsePattern_dpRender dp h⟩

/-- the pattern-literal token the printers write, and what the parser computes from it -/
theorem patT_roundtrip (p : Pattern) (h : patOK p = true) :
    ∃ t, patT p = some t ∧ t.ty = .string ∧ t.pos = noPos ∧ parsePattern (trimQuotes t.text.toList) = .ok p := by
  obtain ⟨cs, hesc, hparse⟩ := pattern_roundtrip p h
  refine ⟨⟨.string, noPos, String.ofList ('"' :: (cs ++ ['"']))⟩, by simp [patT, hesc], rfl, rfl, ?_⟩
  simp only [String.toList_ofList, trimQuotes_quoted, hparse]

end CedarGo.Text
