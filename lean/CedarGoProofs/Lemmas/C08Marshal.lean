/-
  Helper lemmas for C08: on its correct domain, the token list written by the model of Go's `MarshalCedar`
  is a valid rendering (`Rend`) of the same expression, hence parsed back to the identical tree.
-/
import CedarGoProofs.Lemmas.C07Head
import CedarGo.Model.Text.Marshal
namespace CedarGo.Text
open CedarGo

/-! ## tokens of a piece list -/

@[simp] theorem pieceToks_nil : pieceToks [] = [] := rfl
@[simp] theorem pieceToks_t (t : Token) (ps : List Piece) : pieceToks (.t t :: ps) = t :: pieceToks ps := rfl
@[simp] theorem pieceToks_s (s : String) (ps : List Piece) : pieceToks (.s s :: ps) = pieceToks ps := rfl

@[simp] theorem pieceToks_append (a b : List Piece) : pieceToks (a ++ b) = pieceToks a ++ pieceToks b := by
  induction a with
  | nil => rfl
  | cons p ps ih => cases p <;> simp [ih]

@[simp] theorem pieceToks_toksP (ts : List Token) : pieceToks (toksP ts) = ts := by
  induction ts with
  | nil => rfl
  | cons t ts ih => simp [toksP] at ih ⊢; exact ih

theorem pieceToks_goWrap (lvl : Nat) (c : Expr) (ps : List Piece) :
    pieceToks (goWrap lvl c ps) = wrapIf (decide (lvl > goPrec c)) (pieceToks ps) := by
  unfold goWrap wrapIf
  by_cases h : lvl > goPrec c <;> simp [h]

/-! ## Go's levels against the grammar's -/

theorem goPrec_le_prec (c : Expr) (h : isNegLong c = false) : goPrec c ≤ prec c := by
  cases c with
  | lit v =>
    cases v <;> simp [goPrec, prec]
    rename_i n
    simp only [isNegLong, decide_eq_false_iff_not] at h
    simp [h]
  | call fn args => simp only [goPrec, prec]; split <;> omega
  | unop op e => cases op <;> simp [goPrec, prec]
  | _ => simp [goPrec, prec]

theorem prec_negLong (c : Expr) (h : isNegLong c = true) : prec c = 6 := by
  cases c with
  | lit v =>
    cases v <;> simp [isNegLong] at h
    simp [prec, h]
  | _ => simp [isNegLong] at h

/-- an operand written by `marshalChildNode(g, c)` is a valid rendering where level `q ≤ g` is required,
    unless `c` is a negative literal and `q = 7` (the defect) -/
theorem rend_goWrap {c : Expr} {ts : List Token} (h : Rend (.e (prec c) c) ts) (g q : Nat) (hq : q ≤ g)
    (hneg : isNegLong c = true → q ≤ 6) : Rend (.e q c) (wrapIf (decide (g > goPrec c)) ts) := by
  refine rend_wrap h _ q (fun hb => ?_)
  simp only [decide_eq_false_iff_not, Nat.not_lt] at hb
  cases hn : isNegLong c with
  | true => rw [prec_negLong c hn]; exact hneg hn
  | false => exact Nat.le_trans (Nat.le_trans hq hb) (goPrec_le_prec c hn)

theorem goInfix_binForm {op : BinOp} {tok : Token} {lp rp : Nat} (h : goInfix op = some (tok, lp, rp)) :
    binForm op = .infixOp tok lp rp ∧ lp ≤ 6 ∧ rp ≤ 6 := by
  cases op <;> simp [goInfix] at h <;> obtain ⟨rfl, rfl, rfl⟩ := h <;> simp [binForm]

theorem goInfix_none {op : BinOp} (h : goInfix op = none) : binForm op = .method (goMethodName op) ∧ binPrec op = 7 := by
  cases op <;> simp [goInfix] at h <;> simp [binForm, goMethodName, binPrec]

theorem wrapIf_ne_nil (b : Bool) (ts : List Token) (h : ts ≠ []) : wrapIf b ts ≠ [] := by
  cases b <;> simp [wrapIf, h]

theorem marshal_ne_nil (e : Expr) (h : inFragGo e = true) : pieceToks (marshalExpr e) ≠ [] := by
  cases e with
  | lit v =>
    cases v <;> simp [inFragGo] at h <;> simp [marshalExpr, marshalLit]
    split <;> simp
  | var v => simp [marshalExpr]
  | unop op e => cases op <;> simp [marshalExpr]
  | binop op l r => simp only [marshalExpr]; split <;> simp
  | ite c t e => simp [marshalExpr]
  | access e a => simp only [marshalExpr, goAccessP]; split <;> simp
  | has e a => simp [marshalExpr]
  | like e p => simp [inFragGo] at h
  | is e ty => simp [marshalExpr]
  | isIn e ty r => simp [marshalExpr]
  | set es => simp [marshalExpr]
  | record kes => simp [marshalExpr]
  | call fn args =>
    simp only [inFragGo, Bool.and_eq_true, callOK] at h
    cases args with
    | nil =>
      simp only [marshalExpr]
      split
      · rename_i hm; simp [hm] at h
      · simp
    | cons r rest =>
      simp only [marshalExpr]
      split <;> simp

theorem go_head_operand (e : Expr) (g : Nat) (more : List Token) (hne : pieceToks (marshalExpr e) ≠ [])
    (h : goPrec e < g ∨ ((peek (pieceToks (marshalExpr e))).ty == .int) = false) :
    ((peek (wrapIf (decide (g > goPrec e)) (pieceToks (marshalExpr e)) ++ more)).ty == .int) = false := by
  rw [peek_wrapIf _ _ _ hne]
  by_cases hq : g > goPrec e
  · simp [hq, opT]
  · simp only [hq, decide_false, Bool.false_eq_true, ↓reduceIte]
    rcases h with h | h
    · exact absurd h hq
    · exact h

theorem goHeadInt_spec : ∀ (e : Expr), inFragGo e = true → goHeadInt e = false →
    ((peek (pieceToks (marshalExpr e))).ty == .int) = false
  | .lit v, h, hh => by
    cases v <;> simp [inFragGo] at h
    · rename_i b; cases b <;> rfl
    · rename_i n
      simp only [goHeadInt, decide_eq_false_iff_not, Int.not_le] at hh
      simp [marshalExpr, marshalLit, hh, peek, opT]
    · rfl
    · rename_i ty id
      obtain ⟨first, parts, hp⟩ := pathOK_of_isPathName ty h.1
      simp only [marshalExpr, marshalLit, pieceToks_toksP, hp.toks]
      rfl
  | .var _, _, _ => rfl
  | .unop .not _, _, _ => rfl
  | .unop .neg _, _, _ => rfl
  | .unop .isEmpty e, h, hh => by
    simp only [inFragGo, Bool.and_eq_true] at h
    simp only [goHeadInt, Bool.and_eq_false_iff, decide_eq_false_iff_not, Nat.not_le] at hh
    simp only [marshalExpr, pieceToks_append, pieceToks_goWrap]
    refine go_head_operand e 7 _ (marshal_ne_nil e h.1) ?_
    rcases hh with hh | hh
    · exact .inl hh
    · exact .inr (goHeadInt_spec e h.1 hh)
  | .binop op l r, h, hh => by
    simp only [inFragGo, Bool.and_eq_true] at h
    simp only [goHeadInt] at hh
    simp only [marshalExpr]
    cases hf : goInfix op with
    | some v =>
      obtain ⟨tok, lp, rp⟩ := v
      simp only [hf, Bool.and_eq_false_iff, decide_eq_false_iff_not, Nat.not_le] at hh ⊢
      simp only [pieceToks_append, pieceToks_goWrap]
      refine go_head_operand l lp _ (marshal_ne_nil l h.1.1) ?_
      rcases hh with hh | hh
      · exact .inl hh
      · exact .inr (goHeadInt_spec l h.1.1 hh)
    | none =>
      simp only [hf, Bool.and_eq_false_iff, decide_eq_false_iff_not, Nat.not_le] at hh ⊢
      simp only [pieceToks_append, pieceToks_goWrap]
      refine go_head_operand l 7 _ (marshal_ne_nil l h.1.1) ?_
      rcases hh with hh | hh
      · exact .inl hh
      · exact .inr (goHeadInt_spec l h.1.1 hh)
  | .ite _ _ _, _, _ => rfl
  | .access e a, h, hh => by
    simp only [inFragGo, Bool.and_eq_true] at h
    simp only [goHeadInt, Bool.and_eq_false_iff, decide_eq_false_iff_not, Nat.not_le] at hh
    simp only [marshalExpr, pieceToks_append, pieceToks_goWrap]
    refine go_head_operand e 7 _ (marshal_ne_nil e h.1.1) ?_
    rcases hh with hh | hh
    · exact .inl hh
    · exact .inr (goHeadInt_spec e h.1.1 hh)
  | .has e a, h, hh => by
    simp only [inFragGo, Bool.and_eq_true] at h
    simp only [goHeadInt, Bool.and_eq_false_iff, decide_eq_false_iff_not, Nat.not_le] at hh
    simp only [marshalExpr, pieceToks_append, pieceToks_goWrap]
    refine go_head_operand e 4 _ (marshal_ne_nil e h.1) ?_
    rcases hh with hh | hh
    · exact .inl hh
    · exact .inr (goHeadInt_spec e h.1 hh)
  | .like _ _, h, _ => by simp [inFragGo] at h
  | .is e ty, h, hh => by
    simp only [inFragGo, Bool.and_eq_true] at h
    simp only [goHeadInt, Bool.and_eq_false_iff, decide_eq_false_iff_not, Nat.not_le] at hh
    simp only [marshalExpr, pieceToks_append, pieceToks_goWrap]
    refine go_head_operand e 4 _ (marshal_ne_nil e h.1) ?_
    rcases hh with hh | hh
    · exact .inl hh
    · exact .inr (goHeadInt_spec e h.1 hh)
  | .isIn e ty r, h, hh => by
    simp only [inFragGo, Bool.and_eq_true] at h
    simp only [goHeadInt, Bool.and_eq_false_iff, decide_eq_false_iff_not, Nat.not_le] at hh
    simp only [marshalExpr, pieceToks_append, pieceToks_goWrap]
    refine go_head_operand e 4 _ (marshal_ne_nil e h.1.1) ?_
    rcases hh with hh | hh
    · exact .inl hh
    · exact .inr (goHeadInt_spec e h.1.1 hh)
  | .set _, _, _ => rfl
  | .record _, _, _ => rfl
  | .call fn [], h, _ => by
    simp only [inFragGo, Bool.and_eq_true, callOK] at h
    simp only [marshalExpr]
    split
    · rename_i hm; simp [hm] at h
    · rfl
  | .call fn (recv :: rest), h, hh => by
    simp only [inFragGo, inFragGoList, Bool.and_eq_true] at h
    simp only [marshalExpr]
    split
    · rename_i hm
      simp only [goHeadInt, hm, Bool.true_and, Bool.and_eq_false_iff, decide_eq_false_iff_not, Nat.not_le] at hh
      simp only [pieceToks_append, pieceToks_goWrap]
      refine go_head_operand recv 7 _ (marshal_ne_nil recv h.1.2.1) ?_
      rcases hh with hh | hh
      · exact .inl hh
      · exact .inr (goHeadInt_spec recv h.1.2.1 hh)
    · rfl

mutual
/-- the token list of `MarshalCedar(e)` is a valid rendering of `e` at the natural level of `e` -/
theorem marshal_rend : ∀ (e : Expr), inFragGo e = true → Rend (.e (prec e) e) (pieceToks (marshalExpr e))
  | .lit v, h => by
    cases v <;> simp [inFragGo] at h
    · rename_i b; exact .litBool b
    · rename_i n
      simp only [marshalExpr, marshalLit]
      by_cases hn : n < 0
      · have hp : prec (.lit (.long n)) = 6 := by simp [prec, hn]
        rw [hp]
        simp only [hn, ↓reduceIte, pieceToks_t, pieceToks_nil]
        have := Rend.litNeg (lvl := 6) n.natAbs (by omega) (Nat.le_refl _)
        rw [int_natAbs_neg n hn] at this
        exact this
      · have hp : prec (.lit (.long n)) = 8 := by simp [prec, hn]
        rw [hp]
        simp only [hn, ↓reduceIte, pieceToks_t, pieceToks_nil]
        have := Rend.litNat (lvl := 8) n.toNat (by omega)
        rw [int_toNat_nonneg n hn] at this
        exact this
    · rename_i s; exact .litStr s ((noFFFD_iff s).mp h)
    · rename_i ty id
      obtain ⟨first, parts, hp⟩ := pathOK_of_isPathName ty h.1
      simp only [marshalExpr, marshalLit, pieceToks_toksP]
      exact .entity ty id first parts hp ((noFFFD_iff id).mp h.2)
  | .var v, _ => .var v
  | .unop .not e, h => by
    simp only [inFragGo] at h
    simp only [marshalExpr, pieceToks_t, pieceToks_goWrap]
    exact .not (rend_goWrap (marshal_rend e h) 6 6 (Nat.le_refl _) (fun _ => Nat.le_refl _)) (Nat.le_refl _)
  | .unop .neg e, h => by
    simp only [inFragGo, Bool.and_eq_true, Bool.not_eq_true'] at h
    have hne := marshal_ne_nil e h.1.1
    have hp : prec (.unop .neg e) = 6 := rfl
    rw [hp]
    simp only [marshalExpr, pieceToks_t, pieceToks_goWrap]
    refine .neg (rend_goWrap (marshal_rend e h.1.1) 6 6 (Nat.le_refl _) (fun _ => Nat.le_refl _)) ?_ (Nat.le_refl _)
    have hpk := peek_wrapIf (decide (6 > goPrec e)) (pieceToks (marshalExpr e)) [] hne
    rw [List.append_nil] at hpk
    rw [hpk]
    by_cases hb : 6 > goPrec e
    · simp [hb, opT]
    · simp only [hb, decide_false, Bool.false_eq_true, ↓reduceIte]
      have h2 := h.2
      simp only [Bool.or_eq_true, decide_eq_true_eq, Bool.not_eq_true'] at h2
      rcases h2 with h2 | h2
      · exact absurd h2 hb
      · exact goHeadInt_spec e h.1.1 h2
  | .unop .isEmpty e, h => by
    simp only [inFragGo, Bool.and_eq_true, Bool.not_eq_true'] at h
    simp only [marshalExpr, pieceToks_append, pieceToks_goWrap, pieceToks_toksP]
    exact .isEmpty (rend_goWrap (marshal_rend e h.1) 7 7 (Nat.le_refl _) (fun hn => by rw [h.2] at hn; cases hn)) (Nat.le_refl _)
  | .binop op l r, h => by
    simp only [inFragGo, Bool.and_eq_true, Bool.or_eq_true, Bool.not_eq_true'] at h
    have hl := marshal_rend l h.1.1
    have hr := marshal_rend r h.1.2
    have hp : prec (.binop op l r) = binPrec op := rfl
    rw [hp]
    simp only [marshalExpr]
    cases hf : goInfix op with
    | some v =>
      obtain ⟨tok, lp, rp⟩ := v
      obtain ⟨hb, hlp, hrp⟩ := goInfix_binForm hf
      simp only [pieceToks_append, pieceToks_goWrap, pieceToks_s, pieceToks_t]
      exact .infixOp hb (rend_goWrap hl lp lp (Nat.le_refl _) (fun _ => hlp)) (rend_goWrap hr rp rp (Nat.le_refl _) (fun _ => hrp))
        (Nat.le_refl _)
    | none =>
      obtain ⟨hb, hp7⟩ := goInfix_none hf
      rw [hp7]
      have hneg : isNegLong l = false := by
        rcases h.2 with h2 | h2
        · rw [hf] at h2; cases h2
        · exact h2
      simp only [pieceToks_append, pieceToks_goWrap, pieceToks_t, pieceToks_nil]
      exact .method hb (rend_goWrap hl 7 7 (Nat.le_refl _) (fun hn => by rw [hneg] at hn; cases hn))
        (rend_goWrap hr 7 0 (Nat.zero_le _) (fun _ => by omega)) (Nat.le_refl _)
  | .ite c t e, h => by
    simp only [inFragGo, Bool.and_eq_true] at h
    simp only [marshalExpr, pieceToks_append, pieceToks_goWrap, pieceToks_s, pieceToks_t]
    exact .ite (rend_goWrap (marshal_rend c h.1.1) 0 0 (Nat.le_refl _) (fun _ => by omega))
      (rend_goWrap (marshal_rend t h.1.2) 0 0 (Nat.le_refl _) (fun _ => by omega))
      (rend_goWrap (marshal_rend e h.2) 0 0 (Nat.le_refl _) (fun _ => by omega))
  | .access e a, h => by
    simp only [inFragGo, Bool.and_eq_true, Bool.not_eq_true'] at h
    have hr := rend_goWrap (marshal_rend e h.1.1) 7 7 (Nat.le_refl _) (fun hn => by rw [h.2] at hn; cases hn)
    have hp : prec (.access e a) = 7 := rfl
    rw [hp]
    simp only [marshalExpr, goAccessP, pieceToks_append, pieceToks_goWrap]
    by_cases hc : isIdentName a = true
    · simp only [hc, ↓reduceIte, pieceToks_t, pieceToks_nil]
      exact .accessDot a hr (Nat.le_refl _)
    · simp only [hc, Bool.false_eq_true, ↓reduceIte, pieceToks_t, pieceToks_nil]
      exact .accessIdx a ((noFFFD_iff a).mp h.1.2) hr (Nat.le_refl _)
  | .has e a, h => by
    simp only [inFragGo, Bool.and_eq_true] at h
    have hr := rend_goWrap (marshal_rend e h.1) 4 4 (Nat.le_refl _) (fun _ => by omega)
    have hp : prec (.has e a) = 3 := rfl
    rw [hp]
    simp only [marshalExpr, goAttrP, pieceToks_append, pieceToks_goWrap, pieceToks_s, pieceToks_t]
    by_cases hc : isIdentName a = true
    · simp only [hc, ↓reduceIte, pieceToks_t, pieceToks_nil]
      exact .hasId a hr (Nat.le_refl _)
    · simp only [hc, Bool.false_eq_true, ↓reduceIte, pieceToks_t, pieceToks_nil]
      exact .hasStr a ((noFFFD_iff a).mp h.2) hr (Nat.le_refl _)
  | .like _ _, h => by simp [inFragGo] at h
  | .is e ty, h => by
    simp only [inFragGo, Bool.and_eq_true] at h
    obtain ⟨first, parts, hp⟩ := pathOK_of_isPathName ty h.2
    have hpr : prec (.is e ty) = 3 := rfl
    rw [hpr]
    simp only [marshalExpr, pieceToks_append, pieceToks_goWrap, pieceToks_s, pieceToks_t, pieceToks_toksP]
    exact .is ty first parts hp (rend_goWrap (marshal_rend e h.1) 4 4 (Nat.le_refl _) (fun _ => by omega)) (Nat.le_refl _)
  | .isIn e ty r, h => by
    simp only [inFragGo, Bool.and_eq_true] at h
    obtain ⟨first, parts, hp⟩ := pathOK_of_isPathName ty h.1.2
    have hpr : prec (.isIn e ty r) = 3 := rfl
    rw [hpr]
    simp only [marshalExpr, pieceToks_append, pieceToks_goWrap, pieceToks_s, pieceToks_t, pieceToks_toksP]
    exact .isIn ty first parts hp (rend_goWrap (marshal_rend e h.1.1) 4 4 (Nat.le_refl _) (fun _ => by omega))
      (rend_goWrap (marshal_rend r h.2) 4 4 (Nat.le_refl _) (fun _ => by omega)) (Nat.le_refl _)
  | .set es, h => by
    simp only [inFragGo] at h
    simp only [marshalExpr, pieceToks_t, pieceToks_append, pieceToks_nil]
    exact .set (marshalArgs_rend 8 es h)
  | .record kes, h => by
    simp only [inFragGo, Bool.and_eq_true, decide_eq_true_eq] at h
    simp only [marshalExpr, pieceToks_t, pieceToks_append, pieceToks_nil]
    exact .record (marshalKVs_rend kes h.1) h.2
  | .call fn [], h => by
    simp only [inFragGo, Bool.and_eq_true] at h
    by_cases hm : isMethodName fn = true
    · simp [callOK, hm] at h
    · have hm' : isMethodName fn = false := by simpa using hm
      have hp : prec (.call fn []) = 8 := by simp [prec, hm']
      rw [hp]
      simp only [marshalExpr, hm', Bool.false_eq_true, ↓reduceIte, pieceToks_t, pieceToks_append, pieceToks_nil]
      exact .callFn (checkFunction_of_callOK fn [] hm' h.1.1) (marshalArgs_rend 7 [] rfl)
  | .call fn (recv :: rest), h => by
    simp only [inFragGo, inFragGoList, Bool.and_eq_true, Bool.or_eq_true, Bool.not_eq_true'] at h
    by_cases hm : isMethodName fn = true
    · have hp : prec (.call fn (recv :: rest)) = 7 := by simp [prec, hm]
      rw [hp]
      have hneg : isNegLong recv = false := by
        rcases h.2 with h2 | h2
        · rw [hm] at h2; cases h2
        · exact h2
      simp only [marshalExpr, hm, ↓reduceIte, pieceToks_t, pieceToks_append, pieceToks_goWrap, pieceToks_nil]
      exact .callMethod (mkMethod_ext fn hm recv rest)
        (rend_goWrap (marshal_rend recv h.1.2.1) 7 7 (Nat.le_refl _) (fun hn => by rw [hneg] at hn; cases hn))
        (marshalArgs_rend 7 rest h.1.2.2) (Nat.le_refl _)
    · have hm' : isMethodName fn = false := by simpa using hm
      have hp : prec (.call fn (recv :: rest)) = 8 := by simp [prec, hm']
      rw [hp]
      simp only [marshalExpr, hm', Bool.false_eq_true, ↓reduceIte, pieceToks_t, pieceToks_append, pieceToks_nil]
      have hargs : inFragGoList (recv :: rest) = true := by simp [inFragGoList, h.1.2.1, h.1.2.2]
      exact .callFn (checkFunction_of_callOK fn _ hm' h.1.1) (marshalArgs_rend 7 (recv :: rest) hargs)
theorem marshalArgs_rend (g : Nat) : ∀ (es : List Expr), inFragGoList es = true → Rend (.args es) (pieceToks (marshalArgs g es))
  | [], _ => .argsNil
  | [e], h => by
    simp only [inFragGoList, Bool.and_true] at h
    simp only [marshalArgs, pieceToks_goWrap]
    exact .argsOne (rend_goWrap (marshal_rend e h) g 0 (Nat.zero_le _) (fun _ => by omega))
  | e :: e' :: es, h => by
    simp only [inFragGoList, Bool.and_eq_true] at h
    have h2 : inFragGoList (e' :: es) = true := by simp [inFragGoList, h.2.1, h.2.2]
    simp only [marshalArgs, pieceToks_append, pieceToks_goWrap, pieceToks_t, pieceToks_s]
    exact .argsCons (rend_goWrap (marshal_rend e h.1) g 0 (Nat.zero_le _) (fun _ => by omega)) (marshalArgs_rend g (e' :: es) h2)
theorem marshalKVs_rend : ∀ (kes : List (String × Expr)), inFragGoKVs kes = true → Rend (.kvs kes) (pieceToks (marshalKVs kes))
  | [], _ => .kvsNil
  | [(k, e)], h => by
    simp only [inFragGoKVs, Bool.and_true, Bool.and_eq_true] at h
    simp only [marshalKVs, pieceToks_t, pieceToks_goWrap]
    exact .kvsOne (keyTok_string k ((noFFFD_iff k).mp h.1)) (rend_goWrap (marshal_rend e h.2) 8 0 (Nat.zero_le _) (fun _ => by omega))
  | (k, e) :: ke' :: kes, h => by
    rw [inFragGoKVs] at h
    simp only [Bool.and_eq_true] at h
    have h2 : inFragGoKVs (ke' :: kes) = true := h.2
    simp only [marshalKVs, pieceToks_t, pieceToks_append, pieceToks_goWrap, pieceToks_s]
    exact .kvsCons (keyTok_string k ((noFFFD_iff k).mp h.1.1)) (rend_goWrap (marshal_rend e h.1.2) 8 0 (Nat.zero_le _) (fun _ => by omega))
      (by simp) (marshalKVs_rend (ke' :: kes) h2)
end

/-! ## policies -/

/-- policies on which `MarshalCedar` is proved to round-trip exactly -/
def policyInFragGo (p : Policy) : Bool :=
  p.annotations.isEmpty && p.principal.isAll && p.action.isAll && p.resource.isAll && p.position == {} &&
  p.conditions.all (fun c => inFragGo c.2)

theorem simple_of_inFragGo {p : Policy} (h : policyInFragGo p = true) : SimplePolicy p := by
  simp only [policyInFragGo, Bool.and_eq_true, List.isEmpty_iff, beq_iff_eq] at h
  obtain ⟨⟨⟨⟨⟨h1, h2⟩, h3⟩, h4⟩, h5⟩, _⟩ := h
  refine ⟨h1, ?_, ?_, ?_, h5⟩
  · cases hp : p.principal <;> simp [hp, Scope.isAll] at h2; rfl
  · cases hp : p.action <;> simp [hp, Scope.isAll] at h3; rfl
  · cases hp : p.resource <;> simp [hp, Scope.isAll] at h4; rfl

theorem condsRend_marshal : ∀ (cs : List (Bool × Expr)), cs.all (fun c => inFragGo c.2) = true →
    CondsRend cs (pieceToks (marshalConditions cs))
  | [], _ => .nil
  | (w, e) :: cs, h => by
    simp only [List.all_cons, Bool.and_eq_true] at h
    simp only [marshalConditions, pieceToks_s, pieceToks_t, pieceToks_append]
    have hr : ReadsAt 0 e (pieceToks (marshalExpr e)) :=
      (rend_spec (rend_mono (marshal_rend e h.1) (Nat.zero_le _)) (Nat.zero_le _)).1
    exact .cons hr (condsRend_marshal cs h.2)

theorem marshalPolicy_simple {p : Policy} (hp : SimplePolicy p) :
    pieceToks (marshalPolicy p) = simpleHead p.effect ++ (pieceToks (marshalConditions p.conditions) ++ [opT ";"]) := by
  obtain ⟨ha, hpr, hac, hre, _⟩ := hp
  unfold marshalPolicy
  rw [ha, hpr, hac, hre]
  cases p.effect <;> simp [marshalAnnotations, Scope.isAll, simpleHead, effectTok]

theorem parse_marshalPolicy {p : Policy} (h : policyInFragGo p = true) :
    parsePolicy (pieceToks (marshalPolicy p)) = some (.ok p) := by
  have hs := simple_of_inFragGo h
  rw [marshalPolicy_simple hs]
  refine policy_simple_read hs (condsRend_marshal _ ?_)
  simp only [policyInFragGo, Bool.and_eq_true] at h
  exact h.2

/-- token list of `PolicyList.MarshalCedar` (policies separated by white space only) -/
def marshalListToks : List Policy → List Token
  | [] => []
  | p :: ps => pieceToks (marshalPolicy p) ++ marshalListToks ps

theorem polsRend_marshal : ∀ (ps : List Policy), ps.all policyInFragGo = true → PolsRend ps (marshalListToks ps)
  | [], _ => .nil
  | p :: ps, h => by
    simp only [List.all_cons, Bool.and_eq_true] at h
    have hs := simple_of_inFragGo h.1
    have hc : p.conditions.all (fun c => inFragGo c.2) = true := by
      have := h.1
      simp only [policyInFragGo, Bool.and_eq_true] at this
      exact this.2
    simp only [marshalListToks, marshalPolicy_simple hs, List.append_assoc, List.singleton_append]
    exact .cons hs (condsRend_marshal _ hc) (polsRend_marshal ps h.2)

/-! ## general policy heads -/

theorem pieceToks_uidListP : ∀ (es : List UID), pieceToks (uidListP es) = uidListToks es
  | [] => rfl
  | [u] => by simp [uidListP, uidListToks, uidP]
  | u :: u' :: us => by
    have ih := pieceToks_uidListP (u' :: us)
    simp [uidListP, uidListToks, uidP, ih]

theorem pieceToks_marshalScope (v : Var) (sc : Scope) : pieceToks (marshalScope v sc) = scopeToks v sc := by
  cases sc <;> simp [marshalScope, scopeToks, uidP, pieceToks_uidListP]

theorem pieceToks_marshalAnnotations : ∀ (anns : List (String × String)), pieceToks (marshalAnnotations anns) = annotationToks anns
  | [] => rfl
  | (k, v) :: rest => by simp [marshalAnnotations, annotationToks, pieceToks_marshalAnnotations rest]

theorem marshalPolicy_head (p : Policy) :
    pieceToks (marshalPolicy p) = headToks (headOf p) ++ (pieceToks (marshalConditions p.conditions) ++ [opT ";"]) := by
  unfold marshalPolicy
  by_cases hall : (p.principal.isAll && p.action.isAll && p.resource.isAll) = true
  · simp only [hall, ↓reduceIte]
    simp only [Bool.and_eq_true] at hall
    have h1 : p.principal = .all := by cases hp : p.principal <;> simp [hp, Scope.isAll] at hall; rfl
    have h2 : p.action = .all := by cases hp : p.action <;> simp [hp, Scope.isAll] at hall; rfl
    have h3 : p.resource = .all := by cases hp : p.resource <;> simp [hp, Scope.isAll] at hall; rfl
    simp [headToks, headOf, h1, h2, h3, scopeToks, varName, pieceToks_marshalAnnotations, effectTok]
    cases p.effect <;> rfl
  · simp only [hall, Bool.false_eq_true, ↓reduceIte]
    simp [headToks, headOf, pieceToks_marshalAnnotations, pieceToks_marshalScope, effectTok]
    cases p.effect <;> rfl

theorem policyReads_marshal {p : Policy} (h : policyOKGo p = true) : PolicyReads p (pieceToks (marshalPolicy p)) := by
  simp only [policyOKGo, Bool.and_eq_true, beq_iff_eq] at h
  rw [marshalPolicy_head]
  exact policyReads_of_head h.1.1 h.1.2 (condsRend_marshal _ h.2)

theorem polsReads_marshal : ∀ (ps : List Policy), ps.all policyOKGo = true → PolsReads ps (marshalListToks ps)
  | [], _ => .nil
  | p :: ps, h => by
    simp only [List.all_cons, Bool.and_eq_true] at h
    exact .cons (policyReads_marshal h.1) (polsReads_marshal ps h.2)

end CedarGo.Text
