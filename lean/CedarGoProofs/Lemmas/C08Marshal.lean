/-
  Helper lemmas for C08: on its correct domain, the token list written by the model of Go's `MarshalCedar`
  is a valid rendering (`Rend`) of the same expression, hence parsed back to the identical tree.
-/
import CedarGoProofs.Lemmas.C07Head
import CedarGo.Model.Text.Marshal
namespace CedarGo.Text
open CedarGo

/-! ## tokens of a piece list -/

@[simp] theorem pieceToks_nil : pieceToks [] = [] := rfl
@[simp] theorem pieceToks_t (t : Token) (ps : List Piece) : pieceToks (.t t :: ps) = t :: pieceToks ps := rfl
@[simp] theorem pieceToks_s (s : String) (ps : List Piece) : pieceToks (.s s :: ps) = pieceToks ps := rfl

@[simp] theorem pieceToks_append (a b : List Piece) : pieceToks (a ++ b) = pieceToks a ++ pieceToks b := by
  induction a with
  | nil => rfl
  | cons p ps ih => cases p <;> simp [ih]

@[simp] theorem pieceToks_toksP (ts : List Token) : pieceToks (toksP ts) = ts := by
  induction ts with
  | nil => rfl
  | cons t ts ih => simp [toksP] at ih ⊢; exact ih

theorem pieceToks_goWrap (lvl : Nat) (c : Expr) (ps : List Piece) :
    pieceToks (goWrap lvl c ps) = wrapIf (decide (lvl > goPrec c)) (pieceToks ps) := by
  unfold goWrap wrapIf
  by_cases h : lvl > goPrec c <;> simp [h]

theorem pieceToks_goWrapRecv (lvl : Nat) (c : Expr) (ps : List Piece) :
    pieceToks (goWrapRecv lvl c ps) = wrapIf (isNegLong c || decide (lvl > goPrec c)) (pieceToks ps) := by
  unfold goWrapRecv
  cases hn : isNegLong c with
  | true => simp [wrapIf]
  | false => simp [pieceToks_goWrap]

/-! ## Go's levels against the grammar's -/

theorem goPrec_le_prec (c : Expr) (h : isNegLong c = false) : goPrec c ≤ prec c := by
  cases c with
  | lit v =>
    cases v <;> simp [goPrec, prec]
    rename_i n
    simp only [isNegLong, decide_eq_false_iff_not] at h
    simp [h]
  | call fn args => simp only [goPrec, prec]; split <;> omega
  | unop op e => cases op <;> simp [goPrec, prec]
  | _ => simp [goPrec, prec]

theorem prec_negLong (c : Expr) (h : isNegLong c = true) : prec c = 6 := by
  cases c with
  | lit v =>
    cases v <;> simp [isNegLong] at h
    simp [prec, h]
  | _ => simp [isNegLong] at h

/-- an operand written by `marshalChildNode(g, c)` is a valid rendering where level `q ≤ g` is required,
    unless `c` is a negative literal and `q = 7` (receivers: `rend_goWrapRecv`) -/
theorem rend_goWrap {c : Expr} {ts : List Token} (h : Rend (.e (prec c) c) ts) (g q : Nat) (hq : q ≤ g)
    (hneg : isNegLong c = true → q ≤ 6) : Rend (.e q c) (wrapIf (decide (g > goPrec c)) ts) := by
  refine rend_wrap h _ q (fun hb => ?_)
  simp only [decide_eq_false_iff_not, Nat.not_lt] at hb
  cases hn : isNegLong c with
  | true => rw [prec_negLong c hn]; exact hneg hn
  | false => exact Nat.le_trans (Nat.le_trans hq hb) (goPrec_le_prec c hn)

/-- a receiver written by `marshalReceiverNode(7, c)` is a valid rendering at member level -/
theorem rend_goWrapRecv {c : Expr} {ts : List Token} (h : Rend (.e (prec c) c) ts) :
    Rend (.e 7 c) (wrapIf (isNegLong c || decide (7 > goPrec c)) ts) := by
  cases hn : isNegLong c with
  | true => exact rend_wrap h _ 7 (fun hb => by simp at hb)
  | false =>
    simp only [Bool.false_or]
    exact rend_goWrap h 7 7 (Nat.le_refl _) (fun hn' => by rw [hn] at hn'; cases hn')

theorem goInfix_binForm {op : BinOp} {tok : Token} {lp rp : Nat} (h : goInfix op = some (tok, lp, rp)) :
    binForm op = .infixOp tok lp rp ∧ lp ≤ 6 ∧ rp ≤ 6 := by
  cases op <;> simp [goInfix] at h <;> obtain ⟨rfl, rfl, rfl⟩ := h <;> simp [binForm]

theorem goInfix_none {op : BinOp} (h : goInfix op = none) : binForm op = .method (goMethodName op) ∧ binPrec op = 7 := by
  cases op <;> simp [goInfix] at h <;> simp [binForm, goMethodName, binPrec]

mutual
/-- the token list of `MarshalCedar(e)` is a valid rendering of `e` at the natural level of `e` -/
theorem marshal_rend : ∀ (e : Expr), inFragGo e = true → Rend (.e (prec e) e) (pieceToks (marshalExpr e))
  | .lit v, h => by
    cases v <;> simp [inFragGo] at h
    · rename_i b; exact .litBool b
    · rename_i n
      simp only [marshalExpr, marshalLit]
      by_cases hn : n < 0
      · have hp : prec (.lit (.long n)) = 6 := by simp [prec, hn]
        rw [hp]
        simp only [hn, ↓reduceIte, pieceToks_t, pieceToks_nil]
        have := Rend.litNeg (lvl := 6) n.natAbs (by omega) (Nat.le_refl _)
        rw [int_natAbs_neg n hn] at this
        exact this
      · have hp : prec (.lit (.long n)) = 8 := by simp [prec, hn]
        rw [hp]
        simp only [hn, ↓reduceIte, pieceToks_t, pieceToks_nil]
        have := Rend.litNat (lvl := 8) n.toNat (by omega)
        rw [int_toNat_nonneg n hn] at this
        exact this
    · rename_i s; exact .litStr s
    · rename_i ty id
      obtain ⟨first, parts, hp⟩ := pathOK_of_isPathName ty h
      simp only [marshalExpr, marshalLit, pieceToks_toksP]
      exact .entity ty id first parts hp
  | .var v, _ => .var v
  | .unop .not e, h => by
    simp only [inFragGo] at h
    simp only [marshalExpr, pieceToks_t, pieceToks_goWrap]
    exact .not (rend_goWrap (marshal_rend e h) 6 6 (Nat.le_refl _) (fun _ => Nat.le_refl _)) (Nat.le_refl _)
  | .unop .neg e, h => by
    simp only [inFragGo, Bool.and_eq_true, Bool.not_eq_true'] at h
    have hp : prec (.unop .neg e) = 6 := rfl
    rw [hp]
    simp only [marshalExpr, pieceToks_t, pieceToks_goWrap]
    have hw := rend_goWrap (marshal_rend e h.1) 6 6 (Nat.le_refl _) (fun _ => Nat.le_refl _)
    exact .neg hw (negLitAt_of_rend hw (Nat.le_refl _) h.2) (Nat.le_refl _)
  | .unop .isEmpty e, h => by
    simp only [inFragGo] at h
    simp only [marshalExpr, pieceToks_append, pieceToks_goWrapRecv, pieceToks_toksP]
    exact .isEmpty (rend_goWrapRecv (marshal_rend e h)) (Nat.le_refl _)
  | .binop op l r, h => by
    simp only [inFragGo, Bool.and_eq_true] at h
    have hl := marshal_rend l h.1
    have hr := marshal_rend r h.2
    have hp : prec (.binop op l r) = binPrec op := rfl
    rw [hp]
    simp only [marshalExpr]
    cases hf : goInfix op with
    | some v =>
      obtain ⟨tok, lp, rp⟩ := v
      obtain ⟨hb, hlp, hrp⟩ := goInfix_binForm hf
      simp only [pieceToks_append, pieceToks_goWrap, pieceToks_s, pieceToks_t]
      exact .infixOp hb (rend_goWrap hl lp lp (Nat.le_refl _) (fun _ => hlp)) (rend_goWrap hr rp rp (Nat.le_refl _) (fun _ => hrp))
        (Nat.le_refl _)
    | none =>
      obtain ⟨hb, hp7⟩ := goInfix_none hf
      rw [hp7]
      simp only [pieceToks_append, pieceToks_goWrap, pieceToks_goWrapRecv, pieceToks_t, pieceToks_nil]
      exact .method hb (rend_goWrapRecv hl) (rend_goWrap hr 7 0 (Nat.zero_le _) (fun _ => by omega)) (Nat.le_refl _)
  | .ite c t e, h => by
    simp only [inFragGo, Bool.and_eq_true] at h
    simp only [marshalExpr, pieceToks_append, pieceToks_goWrap, pieceToks_s, pieceToks_t]
    exact .ite (rend_goWrap (marshal_rend c h.1.1) 0 0 (Nat.le_refl _) (fun _ => by omega))
      (rend_goWrap (marshal_rend t h.1.2) 0 0 (Nat.le_refl _) (fun _ => by omega))
      (rend_goWrap (marshal_rend e h.2) 0 0 (Nat.le_refl _) (fun _ => by omega))
  | .access e a, h => by
    simp only [inFragGo] at h
    have hr := rend_goWrapRecv (marshal_rend e h)
    have hp : prec (.access e a) = 7 := rfl
    rw [hp]
    simp only [marshalExpr, goAccessP, pieceToks_append, pieceToks_goWrapRecv]
    by_cases hc : isIdentName a = true
    · simp only [hc, ↓reduceIte, pieceToks_t, pieceToks_nil]
      exact .accessDot a hr (Nat.le_refl _)
    · simp only [hc, Bool.false_eq_true, ↓reduceIte, pieceToks_t, pieceToks_nil]
      exact .accessIdx a hr (Nat.le_refl _)
  | .has e a, h => by
    simp only [inFragGo] at h
    have hr := rend_goWrap (marshal_rend e h) 4 4 (Nat.le_refl _) (fun _ => by omega)
    have hp : prec (.has e a) = 3 := rfl
    rw [hp]
    simp only [marshalExpr, goAttrP, pieceToks_append, pieceToks_goWrap, pieceToks_s, pieceToks_t]
    by_cases hc : isIdentName a = true
    · simp only [hc, ↓reduceIte, pieceToks_t, pieceToks_nil]
      exact .hasId a hr (Nat.le_refl _)
    · simp only [hc, Bool.false_eq_true, ↓reduceIte, pieceToks_t, pieceToks_nil]
      exact .hasStr a hr (Nat.le_refl _)
  | .like _ _, h => by simp [inFragGo] at h
  | .is e ty, h => by
    simp only [inFragGo, Bool.and_eq_true] at h
    obtain ⟨first, parts, hp⟩ := pathOK_of_isPathName ty h.2
    have hpr : prec (.is e ty) = 3 := rfl
    rw [hpr]
    simp only [marshalExpr, pieceToks_append, pieceToks_goWrap, pieceToks_s, pieceToks_t, pieceToks_toksP]
    exact .is ty first parts hp (rend_goWrap (marshal_rend e h.1) 4 4 (Nat.le_refl _) (fun _ => by omega)) (Nat.le_refl _)
  | .isIn e ty r, h => by
    simp only [inFragGo, Bool.and_eq_true] at h
    obtain ⟨first, parts, hp⟩ := pathOK_of_isPathName ty h.1.2
    have hpr : prec (.isIn e ty r) = 3 := rfl
    rw [hpr]
    simp only [marshalExpr, pieceToks_append, pieceToks_goWrap, pieceToks_s, pieceToks_t, pieceToks_toksP]
    exact .isIn ty first parts hp (rend_goWrap (marshal_rend e h.1.1) 4 4 (Nat.le_refl _) (fun _ => by omega))
      (rend_goWrap (marshal_rend r h.2) 4 4 (Nat.le_refl _) (fun _ => by omega)) (Nat.le_refl _)
  | .set es, h => by
    simp only [inFragGo] at h
    simp only [marshalExpr, pieceToks_t, pieceToks_append, pieceToks_nil]
    exact .set (marshalArgs_rend 8 es h)
  | .record kes, h => by
    simp only [inFragGo, Bool.and_eq_true, decide_eq_true_eq] at h
    simp only [marshalExpr, pieceToks_t, pieceToks_append, pieceToks_nil]
    exact .record (marshalKVs_rend kes h.1) h.2
  | .call fn [], h => by
    simp only [inFragGo, Bool.and_eq_true] at h
    by_cases hm : isMethodName fn = true
    · simp [callOK, hm] at h
    · have hm' : isMethodName fn = false := by simpa using hm
      have hp : prec (.call fn []) = 8 := by simp [prec, hm']
      rw [hp]
      simp only [marshalExpr, hm', Bool.false_eq_true, ↓reduceIte, pieceToks_t, pieceToks_append, pieceToks_nil]
      exact .callFn (checkFunction_of_callOK fn [] hm' h.1) (marshalArgs_rend 7 [] rfl)
  | .call fn (recv :: rest), h => by
    simp only [inFragGo, inFragGoList, Bool.and_eq_true] at h
    by_cases hm : isMethodName fn = true
    · have hp : prec (.call fn (recv :: rest)) = 7 := by simp [prec, hm]
      rw [hp]
      simp only [marshalExpr, hm, ↓reduceIte, pieceToks_t, pieceToks_append, pieceToks_goWrapRecv, pieceToks_nil]
      exact .callMethod (mkMethod_ext fn hm recv rest) (rend_goWrapRecv (marshal_rend recv h.2.1))
        (marshalArgs_rend 7 rest h.2.2) (Nat.le_refl _)
    · have hm' : isMethodName fn = false := by simpa using hm
      have hp : prec (.call fn (recv :: rest)) = 8 := by simp [prec, hm']
      rw [hp]
      simp only [marshalExpr, hm', Bool.false_eq_true, ↓reduceIte, pieceToks_t, pieceToks_append, pieceToks_nil]
      have hargs : inFragGoList (recv :: rest) = true := by simp [inFragGoList, h.2.1, h.2.2]
      exact .callFn (checkFunction_of_callOK fn _ hm' h.1) (marshalArgs_rend 7 (recv :: rest) hargs)
theorem marshalArgs_rend (g : Nat) : ∀ (es : List Expr), inFragGoList es = true → Rend (.args es) (pieceToks (marshalArgs g es))
  | [], _ => .argsNil
  | [e], h => by
    simp only [inFragGoList, Bool.and_true] at h
    simp only [marshalArgs, pieceToks_goWrap]
    exact .argsOne (rend_goWrap (marshal_rend e h) g 0 (Nat.zero_le _) (fun _ => by omega))
  | e :: e' :: es, h => by
    simp only [inFragGoList, Bool.and_eq_true] at h
    have h2 : inFragGoList (e' :: es) = true := by simp [inFragGoList, h.2.1, h.2.2]
    simp only [marshalArgs, pieceToks_append, pieceToks_goWrap, pieceToks_t, pieceToks_s]
    exact .argsCons (rend_goWrap (marshal_rend e h.1) g 0 (Nat.zero_le _) (fun _ => by omega)) (marshalArgs_rend g (e' :: es) h2)
theorem marshalKVs_rend : ∀ (kes : List (String × Expr)), inFragGoKVs kes = true → Rend (.kvs kes) (pieceToks (marshalKVs kes))
  | [], _ => .kvsNil
  | [(k, e)], h => by
    simp only [inFragGoKVs, Bool.and_true] at h
    simp only [marshalKVs, pieceToks_t, pieceToks_goWrap]
    exact .kvsOne (keyTok_string k) (rend_goWrap (marshal_rend e h) 8 0 (Nat.zero_le _) (fun _ => by omega))
  | (k, e) :: ke' :: kes, h => by
    rw [inFragGoKVs] at h
    simp only [Bool.and_eq_true] at h
    have h2 : inFragGoKVs (ke' :: kes) = true := h.2
    simp only [marshalKVs, pieceToks_t, pieceToks_append, pieceToks_goWrap, pieceToks_s]
    exact .kvsCons (keyTok_string k) (rend_goWrap (marshal_rend e h.1) 8 0 (Nat.zero_le _) (fun _ => by omega))
      (by simp) (marshalKVs_rend (ke' :: kes) h2)
end

/-! ## policies -/

/-- policies on which `MarshalCedar` is proved to round-trip exactly -/
def policyInFragGo (p : Policy) : Bool :=
  p.annotations.isEmpty && p.principal.isAll && p.action.isAll && p.resource.isAll && p.position == {} &&
  p.conditions.all (fun c => inFragGo c.2)

theorem simple_of_inFragGo {p : Policy} (h : policyInFragGo p = true) : SimplePolicy p := by
  simp only [policyInFragGo, Bool.and_eq_true, List.isEmpty_iff, beq_iff_eq] at h
  obtain ⟨⟨⟨⟨⟨h1, h2⟩, h3⟩, h4⟩, h5⟩, _⟩ := h
  refine ⟨h1, ?_, ?_, ?_, h5⟩
  · cases hp : p.principal <;> simp [hp, Scope.isAll] at h2; rfl
  · cases hp : p.action <;> simp [hp, Scope.isAll] at h3; rfl
  · cases hp : p.resource <;> simp [hp, Scope.isAll] at h4; rfl

theorem condsRend_marshal : ∀ (cs : List (Bool × Expr)), cs.all (fun c => inFragGo c.2) = true →
    CondsRend cs (pieceToks (marshalConditions cs))
  | [], _ => .nil
  | (w, e) :: cs, h => by
    simp only [List.all_cons, Bool.and_eq_true] at h
    simp only [marshalConditions, pieceToks_s, pieceToks_t, pieceToks_append]
    have hr : ReadsAt 0 e (pieceToks (marshalExpr e)) :=
      (rend_spec (rend_mono (marshal_rend e h.1) (Nat.zero_le _)) (Nat.zero_le _)).1
    exact .cons hr (condsRend_marshal cs h.2)

theorem marshalPolicy_simple {p : Policy} (hp : SimplePolicy p) :
    pieceToks (marshalPolicy p) = simpleHead p.effect ++ (pieceToks (marshalConditions p.conditions) ++ [opT ";"]) := by
  obtain ⟨ha, hpr, hac, hre, _⟩ := hp
  unfold marshalPolicy
  rw [ha, hpr, hac, hre]
  cases p.effect <;> simp [marshalAnnotations, Scope.isAll, simpleHead, effectTok]

theorem parse_marshalPolicy {p : Policy} (h : policyInFragGo p = true) :
    parsePolicy (pieceToks (marshalPolicy p)) = some (.ok p) := by
  have hs := simple_of_inFragGo h
  rw [marshalPolicy_simple hs]
  refine policy_simple_read hs (condsRend_marshal _ ?_)
  simp only [policyInFragGo, Bool.and_eq_true] at h
  exact h.2

/-- token list of `PolicyList.MarshalCedar` (policies separated by white space only) -/
def marshalListToks : List Policy → List Token
  | [] => []
  | p :: ps => pieceToks (marshalPolicy p) ++ marshalListToks ps

theorem polsRend_marshal : ∀ (ps : List Policy), ps.all policyInFragGo = true → PolsRend ps (marshalListToks ps)
  | [], _ => .nil
  | p :: ps, h => by
    simp only [List.all_cons, Bool.and_eq_true] at h
    have hs := simple_of_inFragGo h.1
    have hc : p.conditions.all (fun c => inFragGo c.2) = true := by
      have := h.1
      simp only [policyInFragGo, Bool.and_eq_true] at this
      exact this.2
    simp only [marshalListToks, marshalPolicy_simple hs, List.append_assoc, List.singleton_append]
    exact .cons hs (condsRend_marshal _ hc) (polsRend_marshal ps h.2)

/-! ## general policy heads -/

theorem pieceToks_uidListP : ∀ (es : List UID), pieceToks (uidListP es) = uidListToks es
  | [] => rfl
  | [u] => by simp [uidListP, uidListToks, uidP]
  | u :: u' :: us => by
    have ih := pieceToks_uidListP (u' :: us)
    simp [uidListP, uidListToks, uidP, ih]

theorem pieceToks_marshalScope (v : Var) (sc : Scope) : pieceToks (marshalScope v sc) = scopeToks v sc := by
  cases sc <;> simp [marshalScope, scopeToks, uidP, pieceToks_uidListP]

theorem pieceToks_marshalAnnotations : ∀ (anns : List (String × String)), pieceToks (marshalAnnotations anns) = annotationToks anns
  | [] => rfl
  | (k, v) :: rest => by simp [marshalAnnotations, annotationToks, pieceToks_marshalAnnotations rest]

theorem marshalPolicy_head (p : Policy) :
    pieceToks (marshalPolicy p) = headToks (headOf p) ++ (pieceToks (marshalConditions p.conditions) ++ [opT ";"]) := by
  unfold marshalPolicy
  by_cases hall : (p.principal.isAll && p.action.isAll && p.resource.isAll) = true
  · simp only [hall, ↓reduceIte]
    simp only [Bool.and_eq_true] at hall
    have h1 : p.principal = .all := by cases hp : p.principal <;> simp [hp, Scope.isAll] at hall; rfl
    have h2 : p.action = .all := by cases hp : p.action <;> simp [hp, Scope.isAll] at hall; rfl
    have h3 : p.resource = .all := by cases hp : p.resource <;> simp [hp, Scope.isAll] at hall; rfl
    simp [headToks, headOf, h1, h2, h3, scopeToks, varName, pieceToks_marshalAnnotations, effectTok]
    cases p.effect <;> rfl
  · simp only [hall, Bool.false_eq_true, ↓reduceIte]
    simp [headToks, headOf, pieceToks_marshalAnnotations, pieceToks_marshalScope, effectTok]
    cases p.effect <;> rfl

theorem policyReads_marshal {p : Policy} (h : policyOKGo p = true) : PolicyReads p (pieceToks (marshalPolicy p)) := by
  simp only [policyOKGo, Bool.and_eq_true, beq_iff_eq] at h
  rw [marshalPolicy_head]
  exact policyReads_of_head h.1.1 h.1.2 (condsRend_marshal _ h.2)

theorem polsReads_marshal : ∀ (ps : List Policy), ps.all policyOKGo = true → PolsReads ps (marshalListToks ps)
  | [], _ => .nil
  | p :: ps, h => by
    simp only [List.all_cons, Bool.and_eq_true] at h
    exact .cons (policyReads_marshal h.1) (polsReads_marshal ps h.2)

end CedarGo.Text
