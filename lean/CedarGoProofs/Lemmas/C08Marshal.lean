/-
  Helper lemmas for C08: on its correct domain, the token list written by the model of Go's `MarshalCedar`
  is a valid rendering (`Rend`) of the same expression, hence parsed back to the identical tree.
-/
import CedarGoProofs.Lemmas.C07Head
import CedarGoProofs.Lemmas.C08Values
import CedarGo.Model.Text.Marshal
namespace CedarGo.Text
open CedarGo

theorem pieceToks_goWrap (lvl : Nat) (c : Expr) (ps : List Piece) :
    pieceToks (goWrap lvl c ps) = wrapIf (decide (lvl > goPrec c)) (pieceToks ps) := by
  unfold goWrap wrapIf
  by_cases h : lvl > goPrec c <;> simp [h]

theorem pieceToks_goWrapRecv (lvl : Nat) (c : Expr) (ps : List Piece) :
    pieceToks (goWrapRecv lvl c ps) = wrapIf (isNegLong c || decide (lvl > goPrec c)) (pieceToks ps) := by
  unfold goWrapRecv
  cases hn : isNegLong c with
  | true => simp [wrapIf]
  | false => simp [pieceToks_goWrap]

/-! ## Go's levels against the grammar's -/

theorem goPrec_le_prec (c : Expr) (h : isNegLong c = false) : goPrec c ≤ prec c := by
  cases c with
  | lit v =>
    cases v <;> simp [goPrec, prec]
    rename_i n
    simp only [isNegLong, decide_eq_false_iff_not] at h
    simp [h]
  | call fn args => simp only [goPrec, prec]; split <;> omega
  | unop op e => cases op <;> simp [goPrec, prec]
  | _ => simp [goPrec, prec]

theorem prec_negLong (c : Expr) (h : isNegLong c = true) : prec c = 6 := by
  cases c with
  | lit v =>
    cases v <;> simp [isNegLong] at h
    simp [prec, h]
  | _ => simp [isNegLong] at h

/-- an operand written by `marshalChildNode(g, c)` is a valid rendering where level `q ≤ g` is required,
    unless `c` is a negative literal and `q = 7` (receivers: `rend_goWrapRecv`).  `x` = what the text of `c` spells
    (`c` itself, or `desugar c` when `c` contains `NodeValue`s without literal syntax) -/
theorem rend_goWrap {c x : Expr} {ts : List Token} (h : Rend (.e (prec c) x) ts) (g q : Nat) (hq : q ≤ g)
    (hneg : isNegLong c = true → q ≤ 6) : Rend (.e q x) (wrapIf (decide (g > goPrec c)) ts) := by
  refine rend_wrap h _ q (fun hb => ?_)
  simp only [decide_eq_false_iff_not, Nat.not_lt] at hb
  cases hn : isNegLong c with
  | true => rw [prec_negLong c hn]; exact hneg hn
  | false => exact Nat.le_trans (Nat.le_trans hq hb) (goPrec_le_prec c hn)

/-- a receiver written by `marshalReceiverNode(7, c)` is a valid rendering at member level -/
theorem rend_goWrapRecv {c x : Expr} {ts : List Token} (h : Rend (.e (prec c) x) ts) :
    Rend (.e 7 x) (wrapIf (isNegLong c || decide (7 > goPrec c)) ts) := by
  cases hn : isNegLong c with
  | true => exact rend_wrap h _ 7 (fun hb => by simp at hb)
  | false =>
    simp only [Bool.false_or]
    exact rend_goWrap h 7 7 (Nat.le_refl _) (fun hn' => by rw [hn] at hn'; cases hn')

theorem goInfix_binForm {op : BinOp} {tok : Token} {lp rp : Nat} (h : goInfix op = some (tok, lp, rp)) :
    binForm op = .infixOp tok lp rp ∧ lp ≤ 6 ∧ rp ≤ 6 := by
  cases op <;> simp [goInfix] at h <;> obtain ⟨rfl, rfl, rfl⟩ := h <;> simp [binForm]

theorem goInfix_none {op : BinOp} (h : goInfix op = none) : binForm op = .method (goMethodName op) ∧ binPrec op = 7 := by
  cases op <;> simp [goInfix] at h <;> simp [binForm, goMethodName, binPrec]

theorem isNonNegLong_desugar (e : Expr) : isNonNegLong (desugar e) = isNonNegLong e := by
  cases e with
  | lit v => cases v <;> simp [desugar, valExpr, isNonNegLong]
  | _ => simp [desugar, isNonNegLong]

theorem desugarKVs_keys : ∀ (kes : List (String × Expr)), (desugarKVs kes).map (·.1) = kes.map (·.1)
  | [] => rfl
  | (k, e) :: rest => by simp [desugarKVs, desugarKVs_keys rest]

mutual
/-- the token list of `MarshalCedar(e)` is a valid rendering of `desugar e` at the natural level of `e` -/
theorem marshal_rendV : ∀ (e : Expr), inFragGoV e = true → Rend (.e (prec e) (desugar e)) (pieceToks (marshalExpr e))
  | .lit v, h => by
    simp only [inFragGoV] at h
    simp only [marshalExpr, marshalLit, desugar]
    exact val_rend v h
  | .var v, _ => .var v
  | .unop .not e, h => by
    simp only [inFragGoV] at h
    simp only [marshalExpr, desugar, pieceToks_t, pieceToks_goWrap]
    exact .not (rend_goWrap (marshal_rendV e h) 6 6 (Nat.le_refl _) (fun _ => Nat.le_refl _)) (Nat.le_refl _)
  | .unop .neg e, h => by
    simp only [inFragGoV, Bool.and_eq_true, Bool.not_eq_true'] at h
    have hp : prec (.unop .neg e) = 6 := rfl
    rw [hp]
    simp only [marshalExpr, desugar, pieceToks_t, pieceToks_goWrap]
    have hw := rend_goWrap (marshal_rendV e h.1) 6 6 (Nat.le_refl _) (fun _ => Nat.le_refl _)
    exact .neg hw (negLitAt_of_rend hw (Nat.le_refl _) (by rw [isNonNegLong_desugar]; exact h.2)) (Nat.le_refl _)
  | .unop .isEmpty e, h => by
    simp only [inFragGoV] at h
    simp only [marshalExpr, desugar, pieceToks_append, pieceToks_goWrapRecv, pieceToks_toksP]
    exact .isEmpty (rend_goWrapRecv (marshal_rendV e h)) (Nat.le_refl _)
  | .binop op l r, h => by
    simp only [inFragGoV, Bool.and_eq_true] at h
    have hl := marshal_rendV l h.1
    have hr := marshal_rendV r h.2
    have hp : prec (.binop op l r) = binPrec op := rfl
    rw [hp]
    simp only [marshalExpr, desugar]
    cases hf : goInfix op with
    | some v =>
      obtain ⟨tok, lp, rp⟩ := v
      obtain ⟨hb, hlp, hrp⟩ := goInfix_binForm hf
      simp only [pieceToks_append, pieceToks_goWrap, pieceToks_s, pieceToks_t]
      exact .infixOp hb (rend_goWrap hl lp lp (Nat.le_refl _) (fun _ => hlp)) (rend_goWrap hr rp rp (Nat.le_refl _) (fun _ => hrp))
        (Nat.le_refl _)
    | none =>
      obtain ⟨hb, hp7⟩ := goInfix_none hf
      rw [hp7]
      simp only [pieceToks_append, pieceToks_goWrap, pieceToks_goWrapRecv, pieceToks_t, pieceToks_nil]
      exact .method hb (rend_goWrapRecv hl) (rend_goWrap hr 7 0 (Nat.zero_le _) (fun _ => by omega)) (Nat.le_refl _)
  | .ite c t e, h => by
    simp only [inFragGoV, Bool.and_eq_true] at h
    simp only [marshalExpr, desugar, pieceToks_append, pieceToks_goWrap, pieceToks_s, pieceToks_t]
    exact .ite (rend_goWrap (marshal_rendV c h.1.1) 0 0 (Nat.le_refl _) (fun _ => by omega))
      (rend_goWrap (marshal_rendV t h.1.2) 0 0 (Nat.le_refl _) (fun _ => by omega))
      (rend_goWrap (marshal_rendV e h.2) 0 0 (Nat.le_refl _) (fun _ => by omega))
  | .access e a, h => by
    simp only [inFragGoV] at h
    have hr := rend_goWrapRecv (marshal_rendV e h)
    have hp : prec (.access e a) = 7 := rfl
    rw [hp]
    simp only [marshalExpr, desugar, goAccessP, pieceToks_append, pieceToks_goWrapRecv]
    by_cases hc : isIdentName a = true
    · simp only [hc, ↓reduceIte, pieceToks_t, pieceToks_nil]
      exact .accessDot a hr (Nat.le_refl _)
    · simp only [hc, Bool.false_eq_true, ↓reduceIte, pieceToks_t, pieceToks_nil]
      exact .accessIdx a hr (Nat.le_refl _)
  | .has e a, h => by
    simp only [inFragGoV] at h
    have hr := rend_goWrap (marshal_rendV e h) 4 4 (Nat.le_refl _) (fun _ => by omega)
    have hp : prec (.has e a) = 3 := rfl
    rw [hp]
    simp only [marshalExpr, desugar, goAttrP, pieceToks_append, pieceToks_goWrap, pieceToks_s, pieceToks_t]
    by_cases hc : isIdentName a = true
    · simp only [hc, ↓reduceIte, pieceToks_t, pieceToks_nil]
      exact .hasId a hr (Nat.le_refl _)
    · simp only [hc, Bool.false_eq_true, ↓reduceIte, pieceToks_t, pieceToks_nil]
      exact .hasStr a hr (Nat.le_refl _)
  | .like e p, h => by
    simp only [inFragGoV, Bool.and_eq_true] at h
    have hr := rend_goWrap (marshal_rendV e h.1) 4 4 (Nat.le_refl _) (fun _ => by omega)
    obtain ⟨t, ht, hty, _, hparse⟩ := patT_roundtrip p h.2
    have hp : prec (.like e p) = 3 := rfl
    rw [hp]
    simp only [marshalExpr, desugar, ht, pieceToks_append, pieceToks_goWrap, pieceToks_s, pieceToks_t, pieceToks_nil]
    exact .like p t hty hparse hr (Nat.le_refl _)
  | .is e ty, h => by
    simp only [inFragGoV, Bool.and_eq_true] at h
    obtain ⟨first, parts, hp⟩ := pathOK_of_isPathName ty h.2
    have hpr : prec (.is e ty) = 3 := rfl
    rw [hpr]
    simp only [marshalExpr, desugar, pieceToks_append, pieceToks_goWrap, pieceToks_s, pieceToks_t, pieceToks_toksP]
    exact .is ty first parts hp (rend_goWrap (marshal_rendV e h.1) 4 4 (Nat.le_refl _) (fun _ => by omega)) (Nat.le_refl _)
  | .isIn e ty r, h => by
    simp only [inFragGoV, Bool.and_eq_true] at h
    obtain ⟨first, parts, hp⟩ := pathOK_of_isPathName ty h.1.2
    have hpr : prec (.isIn e ty r) = 3 := rfl
    rw [hpr]
    simp only [marshalExpr, desugar, pieceToks_append, pieceToks_goWrap, pieceToks_s, pieceToks_t, pieceToks_toksP]
    exact .isIn ty first parts hp (rend_goWrap (marshal_rendV e h.1.1) 4 4 (Nat.le_refl _) (fun _ => by omega))
      (rend_goWrap (marshal_rendV r h.2) 4 4 (Nat.le_refl _) (fun _ => by omega)) (Nat.le_refl _)
  | .set es, h => by
    simp only [inFragGoV] at h
    simp only [marshalExpr, desugar, pieceToks_t, pieceToks_append, pieceToks_nil]
    exact .set (marshalArgs_rendV 8 es h)
  | .record kes, h => by
    simp only [inFragGoV, Bool.and_eq_true, decide_eq_true_eq] at h
    simp only [marshalExpr, desugar, pieceToks_t, pieceToks_append, pieceToks_nil]
    exact .record (marshalKVs_rendV kes h.1) (by rw [desugarKVs_keys]; exact h.2)
  | .call fn [], h => by
    simp only [inFragGoV, Bool.and_eq_true] at h
    by_cases hm : isMethodName fn = true
    · simp [callOK, hm] at h
    · have hm' : isMethodName fn = false := by simpa using hm
      have hp : prec (.call fn []) = 8 := by simp [prec, hm']
      rw [hp]
      simp only [marshalExpr, desugar, desugarList, hm', Bool.false_eq_true, ↓reduceIte, pieceToks_t, pieceToks_append, pieceToks_nil]
      exact .callFn (checkFunction_of_callOK fn [] hm' h.1) (marshalArgs_rendV 7 [] rfl)
  | .call fn (recv :: rest), h => by
    simp only [inFragGoV, inFragGoVList, Bool.and_eq_true] at h
    by_cases hm : isMethodName fn = true
    · have hp : prec (.call fn (recv :: rest)) = 7 := by simp [prec, hm]
      rw [hp]
      simp only [marshalExpr, desugar, desugarList, hm, ↓reduceIte, pieceToks_t, pieceToks_append, pieceToks_goWrapRecv, pieceToks_nil]
      exact .callMethod (mkMethod_ext fn hm (desugar recv) (desugarList rest)) (rend_goWrapRecv (marshal_rendV recv h.2.1))
        (marshalArgs_rendV 7 rest h.2.2) (Nat.le_refl _)
    · have hm' : isMethodName fn = false := by simpa using hm
      have hp : prec (.call fn (recv :: rest)) = 8 := by simp [prec, hm']
      rw [hp]
      simp only [marshalExpr, desugar, hm', Bool.false_eq_true, ↓reduceIte, pieceToks_t, pieceToks_append, pieceToks_nil]
      have hargs : inFragGoVList (recv :: rest) = true := by simp [inFragGoVList, h.2.1, h.2.2]
      have hcall : callOK fn (desugarList (recv :: rest)) = true := by
        have := h.1
        simpa [callOK, hm', desugarList] using this
      exact .callFn (checkFunction_of_callOK fn _ hm' hcall) (marshalArgs_rendV 7 (recv :: rest) hargs)
theorem marshalArgs_rendV (g : Nat) : ∀ (es : List Expr), inFragGoVList es = true →
    Rend (.args (desugarList es)) (pieceToks (marshalArgs g es))
  | [], _ => .argsNil
  | [e], h => by
    simp only [inFragGoVList, Bool.and_true] at h
    simp only [marshalArgs, desugarList, pieceToks_goWrap]
    exact .argsOne (rend_goWrap (marshal_rendV e h) g 0 (Nat.zero_le _) (fun _ => by omega))
  | e :: e' :: es, h => by
    simp only [inFragGoVList, Bool.and_eq_true] at h
    have h2 : inFragGoVList (e' :: es) = true := by simp [inFragGoVList, h.2.1, h.2.2]
    have ih := marshalArgs_rendV g (e' :: es) h2
    simp only [marshalArgs, desugarList, pieceToks_append, pieceToks_goWrap, pieceToks_t, pieceToks_s] at ih ⊢
    exact .argsCons (rend_goWrap (marshal_rendV e h.1) g 0 (Nat.zero_le _) (fun _ => by omega)) ih
theorem marshalKVs_rendV : ∀ (kes : List (String × Expr)), inFragGoVKVs kes = true →
    Rend (.kvs (desugarKVs kes)) (pieceToks (marshalKVs kes))
  | [], _ => .kvsNil
  | [(k, e)], h => by
    simp only [inFragGoVKVs, Bool.and_true] at h
    simp only [marshalKVs, desugarKVs, pieceToks_t, pieceToks_goWrap]
    exact .kvsOne (keyTok_string k) (rend_goWrap (marshal_rendV e h) 8 0 (Nat.zero_le _) (fun _ => by omega))
  | (k, e) :: ke' :: kes, h => by
    rw [inFragGoVKVs] at h
    simp only [Bool.and_eq_true] at h
    have h2 : inFragGoVKVs (ke' :: kes) = true := h.2
    have ih := marshalKVs_rendV (ke' :: kes) h2
    obtain ⟨k', e'⟩ := ke'
    simp only [marshalKVs, desugarKVs, pieceToks_t, pieceToks_append, pieceToks_goWrap, pieceToks_s] at ih ⊢
    exact .kvsCons (keyTok_string k) (rend_goWrap (marshal_rendV e h.1) 8 0 (Nat.zero_le _) (fun _ => by omega))
      (by simp) ih
end

/-! ## the fragment without value-only `NodeValue`s: the text spells the tree itself -/

mutual
theorem inFragGoV_of_inFragGo : ∀ (e : Expr), inFragGo e = true → inFragGoV e = true ∧ desugar e = e
  | .lit v, h => by
    cases v <;> simp [inFragGo] at h <;> simp [inFragGoV, valOK, inI64B, desugar, valExpr, h]
  | .var v, _ => ⟨rfl, rfl⟩
  | .unop .not e, h => by
    simp only [inFragGo] at h
    have := inFragGoV_of_inFragGo e h
    simp [inFragGoV, desugar, this.1, this.2]
  | .unop .neg e, h => by
    simp only [inFragGo, Bool.and_eq_true] at h
    have := inFragGoV_of_inFragGo e h.1
    simp [inFragGoV, desugar, this.1, this.2, h.2]
  | .unop .isEmpty e, h => by
    simp only [inFragGo] at h
    have := inFragGoV_of_inFragGo e h
    simp [inFragGoV, desugar, this.1, this.2]
  | .binop op l r, h => by
    simp only [inFragGo, Bool.and_eq_true] at h
    have h1 := inFragGoV_of_inFragGo l h.1
    have h2 := inFragGoV_of_inFragGo r h.2
    simp [inFragGoV, desugar, h1.1, h1.2, h2.1, h2.2]
  | .ite c t e, h => by
    simp only [inFragGo, Bool.and_eq_true] at h
    have h1 := inFragGoV_of_inFragGo c h.1.1
    have h2 := inFragGoV_of_inFragGo t h.1.2
    have h3 := inFragGoV_of_inFragGo e h.2
    simp [inFragGoV, desugar, h1.1, h1.2, h2.1, h2.2, h3.1, h3.2]
  | .access e a, h => by
    simp only [inFragGo] at h
    have := inFragGoV_of_inFragGo e h
    simp [inFragGoV, desugar, this.1, this.2]
  | .has e a, h => by
    simp only [inFragGo] at h
    have := inFragGoV_of_inFragGo e h
    simp [inFragGoV, desugar, this.1, this.2]
  | .like e p, h => by
    simp only [inFragGo, Bool.and_eq_true] at h
    have := inFragGoV_of_inFragGo e h.1
    simp [inFragGoV, desugar, this.1, this.2, h.2]
  | .is e ty, h => by
    simp only [inFragGo, Bool.and_eq_true] at h
    have := inFragGoV_of_inFragGo e h.1
    simp [inFragGoV, desugar, this.1, this.2, h.2]
  | .isIn e ty r, h => by
    simp only [inFragGo, Bool.and_eq_true] at h
    have h1 := inFragGoV_of_inFragGo e h.1.1
    have h2 := inFragGoV_of_inFragGo r h.2
    simp [inFragGoV, desugar, h1.1, h1.2, h2.1, h2.2, h.1.2]
  | .set es, h => by
    simp only [inFragGo] at h
    have := inFragGoVList_of es h
    simp [inFragGoV, desugar, this.1, this.2]
  | .record kes, h => by
    simp only [inFragGo, Bool.and_eq_true] at h
    have := inFragGoVKVs_of kes h.1
    simp only [inFragGoV, desugar, this.1, this.2, Bool.true_and, and_true]
    exact h.2
  | .call fn args, h => by
    simp only [inFragGo, Bool.and_eq_true] at h
    have := inFragGoVList_of args h.2
    simp [inFragGoV, desugar, this.1, this.2, h.1]
theorem inFragGoVList_of : ∀ (es : List Expr), inFragGoList es = true → inFragGoVList es = true ∧ desugarList es = es
  | [], _ => ⟨rfl, rfl⟩
  | e :: es, h => by
    simp only [inFragGoList, Bool.and_eq_true] at h
    have h1 := inFragGoV_of_inFragGo e h.1
    have h2 := inFragGoVList_of es h.2
    simp [inFragGoVList, desugarList, h1.1, h1.2, h2.1, h2.2]
theorem inFragGoVKVs_of : ∀ (kes : List (String × Expr)), inFragGoKVs kes = true →
    inFragGoVKVs kes = true ∧ desugarKVs kes = kes
  | [], _ => ⟨rfl, rfl⟩
  | (k, e) :: kes, h => by
    simp only [inFragGoKVs, Bool.and_eq_true] at h
    have h1 := inFragGoV_of_inFragGo e h.1
    have h2 := inFragGoVKVs_of kes h.2
    simp [inFragGoVKVs, desugarKVs, h1.1, h1.2, h2.1, h2.2]
end

/-- the token list of `MarshalCedar(e)` is a valid rendering of `e` at the natural level of `e` -/
theorem marshal_rend (e : Expr) (h : inFragGo e = true) : Rend (.e (prec e) e) (pieceToks (marshalExpr e)) := by
  have := inFragGoV_of_inFragGo e h
  have hr := marshal_rendV e this.1
  rw [this.2] at hr
  exact hr

/-! ## policies -/

/-- policies on which `MarshalCedar` is proved to round-trip exactly -/
def policyInFragGo (p : Policy) : Bool :=
  p.annotations.isEmpty && p.principal.isAll && p.action.isAll && p.resource.isAll && p.position == {} &&
  p.conditions.all (fun c => inFragGo c.2)

theorem simple_of_inFragGo {p : Policy} (h : policyInFragGo p = true) : SimplePolicy p := by
  simp only [policyInFragGo, Bool.and_eq_true, List.isEmpty_iff, beq_iff_eq] at h
  obtain ⟨⟨⟨⟨⟨h1, h2⟩, h3⟩, h4⟩, h5⟩, _⟩ := h
  refine ⟨h1, ?_, ?_, ?_, h5⟩
  · cases hp : p.principal <;> simp [hp, Scope.isAll] at h2; rfl
  · cases hp : p.action <;> simp [hp, Scope.isAll] at h3; rfl
  · cases hp : p.resource <;> simp [hp, Scope.isAll] at h4; rfl

theorem condsRend_marshal : ∀ (cs : List (Bool × Expr)), cs.all (fun c => inFragGo c.2) = true →
    CondsRend cs (pieceToks (marshalConditions cs))
  | [], _ => .nil
  | (w, e) :: cs, h => by
    simp only [List.all_cons, Bool.and_eq_true] at h
    simp only [marshalConditions, pieceToks_s, pieceToks_t, pieceToks_append]
    have hr : ReadsAt 0 e (pieceToks (marshalExpr e)) :=
      (rend_spec (rend_mono (marshal_rend e h.1) (Nat.zero_le _)) (Nat.zero_le _)).1
    exact .cons hr (condsRend_marshal cs h.2)

theorem marshalPolicy_simple {p : Policy} (hp : SimplePolicy p) :
    pieceToks (marshalPolicy p) = simpleHead p.effect ++ (pieceToks (marshalConditions p.conditions) ++ [opT ";"]) := by
  obtain ⟨ha, hpr, hac, hre, _⟩ := hp
  unfold marshalPolicy
  rw [ha, hpr, hac, hre]
  cases p.effect <;> simp [marshalAnnotations, Scope.isAll, simpleHead, effectTok]

theorem parse_marshalPolicy {p : Policy} (h : policyInFragGo p = true) :
    parsePolicy (pieceToks (marshalPolicy p)) = some (.ok p) := by
  have hs := simple_of_inFragGo h
  rw [marshalPolicy_simple hs]
  refine policy_simple_read hs (condsRend_marshal _ ?_)
  simp only [policyInFragGo, Bool.and_eq_true] at h
  exact h.2

/-- token list of `PolicyList.MarshalCedar` (policies separated by white space only) -/
def marshalListToks : List Policy → List Token
  | [] => []
  | p :: ps => pieceToks (marshalPolicy p) ++ marshalListToks ps

theorem polsRend_marshal : ∀ (ps : List Policy), ps.all policyInFragGo = true → PolsRend ps (marshalListToks ps)
  | [], _ => .nil
  | p :: ps, h => by
    simp only [List.all_cons, Bool.and_eq_true] at h
    have hs := simple_of_inFragGo h.1
    have hc : p.conditions.all (fun c => inFragGo c.2) = true := by
      have := h.1
      simp only [policyInFragGo, Bool.and_eq_true] at this
      exact this.2
    simp only [marshalListToks, marshalPolicy_simple hs, List.append_assoc, List.singleton_append]
    exact .cons hs (condsRend_marshal _ hc) (polsRend_marshal ps h.2)

/-! ## general policy heads -/

theorem pieceToks_uidListP : ∀ (es : List UID), pieceToks (uidListP es) = uidListToks es
  | [] => rfl
  | [u] => by simp [uidListP, uidListToks, uidP]
  | u :: u' :: us => by
    have ih := pieceToks_uidListP (u' :: us)
    simp [uidListP, uidListToks, uidP, ih]

theorem pieceToks_marshalScope (v : Var) (sc : Scope) : pieceToks (marshalScope v sc) = scopeToks v sc := by
  cases sc <;> simp [marshalScope, scopeToks, uidP, pieceToks_uidListP]

theorem pieceToks_marshalAnnotations : ∀ (anns : List (String × String)), pieceToks (marshalAnnotations anns) = annotationToks anns
  | [] => rfl
  | (k, v) :: rest => by simp [marshalAnnotations, annotationToks, pieceToks_marshalAnnotations rest]

theorem marshalPolicy_head (p : Policy) :
    pieceToks (marshalPolicy p) = headToks (headOf p) ++ (pieceToks (marshalConditions p.conditions) ++ [opT ";"]) := by
  unfold marshalPolicy
  by_cases hall : (p.principal.isAll && p.action.isAll && p.resource.isAll) = true
  · simp only [hall, ↓reduceIte]
    simp only [Bool.and_eq_true] at hall
    have h1 : p.principal = .all := by cases hp : p.principal <;> simp [hp, Scope.isAll] at hall; rfl
    have h2 : p.action = .all := by cases hp : p.action <;> simp [hp, Scope.isAll] at hall; rfl
    have h3 : p.resource = .all := by cases hp : p.resource <;> simp [hp, Scope.isAll] at hall; rfl
    simp [headToks, headOf, h1, h2, h3, scopeToks, varName, pieceToks_marshalAnnotations, effectTok]
    cases p.effect <;> rfl
  · simp only [hall, Bool.false_eq_true, ↓reduceIte]
    simp [headToks, headOf, pieceToks_marshalAnnotations, pieceToks_marshalScope, effectTok]
    cases p.effect <;> rfl

theorem policyReads_marshal {p : Policy} (h : policyOKGo p = true) : PolicyReads p (pieceToks (marshalPolicy p)) := by
  simp only [policyOKGo, Bool.and_eq_true, beq_iff_eq] at h
  rw [marshalPolicy_head]
  exact policyReads_of_head h.1.1 h.1.2 (condsRend_marshal _ h.2)

/-! ## policies whose conditions contain `NodeValue`s without literal syntax: read back to `desugarPolicy p` -/

theorem condsRend_marshalV : ∀ (cs : List (Bool × Expr)), cs.all (fun c => inFragGoV c.2) = true →
    CondsRend (desugarConds cs) (pieceToks (marshalConditions cs))
  | [], _ => .nil
  | (w, e) :: cs, h => by
    simp only [List.all_cons, Bool.and_eq_true] at h
    simp only [marshalConditions, desugarConds, pieceToks_s, pieceToks_t, pieceToks_append]
    have hr : ReadsAt 0 (desugar e) (pieceToks (marshalExpr e)) :=
      (rend_spec (rend_mono (marshal_rendV e h.1) (Nat.zero_le _)) (Nat.zero_le _)).1
    exact .cons hr (condsRend_marshalV cs h.2)

theorem policyReads_marshalV {p : Policy} (h : policyOKGoV p = true) :
    PolicyReads (desugarPolicy p) (pieceToks (marshalPolicy p)) := by
  simp only [policyOKGoV, Bool.and_eq_true, beq_iff_eq] at h
  rw [marshalPolicy_head]
  exact policyReads_of_head (p := desugarPolicy p) h.1.1 h.1.2 (condsRend_marshalV _ h.2)

theorem polsReads_marshalV : ∀ (ps : List Policy), ps.all policyOKGoV = true → PolsReads (ps.map desugarPolicy) (marshalListToks ps)
  | [], _ => .nil
  | p :: ps, h => by
    simp only [List.all_cons, Bool.and_eq_true] at h
    exact .cons (policyReads_marshalV h.1) (polsReads_marshalV ps h.2)

theorem desugarConds_id : ∀ (cs : List (Bool × Expr)), cs.all (fun c => inFragGo c.2) = true → desugarConds cs = cs
  | [], _ => rfl
  | (w, e) :: cs, h => by
    simp only [List.all_cons, Bool.and_eq_true] at h
    simp [desugarConds, (inFragGoV_of_inFragGo e h.1).2, desugarConds_id cs h.2]

/-- the old fragment is inside the new one, and there the policy is read back unchanged -/
theorem policyOKGoV_of_policyOKGo {p : Policy} (h : policyOKGo p = true) : policyOKGoV p = true ∧ desugarPolicy p = p := by
  simp only [policyOKGo, Bool.and_eq_true] at h
  refine ⟨?_, ?_⟩
  · simp only [policyOKGoV, Bool.and_eq_true, h.1.1, h.1.2, true_and]
    simp only [List.all_eq_true] at h ⊢
    exact fun c hc => (inFragGoV_of_inFragGo c.2 (h.2 c hc)).1
  · simp [desugarPolicy, desugarConds_id _ h.2]

theorem polsReads_marshal : ∀ (ps : List Policy), ps.all policyOKGo = true → PolsReads ps (marshalListToks ps)
  | [], _ => .nil
  | p :: ps, h => by
    simp only [List.all_cons, Bool.and_eq_true] at h
    exact .cons (policyReads_marshal h.1) (polsReads_marshal ps h.2)

end CedarGo.Text
